// Shape families of C14, third part: the frame layout of the two methods the
// compiler assembles from many pieces of source, _initialize (the initialisers
// of all package-level variables of all packages, then all init() functions,
// in ONE frame whose INITSLOT is sized from the temporaries of inlined helpers
// in initialisers and from the locals of the init() functions) and _deploy (all
// _deploy() functions of all packages in one frame).
//
//	initframe-order    1..4 package variables initialised through inlined helpers
//	                   (inlineModule) that need k in {0,1,2,3} temporaries, in every
//	                   order of the k; wide frames (4, 6, 9 temporaries)
//	initframe-inits    such variables combined with 0..3 init() functions having
//	                   0..3 locals and/or inlined helpers of their own
//	initframe-pkgfiles an imported package and two files of package main, each with
//	                   or without an init() of 1 / 3 locals, variables of each
//	                   initialised through helpers of the others
//	initframe-kinds    other kinds of initialisers (plain calls, function literals
//	                   called in place, multi-value helpers with blanks, && / ||,
//	                   unused and blank variables with side effects, composite
//	                   literals, inlined methods) next to big / zero-temporary ones
//	initframe-deploy   _deploy() in package main and/or an imported package with 0..3
//	                   locals or inlined helpers, with and without initialisers and
//	                   init() functions that need a frame (see Prog.Deploy)
//	initframe-statics  numbers of package variables at the limit of INITSSLOT (255),
//	                   with the extra static slot of defer, with unused variables,
//	                   spread over two packages
//	initflow           control flow inside the pieces: return / defer inside init()
//	                   and _deploy()
//
// Every program is a file of its own (the frame belongs to the program). All
// values computed in the frames are observed through an exported function that
// reads the variables.
package c14

import (
	"fmt"
	"strings"
	"sync"
	"sync/atomic"

	"github.com/nspcc-dev/neo-go/pkg/smartcontract/manifest"
	"github.com/nspcc-dev/neo-go/pkg/vm/opcode"
)

func allShapes3(ss *shapeSet, thorough bool) {
	shapesInitOrder(ss, thorough)
	shapesInitInits(ss, thorough)
	shapesInitPkgFiles(ss, thorough)
	shapesInitKinds(ss)
	shapesInitDeploy(ss)
	shapesInitStatics(ss)
	shapesInitFlow(ss)
}

// addSolo adds a program of its own with a header (further files, imports).
func (ss *shapeSet) addSolo(family, tag, cause, hdr, src string) {
	ss.add(family, tag, cause, src, true)
	ss.list[len(ss.list)-1].Hdr = hdr
}

const initHelpers = `package h

var Cnt int

type T struct{ N int }

func (t T) Get() int { return t.N }

func (t *T) Add(i int) int {
	n := t.N
	t.N += i
	return n
}

func Const() int { return 7 }

func Id(x int) int { return x }

func Add2(a, b int) int { return a + b*10 }

func Add3(a, b, c int) int { return a + b*10 + c*100 }

func Add9(a, b, c, d, e, f, g, h, i int) int {
	return a + b*2 + c*3 + d*4 + e*5 + f*6 + g*7 + h*8 + i*9
}

func Loc1(x int) int {
	p := x * 2
	return p + 1
}

func Loc2(x int) int {
	p := x + 1
	q := p * 2
	return p + q
}

func Var(a int, b ...int) int {
	s := a * 100
	for i := range b {
		s += b[i] * (i + 1)
	}
	return s + len(b)*1000
}

func Rng(n int) int {
	t := 0
	for _, v := range []int{1, 2, n} {
		t += v
	}
	return t
}

func Two(x int) (int, int) {
	p := x + 1
	return p, x - 1
}

func Nest(x int) int { return Loc1(Id(x)) + 1 }

func Pos(x int) bool { return x > 0 }

func Bump(x int) int {
	Cnt = Cnt*10 + x
	return Cnt
}
`

const initHdr = "//c14:file inl/h/h.go\n" + initHelpers + "\n//c14:main\nimport \"" + inlineModule + "/h\"\n\n"

// initForms: initialiser expressions by the number of temporaries the inlined
// helpers need in the frame of _initialize (measured once with the unchanged
// compiler; the numbers only name the classes). %c: a small constant, %p: the
// variable declared before (a constant for the first one).
var initForms = map[int][]string{
	0: {"h.Const()", "h.Id(%c)", "h.Add2(%c, %p)"},
	1: {"h.Id(f(%c))", "h.Loc1(%p)", "h.Add2(f(%c), %p)"},
	2: {"h.Add2(f(%c), f(%p))", "h.Loc1(f(%c))", "h.Loc2(%p)", "h.Rng(%c)", "h.Nest(%c)", "h.Id(h.Id(f(%c)))"},
	3: {"h.Var(%c)", "h.Var(%c, %p)", "h.Add3(f(%c), f(%p), f(1))", "h.Loc2(f(%c))", "h.Rng(f(%p))", "h.Nest(f(%c))"},
	4: {"h.Var(f(%c), %p, 3)"},
	6: {"h.Add2(h.Loc1(f(%c)), h.Loc1(f(%p)))"},
	9: {"h.Add9(f(1), f(2), f(%c), f(4), f(%p), f(6), f(7), f(8), f(9))"},
}

// initExpr: the initialiser of the variable at position pos (0-based) needing k
// temporaries; rot selects among the forms of the class.
func initExpr(k, pos, rot int, prev string) string {
	forms := initForms[k]
	f := forms[(pos+rot)%len(forms)]
	if prev == "" {
		prev = fmt.Sprint(pos + 4)
	}
	return strings.ReplaceAll(strings.ReplaceAll(f, "%c", fmt.Sprint(pos+2)), "%p", prev)
}

// globalsOf declares g1..gn with the given numbers of temporaries.
func globalsOf(ks []int, rot int) (decls string, names []string) {
	var b strings.Builder
	prev := ""
	for i, k := range ks {
		name := fmt.Sprintf("g%d", i+1)
		fmt.Fprintf(&b, "var %s = %s\n", name, initExpr(k, i, rot, prev))
		names = append(names, name)
		prev = name
	}
	return b.String(), names
}

// initFunc: an init() function (or the body of a _deploy) of the given kind
// storing what it computed from src into dst:
// "0".."3" = that many locals, "inl" = an inlined helper needing three
// temporaries, "1+inl" = a local and the helper.
func frameBody(kind, dst, src string) string {
	switch kind {
	case "0":
		return fmt.Sprintf("\t%s = %s + 5\n", dst, src)
	case "1":
		return fmt.Sprintf("\tl1 := %s + 1\n\t%s = l1 * 2\n", src, dst)
	case "2":
		return fmt.Sprintf("\tl1 := %s + 1\n\tl2 := l1 * 3\n\t%s = l2 - l1\n", src, dst)
	case "3":
		return fmt.Sprintf("\tl1 := %s + 1\n\tl2 := l1 * 2\n\tl3 := l2 + l1\n\t%s = l3*2 - l2 + l1\n", src, dst)
	case "rng":
		return fmt.Sprintf("\t%s = 0\n\tfor i, v := range []int{1, 2, %s} {\n\t\t%s += v * (i + 1)\n\t}\n", dst, src, dst)
	case "inl":
		return fmt.Sprintf("\t%s = h.Loc2(f(%s))\n", dst, src)
	case "1+inl":
		return fmt.Sprintf("\tl1 := %s + 1\n\t%s = h.Loc2(f(l1)) + l1\n", src, dst)
	}
	panic("frameBody " + kind)
}

// readAll: an exported function folding the named variables.
func readAll(name string, vars []string, extra string) string {
	var b strings.Builder
	fmt.Fprintf(&b, "func %s(a int) int {\n\tr := 1\n", name)
	for _, v := range vars {
		fmt.Fprintf(&b, "\tr = r*31 + %s\n", v)
	}
	if extra != "" {
		fmt.Fprintf(&b, "\tr = r*31 + %s\n", extra)
	}
	b.WriteString("\treturn r + f(a)\n}\n") // f is used from here as well: see initflow/only-last-init-analysed-for-usage
	return b.String()
}

const fHelper = "func f(v int) int { return v + 1 }\n\n"

func seqTag(ks []int) string {
	s := make([]string, len(ks))
	for i, k := range ks {
		s[i] = fmt.Sprint(k)
	}
	return strings.Join(s, "-")
}

// ---- orders of temporaries ---------------------------------------------------------------------------------------------------

func shapesInitOrder(ss *shapeSet, thorough bool) {
	add := func(ks []int) {
		rot := 0
		for _, k := range ks {
			rot = rot*4 + k
		}
		rot += len(ks)
		decls, names := globalsOf(ks, rot)
		ss.addSolo("initframe-order", "temporaries-"+seqTag(ks), "", initHdr, fHelper+decls+"\n"+readAll("A", names, "h.Loc1(a)"))
	}
	var rec func(n int, cur []int)
	rec = func(n int, cur []int) {
		if len(cur) == n {
			add(append([]int{}, cur...))
			return
		}
		for k := 0; k <= 3; k++ {
			rec(n, append(cur, k))
		}
	}
	for n := 1; n <= 3; n++ {
		rec(n, nil)
	}
	if thorough {
		rec(4, nil)
	} else {
		// four variables: descending, ascending, equal, zero last, zero first, maximum in the middle / at both ends
		for _, ks := range [][]int{
			{3, 2, 1, 0}, {0, 1, 2, 3},
			{0, 0, 0, 0}, {1, 1, 1, 1}, {2, 2, 2, 2}, {3, 3, 3, 3},
			{3, 1, 2, 0}, {1, 2, 3, 0}, {2, 2, 1, 0}, {3, 3, 3, 0}, {1, 1, 1, 0},
			{0, 3, 1, 2}, {0, 0, 0, 3}, {0, 3, 0, 0}, {0, 0, 3, 0},
			{1, 3, 1, 1}, {1, 1, 3, 1}, {3, 0, 0, 3}, {0, 3, 3, 0}, {3, 0, 0, 0},
		} {
			add(ks)
		}
	}
	// wide frames: slot indexes beyond the one-byte instructions, before and after small ones
	for _, ks := range [][]int{{9}, {9, 0}, {0, 9}, {9, 1}, {4, 6}, {6, 4}, {6, 0}, {4, 9, 2}} {
		add(ks)
	}
}

// ---- init() functions with locals --------------------------------------------------------------------------------------------

func shapesInitInits(ss *shapeSet, thorough bool) {
	gs := [][]int{{}, {2}, {3, 1}, {1, 3}}
	if thorough {
		gs = append(gs, []int{0}, []int{3}, []int{0, 2, 0}, []int{2, 3, 1})
	}
	is := [][]string{
		{}, {"0"}, {"1"}, {"3"}, {"inl"},
		{"1", "3"}, {"3", "1"}, {"2", "2"}, {"0", "3"}, {"3", "0"},
		{"inl", "1"}, {"1", "inl"}, {"1+inl", "2"}, {"3", "1", "2"}, {"0", "0", "3"},
		{"rng"}, {"rng", "1"}, {"3", "rng"},
	}
	n := 0
	for _, g := range gs {
		for _, in := range is {
			if len(g) == 0 && len(in) == 0 {
				continue
			}
			n++
			decls, names := globalsOf(g, n)
			var fns, res strings.Builder
			src := "4"
			if len(names) > 0 {
				src = names[len(names)-1]
			}
			for i, kind := range in {
				dst := fmt.Sprintf("r%d", i+1)
				fmt.Fprintf(&res, "var %s int\n", dst)
				fmt.Fprintf(&fns, "func init() {\n%s}\n\n", frameBody(kind, dst, src))
				names = append(names, dst)
				src = dst
			}
			body := decls + res.String() + "\n" + fns.String()
			if n%2 == 1 {
				body = fns.String() + decls + res.String() + "\n" // the functions textually before the variables
			}
			ss.addSolo("initframe-inits", "temporaries-"+seqTag(g)+"/init-locals-"+strings.Join(in, ","), "", initHdr, fHelper+body+readAll("A", names, "h.Const()"))
		}
	}
}

// ---- packages and files ------------------------------------------------------------------------------------------------------

func shapesInitPkgFiles(ss *shapeSet, thorough bool) {
	opts := []string{"none", "1", "3"}
	if thorough {
		opts = []string{"none", "0", "1", "3", "inl"}
	}
	initOf := func(kind, dst, src string) string {
		if kind == "none" {
			return ""
		}
		return "func init() {\n" + frameBody(kind, dst, src) + "}\n\n"
	}
	n := 0
	for _, li := range opts {
		for _, pi := range opts {
			for _, qi := range opts {
				n++
				// temporaries of the three initialisers (lib, prog.go, q.go): rotate so that each file is the largest in turn
				ks := [][]int{{0, 3, 2}, {3, 2, 0}, {2, 0, 3}, {1, 1, 1}}[n%4]
				hdr := "//c14:file inl/h/h.go\n" + initHelpers +
					"\n//c14:file lib/lib.go\npackage lib\n\nimport \"" + inlineModule + "/h\"\n\n" +
					"func f(v int) int { return v + 2 }\n\n" +
					"var L1 = " + initExpr(ks[0], 0, n, "") + "\nvar LR int\n\n" +
					initOf(li, "LR", "L1") +
					"func F(x int) int { return x*2 + L1 }\n" +
					"\n//c14:file q.go\npackage main\n\nimport \"" + inlineModule + "/h\"\n\n" +
					"var q1 = " + initExpr(ks[2], 2, n, "fq(m1)") + "\nvar qr int\n\n" +
					"func fq(v int) int { return v + 3 }\n\n" +
					initOf(qi, "qr", "q1") +
					"\n//c14:main\nimport \"x/lib\"\n\nimport \"" + inlineModule + "/h\"\n\n"
				src := fHelper +
					"var m1 = " + initExpr(ks[1], 1, n, "lib.F(2)") + "\nvar m2 = fq(lib.F(m1))\nvar mr int\n\n" +
					initOf(pi, "mr", "m2") +
					readAll("A", []string{"lib.L1", "lib.LR", "m1", "m2", "mr", "q1", "qr"}, "")
				ss.addSolo("initframe-pkgfiles", fmt.Sprintf("lib-init-%s/prog-init-%s/q-init-%s", li, pi, qi), "", hdr, src)
			}
		}
	}
}

// ---- kinds of initialisers -----------------------------------------------------------------------------------------------------

func shapesInitKinds(ss *shapeSet) {
	type kind struct{ name, decl, read string }
	kinds := []kind{
		{"plain-call", "var v = f(3)", "v"},
		{"literal-called-in-place", "var v = func() int {\n\tx := f(1)\n\ty := x * 2\n\treturn x + y\n}()", "v"},
		{"literal-with-argument", "var v = func(p int) int {\n\tq := p + 1\n\treturn q * 2\n}(f(2))", "v"},
		{"two-results-inlined-second-blank", "var v, _ = h.Two(f(3))", "v"},
		{"two-results-inlined-first-blank", "var _, v = h.Two(f(4))", "v"},
		{"two-results-inlined", "var v, w = h.Two(f(5))", "v*100 + w"},
		{"two-results-plain-blank", "var v, _ = two(6)", "v"},
		{"and-or-of-inlined", "var vb = f(1) > 0 && h.Pos(f(2)) || h.Pos(f(-5))", "b2i(vb)"},
		{"and-skipping-an-effect", "var vb = h.Pos(f(-5)) && h.Bump(7) > 0", "b2i(vb)"},
		{"or-skipping-an-effect", "var vb = h.Pos(f(5)) || h.Bump(8) > 0", "b2i(vb)"},
		{"unused-with-effect", "var unused = h.Bump(f(1))", "0"},
		{"blank-with-effect", "var _ = h.Bump(f(2))", "0"},
		{"blank-pair-with-effect", "var _, _ = h.Two(h.Bump(5))", "0"},
		{"slice-literal-of-inlined", "var vs = []int{h.Id(f(1)), h.Loc1(f(2)), h.Const()}", "vs[0]*100 + vs[1]*10 + vs[2] + len(vs)*1000"},
		{"map-and-struct-literal-of-inlined", "var vm = map[int]int{1: h.Id(f(3))}\nvar vp = pt{A: h.Loc1(f(1)), B: h.Const()}", "vm[1]*1000 + vp.A*10 + vp.B"},
		{"inlined-method-on-variable", "var tv = h.T{N: 3}\nvar v = tv.Get() + h.Loc1(tv.Get())", "v"},
		{"inlined-pointer-method-on-variable", "var tp = &h.T{N: 2}\nvar v = tp.Add(f(3)) + tp.Add(1)*10", "v*100 + tp.N"},
		{"conversion-and-builtin", "var vs = []int{1, 2}\nvar v = len(append(vs, h.Id(f(1)))) + int(h.Loc1(f(2)))", "v"},
	}
	const big = "var big = h.Add3(f(1), f(2), f(3))\n"
	const zero = "var zero = h.Add2(3, 4)\n"
	placements := []struct{ name, before, after string }{
		{"alone", "", ""},
		{"big-before", big, ""},
		{"zero-after", "", zero},
		{"between-big-and-zero", big, zero},
	}
	const pre = fHelper + "func two(v int) (int, int) { return v + 1, v + 2 }\n\nfunc b2i(b bool) int {\n\tif b {\n\t\treturn 1\n\t}\n\treturn 0\n}\n\ntype pt struct{ A, B int }\n\n"
	for _, k := range kinds {
		for _, p := range placements {
			reads := []string{}
			if p.before != "" {
				reads = append(reads, "big")
			}
			reads = append(reads, k.read)
			if p.after != "" {
				reads = append(reads, "zero")
			}
			reads = append(reads, "h.Cnt")
			ss.addSolo("initframe-kinds", k.name+"/"+p.name, "", initHdr, pre+p.before+k.decl+"\n"+p.after+"\n"+readAll("A", reads, ""))
		}
	}
}

// ---- _deploy -----------------------------------------------------------------------------------------------------------------

func shapesInitDeploy(ss *shapeSet) {
	deployOf := func(kind, dst, src string) string {
		if kind == "absent" {
			return ""
		}
		return "func _deploy(data any, isUpdate bool) {\n" + frameBody(kind, dst, src) + "\tif isUpdate || data != nil {\n\t\t" + dst + " = -1\n\t}\n}\n\n"
	}
	for _, md := range []string{"absent", "0", "1", "3", "inl", "1+inl"} {
		for _, ld := range []string{"absent", "1", "3"} {
			for _, ini := range []string{"nothing", "temporaries-2", "init-locals-3", "temporaries-3-and-init-locals-1"} {
				var mainInit, g string
				switch ini {
				case "nothing":
					g = "var g = 6\n"
				case "temporaries-2":
					g = "var g = h.Add2(f(1), f(2))\n"
				case "init-locals-3":
					g = "var g = 6\n"
					mainInit = "func init() {\n" + frameBody("3", "g", "g") + "}\n\n"
				default:
					g = "var g = h.Add3(f(1), f(2), f(3))\n"
					mainInit = "func init() {\n" + frameBody("1", "g", "g") + "}\n\n"
				}
				hdr := "//c14:file inl/h/h.go\n" + initHelpers +
					"\n//c14:file lib/lib.go\npackage lib\n\nvar L = 4\nvar D int\n\n" +
					"func init() {\n\tx := L + 1\n\tL = x * 2\n}\n\n" +
					deployOf(ld, "D", "L") +
					"func F(x int) int { return x + L }\n" +
					"\n//c14:main\nimport \"x/lib\"\n\nimport \"" + inlineModule + "/h\"\n\n"
				src := fHelper + g + "var d int\n\n" + mainInit + deployOf(md, "d", "g + lib.D") +
					readAll("A", []string{"g", "d", "lib.D", "lib.L"}, "h.Loc1(lib.F(a))")
				ss.addSolo("initframe-deploy", fmt.Sprintf("main-deploy-%s/lib-deploy-%s/%s", md, ld, ini), "", hdr, src)
			}
		}
	}
}

// ---- numbers of static slots -----------------------------------------------------------------------------------------------------

func shapesInitStatics(ss *shapeSet) {
	// n package variables, all read by the exported function; some initialised through inlined helpers
	vars := func(prefix string, n int, inlineAt map[int]bool) (string, []string) {
		var b strings.Builder
		var names []string
		for i := 0; i < n; i++ {
			name := fmt.Sprintf("%s%d", prefix, i)
			names = append(names, name)
			switch {
			case inlineAt[i]:
				fmt.Fprintf(&b, "var %s = h.Add3(f(%d), f(2), f(3))\n", name, i%5)
			case i%3 == 1:
				fmt.Fprintf(&b, "var %s int\n", name)
			default:
				fmt.Fprintf(&b, "var %s = %d\n", name, i%7+1)
			}
		}
		return b.String(), names
	}
	sum := func(names []string, extra string) string {
		var b strings.Builder
		b.WriteString("func A(a int) int {\n\tk := 0\n")
		if strings.Contains(extra, "k*1000") {
			b.WriteString("\tk = risky(a)\n")
		}
		b.WriteString("\tr := a + k\n")
		for i := 0; i < len(names); i += 8 {
			j := min(i+8, len(names))
			fmt.Fprintf(&b, "\tr += %s\n", strings.Join(names[i:j], " + "))
		}
		last := names[len(names)-1]
		fmt.Fprintf(&b, "\t%s += a\n\tr = r*3 + %s + %s%s\n\treturn r\n}\n", last, last, names[0], extra)
		return "//c14:stateful\n//c14:args 1;7\n" + b.String()
	}
	const deferred = "var caught int\n\nfunc rec() {\n\tif r := recover(); r != nil {\n\t\tcaught += 100\n\t}\n}\n\nfunc risky(a int) int {\n\tdefer rec()\n\tif a == 7 {\n\t\tpanic(\"p\")\n\t}\n\treturn a\n}\n\n"
	for _, n := range []int{254, 255, 256} {
		decls, names := vars("g", n, nil)
		ss.addSolo("initframe-statics", fmt.Sprintf("variables-%d", n), "", initHdr, fHelper+decls+"\n"+sum(names, " + h.Const()"))
	}
	for _, n := range []int{253, 254, 255} { // "caught" is a variable too, defer needs one more static slot
		decls, names := vars("g", n-1, nil)
		ss.addSolo("initframe-statics", fmt.Sprintf("variables-%d-and-defer", n), "", initHdr, fHelper+deferred+decls+"\n"+sum(names, " + k*1000 + caught + h.Const()"))
	}
	{
		decls, names := vars("g", 255, nil)
		unused, _ := vars("u", 40, nil)
		ss.addSolo("initframe-statics", "variables-255-and-40-unused", "", initHdr, fHelper+decls+unused+"\n"+sum(names, " + h.Const()"))
	}
	{
		decls, names := vars("g", 255, map[int]bool{0: true, 100: true, 254: true})
		ss.addSolo("initframe-statics", "variables-255-inlined-initialisers-and-init-locals", "", initHdr, fHelper+decls+"\nfunc init() {\n"+frameBody("3", "g1", "g254")+"}\n\n"+sum(names, " + h.Const()"))
	}
	{
		ldecls, lnames := vars("L", 200, map[int]bool{199: true})
		for i := range lnames {
			lnames[i] = "lib." + lnames[i]
		}
		decls, names := vars("g", 55, map[int]bool{0: true})
		hdr := "//c14:file inl/h/h.go\n" + initHelpers +
			"\n//c14:file lib/lib.go\npackage lib\n\nimport \"" + inlineModule + "/h\"\n\nfunc f(v int) int { return v + 2 }\n\n" + ldecls +
			"\n//c14:main\nimport \"x/lib\"\n\nimport \"" + inlineModule + "/h\"\n\n"
		ss.addSolo("initframe-statics", "variables-200-in-a-package-55-in-main", "", hdr, fHelper+decls+"\n"+sum(append(lnames, names...), " + h.Const()"))
	}
}

// ---- control flow inside init() / _deploy() ------------------------------------------------------------------------------------------

func shapesInitFlow(ss *shapeSet) {
	const leaves = "return-in-init-leaves-initialize"
	add := func(tag, cause, hdr, src string) { ss.addSolo("initflow", tag, cause, hdr, src) }
	add("return-ends-first-init", leaves, "", "var n int\n\nfunc init() {\n\tn = 1\n\treturn\n}\n\nfunc init() { n += 2 }\n\nfunc A(a int) int { return n*100 + a }\n")
	add("conditional-return-in-first-init", leaves, "", "var lg int\nvar ga = 5\n\nfunc init() {\n\tlg = lg*10 + 1\n\tif ga > 3 {\n\t\treturn\n\t}\n\tlg = lg*10 + 2\n}\n\nfunc init() { lg = lg*10 + 3 }\n\nfunc A(a int) int { return lg*100 + ga + a }\n")
	add("return-in-loop-of-first-init", leaves, "", "var n int\n\nfunc init() {\n\tfor i := 0; i < 5; i++ {\n\t\tn += i\n\t\tif i == 2 {\n\t\t\treturn\n\t\t}\n\t}\n\tn = 100\n}\n\nfunc init() { n += 1000 }\n\nfunc A(a int) int { return n + a }\n")
	add("return-in-init-of-imported-package", leaves,
		"//c14:file lib/lib.go\npackage lib\n\nvar On = true\nvar N int\n\nfunc init() {\n\tif On {\n\t\treturn\n\t}\n\tN = 1\n}\n\n//c14:main\nimport \"x/lib\"\n\n",
		"var g = 7\n\nfunc A(a int) int { return g + a + lib.N }\n")
	add("return-in-init-of-first-file", leaves,
		"//c14:file q.go\npackage main\n\nvar q = 3\n\nfunc init() { n += q * 10 }\n\n//c14:main\n",
		"var n int\n\nfunc init() {\n\tn = 1\n\tif n > 0 {\n\t\treturn\n\t}\n\tn = 2\n}\n\nfunc A(a int) int { return n*100 + q + a }\n")
	add("return-in-deploy-of-imported-package", leaves,
		"//c14:file lib/lib.go\npackage lib\n\nvar D int\n\nfunc _deploy(data any, isUpdate bool) {\n\tD = 1\n\tif !isUpdate {\n\t\treturn\n\t}\n\tD = 2\n}\n\n//c14:main\nimport \"x/lib\"\n\n",
		"var d int\n\nfunc _deploy(data any, isUpdate bool) { d = lib.D + 10 }\n\nfunc A(a int) int { return d*100 + lib.D + a }\n")
	// the same statements where nothing follows: must agree
	add("return-in-last-init", "", "", "var n int\n\nfunc init() { n = 1 }\n\nfunc init() {\n\tn += 2\n\tif n > 2 {\n\t\treturn\n\t}\n\tn = 50\n}\n\nfunc A(a int) int { return n*100 + a }\n")
	add("return-in-only-deploy", "", "", "var d int\n\nfunc init() { d = 3 }\n\nfunc _deploy(data any, isUpdate bool) {\n\td += 4\n\tif !isUpdate {\n\t\treturn\n\t}\n\td = 50\n}\n\nfunc A(a int) int { return d*100 + a }\n")
	add("return-inside-helper-called-from-init", "", "", "var n int\n\nfunc hlp(v int) int {\n\tif v > 0 {\n\t\treturn v * 2\n\t}\n\treturn 0\n}\n\nfunc init() { n += 1000 }\n\nfunc init() { n += hlp(3) }\n\nfunc A(a int) int { return n + a }\n")
	// function literals inside init() / _deploy()
	const lit = "function-literal-in-init-emitted-inside-the-method"
	add("literal-in-only-init", lit, "", "var n int\n\nfunc init() {\n\tf := func(v int) int { return v + 5 }\n\tn = f(2) * 10\n}\n\nfunc A(a int) int { return n + a }\n")
	add("literal-with-returns-in-last-init", lit, "", "var n int\n\nfunc init() { n += 1000 }\n\nfunc init() {\n\tf := func(v int) int {\n\t\tif v > 1 {\n\t\t\treturn 5\n\t\t}\n\t\treturn 6\n\t}\n\tn += f(2)*10 + f(0)\n}\n\nfunc A(a int) int { return n + a }\n")
	add("literal-in-first-init", lit, "", "var n int\n\nfunc init() {\n\tf := func(v int) int { return v + 5 }\n\tn = f(2) * 10\n}\n\nfunc init() { n += 1000 }\n\nfunc A(a int) int { return n + a }\n")
	add("literal-called-in-place-in-init", lit, "", "var n int\n\nfunc init() {\n\tn = func(v int) int { return v * 3 }(4)\n}\n\nfunc A(a int) int { return n + a }\n")
	add("literal-in-deploy", lit, "", "var n int\n\nfunc _deploy(data any, isUpdate bool) {\n\tf := func(v int) int { return v + 5 }\n\tn = f(2) * 10\n}\n\nfunc A(a int) int { return n + a }\n")
	add("literal-in-init-of-imported-package", lit,
		"//c14:file lib/lib.go\npackage lib\n\nvar N int\n\nfunc init() {\n\tg := func(v int) int { return v * 3 }\n\tN = g(2)\n}\n\n//c14:main\nimport \"x/lib\"\n\n",
		"var n = 4\n\nfunc A(a int) int { return n*100 + lib.N + a }\n")
	add("nested-literals-in-init-and-deploy", lit,
		"//c14:file lib/lib.go\npackage lib\n\nvar N int\n\nfunc init() {\n\tg := func(v int) int { return v * 3 }\n\tN = g(2)\n}\n\n//c14:main\nimport \"x/lib\"\n\n",
		"var n int\n\nfunc init() {\n\tf := func(v int) int {\n\t\tk := func(w int) int { return w + 1 }\n\t\treturn k(v) * 2\n\t}\n\tn = f(2) * 10\n}\n\nfunc init() { n += 1000 }\n\nfunc _deploy(data any, isUpdate bool) {\n\tf := func(v int) int { return v + 5 }\n\tn += f(2) * 100\n}\n\nfunc A(a int) int { return n*100 + lib.N + a }\n")
	add("return-of-inlined-helper-in-init", "", initHdr, fHelper+"var n int\n\nfunc init() {\n\tn = h.Loc2(f(1)) + h.Nest(2)\n}\n\nfunc init() { n += 1000 }\n\nfunc A(a int) int { return n + f(a) }\n")
	// several init() functions in a package: what only an earlier one uses
	const usage = "only-last-init-analysed-for-usage"
	add("variable-read-only-by-first-init", usage, "", "var x = 5\nvar r1 int\nvar r2 int\n\nfunc init() { r1 = x + 1 }\n\nfunc init() { r2 = r1 * 2 }\n\nfunc A(a int) int { return r1*100 + r2 + a }\n")
	add("variable-with-call-written-only-by-first-init", usage, "", "var x = mk(5)\nvar r1 int\nvar r2 int\n\nfunc mk(v int) int { return v * 2 }\n\nfunc init() {\n\tx++\n\tr1 = x + 1\n}\n\nfunc init() { r2 = r1 * 2 }\n\nfunc A(a int) int { return r1*100 + r2 + a }\n")
	add("function-called-only-by-first-init", usage, "", "var r1 int\nvar r2 int\n\nfunc onlyInFirst(v int) int { return v + 1 }\n\nfunc init() { r1 = onlyInFirst(4) }\n\nfunc init() { r2 = r1 * 2 }\n\nfunc A(a int) int { return r1*100 + r2 + a }\n")
	add("function-called-only-by-middle-init", usage, "", "var r1 int\nvar r2 int\n\nfunc onlyInMiddle(v int) int { return v + 1 }\n\nfunc init() { r1 = 3 }\n\nfunc init() { r1 = onlyInMiddle(r1) }\n\nfunc init() { r2 = r1 * 2 }\n\nfunc A(a int) int { return r1*100 + r2 + a }\n")
	add("helper-with-returns-only-in-first-init", usage, "", "var n int\n\nfunc hlp(v int) int {\n\tif v > 0 {\n\t\treturn v * 2\n\t}\n\treturn 0\n}\n\nfunc init() { n = hlp(3) }\n\nfunc init() { n += 1000 }\n\nfunc A(a int) int { return n + a }\n")
	add("inlined-helper-argument-only-in-first-init", usage, initHdr, "func onlyFirst(v int) int { return v + 1 }\n\nvar n int\n\nfunc init() { n = h.Loc2(onlyFirst(1)) + h.Nest(2) }\n\nfunc init() { n += 1000 }\n\nfunc A(a int) int { return n + a }\n")
	add("variable-read-only-by-init-of-first-file", usage,
		"//c14:file q.go\npackage main\n\nvar q int\n\nfunc init() { q = r1 * 2 }\n\n//c14:main\n",
		"var x = 5\nvar r1 int\n\nfunc init() { r1 = x + 1 }\n\nfunc A(a int) int { return r1*100 + q + a }\n")
	add("variable-read-only-by-first-init-of-imported-package", usage,
		"//c14:file lib/lib.go\npackage lib\n\nvar x = 5\nvar R1 int\nvar R2 int\n\nfunc init() { R1 = x + 1 }\n\nfunc init() { R2 = R1 * 2 }\n\n//c14:main\nimport \"x/lib\"\n\n",
		"func A(a int) int { return lib.R1*100 + lib.R2 + a }\n")
	// the same things used by the last init() only: must agree
	add("variable-and-function-used-only-by-last-init", "", "", "var x = 5\nvar r1 int\nvar r2 int\n\nfunc onlyInLast(v int) int { return v + 1 }\n\nfunc init() { r1 = 3 }\n\nfunc init() { r2 = onlyInLast(r1) * x }\n\nfunc A(a int) int { return r1*100 + r2 + a }\n")
	// the inlined package has package variables and an init() of its own
	for _, v := range []struct{ tag, hinit, minit string }{
		{"inlined-package-initialiser-and-init/main-nothing", "3", "none"},
		{"inlined-package-initialiser-and-init/main-init-1", "3", "1"},
		{"inlined-package-init-1/main-init-3", "1", "3"},
		{"inlined-package-no-init/main-init-inl", "none", "inl"},
	} {
		hsrc := initHelpers + "\nfunc hf(v int) int { return v + 3 }\n\nvar G = Add2(hf(1), hf(2))\nvar GR int\n\n"
		if v.hinit != "none" {
			hsrc += "func init() {\n" + frameBody(v.hinit, "GR", "G") + "}\n"
		}
		msrc := fHelper + "var m = h.Loc1(f(h.G))\nvar mr int\n\n"
		if v.minit != "none" {
			msrc += "func init() {\n" + frameBody(v.minit, "mr", "m + h.GR") + "}\n\n"
		}
		add(v.tag, "", "//c14:file inl/h/h.go\n"+hsrc+"\n//c14:main\nimport \""+inlineModule+"/h\"\n\n", msrc+readAll("A", []string{"h.G", "h.GR", "m", "mr"}, "h.Nest(a)"))
	}
	// deferred calls inside init() / _deploy()
	add("defer-with-recover-in-init-no-panic", "", "", "var lg int\n\nfunc mark(k int) { lg = lg*10 + k }\n\nfunc rec() {\n\tif r := recover(); r != nil {\n\t\tlg = lg*10 + 9\n\t} else {\n\t\tlg = lg*10 + 8\n\t}\n}\n\nfunc init() {\n\tx := 3\n\tmark(x)\n}\n\nfunc init() {\n\tdefer rec()\n\tdefer mark(1)\n\tmark(2)\n}\n\nfunc A(a int) int { return lg*100 + a }\n")
	add("defer-in-init-with-return-and-locals", "", "", "var lg int\n\nfunc mark(k int) { lg = lg*10 + k }\n\nfunc init() {\n\tx := 2\n\tdefer mark(1)\n\tif x > 1 {\n\t\tmark(x)\n\t\treturn\n\t}\n\tmark(7)\n}\n\nfunc init() {\n\ty := 3\n\tz := y + 1\n\tmark(z)\n}\n\nfunc A(a int) int { return lg*100 + a }\n")
	add("defer-in-deploy", "", "", "var lg int\n\nfunc mark(k int) { lg = lg*10 + k }\n\nfunc init() { mark(5) }\n\nfunc _deploy(data any, isUpdate bool) {\n\tdefer mark(1)\n\tx := 2\n\tmark(x)\n}\n\nfunc A(a int) int { return lg*100 + a }\n")
	add("defer-in-init", "defer-in-init-does-not-compile", "", "var lg int\n\nfunc mark(k int) { lg = lg*10 + k }\n\nfunc init() {\n\tdefer mark(1)\n\tmark(2)\n}\n\nfunc init() { mark(3) }\n\nfunc A(a int) int { return lg*100 + a }\n")
}

// ---- measured frame layouts ----------------------------------------------------------------------------------------------------

// frameStats: which layouts of _initialize / _deploy the compiled programs had.
type frameStats struct {
	mu     sync.Mutex
	init   map[string]int // "statics=N locals=M"
	deploy map[string]int // "locals=M"
	chains int64          // VM runs that went through _deploy
}

var fstats = &frameStats{init: map[string]int{}, deploy: map[string]int{}}

func (fs *frameStats) add(c *compiled) {
	statics, locals, dlocals := 0, 0, -1
	in, dep := c.byID[manifest.MethodInit], c.byID[manifest.MethodDeploy]
	forEachInstr(c.script, func(ip int, op opcode.Opcode, param []byte) {
		switch {
		case in != nil && ip >= int(in.Range.Start) && ip <= int(in.Range.End) && ip <= 2:
			if op == opcode.INITSSLOT {
				statics = int(param[0])
			}
			if op == opcode.INITSLOT {
				locals = int(param[0])
			}
		case dep != nil && ip == int(dep.Range.Start) && op == opcode.INITSLOT:
			dlocals = int(param[0])
		}
	})
	fs.mu.Lock()
	defer fs.mu.Unlock()
	if in != nil {
		fs.init[fmt.Sprintf("statics=%d locals=%d", statics, locals)]++
	}
	if dep != nil {
		fs.deploy[fmt.Sprintf("locals=%d", dlocals)]++
	}
}

func (fs *frameStats) report() map[string]any {
	fs.mu.Lock()
	defer fs.mu.Unlock()
	return map[string]any{
		"distinct_initialize_frames": len(fs.init),
		"initialize_frames":          fs.init,
		"distinct_deploy_frames":     len(fs.deploy),
		"deploy_frames":              fs.deploy,
		"vm_runs_through_deploy":     atomic.LoadInt64(&fs.chains),
	}
}
