// Shape families of C14, fourth part: composite literals.
//
//	literals         array ([N]T, [...]T), slice and byte-slice literals: EVERY mix of
//	                 keyed / unkeyed elements (layouts: up to 4 elements, keys up to a
//	                 bound, Go's rule "an element without a key gets the previous index
//	                 plus one" - keys out of order, gaps, a key followed by runs without
//	                 keys, the last key or a middle one deciding the length), the keys
//	                 spelled as literals, named / typed / iota-derived constants and
//	                 constant expressions; int and byte elements over all layouts, the
//	                 other element kinds (bool, string, []byte, struct, pointer to
//	                 struct, nested slice and nested array with elided inner types, map)
//	                 over a representative layout set x every container
//	literals-ctx     where a literal stands: indexed / measured / ranged in place,
//	                 argument, variadic spread, result of a helper, operand of append,
//	                 field of a (pointer to a) struct literal, map value, element of an
//	                 outer literal, assigned, re-evaluated in a loop, in a condition,
//	                 result of a function literal, operand of an array comparison
//	literals-global  ... and as the initialiser of a package variable
//	literals-unsupported  slice expressions on arrays of ints / structs: the compiler must
//	                 refuse them with its "subslices are supported only for []byte and
//	                 string" message (any other refusal is reported)
//	literals-map     map literals: every sequence of up to 3 entries over constant and
//	                 non-constant keys (the latter colliding at run time with each other
//	                 and with the constants: evaluated in order, the last one wins), key
//	                 kinds int / string / bool, value kinds with elided types
//	literals-struct  struct literals: every subset of fields keyed, in declaration and
//	                 in reverse order, positional, empty, by value and through &T{...};
//	                 a struct with one field of every kind (each zero value observed);
//	                 nested literals (explicit / elided inner types), anonymous and
//	                 embedded structs
//
// Every literal is observed fresh (no copies of struct values, no writes while
// ranging): through len, through every index including -1 and the first invalid
// one (must fault where Go panics), and through a fold over the elements; slices
// of int / bool / string / byte are returned as a whole as well.
package c14

import (
	"fmt"
	"regexp"
	"sort"
	"strings"
)

var reArgB = regexp.MustCompile(`\bb\b`)

func allShapes4(ss *shapeSet, thorough bool) {
	litStats = map[string]int{}
	shapesLitIndex(ss, thorough)
	shapesLitElems(ss, thorough)
	shapesLitCtx(ss, thorough)
	shapesLitMap(ss, thorough)
	shapesLitStruct(ss)
	shapesLitCompare(ss)
}

// litStats: sizes of the enumerated sets (reported in the coverage map).
var litStats map[string]int

// litHdr: declarations shared by all programs of the literal families.
const litHdr = `type Pair struct{ A, B int }

type Box struct {
	N int
	L []int
	P []Pair
	Y []byte
	R [3]int
}

const (
	c0 = 0
	c1 = 1
	c2 = 2
	c3 = 3
	c4 = 4
	c5 = 5
	c6 = 6
	c7 = 7
)

const (
	i0 = iota
	i1
	i2
	i3
	i4
	i5
	i6
	i7
)

const (
	t0 uint8 = iota
	t1
	t2
	t3
	t4
	t5
	t6
	t7
)

func b2i(v bool) int {
	if v {
		return 1
	}
	return 0
}

func sb(b int) string {
	if b > 5 {
		return "zzzzz"
	}
	return "yy"
}

func pj(p *Pair) int {
	if p == nil {
		return 500
	}
	return p.A*10 + p.B
}

func ij(s []int) int {
	if s == nil {
		return 500
	}
	t := len(s)
	for _, v := range s {
		t = t*3 + v
	}
	return t
}

func yj(y []byte) int {
	if y == nil {
		return 500
	}
	t := len(y)
	for _, v := range y {
		t = t*3 + int(v)
	}
	return t
}

func mj(m map[int]int) int {
	if m == nil {
		return 500
	}
	t := len(m) * 100
	for k, v := range m {
		t += k * v
	}
	return t
}

func obsI(s []int, a int) int { return len(s)*1000 + s[a] }

func obsY(s []byte, a int) int { return len(s)*1000 + int(s[a]) }

func obsP(s []Pair, a int) int { return len(s)*1000 + s[a].A*10 + s[a].B }

func sumv(xs ...int) int {
	t := len(xs)
	for i, x := range xs {
		t = t*5 + (i+1)*x
	}
	return t
}

`

// ---- layouts -------------------------------------------------------------------------------------------------------------------

// litLayout: which elements of a literal carry a key.
type litLayout struct {
	keys []int // -1: no key
	idx  []int // the index Go gives the element
	n    int   // highest index + 1: the length of a slice / [...] literal
	ord  int   // position in the enumeration
}

func (l *litLayout) tag() string {
	if len(l.keys) == 0 {
		return "empty"
	}
	p := make([]string, len(l.keys))
	for i, k := range l.keys {
		if k < 0 {
			p[i] = "u"
		} else {
			p[i] = fmt.Sprintf("k%d", k)
		}
	}
	return strings.Join(p, ".")
}

func mkLayout(keys []int) (litLayout, bool) {
	l := litLayout{keys: append([]int{}, keys...)}
	cur := 0
	seen := map[int]bool{}
	for _, k := range keys {
		if k >= 0 {
			cur = k
		}
		if seen[cur] {
			return l, false // Go rejects a duplicate index
		}
		seen[cur] = true
		l.idx = append(l.idx, cur)
		if cur+1 > l.n {
			l.n = cur + 1
		}
		cur++
	}
	return l, true
}

// litLayouts: every valid layout of up to maxN elements with keys 0..maxKey,
// fewest elements first, unkeyed before keyed.
func litLayouts(maxN, maxKey int) []litLayout {
	var out []litLayout
	var rec func(n int, cur []int)
	rec = func(n int, cur []int) {
		if len(cur) == n {
			if l, ok := mkLayout(cur); ok {
				l.ord = len(out)
				out = append(out, l)
			}
			return
		}
		for k := -1; k <= maxKey; k++ {
			rec(n, append(cur, k))
		}
	}
	for n := 0; n <= maxN; n++ {
		rec(n, nil)
	}
	return out
}

// litPicks: the representative layouts used where the whole set would be too
// much: nothing, no keys, a gap in front / in the middle, fully keyed out of
// order, an unkeyed run after a key above / below its position, two runs, the
// length decided by the first / a middle / the last element.
func litPicks() []litLayout {
	var out []litLayout
	for _, keys := range [][]int{
		{}, {-1}, {-1, -1}, {-1, -1, -1, -1},
		{0}, {2}, {1, -1}, {2, -1, -1}, {-1, 3}, {3, 0},
		{2, 0, -1}, {3, -1, 0, -1}, {1, -1, 0}, {-1, 2, -1}, {4, 1, -1, -1}, {0, -1, 3, -1},
	} {
		l, ok := mkLayout(keys)
		if !ok {
			panic("litPicks: invalid layout")
		}
		l.ord = len(out)
		out = append(out, l)
	}
	return out
}

// keyText spells the constant key k in one of nine ways.
func keyText(k, rot int) string {
	switch rot % 9 {
	case 1:
		return fmt.Sprintf("c%d", k)
	case 2:
		return fmt.Sprintf("i%d", k)
	case 3:
		return fmt.Sprintf("%d - 1", k+1)
	case 4:
		return fmt.Sprintf("len(%q)", strings.Repeat("x", k))
	case 5:
		return fmt.Sprintf("t%d", k)
	case 6:
		return fmt.Sprintf("'\\x%02x'", k)
	case 7:
		return fmt.Sprintf("0x%x", k)
	case 8:
		return fmt.Sprintf("c1 * %d", k)
	}
	return fmt.Sprint(k)
}

// elems renders the elements of the layout: vals are the value texts by element
// position (rotated by rot), keys spelled by keyText.
func (l *litLayout) elems(vals []string, rot int) string {
	p := make([]string, len(l.keys))
	for j, k := range l.keys {
		v := vals[(j+rot)%len(vals)]
		if k >= 0 {
			p[j] = keyText(k, rot+j) + ": " + v
		} else {
			p[j] = v
		}
	}
	return strings.Join(p, ", ")
}

// positional renders the same content without keys (zero for the gaps), up to
// length n.
func (l *litLayout) positional(vals []string, rot int, zero string, n int) string {
	p := make([]string, n)
	for i := range p {
		p[i] = zero
	}
	for j, ix := range l.idx {
		p[ix] = vals[(j+rot)%len(vals)]
	}
	return strings.Join(p, ", ")
}

// idxArgs: "a,b" tuples with a in -1..n (n is the first invalid index) and b in bs.
func idxArgs(n int, bs ...int) string {
	var p []string
	for _, b := range bs {
		for a := -1; a <= n; a++ {
			p = append(p, fmt.Sprintf("%d,%d", a, b))
		}
	}
	return "//c14:args " + strings.Join(p, ";") + "\n"
}

func bArgs(bs ...int) string {
	p := make([]string, len(bs))
	for i, b := range bs {
		p[i] = fmt.Sprint(b)
	}
	return "//c14:args " + strings.Join(p, ";") + "\n"
}

// ---- element kinds -------------------------------------------------------------------------------------------------------------

type litKind struct {
	name, typ string
	vals      []string               // four values, distinct for b in {2, 7}; elided inner types where Go allows
	proj      func(x string) string  // an int expression over an element (valid for the zero value)
	zero      string                 // the zero value, spelled out
	ret       string                 // result type of a function returning the whole slice ("" = none)
}

func litKinds() []litKind {
	id := func(f string) func(string) string { return func(x string) string { return fmt.Sprintf(f, x) } }
	return []litKind{
		{"int", "int", []string{"11", "b", "13", "b + 5"}, id("%s"), "0", "[]int"},
		{"bool", "bool", []string{"true", "b > 5", "!(b > 5)", "b != 3"}, id("b2i(%s)"), "false", "[]bool"},
		{"string", "string", []string{`"p"`, "sb(b)", `"stu"`, `"vwxy"`}, id("len(%s)"), `""`, "[]string"},
		{"bytes", "[]byte", []string{"{1, 2}", "{1: byte(b)}", "nil", "{}"}, id("yj(%s)"), "nil", ""},
		{"struct", "Pair", []string{"{1, 2}", "{A: b}", "{B: 3}", "Pair{4, b}"}, func(x string) string { return x + ".A*10 + " + x + ".B" }, "Pair{}", ""},
		{"pointer", "*Pair", []string{"{1, 2}", "{A: b}", "&Pair{B: 3}", "nil"}, id("pj(%s)"), "nil", ""},
		{"slice", "[]int", []string{"{1, 2}", "{1: b}", "nil", "{2: 5, 6}"}, id("ij(%s)"), "nil", ""},
		{"array", "[2]int", []string{"{1, 2}", "{1: b}", "{}", "{b}"}, func(x string) string { return x + "[0]*10 + " + x + "[1]" }, "[2]int{}", ""},
		{"map", "map[int]int", []string{"{1: 2}", "{b: 3, 4: 5}", "nil", "{}"}, id("mj(%s)"), "nil", ""},
	}
}

// container: how the literal's type is written for a layout of length n.
type litCont struct {
	name string
	typ  func(elem string, n int) string
	size func(n int) int
}

func litConts() []litCont {
	return []litCont{
		{"slice", func(e string, n int) string { return "[]" + e }, func(n int) int { return n }},
		{"array-ellipsis", func(e string, n int) string { return "[...]" + e }, func(n int) int { return n }},
		{"array-exact", func(e string, n int) string { return fmt.Sprintf("[%d]%s", n, e) }, func(n int) int { return n }},
		{"array-wider", func(e string, n int) string { return fmt.Sprintf("[%d]%s", n+2, e) }, func(n int) int { return n + 2 }},
	}
}

// foldFn: the function observing a literal through len, a fold over all
// elements (by index, so that no element is copied) and the element at a.
func foldFn(name, lit string, size int, proj func(string) string) string {
	return idxArgs(size, 2, 7) + fmt.Sprintf("func %s(a int, b int) int {\n\ts := %s\n\tt := len(s)\n\tfor i := range s {\n\t\tt = t*7 + (i+1)*(%s)\n\t}\n\treturn t*1000 + %s\n}\n", name, lit, proj("s[i]"), proj("s[a]"))
}

// ---- literals: all layouts, int and byte elements ------------------------------------------------------------------------------

func shapesLitIndex(ss *shapeSet, thorough bool) {
	lays := litLayouts(4, 3)
	if thorough {
		lays = litLayouts(4, 5)
	}
	litStats["layouts"] = len(lays)
	ints := litKinds()[0]
	byteVals := []string{"21", "byte(b + 1)", "0xC8", "'a' + 1"}
	conts := litConts()
	add := func(tag, src string) {
		ss.add("literals", tag, "", src, false)
		ss.list[len(ss.list)-1].Hdr = litHdr
	}
	for i := range lays {
		l := &lays[i]
		rot := l.ord
		// int elements: the slice returned as a whole, and slice / [...] / [N] / [N+2] through len, fold and every index
		el := l.elems(ints.vals, rot)
		add("int/slice/returned/"+l.tag(), bArgs(2, 7)+"func R@(b int) []int { return []int{"+el+"} }\n")
		for _, c := range conts {
			add("int/"+c.name+"/"+l.tag(), foldFn("X@", c.typ("int", l.n)+"{"+el+"}", c.size(l.n), ints.proj))
		}
		// byte elements: constants and computed bytes take different paths in the compiler
		bel := l.elems(byteVals, rot)
		add("byte/slice/returned/"+l.tag(), bArgs(2, 7)+"func R@(b int) []byte { return []byte{"+bel+"} }\n")
		c := conts[rot%len(conts)]
		if !thorough {
			add("byte/"+c.name+"/"+l.tag(), foldFn("X@", c.typ("byte", l.n)+"{"+bel+"}", c.size(l.n), func(x string) string { return "int(" + x + ")" }))
		} else {
			for _, c := range conts {
				add("byte/"+c.name+"/"+l.tag(), foldFn("X@", c.typ("byte", l.n)+"{"+bel+"}", c.size(l.n), func(x string) string { return "int(" + x + ")" }))
			}
		}
		// all bytes constant / none constant
		if len(l.keys) > 0 && (thorough || len(l.keys) <= 3) {
			add("byte/slice/all-constant/"+l.tag(), bArgs(2)+"func R@(b int) []byte { return []byte{"+l.elems([]string{"21", "0xC8", "c3 * 5", "'a'"}, rot)+"} }\n")
			add("byte/slice/none-constant/"+l.tag(), bArgs(2, 7)+"func R@(b int) []byte { return []byte{"+l.elems([]string{"byte(b)", "byte(b + 1)", "byte(b * 2)", "byte(b + 30)"}, rot)+"} }\n")
		}
	}
}

// ---- literals: element kinds x containers x representative layouts ---------------------------------------------------------------

func shapesLitElems(ss *shapeSet, thorough bool) {
	lays := litPicks()
	if thorough {
		lays = litLayouts(3, 3)
	}
	litStats["layouts_for_element_kinds"] = len(lays)
	kinds := litKinds()
	litStats["element_kinds"] = len(kinds) + 1 // and byte
	litStats["containers"] = len(litConts())
	for _, k := range kinds[1:] { // int: all layouts above
		for i := range lays {
			l := &lays[i]
			rot := l.ord
			el := l.elems(k.vals, rot)
			for _, c := range litConts() {
				ss.add("literals", k.name+"/"+c.name+"/"+l.tag(), "", foldFn("X@", c.typ(k.typ, l.n)+"{"+el+"}", c.size(l.n), k.proj), false)
				ss.list[len(ss.list)-1].Hdr = litHdr
			}
			if k.ret != "" {
				ss.add("literals", k.name+"/slice/returned/"+l.tag(), "", bArgs(2, 7)+"func R@(b int) "+k.ret+" { return "+k.ret+"{"+el+"} }\n", false)
				ss.list[len(ss.list)-1].Hdr = litHdr
			}
		}
	}
}

// ---- where a literal stands ------------------------------------------------------------------------------------------------------

func shapesLitCtx(ss *shapeSet, thorough bool) {
	lays := litPicks()
	litStats["layouts_for_contexts"] = len(lays)
	kinds := litKinds()
	type elemOf struct {
		name, typ string
		vals      []string
		proj      func(string) string
		zero      string
		obs       string // helper taking (slice, index)
		one       string // one more element, spelled out
	}
	es := []elemOf{
		{"int", "int", kinds[0].vals, kinds[0].proj, "0", "obsI", "11"},
		{"struct", "Pair", kinds[4].vals, kinds[4].proj, "Pair{}", "obsP", "Pair{1, 2}"},
		{"byte", "byte", []string{"21", "byte(b + 1)", "0xC8", "'a' + 1"}, func(x string) string { return "int(" + x + ")" }, "0", "obsY", "21"},
	}
	field := map[string]string{"int": "L", "struct": "P", "byte": "Y"}
	nctx := map[string]bool{}
	for _, e := range es {
		for i := range lays {
			l := &lays[i]
			rot := l.ord + 1
			el := l.elems(e.vals, rot)
			st := "[]" + e.typ
			lit := st + "{" + el + "}"
			arr := "[...]" + e.typ + "{" + el + "}"
			n := l.n
			tail := fmt.Sprintf("\treturn len(s)*1000 + %s\n}\n", e.proj("s[a]"))
			fn := func(body string) string { return idxArgs(n, 2, 7) + "func X@(a int, b int) int {\n" + body }
			add := func(ctx, src string) {
				nctx[ctx] = true
				ss.add("literals-ctx", ctx+"/"+e.name+"/"+l.tag(), "", src, false)
				ss.list[len(ss.list)-1].Hdr = litHdr
			}
			add("indexed-in-place", fn("\treturn "+e.proj(lit+"[a]")+"\n}\n"))
			add("array-indexed-in-place", fn("\treturn "+e.proj(arr+"[a]")+"\n}\n"))
			add("measured-in-place", bArgs(2)+fmt.Sprintf("func X@(b int) int {\n\treturn len(%s)*10 + len(%s)\n}\n", lit, arr))
			add("ranged-in-place", bArgs(2, 7)+fmt.Sprintf("func X@(b int) int {\n\tt := 0\n\tfor i, v := range %s {\n\t\tt = t*7 + (i+1)*(%s)\n\t}\n\tfor i, v := range %s {\n\t\tt = t*7 + (i+2)*(%s)\n\t}\n\treturn t\n}\n", lit, e.proj("v"), arr, e.proj("v")))
			add("argument", fn(fmt.Sprintf("\treturn %s(%s, a)\n}\n", e.obs, lit)))
			add("result-of-helper", fmt.Sprintf("func mk@(b int) %s { return %s }\n\n", st, lit)+fn("\ts := mk@(b)\n"+tail))
			add("result-of-function-literal", fn(fmt.Sprintf("\ts := func(b int) %s { return %s }(b)\n", st, lit)+tail))
			add("appended-to", idxArgs(n+1, 2, 7)+"func X@(a int, b int) int {\n"+fmt.Sprintf("\ts := append(%s, %s)\n", lit, e.one)+tail)
			add("field-of-struct-literal", fn(fmt.Sprintf("\tx := Box{N: 1, %s: %s}\n\ts := x.%s\n", field[e.name], lit, field[e.name])+tail))
			add("field-of-pointer-literal", fn(fmt.Sprintf("\tx := &Box{%s: %s}\n\ts := x.%s\n", field[e.name], lit, field[e.name])+tail))
			add("map-value-elided", fn(fmt.Sprintf("\tm := map[int]%s{1: {%s}, 2: nil}\n\ts := m[1]\n\tif len(m[2]) != 0 {\n\t\treturn -5\n\t}\n", st, el)+tail))
			add("element-of-outer-literal", fn(fmt.Sprintf("\tss := []%s{1: {%s}}\n\ts := ss[1]\n\tif len(ss) != 2 || len(ss[0]) != 0 {\n\t\treturn -5\n\t}\n", st, el)+tail))
			add("assigned-to-declared", fn(fmt.Sprintf("\tvar s %s\n\tif a > 100 {\n\t\treturn len(s)\n\t}\n\ts = %s\n", st, lit)+tail))
			add("typed-declaration", fn(fmt.Sprintf("\tvar s %s = %s\n", st, lit)+tail))
			add("in-condition", bArgs(2, 7)+fmt.Sprintf("func X@(b int) int {\n\tr := 0\n\tif len(%s) == %d {\n\t\tr += 1\n\t}\n\tfor k := 0; k < len(%s); k++ {\n\t\tr += 10\n\t}\n\treturn r\n}\n", lit, n, arr))
			if e.name != "byte" {
				add("second-of-a-pair-assignment", fn(fmt.Sprintf("\tq, s := b, %s\n\tif q != b {\n\t\treturn -5\n\t}\n", lit)+tail))
			}
			if e.name == "int" {
				add("variadic-spread", bArgs(2, 7)+fmt.Sprintf("func X@(b int) int {\n\treturn sumv(%s...)\n}\n", lit))
				add("appended-spread", idxArgs(n+1, 2, 7)+"func X@(a int, b int) int {\n"+fmt.Sprintf("\ts := append([]int{1}, %s...)\n", lit)+tail)
				add("field-of-array-type", idxArgs(3, 2, 7)+"func X@(a int, b int) int {\n"+fmt.Sprintf("\tx := Box{R: [3]int{%s}}\n\treturn len(x.R)*1000 + x.R[a]\n}\n", (&litLayout{keys: capKeys(l.keys, 2)}).elemsSafe(e.vals, rot)))
			}
			if n > 0 {
				// a literal evaluated twice is two values
				at := l.idx[0]
				if e.name == "int" {
					add("evaluated-in-a-loop", bArgs(2, 7)+fmt.Sprintf("func X@(b int) int {\n\tt := 0\n\tfor k := 0; k < 2; k++ {\n\t\ts := %s\n\t\ts[%d] += k + 1\n\t\tt = t*100 + s[%d]\n\t}\n\treturn t\n}\n", lit, at, at))
				}
				// array comparison: against the same content written without keys, and against one differing element
				same := fmt.Sprintf("[%d]%s{%s}", n, e.typ, l.positional(e.vals, rot, e.zero, n))
				other := make([]string, len(e.vals))
				copy(other, e.vals)
				other[(0+rot)%len(other)] = map[string]string{"int": "b + 90", "struct": "{b, 9}", "byte": "byte(b + 90)"}[e.name]
				diff := fmt.Sprintf("[%d]%s{%s}", n, e.typ, l.positional(other, rot, e.zero, n))
				add("array-compared", bArgs(2, 7)+fmt.Sprintf("func X@(b int) int {\n\te1 := %s == %s\n\te2 := %s != %s\n\treturn b2i(e1) + 10*b2i(e2)\n}\n", arr, same, arr, diff))
			}
			// an array literal in a variable, sliced: only byte arrays can be sliced, the compiler refuses the others
			if e.name == "byte" {
				add("array-sliced", fn(fmt.Sprintf("\tr := %s\n\ts := r[:]\n", arr)+tail))
			} else if tg := l.tag(); tg == "u.u" || tg == "k2.u.u" {
				// (a file of their own: a refused program makes the harness split its file)
				ss.add("literals-unsupported", "array-sliced/"+e.name+"/"+tg, "", fn(fmt.Sprintf("\tr := %s\n\ts := r[:]\n", arr)+tail), false)
				ss.list[len(ss.list)-1].Hdr = litHdr
				ss.list[len(ss.list)-1].WantReject = "subslices are supported only for []byte and string"
			}
			// package variable (constant b: an initialiser cannot see the argument)
			gl := reArgB.ReplaceAllString(el, "gb()")
			ss.add("literals-global", "initialiser/"+e.name+"/"+l.tag(), "", fmt.Sprintf("var g@ = %s{%s}\n\nvar h@ = [...]%s{%s}\n\n", st, gl, e.typ, gl)+
				idxArgs(n, 2)+fmt.Sprintf("func X@(a int, b int) int {\n\treturn len(g@)*100000 + len(h@)*10000 + %s + 3*(%s)\n}\n", e.proj("g@[a]"), e.proj("h@[a]")), false)
			ss.list[len(ss.list)-1].Hdr = litHdr + "func gb() int { return 2 }\n\n"
		}
	}
	litStats["contexts"] = len(nctx) + 1
}

// capKeys: the layout restricted to what fits an array of three elements: keys
// above max are lowered, the sequence is cut before the first element that
// would not fit or would repeat an index.
func capKeys(keys []int, max int) []int {
	var out []int
	cur := 0
	seen := map[int]bool{}
	for _, k := range keys {
		if k > max {
			k = max
		}
		if k >= 0 {
			cur = k
		}
		if cur > max || seen[cur] {
			break
		}
		seen[cur] = true
		out = append(out, k)
		cur++
	}
	return out
}

func (l *litLayout) elemsSafe(vals []string, rot int) string {
	m, ok := mkLayout(l.keys)
	if !ok {
		panic("elemsSafe: invalid layout")
	}
	return m.elems(vals, rot)
}

// ---- map literals ----------------------------------------------------------------------------------------------------------------

func shapesLitMap(ss *shapeSet, thorough bool) {
	add := func(tag, src string) {
		ss.add("literals-map", tag, "", src, false)
		ss.list[len(ss.list)-1].Hdr = litHdr
	}
	// every sequence of up to 3 entries over the keys 11, 12 (constants) and b, b + 1, 3 - b, 2*b - 1 (computed); b in {1, 2, 7}:
	// b = 1 makes b == 2*b - 1 and b + 1 == 3 - b, b = 2 makes b + 1 == 2*b - 1, b = 7 makes all differ. Entries whose
	// keys are equal at run time are evaluated in order: the last one wins. (A computed key never equals a constant one
	// here: the Go specification leaves that order open and the toolchain adds the constant entries first.)
	// The entry at position p has the value 10*(p+1)+p, so the winner of a collision is visible.
	keys := []string{"11", "12", "b", "b + 1", "3 - b", "2*b - 1"}
	isConst := []bool{true, true, false, false, false, false}
	nseq := 0
	var rec func(n int, cur []int)
	rec = func(n int, cur []int) {
		if len(cur) == n {
			cnt := map[int]int{}
			for _, k := range cur {
				cnt[k]++
			}
			for k, c := range cnt {
				if isConst[k] && c > 1 {
					return // Go rejects duplicate constant keys
				}
			}
			nseq++
			var ents, tg []string
			for p, k := range cur {
				ents = append(ents, fmt.Sprintf("%s: %d", keys[k], 10*(p+1)+p))
				tg = append(tg, strings.ReplaceAll(keys[k], " ", ""))
			}
			tag := strings.Join(tg, ",")
			if tag == "" {
				tag = "empty"
			}
			lit := "map[int]int{" + strings.Join(ents, ", ") + "}"
			var args []string
			for _, b := range []int{1, 2, 7} {
				for _, a := range []int{0, 1, 2, 3, 7, 11, 13} {
					args = append(args, fmt.Sprintf("%d,%d", a, b))
				}
			}
			add("int-keys/"+tag, "//c14:args "+strings.Join(args, ";")+"\nfunc X@(a int, b int) int {\n\tm := "+lit+"\n\tv, ok := m[a]\n\tt := len(m) * 100000\n\tfor k, w := range m {\n\t\tt += k * w\n\t}\n\tif ok {\n\t\tt += 50000\n\t}\n\treturn t + v*1000\n}\n")
			if n <= 2 || thorough {
				add("int-keys-returned/"+tag, bArgs(1, 2, 7)+"func R@(b int) map[int]int { return "+lit+" }\n")
			}
			return
		}
		for k := range keys {
			rec(n, append(cur, k))
		}
	}
	for n := 0; n <= 3; n++ {
		rec(n, nil)
	}
	litStats["map_entry_sequences"] = nseq
	// key kinds: string (constants / computed, the computed ones colliding with each other), bool
	for _, v := range []struct{ tag, lit string }{
		{"constants", `map[string]int{"q": 1, "r": 2, "": 3}`},
		{"computed-first", `map[string]int{sb(b): 1, "q": 2}`},
		{"computed-last", `map[string]int{"q": 1, sb(b): 2}`},
		{"computed-twice-equal", `map[string]int{sb(b): 1, "q": 2, sb(b - 1): 3}`},
		{"computed-twice-equal-for-7", `map[string]int{sb(b + 4): 1, sb(b): 2}`},
		{"computed-three-times", `map[string]int{sb(b): 1, sb(b + 4): 2, sb(b - 4): 3}`},
	} {
		add("string-keys/"+v.tag, bArgs(2, 7)+"func R@(b int) map[string]int { return "+v.lit+" }\n\n"+
			bArgs(2, 7)+"func X@(b int) int {\n\tm := "+v.lit+"\n\tv, ok := m[\"yy\"]\n\tif !ok {\n\t\tv = -1\n\t}\n\treturn len(m)*100 + v\n}\n")
	}
	for _, v := range []struct{ tag, lit string }{
		{"constants", `map[bool]int{true: 1, false: 2}`},
		{"constants-reversed", `map[bool]int{false: 1, true: 2}`},
		{"computed-twice", `map[bool]int{b > 5: 1, b > 6: 2}`},
		{"computed-twice-differing-for-7", `map[bool]int{b > 5: 1, b > 100: 2}`},
		{"computed-three-times", `map[bool]int{b > 5: 1, b > 1: 2, b > 100: 3}`},
		{"constant-and-computed", `map[bool]int{false: 1, b > 1: 2}`},
	} {
		add("bool-keys/"+v.tag, bArgs(2, 7)+"func X@(b int) int {\n\tm := "+v.lit+"\n\tt := len(m) * 100\n\tv, ok := m[true]\n\tif ok {\n\t\tt += v * 10\n\t}\n\tw, ok2 := m[false]\n\tif ok2 {\n\t\tt += w\n\t}\n\treturn t\n}\n")
	}
	// value kinds with elided types x key patterns
	kinds := litKinds()
	pats := []struct{ tag, f string }{
		{"one-constant", "1: %0"},
		{"constant-and-computed", "1: %0, b: %1"},
		{"computed-and-constant", "b: %1, 3: %2"},
		{"computed-colliding-for-2", "b: %0, 30: %2, b + 5: %1, 2*b + 3: %3"},
	}
	for _, k := range kinds {
		for _, p := range pats {
			ents := p.f
			for j, v := range k.vals {
				ents = strings.ReplaceAll(ents, fmt.Sprintf("%%%d", j), v)
			}
			var args []string
			for _, b := range []int{2, 7} {
				for _, a := range []int{1, 2, 3, 7, 12, 17, 30} {
					args = append(args, fmt.Sprintf("%d,%d", a, b))
				}
			}
			add("values-"+k.name+"/"+p.tag, "//c14:args "+strings.Join(args, ";")+"\nfunc X@(a int, b int) int {\n\tm := map[int]"+k.typ+"{"+ents+"}\n\tt := len(m) * 100000\n\tif _, ok := m[a]; ok {\n\t\tt += "+k.proj("m[a]")+"\n\t}\n\treturn t\n}\n")
		}
	}
	// nested maps, maps in slices and structs
	add("nested/map-of-maps", bArgs(2, 7)+"func X@(b int) int {\n\tm := map[int]map[string]int{1: {\"x\": b, \"y\": 2}, b: {}, 3: nil}\n\treturn len(m)*1000 + len(m[1])*100 + m[1][\"x\"]*10 + len(m[b]) + len(m[3])\n}\n")
	add("nested/slice-of-maps", bArgs(2, 7)+"func X@(b int) int {\n\ts := []map[int]int{2: {1: b}, {b: 3, 1: 4}, 0: {}}\n\treturn len(s)*10000 + mj(s[0]) + mj(s[1])*3 + mj(s[2])*5 + mj(s[3])*7\n}\n")
	add("nested/map-of-slices-of-structs", bArgs(2, 7)+"func X@(b int) int {\n\tm := map[string][]Pair{\"k\": {1: {A: b}, {3, 4}}, sb(b): {{B: 1}}}\n\treturn len(m)*10000 + len(m[\"k\"])*1000 + m[\"k\"][1].A*100 + m[\"k\"][2].B*10 + len(m[sb(b)])\n}\n")
}

// ---- struct literals ---------------------------------------------------------------------------------------------------------------

func shapesLitStruct(ss *shapeSet) {
	const pre = `type T4@ struct {
	N int
	S string
	K bool
	L []int
}

func p4@(t *T4@) int {
	r := t.N*1000 + len(t.S)*100 + ij(t.L)
	if t.K {
		r = -r - 1
	}
	return r
}

`
	fields := []struct{ name, val string }{{"N", "b"}, {"S", `"pq"`}, {"K", "b > 5"}, {"L", "[]int{1: b, 3}"}}
	add := func(tag, src string) {
		ss.add("literals-struct", tag, "", src, false)
		ss.list[len(ss.list)-1].Hdr = litHdr
	}
	obsV := "\treturn x.N*1000 + len(x.S)*100 + ij(x.L) + b2i(x.K)*100000\n}\n"
	n := 0
	for set := 0; set < 16; set++ {
		var fwd, names []string
		for i, f := range fields {
			if set&(1<<i) != 0 {
				fwd = append(fwd, f.name+": "+f.val)
				names = append(names, f.name)
			}
		}
		rev := make([]string, len(fwd))
		for i := range fwd {
			rev[len(fwd)-1-i] = fwd[i]
		}
		tg := strings.Join(names, "")
		if tg == "" {
			tg = "none"
		}
		for _, o := range []struct {
			name string
			ents []string
		}{{"declared-order", fwd}, {"reverse-order", rev}} {
			if o.name == "reverse-order" && len(fwd) < 2 {
				continue
			}
			n++
			el := strings.Join(o.ents, ", ")
			add("keyed/"+tg+"/"+o.name+"/value", pre+bArgs(2, 7)+"func X@(b int) int {\n\tx := T4@{"+el+"}\n"+obsV)
			add("keyed/"+tg+"/"+o.name+"/pointer", pre+bArgs(2, 7)+"func X@(b int) int {\n\treturn p4@(&T4@{"+el+"})\n}\n")
		}
	}
	litStats["struct_field_subsets_and_orders"] = n
	add("positional/value", pre+bArgs(2, 7)+"func X@(b int) int {\n\tx := T4@{b, \"pq\", b > 5, []int{1: b, 3}}\n"+obsV)
	add("positional/pointer", pre+bArgs(2, 7)+"func X@(b int) int {\n\treturn p4@(&T4@{b, \"pq\", b > 5, []int{1: b, 3}})\n}\n")
	add("positional/returned", pre+"func mk@(b int) *T4@ { return &T4@{b + 1, \"r\", b < 5, nil} }\n\n"+bArgs(2, 7)+"func X@(b int) int {\n\treturn p4@(mk@(b))*10 + mk@(b).N\n}\n")
	add("positional/argument-and-field-read-in-place", pre+bArgs(2, 7)+"func X@(b int) int {\n\treturn T4@{b, \"pq\", true, nil}.N*100 + len(T4@{S: sb(b)}.S)*10 + (&T4@{N: 3}).N\n}\n")

	// one field of every kind: each field alone, all but each, everything, nothing
	const wide = `type W@ struct {
	P Pair
	Q *Pair
	L []int
	M map[int]int
	R [2]int
	S string
	Y []byte
	K bool
	N int
}

func pw@(w *W@) int {
	r := w.P.A*10 + w.P.B
	r = r*7 + pj(w.Q)
	r = r*7 + ij(w.L)
	r = r*7 + mj(w.M)
	r = r*7 + w.R[0]*10 + w.R[1]
	r = r*7 + len(w.S)
	r = r*7 + yj(w.Y)
	r = r*7 + b2i(w.K)
	return r*7 + w.N
}

`
	wf := []struct{ name, val, pos string }{
		{"P", "Pair{B: b}", "Pair{B: b}"}, {"Q", "&Pair{A: b}", "&Pair{A: b}"}, {"L", "[]int{1: b}", "[]int{1: b}"}, {"M", "map[int]int{b: 2}", "map[int]int{b: 2}"},
		{"R", "[2]int{1: b}", "[2]int{1: b}"}, {"S", "sb(b)", "sb(b)"}, {"Y", "[]byte{1: byte(b)}", "[]byte{1: byte(b)}"}, {"K", "b > 5", "b > 5"}, {"N", "b + 1", "b + 1"},
	}
	all := make([]string, len(wf))
	pos := make([]string, len(wf))
	for i, f := range wf {
		all[i] = f.name + ": " + f.val
		pos[i] = f.pos
	}
	for i, f := range wf {
		add("wide/only-"+f.name, wide+bArgs(2, 7)+"func X@(b int) int {\n\treturn pw@(&W@{"+all[i]+"})\n}\n")
		rest := append(append([]string{}, all[:i]...), all[i+1:]...)
		add("wide/all-but-"+f.name, wide+bArgs(2, 7)+"func X@(b int) int {\n\tw := W@{"+strings.Join(rest, ", ")+"}\n\treturn pw@(&W@{"+strings.Join(rest, ", ")+"}) - w.N + w.N\n}\n")
	}
	add("wide/everything-keyed", wide+bArgs(2, 7)+"func X@(b int) int {\n\treturn pw@(&W@{"+strings.Join(all, ", ")+"})\n}\n")
	sorted := append([]string{}, all...)
	sort.Strings(sorted)
	add("wide/everything-keyed-sorted-by-name", wide+bArgs(2, 7)+"func X@(b int) int {\n\treturn pw@(&W@{"+strings.Join(sorted, ", ")+"})\n}\n")
	add("wide/everything-positional", wide+bArgs(2, 7)+"func X@(b int) int {\n\treturn pw@(&W@{"+strings.Join(pos, ", ")+"})\n}\n")
	add("wide/nothing", wide+bArgs(2)+"func X@(b int) int {\n\tw := W@{}\n\tif w.Q != nil || w.L != nil || w.M != nil || w.Y != nil || w.K || w.S != \"\" {\n\t\treturn -1\n\t}\n\treturn pw@(&W@{}) + len(w.R)\n}\n")

	// nested literals
	const nest = `type In@ struct{ A, B int }

type Mid@ struct {
	I In@
	P *In@
	S []In@
	Q []*In@
	M map[int]In@
}

type Out@ struct {
	M Mid@
	P *Mid@
	N int
}

func pi@(p *In@) int {
	if p == nil {
		return 500
	}
	return p.A*10 + p.B
}

`
	nadd := func(tag, body string) { add("nested/"+tag, nest+bArgs(2, 7)+"func X@(b int) int {\n"+body+"}\n") }
	nadd("explicit-inner-keyed", "\tx := Mid@{I: In@{A: b, B: 2}, P: &In@{B: b}}\n\treturn x.I.A*1000 + x.I.B*100 + pi@(x.P) + len(x.S) + len(x.Q) + len(x.M)\n")
	nadd("explicit-inner-positional", "\tx := Mid@{In@{b, 2}, &In@{3, b}, nil, nil, nil}\n\treturn x.I.A*1000 + x.I.B*100 + pi@(x.P)\n")
	nadd("inner-partially-keyed", "\tx := &Mid@{I: In@{B: b}, P: &In@{}}\n\treturn x.I.A*1000 + x.I.B*100 + pi@(x.P)\n")
	nadd("elided-in-slices", "\tx := Mid@{S: []In@{1: {A: b}, {3, 4}}, Q: []*In@{{B: b}, 2: {5, 6}}}\n\treturn len(x.S)*100000 + x.S[0].A*10000 + x.S[1].A*1000 + x.S[2].B*100 + len(x.Q)*50 + pi@(x.Q[0]) + pi@(x.Q[1]) + pi@(x.Q[2])\n")
	nadd("elided-in-map", "\tx := Mid@{M: map[int]In@{b: {A: 1}, 3: {2, b}}}\n\treturn len(x.M)*1000 + x.M[b].A*100 + x.M[3].B\n")
	nadd("three-levels-value", "\to := Out@{M: Mid@{I: In@{b, 1}, S: []In@{{B: b}}}, N: 4}\n\treturn o.M.I.A*1000 + o.M.I.B*100 + o.M.S[0].B*10 + o.N + pi@(o.M.P)\n")
	nadd("three-levels-pointer", "\to := &Out@{P: &Mid@{P: &In@{A: b}, I: In@{B: 3}}}\n\treturn pi@(o.P.P)*100 + o.P.I.B*10 + o.N + o.M.I.A + len(o.M.S)\n")
	nadd("zero-middle", "\to := Out@{N: b}\n\tr := o.N*10 + o.M.I.A + o.M.I.B + len(o.M.S) + len(o.M.M)\n\tif o.P == nil && o.M.P == nil {\n\t\tr += 1000\n\t}\n\treturn r\n")
	nadd("slice-of-outer-elided", "\ts := []Out@{1: {N: b, M: Mid@{I: In@{1, 2}}}, {}}\n\treturn len(s)*10000 + s[0].N*1000 + s[1].N*100 + s[1].M.I.B*10 + s[2].M.I.A + len(s[2].M.Q)\n")
	nadd("array-of-pointers-elided", "\ts := [3]*Mid@{1: {I: In@{A: b}}, {P: &In@{1, 2}}}\n\tr := s[1].I.A*100 + pi@(s[2].P) + pi@(s[1].P)*7\n\tif s[0] == nil {\n\t\tr += 100000\n\t}\n\treturn r\n")
	add("anonymous/value", bArgs(2, 7)+"func X@(b int) int {\n\tx := struct {\n\t\tU int\n\t\tV []int\n\t\tW string\n\t}{V: []int{1: b}}\n\treturn x.U + ij(x.V)*10 + len(x.W)\n}\n")
	add("anonymous/slice-elided", bArgs(2, 7)+"func X@(b int) int {\n\ts := []struct{ U, V int }{1: {V: b}, {1, 2}}\n\treturn len(s)*1000 + s[0].U + s[1].V*10 + s[2].U*100 + s[2].V\n}\n")
	add("anonymous/pointer", bArgs(2, 7)+"func X@(b int) int {\n\tx := &struct{ U, V int }{V: b}\n\treturn x.U*10 + x.V\n}\n")
	add("embedded/keyed-by-type-name", "type E@ struct {\n\tPair\n\tC int\n}\n\n"+bArgs(2, 7)+"func X@(b int) int {\n\te := E@{Pair: Pair{A: b}, C: 3}\n\tz := E@{C: b}\n\treturn e.A*1000 + e.C*100 + e.Pair.B*10 + z.A + z.Pair.B + z.C\n}\n")
	add("embedded/positional", "type E@ struct {\n\tPair\n\tC int\n}\n\n"+bArgs(2, 7)+"func X@(b int) int {\n\te := &E@{Pair{b, 2}, 3}\n\treturn e.A*100 + e.B*10 + e.C\n}\n")
	add("named-types/slice-array-map-bytes", "type IS@ []int\n\ntype A3@ [3]int\n\ntype MT@ map[string]int\n\ntype BY@ []byte\n\n"+idxArgs(4, 2, 7)+
		"func X@(a int, b int) int {\n\ts := IS@{2: b, 4}\n\tr := A3@{1: b, 4}\n\tm := MT@{\"a\": b, sb(b): 2}\n\ty := BY@{2: byte(b), 200, 0: 'a'}\n\treturn len(s)*100000 + len(r)*10000 + len(m)*1000 + len(y)*100 + s[a] + int(y[a]) + r[0] + r[2] + m[\"a\"]\n}\n")
	add("any-elements/keyed", bArgs(2, 7)+"func X@(b int) int {\n\ts := []any{1: b, \"xy\", 0: true}\n\tr := len(s)*100 + s[1].(int)*10 + len(s[2].(string))\n\tif s[0].(bool) {\n\t\tr += 1000\n\t}\n\treturn r\n}\n")
}

// ---- literals compared as values ---------------------------------------------------------------------------------------------------

// shapesLitCompare: == and != between fresh array / struct literals of every
// element kind that Go can compare (keyed against positional spelling of the
// same content, and against a content differing in one place).
func shapesLitCompare(ss *shapeSet) {
	const inner = "byte-array-inside-a-compared-value-compares-references"
	add := func(tag, cause, decls, eq1, eq2, ne1, ne2 string) {
		ss.add("literals-ctx", "compared/"+tag, cause, decls+bArgs(2, 7)+fmt.Sprintf("func X@(b int) int {\n\te1 := %s == %s\n\te2 := %s != %s\n\te3 := %s != %s\n\te4 := %s == %s\n\treturn b2i(e1) + 10*b2i(e2) + 100*b2i(e3) + 1000*b2i(e4)\n}\n", eq1, eq2, ne1, ne2, eq1, eq2, ne1, ne2), false)
		ss.list[len(ss.list)-1].Hdr = litHdr
	}
	add("struct", "", "", "Pair{A: b}", "Pair{b, 0}", "Pair{A: b}", "Pair{B: b}")
	add("array-of-strings", "", "", `[2]string{1: sb(b)}`, `[2]string{"", sb(b)}`, `[3]string{2: "a"}`, `[3]string{"", "a"}`)
	add("array-of-bools", "", "", "[2]bool{1: b > 5}", "[...]bool{false, b > 5}", "[2]bool{1: true}", "[2]bool{true}")
	add("array-of-pointers", "", "", "[2]*Pair{}", "[2]*Pair{nil, nil}", "[2]*Pair{}", "[2]*Pair{1: {}}")
	add("array-of-arrays", "", "", "[2][2]int{1: {b}}", "[2][2]int{{}, {b, 0}}", "[2][2]int{1: {1: b}}", "[2][2]int{1: {b}}")
	add("array-of-structs", "", "", "[...]Pair{2: {B: b}}", "[3]Pair{{}, {}, {0, b}}", "[2]Pair{1: {A: b}}", "[2]Pair{{A: b}}")
	add("struct-with-array-field", "", "type WA@ struct {\n\tN int\n\tR [2]int\n}\n\n", "WA@{R: [2]int{1: b}}", "WA@{0, [2]int{0, b}}", "WA@{N: b}", "WA@{N: b, R: [2]int{1}}")
	add("byte-arrays", "", "", "[...]byte{2: byte(b), 0: 7}", "[3]byte{7, 0, byte(b)}", "[2]byte{1: 200}", "[2]byte{200}")
	// byte arrays INSIDE the compared value (Buffers below the top level are compared by reference)
	add("array-of-byte-arrays", inner, "", "[2][2]byte{{1, 2}, {1: byte(b)}}", "[2][2]byte{{1, 2}, {0, byte(b)}}", "[2][2]byte{{1, 2}}", "[2][2]byte{{1, 3}}")
	add("struct-with-byte-array-field", inner, "type WB@ struct {\n\tN int\n\tY [2]byte\n}\n\n", "WB@{N: b, Y: [2]byte{1: 3}}", "WB@{b, [2]byte{0, 3}}", "WB@{N: b}", "WB@{N: b, Y: [2]byte{1}}")
}
