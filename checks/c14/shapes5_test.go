// Shape families of C14, fifth part (extension round 4): language elements in
// every POSITION, not only in the few the other families put them in.
//
//	globals-use      one package variable whose ONLY use in the whole program is at
//	                 one expression position: position templates (operands of the
//	                 operators, index / indexed, slice bounds, call arguments of
//	                 every call form, callee expressions, function literal bodies,
//	                 deferred calls and their literals, recover handlers, composite
//	                 literal elements / keys / values / nested keys, switch / if /
//	                 for clauses, assignments, returns, initialisers of other package
//	                 variables, init() only, helper-only) x projections (how the
//	                 variable's kind - int, string, []int, []byte, []T, map, struct,
//	                 *struct, array, bool, any, nested - is turned into the integer
//	                 the position consumes: G, len(G), G[0], G[0].x, (*G).x, G.get(),
//	                 G.(int) ..., through a helper function that is itself only used
//	                 there, initialised by a literal / a call / another variable).
//	                 The usage analysis of the compiler (analysis.go) decides from the
//	                 syntax tree whether a variable is used; a variable judged unused is
//	                 never initialised and reads as Null.
//	globals-use-kind positions that exist for one kind only (range operand, spread,
//	                 string concatenation, bool conditions, type switch, whole-value
//	                 assignment, comma-ok forms, package-level tuple specs)
//	globals-use-pkg  the variable lives in an imported package (ordinary / aliased
//	                 import / package the compiler inlines): lib.G, lib.S.X,
//	                 lib.P.Get(), read by a function of that package only
//	globals-use-deploy  only use inside _deploy (programs of their own)
//	meta-names       manifest / debug-info names: exported and unexported functions,
//	                 methods and parameters whose first letter is 1, 2, 3 bytes wide,
//	                 letters whose lower-case form has another width, letters without
//	                 case (CJK: unexported), multi-byte letter in second position,
//	                 one-letter names, names differing only in the case of the first
//	                 letter, underscores, digits
//	meta-empty       exported functions of 0..2 parameters with empty / single-return
//	                 / single-statement bodies (a range of one instruction)
//	embed            promoted fields: the same field name at depths 1..3 of embedded
//	                 structs in every field order (Go picks the shallowest)
package c14

import (
	"fmt"
	"os"
	"strings"
)

var r4Stats = map[string]int{}

func allShapes5(ss *shapeSet, thorough bool) {
	r4Stats = map[string]int{}
	shapesGlobalsUse(ss, thorough)
	shapesMetaNames(ss)
	shapesMetaEmpty(ss)
	shapesEmbed(ss, thorough)
}

// devSkip: development aid, C14_R4_SKIP=<substrings of position/projection tags to leave out>.
func devSkip(tag string) bool {
	if e := os.Getenv("C14_R4_SKIP"); e != "" {
		for _, o := range strings.Split(e, ",") {
			if strings.Contains(tag, o) {
				return true
			}
		}
	}
	return false
}

// strictFamily: every program of these families is inside the dialect the
// unchanged compiler accepts; a refusal (or a panic of the compiler) is reported.
func strictFamily(f string) bool {
	return strings.HasPrefix(f, "literals") || strings.HasPrefix(f, "globals-use") || f == "meta-names" || f == "meta-empty" || f == "embed"
}

// earlyFamily: families that are put in front of the work list.
func earlyFamily(f string) bool {
	return strings.HasPrefix(f, "globals-use") || f == "meta-names" || f == "meta-empty" || f == "embed"
}

// ---- globals-use ---------------------------------------------------------------------------------------------------------------------------

const guCommon = `type In struct{ y int }

type T struct {
	x  int
	in In
}

func (t T) get() int { return t.x }

func (t *T) pget() int { return t.x }

func mkT(v int) T { return T{x: v} }

type pt struct{ A, B int }

func (p *pt) m(v int) int { return p.A*10 + v }

func (p pt) v(v int) int { return p.B*10 + v }

type ou struct {
	P pt
	N int
}

func id(v int) int { return v }

func two(p int, q int) int { return p*10 + q }

func sum(xs ...int) int {
	t := 0
	for _, x := range xs {
		t += x
	}
	return t
}

func b2i(v bool) int {
	if v {
		return 1
	}
	return 0
}

func ap(f func(int) int, v int) int { return f(v) }

func slen(s string) int { return len(s) }

func first(s []int) int { return s[0] }

func mlen(m map[string]int) int { return len(m) }

func tx(t T) int { return t.x }

func px(p *T) int { return p.x }

`

const guHdr = "//c14:file inl/h/h.go\npackage h\n\nfunc Id(x int) int { return x }\n\nfunc Add(x int, y int) int { return x + y }\n\nconst K0 = 0\n\n//c14:main\nimport \"" + inlineModule + "/h\"\n\nconst _ = h.K0\n\n" + guCommon

// guPos: a position. "§" is an int expression (value 2) that contains the
// variable once; pre = declarations the position needs; the body is that of
// func F@(a int) int.
type guPos struct{ name, pre, body string }

func guPositions() []guPos {
	const defr = "var r@ int\n\nfunc set@(v int) { r@ = v }\n\n"
	const run = "r@ = 0\n\tin@()\n\treturn r@*10 + a"
	return []guPos{
		{"return", "", "return §"},
		{"paren", "", "return (§) + a"},
		{"unary-minus", "", "return -§ + a"},
		{"bin-add-left", "", "return § + a"},
		{"bin-add-right", "", "return a + §"},
		{"bin-sub-right", "", "return a - §"},
		{"bin-mul-left", "", "return § * a"},
		{"bin-div-right", "", "return (a + 10) / §"},
		{"bin-mod-right", "", "return (a + 10) % §"},
		{"bin-and-left", "", "return § & a"},
		{"bin-or-right", "", "return a | §"},
		{"bin-shl-right", "", "return a << §"},
		{"bin-shr-left", "", "return (§ * 8) >> a"},
		{"cmp-eq-left", "", "return b2i(§ == a)"},
		{"cmp-ne-right", "", "return b2i(a != §)"},
		{"cmp-lt-left", "", "return b2i(§ < a)"},
		{"cmp-ge-right", "", "return b2i(a >= §)"},
		{"land-right", "", "return b2i(a > 0 && § > a)"},
		{"land-left", "", "return b2i(§ > a && a > 0)"},
		{"lor-right", "", "return b2i(a > 5 || § > a)"},
		{"not-operand", "", "return b2i(!(§ > a))"},
		{"index-of-slice", "", "s := []int{10, 20, 30, 40}\n\treturn s[§] + a"},
		{"index-of-slice-assigned", "", "s := []int{10, 20, 30, 40}\n\ts[§] = a\n\treturn s[0] + s[1] + s[2]*100 + s[3]"},
		{"index-of-slice-opassign", "", "s := []int{10, 20, 30, 40}\n\ts[§] += a\n\treturn s[0] + s[1] + s[2]*100 + s[3]"},
		{"index-of-slice-incdec", "", "s := []int{10, 20, 30, 40}\n\ts[§]++\n\treturn s[0] + s[1] + s[2]*100 + s[3] + a"},
		{"index-of-map", "", "m := map[int]int{1: 10, 2: 20}\n\treturn m[§] + a"},
		{"index-of-map-assigned", "", "m := map[int]int{1: 10}\n\tm[§] = a\n\treturn m[2] + len(m)*100"},
		{"index-of-map-comma-ok", "", "m := map[int]int{1: 10, 2: 20}\n\tv, ok := m[§]\n\treturn v + b2i(ok)*100 + a"},
		{"index-of-string", "", "s := \"abcd\"\n\treturn int(s[§]) + a"},
		{"index-of-nested", "", "s := [][]int{{1, 2, 3}, {4, 5, 6}}\n\treturn s[1][§] + s[§-1][0] - s[1][2] + 6 + a"},
		{"slice-low", "", "bs := []byte{1, 2, 3, 4, 5}\n\tt := bs[§:]\n\treturn len(t)*10 + int(t[0]) + a"},
		{"slice-high", "", "bs := []byte{1, 2, 3, 4, 5}\n\tt := bs[:§]\n\treturn len(t)*10 + int(t[0]) + a"},
		{"slice-high-of-two", "", "bs := []byte{1, 2, 3, 4, 5}\n\tt := bs[1:§]\n\treturn len(t)*10 + int(t[0]) + a"},
		{"slice-low-of-string", "", "s := \"abcdef\"\n\tt := s[§:]\n\treturn len(t)*10 + a"},
		{"call-arg", "", "return id(§) + a"},
		{"call-arg-first-of-two", "", "return two(§, a)"},
		{"call-arg-second-of-two", "", "return two(a, §)"},
		{"call-arg-variadic", "", "return sum(a, §)"},
		{"call-arg-variadic-alone", "", "return sum(§) + a"},
		{"call-arg-nested-call", "", "return id(id(§)) + a"},
		{"call-arg-pointer-method", "", "p := &pt{A: 5}\n\treturn p.m(§) + a"},
		{"call-arg-value-method", "", "p := pt{B: 5}\n\treturn p.v(§) + a"},
		{"call-arg-method-of-literal", "", "return (&pt{A: 5}).m(§) + a"},
		{"call-arg-make", "", "return len(make([]int, §)) + a"},
		{"call-arg-append", "", "s := []int{1}\n\ts = append(s, §)\n\treturn s[1] + a"},
		{"call-arg-append-last", "", "s := []int{1}\n\ts = append(s, a, §)\n\treturn s[2]*10 + s[1]"},
		{"call-arg-delete", "", "m := map[int]int{1: 1, 2: 2}\n\tdelete(m, §)\n\treturn len(m) + a"},
		{"call-arg-conversion", "", "return int(§) + a"},
		{"call-arg-min", "", "return min(a, §)"},
		{"call-arg-inlined-helper", "", "return h.Id(§) + a"},
		{"call-arg-inlined-helper-second", "", "return h.Add(a, §)"},
		{"call-arg-literal-called-in-place", "", "return func(x int) int { return x * 3 }(§) + a"},
		{"call-arg-literal-in-variable", "", "f := func(x int) int { return x * 3 }\n\treturn f(§) + a"},
		{"call-arg-function-parameter", "", "return ap(func(x int) int { return x * 3 }, §) + a"},
		{"literal-body-called-in-place", "", "return func() int { return § * 3 }() + a"},
		{"literal-body-called-in-place-paren", "", "return (func(x int) int { return x * § })(a)"},
		{"literal-body-in-variable", "", "f := func() int { return § * 3 }\n\treturn f() + a"},
		{"literal-body-passed", "", "return ap(func(x int) int { return x + § }, a)"},
		{"literal-body-nested", "", "f := func() int {\n\t\tg := func() int { return § }\n\t\treturn g() + 1\n\t}\n\treturn f() + a"},
		{"callee-index", "", "fs := []func(int) int{func(x int) int { return x }, func(x int) int { return x * 2 }, func(x int) int { return x * 3 }}\n\treturn fs[§](a)"},
		{"callee-call-arg", "var g@ int\n\nfunc mk@(v int) func(int) int {\n\tg@ = v\n\treturn func(x int) int { return x * 2 }\n}\n\n", "r := mk@(§)(a)\n\treturn r + g@*100"},
		{"defer-call-arg", defr + "func in@() { defer set@(§) }\n\n", run},
		{"defer-call-arg-nested", defr + "func in@() { defer set@(id(§)) }\n\n", run},
		{"defer-method-call-arg", "var r@ int\n\ntype d@ struct{}\n\nfunc (d *d@) set(v int) { r@ = v }\n\nfunc in@() {\n\td := &d@{}\n\tdefer d.set(§)\n}\n\n", run},
		{"defer-literal-body", "var r@ int\n\nfunc in@() {\n\tdefer func() { r@ = § }()\n}\n\n", run},
		{"defer-literal-arg", "var r@ int\n\nfunc in@() {\n\tdefer func(v int) { r@ = v }(§)\n}\n\n", run},
		{"recover-handler", "var r@ int\n\nfunc in@() {\n\tdefer func() {\n\t\tif recover() != nil {\n\t\t\tr@ = §\n\t\t}\n\t}()\n\tpanic(\"x\")\n}\n\n", run},
		{"after-defer-statement", defr + "func in@() int {\n\tdefer set@(7)\n\treturn §\n}\n\n", "r@ = 0\n\tv := in@()\n\treturn r@*10 + v + a"},
		{"lit-slice-element", "", "s := []int{§}\n\treturn s[0] + a"},
		{"lit-slice-element-second", "", "s := []int{a, §}\n\treturn s[0]*10 + s[1]"},
		{"lit-slice-element-keyed", "", "s := []int{1: §}\n\treturn s[1] + len(s)*10 + a"},
		{"lit-array-element", "", "s := [2]int{§, a}\n\treturn s[0]*10 + s[1]"},
		{"lit-map-value", "", "m := map[int]int{1: §}\n\treturn m[1] + a"},
		{"lit-map-key", "", "m := map[int]int{§: 7}\n\treturn m[2] + a"},
		{"lit-map-key-after-constant", "", "m := map[int]int{1: 3, §: 7}\n\treturn m[2] + m[1]*10 + a"},
		{"lit-nested-slice-element", "", "s := [][]int{{§}}\n\treturn s[0][0] + a"},
		{"lit-nested-map-value", "", "m := map[int][]int{1: {§}}\n\treturn m[1][0] + a"},
		{"lit-nested-map-key", "", "m := map[int]map[int]int{1: {§: 7}}\n\treturn m[1][2] + a"},
		{"lit-struct-field-keyed", "", "p := pt{A: §}\n\treturn p.A + a"},
		{"lit-struct-field-positional", "", "p := pt{§, a}\n\treturn p.A*10 + p.B"},
		{"lit-struct-pointer", "", "p := &pt{B: §}\n\treturn p.B + a"},
		{"lit-slice-of-structs", "", "s := []pt{{A: §}}\n\treturn s[0].A + a"},
		{"lit-slice-of-pointers", "", "s := []*pt{{B: §}}\n\treturn s[0].B + a"},
		{"lit-map-of-structs", "", "m := map[int]pt{1: {A: §}}\n\treturn m[1].A + a"},
		{"lit-struct-nested-field", "", "o := ou{P: pt{A: §}}\n\treturn o.P.A + a"},
		{"lit-indexed-in-place", "", "return []int{1, §, 3}[1] + a"},
		{"lit-struct-selected-in-place", "", "return pt{A: §}.A + a"},
		{"lit-range-operand", "", "r := 0\n\tfor _, v := range []int{§, a} {\n\t\tr = r*10 + v\n\t}\n\treturn r"},
		{"range-body", "", "r := 0\n\tfor _, v := range []int{1, 2} {\n\t\tr += v * §\n\t}\n\treturn r + a"},
		{"range-map-body", "", "r := 0\n\tfor k := range map[int]int{1: 1, 3: 3} {\n\t\tr += k * §\n\t}\n\treturn r + a"},
		{"for-body", "", "r := 0\n\tfor i := 0; i < 2; i++ {\n\t\tr += §\n\t}\n\treturn r + a"},
		{"for-cond", "", "r := 0\n\tfor i := 0; i < §; i++ {\n\t\tr += a\n\t}\n\treturn r"},
		{"for-init", "", "r := 0\n\tfor i := §; i < 4; i++ {\n\t\tr += a\n\t}\n\treturn r"},
		{"for-post", "", "r := 0\n\tfor i := 0; i < 4; i += § {\n\t\tr += a\n\t}\n\treturn r"},
		{"for-cond-only", "", "i := 0\n\tfor i < § {\n\t\ti++\n\t}\n\treturn i + a"},
		{"switch-tag", "", "switch § {\n\tcase 2:\n\t\treturn a + 1\n\tcase 3:\n\t\treturn a + 2\n\t}\n\treturn a"},
		{"switch-case", "", "switch a {\n\tcase §:\n\t\treturn 100\n\t}\n\treturn a"},
		{"switch-case-second", "", "switch a {\n\tcase 1, §:\n\t\treturn 100\n\t}\n\treturn a"},
		{"switch-tagless-case", "", "switch {\n\tcase § > a:\n\t\treturn 100\n\t}\n\treturn a"},
		{"switch-init", "", "switch x := §; x {\n\tcase 2:\n\t\treturn a + 1\n\t}\n\treturn a"},
		{"switch-clause-body", "", "switch a {\n\tcase 1:\n\t\treturn §\n\t}\n\treturn a"},
		{"switch-default-body", "", "switch a {\n\tcase 1:\n\t\treturn 0\n\tdefault:\n\t\treturn § + a\n\t}"},
		{"if-cond", "", "if § > a {\n\t\treturn 1\n\t}\n\treturn 2"},
		{"if-init", "", "if x := §; x > a {\n\t\treturn 1\n\t}\n\treturn 2"},
		{"if-body", "", "if a > 1 {\n\t\treturn §\n\t}\n\treturn 7"},
		{"else-if-cond", "", "if a > 5 {\n\t\treturn 0\n\t} else if § > a {\n\t\treturn 1\n\t}\n\treturn 2"},
		{"else-body", "", "if a > 5 {\n\t\treturn 0\n\t} else {\n\t\treturn § + a\n\t}"},
		{"labelled-loop", "", "r := 0\nL:\n\tfor i := 0; i < 3; i++ {\n\t\tif i >= § {\n\t\t\tbreak L\n\t\t}\n\t\tr += a\n\t}\n\treturn r"},
		{"block", "", "{\n\t\tx := §\n\t\ta += x\n\t}\n\treturn a"},
		{"assign-define", "", "x := §\n\treturn x + a"},
		{"assign-plain", "", "x := 0\n\tx = §\n\treturn x + a"},
		{"assign-var", "", "var x = §\n\treturn x + a"},
		{"assign-var-typed", "", "var x int = §\n\treturn x + a"},
		{"assign-second-of-two", "", "x, y := a, §\n\treturn x*10 + y"},
		{"assign-opassign", "", "x := a\n\tx += §\n\treturn x"},
		{"assign-opassign-shift", "", "x := a\n\tx <<= §\n\treturn x"},
		{"assign-to-field", "", "p := &pt{}\n\tp.A = §\n\treturn p.A + a"},
		{"assign-to-element", "", "s := []int{0}\n\ts[0] = §\n\treturn s[0] + a"},
		{"assign-to-map-entry", "", "m := map[int]int{}\n\tm[1] = §\n\treturn m[1] + a"},
		{"assign-to-package-variable", "var r@ int\n\n", "r@ = §\n\treturn r@ + a"},
		{"assign-swap", "", "x, y := a, 0\n\tx, y = §, x\n\treturn x*10 + y"},
		{"type-assertion-operand", "", "var i any = §\n\treturn i.(int) + a"},
		{"return-second-of-two", "func tw@(a int) (int, int) { return a, § }\n\n", "x, y := tw@(a)\n\treturn x*10 + y"},
		{"return-named", "func nr@() (r int) {\n\tr = §\n\treturn\n}\n\n", "return nr@() + a"},
		{"helper-only", "func hp@() int { return § }\n\n", "return hp@() + a"},
		{"helper-of-helper-only", "func hq@() int { return § }\n\nfunc hp@() int { return hq@() + 1 }\n\n", "return hp@() + a"},
		{"method-only", "type q@ struct{}\n\nfunc (q *q@) get() int { return § }\n\n", "x := &q@{}\n\treturn x.get() + a"},
		{"value-method-only", "type q@ struct{ n int }\n\nfunc (q q@) get() int { return § + q.n }\n\n", "return q@{n: a}.get()"},
		{"recursive-helper-only", "func rc@(n int) int {\n\tif n == 0 {\n\t\treturn §\n\t}\n\treturn rc@(n-1) + 1\n}\n\n", "return rc@(a)"},
		{"global-init", "var b@ = §\n\n", "return b@ + a"},
		{"global-init-expression", "var b@ = § + 1\n\n", "return b@ + a"},
		{"global-init-typed", "var b@ int = §\n\n", "return b@ + a"},
		{"global-init-slice-element", "var b@ = []int{§}\n\n", "return b@[0] + a"},
		{"global-init-map-key", "var b@ = map[int]int{§: 7}\n\n", "return b@[2] + a"},
		{"global-init-map-value", "var b@ = map[int]int{1: §}\n\n", "return b@[1] + a"},
		{"global-init-struct-field", "var b@ = pt{A: §}\n\n", "return b@.A + a"},
		{"global-init-call-arg", "var b@ = id(§)\n\n", "return b@ + a"},
		{"global-init-second-of-two", "var c@, b@ = 1, §\n\n", "return b@*10 + c@ + a"},
		{"global-init-first-of-two", "var b@, c@ = §, 1\n\n", "return b@*10 + c@ + a"},
		{"global-init-group", "var (\n\tc@ = 1\n\tb@ = §\n)\n\n", "return b@*10 + c@ + a"},
		{"global-init-tuple-first-used", "func tp@(v int) (int, int) { return v, v * 2 }\n\nvar b@, c@ = tp@(§)\n\n", "return b@ + a"},
		{"global-init-tuple-second-used", "func tp@(v int) (int, int) { return v, v * 2 }\n\nvar c@, b@ = tp@(§)\n\n", "return b@ + a"},
		{"global-init-tuple-blank-first", "func tp@(v int) (int, int) { return v, v * 2 }\n\nvar _, b@ = tp@(§)\n\n", "return b@ + a"},
		{"global-init-comma-ok-second-used", "var mm@ = map[int]int{2: 5}\n\nvar c@, b@ = mm@[§]\n\n", "return b2i(b@) + a"},
		{"global-init-comma-ok-first-used", "var mm@ = map[int]int{2: 5}\n\nvar b@, c@ = mm@[§]\n\n", "return b@ + a"},
		{"global-init-comma-ok-blank-first", "var mm@ = map[int]int{2: 5}\n\nvar _, b@ = mm@[§]\n\n", "return b2i(b@) + a"},
		{"global-init-chain", "var b@ = §\n\nvar c@ = b@ + 1\n\n", "return c@ + a"},
		{"global-init-unused-with-effect", "var r@ int\n\nfunc se@(v int) int {\n\tr@ = v\n\treturn v\n}\n\nvar _ = se@(§)\n\n", "return r@ + a"},
		{"init-function", "var r@ int\n\nfunc init() { r@ = § }\n\n", "return r@ + a"},
		{"init-function-helper", "var r@ int\n\nfunc hp@() int { return § }\n\nfunc init() { r@ = hp@() }\n\n", "return r@ + a"},
		{"init-function-condition", "var r@ int\n\nfunc init() {\n\tif § > 1 {\n\t\tr@ = 5\n\t}\n}\n\n", "return r@ + a"},
	}
}

// guProj: how the package variable G@ becomes the integer 2. pre = its
// declaration (and what it needs); lib = declarations placed in the imported
// package instead (globals-use-pkg).
type guProj struct {
	name, pre, expr string
	core            bool // quick: combined with every position (the others with the core positions)
}

func guProjections() []guProj {
	return []guProj{
		{"int", "var G@ = 2\n\n", "G@", true},
		{"int-typed", "var G@ int = 2\n\n", "G@", false},
		{"int-from-call", "var G@ = id(2)\n\n", "G@", true},
		{"int-from-expression", "var G@ = 1 + 1\n\n", "G@", false},
		{"int-from-variable", "var G0@ = 2\n\nvar G@ = G0@\n\n", "G@", false},
		{"int-second-of-spec", "var U@, G@ = 7, 2\n\n", "G@", false},
		{"int-in-group", "var (\n\tU@ = 7\n\tG@ = 2\n)\n\n", "G@", false},
		{"int-from-tuple", "func gt@() (int, int) { return 7, 2 }\n\nvar U@, G@ = gt@()\n\n", "G@", false},
		{"int-through-helper", "var G@ = 2\n\nfunc hg@() int { return G@ }\n\n", "hg@()", true},
		{"int-through-method", "var G@ = 2\n\ntype hm@ struct{}\n\nfunc (h hm@) get() int { return G@ }\n\n", "(hm@{}).get()", false},
		{"string-len", "var G@ = \"ab\"\n\n", "len(G@)", false},
		{"string-index", "var G@ = \"\\x02b\"\n\n", "int(G@[0])", false},
		{"string-passed", "var G@ = \"ab\"\n\n", "slen(G@)", false},
		{"ints-index", "var G@ = []int{2, 5}\n\n", "G@[0]", true},
		{"ints-len", "var G@ = []int{2, 5}\n\n", "len(G@)", false},
		{"ints-passed", "var G@ = []int{2, 5}\n\n", "first(G@)", false},
		{"ints-from-call", "func mi@() []int { return []int{2, 5} }\n\nvar G@ = mi@()\n\n", "G@[0]", false},
		{"ints-nested", "var G@ = [][]int{{1}, {9, 2}}\n\n", "G@[1][1]", false},
		{"bytes-index", "var G@ = []byte{2, 9, 9}\n\n", "int(G@[0])", false},
		{"bytes-sliced", "var G@ = []byte{2, 9, 9}\n\n", "len(G@[1:])", false},
		{"bytes-converted", "var G@ = []byte{65, 66}\n\n", "len(string(G@))", false},
		{"array-index", "var G@ = [2]int{2, 9}\n\n", "G@[0]", false},
		{"array-len", "var G@ = [2]int{2, 9}\n\n", "len(G@)", false},
		{"structs-index-field", "var G@ = []T{{x: 2}, {x: 7, in: In{y: 2}}}\n\n", "G@[0].x", true},
		{"structs-index-nested-field", "var G@ = []T{{x: 2}, {x: 7, in: In{y: 2}}}\n\n", "G@[1].in.y", false},
		{"structs-index-method", "var G@ = []T{{x: 2}, {x: 7}}\n\n", "G@[0].get()", false},
		{"pointers-index-field", "var G@ = []*T{{x: 2}, {x: 7}}\n\n", "G@[0].x", false},
		{"map-index", "var G@ = map[string]int{\"k\": 2, \"j\": 3}\n\n", "G@[\"k\"]", true},
		{"map-len", "var G@ = map[string]int{\"k\": 2, \"j\": 3}\n\n", "len(G@)", false},
		{"map-of-structs-field", "var G@ = map[string]T{\"k\": {x: 2}}\n\n", "G@[\"k\"].x", false},
		{"map-int-keys", "var G@ = map[int]int{7: 2}\n\n", "G@[7]", false},
		{"struct-field", "var G@ = T{x: 2}\n\n", "G@.x", false},
		{"struct-field-paren", "var G@ = T{x: 2}\n\n", "(G@).x", false},
		{"struct-nested-field", "var G@ = T{x: 7, in: In{y: 2}}\n\n", "G@.in.y", false},
		{"struct-value-method", "var G@ = T{x: 2}\n\n", "G@.get()", true},
		{"struct-pointer-method", "var G@ = T{x: 2}\n\n", "G@.pget()", false},
		{"struct-passed", "var G@ = T{x: 2}\n\n", "tx(G@)", false},
		{"struct-from-call", "var G@ = mkT(2)\n\n", "G@.x", false},
		{"struct-zero-value", "var G@ T\n\n", "(G@.x + 2)", false},
		{"pointer-field", "var G@ = &T{x: 2}\n\n", "G@.x", false},
		{"pointer-star-field", "var G@ = &T{x: 2}\n\n", "(*G@).x", true},
		{"pointer-nested-field", "var G@ = &T{x: 7, in: In{y: 2}}\n\n", "G@.in.y", false},
		{"pointer-method", "var G@ = &T{x: 2}\n\n", "G@.pget()", false},
		{"pointer-value-method", "var G@ = &T{x: 2}\n\n", "G@.get()", false},
		{"pointer-passed", "var G@ = &T{x: 2}\n\n", "px(G@)", false},
		{"bool", "var G@ = true\n\n", "(b2i(G@) + 1)", false},
		{"bool-not", "var G@ = false\n\n", "(b2i(!G@) + 1)", false},
		{"any-asserted", "var G@ any = 2\n\n", "G@.(int)", true},
		{"any-asserted-field", "var G@ any = T{x: 2}\n\n", "G@.(T).x", false},
		{"call-result-field", "var G@ = 2\n\n", "mkT(G@).x", false},
		{"call-result-index", "func ms@(v int) []int { return []int{v} }\n\nvar G@ = 2\n\n", "ms@(G@)[0]", false},
		{"literal-field", "var G@ = 2\n\n", "(T{x: G@}).x", false},
		{"as-index", "var G@ = 1\n\n", "[]int{5, 2}[G@]", false},
		{"as-map-key", "var G@ = \"k\"\n\n", "map[string]int{\"k\": 2}[G@]", false},
		{"as-slice-bound", "var G@ = 1\n\n", "len([]byte{1, 2, 3}[G@:])", false},
	}
}

// guCorePositions: the positions every projection is combined with in the quick tier.
var guCorePositions = map[string]bool{
	"return": true, "call-arg": true, "defer-call-arg": true, "defer-literal-body": true, "lit-map-key": true, "lit-slice-element": true,
	"if-cond": true, "literal-body-called-in-place": true, "callee-index": true, "global-init": true, "global-init-map-key": true,
	"init-function": true, "range-body": true, "switch-case": true, "helper-only": true, "global-init-comma-ok-second-used": true,
	"callee-call-arg": true, "recover-handler": true,
}

func guFn(pos guPos, expr string) string {
	return strings.ReplaceAll(pos.pre+"//c14:args 1;2;7\nfunc F@(a int) int {\n\t"+pos.body+"\n}\n", "§", expr)
}

func shapesGlobalsUse(ss *shapeSet, thorough bool) {
	poss, projs := guPositions(), guProjections()
	n := 0
	for _, pj := range projs {
		for _, pos := range poss {
			if !thorough && !pj.core && !guCorePositions[pos.name] {
				continue
			}
			if devSkip(pos.name + "/" + pj.name) {
				continue
			}
			ss.addH("globals-use", pos.name+"/"+pj.name, pos.name, guHdr, pj.pre+guFn(pos, pj.expr))
			n++
		}
	}
	r4Stats["globals_use_positions"] = len(poss)
	r4Stats["globals_use_projections"] = len(projs)
	r4Stats["globals_use_programs"] = n
	shapesGlobalsUseKind(ss)
	shapesGlobalsUsePkg(ss, thorough)
	shapesGlobalsUseDeploy(ss)
}

// shapesGlobalsUseKind: positions that exist for one kind of variable only.
func shapesGlobalsUseKind(ss *shapeSet) {
	n := 0
	add := func(tag, src string) {
		ss.addH("globals-use-kind", tag, "", guCommon, src)
		n++
	}
	fn := func(body string) string { return "//c14:args 1;2;7\nfunc F@(a int) int {\n\t" + body + "\n}\n" }
	ints := "var G@ = []int{2, 5}\n\n"
	add("ints/range-operand-values", ints+fn("r := 0\n\tfor _, v := range G@ {\n\t\tr = r*10 + v\n\t}\n\treturn r + a"))
	add("ints/range-operand-indexes", ints+fn("r := 0\n\tfor i := range G@ {\n\t\tr += i + 1\n\t}\n\treturn r + a"))
	add("ints/range-operand-no-variables", ints+fn("r := 0\n\tfor range G@ {\n\t\tr++\n\t}\n\treturn r + a"))
	add("ints/append-first-argument", ints+fn("return len(append(G@, a)) + a"))
	add("ints/append-spread", ints+fn("s := []int{a}\n\ts = append(s, G@...)\n\treturn len(s)*10 + s[1]"))
	add("ints/spread", ints+fn("return sum(G@...) + a"))
	add("ints/assigned-whole", ints+fn("s := G@\n\treturn s[0] + a"))
	add("ints/nil-comparison", ints+fn("return b2i(G@ != nil) + a"))
	add("ints/element-of-literal", ints+fn("s := [][]int{G@}\n\treturn s[0][0] + a"))
	add("ints/value-of-map-literal", ints+fn("m := map[int][]int{1: G@}\n\treturn m[1][0] + a"))
	add("ints/field-of-literal", "type ws@ struct{ s []int }\n\n"+ints+fn("w := ws@{s: G@}\n\treturn w.s[0] + a"))
	add("ints/returned", ints+"func F@(a int) []int { return G@ }\n")
	add("ints/index-assigned-then-helper", ints+"func rd@(s []int) int { return s[0] }\n\n"+fn("s := []int{a}\n\tcopyInts@(s, G@)\n\treturn rd@(s)")+"\nfunc copyInts@(d []int, s []int) { d[0] = s[0] + 1 }\n")
	bytesG := "var G@ = []byte{2, 9}\n\n"
	add("bytes/copy-source", bytesG+fn("d := []byte{0, 0}\n\tcopy(d, G@)\n\treturn int(d[0]) + a"))
	add("bytes/append-spread", bytesG+fn("d := []byte{1}\n\td = append(d, G@...)\n\treturn len(d)*10 + int(d[1]) + a"))
	add("bytes/range-operand", bytesG+fn("r := 0\n\tfor _, v := range G@ {\n\t\tr = r*10 + int(v)\n\t}\n\treturn r + a"))
	add("bytes/returned", bytesG+"func F@(a int) []byte { return G@ }\n")
	str := "var G@ = \"ab\"\n\n"
	add("string/concat-left", str+fn("return len(G@+\"x\") + a"))
	add("string/concat-right", str+"func F@(s string) string { return s + G@ }\n")
	add("string/compared", str+"func F@(s string) bool { return G@ == s }\n")
	add("string/converted-to-bytes", str+fn("b := []byte(G@)\n\treturn len(b)*10 + int(b[0]) + a"))
	add("string/range-operand", str+fn("r := 0\n\tfor i := range G@ {\n\t\tr += i + 1\n\t}\n\treturn r + a"))
	add("string/switch-tag", str+fn("switch G@ {\n\tcase \"ab\":\n\t\treturn a + 1\n\t}\n\treturn a"))
	add("string/switch-case", str+"func F@(s string) int {\n\tswitch s {\n\tcase G@:\n\t\treturn 1\n\t}\n\treturn 2\n}\n")
	add("string/map-literal-key", str+fn("m := map[string]int{G@: 7}\n\treturn m[\"ab\"] + a"))
	add("string/map-index", str+fn("m := map[string]int{\"ab\": 7}\n\treturn m[G@] + a"))
	add("string/map-index-assigned", str+fn("m := map[string]int{}\n\tm[G@] = a\n\treturn m[\"ab\"] + len(m)*10"))
	add("string/returned", str+"func F@(a int) string { return G@ }\n")
	add("string/op-assigned", str+"func F@(s string) string {\n\ts += G@\n\treturn s\n}\n")
	add("string/panic-argument-recovered", "var r@ int\n\n"+str+"func in@() {\n\tdefer func() {\n\t\tif x := recover(); x != nil {\n\t\t\tr@ = 5\n\t\t}\n\t}()\n\tpanic(G@)\n}\n\n"+fn("r@ = 0\n\tin@()\n\treturn r@ + a"))
	mp := "var G@ = map[string]int{\"k\": 2, \"j\": 3}\n\n"
	add("map/range-operand", mp+fn("r := 0\n\tfor k, v := range G@ {\n\t\tr += len(k)*10 + v\n\t}\n\treturn r + a"))
	add("map/comma-ok", mp+fn("v, ok := G@[\"k\"]\n\treturn v*10 + b2i(ok) + a"))
	add("map/comma-ok-blank-value", mp+fn("_, ok := G@[\"k\"]\n\treturn b2i(ok) + a"))
	add("map/comma-ok-in-if-init", mp+fn("if v, ok := G@[\"k\"]; ok {\n\t\treturn v + a\n\t}\n\treturn 0"))
	add("map/passed", mp+fn("return mlen(G@) + a"))
	add("map/assigned-whole", mp+fn("m := G@\n\treturn m[\"j\"] + a"))
	add("map/package-level-comma-ok-second-used", mp+"var v@, ok@ = G@[\"k\"]\n\n"+fn("return b2i(ok@) + a"))
	add("map/package-level-comma-ok-first-used", mp+"var v@, ok@ = G@[\"k\"]\n\n"+fn("return v@ + a"))
	add("map/package-level-comma-ok-blank", mp+"var _, ok@ = G@[\"k\"]\n\n"+fn("return b2i(ok@) + a"))
	add("map/package-level-comma-ok-key", "var G@ = \"k\"\n\nvar mm@ = map[string]int{\"k\": 2}\n\nvar _, ok@ = mm@[G@]\n\n"+fn("return b2i(ok@) + a"))
	st := "var G@ = T{x: 2, in: In{y: 3}}\n\n"
	add("struct/assigned-whole", st+fn("t := G@\n\treturn t.x + a"))
	add("struct/field-of-literal", "type ws@ struct{ t T }\n\n"+st+fn("w := ws@{t: G@}\n\treturn w.t.x + a"))
	add("struct/element-of-literal", st+fn("s := []T{G@}\n\treturn s[0].x + a"))
	add("struct/inner-struct-passed", "func iy@(i In) int { return i.y }\n\n"+st+fn("return iy@(G@.in) + a"))
	ptr := "var G@ = &T{x: 2}\n\n"
	add("pointer/assigned-whole", ptr+fn("p := G@\n\treturn p.x + a"))
	add("pointer/nil-comparison", ptr+fn("return b2i(G@ != nil) + a"))
	add("pointer/dereferenced-whole", ptr+fn("t := *G@\n\treturn t.x + a"))
	add("pointer/element-of-literal", ptr+fn("s := []*T{G@}\n\treturn s[0].x + a"))
	bl := "var G@ = true\n\n"
	add("bool/if-cond", bl+fn("if G@ {\n\t\treturn a + 1\n\t}\n\treturn a"))
	add("bool/not", bl+fn("if !G@ {\n\t\treturn a + 1\n\t}\n\treturn a"))
	add("bool/and-left", bl+fn("return b2i(G@ && a > 1)"))
	add("bool/or-right", bl+fn("return b2i(a > 1 || G@)"))
	add("bool/for-cond", bl+fn("r := 0\n\tfor G@ {\n\t\tr++\n\t\tif r > a {\n\t\t\tbreak\n\t\t}\n\t}\n\treturn r"))
	add("bool/switch-tagless-case", bl+fn("switch {\n\tcase G@:\n\t\treturn a + 1\n\t}\n\treturn a"))
	add("bool/compared", bl+fn("return b2i(G@ == (a > 1))"))
	add("bool/returned", bl+"func F@(a int) bool { return G@ }\n")
	an := "var G@ any = 2\n\n"
	add("any/nil-comparison", an+fn("return b2i(G@ != nil) + a"))
	// written and read at unusual positions only
	add("int/loop-variable", "var G@ int\n\n"+fn("r := 0\n\tfor G@ = 0; G@ < 3; G@++ {\n\t\tr += a\n\t}\n\treturn r"))
	add("int/incremented-in-init-only", "var G@ = 1\n\nvar r@ int\n\nfunc init() {\n\tG@++\n\tr@ = G@\n}\n\n"+fn("return r@ + a"))
	add("int/range-key-target", "var G@ int\n\n"+fn("r := 0\n\tfor G@ = range []int{5, 6, 7} {\n\t\tr += a\n\t}\n\treturn r*10 + G@"))
	add("int/assigned-from-tuple", "var G@ int\n\nfunc tw@(a int) (int, int) { return a, a + 1 }\n\n"+fn("_, G@ = tw@(a)\n\treturn id(G@)"))
	r4Stats["globals_use_kind_programs"] = n
}

// shapesGlobalsUsePkg: the variable is declared in an imported package. The
// packages' files are the family's header: every program has declarations of
// its own in them (collected first).
func shapesGlobalsUsePkg(ss *shapeSet, thorough bool) {
	type pproj struct{ name, pkg, decl, expr, decl2 string } // pkg: lib | l2 (aliased import of lib2, which imports lib) | h (inlined); decl2: declarations for lib
	pps := []pproj{
		{"lib-int", "lib", "var G@ = 2\n", "lib.G@", ""},
		{"lib-read-by-function-of-third-package", "l2", "func R@() int { return lib.G@ }\n", "l2.R@()", "var G@ = 2\n"},
		{"lib-read-by-initialiser-of-third-package", "l2", "var H@ = lib.G@ + 0\n", "l2.H@", "var G@ = 2\n"},
		{"lib-struct-field-read-by-third-package", "l2", "func R@() int { return lib.G@.X }\n", "l2.R@()", "var G@ = S{X: 2}\n"},
		{"lib-int-from-call", "lib", "var G@ = two(0, 2)\n", "lib.G@", ""},
		{"lib-int-from-unexported", "lib", "var g@ = 2\n\nvar G@ = g@\n", "lib.G@", ""},
		{"lib-struct-field", "lib", "var G@ = S{X: 2}\n", "lib.G@.X", ""},
		{"lib-pointer-method", "lib", "var G@ = &S{X: 2}\n", "lib.G@.Get()", ""},
		{"lib-slice-index-field", "lib", "var G@ = []S{{X: 2}}\n", "lib.G@[0].X", ""},
		{"lib-map-index", "lib", "var G@ = map[string]int{\"k\": 2}\n", "lib.G@[\"k\"]", ""},
		{"lib-read-by-function", "lib", "var g@ = 2\n\nfunc F@() int { return g@ }\n", "lib.F@()", ""},
		{"lib-read-by-method", "lib", "var g@ = 2\n\ntype Q@ struct{}\n\nfunc (q Q@) Get() int { return g@ }\n", "(lib.Q@{}).Get()", ""},
		{"aliased-int", "l2", "var G@ = 2\n", "l2.G@", ""},
		{"aliased-struct-field", "l2", "var G@ = S{X: 2}\n", "l2.G@.X", ""},
		{"inlined-int", "h", "var G@ = 2\n", "h.G@", ""},
		{"inlined-read-by-function", "h", "var g@ = 2\n\nfunc F@() int { return g@ }\n", "h.F@()", ""},
		{"inlined-struct-field", "h", "var G@ = S{X: 2}\n", "h.G@.X", ""},
	}
	type prog struct {
		tag, cause, src string
	}
	var progs []prog
	decls := map[string]*strings.Builder{"lib": {}, "l2": {}, "h": {}}
	n := ss.n
	for _, pp := range pps {
		for _, pos := range guPositions() {
			if !thorough && !guCorePositions[pos.name] && pp.name != "lib-int" {
				continue
			}
			if strings.Contains(pos.body, "h.") || devSkip(pos.name+"/"+pp.name) {
				continue // the header of this family imports h for the variables
			}
			n++
			sfx := fmt.Sprintf("_%d", n)
			decls[pp.pkg].WriteString(strings.ReplaceAll(pp.decl, "@", sfx) + "\n")
			if pp.decl2 != "" {
				decls["lib"].WriteString(strings.ReplaceAll(pp.decl2, "@", sfx) + "\n")
			}
			progs = append(progs, prog{pos.name + "/" + pp.name, pos.name, guFn(pos, pp.expr)})
		}
	}
	const types = "type S struct{ X int }\n\nfunc (s *S) Get() int { return s.X }\n\nfunc two(p int, q int) int { return p*10 + q }\n\nconst K0 = 0\n\n"
	hdr := "//c14:file lib/lib.go\npackage lib\n\n" + types + decls["lib"].String() +
		"//c14:file lib2/lib2.go\npackage lib2\n\nimport \"x/lib\"\n\nconst _ = lib.K0\n\n" + types + decls["l2"].String() +
		"//c14:file inl/h/h.go\npackage h\n\n" + types + decls["h"].String() +
		"//c14:main\nimport \"x/lib\"\n\nimport l2 \"x/lib2\"\n\nimport \"" + inlineModule + "/h\"\n\nconst _ = lib.K0 + l2.K0 + h.K0\n\n" + guCommon
	for _, p := range progs {
		ss.addH("globals-use-pkg", p.tag, p.cause, hdr, p.src)
	}
	r4Stats["globals_use_pkg_programs"] = len(progs)
}

// shapesGlobalsUseDeploy: the only use is inside _deploy (a program of its own each).
func shapesGlobalsUseDeploy(ss *shapeSet) {
	n := 0
	add := func(tag, src string) {
		ss.addSolo("globals-use-deploy", tag, "", "", src)
		n++
	}
	add("assigned", "var G = 2\n\nvar r int\n\nfunc _deploy(data any, isUpdate bool) { r = G }\n\nfunc F(a int) int { return r + a }\n")
	add("call-arg", "var G = 2\n\nvar r int\n\nfunc id(v int) int { return v }\n\nfunc _deploy(data any, isUpdate bool) { r = id(G) }\n\nfunc F(a int) int { return r + a }\n")
	add("condition", "var G = 2\n\nvar r int\n\nfunc _deploy(data any, isUpdate bool) {\n\tif !isUpdate && G > 1 {\n\t\tr = 5\n\t}\n}\n\nfunc F(a int) int { return r + a }\n")
	add("helper-only", "var G = 2\n\nvar r int\n\nfunc hp() int { return G }\n\nfunc _deploy(data any, isUpdate bool) { r = hp() }\n\nfunc F(a int) int { return r + a }\n")
	add("map-key", "var G = \"k\"\n\nvar r int\n\nfunc _deploy(data any, isUpdate bool) {\n\tm := map[string]int{G: 7}\n\tr = m[\"k\"]\n}\n\nfunc F(a int) int { return r + a }\n")
	add("struct-index-field", "type T struct{ x int }\n\nvar G = []T{{x: 2}}\n\nvar r int\n\nfunc _deploy(data any, isUpdate bool) { r = G[0].x }\n\nfunc F(a int) int { return r + a }\n")
	add("deferred-call-arg", "var G = 2\n\nvar r int\n\nfunc set(v int) { r = v }\n\nfunc in() { defer set(G) }\n\nfunc _deploy(data any, isUpdate bool) { in() }\n\nfunc F(a int) int { return r + a }\n")
	add("in-imported-package", "//c14:file lib/lib.go\npackage lib\n\nvar G = 2\n\nvar R int\n\nfunc _deploy(data any, isUpdate bool) { R = G }\n\n//c14:main\nimport \"x/lib\"\n\nfunc F(a int) int { return lib.R + a }\n")
	r4Stats["globals_use_deploy_programs"] = n
}

// ---- meta-names --------------------------------------------------------------------------------------------------------------------------

// shapesMetaNames: every program declares functions whose results tell them
// apart; the manifest must list exactly lower-first-letter(name) of every
// exported function of package main, at the offset where THAT function's code
// lies (metaCheck enters the function through the manifest's offset too).
func shapesMetaNames(ss *shapeSet) {
	n := 0
	add := func(tag, src string) {
		ss.add("meta-names", tag, "", src, true)
		n++
	}
	type nm struct{ tag, name string }
	// exported names by the UTF-8 width of the first letter and of its lower-case form
	exported := []nm{
		{"ascii", "Alpha"}, {"ascii-one-letter", "B"}, {"ascii-upper-second", "CD"}, {"ascii-digit", "E1"}, {"ascii-underscore", "F_g"}, {"ascii-underscore-end", "H_"},
		{"latin1-2-bytes", "Ünder"}, {"latin1-one-letter", "É"}, {"latin1-then-upper", "ÖL"}, {"latin1-digit", "Å1"}, {"latin1-underscore", "Ç_x"},
		{"greek-2-bytes", "Ωmega"}, {"greek-one-letter", "Σ"}, {"cyrillic-2-bytes", "Яблоко"}, {"cyrillic-one-letter", "Ж"},
		{"three-bytes", "Ḃeta"}, {"three-bytes-one-letter", "Ẁ"}, {"georgian-3-bytes", "Ⴀb"},
		{"four-bytes", "𐐀x"}, {"four-bytes-one-letter", "𐐁"},
		{"lower-is-wider", "Ⱥx"}, {"lower-is-narrower", "Kelvin"}, {"lower-is-ascii", "İx"},
		{"second-letter-2-bytes", "Aüb"}, {"second-letter-3-bytes", "Aḃc"}, {"second-letter-upper-2-bytes", "AÜ"}, {"second-letter-cjk", "A世"},
	}
	unexported := []nm{
		{"ascii", "alpha"}, {"ascii-one-letter", "b"}, {"underscore-first", "_Exp"}, {"underscore-one-more", "_x"},
		{"latin1", "ünder"}, {"greek", "ωmega"}, {"cyrillic", "яблоко"}, {"three-bytes", "ḃeta"}, {"four-bytes", "𐐨x"},
		{"cjk-no-case", "世界"}, {"cjk-one-letter", "世"}, {"titlecase-letter", "ǅx"}, {"second-letter-2-bytes", "aüb"},
	}
	// one program per exported name: the function alone, next to an ASCII neighbour
	for i, e := range exported {
		add("exported/"+e.tag, fmt.Sprintf("func %s(a int) int { return a + %d }\n\nfunc Zz(a int) int { return a - 1 }\n", e.name, 100+i))
	}
	// the unexported ones must not appear; they are reached through an exported caller
	for i, e := range unexported {
		add("unexported/"+e.tag, fmt.Sprintf("func %s(a int) int { return a + %d }\n\nfunc Call(a int) int { return %s(a) * 2 }\n", e.name, 200+i, e.name))
	}
	// all of them in one contract, exported and unexported interleaved, different parameter counts
	var all strings.Builder
	var calls []string
	for i := 0; i < len(exported) || i < len(unexported); i++ {
		if i < len(exported) {
			ps := []string{"a int", "a int, b int", ""}[i%3]
			ret := []string{"a", "a*10 + b", "0"}[i%3]
			fmt.Fprintf(&all, "func %s(%s) int { return %s + %d }\n\n", exported[i].name, ps, ret, 1000+i*7)
		}
		if i < len(unexported) {
			fmt.Fprintf(&all, "func %s(a int) int { return a + %d }\n\n", unexported[i].name, 5000+i*7)
			calls = append(calls, unexported[i].name+"(a)")
		}
	}
	fmt.Fprintf(&all, "func CallAll(a int) int { return %s }\n", strings.Join(calls, " + "))
	add("all-in-one", all.String())
	// names that differ only in the case of the first letter
	for i, p := range [][2]string{{"Foo", "foo"}, {"Ünder", "ünder"}, {"Ωm", "ωm"}, {"Ḃeta", "ḃeta"}, {"X", "x"}, {"É", "é"}, {"Ⱥx", "ⱥx"}} {
		add("case-twins/"+p[0], fmt.Sprintf("func %s(a int) int { return %s(a) + 1000 }\n\nfunc %s(a int) int { return a + %d }\n", p[0], p[1], p[1], 10+i))
		add("case-twins-unexported-first/"+p[0], fmt.Sprintf("func %s(a int) int { return a + %d }\n\nfunc %s(a int) int { return %s(a) + 1000 }\n", p[1], 10+i, p[0], p[1]))
	}
	// same name, differing in a later letter's case / width
	add("later-letter-case", "func Aü(a int) int { return a + 1 }\n\nfunc AÜ(a int) int { return a + 2 }\n\nfunc Au(a int) int { return a + 3 }\n")
	// methods, parameters, types, variables with such names do not disturb the list
	add("methods-and-parameters", `type Ünit struct{ ñ int }

func (ü *Ünit) Ärger(ö int) int { return ü.ñ + ö }

func (ü Ünit) ärger(ö int) int { return ü.ñ - ö }

var Ωglobal = 3

func Ünder(änder int, Ж int) int {
	ü := &Ünit{ñ: änder}
	return ü.Ärger(Ж)*100 + ü.ärger(Ж) + Ωglobal
}

func Plain(a int, 世 string) int { return a + len(世) }
`)
	add("imported-package-names", "//c14:file lib/lib.go\npackage lib\n\nfunc Ünder(a int) int { return a + 1 }\n\nfunc Ωm(a int) int { return a + 2 }\n\n//c14:main\nimport \"x/lib\"\n\nfunc Ünder(a int) int { return lib.Ünder(a)*10 + lib.Ωm(a) }\n\nfunc Other(a int) int { return lib.Ωm(a) }\n")
	add("parameter-grouping", "func G2(a, b int) int { return a*10 + b }\n\n//c14:args 1,\"ab\",true;2,\"\",false\nfunc G3(ä int, ß string, Ök bool) int {\n\tif Ök {\n\t\treturn ä + len(ß)\n\t}\n\treturn ä - 1\n}\n\n//c14:args 1,2,\"a\",\"ab\";7,0,\"\",\"a\"\nfunc G4(a, b int, s, t string) int { return a*100 + b*10 + len(s) + len(t) }\n\nfunc G0() int { return 3 }\n")
	r4Stats["meta_names_programs"] = n
	r4Stats["meta_names_exported_alphabet"] = len(exported)
	r4Stats["meta_names_unexported_alphabet"] = len(unexported)
}

// ---- meta-empty --------------------------------------------------------------------------------------------------------------------------

func shapesMetaEmpty(ss *shapeSet) {
	n := 0
	params := []string{"", "a int", "a int, b int"}
	type body struct{ tag, res, text string }
	bodies := []body{
		{"empty", "", ""},
		{"bare-return", "", "return"},
		{"return-constant", " int", "return 7"},
		{"return-true", " bool", "return true"},
		{"one-statement", "", "g++"},
	}
	for np, ps := range params {
		for _, b := range bodies {
			for _, place := range []string{"alone", "first", "last"} {
				if place != "alone" && b.tag != "empty" && b.tag != "return-constant" {
					continue
				}
				if place == "alone" && np == 0 && (b.tag == "empty" || b.tag == "bare-return") {
					if b.tag == "empty" {
						continue // (alone, the contract would have no method at all: the manifest cannot be built)
					}
					place = "first"
				}
				fn := fmt.Sprintf("func Empty(%s)%s { %s }\n", ps, b.res, b.text)
				other := "func Other(a int) int { return a + 1 }\n"
				src := "var g int\n\n"
				switch place {
				case "alone":
					src += fn
				case "first":
					src += fn + "\n" + other
				case "last":
					src += other + "\n" + fn
				}
				if b.tag != "one-statement" {
					src = strings.TrimPrefix(src, "var g int\n\n")
				}
				cause := ""
				if b.tag == "empty" && np == 0 || b.tag == "bare-return" && np == 0 {
					cause = "single-ret-function-left-out"
				}
				ss.add("meta-empty", fmt.Sprintf("%s/%d-parameters/%s", b.tag, np, place), cause, src, true)
				n++
			}
		}
	}
	// an empty function that is only called, an empty method, an empty literal
	ss.add("meta-empty", "called-only/unexported-empty", "", "func nop() {}\n\nfunc F(a int) int {\n\tnop()\n\treturn a\n}\n", true)
	ss.add("meta-empty", "called-only/exported-empty", "single-ret-function-left-out", "func Nop() {}\n\nfunc F(a int) int {\n\tNop()\n\treturn a\n}\n", true)
	ss.add("meta-empty", "called-only/empty-method", "", "type t struct{}\n\nfunc (x *t) nop() {}\n\nfunc F(a int) int {\n\tx := &t{}\n\tx.nop()\n\treturn a\n}\n", true)
	ss.add("meta-empty", "called-only/empty-literal", "", "func F(a int) int {\n\tf := func() {}\n\tf()\n\treturn a\n}\n", true)
	r4Stats["meta_empty_programs"] = n + 4
}

// ---- embed ---------------------------------------------------------------------------------------------------------------------------------

// shapesEmbed: an outer struct embeds 2 or 3 chains of structs; chain i is d_i
// levels deep and its innermost struct declares the field X (and a field of its
// own). The depths are pairwise different (Go rejects only an ambiguity at the
// shallowest depth), in every order of the embedded fields. o.X must be the X of
// the shallowest chain: read, assigned, op-assigned, through a value and a
// pointer, in a literal of the outer type.
func shapesEmbed(ss *shapeSet, thorough bool) {
	n := 0
	var perms func(xs []int, k int, out *[][]int)
	perms = func(xs []int, k int, out *[][]int) {
		if k == len(xs) {
			*out = append(*out, append([]int{}, xs...))
			return
		}
		for i := k; i < len(xs); i++ {
			xs[k], xs[i] = xs[i], xs[k]
			perms(xs, k+1, out)
			xs[k], xs[i] = xs[i], xs[k]
		}
	}
	var orders [][]int
	for _, set := range [][]int{{1, 2}, {1, 3}, {2, 3}, {1, 2, 3}} {
		perms(append([]int{}, set...), 0, &orders)
	}
	uses := []struct{ tag, decl, body string }{
		{"read-value", "var o O@", "return o.X*100 + o.Own§ + a"},
		{"read-pointer", "o := &O@{}", "return o.X*100 + o.Own§ + a"},
		{"assign-value", "var o O@", "o.X = a\n\treturn §§"},
		{"assign-pointer", "o := &O@{}", "o.X = a\n\treturn §§"},
		{"op-assign-value", "var o O@", "o.X += a\n\treturn §§"},
		{"op-assign-pointer", "o := &O@{}", "o.X += a\n\treturn §§"},
	}
	for _, ord := range orders {
		// Go: the field of the shallowest chain; depth-first in field order: the first chain's
		shallow := ord[0]
		for _, d := range ord {
			if d < shallow {
				shallow = d
			}
		}
		cause := ""
		if ord[0] != shallow {
			cause = "promoted-field-resolved-depth-first"
		}
		var decl, lit, all strings.Builder
		var tagParts []string
		decl.WriteString("type O@ struct {\n")
		var types strings.Builder
		for _, d := range ord {
			tagParts = append(tagParts, fmt.Sprint(d))
			// chain of depth d: C<d>L1@ embeds C<d>L2@ ... the innermost declares X
			fmt.Fprintf(&decl, "\tC%dL1@\n", d)
			for l := 1; l <= d; l++ {
				if l == d {
					fmt.Fprintf(&types, "type C%dL%d@ struct {\n\tX    int\n\tOwn%d int\n}\n\n", d, l, d)
				} else {
					fmt.Fprintf(&types, "type C%dL%d@ struct {\n\tC%dL%d@\n}\n\n", d, l, d, l+1)
				}
			}
			path := ""
			for l := 1; l <= d; l++ {
				path += fmt.Sprintf(".C%dL%d@", d, l)
			}
			fmt.Fprintf(&lit, "\to%s.X = %d\n\to%s.Own%d = %d\n", path, d*10, path, d, d)
			fmt.Fprintf(&all, " + o%s.X*%d", path, pow10(d+2))
		}
		decl.WriteString("}\n\n")
		for _, u := range uses {
			body := strings.ReplaceAll(u.body, "§§", "o.X"+all.String())
			body = strings.ReplaceAll(body, "§", fmt.Sprint(shallow))
			src := types.String() + decl.String() + "//c14:args 1;2;7\nfunc E@(a int) int {\n\t" + u.decl + "\n" + lit.String() + "\t" + body + "\n}\n"
			ss.add("embed", u.tag+"/depths-"+strings.Join(tagParts, "-"), cause, src, false)
			n++
		}
	}
	// the plain cases: one chain of depth 1..3, a field of the outer struct itself winning over an embedded one
	for d := 1; d <= 3; d++ {
		var types strings.Builder
		path := ""
		for l := 1; l <= d; l++ {
			if l == d {
				fmt.Fprintf(&types, "type S%dL%d@ struct{ X int }\n\n", d, l)
			} else {
				fmt.Fprintf(&types, "type S%dL%d@ struct {\n\tS%dL%d@\n}\n\n", d, l, d, l+1)
			}
			path += fmt.Sprintf(".S%dL%d@", d, l)
		}
		ss.add("embed", fmt.Sprintf("single-chain/depth-%d", d), "", types.String()+fmt.Sprintf("type O@ struct {\n\tS%dL1@\n\tN int\n}\n\n//c14:args 1;2;7\nfunc E@(a int) int {\n\tvar o O@\n\to.X = a\n\to.N = 3\n\treturn o.X*10 + o%s.X*100 + o.N\n}\n", d, path), false)
		ss.add("embed", fmt.Sprintf("own-field-wins/depth-%d", d), "", types.String()+fmt.Sprintf("type O@ struct {\n\tS%dL1@\n\tX int\n}\n\n//c14:args 1;2;7\nfunc E@(a int) int {\n\tvar o O@\n\to.X = a\n\to%s.X = 5\n\treturn o.X*10 + o%s.X*100\n}\n", d, path, path), false)
		n += 2
	}
	// promoted METHODS: called through the outer struct (value / pointer receiver, 0 / 1 arguments, embedding
	// depth 1 / 2, embedded pointer); the explicit path is the control
	pm := `type PI@ struct{ X int }

func (i PI@) add(v int) int { return i.X*10 + v }

func (i PI@) get() int { return i.X }

func (i *PI@) set(v int) { i.X = v }

func (i *PI@) bump() { i.X++ }

type PM@ struct {
	PI@
	M int
}

type PO@ struct {
	PM@
	N int
}

type PP@ struct {
	*PI@
	N int
}

`
	calls := []struct{ tag, body string }{
		{"value-method-1-argument/depth-1", "o := PM@{PI@: PI@{X: 5}}\n\treturn o.add(a)"},
		{"value-method-0-arguments/depth-1", "o := PM@{PI@: PI@{X: 5}}\n\treturn o.get() + a"},
		{"pointer-method-1-argument/depth-1", "o := &PM@{}\n\to.set(a)\n\treturn o.X*10 + o.PI@.X"},
		{"pointer-method-0-arguments/depth-1", "o := &PM@{PI@: PI@{X: a}}\n\to.bump()\n\treturn o.X"},
		{"value-method-1-argument/depth-2", "o := PO@{PM@: PM@{PI@: PI@{X: 5}}}\n\treturn o.add(a)"},
		{"pointer-method-1-argument/depth-2", "o := &PO@{}\n\to.set(a)\n\treturn o.X"},
		{"value-method-1-argument/embedded-pointer", "o := PP@{PI@: &PI@{X: 5}}\n\treturn o.add(a)"},
		{"pointer-method-1-argument/embedded-pointer", "o := &PP@{PI@: &PI@{X: 5}}\n\to.set(a)\n\treturn o.X"},
		{"value-method-through-intermediate/depth-2", "o := PO@{PM@: PM@{PI@: PI@{X: 5}}}\n\treturn o.PM@.add(a)"},
	}
	for _, c := range calls {
		ss.add("embed", "promoted-method/"+c.tag, "promoted-method-call-compiled-as-conversion", pm+"//c14:args 1;2;7\nfunc E@(a int) int {\n\t"+c.body+"\n}\n", false)
		if promotedMethodReject != "" {
			ss.list[len(ss.list)-1].WantReject = promotedMethodReject
		}
		n++
	}
	ss.add("embed", "promoted-method/control-explicit-path", "", pm+"//c14:args 1;2;7\nfunc E@(a int) int {\n\to := &PO@{PM@: PM@{PI@: PI@{X: 5}}}\n\to.PM@.PI@.set(a)\n\to.PM@.PI@.bump()\n\treturn o.PM@.PI@.add(a)*100 + o.PM@.PI@.get()\n}\n", false)
	n++
	r4Stats["embed_programs"] = n
	r4Stats["embed_field_orders"] = len(orders)
}

// promotedMethodReject: the message with which the compiler refuses a call of a promoted method ("" = such
// calls are compiled and compared like everything else).
const promotedMethodReject = ""

func pow10(n int) int {
	r := 1
	for i := 0; i < n; i++ {
		r *= 10
	}
	return r
}
