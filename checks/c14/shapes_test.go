// Shape templates of C14: features the small statement grammar cannot reach
// (defer/recover, init order, struct copies and methods, evaluation order,
// lambdas, variadics, nil values, named results, goto, fallthrough orders...).
// Every family is a systematic product over a few small hole sets; nothing is
// sampled. "@" in a template is replaced by a per-shape suffix so that many
// shapes share one file.
package c14

import (
	"fmt"
	"strings"
)

type shape struct {
	Family string `json:"family"`
	Tag    string `json:"tag"`   // which combination of holes
	Cause  string `json:"cause"` // root-cause class used in violation keys (defaults to Tag)
	Src    string `json:"src"`   // declarations, "@" already substituted
	Tmpl   string `json:"-"`     // the same with "@" (stable across tiers; hashed into keys)
	N      int    `json:"-"`
	Solo   bool   `json:"solo"`  // needs a file of its own (package initialisation is part of the shape)
	Hdr    string `json:"hdr,omitempty"` // text in front of the file's declarations: further files ("//c14:file" sections) and imports; identical for all shapes of a family
	// WantReject: the program is outside the subset neo-go's compiler supports and the compiler says so with this
	// message; a rejection with another message is reported, an accepted program is compared like any other.
	WantReject string `json:"want_reject,omitempty"`
}

type shapeSet struct {
	list []shape
	n    int
}

func (ss *shapeSet) add(family, tag, cause, tmpl string, solo bool) {
	ss.n++
	if cause == "" {
		cause = tag
	}
	src := strings.ReplaceAll(tmpl, "@", fmt.Sprintf("_%d", ss.n))
	ss.list = append(ss.list, shape{Family: family, Tag: tag, Cause: cause, Src: strings.TrimLeft(src, "\n"), Solo: solo, Tmpl: tmpl, N: ss.n})
}

func (s *shape) suffix() string { return fmt.Sprintf("_%d", s.N) }

func allShapes(thorough bool) []shape {
	ss := &shapeSet{}
	allShapes5(ss, thorough) // shapes5_test.go (first: its programs with a file of their own lead the work list)
	shapesDefer(ss, thorough)
	shapesDeferMisc(ss)
	shapesInit(ss, thorough)
	shapesStruct(ss)
	shapesSwitchOrder(ss, thorough)
	shapesLabels(ss, thorough)
	shapesEvalOrder(ss)
	shapesCalls(ss)
	shapesCollections(ss)
	shapesStrings(ss)
	shapesMisc(ss)
	shapesScope(ss, thorough)
	shapesDegenerate(ss, thorough)
	shapesControl(ss, thorough)
	allShapes2(ss, thorough) // shapes2_test.go
	allShapes3(ss, thorough) // shapes3_test.go
	allShapes4(ss, thorough) // shapes4_test.go
	return ss.list
}

// ---- defer / recover ---------------------------------------------------------------------------

func shapesDefer(ss *shapeSet, thorough bool) {
	type hole struct{ name, text string }
	forms := []hole{
		{"recover-named", "defer rec@()"},
		{"recover-lambda", "defer func() {\n\t\tif r := recover(); r != nil {\n\t\t\tg@ += 10\n\t\t}\n\t}()"},
		{"norecover-named", "defer log@()"},
		{"none", ""},
	}
	// P is the panicking statement, executed only if a is 1 (so that other arguments show the normal path)
	sources := []hole{
		{"explicit", `panic("p")`},
		{"index", "t := s[a+5]\n\t\tx += t"},
		{"div", "t := 10 / (a - 1)\n\t\tx += t"},
		{"nilmap", "var m map[int]int\n\t\tm[a] = 1"},
		{"nilptr", "var p *pt@\n\t\tt := p.A\n\t\tx += t"},
		{"callee", "t := boom@(a)\n\t\tx += t"},
		{"callee-in-expr", "x += 3 * (a + boom@(a))"},
	}
	contexts := []hole{
		{"straight", "if a == 1 {\n\t\t%s\n\t}"},
		{"in-for", "for i := 0; i < 2; i++ {\n\t\tif a == 1 && i == 1 {\n\t\t%s\n\t\t}\n\t\tx += 10\n\t}"},
		{"in-range", "for _, v := range s {\n\t\tif a == 1 && v == 2 {\n\t\t%s\n\t\t}\n\t\tx += v\n\t}"},
		{"in-switch", "switch a {\n\tcase 1:\n\t\t%s\n\tcase 2:\n\t\tx += 20\n\t}"},
		{"in-range-switch", "for _, v := range s {\n\t\tswitch v * a {\n\t\tcase 2:\n\t\t%s\n\t\tdefault:\n\t\t\tx += v\n\t\t}\n\t}"},
	}
	const tmpl = `
var g@ int

type pt@ struct{ A int }

func rec@() {
	if r := recover(); r != nil {
		g@ += 10
	}
}

func log@() { g@ += 100 }

func boom@(a int) int {
	if a == 1 {
		panic("callee")
	}
	return a
}

func body@(a int) int {
	x := 1
	s := []int{1, 2, 3}
	_ = s
	%DEFER%
	%BODY%
	x += 2
	return x
}

//c14:stateful
func D@(a int) int {
	r := body@(a)
	r = r*1000 + g@
	return r
}
`
	for _, f := range forms {
		for _, s := range sources {
			for _, c := range contexts {
				if !thorough && (c.name == "in-for") && s.name != "explicit" {
					continue
				}
				body := fmt.Sprintf(c.text, s.text)
				src := strings.ReplaceAll(strings.ReplaceAll(tmpl, "%DEFER%", f.text), "%BODY%", body)
				cause := ""
				switch {
				case f.name == "norecover-named":
					cause = "defer-without-recover-swallows-panic"
				case f.name == "none":
					cause = "" // no defer at all: both sides must fail alike
				case s.name == "div" || s.name == "nilmap" || s.name == "nilptr":
					cause = "recover-does-not-catch-vm-fault"
				case c.name != "straight" || s.name == "callee-in-expr":
					cause = "recover-leaves-evaluation-stack-items"
				}
				ss.add("defer", f.name+"/"+s.name+"/"+c.name, cause, src, false)
			}
		}
	}
	// the caller recovers what the callee raised inside a construct that keeps
	// items on the evaluation stack (the candidate defect of the design notes)
	calleeCtx := []hole{
		{"callee-switch", "switch a {\n\tcase 1:\n\t\tpanic(\"p\")\n\t}"},
		{"callee-range", "for _, v := range []int{1, 2} {\n\t\tif v == a {\n\t\t\tpanic(\"p\")\n\t\t}\n\t}"},
		{"callee-if", "if a == 1 {\n\t\tpanic(\"p\")\n\t}"},
		{"callee-for", "for i := 0; i < 2; i++ {\n\t\tif i == a {\n\t\t\tpanic(\"p\")\n\t\t}\n\t}"},
	}
	callerUse := []hole{
		{"assign", "x := inner@(a)"},
		{"in-expr", "x := 5 + inner@(a)"},
		{"in-args", "x := add@(7, inner@(a))"},
	}
	const tmpl2 = `
func rec@() { recover() }

func add@(p int, q int) int { return p*10 + q }

func inner@(a int) int {
	%CTX%
	return a
}

func C@(a int) int {
	defer rec@()
	%USE%
	x += 1
	return x
}
`
	for _, c := range calleeCtx {
		for _, u := range callerUse {
			src := strings.ReplaceAll(strings.ReplaceAll(tmpl2, "%CTX%", c.text), "%USE%", u.text)
			cause := ""
			if c.name == "callee-switch" || c.name == "callee-range" || u.name != "assign" {
				cause = "recover-leaves-evaluation-stack-items"
			}
			ss.add("defer", "caller-recovers/"+c.name+"/"+u.name, cause, src, false)
		}
	}
}

func shapesDeferMisc(ss *shapeSet) {
	ss.add("defer", "lifo-order", "", `
var g@ int

func lg@(k int) { g@ = g@*10 + k }

func body@(a int) int {
	defer lg@(1)
	defer lg@(2)
	if a > 0 {
		defer lg@(3)
	}
	lg@(4)
	return a
}

//c14:stateful
func D@(a int) int {
	r := body@(a)
	r = r + g@*10
	return r
}
`, false)
	ss.add("defer", "value-unchanged-by-defer", "", `
var g@ int

func body@(a int) int {
	x := a
	defer func() { g@ = 5 }()
	x += g@
	return x
}

//c14:stateful
func D@(a int) int {
	r := body@(a)
	r = r*10 + g@
	return r
}
`, false)
	ss.add("defer", "argument-evaluated-at-defer", "defer-arguments-evaluated-late", `
var g@ int

func lg@(k int) { g@ = g@*10 + k }

func body@(a int) int {
	x := a
	defer lg@(x)
	x = 9
	return x
}

//c14:stateful
func D@(a int) int {
	r := body@(a)
	r = r*100 + g@
	return r
}
`, false)
	ss.add("defer", "defer-in-loop", "defer-in-loop", `
var g@ int

func lg@(k int) { g@ = g@*10 + k }

func body@(a int) int {
	for i := 1; i < 3; i++ {
		defer lg@(i)
	}
	lg@(7)
	return a
}

//c14:stateful
func D@(a int) int {
	r := body@(a)
	r = r + g@*10
	return r
}
`, false)
	ss.add("defer", "named-result-after-recover", "named-result-lost-after-recover", `
func rec@() { recover() }

func body@(a int) (r int) {
	defer rec@()
	r = 5
	if a > 0 {
		panic("p")
	}
	r = 6
	return r
}

func D@(a int) int {
	x := body@(a)
	return x
}
`, false)
	ss.add("defer", "recover-value", "", `
var g@ int

func body@(a int) int {
	defer func() {
		r := recover()
		if r == nil {
			g@ = 1
		} else {
			g@ = 2
		}
	}()
	if a > 1 {
		panic("p")
	}
	return a
}

//c14:stateful
func D@(a int) int {
	r := body@(a)
	r = r*10 + g@
	return r
}
`, false)
	ss.add("defer", "two-recovering-defers", "panic-caught-by-a-later-defer-returns-no-value", `
func rec@() { recover() }

func body@(a int) int {
	defer rec@()
	defer rec@()
	if a > 0 {
		panic("p")
	}
	return a - 5
}

func D@(a int) int {
	r := body@(a)
	r = r*10 + 1
	return r
}
`, false)
	ss.add("defer", "panic-in-deferred-after-recover", "panic-caught-by-a-later-defer-returns-no-value", `
var g@ int

func body@(a int) int {
	defer func() {
		g@ += 2
		recover()
	}()
	defer func() {
		g@ *= 3
		recover()
		if g@ > 3 {
			panic("again")
		}
	}()
	g@ = a
	panic("first")
}

//c14:stateful
func D@(a int) int {
	r := body@(a)
	r = r*100 + g@
	return r
}
`, false)
	ss.add("defer", "repanic-unrecovered", "", `
var g@ int

func body@(a int) int {
	g@ = a
	defer func() {
		recover()
		if g@ > 0 {
			panic("again")
		}
	}()
	panic("first")
}

//c14:stateful
func D@(a int) int {
	r := body@(a)
	return r
}
`, false)
	ss.add("defer", "defer-runs-on-every-return-path", "", `
var g@ int

func lg@(k int) { g@ = g@*10 + k }

func body@(a int) int {
	defer lg@(1)
	if a < 0 {
		return 1
	}
	for i := 0; i < 3; i++ {
		if i == a {
			return 2
		}
	}
	switch a {
	case 7:
		return 3
	}
	return 4
}

//c14:stateful
func D@(a int) int {
	r := body@(a)
	r = r*10 + g@
	return r
}
`, false)
	ss.add("defer", "continue-in-switch-in-range-with-defer", "", `
var g@ int

func lg@(k int) { g@ += k }

func body@(a int) int {
	defer lg@(100)
	x := 0
	for _, v := range []int{1, 2, 3} {
		switch v {
		case 1:
			continue
		case 2:
			if a > 0 {
				break
			}
			x += 10
		}
		x += v
	}
	return x
}

//c14:stateful
func D@(a int) int {
	r := body@(a)
	r = r*1000 + g@
	return r
}
`, false)
}

// ---- package initialisation -------------------------------------------------------------------------

func shapesInit(ss *shapeSet, thorough bool) {
	// three variables with a dependency chain, in every declaration order
	decls := map[string]string{
		"a": "var ga = gb + 1",
		"b": "var gb = fc() * 2",
		"c": "var gc = 5",
	}
	perms := [][]string{{"c", "b", "a"}, {"a", "b", "c"}, {"b", "a", "c"}, {"c", "a", "b"}, {"a", "c", "b"}, {"b", "c", "a"}}
	for _, p := range perms {
		var ds []string
		for _, k := range p {
			ds = append(ds, decls[k])
		}
		cause := "init-order-ignores-dependencies"
		if strings.Join(p, "") == "cba" {
			cause = ""
		}
		ss.add("init", "order-"+strings.Join(p, ""), cause, strings.Join(ds, "\n")+`

func fc() int { return gc + 1 }

func F(x int) int { return ga*1000 + gb*10 + gc + x }
`, true)
	}
	ss.add("init", "init-funcs-in-order", "", `
var g1 = 1
var g2 int

func init() {
	g2 = g1 + 10
	g1 = 7
}

func init() { g2 *= 2 }

func F(x int) int { return g1*100 + g2 + x }
`, true)
	ss.add("init", "multi-value-and-composites", "", `
type Pair struct{ A, B int }

var a, b = two()

func two() (int, int) { return 4, 5 }

var s = []int{a, b}
var m = map[string]int{"k": a}
var p = Pair{a, b}
var pp = &Pair{b, a}

func F(x int) int { return s[0] + s[1]*10 + m["k"]*100 + p.B*1000 + pp.A*10000 + x }
`, true)
	ss.add("init", "side-effects-in-declaration-order", "", `
var lg int

func mark(k int) int {
	lg = lg*10 + k
	return k
}

var v1 = mark(1)
var v2 = mark(2)
var v3 = mark(3)

func F(x int) int { return lg*10 + v1 + v2 + v3 + x }
`, true)
	ss.add("init", "function-reads-later-global", "init-order-ignores-dependencies", `
var c = f()
var a = 3

func f() int { return a * 2 }

func F(x int) int { return c + x }
`, true)
	ss.add("init", "global-zero-values", "", `
var i int
var s string
var b bool
var sl []int
var mp map[int]int

func F(x int) int {
	r := i + len(s) + len(sl) + len(mp) + x
	if b || sl != nil || mp != nil {
		r += 100
	}
	return r
}
`, true)
	if thorough {
		ss.add("init", "global-state-fresh-per-invocation", "", `
var cnt int

func bump() int {
	cnt++
	return cnt
}

//c14:stateful
func F(x int) int {
	bump()
	r := bump()*10 + x
	return r
}
`, true)
	}
}

// ---- structs: copies, receivers ------------------------------------------------------------------------

func shapesStruct(ss *shapeSet) {
	const pre = `
type pr@ struct{ A, B int }

func (p pr@) sum() int { return p.A*10 + p.B }

func (p *pr@) inc(n int) { p.A += n }

func (p pr@) incV(n int) int {
	p.A += n
	return p.A
}

func byVal@(p pr@, n int) int {
	p.A = n
	return p.A
}

func byPtr@(p *pr@, n int) { p.A = n }

func mk@(a int) pr@ { return pr@{a, a + 1} }

`
	cases := []struct{ tag, cause, body string }{
		{"method-on-value", "", "p := pr@{a, b}\n\treturn p.sum()"},
		{"ptr-method-on-ptr", "", "p := &pr@{A: a}\n\tp.inc(b)\n\treturn p.A"},
		{"ptr-method-on-addressable-value", "", "p := pr@{A: a}\n\tp.inc(b)\n\treturn p.A"},
		{"value-receiver-gets-a-copy", "struct-value-not-copied", "p := pr@{A: a}\n\tr := p.incV(b)\n\treturn p.A*100 + r"},
		{"assignment-copies", "struct-value-not-copied", "p := pr@{A: a}\n\tq := p\n\tq.A = b\n\treturn p.A*10 + q.A"},
		{"pointer-assignment-aliases", "", "p := &pr@{A: a}\n\tq := p\n\tq.A = b\n\treturn p.A*10 + q.A"},
		{"argument-copies", "", "p := pr@{A: a}\n\tr := byVal@(p, b)\n\treturn p.A*10 + r"},
		{"pointer-argument-aliases", "", "p := &pr@{A: a}\n\tbyPtr@(p, b)\n\treturn p.A"},
		{"slice-literal-copies", "struct-value-not-copied", "p := pr@{1, 2}\n\ts := []pr@{p}\n\ts[0].A = a\n\treturn p.A*10 + s[0].A"},
		{"slice-element-read-copies", "struct-value-not-copied", "s := []pr@{{1, 2}}\n\tp := s[0]\n\tp.A = a\n\treturn s[0].A*10 + p.A"},
		{"range-value-copies", "struct-value-not-copied", "s := []pr@{{1, 2}, {3, 4}}\n\tx := 0\n\tfor _, p := range s {\n\t\tp.A = a\n\t\tx += p.A\n\t}\n\treturn x*100 + s[0].A*10 + s[1].A"},
		{"map-element-read-copies", "struct-value-not-copied", "m := map[int]pr@{1: {1, 2}}\n\tp := m[1]\n\tp.A = a\n\treturn m[1].A*10 + p.A"},
		{"append-copies", "struct-value-not-copied", "p := pr@{1, 2}\n\tvar s []pr@\n\ts = append(s, p)\n\tp.A = a\n\treturn s[0].A*10 + p.A"},
		{"return-value-fresh", "", "p := mk@(a)\n\tq := mk@(a)\n\tq.A = b\n\treturn p.sum()*100 + q.sum()"},
		{"method-on-call-result", "", "return mk@(a).sum() + b"},
		{"method-on-slice-element", "", "s := []pr@{{1, 2}}\n\ts[0].inc(a)\n\treturn s[0].sum()"},
		{"method-on-ptr-slice-element", "", "s := []*pr@{{1, 2}}\n\ts[0].inc(a)\n\treturn s[0].sum()"},
		{"field-opassign", "", "p := pr@{a, b}\n\tp.A += 2\n\tp.B *= 3\n\tp.A++\n\treturn p.sum()"},
		{"zero-value", "", "var p pr@\n\treturn p.A + p.B + a"},
		{"nil-pointer-field-read", "", "var p *pr@\n\tif a > 5 {\n\t\tp = &pr@{1, 1}\n\t}\n\treturn p.A"},
		{"nil-pointer-method", "", "var p *pr@\n\tif a > 5 {\n\t\tp = &pr@{1, 1}\n\t}\n\tp.inc(1)\n\treturn p.A"},
		{"pointer-compare-nil", "", "var p *pr@\n\tif a > 0 {\n\t\tp = &pr@{}\n\t}\n\tif p == nil {\n\t\treturn 1\n\t}\n\treturn 2"},
		{"struct-in-struct-copy", "struct-value-not-copied", "type outer struct {\n\t\tI pr@\n\t\tN int\n\t}\n\to := outer{I: pr@{1, 2}, N: a}\n\tc := o\n\tc.I.A = b\n\treturn o.I.A*10 + c.I.A"},
	}
	for _, c := range cases {
		ss.add("struct", c.tag, c.cause, pre+"func T@(a int, b int) int {\n\t"+c.body+"\n}\n", false)
	}
}

// ---- switch: clause orders and fallthrough ---------------------------------------------------------------

func shapesSwitchOrder(ss *shapeSet, thorough bool) {
	// clauses 0,1,2 and default in every order; fallthrough mask over the first three positions
	clauses := []string{"case 0:", "case 1:", "case 2:", "default:"}
	var perms [][]int
	var rec func(cur []int, used int)
	rec = func(cur []int, used int) {
		if len(cur) == 4 {
			perms = append(perms, append([]int{}, cur...))
			return
		}
		for i := 0; i < 4; i++ {
			if used&(1<<i) == 0 {
				rec(append(cur, i), used|1<<i)
			}
		}
	}
	rec(nil, 0)
	for _, p := range perms {
		for mask := 0; mask < 8; mask++ {
			if !thorough && mask != 0 && mask != 1 && mask != 2 && mask != 4 && mask != 7 {
				continue
			}
			var b strings.Builder
			b.WriteString("func W@(a int) int {\n\tx := 0\n\tswitch a {\n")
			defPos := 0
			for pos, ci := range p {
				if ci == 3 {
					defPos = pos
				}
				fmt.Fprintf(&b, "\t%s\n\t\tx = x*10 + %d\n", clauses[ci], ci+1)
				if pos < 3 && mask&(1<<pos) != 0 {
					b.WriteString("\t\tfallthrough\n")
				}
			}
			b.WriteString("\t}\n\treturn x\n}\n")
			cause := ""
			// a fallthrough into or out of a default clause that is not the last one
			if defPos != 3 && (mask&(1<<defPos) != 0 || (defPos > 0 && mask&(1<<(defPos-1)) != 0)) {
				cause = "fallthrough-around-non-last-default"
			}
			// a fallthrough from the clause before the last one also changes its target when default moves
			if defPos != 3 && mask&(1<<2) != 0 {
				cause = "fallthrough-around-non-last-default"
			}
			tag := fmt.Sprintf("order-%d%d%d%d-fall-%d", p[0], p[1], p[2], p[3], mask)
			ss.add("switch", tag, cause, b.String(), false)
		}
	}
	ss.add("switch", "case-expressions-evaluated-in-order", "", `
var g@ int

func id@(k int) int {
	g@ = g@*10 + k
	return k
}

//c14:stateful
func W@(a int) int {
	switch id@(a) {
	case id@(1):
		g@ += 100
	case id@(2), id@(0):
		g@ += 200
	case id@(7):
		g@ += 300
	}
	r := g@
	return r
}
`, false)
	ss.add("switch", "tagless-conditions-evaluated-in-order", "", `
var g@ int

func tr@(k int, v bool) bool {
	g@ = g@*10 + k
	return v
}

//c14:stateful
func W@(a int) int {
	switch {
	case tr@(1, a < 0):
		g@ += 100
	case tr@(2, a == 1), tr@(3, a == 2):
		g@ += 200
	default:
		g@ += 300
	}
	r := g@
	return r
}
`, false)
	ss.add("switch", "init-and-shadow", "", `
func W@(a int) int {
	x := 1
	switch x := a * 2; x {
	case 2:
		return x + 10
	case 4:
		x := 7
		return x
	}
	return x
}
`, false)
	ss.add("switch", "empty-and-bool-and-string", "", `
func W@(a int) int {
	switch a {
	}
	r := 0
	switch a > 0 {
	case true:
		r += 1
	case false:
		r += 2
	}
	s := "b"
	if a == 1 {
		s = "ab"
	}
	switch s {
	case "a", "ab":
		r += 10
	case "b":
		r += 20
	}
	return r
}
`, false)
	ss.add("switch", "return-inside-nested-switches-in-loop", "", `
func W@(a int) int {
	for i := 0; i < 3; i++ {
		switch i {
		case 1:
			switch a {
			case 1:
				return 10 + i
			case 2:
				continue
			}
			return 20
		}
	}
	return 30
}
`, false)
}

// ---- labels --------------------------------------------------------------------------------------------

func shapesLabels(ss *shapeSet, thorough bool) {
	kinds := []struct{ name, open string }{
		{"for3", "for %s := 0; %s < 3; %s++ {"},
		{"range", "for %s := range []int{5, 6, 7} {"},
	}
	actions := []string{"break outer", "continue outer", "break inner", "continue inner", "break", "continue"}
	wraps := []struct{ name, open, close string }{
		{"plain", "", ""},
		{"in-switch", "switch j {\n\t\t\tcase 1:\n", "\t\t\t}\n"},
		{"in-if-in-switch", "switch {\n\t\t\tcase j >= 1:\n\t\t\t\tif i != 7 {\n", "\t\t\t\t}\n\t\t\t}\n"},
	}
	for _, ko := range kinds {
		for _, ki := range kinds {
			for _, act := range actions {
				for _, w := range wraps {
					if !thorough && w.name == "in-if-in-switch" && ko.name != ki.name {
						continue
					}
					openO := strings.ReplaceAll(ko.open, "%s", "i")
					openI := strings.ReplaceAll(ki.open, "%s", "j")
					lo, li := "", ""
					if strings.Contains(act, "outer") {
						lo = "outer:\n\t"
					}
					if strings.Contains(act, "inner") {
						li = "inner:\n\t\t"
					}
					cond := "i == a && j == 1"
					var body string
					if w.name == "plain" {
						body = "\t\t\tif " + cond + " {\n\t\t\t\t" + act + "\n\t\t\t}\n"
					} else {
						body = "\t\t\t" + w.open + "\t\t\t\tif i == a {\n\t\t\t\t\t" + act + "\n\t\t\t\t}\n\t\t\t\tx += 100\n" + w.close
					}
					src := "func L@(a int) int {\n\tx := 0\n\t" + lo + openO + "\n\t\tx += 1000\n\t\t" + li + openI + "\n" + body + "\t\t\tx += 10*i + j\n\t\t}\n\t\tx += 5\n\t}\n\treturn x\n}\n"
					ss.add("labels", ko.name+"/"+ki.name+"/"+strings.ReplaceAll(act, " ", "-")+"/"+w.name, "", src, false)
				}
			}
		}
	}
	ss.add("labels", "three-levels", "", `
func L@(a int) int {
	x := 0
l1:
	for i := 0; i < 2; i++ {
	l2:
		for _, v := range []int{1, 2} {
			for k := 0; k < 2; k++ {
				switch {
				case k == a:
					continue l2
				case v+i == a:
					continue l1
				case v*k > 1+a:
					break l1
				}
				x = x*2 + v + k
			}
			x += 100
		}
		x += 1000
	}
	return x
}
`, false)
	ss.add("labels", "labelled-switch-break", "", `
func L@(a int) int {
	x := 0
sw:
	switch {
	case a > 0:
		for i := 0; i < 3; i++ {
			if i == a {
				break sw
			}
			x += 10
		}
		x += 1
	default:
		x = 7
	}
	return x
}
`, false)
	ss.add("labels", "goto-backward", "goto-ignored", `
func L@(a int) int {
	x := 0
again:
	x++
	if x < a {
		goto again
	}
	return x
}
`, false)
	ss.add("labels", "goto-forward", "goto-ignored", `
func L@(a int) int {
	x := 0
	if a > 0 {
		goto done
	}
	x += 10
done:
	x += 1
	return x
}
`, false)
}

// ---- evaluation order ---------------------------------------------------------------------------------------

func shapesEvalOrder(ss *shapeSet) {
	const pre = `
var g@ int

func id@(k int) int {
	g@ = g@*10 + k
	return k
}

func tr@(k int, v bool) bool {
	g@ = g@*10 + k
	return v
}

func three@(p int, q int, r int) int { return p*100 + q*10 + r }

func pair@() (int, int) { return id@(4), id@(5) }

func mk@(n int) []int { return make([]int, n) }

`
	cases := []struct{ tag, cause, body string }{
		{"and-short-circuit", "", "if tr@(1, a > 0) && tr@(2, a > 1) {\n\t\tg@ += 500\n\t}"},
		{"or-short-circuit", "", "if tr@(1, a > 0) || tr@(2, a < -1) {\n\t\tg@ += 500\n\t}"},
		{"mixed-short-circuit", "", "k := tr@(1, a > 0) || tr@(2, a == 0) && tr@(3, a < -1)\n\tif k {\n\t\tg@ = -g@\n\t}"},
		{"not-and-or-value", "", "k := !tr@(1, a > 0) && (tr@(2, a < -1) || !tr@(3, a == 0))\n\tif k {\n\t\tg@ = -g@\n\t}"},
		{"call-arguments", "", "x := three@(id@(1), id@(2), id@(3))\n\tg@ = g@*1000 + x + a"},
		{"multi-assign-calls", "", "x, y := id@(1), id@(2)\n\tg@ = g@*100 + x*10 + y + a"},
		{"binary-operands-calls", "", "x := id@(1) - id@(2)*id@(3)\n\tg@ = g@*100 + x + a"},
		{"slice-literal-elements", "composite-literal-elements-evaluated-in-reverse", "s := []int{id@(1), id@(2), id@(3)}\n\tg@ = g@*10 + len(s) + a"},
		{"struct-literal-fields", "composite-literal-elements-evaluated-in-reverse", "type t struct{ A, B int }\n\tv := t{id@(1), id@(2)}\n\tg@ = g@*100 + v.A*10 + v.B + a"},
		{"map-literal-values", "composite-literal-elements-evaluated-in-reverse", "m := map[int]int{1: id@(1), 2: id@(2)}\n\tg@ = g@*10 + len(m) + a"},
		{"append-arguments", "", "var s []int\n\ts = append(s, id@(1), id@(2))\n\tg@ = g@*100 + s[0]*10 + s[1] + a"},
		{"return-values-of-callee", "return-operands-evaluated-in-reverse", "x, y := pair@()\n\tg@ = g@*100 + x*10 + y + a"},
		{"index-then-value", "assignment-evaluates-value-before-index", "s := []int{0, 0, 0}\n\ts[id@(1)] = id@(2)\n\tg@ = g@*10 + s[1] + a"},
		{"swap-with-arithmetic", "", "x, y := 1, a\n\tx, y = y, x+y\n\tg@ = x*10 + y"},
		{"tuple-assign-index-uses-old-value", "", "i := 0\n\ts := []int{0, 0, 0}\n\ti, s[i] = 1, a\n\tg@ = s[0]*100 + s[1]*10 + i"},
		{"opassign-evaluates-lhs-once", "opassign-evaluates-index-twice", "s := []int{1, 2, 3}\n\ts[id@(1)] += id@(2)\n\tg@ = g@*10 + s[1] + a"},
		{"for-post-and-cond-order", "", "for i := id@(0); tr@(1, i < 2); i += id@(1) {\n\t\tg@ += 0\n\t}"},
		{"range-expression-evaluated-once", "", "for range mk@(id@(2)) {\n\t\tg@ += 1000\n\t}"},
	}
	for _, c := range cases {
		ss.add("evalorder", c.tag, c.cause, pre+"//c14:stateful\nfunc E@(a int) int {\n\t"+c.body+"\n\tr := g@\n\treturn r\n}\n", false)
	}
}

// ---- calls: recursion, multiple results, variadic, lambdas, named results ---------------------------------------

func shapesCalls(ss *shapeSet) {
	add := func(tag, cause, src string) { ss.add("calls", tag, cause, src, false) }
	add("recursion-factorial", "", `
func fact@(n int) int {
	if n <= 1 {
		return 1
	}
	return n * fact@(n-1)
}

func R@(a int) int { return fact@(a) }
`)
	add("mutual-recursion", "", `
func ev@(n int) bool {
	if n <= 0 {
		return true
	}
	return od@(n - 1)
}

func od@(n int) bool {
	if n <= 0 {
		return false
	}
	return ev@(n - 1)
}

func R@(a int) bool { return ev@(a) }
`)
	add("recursion-two-results", "", `
func fib@(n int) (int, int) {
	if n <= 0 {
		return 0, 1
	}
	x, y := fib@(n - 1)
	return y, x + y
}

func R@(a int) int {
	x, y := fib@(a)
	return x*1000 + y
}
`)
	add("recursion-slice-accumulator", "", `
func fill@(s []int, n int) []int {
	if n <= 0 {
		return s
	}
	s = append(s, n)
	return fill@(s, n-1)
}

func R@(a int) []int {
	var s []int
	s = fill@(s, a)
	return s
}
`)
	add("three-results-mixed", "", `
func three@(a int) (int, bool, string) { return a + 1, a > 0, "qq" }

func R@(a int) int {
	x, ok, s := three@(a)
	if ok {
		return x + len(s)
	}
	_, _, t := three@(x)
	return -len(t)
}
`)
	add("results-as-arguments", "", `
func two@() (int, int) { return 1, 2 }

func add@(a int, b int) int { return a*10 + b }

func R@(a int) int { return add@(two@()) + a }
`)
	add("variadic-forms", "", `
func sum@(base int, xs ...int) int {
	t := base * 100
	for i, v := range xs {
		t += (i + 1) * v
	}
	return t + len(xs)*1000
}

func R@(a int, b int) int {
	s := []int{a, b}
	return sum@(1) + sum@(2, a) + sum@(3, a, b, 4) + sum@(4, s...)
}
`)
	add("variadic-nil-when-empty", "empty-variadic-is-not-nil", `
func isnil@(xs ...int) bool { return xs == nil }

func R@(a int) int {
	r := 0
	if isnil@() {
		r += 1
	}
	if isnil@(a) {
		r += 10
	}
	return r
}
`)
	add("variadic-slice-aliases", "", `
func set@(xs ...int) {
	if len(xs) > 0 {
		xs[0] = 9
	}
}

func R@(a int) int {
	s := []int{a, 1}
	set@(s...)
	return s[0]
}
`)
	add("variadic-strings", "", `
func join@(sep string, xs ...string) string {
	r := ""
	for i, x := range xs {
		if i > 0 {
			r += sep
		}
		r += x
	}
	return r
}

func R@(s string) string { return join@("-", s, "x", s) + join@("+") }
`)
	add("lambda-forms", "", `
func ap@(f func(int) int, x int) int { return f(x) }

func mk@() func(int) int { return func(x int) int { return x * 3 } }

func R@(a int) int {
	f := func(x int) int { return x*2 + 1 }
	h := mk@()
	return f(a) + func(x int) int { return x - 1 }(a)*10 + ap@(func(x int) int { return x * x }, a)*100 + mk@()(a)*1000 + h(a)*7
}
`)
	add("lambda-argument-order", "lambda-arguments-in-reverse-order", `
func R@(a int) int {
	g := func(x int, y int, z int) int { return x*100 + y*10 + z }
	return g(1, 2, 3) + func(p int, q int) int { return p*10 + q }(4, 5)*1000 + a
}
`)
	add("lambda-two-results", "lambda-arguments-in-reverse-order", `
func R@(a int) int {
	g := func(x int, y int) (int, int) { return y, x }
	p, q := g(a, 5)
	return p*7 + q
}
`)
	add("lambda-void-and-bool", "", `
var g@ int

//c14:stateful
func R@(a int) int {
	set := func(x int) { g@ = x }
	pos := func(x int) bool { return x > 0 }
	set(a * 2)
	if pos(a) {
		g@++
	}
	r := g@
	return r
}
`)
	add("lambda-in-variable-reassigned", "", `
func R@(a int) int {
	f := func(x int) int { return x + 1 }
	if a > 0 {
		f = func(x int) int { return x - 1 }
	}
	return f(a)
}
`)
	add("named-results", "", `
func nr@(a int) (r int, ok bool) {
	r = a
	if a > 0 {
		r = 9
		ok = true
		return
	}
	return r + 1, false
}

func R@(a int) int {
	x, ok := nr@(a)
	if ok {
		return x * 10
	}
	return x
}
`)
	add("named-result-shadow-and-loop", "", `
func nr@(a int) (r int) {
	for i := 0; i < 3; i++ {
		r += i
		if i == a {
			return
		}
	}
	{
		r := 100
		_ = r
	}
	return
}

func R@(a int) int { return nr@(a) }
`)
	add("arguments-are-copies", "", `
func ch@(a int, s string, k bool) int {
	a++
	s += "x"
	k = !k
	if k {
		return a + len(s)
	}
	return -a
}

func R@(a int) int {
	s := "q"
	k := a > 0
	r := ch@(a, s, k)
	if k {
		r += 1000
	}
	return r*10 + a + len(s)
}
`)
	add("many-parameters-order", "", `
func six@(a int, b int, c int, d int, e int, f int) int {
	return ((((a*3+b)*3+c)*3+d)*3+e)*3 + f
}

func R@(a int, b int) int { return six@(a, b, 1, a, 2, b) }
`)
	add("void-call-and-unused-results", "", `
func two@(a int) (int, int) { return a, a + 1 }

func R@(a int) int {
	two@(a)
	_, y := two@(a)
	x, _ := two@(y)
	return x*10 + y
}
`)
}

// ---- slices, maps, nil -----------------------------------------------------------------------------------------------

func shapesCollections(ss *shapeSet) {
	add := func(tag, cause, src string) { ss.add("collections", tag, cause, src, false) }
	body := func(sig, b string) string { return "func Q@(" + sig + ") int {\n\t" + b + "\n}\n" }
	add("map-read-missing-key", "map-read-of-missing-key-faults", body("a int", "m := map[int]int{1: 10}\n\treturn m[a] + 1"))
	add("map-read-missing-key-bool", "map-read-of-missing-key-faults", body("a int", "m := map[int]bool{1: true}\n\tif m[a] {\n\t\treturn 1\n\t}\n\treturn 0"))
	add("map-incr-missing-key", "map-read-of-missing-key-faults", body("s string", "m := map[string]int{\"a\": 1}\n\tm[s]++\n\treturn m[\"a\"]*10 + len(m)"))
	add("map-opassign-missing-key", "map-read-of-missing-key-faults", body("a int", "m := map[int]int{1: 1}\n\tm[a] += 5\n\treturn m[a]"))
	add("nil-map-read", "nil-map-operations-fault", body("a int", "var m map[int]int\n\treturn m[a] + len(m)"))
	add("nil-map-write-panics", "", body("a int", "var m map[int]int\n\tm[a] = 1\n\treturn len(m)"))
	add("nil-map-len-range", "", body("a int", "var m map[int]int\n\tx := len(m)\n\tfor k := range m {\n\t\tx += k\n\t}\n\tif m == nil {\n\t\tx += 100\n\t}\n\treturn x + a"))
	add("nil-map-delete", "nil-map-operations-fault", body("a int", "var m map[int]int\n\tdelete(m, a)\n\treturn len(m) + a"))
	add("nil-map-comma-ok", "nil-map-operations-fault", body("a int", "var m map[int]int\n\tv, ok := m[a]\n\tif ok {\n\t\treturn v\n\t}\n\treturn -1"))
	add("map-comma-ok", "", body("a int", "m := map[int]int{1: 10, 2: 0}\n\tv, ok := m[a]\n\tif ok {\n\t\treturn v + 1\n\t}\n\treturn -1 + v"))
	add("map-comma-ok-assign-existing-vars", "", body("a int", "m := map[int]int{1: 10}\n\tv, ok := 5, true\n\tv, ok = m[a]\n\tif ok {\n\t\treturn v\n\t}\n\treturn v - 1"))
	add("map-delete-and-len", "", body("a int", "m := map[int]int{1: 10, 2: 20}\n\tdelete(m, a)\n\tdelete(m, a)\n\treturn len(m)"))
	add("map-overwrite-and-len", "", body("a int, b int", "m := map[int]int{1: 10}\n\tm[a] = b\n\tm[a] = b + 1\n\tv, _ := m[a]\n\treturn len(m)*100 + v"))
	add("map-aliases", "", body("a int", "m := map[int]int{1: 1}\n\tn := m\n\tn[a] = 5\n\treturn len(m)"))
	add("map-string-keys", "", body("s string", "m := map[string]int{\"\": 1, \"a\": 2}\n\tm[s] = 7\n\tm[\"a\"] += 1\n\tv, ok := m[\"ab\"]\n\tif ok {\n\t\treturn v*10 + len(m)\n\t}\n\treturn len(m)"))
	add("map-bool-keys", "", body("a int", "m := map[bool]int{true: 1}\n\tm[a > 1] = 5\n\tm[a > 0] = 6\n\tv, ok := m[false]\n\tif ok {\n\t\tv += 100\n\t}\n\treturn v*10 + len(m)"))
	add("map-range-commutative", "", body("a int", "m := map[int]int{1: 10, 2: 20, 7: 70}\n\tm[a] = 5\n\tx := 0\n\tfor k, v := range m {\n\t\tx += k*100 + v\n\t}\n\tfor k := range m {\n\t\tx += k\n\t}\n\tfor _, v := range m {\n\t\tx += v\n\t}\n\treturn x"))
	add("map-of-slices", "", body("a int", "m := map[int][]int{1: {1, 2}}\n\tm[1] = append(m[1], a)\n\tm[2] = []int{a}\n\treturn len(m[1])*10 + len(m[2])"))
	add("map-make-and-fill", "", body("a int", "m := make(map[int]int)\n\tfor i := 0; i < 4; i++ {\n\t\tm[i%(a+3)] = i\n\t}\n\treturn len(m)"))
	add("nil-slice-ops", "", body("a int", "var s []int\n\tx := len(s)\n\tfor _, v := range s {\n\t\tx += v\n\t}\n\tif s == nil {\n\t\tx += 100\n\t}\n\ts = append(s, a)\n\tif s != nil {\n\t\tx += 1000\n\t}\n\treturn x + s[0]"))
	add("empty-slice-is-not-nil", "", body("a int", "s := []int{}\n\tt := make([]int, 0)\n\tx := a\n\tif s == nil || t == nil {\n\t\tx += 100\n\t}\n\treturn x"))
	add("append-result-to-other-variable-keeps-length", "append-mutates-its-argument", body("a int", "s := []int{1, 2, 3}\n\tt := append(s, a)\n\treturn len(s)*10 + len(t)"))
	add("slice-aliases", "", body("a int", "s := []int{1, 2}\n\tt := s\n\tt[0] = a\n\treturn s[0]"))
	add("slice-of-slices", "", body("a int", "s := [][]int{{1, 2}, {3}}\n\ts[1] = append(s[1], a)\n\ts[0][1] = 9\n\treturn len(s[1])*100 + s[0][1]*10 + len(s)"))
	add("slice-index-bounds", "", body("a int", "s := []int{1, 2, 3}\n\treturn s[a]"))
	add("slice-store-bounds", "", body("a int", "s := []int{1, 2, 3}\n\ts[a] = 5\n\treturn s[0] + s[1] + s[2]"))
	add("make-slice-zeroed", "", body("a int", "s := make([]int, 3)\n\tb := make([]bool, 2)\n\tt := make([]string, 2)\n\ts[0] = a\n\tx := s[0] + s[1] + len(s) + len(t[1])\n\tif b[1] {\n\t\tx += 100\n\t}\n\treturn x"))
	add("make-slice-variable-length", "", body("a int", "s := make([]int, a)\n\treturn len(s)"))
	add("range-over-growing-slice", "", body("a int", "s := []int{1, 2, 3}\n\tn := 0\n\tfor _, v := range s {\n\t\tif v == 2 {\n\t\t\ts = append(s, a)\n\t\t}\n\t\tn++\n\t}\n\treturn n*10 + len(s)"))
	add("range-sees-element-updates", "", body("a int", "s := []int{1, 2, 3}\n\tx := 0\n\tfor i, v := range s {\n\t\ts[2] = a\n\t\tx += i * v\n\t}\n\treturn x"))
	add("range-over-replaced-slice", "", body("a int", "s := []int{1, 2, 3}\n\tx := 0\n\tfor i := range s {\n\t\ts = []int{9}\n\t\tx += i\n\t}\n\treturn x*10 + len(s) + a"))
	add("range-forms", "", body("a int", "s := []int{a, 2, 3}\n\tx := 0\n\tfor range s {\n\t\tx += 1\n\t}\n\tfor i := range s {\n\t\tx += i * 10\n\t}\n\tfor _, v := range s {\n\t\tx += v * 100\n\t}\n\tvar i, v int\n\tfor i, v = range s {\n\t\tx += i + v\n\t}\n\treturn x + i + v"))
	add("range-over-int", "", body("a int", "x := 0\n\tfor i := range 3 {\n\t\tx += i * a\n\t}\n\tfor range a {\n\t\tx += 100\n\t}\n\treturn x"))
	add("range-over-array", "range-over-array-is-not-a-copy", body("a int", "arr := [3]int{a, 2, 3}\n\tx := 0\n\tfor i, v := range arr {\n\t\tarr[2] = 50\n\t\tx += i + v\n\t}\n\treturn x + arr[2]"))
	add("array-value-semantics", "", body("a int", "var x [3]int\n\tx[1] = a\n\ty := x\n\ty[1] = 9\n\tif x == y {\n\t\treturn -1\n\t}\n\treturn x[1]*10 + len(x)"))
	add("loop-local-reset-each-iteration", "", body("a int", "x := 0\n\tfor i := 0; i < 3; i++ {\n\t\tvar z int\n\t\tw := 1\n\t\tz += i + a\n\t\tw += z\n\t\tx += w\n\t}\n\treturn x"))
	add("element-opassign", "", body("a int", "s := []int{5, 6}\n\tm := map[int]int{1: 5}\n\ts[0] += a\n\ts[1]++\n\tm[1] *= a\n\tm[1]--\n\treturn s[0]*100 + s[1]*10 + m[1]"))
	add("bool-collections", "", body("a int", "s := []bool{a > 0, false}\n\tm := map[int]bool{1: a > 1}\n\ts[1] = !s[0]\n\tx := 0\n\tif s[1] {\n\t\tx += 1\n\t}\n\tif v, ok := m[1]; ok && v {\n\t\tx += 10\n\t}\n\tif s[0] == m[1] {\n\t\tx += 100\n\t}\n\treturn x"))
	ss.add("collections", "returns-of-every-kind", "", `
type Pair struct{ A, B int }

func I@(a int) []int        { return []int{a, 2} }
func S@(s string) []string  { return []string{s, "x" + s} }
func B@(a int) []bool       { return []bool{a > 0, a == 0} }
func M@(a int) map[int]int  { return map[int]int{a: 1, 3: a} }
func N@(s string) map[string]int { return map[string]int{s: 1, "z": 2} }
func P@(a int, b int) Pair  { return Pair{a, b} }
func PP@(a int) *Pair {
	if a < 0 {
		return nil
	}
	return &Pair{a, a}
}
func Y@(s string) []byte { return []byte(s + "!") }
func V@(a int) {}
func NS@(a int) []int {
	var s []int
	if a > 0 {
		s = append(s, a)
	}
	return s
}
`, true)
}

// ---- strings and bytes ---------------------------------------------------------------------------------------------------

func shapesStrings(ss *shapeSet) {
	add := func(tag, cause, src string) { ss.add("strings", tag, cause, src, false) }
	add("order-comparison", "string-order-comparison-is-numeric", `
func Z@(s string) int {
	r := 0
	if s < "b" {
		r += 1
	}
	if "b" >= s {
		r += 10
	}
	if s > "B" {
		r += 100
	}
	if s <= "aa" {
		r += 1000
	}
	return r
}
`)
	add("equality", "", `
func Z@(s string, t string) int {
	r := 0
	if s == t {
		r += 1
	}
	if s != "a" {
		r += 10
	}
	if t == "ab" {
		r += 100
	}
	if s == "" {
		r += 1000
	}
	return r
}
`)
	add("range-over-non-ascii-string", "string-range-yields-bytes", `
func Z@(a int) int {
	x := 0
	for i, c := range "aé" {
		x = x*2 + int(c) + i
	}
	return x + a
}
`)
	add("concatenation-then-equality", "concatenated-string-is-a-buffer", `
func Z@(s string, t string) int {
	r := 0
	u := s + t
	if u == "aab" {
		r += 1
	}
	if s+"b" != "ab" {
		r += 10
	}
	switch s + t {
	case "a", "ab":
		r += 100
	}
	return r
}
`)
	add("concatenated-string-as-map-key", "concatenated-string-is-a-buffer", `
func Z@(s string) int {
	m := map[string]int{"ab": 1}
	m[s+"b"] = 8
	return m["ab"]*10 + len(m)
}
`)
	add("len-and-index-of-non-ascii", "", `
func Z@(a int) int {
	s := "aéz"
	return len(s)*1000 + int(s[1]) + a
}
`)
	add("range-over-ascii-string", "", `
func Z@(s string) int {
	x := 0
	for i, c := range s {
		x += (i + 1) * int(c)
	}
	for i := range s {
		x += i
	}
	return x
}
`)
	add("bytes-are-a-copy-of-the-string", "", `
func Z@(s string) string {
	b := []byte(s + "k")
	b[0] = 'x'
	t := string(b)
	b[0] = 'y'
	return s + "|" + t + "|" + string(b)
}
`)
	add("substring-forms-and-bounds", "", `
func Z@(s string, a int) string {
	t := s + "cd"
	return t[a:] + "|" + t[:2] + "|" + t[1:3] + "|" + t[:]
}
`)
	add("byte-slice-forms", "", `
func Z@(s string, a int) []byte {
	b := []byte(s + "cd")
	c := b[1:]
	d := make([]byte, 3)
	n := copy(d, b)
	d[2] = byte(n + 48)
	c = append(c, d...)
	c = append(c, byte(a+60))
	return c
}
`)
	add("byte-values", "", `
func Z@(s string, a int) int {
	b := []byte(s + "A")
	b[0] += 2
	x := int(b[0])*10 + int('a') + int(s[a&1])
	if b[0] == 'C' {
		x += 1000
	}
	return x
}
`)
	add("string-index-bounds", "", `
func Z@(s string, a int) int { return int(s[a]) }
`)
	add("concat-in-loop", "", `
func Z@(s string, a int) string {
	r := ""
	for i := 0; i < a; i++ {
		r += s
		r = "<" + r + ">"
	}
	return r
}
`)
	add("string-switch-and-conversion-of-constant", "", `
const k@ = "ab"

func Z@(s string) int {
	switch s {
	case k@:
		return 1
	case "b", "a":
		return 2
	}
	return len(k@ + s)
}
`)
}

// ---- everything else ---------------------------------------------------------------------------------------------------------

func shapesMisc(ss *shapeSet) {
	add := func(tag, cause, src string) { ss.add("misc", tag, cause, src, false) }
	add("constants-and-iota", "", `
const c1@ = 5
const (
	c2@ = iota * 2
	c3@
	c4@
)
const big@ = 1 << 62
const s1@ = "ab"

func Y@(a int) int { return a*c1@ + c2@ + c3@*10 + c4@*100 + len(s1@) + big@>>60 }
`)
	add("shadowing", "", `
func Y@(a int, b int) int {
	x := 1
	if a > 0 {
		x := 2
		x += b
		_ = x
	}
	{
		x := 3
		_ = x
	}
	if x := a + b; x > 2 {
		return x
	} else if y := x * 2; y < 0 {
		return y
	}
	for x := 0; x < 2; x++ {
		b += x
	}
	return x*100 + b
}
`)
	add("opassign-all", "", `
func Y@(a int, b int) int {
	x := a + 20
	x += b
	x -= 1
	x *= 2
	x /= 3
	x %= 17
	x <<= 2
	x >>= 1
	x &= 29
	x |= 64
	return x
}
`)
	add("xor-and-andnot-assign", "", `
func Y@(a int, b int) int {
	x := a
	x ^= b
	y := a &^ b
	y &^= 1
	return x*100 + y
}
`)
	add("division-and-modulo-signs", "", `
func Y@(a int, b int) int {
	if b == 0 {
		return -99
	}
	q := (a*5 - 3) / b
	r := (a*5 - 3) % b
	return q*100 + r
}
`)
	add("division-by-zero-faults", "", `
func Y@(a int, b int) int { return a / b }
`)
	add("modulo-by-zero-faults", "", `
func Y@(a int, b int) int { return a % b }
`)
	add("shift-right-of-negative", "", `
func Y@(a int, b int) int { return (a-3)>>(b&3) + (a << (b & 3)) }
`)
	add("bool-values", "", `
func Y@(a int, b int) int {
	k := a < b
	l := !k
	m := k == l
	n := k != (b > 0)
	r := 0
	if k == true {
		r += 1
	}
	if l {
		r += 10
	}
	if m || n {
		r += 100
	}
	return r
}
`)
	add("bool-parameters-and-results", "", `
func Y@(p bool, q bool) bool { return p && !q || !p && q }
`)
	add("type-assertion-single-value", "", `
func Y@(a int) int {
	var i interface{} = a
	var j any = "s"
	return i.(int) + len(j.(string))
}
`)
	add("typed-local-declarations", "", `
type myint@ int

func (m myint@) dbl() myint@ { return m * 2 }

func Y@(a int) int {
	var x myint@ = myint@(a)
	var y, z int = 1, 2
	var w int
	return int(x.dbl()) + y + z + w
}
`)
	add("min-max-builtins", "", `
func Y@(a int, b int) int { return min(a, b)*100 + max(a, b, 1)*10 + min(a, 0) }
`)
	add("nested-calls-in-conditions", "", `
func neg@(x int) int { return -x }

func Y@(a int, b int) int {
	if neg@(a) < neg@(b) && neg@(neg@(a)) == a {
		return 1
	}
	for i := neg@(-1); i < neg@(neg@(3)); i++ {
		if i == b {
			return i + 10
		}
	}
	return 0
}
`)
}


// ---- block scopes and shadowing -------------------------------------------------------------------------------------------

// shapesScope: a declaration (:=, var with and without value, two names) that
// shadows the outer x inside ONE block of a statement - every block kind: if /
// else / else-if bodies, for and range bodies, each clause of tagged and
// tagless switches with default first / in the middle / last and with
// fallthrough, plain nested blocks, if / switch / for init statements - and a
// use of the OUTER x (read, op-assign, ++, case expression, loop condition) in
// a sibling block, a later clause and after the statement. The argument a
// selects the block that runs, so every block of every structure is taken.
func shapesScope(ss *shapeSet, thorough bool) {
	type hole struct{ name, text string }
	decls := []hole{
		{"define", "x := 100 + b\n\t\tz += x"},
		{"var-value", "var x int = 100 + b\n\t\tz += x"},
		{"var-zero", "var x int\n\t\tx += 100 + b\n\t\tz += x"},
		{"define-two", "x, w := 100+b, 3\n\t\tz += x * w"},
	}
	uses := []hole{
		{"read", "z += x"},
		{"op-assign", "x += 7"},
		{"incr", "x++"},
	}
	// %D = the shadowing declaration, %U = a use of the outer x; "after" uses follow every structure
	structs := []hole{
		{"if-then/else", "if a == 0 {\n\t\t%D\n\t} else {\n\t\t%U\n\t}"},
		{"if-else/then", "if a != 0 {\n\t\t%U\n\t} else {\n\t\t%D\n\t}"},
		{"else-if-chain/first", "if a == 0 {\n\t\t%D\n\t} else if a == 1 {\n\t\t%U\n\t} else {\n\t\t%U\n\t\tz += 1000\n\t}"},
		{"else-if-chain/middle", "if a == 1 {\n\t\t%U\n\t} else if a == 0 {\n\t\t%D\n\t} else {\n\t\t%U\n\t\tz += 1000\n\t}"},
		{"switch-tag/first", "switch a {\n\tcase 0:\n\t\t%D\n\tcase 1:\n\t\t%U\n\tdefault:\n\t\t%U\n\t\tz += 1000\n\t}"},
		{"switch-tag/middle", "switch a {\n\tcase 1:\n\t\t%U\n\tcase 0:\n\t\t%D\n\tcase 2:\n\t\t%U\n\t\tz += 1000\n\tdefault:\n\t\t%U\n\t\tz += 2000\n\t}"},
		{"switch-tag/default-first-declares", "switch a {\n\tdefault:\n\t\t%D\n\tcase 1:\n\t\t%U\n\tcase 2:\n\t\t%U\n\t\tz += 1000\n\t}"},
		{"switch-tag/default-middle-uses", "switch a {\n\tcase 0:\n\t\t%D\n\tdefault:\n\t\t%U\n\tcase 2:\n\t\t%U\n\t\tz += 1000\n\t}"},
		{"switch-tag/default-last-declares", "switch a {\n\tcase 1:\n\t\t%U\n\tcase 2:\n\t\t%U\n\t\tz += 1000\n\tdefault:\n\t\t%D\n\t}"},
		{"switch-tag/fallthrough-into-use", "switch a {\n\tcase 0:\n\t\t%D\n\t\tfallthrough\n\tcase 1:\n\t\t%U\n\tcase 2:\n\t\t%U\n\t\tz += 1000\n\t}"},
		{"switch-tag/fallthrough-chain", "switch a {\n\tcase 0:\n\t\t%D\n\t\tfallthrough\n\tcase 1:\n\t\t%U\n\t\tfallthrough\n\tdefault:\n\t\t%U\n\t\tz += 1000\n\t}"},
		{"switch-tagless/first", "switch {\n\tcase a == 0:\n\t\t%D\n\tcase a == 1:\n\t\t%U\n\tdefault:\n\t\t%U\n\t\tz += 1000\n\t}"},
		{"switch-tagless/outer-in-later-condition", "switch {\n\tcase a == 0:\n\t\t%D\n\tcase x+a > 11:\n\t\t%U\n\tcase x-a == 9:\n\t\t%U\n\t\tz += 1000\n\t}"},
		{"switch-tag/outer-as-case-expression", "switch a + 9 {\n\tcase 16:\n\t\t%D\n\tcase x:\n\t\t%U\n\tcase x + 1, x - 10:\n\t\t%U\n\t\tz += 1000\n\t}"},
		{"switch-in-loop/all-clauses", "for i := 0; i < 3; i++ {\n\t\tswitch (i + a) % 3 {\n\t\tcase 0:\n\t\t%D\n\t\tcase 1:\n\t\t%U\n\t\tdefault:\n\t\t%U\n\t\tz += 1000\n\t\t}\n\t}"},
		{"for-body", "for i := 0; i < 2; i++ {\n\t\tif i == a {\n\t\t\tcontinue\n\t\t}\n\t\t%D\n\t}\n\t%U"},
		{"for-body/outer-in-condition-and-post", "for x < 12 {\n\t\tx++\n\t\t{\n\t\t%D\n\t\t}\n\t\tif a > 0 {\n\t\t%U\n\t\t}\n\t}"},
		{"for-init-shadows", "for x := 0; x < 2; x++ {\n\t\tz += x + a\n\t}\n\t%U"},
		{"range-body", "for _, v := range []int{1, 2} {\n\t\tif v == a {\n\t\t\tbreak\n\t\t}\n\t\t%D\n\t}\n\t%U"},
		{"range-variable-shadows", "for _, x := range []int{a, 2} {\n\t\tz += x\n\t}\n\t%U"},
		{"nested-block", "{\n\t\t%D\n\t}\n\t%U\n\t{\n\t\t%U\n\t}"},
		{"nested-blocks-two-levels", "{\n\t\t%D\n\t\t{\n\t\t\tx := 1000\n\t\t\tz += x\n\t\t}\n\t\tz += x\n\t}\n\t%U"},
		{"if-init-shadows", "if x := a * 2; x > 2 {\n\t\tz += x\n\t} else {\n\t\tz -= x\n\t}\n\t%U"},
		{"switch-init-shadows", "switch x := a + 1; x {\n\tcase 1:\n\t\tz += x\n\tcase 2:\n\t\tx += 5\n\t\tz += x\n\t}\n\t%U"},
	}
	for _, st := range structs {
		for di, d := range decls {
			if !strings.Contains(st.text, "%D") && di > 0 {
				continue // the structure brings its own declaration
			}
			for _, u := range uses {
				if !thorough && d.name == "define-two" && u.name != "read" {
					continue
				}
				body := strings.ReplaceAll(strings.ReplaceAll(st.text, "%D", d.text), "%U", u.text)
				dn := d.name
				if !strings.Contains(st.text, "%D") {
					dn = "own"
				}
				src := "func V@(a int, b int) int {\n\tx, z := 10, 0\n\t" + body + "\n\tz += x\n\tx++\n\treturn x*10000 + z\n}\n"
				ss.add("scope", st.name+"/"+dn+"/"+u.name, "", src, false)
			}
		}
	}
}

// ---- degenerate shapes: empty bodies and jumps to the next instruction -------------------------------------------------------

// shapesDegenerate: statements whose body is empty or whose jump target is the
// very next instruction (the code generator's jump peepholes see them). Part 1:
// an `if` / `else if` without else and with an EMPTY body, its condition being
// each comparison kind, a bool variable, its negation, && and ||, a call
// returning bool, a call with a visible side effect, a string / nil comparison,
// placed in every context that keeps something on the evaluation stack or is
// sensitive to its depth. Part 2: the other degenerate statements (empty else,
// for, range, switch, case, default, function literal; for { break }; continue /
// break, plain and labelled, as the last statement; labelled switch break) in
// four contexts. The Go meaning of all of them is trivial; the stack must hold
// exactly the declared result.
func shapesDegenerate(ss *shapeSet, thorough bool) {
	type cnd struct{ name, pre, cond, obs string }
	conds := []cnd{
		{"eq", "", "a == b", "0"},
		{"ne", "", "a != b", "0"},
		{"lt", "", "a < b", "0"},
		{"le", "", "a <= b", "0"},
		{"gt", "", "a > b", "0"},
		{"ge", "", "a >= b", "0"},
		{"bool-var", "k := a > 0", "k", "0"},
		{"not-bool-var", "k := a > b", "!k", "0"},
		{"and", "", "a > 0 && b > 0", "0"},
		{"or", "", "a == 7 || b != 1", "0"},
		{"mixed", "", "a > 0 && (b < 0 || a == b)", "0"},
		{"call", "", "pos@(a)", "0"},
		{"call-with-effect", "cnt := []int{0}", "hit@(cnt, a)", "cnt[0]*1000"},
		{"effect-in-and", "cnt := []int{0}", "hit@(cnt, a) && hit@(cnt, b)", "cnt[0]*1000"},
		{"string-eq", "t := \"a\"\n\tif a > 0 {\n\t\tt = \"ab\"\n\t}", "t == \"ab\"", "0"},
		{"nil-compare", "var m map[int]int\n\tif a > 0 {\n\t\tm = map[int]int{}\n\t}", "m == nil", "0"},
		{"arith-operands", "", "a*2+1 > b-3", "0"},
	}
	// %P pre-statements, %C condition, %O observation of the side effect. The
	// function that contains the empty if has parameters a, b.
	const helpers = `
func pos@(v int) bool { return v > 0 }

func hit@(c []int, v int) bool {
	c[0] += 1
	return v > 0
}

`
	type place struct{ name, text string }
	places := []place{
		{"plain", "func G@(a int, b int) int {\n\t%P\n\tx := a * 3\n\tif %C {\n\t}\n\treturn x + b + %O\n}\n"},
		{"twice", "func G@(a int, b int) int {\n\t%P\n\tx := a * 3\n\tif %C {\n\t}\n\tx++\n\tif %C {\n\t}\n\treturn x + b + %O\n}\n"},
		{"else-if", "func G@(a int, b int) int {\n\t%P\n\tx := a * 3\n\tif a == 7 {\n\t\tx += 100\n\t} else if %C {\n\t}\n\treturn x + b + %O\n}\n"},
		{"nested-in-if", "func G@(a int, b int) int {\n\t%P\n\tx := a * 3\n\tif a != 2 {\n\t\tif %C {\n\t\t}\n\t\tx += 100\n\t}\n\treturn x + b + %O\n}\n"},
		{"in-range-slice", "func G@(a int, b int) int {\n\t%P\n\tx := 0\n\tfor i, v := range []int{1, 2, 3} {\n\t\tif %C {\n\t\t}\n\t\tx += v * (i + 1)\n\t}\n\treturn x + %O\n}\n"},
		{"in-range-array", "func G@(a int, b int) int {\n\t%P\n\tx := 0\n\tarr := [3]int{1, 2, 3}\n\tfor _, v := range arr {\n\t\tif %C {\n\t\t}\n\t\tx += v\n\t}\n\treturn x + %O\n}\n"},
		{"in-range-map", "func G@(a int, b int) int {\n\t%P\n\tx := 0\n\tfor mk, mv := range map[int]int{1: 10, 2: 20, 3: 30} {\n\t\tif %C {\n\t\t}\n\t\tx += mk + mv\n\t}\n\treturn x + %O\n}\n"},
		{"in-range-string", "func G@(a int, b int) int {\n\t%P\n\tx := 0\n\tfor i, c := range \"abc\" {\n\t\tif %C {\n\t\t}\n\t\tx += int(c) * (i + 1)\n\t}\n\treturn x + %O\n}\n"},
		{"in-range-int", "func G@(a int, b int) int {\n\t%P\n\tx := 0\n\tfor i := range 3 {\n\t\tif %C {\n\t\t}\n\t\tx += i + 1\n\t}\n\treturn x + %O\n}\n"},
		{"in-for", "func G@(a int, b int) int {\n\t%P\n\tx := 0\n\tfor i := 0; i < 3; i++ {\n\t\tif %C {\n\t\t}\n\t\tx += i + 1\n\t}\n\treturn x + %O\n}\n"},
		{"in-switch-case", "func G@(a int, b int) int {\n\t%P\n\tx := 0\n\tswitch a {\n\tcase 1:\n\t\tif %C {\n\t\t}\n\t\tx += 5\n\tdefault:\n\t\tif %C {\n\t\t}\n\t\tx += 7\n\t}\n\treturn x + %O\n}\n"},
		{"in-switch-in-range", "func G@(a int, b int) int {\n\t%P\n\tx := 0\n\tfor _, v := range []int{1, 2, 3} {\n\t\tswitch v {\n\t\tcase 2:\n\t\t\tif %C {\n\t\t\t}\n\t\t\tcontinue\n\t\t}\n\t\tx += v\n\t}\n\treturn x + %O\n}\n"},
		{"callee-in-expression", "func pick@(a int, b int) int {\n\t%P\n\tif %C {\n\t}\n\treturn a*10 + b + %O\n}\n\nfunc G@(a int, b int) int { return pick@(1, 2)*2 - pick@(a, b) }\n"},
		{"callee-as-argument-and-index", "func pick@(a int, b int) int {\n\t%P\n\tif %C {\n\t}\n\treturn (a+b)&1 + %O*0\n}\n\nfunc add@(p int, q int) int { return p*100 + q }\n\nfunc G@(a int, b int) int {\n\ts := []int{5, 6}\n\treturn add@(s[pick@(a, b)], pick@(b, a))\n}\n"},
		{"multi-value-return", "func two@(a int, b int) (int, int) {\n\t%P\n\tif %C {\n\t}\n\treturn a + 1, b + 2 + %O\n}\n\nfunc G@(a int, b int) int {\n\tx, y := two@(a, b)\n\treturn x*100 + y\n}\n"},
		{"in-function-literal", "func G@(a int, b int) int {\n\tf := func(v []int) int {\n\t\ta, b := v[0], v[1]\n\t\t%P\n\t\tif %C {\n\t\t}\n\t\treturn a - b + %O\n\t}\n\treturn f([]int{a, b})*3 + f([]int{b, a})\n}\n"},
		{"in-method", "type rc@ struct{ N int }\n\nfunc (r *rc@) get(a int, b int) int {\n\t%P\n\tif %C {\n\t}\n\treturn r.N + a + %O\n}\n\nfunc G@(a int, b int) int {\n\tr := &rc@{N: 50}\n\treturn r.get(a, b) - r.get(b, a)*2\n}\n"},
		{"with-init", "func G@(a int, b int) int {\n\t%P\n\tx := a * 3\n\tif w := b + 1; w > 1 && %C {\n\t}\n\treturn x + b + %O\n}\n"},
		{"under-defer", "func rec@() { recover() }\n\nfunc inner@(a int, b int) int {\n\tdefer rec@()\n\t%P\n\tif %C {\n\t}\n\tx := a + b + %O\n\treturn x\n}\n\nfunc G@(a int, b int) int {\n\tx := inner@(a, b)\n\treturn x\n}\n"},
	}
	for _, pl := range places {
		for _, c := range conds {
			if !thorough && (pl.name == "twice" || pl.name == "in-range-int" || pl.name == "in-method" || pl.name == "with-init") && c.name != "lt" && c.name != "bool-var" && c.name != "or" && c.name != "call-with-effect" {
				continue
			}
			pre := c.pre
			if strings.Contains(pl.text, "\t\t%P") {
				pre = strings.ReplaceAll(pre, "\n\t", "\n\t\t")
			}
			src := strings.ReplaceAll(strings.ReplaceAll(strings.ReplaceAll(pl.text, "%P", pre), "%C", c.cond), "%O", c.obs)
			ss.add("degenerate", "empty-if/"+pl.name+"/"+c.name, "", helpers+src, false)
		}
	}
	// part 2: other statements without effect / with a jump to the next instruction
	type stm struct{ name, text string }
	stmts := []stm{
		{"empty-else", "if a > b {\n\t\tx += 100\n\t} else {\n\t}"},
		{"empty-then-with-else", "if a > b {\n\t} else {\n\t\tx += 100\n\t}"},
		{"empty-then-empty-else", "if a > b {\n\t} else {\n\t}"},
		{"empty-else-if-empty-else", "if a > b {\n\t\tx += 100\n\t} else if a == b {\n\t} else {\n\t}"},
		{"empty-for3", "for i := 0; i < a; i++ {\n\t}"},
		{"empty-for-cond", "for w := a; w < 3; w++ {\n\t}"},
		{"empty-range-slice", "for range []int{a, b} {\n\t}"},
		{"empty-range-map", "for range map[int]int{1: a, 2: b} {\n\t}"},
		{"empty-range-string", "for range \"ab\" {\n\t}"},
		{"empty-switch", "switch a {\n\t}"},
		{"empty-tagless-switch", "switch {\n\t}"},
		{"empty-cases", "switch a {\n\tcase 1:\n\tcase 2, 7:\n\t\tx += 100\n\tcase 0:\n\tdefault:\n\t}"},
		{"empty-default-first", "switch a {\n\tdefault:\n\tcase 1:\n\t\tx += 100\n\t}"},
		{"empty-tagless-cases", "switch {\n\tcase a > b:\n\tcase a == b:\n\t\tx += 100\n\tdefault:\n\t}"},
		{"only-default", "switch a {\n\tdefault:\n\t\tx += 100\n\t}"},
		{"case-with-only-break", "switch a {\n\tcase 1:\n\t\tbreak\n\tcase 2:\n\t\tx += 100\n\t\tbreak\n\t}"},
		{"empty-fallthrough", "switch a {\n\tcase 1:\n\t\tfallthrough\n\tcase 2:\n\t\tx += 100\n\tcase 0:\n\t}"},
		{"for-break", "for {\n\t\tbreak\n\t}"},
		{"for-cond-break", "for a > 0 {\n\t\tbreak\n\t}"},
		{"continue-last", "for i := 0; i < 3; i++ {\n\t\tx += i\n\t\tcontinue\n\t}"},
		{"conditional-continue-last", "for i := 0; i < 3; i++ {\n\t\tx += i\n\t\tif i == a {\n\t\t\tcontinue\n\t\t}\n\t}"},
		{"conditional-break-last", "for i := 0; i < 3; i++ {\n\t\tx += i\n\t\tif i == a {\n\t\t\tbreak\n\t\t}\n\t}"},
		{"labelled-continue-last", "lc:\n\tfor i := 0; i < 3; i++ {\n\t\tx += i\n\t\tcontinue lc\n\t}"},
		{"labelled-break-only", "lb:\n\tfor {\n\t\tbreak lb\n\t}"},
		{"labelled-break-from-inner-last", "lo:\n\tfor i := 0; i < 2; i++ {\n\t\tfor j := 0; j < 2; j++ {\n\t\t\tx += j\n\t\t\tif j == a {\n\t\t\t\tbreak lo\n\t\t\t}\n\t\t}\n\t}"},
		{"labelled-continue-from-inner-last", "lo:\n\tfor i := 0; i < 2; i++ {\n\t\tfor j := 0; j < 2; j++ {\n\t\t\tx += j\n\t\t\tif j == a {\n\t\t\t\tcontinue lo\n\t\t\t}\n\t\t}\n\t}"},
		{"labelled-switch-break", "ls:\n\tswitch {\n\tcase a > b:\n\t\tbreak ls\n\tdefault:\n\t\tx += 100\n\t}"},
		{"range-continue-only", "for range []int{1, 2} {\n\t\tcontinue\n\t}"},
		{"range-break-only", "for range []int{1, 2} {\n\t\tbreak\n\t}"},
		{"empty-block", "{\n\t}"},
		{"empty-function-literal", "nop := func() {}\n\tnop()\n\tfunc() {}()"},
		{"empty-function", "nop@()\n\tnop2@(a, b)"},
		{"return-in-both-branches-then-empty", "if a == 100 {\n\t\treturn 1\n\t} else if a == 200 {\n\t\treturn 2\n\t}\n\tif b == 300 {\n\t}"},
	}
	ctxs := []place{
		{"plain", "func G@(a int, b int) int {\n\tx := a\n\t%S\n\treturn x*3 + b\n}\n"},
		{"in-range", "func G@(a int, b int) int {\n\tx := a\n\tfor _, v := range []int{1, 2} {\n\t\tx += v\n\t\t{\n\t%S\n\t\t}\n\t\tx *= 2\n\t}\n\treturn x*3 + b\n}\n"},
		{"in-switch-case", "func G@(a int, b int) int {\n\tx := a\n\tswitch b {\n\tcase 1, 2:\n\t%S\n\t\tx += 5\n\tdefault:\n\t%S\n\t}\n\treturn x*3 + b\n}\n"},
		{"callee-in-expression", "func cal@(a int, b int) int {\n\tx := a\n\t%S\n\treturn x*3 + b\n}\n\nfunc G@(a int, b int) int { return cal@(1, 2)*2 - cal@(a, b) + cal@(b, a)*5 }\n"},
	}
	const helpers2 = `
func nop@() {}

func nop2@(p int, q int) {}

`
	for _, st := range stmts {
		for _, cx := range ctxs {
			if strings.HasPrefix(st.text, "l") && strings.Contains(st.text, ":\n") && cx.name == "in-switch-case" {
				continue // the statement would appear twice in one function: duplicate label
			}
			if !thorough && cx.name == "in-switch-case" && !strings.HasPrefix(st.name, "empty-") {
				continue
			}
			body := st.text
			if cx.name == "in-range" {
				body = "\t" + strings.ReplaceAll(body, "\n", "\n\t\t")
			}
			if cx.name == "in-switch-case" {
				body = "\t" + strings.ReplaceAll(body, "\n", "\n\t")
			}
			src := strings.ReplaceAll(cx.text, "%S", body)
			h := ""
			if strings.Contains(src, "nop@(") {
				h = helpers2
			}
			ss.add("degenerate", st.name+"/"+cx.name, "", h+src, false)
		}
	}
}

// ---- control targets: which construct does a break / continue / fallthrough / return leave? ----------------------------------

// shapesControl: OUTER { mark; [if i == a { PRE }]; INNER; [if i == b { POST }]; mark } ; mark
// with OUTER in for / range over slice, one-entry map, string, int / tagged and
// tagless switch (labelled "lo" when an action names it), INNER in for / range /
// switch (each with nothing, a break or a continue of its own inside) / if /
// block / function-literal call, and PRE, POST in: nothing, break, continue
// (inside loops), break lo, continue lo (loops), return, fallthrough (switch,
// POST only). Every executed statement adds its own power of ten, so the result
// shows where each jump landed. Plus two three-level nests (for>switch>for and
// switch>for>switch) with actions after each inner construct.
func shapesControl(ss *shapeSet, thorough bool) {
	type outer struct {
		name, open, close string // %L label prefix
		loop                  bool
	}
	outers := []outer{
		{"for", "%Lfor i := 0; i < 3; i++ {", "}", true},
		{"switch-tag", "i := a & 3\n\t%Lswitch i {\n\tcase 0, 1, 2:", "case 3:\n\t\tx += 5000000\n\tdefault:\n\t\tx += 7000000\n\t}", false},
		{"range-slice", "%Lfor i := range []int{5, 6, 7} {", "}", true},
		{"switch-tagless", "i := b & 3\n\t%Lswitch {\n\tcase i < 3:", "case i == 3:\n\t\tx += 5000000\n\tdefault:\n\t\tx += 7000000\n\t}", false},
		{"range-map", "%Lfor i := range map[int]int{1: 4} {", "}", true},
		{"range-string", "%Lfor i := range \"abc\" {", "}", true},
		{"range-int", "%Lfor i := range 3 {", "}", true},
		{"for-cond", "i := -1\n\t%Lfor i < 2 {\n\t\ti++", "}", true},
	}
	type inner struct{ name, text string }
	inners := []inner{
		{"for", "for j := 0; j < 2; j++ {\n\t\t\t_ = j\n\t\t\tx += 100\n\t\t}"},
		{"range", "for j := range []int{8, 9} {\n\t\t\t_ = j\n\t\t\tx += 100\n\t\t}"},
		{"switch", "switch i {\n\t\tcase 1:\n\t\t\tx += 100\n\t\tdefault:\n\t\t\tx += 200\n\t\t}"},
		{"if", "if i != 1 {\n\t\t\tx += 100\n\t\t}"},
		{"block", "{\n\t\t\tx += 100\n\t\t}"},
		{"func-literal", "x += func(v int) int { return v * 100 }(1)"},
		{"for-with-break", "for j := 0; j < 2; j++ {\n\t\t\tif j == b {\n\t\t\t\tbreak\n\t\t\t}\n\t\t\tx += 100\n\t\t}"},
		{"for-with-continue", "for j := 0; j < 2; j++ {\n\t\t\tif j == b {\n\t\t\t\tcontinue\n\t\t\t}\n\t\t\tx += 100\n\t\t}"},
		{"range-with-break", "for j := range []int{8, 9} {\n\t\t\tif j == b {\n\t\t\t\tbreak\n\t\t\t}\n\t\t\tx += 100\n\t\t}"},
		{"range-with-continue", "for j := range []int{8, 9} {\n\t\t\tif j == a {\n\t\t\t\tcontinue\n\t\t\t}\n\t\t\tx += 100\n\t\t}"},
		{"switch-with-break", "switch i {\n\t\tcase 1:\n\t\t\tif b > 0 {\n\t\t\t\tbreak\n\t\t\t}\n\t\t\tx += 100\n\t\tdefault:\n\t\t\tx += 200\n\t\t}"},
	}
	acts := []string{"none", "break", "continue", "break lo", "continue lo", "return x", "fallthrough"}
	legal := func(o outer, act string, post bool) bool {
		switch act {
		case "continue", "continue lo":
			return o.loop
		case "fallthrough":
			return !o.loop && post
		}
		return true
	}
	for oi, o := range outers {
		for ii, in := range inners {
			for _, pre := range acts {
				for _, post := range acts {
					if !legal(o, pre, false) || !legal(o, post, true) {
						continue
					}
					if !thorough {
						full := oi < 3 // for, tagged switch, range over slice: every PRE x POST
						if ii >= 6 && pre != "none" {
							continue // inner constructs with their own break/continue: POST only
						}
						if !full && pre != "none" && post != "none" {
							continue
						}
					}
					label := ""
					if strings.Contains(pre, " lo") || strings.Contains(post, " lo") {
						label = "lo:\n\t"
					}
					var b strings.Builder
					b.WriteString("func T@(a int, b int) int {\n\tx := 0\n\t")
					b.WriteString(strings.ReplaceAll(o.open, "%L", label))
					b.WriteString("\n\t\t_ = i\n\t\tx += 1\n")
					if pre != "none" {
						b.WriteString("\t\tif i == a {\n\t\t\tx += 10\n\t\t\t" + pre + "\n\t\t}\n")
					}
					b.WriteString("\t\t" + in.text + "\n")
					switch post {
					case "none":
						b.WriteString("\t\tx += 100000\n")
					case "fallthrough":
						b.WriteString("\t\tx += 10000\n\t\tfallthrough\n")
					default:
						b.WriteString("\t\tif i == b {\n\t\t\tx += 10000\n\t\t\t" + post + "\n\t\t}\n\t\tx += 100000\n")
					}
					b.WriteString("\t" + o.close + "\n\tx += 1000000\n\treturn x\n}\n")
					tag := o.name + "/" + in.name + "/pre-" + strings.ReplaceAll(pre, " ", "-") + "/post-" + strings.ReplaceAll(post, " ", "-")
					ss.add("control", tag, "", b.String(), false)
				}
			}
		}
	}
	// three levels: for > switch > for
	a1s := []string{"none", "break", "continue", "break lo", "continue lo", "break ls"}
	a2s := []string{"none", "break", "continue", "break lo", "continue lo", "break ls", "return x"}
	lab := func(name string, acts ...string) string {
		for _, a := range acts {
			if strings.HasSuffix(a, " "+name) {
				return name + ":\n\t"
			}
		}
		return ""
	}
	for _, a1 := range a1s {
		for _, a2 := range a2s {
			var b strings.Builder
			b.WriteString("func T@(a int, b int) int {\n\tx := 0\n\t" + lab("lo", a1, a2) + "for i := 0; i < 3; i++ {\n\t\tx += 1\n\t\t" + strings.ReplaceAll(lab("ls", a1, a2), "\n\t", "\n\t\t") + "switch i {\n\t\tcase 0, 1:\n\t\t\tx += 10\n\t\t\tfor j := 0; j < 2; j++ {\n\t\t\t\tx += 100\n")
			if a1 != "none" {
				b.WriteString("\t\t\t\tif j == b {\n\t\t\t\t\t" + a1 + "\n\t\t\t\t}\n")
			}
			b.WriteString("\t\t\t\tx += 1000\n\t\t\t}\n")
			if a2 != "none" {
				b.WriteString("\t\t\tif i == a {\n\t\t\t\t" + a2 + "\n\t\t\t}\n")
			}
			b.WriteString("\t\t\tx += 10000\n\t\tdefault:\n\t\t\tx += 100000\n\t\t}\n\t\tx += 1000000\n\t}\n\tx += 10000000\n\treturn x\n}\n")
			ss.add("control", "for>switch>for/in-"+strings.ReplaceAll(a1, " ", "-")+"/after-"+strings.ReplaceAll(a2, " ", "-"), "", b.String(), false)
		}
	}
	// three levels: switch > for > switch
	b1s := []string{"none", "break", "continue", "break lf", "continue lf", "break ls"}
	b2s := []string{"none", "break", "continue", "break lf", "continue lf", "break ls"}
	b3s := []string{"none", "break", "break ls", "return x", "fallthrough"}
	for _, a1 := range b1s {
		for _, a2 := range b2s {
			for _, a3 := range b3s {
				if !thorough && a1 != "none" && a1 != "break" && a2 != "none" && a3 != "none" && a3 != "break" {
					continue
				}
				var b strings.Builder
				b.WriteString("func T@(a int, b int) int {\n\tx := 0\n\t" + lab("ls", a1, a2, a3) + "switch {\n\tcase a >= 0:\n\t\tx += 1\n\t\t" + strings.ReplaceAll(lab("lf", a1, a2), "\n\t", "\n\t\t") + "for i := 0; i < 3; i++ {\n\t\t\tx += 10\n\t\t\tswitch i {\n\t\t\tcase 1:\n\t\t\t\tx += 100\n")
				if a1 != "none" {
					b.WriteString("\t\t\t\tif b > 0 {\n\t\t\t\t\t" + a1 + "\n\t\t\t\t}\n")
				}
				b.WriteString("\t\t\t\tx += 1000\n\t\t\t}\n")
				if a2 != "none" {
					b.WriteString("\t\t\tif i == b {\n\t\t\t\t" + a2 + "\n\t\t\t}\n")
				}
				b.WriteString("\t\t\tx += 10000\n\t\t}\n")
				switch a3 {
				case "none":
				case "fallthrough":
					b.WriteString("\t\tx += 100000\n\t\tfallthrough\n")
				default:
					b.WriteString("\t\tif a == 1 {\n\t\t\t" + a3 + "\n\t\t}\n")
				}
				if a3 != "fallthrough" {
					b.WriteString("\t\tx += 100000\n")
				}
				b.WriteString("\tcase a < -1:\n\t\tx += 3000000\n\tdefault:\n\t\tx += 1000000\n\t}\n\tx += 10000000\n\treturn x\n}\n")
				ss.add("control", "switch>for>switch/in-"+strings.ReplaceAll(a1, " ", "-")+"/after-"+strings.ReplaceAll(a2, " ", "-")+"/after-for-"+strings.ReplaceAll(a3, " ", "-"), "", b.String(), false)
			}
		}
	}
}
