// Measured code-generation evidence of C14: which jump distances and which slot
// indexes the compiled contracts actually contain (the families "longjump" and
// "slots" aim at the short/long jump boundary and at the 6/7 slot boundary).
package c14

import (
	"encoding/binary"
	"fmt"
	"sort"
	"strings"
	"sync"

	"github.com/nspcc-dev/neo-go/pkg/smartcontract/scparser"
	"github.com/nspcc-dev/neo-go/pkg/vm/opcode"
)

// forEachInstr walks the instructions of a script.
func forEachInstr(script []byte, cb func(ip int, op opcode.Opcode, param []byte)) {
	ctx := scparser.NewContext(script, 0)
	for {
		op, param, err := ctx.Next()
		if err != nil || ctx.IP() >= len(script) {
			return
		}
		cb(ctx.IP(), op, param)
		if op == opcode.RET && ctx.NextIP() >= len(script) {
			return
		}
	}
}

type codeStats struct {
	mu sync.Mutex
	// distinct (form, distance) pairs with 100 <= |distance| <= 160
	jumps map[string]bool
	// instructions by class
	shortJumps, longJumps int
	slotWide              map[string]int // LDLOC/STLOC/LDARG/STARG/LDSFLD/STSFLD with an operand (index >= 7)
	maxIndex              map[string]int
	initslotLocals        map[int]int // INITSLOT by number of locals (capped at 12)
	initslotArgs          map[int]int
}

var cstats = &codeStats{jumps: map[string]bool{}, slotWide: map[string]int{}, maxIndex: map[string]int{}, initslotLocals: map[int]int{}, initslotArgs: map[int]int{}}

func isShortJump(op opcode.Opcode) bool {
	switch op {
	case opcode.JMP, opcode.JMPIF, opcode.JMPIFNOT, opcode.JMPEQ, opcode.JMPNE, opcode.JMPGT, opcode.JMPGE, opcode.JMPLT, opcode.JMPLE, opcode.CALL, opcode.ENDTRY:
		return true
	}
	return false
}

func isLongJump(op opcode.Opcode) bool {
	switch op {
	case opcode.JMPL, opcode.JMPIFL, opcode.JMPIFNOTL, opcode.JMPEQL, opcode.JMPNEL, opcode.JMPGTL, opcode.JMPGEL, opcode.JMPLTL, opcode.JMPLEL, opcode.CALLL, opcode.ENDTRYL:
		return true
	}
	return false
}

func (cs *codeStats) add(script []byte) {
	cs.mu.Lock()
	defer cs.mu.Unlock()
	forEachInstr(script, func(ip int, op opcode.Opcode, param []byte) {
		switch {
		case isShortJump(op) && len(param) == 1:
			cs.shortJumps++
			d := int(int8(param[0]))
			if d >= 100 || d <= -100 {
				cs.jumps[fmt.Sprintf("%s %d", op, d)] = true
			}
		case isLongJump(op) && len(param) == 4:
			cs.longJumps++
			d := int(int32(binary.LittleEndian.Uint32(param)))
			if d >= -160 && d <= 160 {
				cs.jumps[fmt.Sprintf("%s %d", op, d)] = true
			}
		case op == opcode.LDLOC || op == opcode.STLOC || op == opcode.LDARG || op == opcode.STARG || op == opcode.LDSFLD || op == opcode.STSFLD:
			cs.slotWide[op.String()]++
			if int(param[0]) > cs.maxIndex[op.String()] {
				cs.maxIndex[op.String()] = int(param[0])
			}
		case op == opcode.INITSLOT:
			cs.initslotLocals[min(int(param[0]), 12)]++
			cs.initslotArgs[min(int(param[1]), 12)]++
		}
	})
}

// report: per jump opcode the distances seen next to the boundary of the short form.
func (cs *codeStats) report() map[string]any {
	cs.mu.Lock()
	defer cs.mu.Unlock()
	by := map[string][]int{}
	for k := range cs.jumps {
		var op string
		var d int
		fmt.Sscanf(k, "%s %d", &op, &d)
		by[op] = append(by[op], d)
	}
	dist := map[string]string{}
	atLimit := 0
	for op, ds := range by {
		sort.Ints(ds)
		var near []string
		for _, d := range ds {
			if (d >= 120 && d <= 136) || (d <= -120 && d >= -137) {
				near = append(near, fmt.Sprint(d))
			}
			if d == 127 || d == -128 || d == 128 || d == -129 {
				atLimit++
			}
		}
		dist[op] = strings.Join(near, ",")
	}
	return map[string]any{
		"short_jump_instructions":                      cs.shortJumps,
		"long_jump_instructions":                       cs.longJumps,
		"jump_distances_seen_within_120_136_by_opcode": dist,
		"jump_opcode_distance_pairs_exactly_at_limit":  atLimit,
		"wide_slot_instructions":                       cs.slotWide,
		"max_slot_index":                               cs.maxIndex,
		"initslot_by_locals":                           cs.initslotLocals,
		"initslot_by_arguments":                        cs.initslotArgs,
	}
}
