package c15

import (
	"fmt"
	"strings"

	"github.com/nspcc-dev/neo-go/pkg/core/transaction"
	"github.com/nspcc-dev/neo-go/pkg/crypto/keys"
	"github.com/nspcc-dev/neo-go/pkg/util"
)

// Symbolic signer configurations. Hashes and keys are names ("A", "E", "G1")
// resolved per invocation (the entry and dynamic script hashes depend on the
// chain), then turned into BOTH the reference `signer` and the real
// transaction.Signer.

type scond struct {
	Op  string   `json:"op"`
	B   bool     `json:"b,omitempty"`
	Sym string   `json:"sym,omitempty"`
	Sub []*scond `json:"sub,omitempty"`
}

type srule struct {
	Allow bool   `json:"allow"`
	C     *scond `json:"cond"`
}

type cfg struct {
	Scope byte     `json:"scope"`
	AC    []string `json:"allowed_contracts"`
	AG    []string `json:"allowed_groups"`
	Rules []srule  `json:"rules"`
}

func (c *scond) String() string {
	switch c.Op {
	case "bool":
		return fmt.Sprintf("Bool(%v)", c.B)
	case "not", "and", "or":
		var s []string
		for _, x := range c.Sub {
			s = append(s, x.String())
		}
		return strings.ToUpper(c.Op[:1]) + c.Op[1:] + "(" + strings.Join(s, ",") + ")"
	case "hash":
		return "ScriptHash(" + c.Sym + ")"
	case "group":
		return "Group(" + c.Sym + ")"
	case "entry":
		return "CalledByEntry"
	case "byhash":
		return "CalledByContract(" + c.Sym + ")"
	case "bygroup":
		return "CalledByGroup(" + c.Sym + ")"
	}
	return "?"
}

func scopeString(b byte) string {
	if b == 0 {
		return "None"
	}
	var s []string
	for _, x := range []struct {
		bit  transaction.WitnessScope
		name string
	}{{transaction.CalledByEntry, "CalledByEntry"}, {transaction.CustomContracts, "CustomContracts"}, {transaction.CustomGroups, "CustomGroups"}, {transaction.Rules, "Rules"}, {transaction.Global, "Global"}} {
		if transaction.WitnessScope(b)&x.bit != 0 {
			s = append(s, x.name)
		}
	}
	return strings.Join(s, "+")
}

func (c cfg) String() string {
	var rs []string
	for _, r := range c.Rules {
		a := "Deny"
		if r.Allow {
			a = "Allow"
		}
		rs = append(rs, a+"."+r.C.String())
	}
	return fmt.Sprintf("%s/ac=%s/ag=%s/rules=%s", scopeString(c.Scope), strings.Join(c.AC, ","), strings.Join(c.AG, ","), strings.Join(rs, ";"))
}

// names maps symbols to concrete values for one invocation.
type names struct {
	H map[string]util.Uint160
	K map[string]*keys.PublicKey
}

func (n *names) hash(s string) util.Uint160 {
	h, ok := n.H[s]
	if !ok {
		panic("unknown hash symbol " + s)
	}
	return h
}

func (n *names) key(s string) *keys.PublicKey {
	k, ok := n.K[s]
	if !ok {
		panic("unknown key symbol " + s)
	}
	return k
}

func (c *scond) ref(n *names) *cond {
	r := &cond{Op: c.Op, Bool: c.B}
	switch c.Op {
	case "hash", "byhash":
		r.Hash = n.hash(c.Sym)
	case "group", "bygroup":
		r.Key = n.key(c.Sym).StringCompressed()
	}
	for _, s := range c.Sub {
		r.Sub = append(r.Sub, s.ref(n))
	}
	return r
}

func (c *scond) real(n *names) transaction.WitnessCondition {
	sub := func() []transaction.WitnessCondition {
		var l []transaction.WitnessCondition
		for _, s := range c.Sub {
			l = append(l, s.real(n))
		}
		return l
	}
	switch c.Op {
	case "bool":
		v := transaction.ConditionBoolean(c.B)
		return &v
	case "not":
		return &transaction.ConditionNot{Condition: c.Sub[0].real(n)}
	case "and":
		v := transaction.ConditionAnd(sub())
		return &v
	case "or":
		v := transaction.ConditionOr(sub())
		return &v
	case "hash":
		v := transaction.ConditionScriptHash(n.hash(c.Sym))
		return &v
	case "group":
		v := transaction.ConditionGroup(*n.key(c.Sym))
		return &v
	case "entry":
		return transaction.ConditionCalledByEntry{}
	case "byhash":
		v := transaction.ConditionCalledByContract(n.hash(c.Sym))
		return &v
	case "bygroup":
		v := transaction.ConditionCalledByGroup(*n.key(c.Sym))
		return &v
	}
	panic("bad op " + c.Op)
}

// ref builds the reference signer for account acc.
func (c cfg) ref(acc util.Uint160, n *names) signer {
	sc := transaction.WitnessScope(c.Scope)
	s := signer{Account: acc,
		Global:          sc&transaction.Global != 0,
		CalledByEntry:   sc&transaction.CalledByEntry != 0,
		CustomContracts: sc&transaction.CustomContracts != 0,
		CustomGroups:    sc&transaction.CustomGroups != 0,
		Rules:           sc&transaction.Rules != 0,
	}
	for _, h := range c.AC {
		s.Contracts = append(s.Contracts, n.hash(h))
	}
	for _, g := range c.AG {
		s.Groups = append(s.Groups, n.key(g).StringCompressed())
	}
	for _, r := range c.Rules {
		s.RuleList = append(s.RuleList, rule{Allow: r.Allow, Cond: r.C.ref(n)})
	}
	return s
}

// real builds the transaction.Signer handed to the code under test.
func (c cfg) real(acc util.Uint160, n *names) transaction.Signer {
	s := transaction.Signer{Account: acc, Scopes: transaction.WitnessScope(c.Scope)}
	for _, h := range c.AC {
		s.AllowedContracts = append(s.AllowedContracts, n.hash(h))
	}
	for _, g := range c.AG {
		s.AllowedGroups = append(s.AllowedGroups, n.key(g))
	}
	for _, r := range c.Rules {
		a := transaction.WitnessDeny
		if r.Allow {
			a = transaction.WitnessAllow
		}
		s.Rules = append(s.Rules, transaction.WitnessRule{Action: a, Condition: r.C.real(n)})
	}
	return s
}

// ---- enumeration -------------------------------------------------------------

// vmLeaves is the leaf alphabet of the in-VM layer, simplest first. X is a hash
// that is nobody's, Z the zero hash, G3 a key that is in no manifest; E is the
// entry script of the invocation, L its first dynamic script (X if none).
func vmLeaves() []*scond {
	l := []*scond{{Op: "bool", B: true}, {Op: "bool", B: false}, {Op: "entry"}}
	for _, h := range []string{"A", "C", "E", "L", "X"} {
		l = append(l, &scond{Op: "hash", Sym: h})
	}
	for _, g := range []string{"G1", "G2", "G3"} {
		l = append(l, &scond{Op: "group", Sym: g})
	}
	for _, h := range []string{"A", "B", "GAS", "E", "L", "Z"} {
		l = append(l, &scond{Op: "byhash", Sym: h})
	}
	for _, g := range []string{"G1", "G2", "G3"} {
		l = append(l, &scond{Op: "bygroup", Sym: g})
	}
	return l
}

// depth1 returns all trees of depth exactly 1 over leaves: Not(l), And/Or over
// 1..width leaves (ordered, with repetition).
func depth1(leaves []*scond, width int) []*scond {
	var out []*scond
	for _, l := range leaves {
		out = append(out, &scond{Op: "not", Sub: []*scond{l}})
	}
	for _, op := range []string{"and", "or"} {
		var rec func(pre []*scond)
		rec = func(pre []*scond) {
			if len(pre) > 0 {
				out = append(out, &scond{Op: op, Sub: append([]*scond{}, pre...)})
			}
			if len(pre) == width {
				return
			}
			for _, l := range leaves {
				rec(append(pre, l))
			}
		}
		rec(nil)
	}
	return out
}

func rulesOf(conds []*scond) []srule {
	var out []srule
	for _, c := range conds {
		out = append(out, srule{Allow: true, C: c}, srule{Allow: false, C: c})
	}
	return out
}

var (
	acSets = [][]string{{}, {"A"}, {"B"}, {"A", "C"}}
	agSets = [][]string{{}, {"G1"}, {"G2"}}
)

// scopeValues: None, every combination of the four combinable bits, Global alone.
func scopeValues() []byte {
	bits := []transaction.WitnessScope{transaction.CalledByEntry, transaction.CustomContracts, transaction.CustomGroups, transaction.Rules}
	var out []byte
	for m := 0; m < 16; m++ {
		var s transaction.WitnessScope
		for i, b := range bits {
			if m&(1<<i) != 0 {
				s |= b
			}
		}
		out = append(out, byte(s))
	}
	return append(out, byte(transaction.Global))
}
