// C15: witness scopes and witness rules are enforced exactly.
//
// Layer "vm": System.Runtime.CheckWitness executed by the real VM at every
// level of every call chain (entry script, U instances with and without
// manifest groups, dynamic scripts, native caller), for every signer
// configuration of the stated sets, compared with the reference predicate of
// pred_test.go. Layer "match": WitnessCondition.Match of every condition tree
// up to the permitted nesting against every stub context, compared with the
// same predicate's condition evaluator.
//
// Extension "identity" (ext_ident_test.go): chains in which several contexts
// share one script hash (copies of the entry script and of a dynamic script
// loaded with System.Runtime.LoadScript, a contract calling itself, the same
// contract twice in a chain) and chains whose entry context is a deployed
// contract's verify method (Verification trigger). The predicate's entry
// relation and calling contract are positions in the real chain, so an
// implementation that decides them by comparing hashes disagrees there.
// Every level also asks for the zero account (never witnessed).
//
// Extension "facts" (ext_facts_test.go): chains in which a contract replaces
// its manifest groups or destroys itself DURING the execution (optionally
// rolled back by a caught exception); every configuration is asked before the
// change, after it in the same context, in the older contexts and in fresh
// ones; the predicate is evaluated over the groups ContractManagement holds at
// the moment of each check, and the three ways of asking about a group (Group,
// CustomGroups, CalledByGroup from the callee) must agree.
//
// Extension "no verdict" (ext_err_test.go, round 4): facts that cannot be read
// (no ReadStates in the executing context; stub contexts whose group methods
// fail). Three-valued reference: a reached leaf without a value leaves the check
// without a verdict (FAULT / error), never a match nor a non-match for the
// Not/And/Or above it or for the rule list; all trees of depth 2 over a small
// leaf set in the VM (plan rules-tree2), all trees of the match layer on failing
// contexts.
//
// Extension "oracle-callback" (ext_oracle_test.go, round 5): which SIGNER SET
// decides a check executed in the callback of an oracle response (the requesting
// transaction's), before Oracle.finish / after the callback returned and in the
// next transaction of the block (the executing transaction's own); test
// invocations of response transactions over three persisted requests plus real
// blocks with responses (two in one block, a faulting callback, a request made by
// a callback and its response).
package c15

import (
	"fmt"
	"os"
	"sort"
	"strings"
	"sync"
	"testing"
	"time"

	"github.com/nspcc-dev/neo-go/pkg/core/transaction"
	"github.com/nspcc-dev/neo-go/pkg/vm/vmstate"

	"verif/lib/chainx"
	"verif/lib/vk"
)

// plan is a named set of signer configurations, run on a set of chains.
type plan struct {
	Name   string
	Cfgs   []cfg
	Chains []int // indices into the chain list
	Zero   bool  // configurations containing CalledByContract(zero hash)
	Cont   bool  // additionally validate the continue-after-error observation
}

type vmFail struct {
	Layer string   `json:"layer"`
	Plan  string   `json:"plan"`
	Chain chain    `json:"chain"`
	Cfgs  []cfg    `json:"signer_configs"` // the whole transaction: slot i = chainx.Acc(100+i)
	Cfg   string   `json:"failing_config"`
	M     mismatch `json:"mismatch"`
}

func singleRulePlanCfgs(scopes []cfg, rules []srule) []cfg {
	var out []cfg
	for _, r := range rules {
		for _, s := range scopes {
			c := s
			c.Rules = []srule{r}
			out = append(out, c)
		}
	}
	return out
}

// r0: a few rule lists for the scope-combination plan.
func r0() [][]srule {
	l := func(op, sym string) *scond { return &scond{Op: op, Sym: sym} }
	not := func(c *scond) *scond { return &scond{Op: "not", Sub: []*scond{c}} }
	return [][]srule{
		{},
		{{true, &scond{Op: "bool", B: true}}},
		{{false, &scond{Op: "entry"}}, {true, &scond{Op: "bool", B: true}}},
		{{true, l("group", "G1")}},
		{{true, not(l("hash", "A"))}},
		{{false, l("bygroup", "G1")}, {true, &scond{Op: "entry"}}},
		{{true, &scond{Op: "and", Sub: []*scond{l("byhash", "GAS"), l("group", "G2")}}}},
		{{false, &scond{Op: "or", Sub: []*scond{l("byhash", "E"), l("hash", "L")}}}, {true, l("bygroup", "G2")}},
	}
}

func containsZ(c *scond) bool {
	if c.Sym == "Z" {
		return true
	}
	for _, s := range c.Sub {
		if containsZ(s) {
			return true
		}
	}
	return false
}

func makePlans(r *vk.Run, chains []chain) []plan {
	var all, changing []int // chains of the "facts" extension get their own plan only
	for i, c := range chains {
		if len(c.Muts) > 0 {
			changing = append(changing, i)
		} else {
			all = append(all, i)
		}
	}
	var plans []plan
	R := byte(transaction.Rules)
	// P1: every scope value x allowed contracts x allowed groups x a few rule lists
	// (lists are present whether or not their scope bit is set).
	var p1 []cfg
	for _, rl := range r0() {
		for _, s := range scopeValues() {
			for _, ac := range acSets {
				for _, ag := range agSets {
					p1 = append(p1, cfg{Scope: s, AC: ac, AG: ag, Rules: rl})
				}
			}
		}
	}
	plans = append(plans, plan{Name: "scopes", Cfgs: p1, Chains: all, Cont: true})
	// leaves without the zero hash
	var leaves, zleaves []*scond
	for _, l := range vmLeaves() {
		zleaves = append(zleaves, l)
		if l.Sym != "Z" {
			leaves = append(leaves, l)
		}
	}
	conds1 := append(append([]*scond{}, leaves...), depth1(leaves, 2)...)
	single := rulesOf(conds1)
	// P2: Rules scope alone x every single rule over every tree of depth <= 1.
	plans = append(plans, plan{Name: "rules-1", Cfgs: singleRulePlanCfgs([]cfg{{Scope: R}}, single), Chains: all})
	// P3: rule lists of length 2.
	simple := append([]*scond{}, leaves...)
	if r.Thorough() {
		for _, l := range leaves {
			simple = append(simple, &scond{Op: "not", Sub: []*scond{l}})
		}
	}
	sr := rulesOf(simple)
	var p3 []cfg
	for _, a := range sr {
		for _, b := range sr {
			p3 = append(p3, cfg{Scope: R, Rules: []srule{a, b}})
		}
	}
	p3chains := all
	if !r.Thorough() {
		p3chains = nil // quick: chains of up to 2 steps
		for _, i := range all {
			if len(chains[i].Steps) <= 2 {
				p3chains = append(p3chains, i)
			}
		}
	}
	plans = append(plans, plan{Name: "rules-2-simple", Cfgs: p3, Chains: p3chains})
	// zero-hash plan: trees of depth <= 1 with a CalledByContract(zero) leaf.
	var zc []*scond
	for _, c := range append(append([]*scond{}, zleaves...), depth1(zleaves, 2)...) {
		if containsZ(c) {
			zc = append(zc, c)
		}
	}
	plans = append(plans, plan{Name: "zero-caller", Cfgs: singleRulePlanCfgs([]cfg{{Scope: R}}, rulesOf(zc)), Chains: all, Zero: true})
	// rules-tree2 (ext_err_test.go): every tree of depth 2 over a small leaf set with group leaves, with / without ReadStates
	plans = append(plans, plan{Name: "rules-tree2", Cfgs: tree2Cfgs(r.Thorough()), Chains: tree2Chains(chains, r.Thorough())})
	// mirror (ext_mirror_test.go): configurations written in mirror keys / byte-reversed hashes x the chains
	// through D(-G1) and F(G1,-G1) and every other chain of up to 2 steps
	var mch []int
	for _, i := range all {
		if c := chains[i]; c.family() == "mirror" || len(c.Steps) <= 2 && (c.family() == "base" || r.Thorough()) {
			mch = append(mch, i)
		}
	}
	plans = append(plans, plan{Name: "mirror", Cfgs: mirrorCfgs(r.Thorough()), Chains: mch})
	// facts: configurations reading groups x chains in which a contract changes its groups / destroys itself
	plans = append(plans, plan{Name: "facts", Cfgs: factsCfgs(r.Thorough()), Chains: changing})
	if r.Thorough() {
		// the two big thorough plans run on every base chain and on the identity
		// extension's chains of up to 2 steps (their 3-step chains get the four plans above)
		var heavy []int
		for _, i := range all {
			if c := chains[i]; c.family() == "base" || len(c.Steps) <= 2 {
				heavy = append(heavy, i)
			}
		}
		// T1: every scope combination containing Rules x the lists its other bits
		// read x every single rule.
		var scopes []cfg
		for _, s := range scopeValues() {
			sc := transaction.WitnessScope(s)
			if sc&transaction.Rules == 0 || s == R {
				continue
			}
			acs, ags := [][]string{{}}, [][]string{{}}
			if sc&transaction.CustomContracts != 0 {
				acs = acSets
			}
			if sc&transaction.CustomGroups != 0 {
				ags = agSets
			}
			for _, ac := range acs {
				for _, ag := range ags {
					scopes = append(scopes, cfg{Scope: s, AC: ac, AG: ag})
				}
			}
		}
		plans = append(plans, plan{Name: "scopes-x-rules-1", Cfgs: singleRulePlanCfgs(scopes, single), Chains: heavy})
		// T3: every single rule before and after each rule of a small set.
		k := rulesOf([]*scond{{Op: "bool", B: true}, {Op: "entry"}, {Op: "hash", Sym: "A"}, {Op: "group", Sym: "G1"}})
		var p []cfg
		for _, a := range single {
			for _, b := range k {
				p = append(p, cfg{Scope: R, Rules: []srule{a, b}}, cfg{Scope: R, Rules: []srule{b, a}})
			}
		}
		plans = append(plans, plan{Name: "rules-2-mixed", Cfgs: p, Chains: heavy})
	}
	return plans
}

func TestCheck(t *testing.T) {
	vk.UseT(t)
	r := vk.Start("C15", "model_checking", 170*time.Second, 22*time.Minute)
	if r.Replay != "" {
		replay(r)
		return
	}
	cov := map[string]any{}
	// ---- layer 2 first (cheap) ----
	only := os.Getenv("C15_ONLY") // development aid: "vm" or "match" runs one layer (never exhaustive)
	if only != "" {
		r.Capped()
	}
	if only != "vm" && only != "oracle" {
		runMatch(r, vk.Pick(r, 2, 3), cov)
	} else {
		cov["match_evaluations"], cov["match_trees"] = 0, 0
	}
	fmt.Printf("layer match: trees=%v evaluations=%v elapsed=%.0fs\n", cov["match_trees"], cov["match_evaluations"], r.Elapsed())

	// ---- family oracle-callback (ext_oracle_test.go): early and cheap ----
	if only == "" || only == "oracle" {
		runOracle(r, cov)
	}

	// ---- layer 1 ----
	chains := allChains(3)
	nBase := len(chains)
	ext := identityChains(r.Thorough()) // ext_ident_test.go: contexts sharing a script hash, deployed contract as entry
	sort.SliceStable(ext, func(i, j int) bool { return len(ext[i].Steps) < len(ext[j].Steps) })
	chains = append(chains, ext...)
	nw := r.Workers()
	pool := make(chan *world, nw)
	var first *world
	for i := 0; i < nw; i++ {
		w, err := newWorld()
		if err != nil {
			fmt.Println("CHECK-ERROR: cannot prepare the chain:", err)
			os.Exit(3)
		}
		if first == nil {
			first = w
		} else if w.base.H["A"] != first.base.H["A"] || w.base.H["C"] != first.base.H["C"] {
			fmt.Println("CHECK-ERROR: replicas differ")
			os.Exit(3)
		}
		pool <- w
	}
	// ext_mirror_test.go: contracts carrying the mirror key of a group key (F: a key and its mirror)
	if first.noF != "" {
		fmt.Println("NOTE: the contract with groups (G1, mirror key of G1) could not be deployed, chains through it are left out:", first.noF)
		r.Outcome("setup:contract-with-a-key-and-its-mirror-key-refused")
	}
	mc := mirrorChains(r.Thorough(), first.noF == "")
	sort.SliceStable(mc, func(i, j int) bool { return len(mc[i].Steps) < len(mc[j].Steps) })
	chains = append(chains, mc...)
	cov["mirror_chain_variants"] = len(mc)
	cov["mirror_contract_with_key_and_mirror_key_deployed"] = b2i(first.noF == "")
	chains = append(chains, factsChains(r.Thorough(), first.noF == "")...) // ext_facts_test.go: the facts change during the execution
	builts := make([]*built, len(chains))
	for i, c := range chains {
		b, err := first.build(c)
		if err != nil {
			fmt.Println("CHECK-ERROR: cannot build chain", c, err)
			os.Exit(3)
		}
		builts[i] = b
	}
	plans := makePlans(r, chains)
	if only == "match" || only == "oracle" {
		plans = nil
	}
	if pn := os.Getenv("C15_PLAN"); pn != "" { // development aid: one plan (never exhaustive)
		r.Capped()
		var keep []plan
		for _, p := range plans {
			if p.Name == pn {
				keep = append(keep, p)
			}
		}
		plans = keep
	}
	var invocations, evals, cwTrue, cwFalse, undecided, contRuns, stateCount, factsDep, agreeCmp vk.Counter
	var norsNone, norsEither, norsVerdict vk.Counter
	ctxSet := vk.NewSet()
	cells := vk.NewSet()
	var mu sync.Mutex
	perClass := map[string]int{}
	planInfo := map[string]any{}
	// per family of chains: invocations, evaluations, distinct situations, outcome classes
	type famStat struct {
		inv, evals, tagged int
		sits, classes      map[string]struct{}
		cells              map[string]struct{} // chain@level with a hash shared by two contexts -> tags
		chains             map[string]struct{}
	}
	fams := map[string]*famStat{}
	totalCfgs := 0
	for _, p := range plans {
		nb := (len(p.Cfgs) + slots - 1) / slots
		nj := nb * len(p.Chains)
		var pEvals, pNone, pEither, pVerdict, pTrue, pFalse, pErr vk.Counter
		pClasses, pSits := vk.NewSet(), vk.NewSet()
		done := r.Parallel(nj, func(j int) {
			bi, ci := j/len(p.Chains), p.Chains[j%len(p.Chains)]
			cfgs := p.Cfgs[bi*slots : min(len(p.Cfgs), (bi+1)*slots)]
			b := builts[ci]
			w := <-pool
			defer func() { pool <- w }()
			var fails []mismatch
			var st *evalStats
			if err := chainx.Try(func() { fails, st = runJob(w, b, cfgs, p.Cont) }); err != nil {
				// a panic outside the VM: the replica may be poisoned, replace it
				fails, st = []mismatch{{What: "harness-panic", Slot: -1, Detail: err.Error()}}, &evalStats{}
				if nw, e := newWorld(); e == nil {
					w = nw
				}
			}
			invocations.Inc()
			for _, f := range b.Frames {
				if f.Kind != "G" {
					stateCount.Add(len(cfgs))
				}
			}
			if p.Cont && b.Chain.NoRS {
				contRuns.Inc()
			}
			evals.Add(st.Evals)
			cwTrue.Add(st.True)
			cwFalse.Add(st.False)
			undecided.Add(st.Undecided)
			factsDep.Add(st.FactsDep)
			norsNone.Add(st.NoRSNone)
			pEvals.Add(st.Evals)
			pNone.Add(st.NoRSNone)
			pEither.Add(st.NoRSEither)
			pVerdict.Add(st.NoRSVerdict)
			pTrue.Add(st.True)
			pFalse.Add(st.False)
			pErr.Add(st.Undecided)
			norsEither.Add(st.NoRSEither)
			norsVerdict.Add(st.NoRSVerdict)
			agreeCmp.Add(agreementPairs(b, cfgs))
			for k := range st.Contexts {
				ctxSet.Add(k)
				pSits.Add(k)
			}
			for k := range st.Classes {
				r.Outcome(k)
				pClasses.Add(k)
			}
			mu.Lock()
			fs := fams[b.Chain.family()]
			if fs == nil {
				fs = &famStat{sits: map[string]struct{}{}, classes: map[string]struct{}{}, cells: map[string]struct{}{}, chains: map[string]struct{}{}}
				fams[b.Chain.family()] = fs
			}
			fs.inv++
			fs.evals += st.Evals
			fs.chains[b.Chain.String()] = struct{}{}
			for k := range st.Contexts {
				fs.sits[k] = struct{}{}
			}
			for k := range st.Classes {
				fs.classes[k] = struct{}{}
			}
			for i := range b.Frames {
				if t := identityTags(b.Frames, i); t != "" && st.Evals > 0 && (!b.Chain.NoRS || i == len(b.Frames)-1) {
					fs.cells[fmt.Sprintf("%s@%d%s", b.Chain, i, t)] = struct{}{}
				}
			}
			mu.Unlock()
			r.Sample(fmt.Sprintf("plan %s chain %s: %d checks (%d true, %d false, %d undecided) for signers %s ...", p.Name, b.Chain, st.Evals, st.True, st.False, st.Undecided, cfgs[0]))
			if bi == 0 {
				for i, f := range b.Frames {
					if f.Kind != "G" {
						cells.Add(fmt.Sprintf("%s@%d", b.Chain, i))
					}
				}
			}
			for _, m := range fails {
				f := vmFail{Layer: "vm", Plan: p.Name, Chain: b.Chain, Cfgs: cfgs, M: m}
				scope := "-"
				if m.Slot >= 0 && m.Slot < len(cfgs) {
					f.Cfg = cfgs[m.Slot].String()
					scope = scopeString(cfgs[m.Slot].Scope)
				} else if strings.HasPrefix(m.Query, fixedLabel) {
					f.Cfg = "fixed signer (account = contract B): " + fixedCfg.String()
				}
				q := queryKind(m.Query)
				class := fmt.Sprintf("%s:%s:%s>%s:%s:%s", m.What, scope, m.Got, m.Want, m.Where, q)
				mu.Lock()
				perClass[class]++
				n := perClass[class]
				mu.Unlock()
				if n > 2 {
					continue
				}
				layer := "vm"
				if p.Zero && m.Frame == 0 && m.What == "result-differs" {
					layer = "vm-zero-caller"
				}
				cfgKey := f.Cfg
				if cfgKey == "" {
					cfgKey = fmt.Sprintf("signers=%s#%d", p.Name, bi)
				}
				r.Outcome("vm:MISMATCH:" + m.What)
				r.Violation(fmt.Sprintf("%s:%s:%s:lvl%d:%s:%s:got-%s", layer, cfgKey, b.Chain, m.Frame, m.What, q, m.Got), f)
			}
		})
		planInfo[p.Name] = map[string]any{"configs": len(p.Cfgs), "transactions": nb, "chains": len(p.Chains), "invocations_planned": nj, "invocations_done": done,
			"checkwitness_evaluations": pEvals.Get(), "observed_true": pTrue.Get(), "observed_false": pFalse.Get(), "observed_fault": pErr.Get(),
			"nors_reference_no_verdict": pNone.Get(), "nors_reference_verdict": pVerdict.Get(), "nors_reference_verdict_or_fault": pEither.Get(),
			"distinct_check_situations": pSits.Len(), "distinct_outcome_classes": pClasses.Len()}
		if p.Name == "mirror" {
			nm := 0
			for _, c := range p.Cfgs {
				if c.usesMirror() {
					nm++
				}
			}
			cov["mirror_configs"], cov["mirror_configs_naming_a_mirror_key_or_reversed_hash"], cov["mirror_chains"], cov["mirror_invocations"] = len(p.Cfgs), nm, len(p.Chains), done
			cov["mirror_checkwitness_evaluations"] = int(pEvals.Get())
			cov["mirror_observed_true"], cov["mirror_observed_false"], cov["mirror_observed_fault"] = int(pTrue.Get()), int(pFalse.Get()), int(pErr.Get())
			cov["mirror_distinct_check_situations"], cov["mirror_distinct_outcome_classes"] = pSits.Len(), pClasses.Len()
		}
		if p.Name == "rules-tree2" { // scalars survive the merge of the evidence
			cov["tree2_configs"], cov["tree2_chains"], cov["tree2_invocations"] = len(p.Cfgs), len(p.Chains), done
			cov["tree2_checkwitness_evaluations"] = int(pEvals.Get())
			cov["tree2_distinct_check_situations"], cov["tree2_distinct_outcome_classes"] = pSits.Len(), pClasses.Len()
			cov["tree2_observed_true"], cov["tree2_observed_false"], cov["tree2_observed_fault"] = int(pTrue.Get()), int(pFalse.Get()), int(pErr.Get())
			cov["tree2_nors_reference_no_verdict_must_fault"] = int(pNone.Get())
			cov["tree2_nors_reference_verdict_despite_group_leaf_must_not_fault"] = int(pVerdict.Get())
			cov["tree2_nors_reference_verdict_or_fault"] = int(pEither.Get())
		}
		totalCfgs += len(p.Cfgs)
		fmt.Printf("plan %-18s configs=%d invocations=%d/%d elapsed=%.0fs\n", p.Name, len(p.Cfgs), done, nj, r.Elapsed())
	}
	var cs []string
	for _, c := range chains[:min(len(chains), 40)] {
		cs = append(cs, c.String())
	}
	kinds := ctxSet.Len()
	oi := func(k string) int { v, _ := cov[k].(int); return v }
	cov["states"] = int(stateCount.Get()) + oi("oracle_cases") + oi("oracle_block_transactions")
	cov["transitions"] = int(evals.Get()) + cov["match_evaluations"].(int) + oi("oracle_checkwitness_evaluations") + oi("oracle_block_checkwitness_evaluations")
	cov["traces_validated_against_impl"] = int(invocations.Get()) + cov["match_trees"].(int) + oi("oracle_invocations") + oi("oracle_block_transactions")
	cov["vm_invocations"] = int(invocations.Get())
	cov["vm_checkwitness_evaluations"] = int(evals.Get())
	cov["vm_expected_true"] = int(cwTrue.Get())
	cov["vm_expected_false"] = int(cwFalse.Get())
	cov["vm_undecided_error_without_readstates"] = int(undecided.Get())
	cov["vm_continue_after_error_validations"] = int(contRuns.Get())
	cov["vm_nors_reference_no_verdict_must_fault"] = int(norsNone.Get())
	cov["vm_nors_reference_verdict_must_not_fault"] = int(norsVerdict.Get())
	cov["vm_nors_reference_verdict_or_fault"] = int(norsEither.Get())
	cov["vm_chain_variants"] = len(chains)
	cov["vm_chain_variants_base"] = nBase
	famInfo := map[string]any{}
	tagCells := map[string]int{}
	for name, fs := range fams {
		famInfo[name] = map[string]any{"chain_variants": len(fs.chains), "invocations": fs.inv, "checkwitness_evaluations": fs.evals,
			"distinct_check_situations": len(fs.sits), "distinct_outcome_classes": len(fs.classes), "levels_sharing_a_hash_with_another_context": len(fs.cells)}
		if strings.HasPrefix(name, "facts-") { // scalars survive the merge of the evidence
			k := strings.ReplaceAll(name, "-", "_")
			if name == "mirror" {
				k = "mirror_family"
			}
			cov[k+"_chain_variants"], cov[k+"_invocations"], cov[k+"_checkwitness_evaluations"] = len(fs.chains), fs.inv, fs.evals
			cov[k+"_distinct_check_situations"], cov[k+"_distinct_outcome_classes"] = len(fs.sits), len(fs.classes)
		}
		for c := range fs.cells {
			for _, t := range []string{"+cur=entry", "+caller=entry", "+cur=caller", "+repeated"} {
				if strings.Contains(c, t) {
					tagCells[t[1:]]++
				}
			}
		}
	}
	cov["facts_verdicts_that_differ_from_the_verdict_over_groups_at_context_load"] = int(factsDep.Get())
	cov["facts_agreement_comparisons"] = int(agreeCmp.Get())
	cov["vm_families"] = famInfo
	cov["vm_levels_by_hash_coincidence"] = tagCells
	cov["vm_chain_levels"] = cells.Len()
	cov["vm_signer_configs"] = totalCfgs
	cov["vm_distinct_check_situations"] = kinds
	cov["vm_plans"] = planInfo
	cov["vm_chains_first40"] = cs
	cov["rule"] = "state = (signer configuration, chain variant, level); every state is executed on the real VM (transitions = CheckWitness / Match evaluations compared with the reference predicate)"
	r.Finish(cov, []string{
		"results are observed where the VM dispatches System.Runtime.CheckWitness (argument, executing script, call flags, result/error), not through contract return values",
		"a CheckWitness error (only seen without ReadStates when a manifest is needed) FAULTs the real VM; the harness records it as 'no verdict' and continues the same execution with a placeholder result (validated against uninterrupted runs in plan 'scopes': same trace prefix, FAULT with 'failed to check witness')",
		"without ReadStates the groups of no contract can be read; the reference is three-valued there (pred_test.go eval3/outcomes3): rule lists and conditions are evaluated strictly left to right with short circuit, a Group/CalledByGroup leaf that is REACHED has no value and leaves the whole check without a verdict (the check must fail = FAULT; never true, never false), leaves not reached do not matter; a verdict must be delivered (no FAULT) when no such leaf is reached",
		"left open by the property and accepted either way (verdict or failure): CalledByGroup in the entry script (nobody called it: false without reading anything, the engine fails first); the custom-groups scope with an empty list; between the scope BITS of one signer no evaluation order is demanded (a granting bit next to one without a value: true or failure)",
		"Match returning (true, error) is counted (match_errctx_failures_carrying_true), not judged: the error alone means no verdict; every composite that would trust the boolean is enumerated above it",
		"plan rules-tree2: Rules scope, [Allow t] for every tree t of depth exactly 2 (inner And/Or of up to 2 children) over {Group(G1), CalledByGroup(G1), CalledByEntry, Bool(true), Bool(false)} that has a group leaf, [Deny t; Allow Bool(true)] for those over the first three leaves; quick: chains of up to 2 steps over {A, B(G1), dynamic script, GAS.transfer->B} plus A>B>A, B>A>B, B>B>B, A>L>B, each with and without ReadStates in the last context; thorough: leaves + {Group(G2), CalledByGroup(G2), ScriptHash(B), CalledByContract(B)}, every chain of up to 2 steps of every family",
		"match layer, contexts with unreadable facts: the group method of the current script, of the calling script or of both fails (thorough: also for one key only); only the tree as built is evaluated there (decoded forms are compared on the plain contexts); thorough adds trees of depth 3 (root over a tree of depth 2 over 5 leaves, optionally with a leaf before/after it) although the codecs refuse that nesting",
		"up to 15 configurations share one transaction as 15 different signers (plus a fixed signer whose account is contract B); signers are not validated (test invocation), so lists of a scope whose bit is unset can be present",
		"chains: entry + up to 3 steps over {A, B(G1), C(G1,G2), dynamic script, GAS.transfer->A|B|C}; a native transfer below a dynamic script is impossible (read-only flags) and is not part of the space",
		"identity extension: chains with steps S (LoadScript of a byte-identical copy of the entry script, bytes taken from System.Runtime.GetScriptContainer) and T (copies of one shared dynamic script), and chains whose entry context is verify(prog) of a deployed contract W(G2)/V(no group) under the Verification trigger (blockchain.InitVerificationContext; the invocation script only pushes the program and executes no check); the predicate's entry relation and calling contract are chain POSITIONS (level <= 1, level-1), never hash comparisons; a level marker account asked first at every level proves which body of a polymorphic script ran",
		"a dynamic script byte-identical to a deployed contract's script does not have the contract's hash (contract hash = H(sender, NEF checksum, name)), so no context pair of that kind shares a hash; not enumerated",
		"key-to-account mapping (verification script hash of a public key) and manifest group signature checks are trusted",
		"facts extension: a contract of the chain (A, B(G1) or C(G1,G2), entry + up to 3 steps, optionally a dynamic script loaded last) replaces its manifest groups by another set (ContractManagement.update with nef=null and the same manifest re-signed for the new groups) or destroys itself, between two rounds of checks and before calling the next step; with `throw` the frame throws after its second round and the calling contract catches (the change is rolled back); the groups of a contract are the groups ContractManagement holds at the moment of the check (a destroyed contract has none) - the harness reads them through the execution's own DAO at every check and reports a difference from the model as 'stored-groups-differ-from-model'; a destroyed contract is not called again (the call would fault); update is always done by the contract itself (ContractManagement updates its caller), 'changed by a callee' is the re-entrant shape X>Y>X",
		"oracle-callback extension: checks executed in the callback of an oracle response and in everything it calls are decided against the signers of the transaction that made the request (for a request made BY a callback: of the first transaction of that history, Oracle.getOriginalTxID), whatever the response transaction's signers are; checks in the response transaction's entry script before Oracle.finish and after the callback returned, and in later transactions of the block, against that transaction's own signers. Context chain inside the callback: entry = the response script, calling contract of the callback = native Oracle (so the callback is NOT called by entry and the Oracle hash itself is witnessed there by the calling-contract rule), the steps below as usual",
		"oracle-callback extension, bounds: one chain per worker (3) with K (callback contract, group G2) next to A, B(G1), C(G1,G2), oracle node designated, requests T1 (sender CalledByEntry + 14 accounts carrying {None, CalledByEntry, Global, CustomContracts{K}, CustomContracts{A}, CustomGroups{G2}, CustomGroups{G1}, Rules[Allow CalledByContract(Oracle)], Rules[Allow CalledByEntry], Rules[Allow ScriptHash(K)], Rules[Allow Group(G2)], Rules[Allow CalledByGroup(G2)], Rules[Deny CalledByContract(Oracle); Allow true], Rules[Allow CalledByContract(K)]} + contract B), T2 (sender None, menu rotated by 5, the oracle nodes' account with Global), T3 (sender Global alone), T4 (round 6: sender None + the 14 accounts carrying the menu written in mirror keys / byte-reversed hashes: CustomGroups{-G2}, CustomGroups{-G1}, Rules over Group(-G2), CalledByGroup(-G2), Group(-G1) as Allow and as [Deny; Allow true], CustomContracts{reversed K}, ScriptHash(reversed K), CalledByContract(reversed Oracle | reversed K), CustomContracts{reversed A, B, C}); response signer sets {native Oracle + nodes (None) | those + the 14 accounts with the menu rotated by 9}; steps below the callback: none or one of {A, B, C, K, dynamic script} (thorough: two); variants plain / innermost frame throws and is caught / callback throws (with and without TRY around Oracle.finish) / callback makes a new request first; standard response script or [checks; Oracle.finish; checks]; every level asks again after the call below it returned",
		"oracle-callback extension: response transactions with other signers than (Oracle, nodes; scope None) or another script than the standard one cannot enter a block (verifyTxAttributes); they are test invocations only, exactly like every other transaction of this check. A throwing callback ends the whole execution even under a TRY of the entry script (accepted: the execution may end there; had it gone on, the remaining checks would be judged against the own signers). That the interop context still holds the original signers after such a FAULT is counted (oracle_contexts_left_with_switched_signers_after_the_execution_not_judged), not judged: nothing executes on that context afterwards",
		"oracle-callback extension, not enumerated: callbacks reached through CALLT, callbacks without ReadStates (the callback always gets all flags), an updated/destroyed callback contract (the response faults before any check), native callers below the callback",
		"mirror extension (round 6): the mirror key of a key (same X, opposite Y) is another key, the byte-reversed reading of a hash another hash: a scope or condition written in one of them says nothing about the other. Contracts D (group -G1) and F (groups G1 and -G1) next to A, B(G1), C(G1,G2); plan `mirror` = CustomGroups over {-G1}, {G1}, {-G2}, {G1,-G1}, {-G1,G2}, {-G1,-G2}, {-G3}, {G3,-G3}, {-G2,G3}, {G2} alone and next to CalledByEntry / CustomContracts{A} / Rules[Allow CalledByGroup(-G1)]; CustomContracts over reversed hashes; [Allow|Deny t] for every tree t of depth <= 1 over Group/CalledByGroup x {G1,-G1,G2,-G2} + CalledByEntry + ScriptHash(B); every rule list of length 2 over those 8 leaves and Bool(true); ScriptHash / CalledByContract of reversed hashes (A, B, D, GAS, entry, dynamic script) as Allow, [Deny; Allow true], Allow Not; on the chains through D / F (1..2 steps over {A,B,C,D,F} containing D or F, D>L, F>L, GAS.transfer->D|F, B>GD, D>GB, four 3-step chains; thorough all 3-step chains over {B,D,F}) and every base chain of up to 2 steps. Every level of every chain of every plan also asks for the byte-reversed hash of its calling contract and for the account of the mirror key of signer 0's key (never witnessed). Facts extension: a contract replaces G1 by -G1 / adds -G1 (chains of up to 2 steps), a third transaction of configurations in mirror keys. Match layer: stub contexts compare keys by encoding; trees of depth <= 1 are also run in a world whose second key is the mirror of the first. The reference compares keys by their 33-byte encodings only",
		"mirror extension: should the subject refuse to deploy F (a manifest lists distinct keys, and a key and its mirror are distinct), the chains through F are left out and the run says so (NOTE line, outcome class, counter mirror_contract_with_key_and_mirror_key_deployed=0); not judged by itself",
		"facts extension, not enumerated: _deploy callbacks (U has none), updates replacing the script, chains with native callers or without ReadStates, contracts deployed during the execution",
	})
}

func b2i(b bool) int {
	if b {
		return 1
	}
	return 0
}

// runJob executes one transaction (signer batch) on one chain and judges it.
func runJob(w *world, b *built, cfgs []cfg, validateCont bool) ([]mismatch, *evalStats) {
	st := &evalStats{Contexts: map[string]struct{}{}, Classes: map[string]struct{}{}}
	real, ref := batchSigners(cfgs, &b.N)
	trace, state, fault, err := w.invoke(b, real, true)
	if err != nil {
		return []mismatch{{What: "harness-error", Slot: -1, Detail: err.Error()}}, st
	}
	fails := judge(b, ref, len(cfgs), trace, state, fault, st)
	fails = append(fails, judgeAgreement(b, cfgs, trace)...)
	if validateCont && b.Chain.NoRS {
		// the uninterrupted run: identical up to and including the first error, then FAULT
		t2, s2, f2, err := w.invoke(b, real, false)
		if err != nil {
			return append(fails, mismatch{What: "harness-error", Slot: -1, Detail: err.Error()}), st
		}
		firstErr := -1
		for i, o := range trace {
			if o.Res == 2 {
				firstErr = i
				break
			}
		}
		want := trace
		wantState := vmstate.Halt
		if firstErr >= 0 {
			want = trace[:firstErr+1]
			wantState = vmstate.Fault
		}
		ok := len(t2) == len(want) && s2 == wantState && (firstErr < 0 || strings.Contains(f2, "failed to check witness"))
		for i := 0; ok && i < len(want); i++ {
			ok = t2[i].Res == want[i].Res && t2[i].Cur == want[i].Cur && string(t2[i].Q) == string(want[i].Q)
		}
		if !ok {
			fails = append(fails, mismatch{What: "continue-after-error-not-faithful", Slot: -1, Got: fmt.Sprintf("%d checks, %s %s", len(t2), s2, f2), Want: fmt.Sprintf("%d checks, %s", len(want), wantState)})
		}
	}
	return fails, st
}

// ---- replay --------------------------------------------------------------------------

func replay(r *vk.Run) {
	var probe struct {
		Layer string `json:"layer"`
	}
	if err := r.ReadReplay(&probe); err != nil {
		fmt.Println("cannot read replay:", err)
		os.Exit(3)
	}
	n := 0
	switch probe.Layer {
	case "match":
		var f matchFail
		_ = r.ReadReplay(&f)
		m := newMatchWorldKeys(f.World == "mirror-keys")
		m.nE = len(m.ectxs)
		for i := 0; i < 5; i++ {
			m.checkTree(m.mk(f.Tree), true, func(g matchFail) {
				g.World = f.World
				if g.Form != f.Form || (f.Ctx >= 0 && g.Ctx != f.Ctx) {
					return
				}
				n++
				fmt.Printf("replay %d: REPRODUCED %s on %s (%s): got %s want %s\n", i, g.Tree, g.CtxS, g.Form, g.Got, g.Want)
				g.Layer = "match"
				r.Violation(fmt.Sprintf("match:%s:%s:%s", g.Tree.String(), g.CtxS, g.Form), g)
			})
		}
	case "vm":
		var f vmFail
		_ = r.ReadReplay(&f)
		for i := 0; i < 5; i++ {
			w, err := newWorld()
			if err != nil {
				fmt.Println("replay: cannot prepare the chain:", err)
				os.Exit(3)
			}
			b, err := w.build(f.Chain)
			if err != nil {
				fmt.Println("replay: cannot build chain:", err)
				os.Exit(3)
			}
			fails, _ := runJob(w, b, f.Cfgs, true)
			w.n.Close()
			var lines []string
			for _, m := range fails {
				if m.Frame == f.M.Frame && m.Query == f.M.Query && m.What == f.M.What {
					n++
					lines = append(lines, fmt.Sprintf("replay %d: REPRODUCED %s %s %s: got %s want %s (%s) config %s", i, f.Chain, m.What, m.Query, m.Got, m.Want, m.Where, f.Cfg))
					f.M = m
					r.Violation(fmt.Sprintf("replay:%s:%s:lvl%d:%s", f.Cfg, f.Chain, m.Frame, m.Query), f)
				}
			}
			sort.Strings(lines)
			for _, l := range lines {
				fmt.Println(l)
			}
			if len(lines) == 0 {
				fmt.Printf("replay %d: agrees with the predicate (%d other mismatches in the transaction)\n", i, len(fails))
			}
		}
	case layerOracle, "oracle-block":
		n = replayOracle(r, probe.Layer)
	default:
		fmt.Println("unknown replay layer", probe.Layer)
		os.Exit(3)
	}
	fmt.Printf("replay: reproduced %d/5\n", n)
	r.Finish(map[string]any{"states": 1, "transitions": 5, "traces_validated_against_impl": 5}, nil)
}
