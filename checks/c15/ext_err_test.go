package c15

// Extension "no verdict" (round 4): facts that CANNOT BE READ.
//
// The Group and CalledByGroup conditions (and the custom-groups scope) need a
// contract's manifest; the engine refuses to read it in a context without the
// ReadStates call flag ("missing ReadStates call flag"), and a MatchContext may
// fail the same way. Such a leaf has no value. The property's "according to the
// first rule whose condition matches, evaluated over the real ... groups" leaves
// one reading for that: the evaluation that reaches such a leaf has no verdict
// (the check fails, FAULT in the VM) - it is never taken for a match nor for a
// non-match by the Not / And / Or above it or by the rule list; leaves that are
// not reached (short circuit, left to right) do not matter. See eval3 /
// outcomes3 in pred_test.go.
//
//   - match layer: stub contexts whose group methods FAIL (for the current script,
//     the calling script or both; thorough: per key), every tree with a group
//     leaf; thorough also trees of depth 3 over a small leaf set.
//   - in-VM layer: (1) every check of every plan executed without ReadStates is
//     now judged by the three-valued reference (before: an error was accepted
//     wherever it happened, a non-error result compared with the two-valued
//     predicate); (2) plan "rules-tree2": single rules over ALL trees of depth 2
//     over a small leaf set with Group and CalledByGroup leaves, on chains with and
//     without ReadStates in contracts that are / are not members, callers that
//     are / are not members.

import (
	"errors"
	"fmt"

	"github.com/nspcc-dev/neo-go/pkg/core/transaction"
	"github.com/nspcc-dev/neo-go/pkg/crypto/keys"
	"github.com/nspcc-dev/neo-go/pkg/util"

	"verif/lib/vk"
)

var errStubGroups = errors.New("stub context: groups cannot be read")

func readsGroups(c *scond) bool {
	if c.Op == "group" || c.Op == "bygroup" {
		return true
	}
	for _, s := range c.Sub {
		if readsGroups(s) {
			return true
		}
	}
	return false
}

// ---- match layer ------------------------------------------------------------------

// measured over the whole run (evidence)
var (
	eEvals, eNone, eTrue, eFalse, eEither vk.Counter
	eErrWithTrue                          vk.Counter // Match returned (true, error): no verdict all the same (counted, not judged)
	deepTrees, deepEvals                  vk.Counter
)

// addErrorContexts: contexts in which group facts cannot be read. Side states:
// "ok" (both keys answer: 4 answer pairs), "all" (both keys fail), "mixed" (one
// key fails, the other answers: 4). The tier-independent prefix (m.nE of them)
// uses ok/all only; the rest (thorough) has at least one mixed side.
func (m *matchWorld) addErrorContexts(hs []util.Uint160, k [2]*keys.PublicKey, ks [2]string) {
	type side struct {
		g, e  [2]bool
		mixed bool
	}
	var ok, all, mixed []side
	for g := 0; g < 4; g++ {
		ok = append(ok, side{g: [2]bool{g&1 != 0, g&2 != 0}})
	}
	all = []side{{e: [2]bool{true, true}}}
	for i := 0; i < 2; i++ {
		for v := 0; v < 2; v++ {
			s := side{mixed: true}
			s.e[i] = true
			s.g[1-i] = v == 1
			mixed = append(mixed, s)
		}
	}
	add := func(cur util.Uint160, calling *util.Uint160, entry bool, c, cl side) {
		s := &stubCtx{cur: cur, k: k, entry: entry, curG: c.g, curE: c.e, callG: cl.g, callE: cl.e}
		w := where{Current: party{Hash: cur}, ByEntry: entry}
		if calling != nil {
			s.calling = *calling
			w.Calling = &party{Hash: *calling}
		}
		w.CurUnreadAll, w.CallUnreadAll = c.e[0] && c.e[1], cl.e[0] && cl.e[1]
		for i := 0; i < 2; i++ {
			if c.e[i] && !w.CurUnreadAll {
				w.CurUnread = append(w.CurUnread, ks[i])
			}
			if cl.e[i] && !w.CallUnreadAll {
				w.CallUnread = append(w.CallUnread, ks[i])
			}
			if c.g[i] && !c.e[i] {
				w.Current.Groups = append(w.Current.Groups, ks[i])
			}
			if cl.g[i] && !cl.e[i] && w.Calling != nil {
				w.Calling.Groups = append(w.Calling.Groups, ks[i])
			}
		}
		m.ectxs = append(m.ectxs, s)
		m.ews = append(m.ews, w)
	}
	each := func(f func(cur util.Uint160, calling *util.Uint160, entry bool)) {
		for _, cur := range hs {
			for e := 0; e < 2; e++ {
				for i := range hs {
					f(cur, &hs[i], e == 1)
				}
				f(cur, nil, e == 1) // nobody called: the engine reports the zero hash
			}
		}
	}
	join := func(l ...[]side) []side {
		var o []side
		for _, x := range l {
			o = append(o, x...)
		}
		return o
	}
	// all-or-nothing per side (what the engine does without ReadStates: both sides fail)
	each(func(cur util.Uint160, calling *util.Uint160, entry bool) {
		callOK := ok
		if calling == nil {
			callOK = ok[:1] // nobody's groups: the stub answers false
		}
		add(cur, calling, entry, all[0], all[0])
		for _, cl := range callOK {
			add(cur, calling, entry, all[0], cl)
		}
		for _, c := range ok {
			add(cur, calling, entry, c, all[0])
		}
	})
	m.nE = len(m.ectxs)
	// per key (thorough)
	each(func(cur util.Uint160, calling *util.Uint160, entry bool) {
		callAny := join(ok, all, mixed)
		if calling == nil {
			callAny = join(ok[:1], all, mixed[:1], mixed[2:3])
		}
		for _, c := range join(ok, all, mixed) {
			for _, cl := range callAny {
				if c.mixed || cl.mixed {
					add(cur, calling, entry, c, cl)
				}
			}
		}
	})
}

// checkTreeErr evaluates the tree as built (decoded forms are compared on the
// plain contexts by checkTree) on the contexts with unreadable facts; with
// plainToo also on the plain contexts (trees checkTree cannot take: depth 3 is
// beyond what the codecs accept).
func (m *matchWorld) checkTreeErr(t mtree, plainToo bool, report func(matchFail)) int {
	n := 0
	if plainToo {
		bad := 0
		for i, ctx := range m.ctxs {
			got, err := t.real.Match(ctx)
			want := t.ref.holds(m.ws[i])
			n++
			if err != nil || got != want {
				g := fmt.Sprint(got)
				if err != nil {
					g = "error: " + err.Error()
				}
				report(matchFail{Tree: t.s, Ctx: i, CtxS: ctx.String(), Form: "orig", Got: g, Want: fmt.Sprint(want)})
				if bad++; bad >= 2 {
					break
				}
			}
		}
	}
	if !t.hasG {
		return n // asks no question that can fail
	}
	var none, tr, fa, either, ewt, bad int
	for i := 0; i < m.nE; i++ {
		ctx, w := m.ectxs[i], m.ews[i]
		got, err := t.real.Match(ctx)
		allowed := t.ref.eval3(w, false)
		if w.Calling == nil && (w.CallUnreadAll || len(w.CallUnread) > 0) {
			allowed |= t.ref.eval3(w, true)
		}
		bit, g := b2o(got), fmt.Sprint(got)
		if err != nil {
			bit, g = oNone, "error: "+err.Error()
			if got {
				ewt++
			}
		}
		n++
		switch allowed {
		case oNone:
			none++
		case oTrue:
			tr++
		case oFalse:
			fa++
		default:
			either++
		}
		if allowed&bit == 0 {
			report(matchFail{Tree: t.s, Ctx: i, CtxS: ctx.String(), Form: "orig-errctx", Got: g, Want: outcomeNames(allowed)})
			if bad++; bad >= 2 {
				break
			}
		}
	}
	eEvals.Add(none + tr + fa + either)
	eNone.Add(none)
	eTrue.Add(tr)
	eFalse.Add(fa)
	eEither.Add(either)
	eErrWithTrue.Add(ewt)
	return n
}

// deepLeaves: the small leaf set of the depth-3 trees (thorough) - one of each
// failing kind, the entry relation, both constants.
func deepLeaves() []*scond {
	return []*scond{{Op: "group", Sym: "K1"}, {Op: "bygroup", Sym: "K1"}, {Op: "entry"}, {Op: "bool", B: true}, {Op: "bool", B: false}}
}

// depth2 returns all trees of depth exactly 2 over leaves: Not(x), And/Or(x) for
// x of depth 1, And/Or(a,b) over trees of depth <= 1 with at least one of depth 1
// (inner nodes of up to 2 children).
func depth2(leaves []*scond) []*scond {
	d1 := depth1(leaves, 2)
	le1 := append(append([]*scond{}, leaves...), d1...)
	var out []*scond
	for _, x := range d1 {
		out = append(out, &scond{Op: "not", Sub: []*scond{x}})
	}
	for _, op := range []string{"and", "or"} {
		for _, x := range d1 {
			out = append(out, &scond{Op: op, Sub: []*scond{x}})
		}
		for i, a := range le1 {
			for j, b := range le1 {
				if i < len(leaves) && j < len(leaves) {
					continue
				}
				out = append(out, &scond{Op: op, Sub: []*scond{a, b}})
			}
		}
	}
	return out
}

// runMatchDeep (thorough): trees of depth 3 = Not(x), And/Or(x), And/Or(x,l),
// And/Or(l,x) for every x of depth exactly 2 over deepLeaves and every leaf l,
// on every plain and every failing context. Beyond the nesting the codecs
// permit, but Match is defined on any tree a program builds.
func runMatchDeep(r *vk.Run, m *matchWorld, report func(matchFail)) {
	leaves := deepLeaves()
	var lt []mtree
	for _, l := range leaves {
		lt = append(lt, m.mk(l))
	}
	d2 := depth2(leaves)
	r.Parallel(len(d2), func(i int) {
		x := m.mk(d2[i])
		n, k := 0, 0
		n += m.checkTreeErr(m.compose("not", x), true, report)
		k++
		for _, op := range []string{"and", "or"} {
			n += m.checkTreeErr(m.compose(op, x), true, report)
			k++
			for _, l := range lt {
				n += m.checkTreeErr(m.compose(op, x, l), true, report)
				n += m.checkTreeErr(m.compose(op, l, x), true, report)
				k += 2
			}
		}
		deepTrees.Add(k)
		deepEvals.Add(n)
	})
}

func matchErrCoverage(r *vk.Run, m *matchWorld, cov map[string]any) {
	for _, o := range []struct {
		name string
		c    *vk.Counter
	}{{"no-verdict", &eNone}, {"true-despite-unreadable-leaf", &eTrue}, {"false-despite-unreadable-leaf", &eFalse}, {"verdict-or-failure", &eEither}, {"failure-carrying-true", &eErrWithTrue}} {
		if o.c.Get() > 0 {
			r.Outcome("match:errctx:" + o.name)
		}
	}
	cov["match_errctx_contexts"] = m.nE
	cov["match_errctx_evaluations"] = int(eEvals.Get())
	cov["match_errctx_reference_no_verdict"] = int(eNone.Get())
	cov["match_errctx_reference_true_despite_unreadable_leaf"] = int(eTrue.Get())
	cov["match_errctx_reference_false_despite_unreadable_leaf"] = int(eFalse.Get())
	cov["match_errctx_reference_verdict_or_failure"] = int(eEither.Get())
	cov["match_errctx_failures_carrying_true"] = int(eErrWithTrue.Get())
	cov["match_depth3_trees"] = int(deepTrees.Get())
	cov["match_depth3_evaluations"] = int(deepEvals.Get())
}

// ---- in-VM layer: plan "rules-tree2" --------------------------------------------------

// tree2Leaves: one failing leaf about the current contract, one about the calling
// one, the entry relation and the constants (thorough: the second group too, and
// the two hash leaves).
func tree2Leaves(thorough bool) []*scond {
	l := []*scond{{Op: "group", Sym: "G1"}, {Op: "bygroup", Sym: "G1"}, {Op: "entry"}, {Op: "bool", B: true}, {Op: "bool", B: false}}
	if thorough {
		l = append(l, &scond{Op: "group", Sym: "G2"}, &scond{Op: "bygroup", Sym: "G2"}, &scond{Op: "hash", Sym: "B"}, &scond{Op: "byhash", Sym: "B"})
	}
	return l
}

// tree2Cfgs: Rules scope alone; [Allow tree] for every tree of depth exactly 2
// over tree2Leaves that has a group leaf (true / false / no verdict of the tree =
// true / false / FAULT of the check), and [Deny tree; Allow Bool(true)] for every
// such tree over the three leaves that are not constants (a tree without a
// verdict must not let the list go on to the next rule).
func tree2Cfgs(thorough bool) []cfg {
	R := byte(transaction.Rules)
	var out []cfg
	for _, t := range depth2(tree2Leaves(thorough)) {
		if readsGroups(t) {
			out = append(out, cfg{Scope: R, Rules: []srule{{true, t}}})
		}
	}
	small := tree2Leaves(false)[:3]
	if thorough {
		small = tree2Leaves(false)
	}
	for _, t := range depth2(small) {
		if readsGroups(t) {
			out = append(out, cfg{Scope: R, Rules: []srule{{false, t}, {true, &scond{Op: "bool", B: true}}}})
		}
	}
	return out
}

// tree2Chains: quick - the chains of up to 2 steps over {A (no group), B (G1),
// dynamic script, GAS.transfer -> B} plus four 3-step chains (not called by
// entry; member / non-member callers), each with and without ReadStates in its
// last context; thorough - every chain of up to 2 steps (all families) and the
// same 3-step chains.
func tree2Chains(chains []chain, thorough bool) []int {
	in := map[string]bool{"A": true, "B": true, "L": true, "GB": true}
	three := map[string]bool{"A>B>A": true, "B>A>B": true, "B>B>B": true, "A>L>B": true}
	var out []int
	for i, c := range chains {
		if len(c.Muts) > 0 {
			continue
		}
		key := ""
		small := c.family() == "base"
		for k, s := range c.Steps {
			if k > 0 {
				key += ">"
			}
			key += s
			small = small && in[s]
		}
		switch {
		case len(c.Steps) <= 2 && (small || thorough):
			out = append(out, i)
		case len(c.Steps) == 3 && c.family() == "base" && three[key]:
			out = append(out, i)
		}
	}
	return out
}
