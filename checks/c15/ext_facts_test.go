package c15

// Extension "facts": the facts scopes are evaluated over CHANGE DURING THE
// EXECUTION. The property says rule conditions are evaluated "over the real
// calling and current contracts, their groups", the custom-groups scope over
// "contracts of listed groups": the groups a contract has are the groups of its
// manifest in ContractManagement at the moment of the check (what
// ContractManagement.getContract would answer then; a destroyed contract has
// none). A contract of the chain
//
//   - replaces its manifest groups (ContractManagement.update with the same
//     manifest and another, validly signed `groups` list; the hash stays),
//   - destroys itself (ContractManagement.destroy),
//   - does one of the two and then throws, the exception being caught by the
//     contract that called it (the change is rolled back),
//
// and every signer configuration is asked for before the change, after it in the
// SAME context, in every context loaded BEFORE the change (the callers, after
// the call returns; this includes an older context of the changed contract
// itself when it was changed by a callee: X>Y>X), and in every context loaded
// AFTER the change (fresh calls, including the changed contract calling itself
// and a dynamic script it loads).
//
// Oracles: (1) the reference predicate of pred_test.go over the facts of the
// moment; (2) "agreement": in one context at one moment `Allow Group(G)`,
// the CustomGroups{G} scope and - seen from the context called next -
// `Allow CalledByGroup(G)` give the same answer (needs no model of the facts);
// (3) harness validation: the model's facts are what the execution's own DAO
// holds at every check (ic.GetContract), so a disagreement of (1) is never the
// model's misunderstanding of update/destroy/rollback.

import (
	"encoding/json"
	"fmt"
	"sort"
	"strings"

	"github.com/nspcc-dev/neo-go/pkg/core/interop"
	"github.com/nspcc-dev/neo-go/pkg/core/native/nativehashes"
	"github.com/nspcc-dev/neo-go/pkg/core/transaction"
	"github.com/nspcc-dev/neo-go/pkg/smartcontract/callflag"
	"github.com/nspcc-dev/neo-go/pkg/smartcontract/manifest"
	"github.com/nspcc-dev/neo-go/pkg/util"

	"verif/lib/chainx"
)

const afterChange = "+chg" // label suffix of the checks repeated right after a change

// mutation: the contract of frame At changes its own facts after its first round
// of checks and before it calls the next step of the chain.
type mutation struct {
	At    int      `json:"at"`              // frame index (1-based step; frame 0 is the entry script)
	Kind  string   `json:"kind"`            // "upd" | "destroy"
	To    []string `json:"to,omitempty"`    // upd: the new manifest groups (names of group keys)
	Throw bool     `json:"throw,omitempty"` // the frame throws after the checks following the change; its caller catches
}

func (m mutation) String() string {
	s := fmt.Sprintf("{@%d:%s", m.At, m.Kind)
	if m.Kind == "upd" {
		s += "=" + setName(m.To)
	}
	if m.Throw {
		s += ",throw"
	}
	return s + "}"
}

func setName(g []string) string {
	if len(g) == 0 {
		return "-"
	}
	return strings.Join(g, "+")
}

// facts: contract hash -> compressed group keys of its manifest (non-nil, possibly
// empty); a hash that is absent is not a deployed contract (any more).
type facts map[util.Uint160][]string

func (f facts) with(h util.Uint160, g []string, present bool) facts {
	n := facts{}
	for k, v := range f {
		n[k] = v
	}
	if present {
		n[h] = append([]string{}, g...)
	} else {
		delete(n, h)
	}
	return n
}

// factsBuilder is the part of the chain builder that follows the facts in
// execution order (expectations are appended in execution order).
type factsBuilder struct {
	useFacts   bool
	cur        facts
	seg        int
	last       *mutation // the latest change applied
	rolledBack bool
	saved      []facts
}

func (bl *builder) initFacts() error {
	c := bl.b.Chain
	if len(c.Muts) == 0 {
		return nil
	}
	bl.useFacts = true
	bl.cur = facts{}
	for name, h := range bl.w.base.H {
		if _, ok := bl.w.U[name]; ok {
			bl.cur[h] = append([]string{}, bl.w.group[name]...)
		}
	}
	// what the enumeration promises
	seen := map[int]bool{}
	for i, m := range c.Muts {
		if m.At < 1 || m.At >= len(bl.b.Frames) || seen[m.At] {
			return fmt.Errorf("mutation %s: no such frame", m)
		}
		seen[m.At] = true
		f := bl.b.Frames[m.At]
		if k := f.Kind; k != "A" && k != "B" && k != "C" || f.Eff != callflag.All {
			return fmt.Errorf("mutation %s: frame cannot change itself", m)
		}
		if m.Throw && (m.At != len(bl.b.Frames)-1 || m.At < 2 || !bl.b.Frames[m.At-1].isU() || i != len(c.Muts)-1) {
			return fmt.Errorf("mutation %s: a throwing frame must be the last one and be called by a contract", m)
		}
	}
	return nil
}

func (bl *builder) enter(i int) {
	if bl.useFacts {
		bl.b.Frames[i].Loaded = bl.cur
	}
}

func (bl *builder) expect(i int, q query) {
	e := expect{Frame: i, Q: q}
	if bl.useFacts {
		e.Facts, e.Seg = bl.cur, bl.seg
		switch {
		case bl.rolledBack:
			e.Rel = "after-rollback"
		case bl.last == nil:
			e.Rel = "before"
		case i == bl.last.At:
			e.Rel = bl.last.Kind + ":same-context-after"
		case i < bl.last.At:
			e.Rel = bl.last.Kind + ":older-context-after"
		default:
			e.Rel = bl.last.Kind + ":fresh-context-after"
		}
		if bl.last != nil && bl.last.Throw && !bl.rolledBack {
			e.Rel += "(to be rolled back)"
		}
	}
	bl.b.Expect = append(bl.b.Expect, e)
}

func (bl *builder) mutAt(i int) *mutation {
	for k := range bl.b.Chain.Muts {
		if bl.b.Chain.Muts[k].At == i {
			return &bl.b.Chain.Muts[k]
		}
	}
	return nil
}

// mutOp: the program step of contract f that performs the change.
func (bl *builder) mutOp(f *frame, m *mutation) []any {
	mg := nativehashes.ContractManagement.BytesBE()
	if m.Kind == "destroy" {
		return []any{chainx.OpCall, mg, "destroy", int(callflag.All), []any{}}
	}
	mf, err := bl.w.manifestWith(f.Kind, m.To)
	if err != nil {
		bl.err = err
	}
	// update(nef = null: unchanged, manifest)
	return []any{chainx.OpCall, mg, "update", int(callflag.All), []any{nil, mf}}
}

func (bl *builder) apply(f *frame, m *mutation) {
	if m.Kind == "destroy" {
		bl.cur = bl.cur.with(f.Hash, nil, false)
	} else {
		var g []string
		for _, name := range m.To {
			g = append(g, bl.w.base.K[name].StringCompressed())
		}
		bl.cur = bl.cur.with(f.Hash, g, true)
	}
	bl.last = m
	bl.seg++
}

// beforeCall/afterCall bracket the call of frame `next`; undo: the callee throws
// after its change, the caller wraps the call into try/catch.
func (bl *builder) beforeCall(next int) (undo bool) {
	if !bl.useFacts {
		return false
	}
	bl.seg++
	if m := bl.mutAt(next); m != nil && m.Throw {
		bl.saved = append(bl.saved, bl.cur)
		return true
	}
	return false
}

func (bl *builder) afterCall(undo bool) {
	if !bl.useFacts {
		return
	}
	bl.seg++
	if undo {
		bl.cur = bl.saved[len(bl.saved)-1]
		bl.saved = bl.saved[:len(bl.saved)-1]
		bl.rolledBack = true
	}
}

// groupsOf: the groups of the script of frame f at the moment of check e.
func (e *expect) groupsOf(f *frame) []string {
	if e.Facts == nil {
		return f.Groups
	}
	return e.Facts[f.Hash]
}

// dependsOnChange: would the verdict be another one over the groups the two
// contracts had when their contexts were loaded? (counts the cells in which a
// stale view of the facts is visible)
func (e *expect) dependsOnChange(b *built, ref []signer, acc util.Uint160, want bool) bool {
	f := b.Frames[e.Frame]
	w := where{Current: party{Hash: f.Hash, Groups: f.Loaded[f.Hash]}, ByEntry: e.Frame <= 1}
	if e.Frame > 0 {
		c := b.Frames[e.Frame-1]
		w.Calling = &party{Hash: c.Hash, Groups: c.Loaded[c.Hash]}
	}
	return witnessed(ref, w, acc) != want
}

// storedGroups: the manifest groups ContractManagement holds for h as seen by
// the running execution; nil if there is no such contract.
func storedGroups(ic *interop.Context, h util.Uint160) []string {
	cs, err := ic.GetContract(h)
	if err != nil || cs == nil {
		return nil
	}
	out := []string{}
	for _, g := range cs.Manifest.Groups {
		out = append(out, g.PublicKey.StringCompressed())
	}
	return out
}

func groupList(g []string) string {
	if g == nil {
		return "no-contract"
	}
	s := append([]string{}, g...)
	sort.Strings(s)
	for i := range s {
		s[i] = s[i][:8]
	}
	return "[" + strings.Join(s, ",") + "]"
}

// manifestWith: the manifest of the deployed U instance `name` with the groups
// replaced (a group is valid iff it carries the group key's signature of the
// contract hash, which an update does not change).
func (w *world) manifestWith(name string, to []string) ([]byte, error) {
	key := name + "/" + setName(to)
	if b, ok := w.mfst[key]; ok {
		return b, nil
	}
	c := w.U[name]
	if c == nil {
		return nil, fmt.Errorf("manifestWith: no contract %s", name)
	}
	raw, err := json.Marshal(c.Manifest)
	if err != nil {
		return nil, err
	}
	m := new(manifest.Manifest)
	if err := json.Unmarshal(raw, m); err != nil {
		return nil, err
	}
	m.Groups = []manifest.Group{}
	for _, g := range to {
		var idx int
		if _, err := fmt.Sscanf(g[1:], "%d", &idx); err != nil || g[0] != 'G' && g[0] != 'M' {
			return nil, fmt.Errorf("manifestWith: bad group name %q", g)
		}
		k := chainx.Acc(groupBase + idx - 1).PrivateKey()
		if g[0] == 'M' { // round 6: the mirror key of G<idx>
			if k, err = mirrorPriv(k); err != nil {
				return nil, err
			}
		}
		m.Groups = append(m.Groups, manifest.Group{PublicKey: k.PublicKey(), Signature: k.Sign(c.Hash.BytesBE())})
	}
	if err := m.IsValid(c.Hash, true); err != nil {
		return nil, fmt.Errorf("manifestWith %s: %w", key, err)
	}
	out, err := json.Marshal(m)
	if err != nil {
		return nil, err
	}
	if w.mfst == nil {
		w.mfst = map[string][]byte{}
	}
	w.mfst[key] = out
	return out, nil
}

// ---- enumeration ----------------------------------------------------------------------

var (
	factsContracts = []string{"A", "B", "C"}
	factsSets      = [][]string{{}, {"G1"}, {"G2"}, {"G1", "G2"}}
	initialSet     = map[string][]string{"A": {}, "B": {"G1"}, "C": {"G1", "G2"}}
	// round 6: a contract replaces a group key by its mirror key / adds the mirror key (M1 = mirror of G1)
	factsMirrorSets = [][]string{{"M1"}, {"G1", "M1"}}
)

// factsChains: entry script + up to 3 steps over {A, B(G1), C(G1,G2)}, one
// contract of the chain changing its facts (every other group set / destroy),
// plain or thrown-and-caught (last frame, called by a contract); a dynamic
// script loaded by the last contract where the chain has room for it.
//
//	quick:    3-step chains only if the changing contract occurs twice in the chain
//	          (re-entrance: an older context of the changed contract exists or a
//	          fresh one is made); two changes only in X>X (both by the same contract)
//	thorough: all 3-step chains, updates to the SAME set (control), every pair of
//	          changes at two different frames
func factsChains(thorough, haveF bool) []chain {
	var out []chain
	nSteps := 0
	targets := func(cur []string, present bool) []mutation {
		var ms []mutation
		if !present {
			return nil
		}
		sets := factsSets
		if thorough || nSteps <= 2 {
			sets = append(append([][]string{}, sets...), factsMirrorSets[:1+b2i(haveF)]...) // round 6 (a key next to its mirror only if the subject accepts such manifests at all)
		}
		for _, s := range sets {
			if setName(s) == setName(cur) && !thorough {
				continue
			}
			ms = append(ms, mutation{Kind: "upd", To: s})
		}
		return append(ms, mutation{Kind: "destroy"})
	}
	// valid: no step enters a destroyed contract
	laterUse := func(steps []string, p int) bool {
		for _, s := range steps[p:] {
			if s == steps[p-1] {
				return true
			}
		}
		return false
	}
	seqs(factsContracts, 3, func(steps []string) {
		n := len(steps)
		if n == 0 {
			return
		}
		nSteps = n
		for p := 1; p <= n; p++ {
			x := steps[p-1]
			if n == 3 && !thorough && countStep(steps, x) < 2 {
				continue
			}
			for _, m := range targets(initialSet[x], true) {
				m.At = p
				if !(m.Kind == "destroy" && laterUse(steps, p)) {
					out = append(out, chain{Steps: steps, Muts: []mutation{m}})
					if p == n && n < 3 {
						out = append(out, chain{Steps: append(append([]string{}, steps...), "L"), Muts: []mutation{m}})
					}
				}
				if p == n && p >= 2 {
					t := m
					t.Throw = true
					out = append(out, chain{Steps: steps, Muts: []mutation{t}})
				}
				// a second change at a deeper frame
				if m.Kind == "destroy" && laterUse(steps, p) {
					continue
				}
				for q := p + 1; q <= n; q++ {
					y := steps[q-1]
					if !thorough && !(n == 2 && x == y) {
						continue
					}
					cur, present := initialSet[y], true
					if y == x {
						cur, present = m.To, m.Kind != "destroy"
					}
					for _, m2 := range targets(cur, present) {
						m2.At = q
						if m2.Kind == "destroy" && laterUse(steps, q) {
							continue
						}
						out = append(out, chain{Steps: steps, Muts: []mutation{m, m2}})
						if q == n && q >= 2 {
							t := m2
							t.Throw = true
							out = append(out, chain{Steps: steps, Muts: []mutation{m, t}})
						}
					}
				}
			}
		}
	})
	sort.SliceStable(out, func(i, j int) bool {
		if len(out[i].Muts) != len(out[j].Muts) {
			return len(out[i].Muts) < len(out[j].Muts)
		}
		return len(out[i].Steps) < len(out[j].Steps)
	})
	return out
}

// factsCfgs: signer configurations that read groups (and a few that must not
// care). M is the (first) changing contract. The first six are the ones the
// agreement oracle pairs; they share the first transaction.
func factsCfgs(thorough bool) []cfg {
	CBE, CC, CG, R := byte(transaction.CalledByEntry), byte(transaction.CustomContracts), byte(transaction.CustomGroups), byte(transaction.Rules)
	l := func(op, sym string) *scond { return &scond{Op: op, Sym: sym} }
	not := func(c *scond) *scond { return &scond{Op: "not", Sub: []*scond{c}} }
	and := func(c ...*scond) *scond { return &scond{Op: "and", Sub: c} }
	or := func(c ...*scond) *scond { return &scond{Op: "or", Sub: c} }
	entry, yes := &scond{Op: "entry"}, &scond{Op: "bool", B: true}
	allow := func(c *scond) []srule { return []srule{{true, c}} }
	out := []cfg{
		{Scope: CG, AG: []string{"G1"}},
		{Scope: CG, AG: []string{"G2"}},
		{Scope: R, Rules: allow(l("group", "G1"))},
		{Scope: R, Rules: allow(l("group", "G2"))},
		{Scope: R, Rules: allow(l("bygroup", "G1"))},
		{Scope: R, Rules: allow(l("bygroup", "G2"))},
		{Scope: CC, AC: []string{"M"}},
		{Scope: CBE},
		{Scope: R, Rules: allow(not(l("group", "G1")))},
		{Scope: R, Rules: allow(not(l("bygroup", "G2")))},
		{Scope: R, Rules: allow(and(l("group", "G1"), l("group", "G2")))},
		{Scope: R, Rules: allow(or(l("group", "G2"), l("bygroup", "G1")))},
		{Scope: R, Rules: allow(and(l("hash", "M"), not(l("group", "G2"))))},
		{Scope: R, Rules: allow(and(l("byhash", "M"), l("bygroup", "G1")))},
		{Scope: R, Rules: []srule{{false, l("group", "G1")}, {true, yes}}},
		// second transaction
		{Scope: R, Rules: []srule{{false, l("bygroup", "G2")}, {true, entry}}},
		{Scope: R, Rules: []srule{{false, not(l("group", "G2"))}, {true, l("bygroup", "G1")}}},
		{Scope: CG | CC, AC: []string{"M"}, AG: []string{"G2"}},
		{Scope: CBE | CG, AG: []string{"G1"}},
		{Scope: CG | R, AG: []string{"G2"}, Rules: allow(l("bygroup", "G1"))},
		{Scope: CG, AG: []string{"G1", "G2"}},
		{Scope: CG, AG: []string{"G3"}},
		{Scope: R, Rules: allow(or(not(l("group", "G1")), l("bygroup", "G1")))},
		{Scope: R, Rules: allow(and(entry, l("group", "G1")))},
		{Scope: R, Rules: allow(and(not(entry), l("bygroup", "G2")))},
		{Scope: R, Rules: []srule{{false, and(l("group", "G1"), l("bygroup", "G1"))}, {true, or(l("group", "G1"), l("bygroup", "G1"))}}},
		{Scope: R, Rules: allow(and(l("byhash", "M"), not(l("bygroup", "G1")), not(l("bygroup", "G2"))))},
		{Scope: R, Rules: []srule{{true, l("group", "G2")}, {false, l("group", "G1")}, {true, l("bygroup", "G1")}}},
		{Scope: R, Rules: allow(l("group", "G3"))},
		{Scope: byte(transaction.Global)},
		// third transaction (round 6): the same questions asked in mirror keys (M<i> = mirror key of G<i>) and
		// in the byte-reversed hash of the changing contract
		{Scope: CG, AG: []string{"M1"}},
		{Scope: R, Rules: allow(l("group", "M1"))},
		{Scope: R, Rules: allow(l("bygroup", "M1"))},
		{Scope: R, Rules: []srule{{false, l("group", "M1")}, {true, yes}}},
		{Scope: R, Rules: []srule{{false, l("bygroup", "M1")}, {true, yes}}},
		{Scope: CG, AG: []string{"G1", "M1"}},
		{Scope: CG, AG: []string{"M1", "G2"}},
		{Scope: R, Rules: allow(not(l("group", "M1")))},
		{Scope: R, Rules: allow(and(l("group", "G1"), not(l("group", "M1"))))},
		{Scope: R, Rules: allow(or(l("group", "M1"), l("bygroup", "M1")))},
		{Scope: R, Rules: []srule{{true, l("group", "M1")}, {false, l("group", "G1")}, {true, yes}}},
		{Scope: CG, AG: []string{"M2"}},
		{Scope: R, Rules: allow(l("group", "M2"))},
		{Scope: CC, AC: []string{"rM"}},
		{Scope: R, Rules: allow(or(l("hash", "rM"), l("byhash", "rM")))},
	}
	if thorough {
		// every single rule over every tree of depth <= 1 over the leaves that read the facts
		leaves := []*scond{l("group", "G1"), l("group", "G2"), l("bygroup", "G1"), l("bygroup", "G2"), l("hash", "M"), l("byhash", "M"), entry, yes}
		out = append(out, singleRulePlanCfgs([]cfg{{Scope: R}}, rulesOf(append(append([]*scond{}, leaves...), depth1(leaves, 2)...)))...)
		// the custom-groups scope combined with every other bit
		for _, s := range scopeValues() {
			if transaction.WitnessScope(s)&transaction.CustomGroups == 0 || s == CG {
				continue
			}
			for _, ag := range agSets {
				out = append(out, cfg{Scope: s, AC: []string{"M"}, AG: ag, Rules: allow(l("bygroup", "G2"))})
			}
		}
	}
	return out
}

// ---- the agreement oracle -----------------------------------------------------------------

// agreementRole: the configurations that ask exactly one question about one group.
func agreementRole(c cfg) string {
	sc := transaction.WitnessScope(c.Scope)
	if sc == transaction.CustomGroups && len(c.AG) == 1 {
		return "CustomGroups:" + c.AG[0]
	}
	if sc == transaction.Rules && len(c.Rules) == 1 && c.Rules[0].Allow {
		switch k := c.Rules[0].C; k.Op {
		case "group":
			return "Group:" + k.Sym
		case "bygroup":
			return "CalledByGroup:" + k.Sym
		}
	}
	return ""
}

// judgeAgreement: the three ways of asking whether a contract is in group G
// agree with each other in the same context at the same moment: the Group(G)
// condition and the CustomGroups{G} scope about the current contract; the
// CalledByGroup(G) condition at the start of the next context and the Group(G)
// condition asked by the calling contract right before the call.
func judgeAgreement(b *built, cfgs []cfg, trace []obs) []mismatch {
	if len(b.Chain.Muts) == 0 || len(trace) != len(b.Expect) {
		return nil
	}
	type cell struct {
		frame int
		res   map[string]int
		rel   string
	}
	segs := map[int]*cell{}
	first := map[int]int{} // frame -> its first segment
	for k, e := range b.Expect {
		if _, ok := first[e.Frame]; !ok {
			first[e.Frame] = e.Seg
		}
		if e.Slot < 0 || e.Slot >= len(cfgs) {
			continue
		}
		role := agreementRole(cfgs[e.Slot])
		if role == "" {
			continue
		}
		c := segs[e.Seg]
		if c == nil {
			c = &cell{frame: e.Frame, res: map[string]int{}, rel: e.Rel}
			segs[e.Seg] = c
		}
		c.res[role] = trace[k].Res
	}
	var order []int
	for s := range segs {
		order = append(order, s)
	}
	sort.Ints(order)
	var out []mismatch
	for _, s := range order {
		c := segs[s]
		for _, g := range []string{"G1", "G2", "M1"} {
			a, ok1 := c.res["Group:"+g]
			x, ok2 := c.res["CustomGroups:"+g]
			if ok1 && ok2 && a != x {
				out = append(out, mismatch{What: "group-answers-disagree", Frame: c.frame, Query: fmt.Sprintf("Group(%s)~CustomGroups(%s)@%s", g, g, c.rel), Slot: -1,
					Got: "Group-" + resName(a), Want: "CustomGroups-" + resName(x), Where: fmt.Sprintf("in %s at depth %d, %s", b.Frames[c.frame].Kind, c.frame, c.rel)})
			}
			// seen from the callee
			if c.frame+1 < len(b.Frames) && first[c.frame+1] == s+1 {
				if n := segs[s+1]; n != nil && n.frame == c.frame+1 {
					y, ok3 := n.res["CalledByGroup:"+g]
					if ok1 && ok3 && a != y {
						out = append(out, mismatch{What: "group-answers-disagree", Frame: n.frame, Query: fmt.Sprintf("CalledByGroup(%s)~caller's-Group(%s)@%s", g, g, n.rel), Slot: -1,
							Got: "CalledByGroup-" + resName(y), Want: "Group-" + resName(a), Where: fmt.Sprintf("in %s called by %s at depth %d, %s", b.Frames[n.frame].Kind, b.Frames[c.frame].Kind, n.frame, n.rel)})
					}
				}
			}
		}
	}
	return out
}

// agreementPairs counts the comparisons judgeAgreement makes on a chain (evidence).
func agreementPairs(b *built, cfgs []cfg) int {
	roles := map[string]bool{}
	for _, c := range cfgs {
		roles[agreementRole(c)] = true
	}
	for _, r := range []string{"Group:G1", "Group:G2", "CustomGroups:G1", "CustomGroups:G2", "CalledByGroup:G1", "CalledByGroup:G2"} {
		if !roles[r] {
			return 0
		}
	}
	segs := map[int]int{}
	first := map[int]int{}
	for _, e := range b.Expect {
		if _, ok := first[e.Frame]; !ok {
			first[e.Frame] = e.Seg
		}
		segs[e.Seg] = e.Frame
	}
	n := 0
	for s, f := range segs {
		n += 2
		if nf, ok := segs[s+1]; ok && nf == f+1 && first[nf] == s+1 {
			n += 2
		}
	}
	return n
}
