package c15

// Extension "identity": call chains in which several CONTEXTS share one script
// hash, so that an implementation deciding the entry relation / the calling
// contract by comparing hashes instead of walking the real chain of contexts
// gives a different answer than the property's predicate (which is evaluated
// over chain POSITIONS, see judge()).
//
//   - step "S": System.Runtime.LoadScript of a script byte-identical to the
//     ENTRY script. The entry script is polymorphic: with an empty stack it runs
//     the entry body, loaded with argument k it runs the body of the k-th copy.
//     Every context takes the bytes from System.Runtime.GetScriptContainer
//     (field 7 of the transaction), so nothing contains itself.
//   - step "T": the same for ONE shared dynamic script that is not the entry: the
//     first T is loaded as a literal and gets its own bytes as an argument (kept
//     in static slot 0), later T steps are copies of it (T>T: calling == current
//     for a script without manifest, T>A>T: the same script twice in a chain).
//   - Entry "V"/"W": the chain starts in the Verification trigger with the
//     `verify` method of a DEPLOYED contract (blockchain.InitVerificationContext),
//     so that the entry context is a contract with a manifest (W has group G2, V
//     has none) that can appear again deeper in the chain (W>W>W: current ==
//     entry hash at depth 2 without being called by entry).
//
// A loaded script byte-identical to a deployed contract's script does NOT share
// the contract's hash in this protocol (contract hash = H(sender, NEF checksum,
// name), dynamic script hash = H(script)); that case of the lead's list is
// therefore not a hash collision and is not part of the space.

import (
	"encoding/json"
	"fmt"
	"sync"

	"github.com/nspcc-dev/neo-go/pkg/compiler"
	"github.com/nspcc-dev/neo-go/pkg/core/state"
	"github.com/nspcc-dev/neo-go/pkg/crypto/hash"
	"github.com/nspcc-dev/neo-go/pkg/neotest"
	"github.com/nspcc-dev/neo-go/pkg/smartcontract/manifest"
	"github.com/nspcc-dev/neo-go/pkg/util"

	"verif/lib/chainx"
)

// wSource: the part of the universal contract U this check uses (same op codes,
// same `run` interface), plus a `verify(prog)` that interprets a program too.
const wSource = `package wcontract

import (
	"github.com/nspcc-dev/neo-go/pkg/interop"
	"github.com/nspcc-dev/neo-go/pkg/interop/contract"
	"github.com/nspcc-dev/neo-go/pkg/interop/runtime"
)

const (
	opCall         = 6  // [6, hash, method, flags, args]
	opCheckWitness = 10 // [10, hashOrKey]
	opLoadScript   = 11 // [11, script, flags, args]
	opRun          = 13 // [13, hash, flags, prog]
)

var log []any

func Run(prog []any) []any {
	log = []any{}
	exec(prog)
	return log
}

func Verify(prog []any) bool {
	log = []any{}
	exec(prog)
	return true
}

func exec(prog []any) {
	for i := 0; i < len(prog); i++ {
		op := prog[i].([]any)
		code := op[0].(int)
		if code == opCall {
			args := op[4].([]any)
			res := contract.Call(op[1].(interop.Hash160), op[2].(string), contract.CallFlag(op[3].(int)), args...)
			log = append(log, res)
		} else if code == opCheckWitness {
			log = append(log, runtime.CheckWitness(op[1].([]byte)))
		} else if code == opLoadScript {
			args := op[3].([]any)
			res := runtime.LoadScript(op[1].([]byte), contract.CallFlag(op[2].(int)), args...)
			log = append(log, res)
		} else if code == opRun {
			saved := log
			res := contract.Call(op[1].(interop.Hash160), "run", contract.CallFlag(op[2].(int)), op[3])
			log = append(saved, res)
		} else {
			panic("bad op")
		}
	}
}
`

var (
	wOnce sync.Once
	wBase *neotest.Contract
	wErr  error
)

// compileW returns contract W prepared for deployment under the given name.
func compileW(name string, sender util.Uint160, groups []manifest.Group) (*neotest.Contract, error) {
	wOnce.Do(func() {
		wBase, wErr = chainx.CompileSource([]byte(wSource), &compiler.Options{
			Name:               "W",
			NoEventsCheck:      true,
			NoPermissionsCheck: true,
			NoStandardCheck:    true,
			Permissions:        []manifest.Permission{*manifest.NewPermission(manifest.PermissionWildcard)},
		})
	})
	if wErr != nil {
		return nil, fmt.Errorf("compile W: %w", wErr)
	}
	mb, err := json.Marshal(wBase.Manifest)
	if err != nil {
		return nil, err
	}
	m := new(manifest.Manifest)
	if err := json.Unmarshal(mb, m); err != nil {
		return nil, err
	}
	m.Name = name
	if groups != nil {
		m.Groups = groups
	}
	return &neotest.Contract{
		Hash:      state.CreateContractHash(sender, wBase.NEF.Checksum, m.Name),
		NEF:       wBase.NEF,
		Manifest:  m,
		DebugInfo: wBase.DebugInfo,
	}, nil
}

// ---- chain enumeration -----------------------------------------------------------------

func countStep(steps []string, s string) int {
	n := 0
	for _, x := range steps {
		if x == s {
			n++
		}
	}
	return n
}

// family of a chain (for the evidence counters).
func (c chain) family() string {
	switch {
	case len(c.Muts) > 1:
		return "facts-two-changes"
	case len(c.Muts) == 1 && c.Muts[0].Throw:
		return "facts-rolled-back"
	case len(c.Muts) == 1 && c.Muts[0].Kind == "destroy":
		return "facts-destroy"
	case len(c.Muts) == 1:
		return "facts-update"
	case isMirrorChain(c):
		return "mirror"
	case c.Entry != "":
		return "verify-entry"
	case countStep(c.Steps, "S") > 0:
		return "twin-of-entry"
	case countStep(c.Steps, "T") > 0:
		return "twin-dynamic"
	}
	return "base"
}

func seqs(alphabet []string, maxLen int, f func([]string)) {
	var rec func(pre []string)
	rec = func(pre []string) {
		f(append([]string{}, pre...))
		if len(pre) == maxLen {
			return
		}
		for _, s := range alphabet {
			rec(append(pre, s))
		}
	}
	rec(nil)
}

// identityChains: the chains of the extension, shortest first.
//
//	twin:   entry script + up to 3 steps over others+{S,T} with at least one S or
//	        at least two T (one T alone is the same thing as L)
//	verify: entry W.verify + up to 3 steps over wSteps, entry V.verify + up to
//	        vLen steps over vSteps
func identityChains(thorough bool) []chain {
	others := []string{"A", "B", "L"}
	wSteps, vSteps, vLen := []string{"W", "B", "L"}, []string{"V", "B", "L"}, 2
	if thorough {
		others = []string{"A", "B", "C", "L"}
		wSteps, vSteps, vLen = []string{"W", "V", "B", "L"}, []string{"V", "W", "B", "L"}, 3
	}
	var out []chain
	add := func(c chain) {
		for _, nors := range []bool{false, true} {
			c.NoRS = nors
			if c.possible() {
				out = append(out, c)
			}
		}
	}
	seqs(append(append([]string{}, others...), "S", "T"), 3, func(s []string) {
		nS, nT := countStep(s, "S"), countStep(s, "T")
		if nT == 1 || nS == 0 && nT == 0 {
			return
		}
		add(chain{Steps: s})
	})
	seqs(wSteps, 3, func(s []string) { add(chain{Steps: s, Entry: "W"}) })
	seqs(vSteps, vLen, func(s []string) { add(chain{Steps: s, Entry: "V"}) })
	return out
}

// identityTags: which hash coincidences between DIFFERENT contexts exist at
// level i of the chain (the model's frames; hashes are final).
func identityTags(fr []*frame, i int) string {
	if i == 0 {
		return ""
	}
	t := ""
	if fr[i].Hash == fr[0].Hash {
		t += "+cur=entry"
	}
	if i >= 2 && fr[i-1].Hash == fr[0].Hash {
		t += "+caller=entry"
	}
	if fr[i].Hash == fr[i-1].Hash {
		t += "+cur=caller"
	}
	for j := 1; j < i-1; j++ {
		if fr[j].Hash == fr[i].Hash {
			t += "+repeated"
			break
		}
	}
	return t
}

// markerAccount: an account nobody signs for, different for every level; the
// chains of the extension ask for it first at every level so that the recorded
// arguments prove WHICH body of a polymorphic script ran.
func markerAccount(level int) util.Uint160 {
	return hash.Hash160([]byte(fmt.Sprintf("verif-c15-level-%d", level)))
}
