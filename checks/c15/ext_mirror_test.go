package c15

// Extension "mirror" (round 6): IDENTITY of the values scopes are written in.
//
// A signer names groups by public keys and contracts by script hashes; "inside
// ... contracts of listed groups" holds only for the very key that is listed.
// The menus of the other families take distinct keys from distinct accounts,
// which never collide in anything: they cannot tell an implementation comparing
// whole keys from one comparing a part of them. Here every group key P that a
// contract carries gets its MIRROR key -P (same X coordinate, opposite Y; a
// valid curve point whose compressed encoding differs from P's in the prefix
// byte only), and every script hash its byte-reversed twin (the same 20 bytes
// read in the other byte order):
//
//   - contracts D (group -G1 only) and F (groups G1 AND -G1) next to A (none),
//     B (G1), C (G1, G2);
//   - signers whose CustomGroups / Group / CalledByGroup name -G1, -G2, both a
//     key and its mirror, a mirror next to an unrelated key; CustomContracts /
//     ScriptHash / CalledByContract naming byte-reversed hashes of the contracts,
//     of GAS, of the entry script and of the dynamic script of the chain;
//   - every level of every chain additionally asks for the byte-reversed hash of
//     its calling contract and for the account of the mirror key of a signer's key
//     (vm_test.go, queries): neither is witnessed.
//
// The reference compares keys by their 33-byte encodings and hashes as 20-byte
// arrays (pred_test.go); nothing of the subject's comparison code is used.

import (
	"crypto/elliptic"
	"fmt"
	"math/big"

	"github.com/nspcc-dev/neo-go/pkg/core/transaction"
	"github.com/nspcc-dev/neo-go/pkg/crypto/keys"
	"github.com/nspcc-dev/neo-go/pkg/smartcontract/manifest"
	"github.com/nspcc-dev/neo-go/pkg/util"

	"verif/lib/chainx"
)

// mirrorPub: the point -P.
func mirrorPub(p *keys.PublicKey) *keys.PublicKey {
	y := new(big.Int).Sub(elliptic.P256().Params().P, p.Y)
	return &keys.PublicKey{Curve: p.Curve, X: new(big.Int).Set(p.X), Y: y}
}

// mirrorPriv: the private key of -P (n - d).
func mirrorPriv(k *keys.PrivateKey) (*keys.PrivateKey, error) {
	d := new(big.Int).Sub(elliptic.P256().Params().N, k.D)
	m, err := keys.NewPrivateKeyFromBytes(d.FillBytes(make([]byte, 32)))
	if err != nil {
		return nil, err
	}
	// the harness's own idea of a mirror key, checked on encodings only
	a, b := k.PublicKey().Bytes(), m.PublicKey().Bytes()
	if len(a) != 33 || len(b) != 33 || string(a[1:]) != string(b[1:]) || a[0]^b[0] != 1 || string(mirrorPub(k.PublicKey()).Bytes()) != string(b) {
		return nil, fmt.Errorf("mirror key of %x is not %x", a, b)
	}
	return m, nil
}

func reversedHash(h util.Uint160) util.Uint160 {
	var r util.Uint160
	for i := range h {
		r[i] = h[len(h)-1-i]
	}
	return r
}

// addReversedTwins: for every hash symbol S the symbol rS = the same bytes in the other order.
func addReversedTwins(m map[string]util.Uint160) {
	var ks []string
	for k := range m {
		if len(k) > 0 && k[0] != 'r' {
			ks = append(ks, k)
		}
	}
	for _, k := range ks {
		m["r"+k] = reversedHash(m[k])
	}
}

// deployMirrorContracts: D carries only the mirror key of G1, F carries G1 and
// its mirror key. A manifest lists DISTINCT keys, and the two are distinct keys;
// if F is refused all the same, the chains through F are left out (noted, counted)
// and everything else still runs.
func (w *world) deployMirrorContracts(gk []*keys.PrivateKey, sender util.Uint160) error {
	n := w.n
	for _, d := range []struct {
		name     string
		groups   []int
		optional bool
	}{{"D", []int{3}, false}, {"F", []int{0, 3}, true}} {
		err := func() error {
			c, err := chainx.CompileU(chainx.UVariant{Name: "U" + d.name, Sender: sender})
			if err != nil {
				return err
			}
			var gs []manifest.Group
			var names []string
			for _, g := range d.groups {
				gs = append(gs, manifest.Group{PublicKey: gk[g].PublicKey(), Signature: gk[g].Sign(c.Hash.BytesBE())})
				names = append(names, gk[g].PublicKey().StringCompressed())
			}
			if c, err = chainx.CompileU(chainx.UVariant{Name: "U" + d.name, Sender: sender, Groups: gs}); err != nil {
				return err
			}
			var tx *transaction.Transaction
			if e := chainx.Try(func() { tx, err = n.DeployTx(c, n.Validator, nil) }); e != nil {
				err = e
			}
			if err != nil {
				return err
			}
			if _, err := n.AddBlock(tx); err != nil {
				return err
			}
			if err := n.CheckHalt(tx.Hash()); err != nil {
				return err
			}
			cs := n.BC.GetContractState(c.Hash)
			if cs == nil || len(cs.Manifest.Groups) != len(d.groups) {
				return fmt.Errorf("contract state/groups missing")
			}
			w.U[d.name], w.base.H[d.name], w.group[d.name] = c, c.Hash, names
			return nil
		}()
		if err != nil && !d.optional {
			return fmt.Errorf("deploy %s: %w", d.name, err)
		}
		if err != nil {
			w.noF = err.Error()
		}
	}
	return nil
}

// mirrorChains: chains through D / F. Quick: every chain of 1..2 steps over
// {A, B, C, D, F} containing D or F, D>L, F>L, GAS.transfer->D|F, three 3-step
// rotations; thorough: every 3-step chain over {B, D, F}.
func mirrorChains(thorough, haveF bool) []chain {
	var out []chain
	ok := func(steps []string) bool {
		use := false
		for _, s := range steps {
			if s == "F" || s == "GF" {
				if !haveF {
					return false
				}
				use = true
			}
			use = use || s == "D" || s == "GD"
		}
		return use
	}
	add := func(steps ...string) {
		if ok(steps) {
			out = append(out, chain{Steps: steps})
		}
	}
	seqs([]string{"A", "B", "C", "D", "F"}, 2, func(steps []string) {
		if len(steps) > 0 {
			add(steps...)
		}
	})
	add("D", "L")
	add("F", "L")
	add("GD")
	add("GF")
	add("B", "GD")
	add("D", "GB")
	if thorough {
		seqs([]string{"B", "D", "F"}, 3, func(steps []string) {
			if len(steps) == 3 {
				add(steps...)
			}
		})
	} else {
		add("B", "D", "F")
		add("D", "F", "B")
		add("F", "B", "D")
		add("D", "B", "D")
	}
	return out
}

func isMirrorChain(c chain) bool {
	for _, s := range c.Steps {
		if s == "D" || s == "F" || s == "GD" || s == "GF" {
			return true
		}
	}
	return false
}

// mirrorCfgs: signer configurations written in mirror keys and reversed hashes.
func mirrorCfgs(thorough bool) []cfg {
	CBE, CC, CG, R := byte(transaction.CalledByEntry), byte(transaction.CustomContracts), byte(transaction.CustomGroups), byte(transaction.Rules)
	l := func(op, sym string) *scond { return &scond{Op: op, Sym: sym} }
	yes := &scond{Op: "bool", B: true}
	var out []cfg
	// the custom-groups scope alone and next to the other bits
	groupSets := [][]string{{"M1"}, {"G1"}, {"M2"}, {"G1", "M1"}, {"M1", "G2"}, {"M1", "M2"}, {"M3"}, {"G3", "M3"}, {"M2", "G3"}, {"G2"}}
	for _, ag := range groupSets {
		out = append(out, cfg{Scope: CG, AG: ag})
	}
	for _, ag := range groupSets[:6] {
		out = append(out, cfg{Scope: CG | CBE, AG: ag}, cfg{Scope: CG | CC, AC: []string{"A"}, AG: ag},
			cfg{Scope: CG | R, AG: ag, Rules: []srule{{true, l("bygroup", "M1")}}})
	}
	// the custom-contracts scope over reversed hashes
	for _, ac := range [][]string{{"rA"}, {"rB"}, {"rD"}, {"rA", "rB", "rC", "rD"}, {"rB", "A"}, {"rE"}, {"rL"}, {"rGAS"}} {
		out = append(out, cfg{Scope: CC, AC: ac})
	}
	// single rules over every tree of depth <= 1 over the key leaves (+ two that never read a key)
	var kl []*scond
	for _, op := range []string{"group", "bygroup"} {
		for _, k := range []string{"G1", "M1", "G2", "M2"} {
			kl = append(kl, l(op, k))
		}
	}
	leaves := append(append([]*scond{}, kl...), &scond{Op: "entry"}, l("hash", "B"))
	out = append(out, singleRulePlanCfgs([]cfg{{Scope: R}}, rulesOf(append(append([]*scond{}, leaves...), depth1(leaves, 2)...)))...)
	// rule lists of length 2: which rule is the FIRST that matches
	sr := rulesOf(append(append([]*scond{}, kl...), yes))
	for _, a := range sr {
		for _, b := range sr {
			out = append(out, cfg{Scope: R, Rules: []srule{a, b}})
		}
	}
	// reversed hashes in rule conditions
	var hl []*scond
	for _, h := range []string{"rA", "rB", "rD", "rE", "rL"} {
		hl = append(hl, l("hash", h))
	}
	for _, h := range []string{"rA", "rB", "rD", "rGAS", "rE", "rL"} {
		hl = append(hl, l("byhash", h))
	}
	for _, c := range hl {
		out = append(out, cfg{Scope: R, Rules: []srule{{true, c}}},
			cfg{Scope: R, Rules: []srule{{false, c}, {true, yes}}},
			cfg{Scope: R, Rules: []srule{{true, &scond{Op: "not", Sub: []*scond{c}}}}})
	}
	if thorough {
		leaves = append(leaves, l("group", "M3"), l("bygroup", "M3"), l("group", "G3"), l("bygroup", "G3"))
		out = append(out, singleRulePlanCfgs([]cfg{{Scope: R | CG, AG: []string{"M2"}}}, rulesOf(append(append([]*scond{}, leaves...), depth1(leaves, 2)...)))...)
	}
	return out
}

// usesMirror: does the configuration name a mirror key or a reversed hash (evidence).
func (c cfg) usesMirror() bool {
	is := func(s string) bool { return len(s) > 1 && (s[0] == 'M' || s[0] == 'r') }
	for _, s := range append(append([]string{}, c.AC...), c.AG...) {
		if is(s) {
			return true
		}
	}
	var rec func(*scond) bool
	rec = func(x *scond) bool {
		if is(x.Sym) {
			return true
		}
		for _, s := range x.Sub {
			if rec(s) {
				return true
			}
		}
		return false
	}
	for _, r := range c.Rules {
		if rec(r.C) {
			return true
		}
	}
	return false
}
