package c15

// Extension "oracle-callback" (round 5): WHICH SIGNER SET a witness check is
// decided against when the contract runs as the callback of an oracle response.
//
// Oracle.finish (pkg/core/native/oracle.go) switches the execution to the signers
// of the transaction that MADE the request for the time the callback runs (and
// everything the callback calls) and back to the response transaction's own
// signers when the callback context is unloaded. The callback context is only
// pushed by finish; it runs after the native method has returned.
//
// Space (stated bounds, enumerated completely):
//
//   - a chain with a designated oracle node, the callback contract K (group G2)
//     next to A, B(G1), C(G1,G2); three persisted request transactions made through
//     K: T1 (sender CalledByEntry, 14 accounts with the menu of scopes below,
//     contract B as a signer), T2 (sender None, the same accounts with the menu
//     rotated by 5, the oracle nodes' multisignature account with Global), T3 (the
//     sender alone, Global);
//   - test invocations of a response transaction for a request of T1/T2/T3 whose
//     signers are the real ones (native Oracle + oracle nodes, scope None) or those
//     plus the 14 accounts with the menu rotated by 9 (so that every account has
//     another scope in the original and in the response transaction), whose script
//     is the standard response script or [checks; Oracle.finish; checks], and whose
//     callback (the program travels in the response's Result) asks at callback
//     level, calls one (thorough: two) more step over {A, B, C, K itself, a dynamic
//     script}, asks again after the call returned; variants: the innermost frame
//     throws and its caller catches; the callback throws at its end (with and
//     without a TRY around Oracle.finish in the entry script);
//   - real blocks: one response; two responses for requests of different signer
//     sets with an ordinary transaction between them; a faulting callback followed
//     by an ordinary transaction and another response. Results come back through
//     a notification of K / the stack of the ordinary transaction.
//
// Reference: the predicate of pred_test.go over the real context chain (entry =
// the response script, then native Oracle, then K, ...) with signers = the
// ORIGINAL transaction's signers for every check executed in the callback or
// below it, and the executing transaction's OWN signers for every check in the
// entry script before Oracle.finish and after the callback returned, and for the
// next transaction of the block.

import (
	"encoding/json"
	"fmt"
	"os"
	"sort"
	"strings"
	"sync"

	"github.com/nspcc-dev/neo-go/pkg/compiler"
	"github.com/nspcc-dev/neo-go/pkg/core/interop/interopnames"
	"github.com/nspcc-dev/neo-go/pkg/core/native/nativehashes"
	"github.com/nspcc-dev/neo-go/pkg/core/native/noderoles"
	"github.com/nspcc-dev/neo-go/pkg/core/state"
	"github.com/nspcc-dev/neo-go/pkg/core/transaction"
	"github.com/nspcc-dev/neo-go/pkg/crypto/hash"
	"github.com/nspcc-dev/neo-go/pkg/crypto/keys"
	"github.com/nspcc-dev/neo-go/pkg/io"
	"github.com/nspcc-dev/neo-go/pkg/neotest"
	"github.com/nspcc-dev/neo-go/pkg/smartcontract"
	"github.com/nspcc-dev/neo-go/pkg/smartcontract/callflag"
	"github.com/nspcc-dev/neo-go/pkg/smartcontract/manifest"
	"github.com/nspcc-dev/neo-go/pkg/smartcontract/trigger"
	"github.com/nspcc-dev/neo-go/pkg/util"
	"github.com/nspcc-dev/neo-go/pkg/vm"
	"github.com/nspcc-dev/neo-go/pkg/vm/emit"
	"github.com/nspcc-dev/neo-go/pkg/vm/opcode"
	"github.com/nspcc-dev/neo-go/pkg/vm/stackitem"
	"github.com/nspcc-dev/neo-go/pkg/vm/vmstate"
	"github.com/nspcc-dev/neo-go/pkg/wallet"

	"verif/lib/chainx"
	"verif/lib/vk"
)

// kSource: the callback contract. `run(prog)` as in U; `cb` is the oracle
// callback: the program is the (serialized) Result of the response.
const kSource = `package kcontract

import (
	"github.com/nspcc-dev/neo-go/pkg/interop"
	"github.com/nspcc-dev/neo-go/pkg/interop/contract"
	"github.com/nspcc-dev/neo-go/pkg/interop/native/std"
	"github.com/nspcc-dev/neo-go/pkg/interop/runtime"
)

const (
	opCall         = 6  // [6, hash, method, flags, args]
	opTry          = 7  // [7, body, handler]
	opThrow        = 8  // [8]
	opCheckWitness = 10 // [10, hashOrKey]
	opLoadScript   = 11 // [11, script, flags, args]
	opRun          = 13 // [13, hash, flags, prog]
)

var (
	log    []any
	caught bool
)

func Run(prog []any) []any {
	log = []any{}
	exec(prog)
	return log
}

func Cb(url string, data any, code int, result []byte) {
	log = []any{}
	exec(std.Deserialize(result).([]any))
	runtime.Notify("cw", log)
}

func tryBody(body []any) {
	defer func() {
		if r := recover(); r != nil {
			caught = true
		}
	}()
	exec(body)
}

func exec(prog []any) {
	for i := 0; i < len(prog); i++ {
		op := prog[i].([]any)
		code := op[0].(int)
		if code == opCall {
			args := op[4].([]any)
			res := contract.Call(op[1].(interop.Hash160), op[2].(string), contract.CallFlag(op[3].(int)), args...)
			log = append(log, res)
		} else if code == opTry {
			caught = false
			tryBody(op[1].([]any))
			if caught {
				caught = false
				log = append(log, 71)
				exec(op[2].([]any))
			} else {
				log = append(log, 70)
			}
		} else if code == opThrow {
			panic("thrown")
		} else if code == opCheckWitness {
			log = append(log, runtime.CheckWitness(op[1].([]byte)))
		} else if code == opLoadScript {
			args := op[3].([]any)
			res := runtime.LoadScript(op[1].([]byte), contract.CallFlag(op[2].(int)), args...)
			log = append(log, res)
		} else if code == opRun {
			saved := log
			res := contract.Call(op[1].(interop.Hash160), "run", contract.CallFlag(op[2].(int)), op[3])
			log = append(saved, res)
		} else {
			panic("bad op")
		}
	}
}
`

var (
	kOnce sync.Once
	kBase *neotest.Contract
	kErr  error
)

func compileK(name string, sender util.Uint160, groups []manifest.Group) (*neotest.Contract, error) {
	kOnce.Do(func() {
		kBase, kErr = chainx.CompileSource([]byte(kSource), &compiler.Options{
			Name:               "K",
			NoEventsCheck:      true,
			NoPermissionsCheck: true,
			NoStandardCheck:    true,
			ContractEvents: []compiler.HybridEvent{{Name: "cw", Parameters: []compiler.HybridParameter{
				{Parameter: manifest.Parameter{Name: "log", Type: smartcontract.ArrayType}},
			}}},
			Permissions: []manifest.Permission{*manifest.NewPermission(manifest.PermissionWildcard)},
		})
	})
	if kErr != nil {
		return nil, fmt.Errorf("compile K: %w", kErr)
	}
	mb, err := json.Marshal(kBase.Manifest)
	if err != nil {
		return nil, err
	}
	m := new(manifest.Manifest)
	if err := json.Unmarshal(mb, m); err != nil {
		return nil, err
	}
	m.Name = name
	if groups != nil {
		m.Groups = groups
	}
	return &neotest.Contract{
		Hash:      state.CreateContractHash(sender, kBase.NEF.Checksum, m.Name),
		NEF:       kBase.NEF,
		Manifest:  m,
		DebugInfo: kBase.DebugInfo,
	}, nil
}

// ---- signer sets --------------------------------------------------------------------

const (
	oSlots      = 14 // accounts chainx.Acc(slotBase+i) carrying the menu
	oracleNode  = 90 // chainx.Acc(oracleNode) is the designated oracle node
	oracleURL   = "https://verif.c15/x"
	respGas     = 4_0000_0000 // GAS reserved for a response (system fee 3.4, network fee 0.6)
	respSysFee  = 3_4000_0000
	gen2Gas     = 1_2000_0000 // GAS reserved for the response to a request made by a callback
	gen2SysFee  = 8000_0000
	afterRet    = "+ret" // label suffix: asked again after the call of the next step returned
	afterCb     = "+cb"  // label suffix: asked again in the entry script after the callback returned
	layerOracle = "oracle"
)

// oMenu: one configuration per scope kind (symbols: K = the callback contract, O =
// native Oracle, A = another contract; K has group G2, B has G1, C has both).
func oMenu() []cfg {
	R := byte(transaction.Rules)
	allow := func(c *scond) []srule { return []srule{{Allow: true, C: c}} }
	return []cfg{
		{Scope: byte(transaction.None)},
		{Scope: byte(transaction.CalledByEntry)},
		{Scope: byte(transaction.Global)},
		{Scope: byte(transaction.CustomContracts), AC: []string{"K"}},
		{Scope: byte(transaction.CustomContracts), AC: []string{"A"}},
		{Scope: byte(transaction.CustomGroups), AG: []string{"G2"}},
		{Scope: byte(transaction.CustomGroups), AG: []string{"G1"}},
		{Scope: R, Rules: allow(&scond{Op: "byhash", Sym: "O"})},
		{Scope: R, Rules: allow(&scond{Op: "entry"})},
		{Scope: R, Rules: allow(&scond{Op: "hash", Sym: "K"})},
		{Scope: R, Rules: allow(&scond{Op: "group", Sym: "G2"})},
		{Scope: R, Rules: allow(&scond{Op: "bygroup", Sym: "G2"})},
		{Scope: R, Rules: []srule{{Allow: false, C: &scond{Op: "byhash", Sym: "O"}}, {Allow: true, C: &scond{Op: "bool", B: true}}}},
		{Scope: R, Rules: allow(&scond{Op: "byhash", Sym: "K"})},
	}
}

// oMirrorMenu (round 6): K is in group G2; M2 / M1 are the mirror keys of G2 / G1
// (same X, opposite Y), rK / rO / rA.. the byte-reversed hashes of K / Oracle / A..
func oMirrorMenu() []cfg {
	R := byte(transaction.Rules)
	allow := func(c *scond) []srule { return []srule{{Allow: true, C: c}} }
	denyElseAllow := func(c *scond) []srule {
		return []srule{{Allow: false, C: c}, {Allow: true, C: &scond{Op: "bool", B: true}}}
	}
	return []cfg{
		{Scope: byte(transaction.CustomGroups), AG: []string{"M2"}},
		{Scope: byte(transaction.CustomGroups), AG: []string{"M1"}},
		{Scope: R, Rules: allow(&scond{Op: "group", Sym: "M2"})},
		{Scope: R, Rules: allow(&scond{Op: "bygroup", Sym: "M2"})},
		{Scope: R, Rules: denyElseAllow(&scond{Op: "group", Sym: "M2"})},
		{Scope: R, Rules: denyElseAllow(&scond{Op: "bygroup", Sym: "M2"})},
		{Scope: R, Rules: allow(&scond{Op: "group", Sym: "M1"})},
		{Scope: R, Rules: denyElseAllow(&scond{Op: "group", Sym: "M1"})},
		{Scope: byte(transaction.CustomContracts), AC: []string{"rK"}},
		{Scope: R, Rules: allow(&scond{Op: "hash", Sym: "rK"})},
		{Scope: R, Rules: allow(&scond{Op: "byhash", Sym: "rO"})},
		{Scope: R, Rules: denyElseAllow(&scond{Op: "byhash", Sym: "rO"})},
		{Scope: R, Rules: allow(&scond{Op: "byhash", Sym: "rK"})},
		{Scope: byte(transaction.CustomContracts), AC: []string{"rA", "rB", "rC"}},
	}
}

// oSigner: one signer of a signer set: account symbol ("s<i>", "sender", "nodes",
// "oracle", "B") and its configuration.
type oSigner struct {
	Acc string `json:"account"`
	Cfg cfg    `json:"config"`
}

func menuSigners(offset int) []oSigner {
	m := oMenu()
	var out []oSigner
	for i := 0; i < oSlots; i++ {
		out = append(out, oSigner{Acc: fmt.Sprintf("s%d", i), Cfg: m[(i+offset)%len(m)]})
	}
	return out
}

// signer sets by name. Request transactions: T1, T2, T3. Response transactions:
// "real", "menu". Ordinary transaction of the block scenarios: "P".
func oSignerSet(name string) []oSigner {
	none := cfg{Scope: byte(transaction.None)}
	glob := cfg{Scope: byte(transaction.Global)}
	switch name {
	case "T1":
		return append(append([]oSigner{{"sender", cfg{Scope: byte(transaction.CalledByEntry)}}}, menuSigners(0)...), oSigner{"B", fixedCfg})
	case "T2":
		return append(append([]oSigner{{"sender", none}}, menuSigners(5)...), oSigner{"nodes", glob})
	case "T3":
		return []oSigner{{"sender", glob}}
	case "T4": // round 6: the menu written in mirror keys and byte-reversed hashes
		m := oMirrorMenu()
		out := []oSigner{{"sender", none}}
		for i := 0; i < oSlots; i++ {
			out = append(out, oSigner{Acc: fmt.Sprintf("s%d", i), Cfg: m[i%len(m)]})
		}
		return out
	case "real":
		return []oSigner{{"oracle", none}, {"nodes", none}}
	case "menu":
		return append([]oSigner{{"oracle", none}, {"nodes", none}}, menuSigners(9)...)
	case "P":
		return append([]oSigner{{"sender", cfg{Scope: byte(transaction.CalledByEntry)}}}, menuSigners(3)...)
	}
	panic("unknown signer set " + name)
}

// ---- the prepared chain -----------------------------------------------------------------

type oWorld struct {
	*world
	K        *neotest.Contract
	nodeKey  *keys.PrivateKey
	nodesVer []byte // verification script of the oracle nodes' account
	nodes    util.Uint160
	sender   util.Uint160
	reqID    map[string][]uint64 // request transaction -> ids of its pending requests
	used     map[uint64]bool     // ids consumed by a block scenario
	nextID   uint64              // id the next request gets
	gen2     map[string][]uint64 // request transaction -> ids of requests made by callbacks of responses to its requests
	n0       names
}

func (w *oWorld) account(sym string) util.Uint160 {
	switch sym {
	case "sender":
		return w.sender
	case "nodes":
		return w.nodes
	case "oracle":
		return nativehashes.OracleContract
	case "B":
		return w.base.H["B"]
	}
	var i int
	if _, err := fmt.Sscanf(sym, "s%d", &i); err != nil {
		panic("unknown account " + sym)
	}
	return chainx.Acc(slotBase + i).ScriptHash()
}

func (w *oWorld) realSigners(set []oSigner) []transaction.Signer {
	var out []transaction.Signer
	for _, s := range set {
		out = append(out, s.Cfg.real(w.account(s.Acc), &w.n0))
	}
	return out
}

func (w *oWorld) refSigners(set []oSigner) []signer {
	var out []signer
	for _, s := range set {
		out = append(out, s.Cfg.ref(w.account(s.Acc), &w.n0))
	}
	return out
}

func (w *oWorld) neoSigner(sym string) neotest.Signer {
	switch sym {
	case "sender":
		return w.n.Validator
	case "nodes":
		a := wallet.NewAccountFromPrivateKey(w.nodeKey)
		if err := a.ConvertMultisig(1, keys.PublicKeys{w.nodeKey.PublicKey()}); err != nil {
			panic(err)
		}
		return neotest.NewMultiSigner(a)
	case "B":
		return neotest.NewContractSigner(w.base.H["B"], func(*transaction.Transaction) []any { return nil })
	}
	var i int
	if _, err := fmt.Sscanf(sym, "s%d", &i); err != nil {
		panic("unknown account " + sym)
	}
	return chainx.Signer(slotBase + i)
}

// signedTx: a real transaction with the given script signed by the signer set
// (scopes, lists and rules of the set; the first signer pays).
func (w *oWorld) signedTx(script []byte, set []oSigner) (*transaction.Transaction, error) {
	var ns []neotest.Signer
	for _, s := range set {
		ns = append(ns, w.neoSigner(s.Acc))
	}
	real := w.realSigners(set)
	return w.n.MakeTx(script, ns, func(tx *transaction.Transaction) { tx.Signers = real })
}

func newOracleWorld() (*oWorld, error) {
	bw, err := newWorld()
	if err != nil {
		return nil, err
	}
	w := &oWorld{world: bw, reqID: map[string][]uint64{}, used: map[uint64]bool{}}
	n := w.n
	w.sender = n.Validator.ScriptHash()
	// K, in group G2
	g2 := chainx.Acc(groupBase + 1).PrivateKey()
	c, err := compileK("K", w.sender, nil)
	if err != nil {
		return nil, err
	}
	if c, err = compileK("K", w.sender, []manifest.Group{{PublicKey: g2.PublicKey(), Signature: g2.Sign(c.Hash.BytesBE())}}); err != nil {
		return nil, err
	}
	add := func(what string, txs ...*transaction.Transaction) error {
		if _, err := n.AddBlock(txs...); err != nil {
			return fmt.Errorf("%s: %w", what, err)
		}
		for _, tx := range txs {
			if err := n.CheckHalt(tx.Hash()); err != nil {
				return fmt.Errorf("%s: %w", what, err)
			}
		}
		return nil
	}
	tx, err := n.DeployTx(c, n.Validator, nil)
	if err != nil {
		return nil, fmt.Errorf("deploy K: %w", err)
	}
	if err := add("deploy K", tx); err != nil {
		return nil, err
	}
	w.K = c
	w.U["K"] = c
	w.base.H["K"] = c.Hash
	w.base.H["O"] = nativehashes.OracleContract
	addReversedTwins(w.base.H) // round 6
	w.group["K"] = []string{g2.PublicKey().StringCompressed()}
	w.n0 = names{H: w.base.H, K: w.base.K}
	// the oracle node
	w.nodeKey = chainx.Acc(oracleNode).PrivateKey()
	if w.nodesVer, err = smartcontract.CreateMajorityMultiSigRedeemScript(keys.PublicKeys{w.nodeKey.PublicKey()}); err != nil {
		return nil, err
	}
	w.nodes = hash.Hash160(w.nodesVer)
	if tx, err = n.CallTx([]neotest.Signer{n.Committee}, nativehashes.RoleManagement, "designateAsRole", int64(noderoles.Oracle), []any{w.nodeKey.PublicKey().Bytes()}); err != nil {
		return nil, fmt.Errorf("designate: %w", err)
	}
	if err := add("designate", tx); err != nil {
		return nil, err
	}
	// the requests: T1 and T2 make two each, T3 one (ids in execution order)
	var reqs []*transaction.Transaction
	id := uint64(0)
	for _, r := range []struct {
		name string
		n    int
	}{{"T1", 2}, {"T2", 2}, {"T3", 1}, {"T4", 1}} {
		prog := []any{}
		for i := 0; i < r.n; i++ {
			prog = append(prog, []any{chainx.OpCall, nativehashes.OracleContract.BytesBE(), "request", int(callflag.All),
				[]any{oracleURL, nil, "cb", nil, respGas}})
			w.reqID[r.name] = append(w.reqID[r.name], id)
			id++
		}
		tx, err := w.signedTx(runScript(c.Hash, prog), oSignerSet(r.name))
		if err != nil {
			return nil, fmt.Errorf("request %s: %w", r.name, err)
		}
		reqs = append(reqs, tx)
	}
	if err := add("requests", reqs...); err != nil {
		return nil, err
	}
	w.nextID, w.gen2 = id, map[string][]uint64{}
	if w.fake, err = n.BC.GetFakeNextBlock(n.BC.BlockHeight() + 1); err != nil {
		return nil, err
	}
	return w, nil
}

// runScript: the entry script of an ordinary transaction calling run(prog) of h.
func runScript(h util.Uint160, prog []any) []byte {
	w := io.NewBufBinWriter()
	emitVal(w.BinWriter, []any{prog})
	emit.Int(w.BinWriter, int64(callflag.All))
	emit.String(w.BinWriter, "run")
	emit.Bytes(w.BinWriter, h.BytesBE())
	emit.Syscall(w.BinWriter, interopnames.SystemContractCall)
	if w.Err != nil {
		panic(w.Err)
	}
	return w.Bytes()
}

// ---- cases ---------------------------------------------------------------------------------

// oCase: one response (or ordinary) transaction.
//
//	Req:   the request transaction whose request is answered ("" = an ordinary
//	       transaction calling K.run directly: no oracle at all)
//	Own:   the signer set of the executing transaction itself
//	Steps: the steps below K ("A","B","C","K","L")
//	Var:   plain | inner-throw | cb-throw | cb-throw-try | re-request (the callback
//	       makes a new oracle request before its checks)
//	Exact: the entry script is the standard response script (no checks in it)
type oCase struct {
	Req   string   `json:"request_tx"`
	Own   string   `json:"own_signers"`
	Steps []string `json:"steps_below_callback"`
	Var   string   `json:"variant"`
	Exact bool     `json:"standard_script"`
	Gen2  bool     `json:"second_generation,omitempty"` // answers the request made by the callback of an earlier response to Req's request
}

func (c oCase) String() string {
	s := "E>O>K"
	if c.Req == "" {
		s = "E>K"
	}
	for _, x := range c.Steps {
		s += ">" + x
	}
	if c.Exact {
		s += "/std"
	}
	req := c.Req
	if req == "" {
		req = "-"
	}
	if c.Gen2 {
		req += "(2nd generation)"
	}
	return fmt.Sprintf("req=%s:own=%s:%s:%s", req, c.Own, s, c.Var)
}

type oExpect struct {
	Frame  int
	Label  string
	Acc    util.Uint160
	Val    []byte
	Phase  string // pre-finish | callback | below-callback | after-callback | ordinary
	MayEnd bool   // the execution may end (FAULT) right before this check
}

type oBuilt struct {
	Case    oCase
	Frames  []*frame
	Orig    int // frames >= Orig are judged by the original transaction's signers (len(Frames): none)
	Script  []byte
	Result  []byte // the response's Result (the callback's program)
	Expect  []oExpect
	Faults  bool // the execution is expected to end with FAULT
	w       *oWorld
	dynCode map[int][]byte // frame -> code of that dynamic script
	pending []int          // frames whose hash the expectation refs[k] asks for
	refs    []int
}

type oq struct {
	label string
	val   any // []byte or dyn
	acc   util.Uint160
	ref   int // frame whose hash is asked for, -1 otherwise
}

func (b *oBuilt) queries(i int) (pre, post []oq) {
	w := b.w
	lit := func(label string, h util.Uint160) { pre = append(pre, oq{label: label, val: h.BytesBE(), acc: h, ref: -1}) }
	for s := 0; s < oSlots; s++ {
		a := chainx.Acc(slotBase + s).ScriptHash()
		lit(fmt.Sprintf("s%d:hash", s), a)
		post = append(post, oq{label: fmt.Sprintf("s%d:key", s), val: keyBytes(slotBase + s), acc: a, ref: -1})
	}
	lit(fixedLabel, w.base.H["B"])
	lit("nonsigner:hash", chainx.Acc(nonSigner).ScriptHash())
	lit("zero:hash", util.Uint160{})
	lit("sender:hash", w.sender)
	lit("oracle-nodes:hash", w.nodes)
	lit("oracle-native:hash", nativehashes.OracleContract)
	lit("callback-contract:hash", w.K.Hash)
	post = append(post, oq{label: "nonsigner:key", val: keyBytes(nonSigner), acc: chainx.Acc(nonSigner).ScriptHash(), ref: -1})
	post = append(post, oq{label: "oracle-node:key", val: w.nodeKey.PublicKey().Bytes(), acc: w.nodeKey.PublicKey().GetScriptHash(), ref: -1})
	f := b.Frames[i]
	script := !oContract(f)
	if i > 0 {
		q := oq{label: "caller", ref: i - 1}
		if script {
			q.val = dyn("caller")
		}
		pre = append(pre, q)
	}
	q := oq{label: "self", ref: i}
	if script {
		q.val = dyn("self")
	}
	pre = append(pre, q)
	q = oq{label: "entry", ref: 0}
	if script {
		q.val = dyn("entry")
	}
	pre = append(pre, q)
	return
}

func (b *oBuilt) phase(i int) string {
	switch {
	case b.Orig >= len(b.Frames):
		return "ordinary"
	case i < b.Orig:
		return "entry"
	case i == b.Orig:
		return "callback"
	}
	return "below-callback"
}

// lateBytes stands for the hash of a frame that is not known yet while a PROGRAM
// (data, not code) is being built: it is filled in by resolve().
type lateBytes struct{ frame int }

func (b *oBuilt) expect(i int, q oq, suffix string, mayEnd bool) any {
	e := oExpect{Frame: i, Label: q.label + suffix, Acc: q.acc, Phase: b.phase(i), MayEnd: mayEnd}
	if suffix == afterCb {
		e.Phase = "after-callback"
	} else if e.Phase == "entry" {
		e.Phase = "pre-finish"
	}
	v := q.val
	if bs, ok := v.([]byte); ok {
		e.Val = bs
	}
	if q.ref >= 0 {
		b.refs = append(b.refs, len(b.Expect))
		b.pending = append(b.pending, q.ref)
		if v == nil {
			v = lateBytes{q.ref}
		}
	}
	b.Expect = append(b.Expect, e)
	return v
}

// prog compiles contract frame i (and everything below it) into a program.
func (b *oBuilt) prog(i int) []any {
	pre, post := b.queries(i)
	p := []any{}
	if b.Case.Var == "re-request" && i == b.Orig {
		p = append(p, []any{chainx.OpCall, nativehashes.OracleContract.BytesBE(), "request", int(callflag.All),
			[]any{oracleURL, nil, "cb", nil, gen2Gas}})
	}
	for _, q := range pre {
		p = append(p, []any{chainx.OpCheckWitness, b.expect(i, q, "", false)})
	}
	if next := i + 1; next < len(b.Frames) {
		nf := b.Frames[next]
		var call []any
		if oContract(nf) {
			call = []any{chainx.OpRun, nf.Hash.BytesBE(), int(nf.Req), b.prog(next)}
		} else {
			call = []any{chainx.OpLoadScript, lateScript{next}, int(nf.Req), []any{}}
			b.code(next)
		}
		if b.Case.Var == "inner-throw" && next == len(b.Frames)-1 {
			call = []any{chainx.OpTry, []any{call}, []any{}}
		}
		p = append(p, call)
		for _, q := range pre {
			p = append(p, []any{chainx.OpCheckWitness, b.expect(i, q, afterRet, false)})
		}
	}
	for _, q := range post {
		p = append(p, []any{chainx.OpCheckWitness, b.expect(i, q, "", false)})
	}
	if b.throws(i) {
		p = append(p, []any{chainx.OpThrow})
	}
	return p
}

// lateScript stands for the bytes of dynamic script frame `frame` inside a program.
type lateScript struct{ frame int }

func (b *oBuilt) throws(i int) bool {
	switch b.Case.Var {
	case "inner-throw":
		return i == len(b.Frames)-1
	case "cb-throw", "cb-throw-try":
		return i == b.Orig
	}
	return false
}

// code compiles dynamic script frame i (a leaf or calling the next step).
func (b *oBuilt) code(i int) {
	pre, post := b.queries(i)
	w := io.NewBufBinWriter()
	cw := func(q oq, suffix string) {
		v := b.expect(i, q, suffix, false)
		emitVal(w.BinWriter, v)
		emit.Syscall(w.BinWriter, interopnames.SystemRuntimeCheckWitness)
		emit.Opcodes(w.BinWriter, opcode.DROP)
	}
	for _, q := range pre {
		cw(q, "")
	}
	if next := i + 1; next < len(b.Frames) {
		nf := b.Frames[next]
		if !oContract(nf) {
			panic("a dynamic script loading a dynamic script is not part of this family")
		}
		// the program of the next contract may ask for THIS script's hash: it is computed
		// by the script itself (GetExecutingScriptHash) where the program is assembled
		prog := b.prog(next)
		emitVal(w.BinWriter, []any{b.inScript(prog, i)})
		emit.Int(w.BinWriter, int64(nf.Req))
		emit.String(w.BinWriter, "run")
		emit.Bytes(w.BinWriter, nf.Hash.BytesBE())
		emit.Syscall(w.BinWriter, interopnames.SystemContractCall)
		emit.Opcodes(w.BinWriter, opcode.DROP)
		for _, q := range pre {
			cw(q, afterRet)
		}
	}
	for _, q := range post {
		cw(q, "")
	}
	if b.throws(i) {
		emit.String(w.BinWriter, "thrown")
		emit.Opcodes(w.BinWriter, opcode.THROW)
	}
	if w.Err != nil {
		panic(w.Err)
	}
	s := w.Bytes()
	b.Frames[i].Hash = hash.Hash160(s)
	b.dynCode[i] = s
}

// inScript: a program assembled by script frame `self`: the hash of that frame is
// computed by the script, every other late value must be known by now.
func (b *oBuilt) inScript(v any, self int) any {
	switch x := v.(type) {
	case []any:
		out := make([]any, len(x))
		for k := range x {
			out[k] = b.inScript(x[k], self)
		}
		return out
	case lateBytes:
		if x.frame == self {
			return dyn("self")
		}
		if x.frame == 0 {
			return dyn("entry")
		}
		return b.resolve(x)
	case lateScript:
		return b.resolve(x)
	}
	return v
}

// resolve replaces the late values of a program by bytes.
func (b *oBuilt) resolve(v any) any {
	switch x := v.(type) {
	case []any:
		out := make([]any, len(x))
		for k := range x {
			out[k] = b.resolve(x[k])
		}
		return out
	case lateBytes:
		h := b.Frames[x.frame].Hash
		if h == (util.Uint160{}) {
			panic(fmt.Sprintf("hash of frame %d is not known", x.frame))
		}
		return h.BytesBE()
	case lateScript:
		s := b.dynCode[x.frame]
		if s == nil {
			panic(fmt.Sprintf("script of frame %d is not known", x.frame))
		}
		return s
	}
	return v
}

func toItem(v any) stackitem.Item {
	switch x := v.(type) {
	case nil:
		return stackitem.Null{}
	case int:
		return stackitem.Make(x)
	case string:
		return stackitem.NewByteArray([]byte(x))
	case []byte:
		return stackitem.NewByteArray(x)
	case []any:
		items := make([]stackitem.Item, len(x))
		for i := range x {
			items[i] = toItem(x[i])
		}
		return stackitem.NewArray(items)
	}
	panic(fmt.Sprintf("toItem: %T", v))
}

// oContract: a frame that is a deployed contract interpreting a program.
func oContract(f *frame) bool { return f.isU() || f.Kind == "K" }

func (w *oWorld) frameOf(kind string) *frame {
	if kind == "L" {
		return &frame{Kind: "L", Req: callflag.All}
	}
	return &frame{Kind: kind, Hash: w.base.H[kind], Groups: w.group[kind], Req: callflag.All}
}

func (w *oWorld) build(c oCase) (b *oBuilt, err error) {
	defer func() {
		if r := recover(); r != nil {
			b, err = nil, fmt.Errorf("build %s: %v", c, r)
		}
	}()
	b = &oBuilt{Case: c, w: w}
	b.dynCode = map[int][]byte{}
	b.Frames = []*frame{{Kind: "E", Req: callflag.All}}
	if c.Req != "" {
		b.Frames = append(b.Frames, &frame{Kind: "G", Hash: nativehashes.OracleContract, Req: callflag.All})
	}
	b.Frames = append(b.Frames, w.frameOf("K"))
	b.Orig = len(b.Frames) - 1
	if c.Req == "" {
		b.Orig = 1 << 20
	}
	for _, s := range c.Steps {
		b.Frames = append(b.Frames, w.frameOf(s))
	}
	for i, f := range b.Frames {
		switch {
		case i == 0:
			f.Eff = f.Req
		case f.isDyn():
			f.Eff = b.Frames[i-1].Eff & callflag.ReadOnly & f.Req
		default:
			f.Eff = b.Frames[i-1].Eff & f.Req
		}
	}
	kIdx := len(b.Frames) - 1 - len(c.Steps)
	b.Faults = c.Var == "cb-throw" || c.Var == "cb-throw-try"
	// the entry script first: it does not contain the callback's program
	sw := io.NewBufBinWriter()
	cw := func(q oq, suffix string, mayEnd bool) {
		emitVal(sw.BinWriter, b.expect(0, q, suffix, mayEnd))
		emit.Syscall(sw.BinWriter, interopnames.SystemRuntimeCheckWitness)
		emit.Opcodes(sw.BinWriter, opcode.DROP)
	}
	var pre, post []oq
	if !c.Exact && c.Req != "" {
		pre, post = b.queries(0)
	}
	for _, q := range pre {
		cw(q, "", false)
	}
	var kprog []any
	if c.Req == "" {
		// an ordinary transaction: the entry script calls K.run(prog)
		kprog = b.prog(kIdx)
	} else {
		call := io.NewBufBinWriter()
		emit.AppCall(call.BinWriter, nativehashes.OracleContract, "finish", callflag.All)
		if !c.Exact {
			emit.Opcodes(call.BinWriter, opcode.DROP)
		}
		body := call.Bytes()
		if c.Var == "cb-throw-try" {
			// TRYL catch; body; ENDTRYL after; catch: DROP; ENDTRYL after; after:
			sw.WriteB(byte(opcode.TRYL))
			sw.WriteU32LE(uint32(9 + len(body) + 5))
			sw.WriteU32LE(0)
			sw.WriteBytes(body)
			sw.WriteB(byte(opcode.ENDTRYL))
			sw.WriteU32LE(5 + 6)
			sw.WriteB(byte(opcode.DROP))
			sw.WriteB(byte(opcode.ENDTRYL))
			sw.WriteU32LE(5)
		} else {
			sw.WriteBytes(body)
		}
		kprog = b.prog(kIdx)
		first := true
		for _, q := range pre {
			cw(q, afterCb, first && b.Faults)
			first = false
		}
		for _, q := range post {
			cw(q, afterCb, false)
		}
	}
	if sw.Err != nil {
		return nil, sw.Err
	}
	if c.Req == "" {
		// the entry script contains the program: its own hash is computed by the script
		b.Script = runScript(w.K.Hash, b.inScript(kprog, 0).([]any))
		b.Frames[0].Hash = hash.Hash160(b.Script)
	} else {
		b.Script = sw.Bytes()
		b.Frames[0].Hash = hash.Hash160(b.Script)
		res, err := stackitem.Serialize(toItem(b.resolve(kprog)))
		if err != nil {
			return nil, err
		}
		if len(res) > transaction.MaxOracleResultSize {
			return nil, fmt.Errorf("program too large for a response: %d bytes", len(res))
		}
		b.Result = res
	}
	for k, ei := range b.refs {
		b.Expect[ei].Acc = b.Frames[b.pending[k]].Hash
	}
	return b, nil
}

// ---- one test invocation ----------------------------------------------------------------------

type oObs struct {
	Cur, Calling util.Uint160
	Q            []byte
	Res          int // 0 false, 1 true, 2 error
	Err          string
	Flags        callflag.CallFlag
}

func (w *oWorld) respAttr(b *oBuilt, id uint64) []transaction.Attribute {
	return []transaction.Attribute{{Type: transaction.OracleResponseT, Value: &transaction.OracleResponse{ID: id, Code: transaction.Success, Result: b.Result}}}
}

// invoke runs the case as a test invocation and records every CheckWitness.
// left: the interop context still answers Signers() with another list than the
// transaction's own after the execution ended (counted, not judged).
func (w *oWorld) invoke(b *oBuilt, id uint64) (trace []oObs, st vmstate.State, fault string, left bool, err error) {
	tx := transaction.New(b.Script, 0)
	tx.Signers = w.realSigners(oSignerSet(b.Case.Own))
	tx.ValidUntilBlock = w.fake.Index + 1
	if b.Case.Req != "" {
		tx.Attributes = w.respAttr(b, id)
	}
	ic, err := w.n.BC.GetTestVM(trigger.Application, tx, w.fake)
	if err != nil {
		return nil, 0, "", false, err
	}
	defer ic.Finalize()
	orig := ic.VM.SyscallHandler
	ic.VM.SyscallHandler = func(v *vm.VM, sid uint32) error {
		if sid != cwID {
			return orig(v, sid)
		}
		o := oObs{Cur: v.GetCurrentScriptHash(), Calling: v.GetCallingScriptHash(), Flags: v.Context().GetCallFlags()}
		if v.Estack().Len() > 0 {
			if bs, e := v.Estack().Peek(0).Item().TryBytes(); e == nil {
				o.Q = append([]byte{}, bs...)
			}
		}
		if e := orig(v, sid); e != nil {
			o.Res, o.Err = 2, e.Error()
			trace = append(trace, o)
			return e
		}
		if v.Estack().Peek(0).Bool() {
			o.Res = 1
		}
		trace = append(trace, o)
		return nil
	}
	ic.VM.LoadScriptWithFlags(b.Script, callflag.All)
	if rerr := ic.VM.Run(); rerr != nil {
		fault = rerr.Error()
	}
	now := ic.Signers()
	left = len(now) != len(tx.Signers)
	for i := 0; !left && i < len(now); i++ {
		left = now[i].Account != tx.Signers[i].Account || now[i].Scopes != tx.Signers[i].Scopes
	}
	return trace, ic.VM.State(), fault, left, nil
}

// signersAt: the signer set the property decides a check in frame i against.
func (b *oBuilt) signersAt(i int, own, orig []signer) []signer {
	if i >= b.Orig {
		return orig
	}
	return own
}

func (b *oBuilt) where(e *oExpect) (where, string) {
	f := b.Frames[e.Frame]
	w := where{Current: party{Hash: f.Hash, Groups: f.Groups}, ByEntry: e.Frame <= 1}
	desc := "in " + f.Kind
	if f.Kind == "G" {
		desc = "in native Oracle"
	}
	if e.Frame > 0 {
		c := b.Frames[e.Frame-1]
		w.Calling = &party{Hash: c.Hash, Groups: c.Groups}
		ck := c.Kind
		if ck == "G" {
			ck = "native Oracle"
		}
		desc += " called by " + ck
	}
	return w, fmt.Sprintf("%s at depth %d (%s)", desc, e.Frame, e.Phase)
}

type oStats struct {
	Evals, True, False        int
	OrigDecides, OwnDecides   int // checks whose verdict differs between the two signer sets: by which it must be decided
	Sits, Classes             map[string]struct{}
	EndedAtThrow, WentOnAfter int
}

func newOStats() *oStats {
	return &oStats{Sits: map[string]struct{}{}, Classes: map[string]struct{}{}}
}

// judge compares the trace of a test invocation with the predicate.
func (b *oBuilt) judge(trace []oObs, state vmstate.State, fault string, st *oStats) []mismatch {
	var out []mismatch
	own, orig := b.w.refSigners(oSignerSet(b.Case.Own)), []signer(nil)
	if b.Case.Req != "" {
		orig = b.w.refSigners(oSignerSet(b.Case.Req))
	}
	ended := false
	for k := range b.Expect {
		e := &b.Expect[k]
		if k >= len(trace) {
			if b.Faults && e.MayEnd && state == vmstate.Fault {
				ended = true
				st.EndedAtThrow++
				break // the throw of the callback ended the execution
			}
			out = append(out, mismatch{What: "trace-short", Frame: e.Frame, Query: e.Label, Slot: -1, Got: fmt.Sprintf("%d checks, %s %s", len(trace), state, fault), Want: fmt.Sprint(len(b.Expect))})
			break
		}
		o := trace[k]
		f := b.Frames[e.Frame]
		w, desc := b.where(e)
		var calling util.Uint160
		if w.Calling != nil {
			calling = w.Calling.Hash
		}
		if o.Cur != f.Hash || o.Flags != f.Eff || o.Calling != calling {
			out = append(out, mismatch{What: "context-differs", Frame: e.Frame, Query: e.Label, Slot: -1,
				Got:  fmt.Sprintf("script %s called by %s flags %05b", o.Cur.StringLE(), o.Calling.StringLE(), o.Flags),
				Want: fmt.Sprintf("script %s called by %s flags %05b", f.Hash.StringLE(), calling.StringLE(), f.Eff), Where: desc})
			continue
		}
		okArg := len(o.Q) == 20 && string(o.Q) == string(e.Acc.BytesBE()) || len(o.Q) == 33 && string(o.Q) == string(e.Val)
		if !okArg {
			out = append(out, mismatch{What: "argument-differs", Frame: e.Frame, Query: e.Label, Slot: -1, Got: fmt.Sprintf("%x", o.Q), Want: e.Acc.StringBE(), Where: desc})
			continue
		}
		want := witnessed(b.signersAt(e.Frame, own, orig), w, e.Acc)
		st.Evals++
		if b.Case.Req != "" {
			if other := witnessed(b.signersAt(e.Frame, orig, own), w, e.Acc); other != want {
				if e.Frame >= b.Orig {
					st.OrigDecides++
				} else {
					st.OwnDecides++
				}
			}
		}
		st.Sits[fmt.Sprintf("%s %s<%s@%d q=%s", e.Phase, f.Kind, callerKindOf(b.Frames, e.Frame), e.Frame, queryKind(strings.TrimSuffix(strings.TrimSuffix(e.Label, afterRet), afterCb)))] = struct{}{}
		if o.Res == 2 || (o.Res == 1) != want {
			m := mismatch{What: "result-differs", Frame: e.Frame, Query: e.Label, Slot: -1, Got: resName(o.Res), Want: fmt.Sprint(want), Where: desc}
			if o.Res == 2 {
				m.What, m.Detail = "check-failed", o.Err
			}
			out = append(out, m)
			continue
		}
		cls := fmt.Sprintf("oracle:%s:in=%s:", e.Phase, f.Kind)
		if want {
			st.True++
			st.Classes[cls+"true"] = struct{}{}
		} else {
			st.False++
			st.Classes[cls+"false"] = struct{}{}
		}
	}
	if !ended && len(trace) > len(b.Expect) {
		out = append(out, mismatch{What: "trace-long", Slot: -1, Got: fmt.Sprint(len(trace)), Want: fmt.Sprint(len(b.Expect))})
	}
	if !ended && len(trace) == len(b.Expect) {
		// every check ran: a throwing callback ends the execution unless the entry script went on after it
		wantState := vmstate.Halt
		if b.Faults && (len(b.Expect) == 0 || b.Expect[len(b.Expect)-1].Phase != "after-callback") {
			wantState = vmstate.Fault
		}
		if b.Faults && wantState == vmstate.Halt {
			st.WentOnAfter++
		}
		if state != wantState {
			out = append(out, mismatch{What: "execution-state", Slot: -1, Got: state.String() + " " + fault, Want: wantState.String()})
		}
	}
	return out
}

func callerKindOf(fr []*frame, i int) string {
	if i == 0 {
		return "-"
	}
	if fr[i-1].Kind == "G" {
		return "Oracle"
	}
	return fr[i-1].Kind
}

// ---- real blocks -------------------------------------------------------------------------------

type oScenario struct {
	Name   string    `json:"name"`
	Blocks [][]oCase `json:"blocks"` // transactions in block order
}

func (sc oScenario) ntx() int {
	n := 0
	for _, b := range sc.Blocks {
		n += len(b)
	}
	return n
}

func oScenarios() []oScenario {
	return []oScenario{
		{"one-response-then-the-second-generation", [][]oCase{
			{{Req: "T1", Own: "real", Steps: []string{"B"}, Var: "re-request", Exact: true}},
			{{Req: "T1", Own: "real", Steps: []string{"A"}, Var: "plain", Exact: true, Gen2: true}},
		}},
		{"two-responses-and-an-ordinary-tx", [][]oCase{{
			{Req: "T1", Own: "real", Steps: []string{"A"}, Var: "plain", Exact: true},
			{Req: "", Own: "P", Steps: []string{"B"}, Var: "plain"},
			{Req: "T2", Own: "real", Steps: nil, Var: "plain", Exact: true},
			{Req: "T3", Own: "real", Steps: []string{"C"}, Var: "plain", Exact: true},
			{Req: "", Own: "P", Steps: nil, Var: "plain"},
		}}},
		{"faulting-callback-then-others", [][]oCase{{
			{Req: "T1", Own: "real", Steps: []string{"B"}, Var: "cb-throw", Exact: true},
			{Req: "", Own: "P", Steps: []string{"A"}, Var: "plain"},
			{Req: "T2", Own: "real", Steps: []string{"K"}, Var: "inner-throw", Exact: true},
		}}},
	}
}

// respTx: the real response transaction (sender = native Oracle, second signer =
// the oracle nodes; fees = exactly the GAS the request reserved).
func (w *oWorld) respTx(b *oBuilt, id uint64) *transaction.Transaction {
	n := w.n
	tx := transaction.New(b.Script, respSysFee)
	tx.NetworkFee = respGas - respSysFee
	if b.Case.Gen2 {
		tx.SystemFee, tx.NetworkFee = gen2SysFee, gen2Gas-gen2SysFee
	}
	tx.Nonce = n.Nonce()
	tx.ValidUntilBlock = n.BC.BlockHeight() + 5
	tx.Signers = w.realSigners(oSignerSet("real"))
	tx.Attributes = w.respAttr(b, id)
	sig := w.nodeKey.SignHashable(uint32(n.BC.GetConfig().Magic), tx)
	iw := io.NewBufBinWriter()
	emit.Bytes(iw.BinWriter, sig)
	tx.Scripts = []transaction.Witness{
		{InvocationScript: []byte{}, VerificationScript: []byte{}},
		{InvocationScript: iw.Bytes(), VerificationScript: w.nodesVer},
	}
	return tx
}

func flattenLog(it stackitem.Item, out *[]bool) {
	switch it.Type() {
	case stackitem.BooleanT:
		*out = append(*out, it.Value().(bool))
	case stackitem.ArrayT, stackitem.StructT:
		for _, x := range it.Value().([]stackitem.Item) {
			flattenLog(x, out)
		}
	}
}

type oBlockFail struct {
	Layer    string    `json:"layer"`
	Scenario oScenario `json:"scenario"`
	Tx       int       `json:"transaction_index"`
	Case     oCase     `json:"transaction"`
	M        mismatch  `json:"mismatch"`
}

// runScenario adds the scenario's blocks and judges every application log.
func (w *oWorld) runScenario(sc oScenario, st *oStats) (fails []oBlockFail, err error) {
	base := 0
	for _, blk := range sc.Blocks {
		f, err := w.runBlock(sc, blk, base, st)
		if err != nil {
			return fails, err
		}
		fails = append(fails, f...)
		base += len(blk)
	}
	return fails, nil
}

func (w *oWorld) takeID(c oCase) (uint64, bool) {
	ids := w.reqID[c.Req]
	if c.Gen2 {
		ids = w.gen2[c.Req]
	}
	for _, x := range ids {
		if !w.used[x] {
			w.used[x] = true
			return x, true
		}
	}
	return 0, false
}

func (w *oWorld) runBlock(sc oScenario, cases []oCase, base int, st *oStats) (fails []oBlockFail, err error) {
	var txs []*transaction.Transaction
	var bs []*oBuilt
	for _, c := range cases {
		b, err := w.build(c)
		if err != nil {
			return nil, err
		}
		bs = append(bs, b)
		if c.Req == "" {
			tx, err := w.signedTx(b.Script, oSignerSet(c.Own))
			if err != nil {
				return nil, fmt.Errorf("%s: %w", c, err)
			}
			txs = append(txs, tx)
			continue
		}
		if !c.Exact || c.Own != "real" {
			return nil, fmt.Errorf("%s: not a valid response transaction", c)
		}
		id, found := w.takeID(c)
		if !found {
			return nil, fmt.Errorf("%s: no pending request left", c)
		}
		txs = append(txs, w.respTx(b, id))
	}
	if _, err := w.n.AddBlock(txs...); err != nil {
		return nil, fmt.Errorf("scenario %s: block refused: %w", sc.Name, err)
	}
	for i, tx := range txs {
		b := bs[i]
		fail := func(m mismatch) {
			fails = append(fails, oBlockFail{Layer: "oracle-block", Scenario: sc, Tx: base + i, Case: b.Case, M: m})
		}
		aers, err := w.n.BC.GetAppExecResults(tx.Hash(), trigger.Application)
		if err != nil || len(aers) != 1 {
			return nil, fmt.Errorf("scenario %s tx %d: no application log: %v", sc.Name, base+i, err)
		}
		a := aers[0]
		if os.Getenv("C15_ORACLE_GAS") != "" {
			fmt.Printf("scenario %s tx %d %s: %s gas=%d\n", sc.Name, base+i, b.Case, a.VMState, a.GasConsumed)
		}
		if b.Faults {
			if a.VMState != vmstate.Fault {
				fail(mismatch{What: "execution-state", Slot: -1, Got: a.VMState.String(), Want: "FAULT"})
			}
			st.EndedAtThrow++
			continue
		}
		if a.VMState != vmstate.Halt {
			fail(mismatch{What: "execution-state", Slot: -1, Got: a.VMState.String() + " " + a.FaultException, Want: "HALT"})
			continue
		}
		if b.Case.Var == "re-request" {
			w.gen2[b.Case.Req] = append(w.gen2[b.Case.Req], w.nextID)
			w.nextID++
		}
		var got []bool
		if b.Case.Req == "" {
			if len(a.Stack) != 1 {
				return nil, fmt.Errorf("scenario %s tx %d: stack of %d items", sc.Name, base+i, len(a.Stack))
			}
			flattenLog(a.Stack[0], &got)
		} else {
			nn := 0
			for _, ev := range a.Events {
				if ev.Name == "cw" && ev.ScriptHash == w.K.Hash {
					nn++
					flattenLog(ev.Item, &got)
				}
			}
			if nn != 1 {
				return nil, fmt.Errorf("scenario %s tx %d: %d result notifications", sc.Name, base+i, nn)
			}
		}
		own, orig := w.refSigners(oSignerSet(b.Case.Own)), []signer(nil)
		if b.Case.Req != "" {
			orig = w.refSigners(oSignerSet(b.Case.Req))
		}
		k := 0
		for x := range b.Expect {
			e := &b.Expect[x]
			if b.Case.Var == "inner-throw" && e.Frame == len(b.Frames)-1 {
				continue // the log of a frame that threw is lost with it
			}
			wh, desc := b.where(e)
			if k >= len(got) {
				fail(mismatch{What: "log-short", Frame: e.Frame, Query: e.Label, Slot: -1, Got: fmt.Sprint(len(got)), Where: desc})
				break
			}
			want := witnessed(b.signersAt(e.Frame, own, orig), wh, e.Acc)
			st.Evals++
			if b.Case.Req != "" && witnessed(own, wh, e.Acc) != want {
				st.OrigDecides++
			}
			gen := ""
			if b.Case.Gen2 {
				gen = "gen2:"
			}
			st.Sits[fmt.Sprintf("block:%s%s %s<%s@%d q=%s", gen, e.Phase, b.Frames[e.Frame].Kind, callerKindOf(b.Frames, e.Frame), e.Frame, queryKind(strings.TrimSuffix(e.Label, afterRet)))] = struct{}{}
			if got[k] != want {
				fail(mismatch{What: "result-differs", Frame: e.Frame, Query: e.Label, Slot: -1, Got: fmt.Sprint(got[k]), Want: fmt.Sprint(want), Where: desc})
			} else {
				st.Classes[fmt.Sprintf("oracle-block:%s%s:in=%s:%v", gen, e.Phase, b.Frames[e.Frame].Kind, want)] = struct{}{}
				if want {
					st.True++
				} else {
					st.False++
				}
			}
			k++
		}
		if k < len(got) {
			fail(mismatch{What: "log-long", Slot: -1, Got: fmt.Sprint(len(got)), Want: fmt.Sprint(k)})
		}
	}
	return fails, nil
}

// ---- enumeration and the runner --------------------------------------------------------------

func oCases(thorough bool) []oCase {
	stepSets := [][]string{{}}
	alpha := []string{"A", "B", "C", "K", "L"}
	for _, a := range alpha {
		stepSets = append(stepSets, []string{a})
	}
	if thorough {
		for _, a := range alpha {
			for _, b := range alpha {
				if a == "L" && b == "L" {
					continue
				}
				stepSets = append(stepSets, []string{a, b})
			}
		}
	}
	var out []oCase
	for _, steps := range stepSets {
		for _, req := range []string{"T1", "T2", "T3", "T4"} {
			for _, own := range []string{"real", "menu"} {
				out = append(out, oCase{Req: req, Own: own, Steps: steps, Var: "plain"})
				out = append(out, oCase{Req: req, Own: own, Steps: steps, Var: "plain", Exact: true})
				if len(steps) > 0 && !(len(steps) == 2 && steps[0] == "L") { // the catching frame is a contract
					out = append(out, oCase{Req: req, Own: own, Steps: steps, Var: "inner-throw"})
				}
				if thorough || len(steps) == 0 {
					out = append(out, oCase{Req: req, Own: own, Steps: steps, Var: "re-request"})
				}
				if thorough || len(steps) == 0 || steps[0] == "B" {
					out = append(out, oCase{Req: req, Own: own, Steps: steps, Var: "cb-throw"})
					out = append(out, oCase{Req: req, Own: own, Steps: steps, Var: "cb-throw-try"})
				}
			}
		}
		// the same chain without any oracle (control: one signer set only)
		out = append(out, oCase{Req: "", Own: "P", Steps: steps, Var: "plain"})
	}
	return out
}

type oFail struct {
	Layer string   `json:"layer"`
	Case  oCase    `json:"case"`
	Orig  []oSigner `json:"signers_of_the_requesting_transaction"`
	Own   []oSigner `json:"signers_of_the_executing_transaction"`
	M     mismatch `json:"mismatch"`
}

func (w *oWorld) runCase(c oCase, st *oStats) ([]mismatch, bool, error) {
	b, err := w.build(c)
	if err != nil {
		return nil, false, err
	}
	var id uint64
	if c.Req != "" {
		ids := w.reqID[c.Req]
		id = ids[len(ids)-1] // block scenarios consume the ids from the front
		if w.used[id] {
			return nil, false, fmt.Errorf("request %d is gone", id)
		}
	}
	trace, state, fault, left, err := w.invoke(b, id)
	if err != nil {
		return nil, false, err
	}
	return b.judge(trace, state, fault, st), left, nil
}

func oFailOf(c oCase, m mismatch) oFail {
	f := oFail{Layer: layerOracle, Case: c, Own: oSignerSet(c.Own), M: m}
	if c.Req != "" {
		f.Orig = oSignerSet(c.Req)
	}
	return f
}

func oKey(c oCase, m mismatch) string {
	return fmt.Sprintf("oracle:%s:lvl%d:%s:%s:got-%s", c, m.Frame, m.What, m.Query, m.Got)
}

func runOracle(r *vk.Run, cov map[string]any) {
	scs := oScenarios()
	worlds := make([]*oWorld, len(scs))
	errs := make([]error, len(scs))
	r.Parallel(len(scs), func(i int) { worlds[i], errs[i] = newOracleWorld() })
	for i, e := range errs {
		if e != nil || worlds[i] == nil {
			if r.Expired() {
				return
			}
			fmt.Println("CHECK-ERROR: cannot prepare the oracle chain:", e)
			os.Exit(3)
		}
	}
	cases := oCases(r.Thorough())
	if os.Getenv("C15_ORACLE") == "blocks" { // development aid: the block scenarios alone
		cases = nil
		r.Capped()
	}
	pool := make(chan *oWorld, len(worlds))
	for _, w := range worlds {
		pool <- w
	}
	var mu sync.Mutex
	total := newOStats()
	perClass := map[string]int{}
	var invocations, leftSwitched vk.Counter
	merge := func(st *oStats) {
		mu.Lock()
		defer mu.Unlock()
		total.Evals += st.Evals
		total.True += st.True
		total.False += st.False
		total.OrigDecides += st.OrigDecides
		total.OwnDecides += st.OwnDecides
		total.EndedAtThrow += st.EndedAtThrow
		total.WentOnAfter += st.WentOnAfter
		for k := range st.Sits {
			total.Sits[k] = struct{}{}
		}
		for k := range st.Classes {
			total.Classes[k] = struct{}{}
			r.Outcome(k)
		}
	}
	report := func(class string) bool {
		mu.Lock()
		defer mu.Unlock()
		perClass[class]++
		return perClass[class] <= 2
	}
	done := r.Parallel(len(cases), func(j int) {
		c := cases[j]
		w := <-pool
		defer func() { pool <- w }()
		st := newOStats()
		var fails []mismatch
		var left bool
		var err error
		if e := chainx.Try(func() { fails, left, err = w.runCase(c, st) }); e != nil {
			err = e
		}
		if err != nil {
			fails = []mismatch{{What: "harness-error", Slot: -1, Detail: err.Error()}}
		}
		invocations.Inc()
		if left {
			leftSwitched.Inc()
		}
		merge(st)
		if j%17 == 0 {
			r.Sample(fmt.Sprintf("oracle-callback %s: %d checks (%d true, %d false; %d decided by the original signers against the own ones, %d the other way)", c, st.Evals, st.True, st.False, st.OrigDecides, st.OwnDecides))
		}
		for _, m := range fails {
			if !report(fmt.Sprintf("%s:%s:%s>%s:%d:%s", m.What, c.Var, m.Got, m.Want, m.Frame, queryKind(m.Query))) {
				continue
			}
			r.Outcome("oracle:MISMATCH:" + m.What)
			r.Violation(oKey(c, m), oFailOf(c, m))
		}
	})
	fmt.Printf("family oracle-callback: invocations=%d/%d checks=%d elapsed=%.0fs\n", done, len(cases), total.Evals, r.Elapsed())
	// the block scenarios, one per prepared chain
	btotal := newOStats()
	var blockTxs vk.Counter
	sdone := r.Parallel(len(scs), func(i int) {
		st := newOStats()
		var fails []oBlockFail
		var err error
		if e := chainx.Try(func() { fails, err = worlds[i].runScenario(scs[i], st) }); e != nil {
			err = e
		}
		if err != nil {
			fails = append(fails, oBlockFail{Layer: "oracle-block", Scenario: scs[i], Tx: -1, M: mismatch{What: "harness-error", Slot: -1, Detail: err.Error()}})
		}
		blockTxs.Add(scs[i].ntx())
		mu.Lock()
		btotal.Evals += st.Evals
		btotal.OrigDecides += st.OrigDecides
		btotal.True += st.True
		btotal.False += st.False
		btotal.EndedAtThrow += st.EndedAtThrow
		for k := range st.Sits {
			btotal.Sits[k] = struct{}{}
		}
		for k := range st.Classes {
			btotal.Classes[k] = struct{}{}
			r.Outcome(k)
		}
		mu.Unlock()
		n := 0
		for _, f := range fails {
			if n++; n > 3 {
				break
			}
			r.Outcome("oracle-block:MISMATCH:" + f.M.What)
			r.Violation(fmt.Sprintf("oracle-block:%s:tx%d:%s:lvl%d:%s:%s:got-%s", scs[i].Name, f.Tx, f.Case, f.M.Frame, f.M.What, f.M.Query, f.M.Got), f)
		}
	})
	for _, w := range worlds {
		w.n.Close()
	}
	fmt.Printf("family oracle-callback: block scenarios=%d/%d checks=%d elapsed=%.0fs\n", sdone, len(scs), btotal.Evals, r.Elapsed())
	cov["oracle_cases"] = len(cases)
	cov["oracle_invocations"] = int(invocations.Get())
	cov["oracle_checkwitness_evaluations"] = total.Evals
	cov["oracle_observed_true"], cov["oracle_observed_false"] = total.True, total.False
	cov["oracle_checks_whose_verdict_depends_on_the_set_original_decides"] = total.OrigDecides
	cov["oracle_checks_whose_verdict_depends_on_the_set_own_decides"] = total.OwnDecides
	cov["oracle_distinct_check_situations"] = len(total.Sits)
	cov["oracle_distinct_outcome_classes"] = len(total.Classes)
	cov["oracle_throwing_callbacks_ending_the_execution"] = total.EndedAtThrow
	cov["oracle_throwing_callbacks_after_which_the_entry_script_went_on"] = total.WentOnAfter
	cov["oracle_contexts_left_with_switched_signers_after_the_execution_not_judged"] = int(leftSwitched.Get())
	cov["oracle_block_scenarios"] = sdone
	cov["oracle_block_transactions"] = int(blockTxs.Get())
	cov["oracle_block_checkwitness_evaluations"] = btotal.Evals
	cov["oracle_block_checks_whose_verdict_depends_on_the_set"] = btotal.OrigDecides
	cov["oracle_block_distinct_check_situations"] = len(btotal.Sits)
	cov["oracle_block_distinct_outcome_classes"] = len(btotal.Classes)
	cov["oracle_block_faulted_responses"] = btotal.EndedAtThrow
	cov["oracle_request_transactions"] = 3
	cov["oracle_signer_menu"] = oSlots
}

// ---- replay ------------------------------------------------------------------------------------

func replayOracle(r *vk.Run, layer string) int {
	n := 0
	for i := 0; i < 5; i++ {
		w, err := newOracleWorld()
		if err != nil {
			fmt.Println("replay: cannot prepare the oracle chain:", err)
			os.Exit(3)
		}
		var lines []string
		if layer == layerOracle {
			var f oFail
			_ = r.ReadReplay(&f)
			fails, _, err := w.runCase(f.Case, newOStats())
			if err != nil {
				fmt.Println("replay:", err)
			}
			for _, m := range fails {
				if m.Frame == f.M.Frame && m.Query == f.M.Query && m.What == f.M.What {
					n++
					lines = append(lines, fmt.Sprintf("replay %d: REPRODUCED %s %s %s: got %s want %s (%s)", i, f.Case, m.What, m.Query, m.Got, m.Want, m.Where))
					r.Violation("replay:"+oKey(f.Case, m), oFailOf(f.Case, m))
				}
			}
		} else {
			var f oBlockFail
			_ = r.ReadReplay(&f)
			fails, err := w.runScenario(f.Scenario, newOStats())
			if err != nil {
				fmt.Println("replay:", err)
			}
			for _, g := range fails {
				if g.Tx == f.Tx && g.M.Frame == f.M.Frame && g.M.Query == f.M.Query && g.M.What == f.M.What {
					n++
					lines = append(lines, fmt.Sprintf("replay %d: REPRODUCED %s tx %d %s %s %s: got %s want %s (%s)", i, f.Scenario.Name, g.Tx, g.Case, g.M.What, g.M.Query, g.M.Got, g.M.Want, g.M.Where))
					r.Violation(fmt.Sprintf("replay:oracle-block:%s:tx%d:lvl%d:%s", f.Scenario.Name, g.Tx, g.M.Frame, g.M.Query), g)
				}
			}
		}
		w.n.Close()
		sort.Strings(lines)
		for _, l := range lines {
			fmt.Println(l)
		}
		if len(lines) == 0 {
			fmt.Printf("replay %d: agrees with the predicate\n", i)
		}
	}
	return n
}
