package c15

import (
	"bytes"
	"encoding/json"
	"fmt"
	"sync"

	"github.com/nspcc-dev/neo-go/pkg/core/transaction"
	"github.com/nspcc-dev/neo-go/pkg/crypto/hash"
	"github.com/nspcc-dev/neo-go/pkg/crypto/keys"
	"github.com/nspcc-dev/neo-go/pkg/io"
	"github.com/nspcc-dev/neo-go/pkg/util"

	"verif/lib/chainx"
	"verif/lib/vk"
)

// Layer 2: WitnessCondition.Match against stub contexts.

// stubCtx implements transaction.MatchContext with fixed answers.
type stubCtx struct {
	cur, calling util.Uint160
	curG, callG  [2]bool
	entry        bool
	k            [2]*keys.PublicKey
	// round 4: the groups of the current / calling script cannot be read for key i
	// (the method fails, as the engine's does without ReadStates)
	curE, callE [2]bool
}

func (s *stubCtx) GetCallingScriptHash() util.Uint160 { return s.calling }
func (s *stubCtx) GetCurrentScriptHash() util.Uint160 { return s.cur }
func (s *stubCtx) IsCalledByEntry() bool              { return s.entry }
func (s *stubCtx) CallingScriptHasGroup(k *keys.PublicKey) (bool, error) {
	for i := range s.k {
		if sameKey(s.k[i], k) {
			if s.callE[i] {
				return false, errStubGroups
			}
			return s.callG[i], nil
		}
	}
	return false, nil
}
func (s *stubCtx) CurrentScriptHasGroup(k *keys.PublicKey) (bool, error) {
	for i := range s.k {
		if sameKey(s.k[i], k) {
			if s.curE[i] {
				return false, errStubGroups
			}
			return s.curG[i], nil
		}
	}
	return false, nil
}

func (s *stubCtx) String() string {
	b := func(v bool) byte {
		if v {
			return '1'
		}
		return '0'
	}
	g := func(v, e [2]bool, i int) byte {
		if e[i] {
			return 'E' // cannot be read
		}
		return b(v[i])
	}
	return fmt.Sprintf("cur=%s,calling=%s,curGroups=%c%c,callingGroups=%c%c,byEntry=%c", s.cur.StringBE()[:4], s.calling.StringBE()[:4],
		g(s.curG, s.curE, 0), g(s.curG, s.curE, 1), g(s.callG, s.callE, 0), g(s.callG, s.callE, 1), b(s.entry))
}

type matchWorld struct {
	n    names
	ctxs []*stubCtx
	ws   []where // the same contexts as the reference predicate sees them
	// round 4 (ext_err_test.go): contexts in which group facts cannot be read
	ectxs []*stubCtx
	ews   []where
	nE    int // how many of them this tier uses (the quick ones come first)
}

// sameKey: two keys are the same key iff they are the same point, both coordinates
// (the harness's own comparison: the stub never uses the subject's Equal/Cmp).
func sameKey(a, b *keys.PublicKey) bool { return a.X.Cmp(b.X) == 0 && a.Y.Cmp(b.Y) == 0 }

func newMatchWorld() *matchWorld { return newMatchWorldKeys(false) }

// newMatchWorldKeys: with mirror, the second key of the world is the MIRROR key of
// the first one (round 6) instead of an unrelated key.
func newMatchWorldKeys(mirror bool) *matchWorld {
	m := &matchWorld{n: names{H: map[string]util.Uint160{}, K: map[string]*keys.PublicKey{}}}
	hs := []util.Uint160{}
	for i := 1; i <= 3; i++ {
		h := hash.Hash160([]byte(fmt.Sprintf("verif-c15-h%d", i)))
		hs = append(hs, h)
		m.n.H[fmt.Sprintf("H%d", i)] = h
	}
	k := [2]*keys.PublicKey{chainx.Acc(groupBase).PublicKey(), chainx.Acc(groupBase + 1).PublicKey()}
	if mirror {
		k[1] = mirrorPub(k[0])
	}
	m.n.K["K1"], m.n.K["K2"] = k[0], k[1]
	ks := [2]string{k[0].StringCompressed(), k[1].StringCompressed()}
	for _, cur := range hs {
		for _, calling := range hs {
			for g := 0; g < 16; g++ {
				for e := 0; e < 2; e++ {
					s := &stubCtx{cur: cur, calling: calling, k: k, entry: e == 1,
						curG: [2]bool{g&1 != 0, g&2 != 0}, callG: [2]bool{g&4 != 0, g&8 != 0}}
					w := where{Current: party{Hash: cur}, Calling: &party{Hash: calling}, ByEntry: s.entry}
					for i := 0; i < 2; i++ {
						if s.curG[i] {
							w.Current.Groups = append(w.Current.Groups, ks[i])
						}
						if s.callG[i] {
							w.Calling.Groups = append(w.Calling.Groups, ks[i])
						}
					}
					m.ctxs = append(m.ctxs, s)
					m.ws = append(m.ws, w)
				}
			}
		}
	}
	// contexts without a calling contract: the engine reports the zero hash as
	// "calling script hash" there (the entry context), and no group of a caller
	m.n.H["Z"] = util.Uint160{}
	for _, cur := range hs {
		for g := 0; g < 4; g++ {
			for e := 0; e < 2; e++ {
				s := &stubCtx{cur: cur, k: k, entry: e == 1, curG: [2]bool{g&1 != 0, g&2 != 0}}
				w := where{Current: party{Hash: cur}, ByEntry: s.entry}
				for i := 0; i < 2; i++ {
					if s.curG[i] {
						w.Current.Groups = append(w.Current.Groups, ks[i])
					}
				}
				m.ctxs = append(m.ctxs, s)
				m.ws = append(m.ws, w)
			}
		}
	}
	m.addErrorContexts(hs, k, ks)
	return m
}

// matchLeaves: every leaf type with two hashes / two keys (H3 is only ever a
// context value, so both hashes can fail to match).
func matchLeaves() []*scond {
	l := []*scond{{Op: "bool", B: true}, {Op: "bool", B: false}, {Op: "entry"}}
	for _, op := range []string{"hash", "byhash"} {
		for _, h := range []string{"H1", "H2"} {
			l = append(l, &scond{Op: op, Sym: h})
		}
	}
	for _, op := range []string{"group", "bygroup"} {
		for _, k := range []string{"K1", "K2"} {
			l = append(l, &scond{Op: op, Sym: k})
		}
	}
	return l
}

type mtree struct {
	s    *scond
	ref  *cond
	real transaction.WitnessCondition
	hasG bool // contains a Group / CalledByGroup leaf
}

func (m *matchWorld) mk(s *scond) mtree {
	return mtree{s: s, ref: s.ref(&m.n), real: s.real(&m.n), hasG: readsGroups(s)}
}

type matchFail struct {
	Layer string `json:"layer"`
	Tree  *scond `json:"tree"`
	Ctx   int    `json:"ctx"`
	CtxS  string `json:"ctx_text"`
	Form  string `json:"form"` // orig | binary | json
	Got   string `json:"got"`
	Want  string `json:"want"`
	World string `json:"world,omitempty"` // "mirror-keys": K2 is the mirror key of K1
}

// checkTree evaluates one tree (orig, and if rt its binary and JSON round
// trips) on every stub context. It returns the number of Match evaluations.
func (m *matchWorld) checkTree(t mtree, rt bool, report func(matchFail)) int {
	forms := []struct {
		name string
		c    transaction.WitnessCondition
	}{{"orig", t.real}}
	// binary round trip (always: cheap); the decoded trees are evaluated too when rt
	bw := io.NewBufBinWriter()
	t.real.EncodeBinary(bw.BinWriter)
	enc := bw.Bytes()
	br := io.NewBinReaderFromBuf(enc)
	dec := transaction.DecodeBinaryCondition(br)
	if br.Err != nil || dec == nil {
		report(matchFail{Tree: t.s, Ctx: -1, Form: "binary", Got: fmt.Sprint("decode error: ", br.Err), Want: "decodes (depth <= 2 is within MaxConditionNesting)"})
	} else {
		bw2 := io.NewBufBinWriter()
		dec.EncodeBinary(bw2.BinWriter)
		if !bytes.Equal(bw2.Bytes(), enc) {
			report(matchFail{Tree: t.s, Ctx: -1, Form: "binary", Got: fmt.Sprintf("%x", bw2.Bytes()), Want: fmt.Sprintf("%x", enc)})
		}
		if rt {
			forms = append(forms, struct {
				name string
				c    transaction.WitnessCondition
			}{"binary", dec})
		}
	}
	if rt {
		js, err := json.Marshal(t.real)
		var jd transaction.WitnessCondition
		if err == nil {
			jd, err = transaction.UnmarshalConditionJSON(js)
		}
		if err != nil {
			report(matchFail{Tree: t.s, Ctx: -1, Form: "json", Got: "error: " + err.Error(), Want: "round trip"})
		} else {
			forms = append(forms, struct {
				name string
				c    transaction.WitnessCondition
			}{"json", jd})
		}
	}
	n := 0
	wants := make([]bool, len(m.ctxs))
	for i := range m.ctxs {
		wants[i] = t.ref.holds(m.ws[i])
	}
	for _, f := range forms {
		bad := 0
		for i, ctx := range m.ctxs {
			got, err := f.c.Match(ctx)
			want := wants[i]
			n++
			if err != nil || got != want {
				g := fmt.Sprint(got)
				if err != nil {
					g = "error: " + err.Error()
				}
				report(matchFail{Tree: t.s, Ctx: i, CtxS: ctx.String(), Form: f.name, Got: g, Want: fmt.Sprint(want)})
				if bad++; bad >= 2 {
					break
				}
			}
		}
	}
	return n + m.checkTreeErr(t, false, report)
}

// runMatch enumerates all trees of depth <= 2 (inner And/Or nodes of up to w1
// children, root And/Or of up to 2 children; with w1 = 3 a child containing a
// 3-ary node is paired with leaves only) and checks each.
func runMatch(r *vk.Run, w1 int, cov map[string]any) {
	m := newMatchWorld()
	if r.Thorough() {
		m.nE = len(m.ectxs) // per-key failures too
	}
	leaves := matchLeaves()
	var t1 []mtree // depth <= 1
	for _, l := range leaves {
		t1 = append(t1, m.mk(l))
	}
	nLeaves := len(t1)
	for _, s := range depth1(leaves, w1) {
		t1 = append(t1, m.mk(s))
	}
	// width-2 subset of t1 (for which decoded forms are evaluated on every context)
	narrow := make([]bool, len(t1))
	for i, t := range t1 {
		narrow[i] = len(t.s.Sub) <= 2
	}
	var evals, trees vk.Counter
	var mu sync.Mutex
	perClass := map[string]int{}
	report := func(f matchFail) {
		f.Layer = "match"
		class := f.Tree.Op + ":" + f.Form
		mu.Lock()
		perClass[class]++
		n := perClass[class]
		mu.Unlock()
		if n > 3 {
			return
		}
		r.Outcome("match:MISMATCH:" + class)
		layer := "match"
		if f.World != "" {
			layer += "-" + f.World
		}
		r.Violation(fmt.Sprintf("%s:%s:%s:%s", layer, f.Tree.String(), f.CtxS, f.Form), f)
	}
	// depth <= 1
	for _, t := range t1 {
		evals.Add(m.checkTree(t, true, report))
		trees.Inc()
	}
	// trees of depth <= 1 with a CalledByContract(zero hash) leaf: the zero hash is
	// nobody's calling contract, not even where the engine reports it (entry context)
	zl := append(matchLeaves(), &scond{Op: "byhash", Sym: "Z"})
	zTrees := 0
	for _, s := range append([]*scond{zl[len(zl)-1]}, depth1(zl, 2)...) {
		if containsZ(s) {
			evals.Add(m.checkTree(m.mk(s), true, report))
			trees.Inc()
			zTrees++
		}
	}
	cov["match_zero_caller_trees"] = zTrees
	// round 6: the same trees of depth <= 1 (all forms: as built, binary and JSON round trips) in a world
	// whose two keys are a key and its mirror key: a condition hands the context the very key it was built
	// with / decoded from (the contexts compare encodings)
	mm := newMatchWorldKeys(true)
	mTrees := 0
	mreport := func(f matchFail) {
		f.World = "mirror-keys"
		report(f)
	}
	for _, l := range leaves {
		evals.Add(mm.checkTree(mm.mk(l), true, mreport))
		mTrees++
	}
	for _, s := range depth1(leaves, 2) {
		evals.Add(mm.checkTree(mm.mk(s), true, mreport))
		mTrees++
	}
	trees.Add(mTrees)
	cov["match_mirror_key_world_trees"] = mTrees
	// depth 2: root over children from t1, at least one child of depth 1.
	// job i: first child t1[i].
	r.Parallel(len(t1), func(i int) {
		a := t1[i]
		n, k := 0, 0
		if i >= nLeaves {
			n += m.checkTree(m.compose("not", a), narrow[i], report)
			k++
		}
		for _, op := range []string{"and", "or"} {
			if i >= nLeaves {
				n += m.checkTree(m.compose(op, a), narrow[i], report)
				k++
			}
			for j, b := range t1 {
				if i < nLeaves && j < nLeaves {
					continue // depth 1: done above
				}
				if (!narrow[i] && j >= nLeaves) || (!narrow[j] && i >= nLeaves) {
					continue // thorough: a child with a 3-ary node is paired with leaves only
				}
				n += m.checkTree(m.compose(op, a, b), narrow[i] && narrow[j], report)
				k++
			}
			if r.Expired() {
				break
			}
		}
		evals.Add(n)
		trees.Add(k)
	})
	if r.Thorough() {
		runMatchDeep(r, m, report) // ext_err_test.go: depth 3 over a small leaf set
		trees.Add(int(deepTrees.Get()))
		evals.Add(int(deepEvals.Get()))
	}
	matchErrCoverage(r, m, cov)
	cov["match_trees"] = int(trees.Get())
	cov["match_evaluations"] = int(evals.Get())
	cov["match_contexts"] = len(m.ctxs)
	cov["match_leaves"] = nLeaves
	cov["match_trees_depth_le1"] = len(t1)
	cov["match_inner_width"] = w1
	r.Outcome(fmt.Sprintf("match:trees-checked"))
}

func (m *matchWorld) compose(op string, ch ...mtree) mtree {
	s := &scond{Op: op}
	ref := &cond{Op: op}
	var rl []transaction.WitnessCondition
	for _, c := range ch {
		s.Sub = append(s.Sub, c.s)
		ref.Sub = append(ref.Sub, c.ref)
		rl = append(rl, c.real)
	}
	t := mtree{s: s, ref: ref}
	for _, c := range ch {
		t.hasG = t.hasG || c.hasG
	}
	switch op {
	case "not":
		t.real = &transaction.ConditionNot{Condition: rl[0]}
	case "and":
		v := transaction.ConditionAnd(rl)
		t.real = &v
	case "or":
		v := transaction.ConditionOr(rl)
		t.real = &v
	}
	return t
}
