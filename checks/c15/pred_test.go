package c15

import "github.com/nspcc-dev/neo-go/pkg/util"

// The reference predicate of C15, written from the property text only. It
// knows nothing about the VM: a "party" is a script in the call chain (its
// hash and the groups its manifest declares; scripts that are not deployed
// contracts have no groups), "where" is the place a check is executed at.

type party struct {
	Hash   util.Uint160
	Groups []string // compressed public keys (hex) of the manifest groups
}

type where struct {
	Calling *party // nil in the entry script (nobody called it)
	Current party
	ByEntry bool // the entry script itself or a script called directly by it
}

type cond struct {
	Op   string // bool not and or hash group entry byhash bygroup
	Bool bool
	Hash util.Uint160
	Key  string
	Sub  []*cond
}

type rule struct {
	Allow bool
	Cond  *cond
}

type signer struct {
	Account                                                      util.Uint160
	Global, CalledByEntry, CustomContracts, CustomGroups, Rules bool
	Contracts                                                    []util.Uint160
	Groups                                                       []string
	RuleList                                                     []rule
}

func has(l []string, k string) bool {
	for _, x := range l {
		if x == k {
			return true
		}
	}
	return false
}

func (c *cond) holds(w where) bool {
	switch c.Op {
	case "bool":
		return c.Bool
	case "not":
		return !c.Sub[0].holds(w)
	case "and":
		for _, s := range c.Sub {
			if !s.holds(w) {
				return false
			}
		}
		return true
	case "or":
		for _, s := range c.Sub {
			if s.holds(w) {
				return true
			}
		}
		return false
	case "hash":
		return w.Current.Hash == c.Hash
	case "group":
		return has(w.Current.Groups, c.Key)
	case "entry":
		return w.ByEntry
	case "byhash":
		return w.Calling != nil && w.Calling.Hash == c.Hash
	case "bygroup":
		return w.Calling != nil && has(w.Calling.Groups, c.Key)
	}
	panic("bad condition " + c.Op)
}

// allows: does the scope of s cover the place w (scopes combine by OR).
func (s *signer) allows(w where) bool {
	if s.Global {
		return true
	}
	if s.CalledByEntry && w.ByEntry {
		return true
	}
	if s.CustomContracts {
		for _, h := range s.Contracts {
			if h == w.Current.Hash {
				return true
			}
		}
	}
	if s.CustomGroups {
		for _, g := range s.Groups {
			if has(w.Current.Groups, g) {
				return true
			}
		}
	}
	if s.Rules {
		for _, r := range s.RuleList {
			if r.Cond.holds(w) {
				return r.Allow // the first matching rule decides
			}
		}
	}
	return false
}

// witnessed is the property: the calling script's own hash always passes;
// otherwise the account must have signed and its scope must cover w.
func witnessed(signers []signer, w where, account util.Uint160) bool {
	if w.Calling != nil && w.Calling.Hash == account {
		return true
	}
	for i := range signers {
		if signers[i].Account == account {
			return signers[i].allows(w)
		}
	}
	return false
}
