package c15

import "github.com/nspcc-dev/neo-go/pkg/util"

// The reference predicate of C15, written from the property text only. It
// knows nothing about the VM: a "party" is a script in the call chain (its
// hash and the groups its manifest declares; scripts that are not deployed
// contracts have no groups), "where" is the place a check is executed at.

type party struct {
	Hash   util.Uint160
	Groups []string // compressed public keys (hex) of the manifest groups
}

type where struct {
	Calling *party // nil in the entry script (nobody called it)
	Current party
	ByEntry bool // the entry script itself or a script called directly by it
	// three-valued reference only: group facts that cannot be read at this place
	// (of the current / the calling script: all of them, or the listed keys)
	CurUnreadAll, CallUnreadAll bool
	CurUnread, CallUnread       []string
}

type cond struct {
	Op   string // bool not and or hash group entry byhash bygroup
	Bool bool
	Hash util.Uint160
	Key  string
	Sub  []*cond
}

type rule struct {
	Allow bool
	Cond  *cond
}

type signer struct {
	Account                                                      util.Uint160
	Global, CalledByEntry, CustomContracts, CustomGroups, Rules bool
	Contracts                                                    []util.Uint160
	Groups                                                       []string
	RuleList                                                     []rule
}

func has(l []string, k string) bool {
	for _, x := range l {
		if x == k {
			return true
		}
	}
	return false
}

func (c *cond) holds(w where) bool {
	switch c.Op {
	case "bool":
		return c.Bool
	case "not":
		return !c.Sub[0].holds(w)
	case "and":
		for _, s := range c.Sub {
			if !s.holds(w) {
				return false
			}
		}
		return true
	case "or":
		for _, s := range c.Sub {
			if s.holds(w) {
				return true
			}
		}
		return false
	case "hash":
		return w.Current.Hash == c.Hash
	case "group":
		return has(w.Current.Groups, c.Key)
	case "entry":
		return w.ByEntry
	case "byhash":
		return w.Calling != nil && w.Calling.Hash == c.Hash
	case "bygroup":
		return w.Calling != nil && has(w.Calling.Groups, c.Key)
	}
	panic("bad condition " + c.Op)
}

// allows: does the scope of s cover the place w (scopes combine by OR).
func (s *signer) allows(w where) bool {
	if s.Global {
		return true
	}
	if s.CalledByEntry && w.ByEntry {
		return true
	}
	if s.CustomContracts {
		for _, h := range s.Contracts {
			if h == w.Current.Hash {
				return true
			}
		}
	}
	if s.CustomGroups {
		for _, g := range s.Groups {
			if has(w.Current.Groups, g) {
				return true
			}
		}
	}
	if s.Rules {
		for _, r := range s.RuleList {
			if r.Cond.holds(w) {
				return r.Allow // the first matching rule decides
			}
		}
	}
	return false
}

// witnessed is the property: the calling script's own hash always passes;
// otherwise the account must have signed and its scope must cover w.
func witnessed(signers []signer, w where, account util.Uint160) bool {
	if w.Calling != nil && w.Calling.Hash == account {
		return true
	}
	for i := range signers {
		if signers[i].Account == account {
			return signers[i].allows(w)
		}
	}
	return false
}

// ---- three-valued reference (round 4) ---------------------------------------------
//
// "... according to the first rule whose condition matches, evaluated over the
// real calling and current contracts, their groups ...": where the groups of a
// contract CANNOT be read (the executing context lacks ReadStates; a stub context
// whose group methods fail) a Group / CalledByGroup leaf has no value. The
// reference evaluates a condition strictly left to right with short circuit (the
// order in which the rule list and the sub-conditions are written): a leaf without
// a value that IS reached leaves the whole evaluation without a verdict - it turns
// neither into "matches" nor into "does not match"; leaves that are not reached do
// not matter. A rule without a verdict ends the rule list without a verdict (it
// may have been the first one that matches).

const (
	oFalse = 1 << iota // the check answers false
	oTrue              // the check answers true
	oNone              // no verdict: the check fails (FAULT in the VM, error from Match)
)

func outcomeNames(set int) string {
	s := ""
	for i, n := range []string{"false", "true", "error"} {
		if set&(1<<i) != 0 {
			if s != "" {
				s += "|"
			}
			s += n
		}
	}
	return s
}

func b2o(b bool) int {
	if b {
		return oTrue
	}
	return oFalse
}

func (w where) curUnreadable(k string) bool  { return w.CurUnreadAll || has(w.CurUnread, k) }
func (w where) callUnreadable(k string) bool { return w.CallUnreadAll || has(w.CallUnread, k) }

// needsPolicy: does the place contain a question that is knowable without
// reading anything although the implementation may insist on reading (see eval3).
func (w where) needsPolicy() bool {
	return w.Calling == nil && (w.CallUnreadAll || len(w.CallUnread) > 0) || w.CurUnreadAll
}

// eval3 returns oFalse, oTrue or oNone. lenient decides the one question the
// property leaves open: in the entry script nobody is the calling contract, so
// CalledByGroup is false without reading anything - or has no value because the
// groups cannot be read (both are accepted: allowed = union over the policies).
func (c *cond) eval3(w where, lenient bool) int {
	switch c.Op {
	case "not":
		switch c.Sub[0].eval3(w, lenient) {
		case oNone:
			return oNone
		case oTrue:
			return oFalse
		}
		return oTrue
	case "and":
		for _, s := range c.Sub {
			if v := s.eval3(w, lenient); v != oTrue {
				return v // false or no verdict: the rest is not reached
			}
		}
		return oTrue
	case "or":
		for _, s := range c.Sub {
			if v := s.eval3(w, lenient); v != oFalse {
				return v
			}
		}
		return oFalse
	case "group":
		if w.curUnreadable(c.Key) {
			return oNone
		}
	case "bygroup":
		if w.Calling == nil && w.callUnreadable(c.Key) {
			if lenient {
				return oFalse
			}
			return oNone
		}
		if w.Calling != nil && w.callUnreadable(c.Key) {
			return oNone
		}
	}
	return b2o(c.holds(w)) // a leaf that can be evaluated
}

// outcomes3: the set of answers the property accepts for a check of s at w.
// Between the scope bits (which combine by OR, in no stated order) only this is
// demanded: a bit that grants and no bit without a value -> true; no bit grants and
// none lacks a value -> false; no bit grants and one lacks a value -> no verdict;
// a granting bit next to one without a value -> true or no verdict.
func (s *signer) outcomes3(w where) int {
	if s.Global {
		return oTrue
	}
	out := 0
	for _, lenient := range []bool{false, true} {
		anyT, anyN := false, false
		add := func(v int) {
			anyT = anyT || v == oTrue
			anyN = anyN || v == oNone
		}
		if s.CalledByEntry {
			add(b2o(w.ByEntry))
		}
		if s.CustomContracts {
			in := false
			for _, h := range s.Contracts {
				in = in || h == w.Current.Hash
			}
			add(b2o(in))
		}
		if s.CustomGroups {
			switch {
			case w.CurUnreadAll && len(s.Groups) == 0 && lenient:
				add(oFalse) // no group is listed: false whatever the manifest says
			case w.CurUnreadAll:
				add(oNone)
			default:
				in := false
				for _, g := range s.Groups {
					in = in || has(w.Current.Groups, g)
				}
				add(b2o(in))
			}
		}
		if s.Rules {
			v := oFalse
			for _, r := range s.RuleList {
				x := r.Cond.eval3(w, lenient)
				if x == oNone {
					v = oNone
					break
				}
				if x == oTrue {
					v = b2o(r.Allow) // the first matching rule decides
					break
				}
			}
			add(v)
		}
		switch {
		case anyT && anyN:
			out |= oTrue | oNone
		case anyT:
			out |= oTrue
		case anyN:
			out |= oNone
		default:
			out |= oFalse
		}
		if !w.needsPolicy() {
			break
		}
	}
	return out
}

// witnessed3: the set of accepted outcomes of a check for account at w.
func witnessed3(signers []signer, w where, account util.Uint160) int {
	if w.Calling != nil && w.Calling.Hash == account {
		return oTrue
	}
	for i := range signers {
		if signers[i].Account == account {
			return signers[i].outcomes3(w)
		}
	}
	return oFalse
}
