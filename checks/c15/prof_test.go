package c15

import (
	"syscall"
	"fmt"
	"testing"
	"time"
)

func TestProf(t *testing.T) {
	w, err := newWorld()
	if err != nil {
		t.Fatal(err)
	}
	defer w.n.Close()
	chains := allChains(3)
	var bs []*built
	for _, c := range chains {
		b, _ := w.build(c)
		bs = append(bs, b)
	}
	var cfgs []cfg
	for _, s := range scopeValues()[:15] {
		cfgs = append(cfgs, cfg{Scope: s, AC: []string{"A", "C"}, AG: []string{"G2"}, Rules: []srule{{Allow: true, C: &scond{Op: "byhash", Sym: "E"}}}})
	}
	t0 := time.Now()
	var ru0, ru1 syscall.Rusage
	syscall.Getrusage(syscall.RUSAGE_SELF, &ru0)
	n := 0
	for k := 0; k < 3; k++ {
		for _, b := range bs {
			runJob(w, b, cfgs, false)
			n++
		}
	}
	syscall.Getrusage(syscall.RUSAGE_SELF, &ru1)
	fmt.Println("per invocation wall", time.Since(t0)/time.Duration(n), "cpu(us)", (ru1.Utime.Nano()+ru1.Stime.Nano()-ru0.Utime.Nano()-ru0.Stime.Nano())/int64(n)/1000)
}
