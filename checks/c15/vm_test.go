package c15

import (
	"fmt"
	"sort"
	"strings"

	"github.com/nspcc-dev/neo-go/pkg/core/block"
	"github.com/nspcc-dev/neo-go/pkg/core/interop/interopnames"
	"github.com/nspcc-dev/neo-go/pkg/core/native/nativehashes"
	"github.com/nspcc-dev/neo-go/pkg/core/transaction"
	"github.com/nspcc-dev/neo-go/pkg/crypto/hash"
	"github.com/nspcc-dev/neo-go/pkg/crypto/keys"
	"github.com/nspcc-dev/neo-go/pkg/io"
	"github.com/nspcc-dev/neo-go/pkg/neotest"
	"github.com/nspcc-dev/neo-go/pkg/smartcontract/callflag"
	"github.com/nspcc-dev/neo-go/pkg/smartcontract/manifest"
	"github.com/nspcc-dev/neo-go/pkg/smartcontract/trigger"
	"github.com/nspcc-dev/neo-go/pkg/util"
	"github.com/nspcc-dev/neo-go/pkg/vm"
	"github.com/nspcc-dev/neo-go/pkg/vm/emit"
	"github.com/nspcc-dev/neo-go/pkg/vm/opcode"
	"github.com/nspcc-dev/neo-go/pkg/vm/stackitem"
	"github.com/nspcc-dev/neo-go/pkg/vm/vmstate"

	"verif/lib/chainx"
)

// ---- the prepared chain ----------------------------------------------------------

const (
	slots      = 15  // enumerated signer configurations per transaction
	slotBase   = 100 // chainx.Acc(slotBase+i) signs in slot i
	nonSigner  = 99  // chainx.Acc(nonSigner) never signs
	groupBase  = 50  // chainx.Acc(groupBase+i) is group key G(i+1)
	fixedLabel = "fixed:B"
)

// fixedCfg is the configuration of the additional last signer of every
// transaction, whose ACCOUNT is contract B: it is witnessed inside A (its scope)
// and wherever B is the calling contract (whatever its scope says).
var fixedCfg = cfg{Scope: byte(transaction.CustomContracts), AC: []string{"A"}}

type world struct {
	n     *chainx.Node
	U     map[string]*neotest.Contract
	base  names // A B C GAS X Z, G1..G3
	fake  *block.Block
	group map[string][]string // contract name -> compressed group keys
	mfst  map[string][]byte   // extension "facts": manifests with replaced groups
	// round 6 (ext_mirror_test.go): why the contract carrying a key AND its mirror key could not be deployed ("" = deployed)
	noF string
}

func newWorld() (*world, error) {
	n, err := chainx.New(chainx.Opts{})
	if err != nil {
		return nil, err
	}
	w := &world{n: n, U: map[string]*neotest.Contract{}, group: map[string][]string{}}
	w.base = names{H: map[string]util.Uint160{}, K: map[string]*keys.PublicKey{}}
	gk := []*keys.PrivateKey{}
	for i := 0; i < 3; i++ {
		k := chainx.Acc(groupBase + i).PrivateKey()
		gk = append(gk, k)
		w.base.K[fmt.Sprintf("G%d", i+1)] = k.PublicKey()
	}
	// round 6: M<i> = the mirror key of G<i> (same X, opposite Y), gk[3..5]
	for i := 0; i < 3; i++ {
		k, err := mirrorPriv(gk[i])
		if err != nil {
			return nil, err
		}
		gk = append(gk, k)
		w.base.K[fmt.Sprintf("M%d", i+1)] = k.PublicKey()
	}
	sender := n.Validator.ScriptHash()
	for _, d := range []struct {
		name   string
		groups []int
	}{{"A", nil}, {"B", []int{0}}, {"C", []int{0, 1}}} {
		c, err := chainx.CompileU(chainx.UVariant{Name: "U" + d.name, Sender: sender})
		if err != nil {
			return nil, err
		}
		if len(d.groups) > 0 {
			var gs []manifest.Group
			for _, g := range d.groups {
				// a manifest group is valid iff it carries the group key's signature of the contract hash
				gs = append(gs, manifest.Group{PublicKey: gk[g].PublicKey(), Signature: gk[g].Sign(c.Hash.BytesBE())})
				w.group[d.name] = append(w.group[d.name], gk[g].PublicKey().StringCompressed())
			}
			if c, err = chainx.CompileU(chainx.UVariant{Name: "U" + d.name, Sender: sender, Groups: gs}); err != nil {
				return nil, err
			}
		}
		tx, err := n.DeployTx(c, n.Validator, nil)
		if err != nil {
			return nil, fmt.Errorf("deploy %s: %w", d.name, err)
		}
		if _, err := n.AddBlock(tx); err != nil {
			return nil, fmt.Errorf("deploy %s: %w", d.name, err)
		}
		if err := n.CheckHalt(tx.Hash()); err != nil {
			return nil, fmt.Errorf("deploy %s: %w", d.name, err)
		}
		cs := n.BC.GetContractState(c.Hash)
		if cs == nil || len(cs.Manifest.Groups) != len(d.groups) {
			return nil, fmt.Errorf("deploy %s: contract state/groups missing", d.name)
		}
		w.U[d.name] = c
		w.base.H[d.name] = c.Hash
	}
	// the extension's contracts: W/V have a verify(prog) method (entry contexts of
	// the Verification trigger); W is in group G2, V in none
	for _, d := range []struct {
		name   string
		groups []int
	}{{"V", nil}, {"W", []int{1}}} {
		c, err := compileW("W"+d.name, sender, nil)
		if err != nil {
			return nil, err
		}
		if len(d.groups) > 0 {
			var gs []manifest.Group
			for _, g := range d.groups {
				gs = append(gs, manifest.Group{PublicKey: gk[g].PublicKey(), Signature: gk[g].Sign(c.Hash.BytesBE())})
				w.group[d.name] = append(w.group[d.name], gk[g].PublicKey().StringCompressed())
			}
			if c, err = compileW("W"+d.name, sender, gs); err != nil {
				return nil, err
			}
		}
		tx, err := n.DeployTx(c, n.Validator, nil)
		if err != nil {
			return nil, fmt.Errorf("deploy %s: %w", d.name, err)
		}
		if _, err := n.AddBlock(tx); err != nil {
			return nil, fmt.Errorf("deploy %s: %w", d.name, err)
		}
		if err := n.CheckHalt(tx.Hash()); err != nil {
			return nil, fmt.Errorf("deploy %s: %w", d.name, err)
		}
		cs := n.BC.GetContractState(c.Hash)
		if cs == nil || len(cs.Manifest.Groups) != len(d.groups) {
			return nil, fmt.Errorf("deploy %s: contract state/groups missing", d.name)
		}
		w.U[d.name] = c
		w.base.H[d.name] = c.Hash
	}
	if err := w.deployMirrorContracts(gk, sender); err != nil {
		return nil, err
	}
	w.base.H["GAS"] = nativehashes.GasToken
	w.base.H["Z"] = util.Uint160{}
	w.base.H["X"] = hash.Hash160([]byte("verif-c15-nobody"))
	if w.fake, err = n.BC.GetFakeNextBlock(n.BC.BlockHeight() + 1); err != nil {
		return nil, err
	}
	return w, nil
}

// ---- chains ----------------------------------------------------------------------

// chain: the steps after the entry script. "A","B","C" = call run() of that U
// instance; "L" = System.Runtime.LoadScript of a dynamic script; "GA","GB","GC" =
// GAS.transfer(self, X, 0, program) whose onNEP17Payment callback runs the
// program in X with GAS (a native contract) as the calling script.
// NoRS: the last script of the chain runs without the ReadStates call flag.
//
// Extension (ext_ident_test.go): "S" = LoadScript of a copy of the ENTRY script,
// "T" = LoadScript of (a copy of) one shared dynamic script, "V","W" = run() of
// the contracts that also have verify(prog); Entry "V"/"W": the chain starts in
// the Verification trigger with that contract's verify(prog) as the entry context.
//
// Extension "facts" (ext_facts_test.go): Muts = changes of the facts scopes are
// evaluated over, made DURING the execution by a contract of the chain
// (ContractManagement.update of its own manifest groups / destroy, optionally
// rolled back by an exception caught in the calling contract).
type chain struct {
	Steps []string   `json:"steps"`
	NoRS  bool       `json:"no_read_states"`
	Entry string     `json:"entry,omitempty"`
	Muts  []mutation `json:"mutations,omitempty"`
}

func (c chain) String() string {
	s := "E"
	if c.Entry != "" {
		s = "verify(" + c.Entry + ")"
	}
	for _, x := range c.Steps {
		s += ">" + x
	}
	if c.NoRS {
		s += "/noRS"
	}
	for _, m := range c.Muts {
		s += m.String()
	}
	return s
}

// possible: a native transfer needs the full flag set in every script above
// it, and everything below a dynamic script has read-only flags at most; GAS
// cannot be entered without ReadStates either.
//
// Verification runs with read-only flags (no native transfer at all) and its
// entry context always has ReadStates; a copy of the entry script needs an entry
// SCRIPT; between the first and the last T only contracts may run (they get the
// shared script's bytes from the T above them).
func (c chain) possible() bool {
	seenL := false
	firstT, lastT := -1, -1
	for i, s := range c.Steps {
		if s == "T" {
			if firstT < 0 {
				firstT = i
			}
			lastT = i
		}
	}
	for i, s := range c.Steps {
		if s == "L" || s == "S" || s == "T" {
			seenL = true
		}
		if s[0] == 'G' && (seenL || c.Entry != "") {
			return false
		}
		if s == "S" && c.Entry != "" {
			return false
		}
		if i > firstT && i < lastT && s != "T" && !isUKind(s) {
			return false
		}
	}
	if c.NoRS && len(c.Steps) > 0 && c.Steps[len(c.Steps)-1][0] == 'G' {
		return false
	}
	if c.NoRS && len(c.Steps) == 0 && c.Entry != "" {
		return false
	}
	return true
}

func isUKind(k string) bool {
	return k == "A" || k == "B" || k == "C" || k == "V" || k == "W" || k == "D" || k == "F"
}

var stepAlphabet = []string{"A", "B", "C", "L", "GA", "GB", "GC"}

func allChains(maxLen int) []chain {
	var out []chain
	var rec func(pre []string)
	rec = func(pre []string) {
		for _, nors := range []bool{false, true} {
			c := chain{Steps: append([]string{}, pre...), NoRS: nors}
			if c.possible() {
				out = append(out, c)
			}
		}
		if len(pre) == maxLen {
			return
		}
		for _, s := range stepAlphabet {
			rec(append(pre, s))
		}
	}
	rec(nil)
	// shortest first, so that the first counterexample is short
	sort.SliceStable(out, func(i, j int) bool { return len(out[i].Steps) < len(out[j].Steps) })
	return out
}

// frame is one script on the invocation stack, as the MODEL sees it.
type frame struct {
	Kind   string // E A B C V W L S T G
	Ord    int    // S, T: which copy (1-based)
	Hash   util.Uint160
	Groups []string
	Req    callflag.CallFlag // flags requested by the caller
	Eff    callflag.CallFlag // effective flags
	Loaded facts             // extension "facts": the facts at the moment this context was loaded
}

func (f *frame) isU() bool { return isUKind(f.Kind) }

// isDyn: a script loaded with System.Runtime.LoadScript.
func (f *frame) isDyn() bool { return f.Kind == "L" || f.Kind == "S" || f.Kind == "T" }

// value computed by the script that builds the argument: "self" | "entry" |
// "caller" | "sscript" (bytes of the entry script) | "tscript" (bytes of the
// shared dynamic script, only inside a T context)
type dyn string

type query struct {
	Label string
	Val   any // []byte or dyn
	Ref   int // frame whose hash is asked for (dyn and hash queries), -1 otherwise
	Acc   util.Uint160
}

type expect struct {
	Frame int
	Q     query
	Slot  int    // enumerated signer slot asked about, -1 otherwise
	Sit   string // situation class (for the coverage statistics)
	Cls   string // coarse outcome class
	Desc  string
	// extension "facts" (nil/zero for every other chain)
	Facts facts  // manifest groups of every deployed contract at the moment of this check (absent = destroyed)
	Seg   int    // checks with the same Seg run in the same context with nothing executed in between
	Rel   string // relation of the executing context to the latest change
}

// built is a chain compiled once and reused for every signer batch.
type built struct {
	Chain  chain
	Script []byte
	Flags  callflag.CallFlag // of the entry script
	Frames []*frame
	Expect []expect
	N      names // base names + E, L
}

type builder struct {
	w      *world
	b      *built
	err    error
	ext    bool           // chain of the identity extension: level markers are asked first
	sBody  map[int][]byte // ordinal -> code of that copy of the entry script
	tBody  map[int][]byte // ordinal -> code of that copy of the shared dynamic script
	tBytes []byte         // the shared dynamic script once assembled
	factsBuilder
}

func keyBytes(i int) []byte { return chainx.Acc(i).PublicKey().Bytes() }

func (bl *builder) queries(i int) (pre, post []query) {
	f := bl.b.Frames[i]
	if bl.b.Chain.NoRS && i != len(bl.b.Frames)-1 {
		return // the levels above are checked by the variant with all flags
	}
	if bl.ext {
		m := markerAccount(i)
		pre = append(pre, query{Label: "level-marker", Val: m.BytesBE(), Ref: -1, Acc: m})
	}
	for s := 0; s < slots; s++ {
		a := chainx.Acc(slotBase + s).ScriptHash()
		pre = append(pre, query{Label: fmt.Sprintf("s%d:hash", s), Val: a.BytesBE(), Ref: -1, Acc: a})
		post = append(post, query{Label: fmt.Sprintf("s%d:key", s), Val: keyBytes(slotBase + s), Ref: -1, Acc: a})
	}
	ns := chainx.Acc(nonSigner).ScriptHash()
	pre = append(pre, query{Label: fixedLabel, Val: bl.w.base.H["B"].BytesBE(), Ref: -1, Acc: bl.w.base.H["B"]})
	pre = append(pre, query{Label: "nonsigner:hash", Val: ns.BytesBE(), Ref: -1, Acc: ns})
	// the zero hash is what the VM reports as "calling script" of the entry context: nobody signs for it,
	// and it is nobody's calling CONTRACT, so it is never witnessed
	pre = append(pre, query{Label: "zero:hash", Val: make([]byte, util.Uint160Size), Ref: -1, Acc: util.Uint160{}})
	post = append(post, query{Label: "nonsigner:key", Val: keyBytes(nonSigner), Ref: -1, Acc: ns})
	// round 6: the mirror key of signer 0's key is another key, hence another account that did not sign
	mk := mirrorPub(chainx.Acc(slotBase).PublicKey())
	post = append(post, query{Label: "mirror-of-s0-key", Val: mk.Bytes(), Ref: -1, Acc: mk.GetScriptHash()})
	// hashes of the scripts of the chain: the calling one, the current one, the entry
	if i > 0 {
		c := bl.b.Frames[i-1]
		q := query{Label: "caller", Ref: i - 1}
		switch {
		case c.isU() || c.Kind == "G":
			q.Val = c.Hash.BytesBE()
		case f.isDyn():
			q.Val = dyn("caller") // System.Runtime.GetCallingScriptHash inside the dynamic script
		default:
			q.Val = dyn("self") // evaluated by the calling script while it builds the program
		}
		pre = append(pre, q)
		if c.isU() || c.Kind == "G" {
			// round 6: the calling contract's hash read in the other byte order is nobody's calling contract
			rh := reversedHash(c.Hash)
			pre = append(pre, query{Label: "caller-reversed", Val: rh.BytesBE(), Ref: -1, Acc: rh})
		}
	}
	if f.isU() {
		pre = append(pre, query{Label: "self", Val: f.Hash.BytesBE(), Ref: i})
	} else {
		pre = append(pre, query{Label: "self", Val: dyn("self"), Ref: i})
	}
	pre = append(pre, query{Label: "entry", Val: dyn("entry"), Ref: 0})
	return
}

func emitVal(w *io.BinWriter, v any) {
	switch x := v.(type) {
	case dyn:
		switch x {
		case "self":
			emit.Syscall(w, interopnames.SystemRuntimeGetExecutingScriptHash)
		case "entry":
			emit.Syscall(w, interopnames.SystemRuntimeGetEntryScriptHash)
		case "caller":
			emit.Syscall(w, interopnames.SystemRuntimeGetCallingScriptHash)
		case "sscript": // the transaction's script = the entry script
			emit.Syscall(w, interopnames.SystemRuntimeGetScriptContainer)
			emit.Int(w, 7)
			emit.Opcodes(w, opcode.PICKITEM)
		case "tscript": // kept in static slot 0 by every T context
			emit.Opcodes(w, opcode.LDSFLD0)
		default:
			panic("bad dyn")
		}
	case []any:
		if len(x) == 0 {
			emit.Opcodes(w, opcode.NEWARRAY0)
			return
		}
		for i := len(x) - 1; i >= 0; i-- {
			emitVal(w, x[i])
		}
		emit.Int(w, int64(len(x)))
		emit.Opcodes(w, opcode.PACK)
	case []byte:
		emit.Bytes(w, x)
	case nil:
		emit.Opcodes(w, opcode.PUSHNULL)
	case int:
		emit.Int(w, int64(x))
	case string:
		emit.String(w, x)
	default:
		panic(fmt.Sprintf("emitVal: %T", v))
	}
}

// body compiles frame i (and everything below it): a program ([]any) for a
// contract instance, a script ([]byte) for the entry and dynamic scripts.
// Expectations are appended in execution order.
func (bl *builder) body(i int) any {
	b := bl.b
	f := b.Frames[i]
	next := i + 1
	if f.isU() {
		bl.enter(i)
		pre, post := bl.queries(i)
		prog := []any{}
		for _, q := range pre {
			prog = append(prog, []any{chainx.OpCheckWitness, q.Val})
			bl.expect(i, q)
		}
		mut := bl.mutAt(i)
		if mut != nil {
			// the contract changes its own facts, then asks everything again in the same context
			prog = append(prog, bl.mutOp(f, mut))
			bl.apply(f, mut)
			for _, q := range pre {
				q.Label += afterChange
				prog = append(prog, []any{chainx.OpCheckWitness, q.Val})
				bl.expect(i, q)
			}
		}
		if next < len(b.Frames) {
			nf := b.Frames[next]
			undo := bl.beforeCall(next)
			var call []any
			switch {
			case nf.isU():
				call = []any{chainx.OpRun, nf.Hash.BytesBE(), int(nf.Req), bl.body(next)}
			case nf.isDyn():
				script, args := bl.dynLoad(next)
				call = []any{chainx.OpLoadScript, script, int(nf.Req), args}
			case nf.Kind == "G":
				x := b.Frames[next+1]
				call = []any{chainx.OpCall, nf.Hash.BytesBE(), "transfer", int(callflag.All),
					[]any{f.Hash.BytesBE(), x.Hash.BytesBE(), 0, bl.body(next + 1)}}
			}
			if undo {
				// the callee throws after its change: caught here, the change is rolled back
				call = []any{chainx.OpTry, []any{call}, []any{}}
			}
			prog = append(prog, call)
			bl.afterCall(undo)
		}
		if mut != nil && mut.Throw {
			return append(prog, []any{chainx.OpThrow})
		}
		for _, q := range post {
			prog = append(prog, []any{chainx.OpCheckWitness, q.Val})
			bl.expect(i, q)
		}
		return prog
	}
	s := bl.code(i)
	if i == 0 && len(bl.sBody) > 0 {
		// the entry script and its copies are ONE script
		s = assembleTwin(s, bl.sBody, false)
		for _, x := range b.Frames {
			if x.Kind == "S" {
				x.Hash = hash.Hash160(s)
			}
		}
	}
	f.Hash = hash.Hash160(s)
	return s
}

// dynLoad compiles the dynamic script frame `next` and returns the values of
// the script and argument parameters of the System.Runtime.LoadScript loading it.
func (bl *builder) dynLoad(next int) (script, args any) {
	nf := bl.b.Frames[next]
	switch nf.Kind {
	case "L":
		return bl.body(next), []any{}
	case "S":
		bl.sBody[nf.Ord] = bl.code(next)
		return dyn("sscript"), []any{nf.Ord}
	case "T":
		bl.tBody[nf.Ord] = bl.code(next)
		if nf.Ord > 1 {
			return dyn("tscript"), []any{dyn("tscript"), nf.Ord}
		}
		// the first T: all the deeper copies are compiled by now (a chain is linear)
		bl.tBytes = assembleTwin(nil, bl.tBody, true)
		for _, x := range bl.b.Frames {
			if x.Kind == "T" {
				x.Hash = hash.Hash160(bl.tBytes)
			}
		}
		return bl.tBytes, []any{bl.tBytes, 1}
	}
	panic("dynLoad: " + nf.Kind)
}

// assembleTwin builds a polymorphic script.
//
//	entry twin (own=false): DEPTH JMPIF copies; <body0> RET; copies: ... ABORT
//	    (the entry context starts with an empty stack, a copy with [k])
//	shared dynamic script (own=true): INITSSLOT 1; STSFLD0; ... ABORT
//	    (every copy starts with [bytes of the script, k], bytes on top)
//	copy k: DUP PUSHk NUMEQUAL JMPIFNOT next; DROP <body k> RET
func assembleTwin(body0 []byte, copies map[int][]byte, own bool) []byte {
	w := io.NewBufBinWriter()
	jmp := func(op opcode.Opcode, skip int) { // jump over `skip` bytes following the instruction
		w.WriteB(byte(op))
		w.WriteU32LE(uint32(int32(5 + skip)))
	}
	if own {
		emit.Opcodes(w.BinWriter, opcode.INITSSLOT)
		w.WriteB(1)
		emit.Opcodes(w.BinWriter, opcode.STSFLD0)
	} else {
		emit.Opcodes(w.BinWriter, opcode.DEPTH)
		jmp(opcode.JMPIFL, len(body0)+1)
		w.WriteBytes(body0)
		emit.Opcodes(w.BinWriter, opcode.RET)
	}
	for k := 1; k <= len(copies); k++ {
		c, ok := copies[k]
		if !ok {
			panic("assembleTwin: missing copy")
		}
		emit.Opcodes(w.BinWriter, opcode.DUP)
		emit.Int(w.BinWriter, int64(k))
		emit.Opcodes(w.BinWriter, opcode.NUMEQUAL)
		jmp(opcode.JMPIFNOTL, len(c)+2)
		emit.Opcodes(w.BinWriter, opcode.DROP)
		w.WriteBytes(c)
		emit.Opcodes(w.BinWriter, opcode.RET)
	}
	emit.Opcodes(w.BinWriter, opcode.ABORT)
	if w.Err != nil {
		panic(w.Err)
	}
	return w.Bytes()
}

// code compiles the straight-line code of script frame i (entry script or
// dynamic script): checks, the next step of the chain, checks.
func (bl *builder) code(i int) []byte {
	b := bl.b
	bl.enter(i)
	pre, post := bl.queries(i)
	next := i + 1
	w := io.NewBufBinWriter()
	cw := func(q query) {
		emitVal(w.BinWriter, q.Val)
		emit.Syscall(w.BinWriter, interopnames.SystemRuntimeCheckWitness)
		emit.Opcodes(w.BinWriter, opcode.DROP)
		bl.expect(i, q)
	}
	for _, q := range pre {
		cw(q)
	}
	if next < len(b.Frames) {
		nf := b.Frames[next]
		bl.beforeCall(next)
		switch {
		case nf.isU():
			emitVal(w.BinWriter, []any{bl.body(next)})
			emit.Int(w.BinWriter, int64(nf.Req))
			emit.String(w.BinWriter, "run")
			emit.Bytes(w.BinWriter, nf.Hash.BytesBE())
			emit.Syscall(w.BinWriter, interopnames.SystemContractCall)
		case nf.isDyn():
			script, args := bl.dynLoad(next)
			emitVal(w.BinWriter, args)
			emit.Int(w.BinWriter, int64(nf.Req))
			emitVal(w.BinWriter, script)
			emit.Syscall(w.BinWriter, interopnames.SystemRuntimeLoadScript)
		case nf.Kind == "G":
			x := b.Frames[next+1]
			emitVal(w.BinWriter, []any{dyn("self"), x.Hash.BytesBE(), 0, bl.body(next + 1)})
			emit.Int(w.BinWriter, int64(callflag.All))
			emit.String(w.BinWriter, "transfer")
			emit.Bytes(w.BinWriter, nf.Hash.BytesBE())
			emit.Syscall(w.BinWriter, interopnames.SystemContractCall)
		}
		emit.Opcodes(w.BinWriter, opcode.DROP)
		bl.afterCall(false)
	}
	for _, q := range post {
		cw(q)
	}
	if w.Err != nil {
		bl.err = w.Err
	}
	return w.Bytes()
}

func (w *world) build(c chain) (*built, error) {
	b := &built{Chain: c, Flags: callflag.All}
	b.Frames = []*frame{{Kind: "E", Req: callflag.All}}
	if c.Entry != "" {
		// Verification trigger: the entry context is the contract's verify method, read-only
		b.Frames = []*frame{{Kind: c.Entry, Hash: w.base.H[c.Entry], Groups: w.group[c.Entry], Req: callflag.ReadOnly}}
	}
	ord := map[string]int{}
	for _, s := range c.Steps {
		switch {
		case s == "L":
			b.Frames = append(b.Frames, &frame{Kind: "L", Req: callflag.All})
		case s == "S" || s == "T":
			ord[s]++
			b.Frames = append(b.Frames, &frame{Kind: s, Ord: ord[s], Req: callflag.All})
		case s[0] == 'G':
			b.Frames = append(b.Frames, &frame{Kind: "G", Hash: w.base.H["GAS"], Req: callflag.All},
				&frame{Kind: s[1:], Hash: w.base.H[s[1:]], Groups: w.group[s[1:]], Req: callflag.All})
		default:
			b.Frames = append(b.Frames, &frame{Kind: s, Hash: w.base.H[s], Groups: w.group[s], Req: callflag.All})
		}
	}
	if c.NoRS {
		b.Frames[len(b.Frames)-1].Req = callflag.All &^ callflag.ReadStates
	}
	for i, f := range b.Frames {
		switch {
		case i == 0:
			f.Eff = f.Req
		case f.isDyn():
			f.Eff = b.Frames[i-1].Eff & callflag.ReadOnly & f.Req
		default:
			f.Eff = b.Frames[i-1].Eff & f.Req
		}
	}
	b.Flags = b.Frames[0].Eff
	bl := &builder{w: w, b: b, ext: c.family() != "base", sBody: map[int][]byte{}, tBody: map[int][]byte{}}
	if err := bl.initFacts(); err != nil {
		return nil, err
	}
	if c.Entry != "" {
		// the invocation script of the witness pushes the program verify() interprets
		iw := io.NewBufBinWriter()
		emitVal(iw.BinWriter, bl.body(0))
		if iw.Err != nil {
			return nil, iw.Err
		}
		b.Script = iw.Bytes()
	} else {
		b.Script = bl.body(0).([]byte)
	}
	if bl.err != nil {
		return nil, bl.err
	}
	b.N = names{H: map[string]util.Uint160{}, K: w.base.K}
	for k, v := range w.base.H {
		b.N.H[k] = v
	}
	b.N.H["E"] = b.Frames[0].Hash
	if len(c.Muts) > 0 {
		b.N.H["M"] = b.Frames[c.Muts[0].At].Hash // the (first) contract whose facts change
	}
	b.N.H["L"] = w.base.H["X"]
	for _, f := range b.Frames {
		if f.Kind == "L" || f.Kind == "T" {
			b.N.H["L"] = f.Hash
			break
		}
	}
	addReversedTwins(b.N.H)
	for i := range b.Expect {
		e := &b.Expect[i]
		if e.Q.Ref >= 0 {
			e.Q.Acc = b.Frames[e.Q.Ref].Hash
		}
		e.Slot = -1
		if strings.HasPrefix(e.Q.Label, "s") && strings.Contains(e.Q.Label, ":") {
			fmt.Sscanf(e.Q.Label, "s%d:", &e.Slot)
		}
		f := b.Frames[e.Frame]
		e.Desc = "in " + f.Kind
		if e.Frame > 0 {
			e.Desc += " called by " + b.Frames[e.Frame-1].Kind
		}
		e.Desc += fmt.Sprintf(" at depth %d", e.Frame)
		tags := identityTags(b.Frames, e.Frame)
		trig := ""
		if c.Entry != "" {
			trig = "verify:"
		}
		e.Cls = fmt.Sprintf("vm:%sin=%s:depth=%d%s:", trig, f.Kind, min(e.Frame, 2), tags)
		e.Sit = fmt.Sprintf("%s%s<%s@%d%s rs=%v q=%s", trig, f.Kind, callerKind(b, e.Frame), min(e.Frame, 2), tags, f.Eff.Has(callflag.ReadStates), queryKind(e.Q.Label))
		if e.Rel != "" {
			e.Cls = fmt.Sprintf("vm:facts:%s:in=%s:", e.Rel, f.Kind)
			e.Sit = fmt.Sprintf("facts:%s %s", e.Rel, e.Sit)
		}
	}
	return b, nil
}

// ---- one invocation -----------------------------------------------------------------

type obs struct {
	Cur   util.Uint160
	Q     []byte
	Res   int // 0 false, 1 true, 2 error
	Err   string
	Flags callflag.CallFlag
	// extension "facts": what ContractManagement holds at this moment (read through the
	// execution's own DAO) for the executing and the calling script; nil = no such contract
	HaveG       bool
	CurG, CallG []string
}

var cwID = interopnames.ToID([]byte(interopnames.SystemRuntimeCheckWitness))

// invoke runs the chain's script as a test invocation of a transaction with
// the given signers and records every System.Runtime.CheckWitness the real VM
// executes (who executes it, the argument, the result). With cont, a failing
// CheckWitness (which FAULTs the real VM) is recorded and the execution goes on
// with a placeholder, so that the remaining checks of the chain are observed in
// the same run; CheckWitness has no side effects.
func (w *world) invoke(b *built, signers []transaction.Signer, cont bool) (trace []obs, state vmstate.State, fault string, err error) {
	script := b.Script
	if b.Chain.Entry != "" {
		script = []byte{byte(opcode.RET)} // the transaction's own script is not run by the Verification trigger
	}
	tx := transaction.New(script, 0)
	tx.Signers = signers
	tx.ValidUntilBlock = w.fake.Index + 1
	trig := trigger.Application
	if b.Chain.Entry != "" {
		trig = trigger.Verification
	}
	ic, err := w.n.BC.GetTestVM(trig, tx, w.fake)
	if err != nil {
		return nil, 0, "", err
	}
	defer ic.Finalize()
	orig := ic.VM.SyscallHandler
	ic.VM.SyscallHandler = func(v *vm.VM, id uint32) error {
		if id != cwID {
			return orig(v, id)
		}
		o := obs{Cur: v.GetCurrentScriptHash(), Flags: v.Context().GetCallFlags()}
		if len(b.Chain.Muts) > 0 {
			o.HaveG, o.CurG, o.CallG = true, storedGroups(ic, o.Cur), storedGroups(ic, v.GetCallingScriptHash())
		}
		if v.Estack().Len() > 0 {
			if bs, e := v.Estack().Peek(0).Item().TryBytes(); e == nil {
				o.Q = append([]byte{}, bs...)
			}
		}
		e := orig(v, id)
		if e != nil {
			o.Res, o.Err = 2, e.Error()
			trace = append(trace, o)
			if cont {
				v.Estack().PushItem(stackitem.Bool(false))
				return nil
			}
			return e
		}
		if v.Estack().Peek(0).Bool() {
			o.Res = 1
		}
		trace = append(trace, o)
		return nil
	}
	if b.Chain.Entry != "" {
		// exactly what witness verification does: the contract's verify method is the entry context
		if err := w.n.BC.InitVerificationContext(ic, b.Frames[0].Hash, &transaction.Witness{InvocationScript: b.Script}); err != nil {
			return nil, 0, "", err
		}
	} else {
		ic.VM.LoadScriptWithFlags(b.Script, b.Flags)
	}
	rerr := ic.VM.Run()
	if rerr != nil {
		fault = rerr.Error()
	}
	return trace, ic.VM.State(), fault, nil
}

// batch is the signer list of one transaction: configurations in slots, then
// the fixed contract signer.
func batchSigners(cfgs []cfg, n *names) (real []transaction.Signer, ref []signer) {
	for i, c := range cfgs {
		a := chainx.Acc(slotBase + i).ScriptHash()
		real = append(real, c.real(a, n))
		ref = append(ref, c.ref(a, n))
	}
	real = append(real, fixedCfg.real(n.H["B"], n))
	ref = append(ref, fixedCfg.ref(n.H["B"], n))
	return
}

type mismatch struct {
	What   string `json:"what"`
	Frame  int    `json:"level"`
	Query  string `json:"query"`
	Slot   int    `json:"slot"` // -1: not an enumerated signer
	Got    string `json:"got"`
	Want   string `json:"want"`
	Where  string `json:"where"`
	Detail string `json:"detail,omitempty"`
}

type evalStats struct {
	Evals, True, False, Undecided int
	FactsDep                      int // extension "facts": verdicts that differ from the one over the groups at context load
	// round 4, checks executed without ReadStates: the reference has no verdict (must fail) /
	// accepts a verdict or a failure / has a verdict (must not fail)
	NoRSNone, NoRSEither, NoRSVerdict int
	Contexts                      map[string]struct{}
	Classes                       map[string]struct{}
}

func (st *evalStats) class(c string) {
	if st.Classes != nil {
		st.Classes[c] = struct{}{}
	}
}

func resName(r int) string { return [...]string{"false", "true", "error"}[r] }

// judge compares a trace with the predicate.
func judge(b *built, ref []signer, ncfg int, trace []obs, state vmstate.State, fault string, st *evalStats) []mismatch {
	var out []mismatch
	if state != vmstate.Halt {
		out = append(out, mismatch{What: "execution-did-not-halt", Slot: -1, Got: state.String(), Want: "HALT", Detail: fault})
	}
	for k, e := range b.Expect {
		if k >= len(trace) {
			out = append(out, mismatch{What: "trace-short", Frame: e.Frame, Query: e.Q.Label, Slot: -1, Got: fmt.Sprint(len(trace)), Want: fmt.Sprint(len(b.Expect))})
			break
		}
		o := trace[k]
		f := b.Frames[e.Frame]
		w := where{Current: party{Hash: f.Hash, Groups: e.groupsOf(f)}, ByEntry: e.Frame <= 1}
		desc := e.Desc
		if e.Frame > 0 {
			c := b.Frames[e.Frame-1]
			w.Calling = &party{Hash: c.Hash, Groups: e.groupsOf(c)}
		}
		slot := e.Slot
		if slot >= ncfg {
			continue // slot not used by this batch (the account did not sign: covered by nonsigner)
		}
		// The model's idea of where the check runs must be the VM's.
		if o.Cur != f.Hash || o.Flags != f.Eff {
			out = append(out, mismatch{What: "context-differs", Frame: e.Frame, Query: e.Q.Label, Slot: slot,
				Got: fmt.Sprintf("script %s flags %05b", o.Cur.StringLE(), o.Flags), Want: fmt.Sprintf("script %s flags %05b", f.Hash.StringLE(), f.Eff), Where: desc})
			continue
		}
		var acc util.Uint160
		switch len(o.Q) {
		case 20:
			acc, _ = util.Uint160DecodeBytesBE(o.Q)
		case 33:
			acc = e.Q.Acc // the key's account: checked to be the asked one below
		}
		if len(o.Q) == 20 && acc != e.Q.Acc || len(o.Q) == 33 && string(o.Q) != string(e.Q.Val.([]byte)) || len(o.Q) != 20 && len(o.Q) != 33 {
			out = append(out, mismatch{What: "argument-differs", Frame: e.Frame, Query: e.Q.Label, Slot: slot, Got: fmt.Sprintf("%x", o.Q), Want: e.Q.Acc.StringBE(), Where: desc})
			continue
		}
		if o.HaveG {
			// the model's idea of what ContractManagement holds must be the chain's
			var cg []string
			if w.Calling != nil {
				cg = w.Calling.Groups
			}
			if got, want := groupList(o.CurG)+" / "+groupList(o.CallG), groupList(w.Current.Groups)+" / "+groupList(cg); got != want {
				out = append(out, mismatch{What: "stored-groups-differ-from-model", Frame: e.Frame, Query: e.Q.Label, Slot: -1, Got: got, Want: want, Where: desc})
				continue
			}
		}
		want := witnessed(ref, w, acc)
		// three-valued reference: without ReadStates no group of any contract can be read
		w.CurUnreadAll = !f.Eff.Has(callflag.ReadStates)
		w.CallUnreadAll = w.CurUnreadAll
		allowed := witnessed3(ref, w, acc)
		if !w.CurUnreadAll && allowed != b2o(want) || allowed&b2o(!want) != 0 {
			// the two references are one predicate: a verdict of the three-valued one is the two-valued answer
			out = append(out, mismatch{What: "harness-references-disagree", Frame: e.Frame, Query: e.Q.Label, Slot: slot, Got: outcomeNames(allowed), Want: fmt.Sprint(want), Where: desc})
			continue
		}
		st.Evals++
		if e.Facts != nil && e.dependsOnChange(b, ref, acc, want) {
			st.FactsDep++
		}
		if st.Contexts != nil {
			st.Contexts[e.Sit] = struct{}{}
		}
		if w.CurUnreadAll && slot >= 0 { // enumerated signers only (the other queries never need a manifest)
			switch {
			case allowed == oNone:
				st.NoRSNone++
			case allowed&oNone != 0:
				st.NoRSEither++
			default:
				st.NoRSVerdict++
			}
		}
		if allowed&(1<<o.Res) == 0 {
			m := mismatch{What: "result-differs", Frame: e.Frame, Query: e.Q.Label, Slot: slot, Got: resName(o.Res), Want: outcomeNames(allowed), Where: desc}
			if o.Res == 2 {
				m.What, m.Detail = "check-failed", o.Err
			}
			out = append(out, m)
			continue
		}
		switch {
		case o.Res == 2:
			st.Undecided++ // no verdict: the check needs a manifest it cannot read
			st.class(e.Cls + "error-without-ReadStates")
		case want:
			st.True++
			st.class(e.Cls + "true")
		default:
			st.False++
			st.class(e.Cls + "false")
		}
	}
	if len(trace) > len(b.Expect) {
		out = append(out, mismatch{What: "trace-long", Slot: -1, Got: fmt.Sprint(len(trace)), Want: fmt.Sprint(len(b.Expect))})
	}
	return out
}

// queryKind: "s3:hash" -> "signer-hash", other labels unchanged.
func queryKind(label string) string {
	if i := strings.Index(label, ":"); i > 0 && label[0] == 's' && label != "self" {
		return "signer-" + label[i+1:]
	}
	return label
}

func callerKind(b *built, i int) string {
	if i == 0 {
		return "-"
	}
	return b.Frames[i-1].Kind
}
