package c16

import (
	"fmt"
	"sort"
	"strings"

	"github.com/nspcc-dev/neo-go/pkg/neotest"

	"verif/lib/chainx"
	"verif/lib/vk"
)

// blockCase is one transaction of the in-block subset (replay detail).
type blockCase struct {
	Sub     string   `json:"sub"`
	Op      string   `json:"op"`
	Args    string   `json:"args"`
	F       int      `json:"flags"`
	FName   string   `json:"flags_name"`
	State   string   `json:"state"`
	Diff    []string `json:"storage_diff_deployed_contracts"`
	Notifs  []string `json:"notifications"`
	What    string   `json:"what"`
	TestVM  *effects `json:"test_vm_effects,omitempty"`
	Fault   string   `json:"fault,omitempty"`
	History int      `json:"transactions_before"`
}

// flagsInBlocks runs the operations of the compiled contract, every flag set,
// as real transactions (one per block) on a chain of its own and judges what
// the ledger recorded: storage of the deployed contracts before/after the
// block and the notifications of the transaction's execution result. The same
// script is first executed in a test VM on the same state; both must agree.
func flagsInBlocks(r *vk.Run, only *blockCase) (txs, halted, agree int) {
	w, err := newWorld()
	if err != nil {
		fmt.Println("CHECK-ERROR: cannot prepare the chain:", err)
		return
	}
	defer w.n.Close()
	ids := []int32{1, 2, 3, 4, 5}
	signer := []neotest.Signer{w.n.Validator}
	reported := 0
	for _, s := range append(w.uSpecs(), w.safeUSpecs()...) {
		for _, combo := range s.Combos {
			for _, f := range flagOrder {
				if only != nil && (only.Op != s.Op || only.Args != labels(combo) || only.F != f) {
					continue
				}
				if r.Expired() {
					return
				}
				script := callScript(w.UA, s.Method, f, combo[0].V)
				tv := w.run(script, fAll)
				before := w.n.StorageDump(ids)
				tx, err := w.n.MakeTx(script, signer)
				if err != nil {
					r.Outcome("flags-block:tx-not-buildable")
					continue
				}
				if _, err := w.n.AddBlock(tx); err != nil {
					r.Outcome("flags-block:block-rejected")
					continue
				}
				txs++
				bc := blockCase{Sub: "flags-block", Op: s.Op, Args: labels(combo), F: f, FName: fname(f), History: txs - 1}
				aers, err := w.n.BC.GetAppExecResults(tx.Hash(), 0x40)
				if err != nil || len(aers) != 1 {
					r.Outcome("flags-block:no-aer")
					continue
				}
				bc.State, bc.Fault = aers[0].VMState.String(), aers[0].FaultException
				for _, ev := range aers[0].Events {
					bc.Notifs = append(bc.Notifs, short(ev.ScriptHash)+":"+ev.Name)
				}
				after := w.n.StorageDump(ids)
				for k, v := range after {
					if o, ok := before[k]; !ok || o != v {
						bc.Diff = append(bc.Diff, k)
					}
				}
				for k := range before {
					if _, ok := after[k]; !ok {
						bc.Diff = append(bc.Diff, k)
					}
				}
				sort.Strings(bc.Diff)
				r.Outcome("flags-block:" + bc.State)
				if bc.State != "HALT" {
					continue
				}
				halted++
				viol := func(kind, what string) {
					bc.What, bc.TestVM = what, tv
					reported++
					if reported <= 3 {
						r.Violation(fmt.Sprintf("flags-block:%s:%s:%s", fname(f), s.Op, kind), bc)
					}
				}
				// the test VM saw the same thing on the same state
				var tvDiff []string
				for _, d := range tv.Diff {
					if !strings.HasPrefix(d, "-") {
						tvDiff = append(tvDiff, d)
					}
				}
				if tv.State == "HALT" && strings.Join(tvDiff, ",") == strings.Join(bc.Diff, ",") && strings.Join(tv.Notifs, ",") == strings.Join(bc.Notifs, ",") {
					agree++
				} else {
					viol("test-vm-and-block-disagree", "the effects recorded by the ledger differ from the effects of the same script in a test VM on the same state")
				}
				if len(bc.Diff) > 0 && f&fW == 0 {
					viol("storage-changed-without-WriteStates", "a transaction changed contract storage through code running without WriteStates")
				}
				if len(bc.Notifs) > 0 && f&fN == 0 {
					viol("notified-without-AllowNotify", "a transaction's execution result holds a notification of code running without AllowNotify")
				}
				if s.Safe && (len(bc.Diff) > 0 || len(bc.Notifs) > 0) {
					viol("safe-method-had-effect", "a manifest-safe method changed storage or notified")
				}
			}
		}
	}
	return
}

var _ = chainx.OpPut
