// C16: call flags and manifest permissions confine what called code can do.
//
// Sub-checks (DESIGN.md section 4, C16):
//
//	flags  - for each of the 16 flag sets f and every operation of the menu
//	         (compiled contract ops, every system call, every method of every
//	         native contract with type-directed arguments): code running with
//	         f is executed on the real chain code in a test VM and its EFFECTS
//	         are read from the interop context (storage change set of all
//	         contracts, notification list, executed script hashes/invocations).
//	safe   - every manifest-safe method, whatever flags are requested.
//	chain  - GetCallFlags along call chains of length <= 3, all 16x16 requests.
//	flags-block - the compiled contract's operations x 16 flag sets as real
//	         transactions (one per block): storage of the deployed contracts
//	         before/after and the notifications of the execution result; must
//	         agree with the test VM and satisfy the same oracle.
//	perm   - every permission shape (and pairs) x callees x methods: real
//	         System.Contract.Call (test VM, and in blocks for the single-
//	         permission callers) and pure IsAllowed/CanCall against the
//	         property's predicate.
//
// Extensions (author round; DESIGN.md 7.4 style summary in the files themselves):
//
//	universal - every execution in a VM the check owns: flags never grow along
//	         the invocation stack (ext_universal_test.go, hook in exec_test.go).
//	verif / badflags - contexts created under the Verification trigger; flags
//	         arguments outside the sixteen sets (ext_ctx_test.go).
//	names / json-desc / trusts - method-name alphabet, overloads with a safe and
//	         a non-safe arity, textual descriptor forms, fields that must not
//	         matter (ext_names_test.go).
//	upd-caller / upd-callee / forged / staged - manifests that change: update
//	         histories in two hardfork eras, forged group membership, natives
//	         and native methods appearing with hardforks (ext_update_test.go).
//	entry context "oracle" - the permission matrix inside an oracle callback.
//
// Findings so far: permission:group-kind-ignores-method-list (fixed in /repo,
// 3af48b5); flags:native-calls-contract-without-AllowCall:* (known finding,
// see FINDING-native-callback-without-allowcall.md).
package c16

import (
	"fmt"
	"os"
	"sort"
	"strings"
	"sync"
	"sync/atomic"
	"testing"
	"time"

	"github.com/nspcc-dev/neo-go/pkg/core/native/nativehashes"
	"github.com/nspcc-dev/neo-go/pkg/core/transaction"
	"github.com/nspcc-dev/neo-go/pkg/crypto/hash"
	"github.com/nspcc-dev/neo-go/pkg/io"
	"github.com/nspcc-dev/neo-go/pkg/neotest"
	"github.com/nspcc-dev/neo-go/pkg/smartcontract/callflag"
	"github.com/nspcc-dev/neo-go/pkg/smartcontract/manifest"
	"github.com/nspcc-dev/neo-go/pkg/util"
	"github.com/nspcc-dev/neo-go/pkg/vm/emit"
	"github.com/nspcc-dev/neo-go/pkg/vm/opcode"
	"github.com/nspcc-dev/neo-go/pkg/vm/stackitem"

	"verif/lib/chainx"
	"verif/lib/vk"
)

// ---- engine of the flags/safe sub-checks ------------------------------------------------------

type compRow struct {
	Execs int  // executions with f=All on the attributing paths
	Halt  bool // halted at least once with f=All
	W, N  bool // storage / notification effect seen with f=All
	C     bool // another context executed with f=All
}

type engine struct {
	r      *vk.Run
	w      *world
	mu     sync.Mutex
	comp   map[string]*compRow
	vio    map[string]int
	allVio map[string]int // every violating (op, flags, path), also those not reported one by one
	states *vk.Set
	execs  vk.Counter
	halts  vk.Counter
	byFlag [16][2]vk.Counter // HALT, FAULT per flag set
}

// flagCase identifies one execution (replay detail).
type flagCase struct {
	Sub     string   `json:"sub"`
	Op      string   `json:"op"`
	Path    string   `json:"path"`
	Args    string   `json:"args"`
	F       int      `json:"flags"`
	FName   string   `json:"flags_name"`
	What    string   `json:"what"`
	Effects *effects `json:"effects"`
}

// build returns the entry script of (spec, path, combo, f), the flags the entry
// script is loaded with and the contexts that belong to the code under test
// and its (all-flags) driver. ok=false: the combination does not exist on this path.
func (en *engine) build(s *opSpec, path string, combo []argv, f int) (script []byte, load int, self []util.Uint160, ok bool) {
	w := en.w
	switch path {
	case "direct": // entry(All) -> Self.Method with flags f
		self = []util.Uint160{s.Self}
		if hasFrag(combo) {
			// the entry script (all flags) itself calls CryptoLib to produce the interop argument
			self = append(self, nativehashes.CryptoLib)
		}
		return callScript(s.Self, s.Method, f, vals(combo)...), fAll, self, true
	case "viaA": // entry(All) -> UA.run with flags f -> Self.Method requesting All
		if hasFrag(combo) {
			return nil, 0, nil, false
		}
		prog := []any{[]any{chainx.OpCall, s.Self.BytesBE(), s.Method, 15, vals(combo)}}
		return callScript(w.UA, "run", f, prog), fAll, []util.Uint160{w.UA}, true
	case "viaAreq": // entry(All) -> UA.run(All) -> Self.Method requesting f
		if hasFrag(combo) {
			return nil, 0, nil, false
		}
		prog := []any{[]any{chainx.OpCall, s.Self.BytesBE(), s.Method, f, vals(combo)}}
		driver := w.UA // so that arguments naming UA as the account pass the witness check
		if s.Self == w.UA {
			driver = w.UB
		}
		return callScript(driver, "run", 15, prog), fAll, []util.Uint160{driver, s.Self}, true
	case "u": // entry(All) -> UA.run with flags f, one op
		return callScript(w.UA, "run", f, combo[0].V), fAll, []util.Uint160{w.UA}, true
	case "token": // entry(All) -> T.<family><f>(All) -> CALLT with token flags f -> Self.Method
		if hasFrag(combo) {
			return nil, 0, nil, false
		}
		return callScript(w.T.Hash, fmt.Sprintf("%s%d", s.TokFam, f), 15, vals(combo)...), fAll, []util.Uint160{w.T.Hash, s.Self}, true
	case "entry": // the raw system call in an entry script loaded with f
		raw := s.Raw(combo)
		return raw, f, []util.Uint160{hash.Hash160(raw)}, true
	}
	panic("path " + path)
}

func callEffect(e *effects, self []util.Uint160, lax bool) bool {
	in := func(h util.Uint160) bool {
		for _, s := range self {
			if s == h {
				return true
			}
		}
		return false
	}
	for h := range e.ctxs {
		if !in(h) {
			return true
		}
	}
	for h, n := range e.inv {
		if !in(h) || (n > 1 && !lax) {
			return true
		}
	}
	return false
}

// onlyDeployedExtra: every context outside self (and every re-entered one of
// self) is a deployed, non-native contract.
func (en *engine) onlyDeployedExtra(e *effects, self []util.Uint160) bool {
	w := en.w
	dep := func(h util.Uint160) bool { return h == w.UA || h == w.UB || h == w.R.Hash || h == w.T.Hash }
	n := 0
	for h := range e.ctxs {
		if slicesContains(self, h) {
			continue
		}
		n++
		if !dep(h) {
			return false
		}
	}
	for h, c := range e.inv {
		if slicesContains(self, h) && c <= 1 {
			continue
		}
		n++
		if !dep(h) {
			return false
		}
	}
	return n > 0
}

func slicesContains(s []util.Uint160, h util.Uint160) bool {
	for _, x := range s {
		if x == h {
			return true
		}
	}
	return false
}

func (en *engine) violation(kind, key string, fc flagCase) {
	en.mu.Lock()
	en.allVio[fmt.Sprintf("%s %s %s: %s", fc.Op, fc.FName, fc.Path, fc.What)]++
	en.vio[kind+fc.Op]++
	a, b := en.vio[kind+fc.Op], en.vio[kind]
	en.mu.Unlock()
	if a <= 2 && b < 6 { // a root cause is reported a few times at most
		if en.r.Violation(key, fc) { // known findings do not use up the budget of new ones
			en.mu.Lock()
			en.vio[kind]++
			en.mu.Unlock()
		}
	} else {
		en.r.Outcome("suppressed-duplicate:" + kind)
	}
}

// one executes (spec, path, combo, f) and evaluates the oracle.
func (en *engine) one(s *opSpec, path string, combo []argv, f int) (viol bool) {
	script, load, self, ok := en.build(s, path, combo, f)
	if !ok {
		return
	}
	e := en.w.run(script, load)
	en.execs.Inc()
	fc := flagCase{Op: s.Op, Path: path, Args: labels(combo), F: f, FName: fname(f), Effects: e}
	if e.State != "HALT" {
		if e.State != "FAULT" {
			fc.Sub, fc.What = "flags", "execution left the VM abnormally: "+e.State+" "+e.Fault
			en.violation("abnormal", fmt.Sprintf("flags:%s:%s:%s", fname(f), s.Op, strings.ToLower(e.State)), fc)
			return true
		}
		en.r.Outcome("flags:FAULT")
		en.byFlag[f][1].Inc()
		en.states.Add(s.Op + path + fname(f) + "F")
		return
	}
	en.halts.Inc()
	wr, nt := len(e.Diff) > 0, len(e.Notifs) > 0
	call := callEffect(e, self, path == "direct" && hasFrag(combo))
	sig := []byte("---")
	if wr {
		sig[0] = 'w'
	}
	if nt {
		sig[1] = 'n'
	}
	if call {
		sig[2] = 'c'
	}
	en.r.Outcome("flags:HALT:" + string(sig))
	en.byFlag[f][0].Inc()
	en.states.Add(s.Op + path + fname(f) + string(sig))
	if f == fAll && path != "viaAreq" {
		// completeness of the menu: what the operation was seen doing with all flags
		// (through A the call of the operation itself is not an effect of the operation)
		en.mu.Lock()
		row := en.comp[s.Op]
		row.Halt = true
		row.W = row.W || wr
		row.N = row.N || nt
		row.C = row.C || (call && path != "viaA")
		en.mu.Unlock()
	}
	if wr && f&fW == 0 {
		fc.Sub, fc.What = "flags", "storage changed by code running without WriteStates"
		en.violation("w", fmt.Sprintf("flags:%s:%s:storage-changed-without-WriteStates", fname(f), s.Op), fc)
		viol = true
	}
	if nt && f&fN == 0 {
		fc.Sub, fc.What = "flags", "notification emitted by code running without AllowNotify"
		en.violation("n", fmt.Sprintf("flags:%s:%s:notified-without-AllowNotify", fname(f), s.Op), fc)
		viol = true
	}
	if call && f&fC == 0 {
		fc.Sub, fc.What = "flags", "another context executed by code running without AllowCall"
		if s.Group == "native" && path != "viaA" && en.onlyDeployedExtra(e, self) {
			// one root cause with its own key: a native method (running without
			// AllowCall) makes the ledger call a deployed contract (payment callback etc.)
			fc.What = "a native method running without AllowCall caused a call of a deployed contract"
			// key: flags:native-calls-contract-without-AllowCall:native:<Contract>.<method>:<nparams>:<flags>
			en.violation("nc", fmt.Sprintf("flags:native-calls-contract-without-AllowCall:%s:%s", strings.Replace(s.Op, "/", ":", 1), fname(f)), fc)
		} else {
			en.violation("c", fmt.Sprintf("flags:%s:%s:called-without-AllowCall", fname(f), s.Op), fc)
		}
		viol = true
	}
	if s.Safe && (wr || nt) {
		fc.Sub, fc.What = "safe", "a manifest-safe method changed storage or notified"
		k := "storage-changed"
		if !wr {
			k = "notified"
		}
		en.violation("s", fmt.Sprintf("safe:%s:%s:%s", fname(f), s.Op, k), fc)
		viol = true
	}
	if !viol {
		en.r.Sample(map[string]any{"sub": "flags", "op": s.Op, "path": path, "args": fc.Args, "flags": fname(f), "state": e.State, "storage_diff": e.Diff, "notifications": e.Notifs, "contexts": e.Ctxs})
	}
	return
}

// ---- chain sub-check: flags only shrink ----------------------------------------------------------

type chainCase struct {
	Sub   string `json:"sub"`
	Shape string `json:"shape"`
	F1    int    `json:"f1"`
	F2    int    `json:"f2"`
	Len   int    `json:"len"`
	Seen  []int  `json:"flags_seen"`
	What  string `json:"what"`
	State string `json:"state"`
	Fault string `json:"fault,omitempty"`
}

var chainFault vk.Counter
var chainVio atomic.Int64

var getFlagsScript = func() []byte {
	bw := io.NewBufBinWriter()
	emit.Syscall(bw.BinWriter, "System.Contract.GetCallFlags")
	emit.Opcodes(bw.BinWriter, opcode.RET)
	return bw.Bytes()
}()

// chainScript builds entry(All) -> UA.<k1>(f1) -> <k2>(f2) -> <k3>(All); every
// level logs its own GetCallFlags first.
func (w *world) chainScript(k1, k2, k3 string, f1, f2, n int) []byte {
	getf := []any{chainx.OpGetFlags}
	var l3 any
	switch k3 {
	case "run":
		l3 = []any{chainx.OpRun, w.UA.BytesBE(), 15, []any{getf}}
	case "load":
		l3 = []any{chainx.OpLoadScript, getFlagsScript, 15, []any{}}
	}
	prog2 := []any{getf}
	if n >= 3 {
		prog2 = append(prog2, l3)
	}
	var l2 any
	switch k2 {
	case "run":
		l2 = []any{chainx.OpRun, w.UB.BytesBE(), f2, prog2}
	case "safe":
		l2 = []any{chainx.OpCall, w.UB.BytesBE(), "runSafe", f2, []any{prog2}}
	case "load":
		bw := io.NewBufBinWriter()
		if n >= 3 {
			emit.AppCall(bw.BinWriter, w.UA, "run", callflag.All, []any{getf})
		}
		emit.Syscall(bw.BinWriter, "System.Contract.GetCallFlags")
		if n >= 3 {
			emit.Opcodes(bw.BinWriter, opcode.SWAP, opcode.PUSH2, opcode.PACK) // [flags2, log3]
		}
		emit.Opcodes(bw.BinWriter, opcode.RET)
		l2 = []any{chainx.OpLoadScript, bw.Bytes(), f2, []any{}}
	}
	prog1 := []any{getf}
	if n >= 2 {
		prog1 = append(prog1, l2)
	}
	m := "run"
	if k1 == "safe" {
		m = "runSafe"
	}
	return callScript(w.UA, m, f1, prog1)
}

func flattenInts(it stackitem.Item, out *[]int) {
	switch it.Type() {
	case stackitem.ArrayT, stackitem.StructT:
		for _, x := range it.Value().([]stackitem.Item) {
			flattenInts(x, out)
		}
	case stackitem.IntegerT:
		if b, err := it.TryInteger(); err == nil {
			*out = append(*out, int(b.Int64()))
		}
	}
}

func (w *world) chainOne(r *vk.Run, cc *chainCase, exact *vk.Counter) (violated bool) {
	if strings.HasPrefix(cc.Shape, "calltoken:") {
		return w.chainToken(r, cc, exact)
	}
	k := strings.Split(cc.Shape, ">")
	e := w.run(w.chainScript(k[0], k[1], k[2], cc.F1, cc.F2, cc.Len), fAll)
	cc.State, cc.Fault = e.State, e.Fault
	if e.State != "HALT" {
		r.Outcome(fmt.Sprintf("chain:len%d:FAULT", cc.Len))
		chainFault.Inc()
		return false
	}
	var seen []int
	for _, it := range e.stack {
		flattenInts(it, &seen)
	}
	cc.Seen = seen
	if len(seen) != cc.Len {
		cc.What = fmt.Sprintf("expected %d logged flag sets, got %v", cc.Len, seen)
		r.Violation(fmt.Sprintf("chain:%s:len%d:%s:%s:unexpected-log", cc.Shape, cc.Len, fname(cc.F1), fname(cc.F2)), cc)
		return true
	}
	req := []int{cc.F1, cc.F2, fAll}
	caller := fAll
	ex := true
	for i, got := range seen {
		if got&^caller != 0 || got&^req[i] != 0 {
			cc.What = fmt.Sprintf("level %d runs with %s: caller has %s, requested %s", i+1, fname(got), fname(caller), fname(req[i]))
			if chainVio.Add(1) <= 3 { // a root cause is reported a few times at most
				r.Violation(fmt.Sprintf("chain:%s:len%d:%s:%s:level%d-flags-grew", cc.Shape, cc.Len, fname(cc.F1), fname(cc.F2), i+1), cc)
			} else {
				r.Outcome("chain:flags-grew(not reported one by one)")
			}
			return true
		}
		want := caller & req[i]
		if (i == 0 && k[0] == "safe") || (i == 1 && k[1] == "safe") {
			want &^= fW | fN
		}
		if (i == 1 && k[1] == "load") || (i == 2 && k[2] == "load") {
			want &= fR | fC
		}
		if got != want {
			ex = false
		}
		caller = got
	}
	if ex {
		exact.Inc()
	}
	r.Outcome(fmt.Sprintf("chain:len%d:HALT", cc.Len))
	r.Sample(map[string]any{"sub": "chain", "shape": cc.Shape, "f1": fname(cc.F1), "f2": fname(cc.F2), "len": cc.Len, "flags_seen": seen})
	return false
}

// chainToken: entry(All) -> T.<family><f2> called with flags f1 -> CALLT (token
// flags f2) -> UA.run / UA.runSafe logging its GetCallFlags: one level of the
// 16x16 product entered through a method token instead of System.Contract.Call.
func (w *world) chainToken(r *vk.Run, cc *chainCase, exact *vk.Counter) bool {
	fam := "UArun"
	if cc.Shape == "calltoken:safe" {
		fam = "UArunSafe"
	}
	e := w.run(callScript(w.T.Hash, fmt.Sprintf("%s%d", fam, cc.F2), cc.F1, []any{[]any{chainx.OpGetFlags}}), fAll)
	cc.State, cc.Fault = e.State, e.Fault
	if e.State != "HALT" {
		r.Outcome("chain:calltoken:FAULT")
		chainFault.Inc()
		return false
	}
	var seen []int
	for _, it := range e.stack {
		flattenInts(it, &seen)
	}
	cc.Seen = seen
	if len(seen) != 1 {
		cc.What = fmt.Sprintf("expected 1 logged flag set, got %v", seen)
		r.Violation(fmt.Sprintf("chain:%s:%s:%s:unexpected-log", cc.Shape, fname(cc.F1), fname(cc.F2)), cc)
		return true
	}
	if got := seen[0]; got&^cc.F1 != 0 || got&^cc.F2 != 0 {
		cc.What = fmt.Sprintf("callee reached through CALLT runs with %s: caller has %s, token flags %s", fname(got), fname(cc.F1), fname(cc.F2))
		if chainVio.Add(1) <= 3 {
			r.Violation(fmt.Sprintf("chain:%s:%s:%s:flags-grew", cc.Shape, fname(cc.F1), fname(cc.F2)), cc)
		} else {
			r.Outcome("chain:flags-grew(not reported one by one)")
		}
		return true
	}
	want := cc.F1 & cc.F2
	if fam == "UArunSafe" {
		want &^= fW | fN
	}
	if seen[0] == want {
		exact.Inc()
	}
	r.Outcome("chain:calltoken:HALT")
	return false
}

func chainCases() []*chainCase {
	var out []*chainCase
	for _, k := range []string{"calltoken:run", "calltoken:safe"} {
		for f1 := 0; f1 < 16; f1++ {
			for f2 := 0; f2 < 16; f2++ {
				out = append(out, &chainCase{Sub: "chain", Shape: k, F1: f1, F2: f2, Len: 1})
			}
		}
	}
	for _, k1 := range []string{"run", "safe"} {
		for f1 := 0; f1 < 16; f1++ {
			out = append(out, &chainCase{Sub: "chain", Shape: k1 + ">->-", F1: f1, F2: 0, Len: 1})
		}
		for _, k2 := range []string{"run", "safe", "load"} {
			for f1 := 0; f1 < 16; f1++ {
				for f2 := 0; f2 < 16; f2++ {
					out = append(out, &chainCase{Sub: "chain", Shape: k1 + ">" + k2 + ">-", F1: f1, F2: f2, Len: 2})
					for _, k3 := range []string{"run", "load"} {
						out = append(out, &chainCase{Sub: "chain", Shape: k1 + ">" + k2 + ">" + k3, F1: f1, F2: f2, Len: 3})
					}
				}
			}
		}
	}
	return out
}

// ---- specs ----------------------------------------------------------------------------------------

func (w *world) safeUSpecs() []*opSpec {
	ub := w.UB.BytesBE()
	put := []any{chainx.OpPut, []byte("x"), []byte("1")}
	bw := io.NewBufBinWriter()
	emit.AppCall(bw.BinWriter, w.UB, "run", callflag.All, []any{put})
	callPut := bw.Bytes()
	progs := []argv{
		{"[]", []any{}},
		{"[put-new]", []any{put}},
		{"[put-change]", []any{[]any{chainx.OpPut, []byte("a"), []byte("2")}}},
		{"[delete]", []any{[]any{chainx.OpDel, []byte("a")}}},
		{"[notify]", []any{[]any{chainx.OpNotify, 1}}},
		{"[get]", []any{[]any{chainx.OpGet, []byte("a")}}},
		{"[run-UB[put]]", []any{[]any{chainx.OpRun, ub, 15, []any{put}}}},
		{"[run-UB[notify]]", []any{[]any{chainx.OpRun, ub, 15, []any{[]any{chainx.OpNotify, 2}}}}},
		{"[run-UB[]]", []any{[]any{chainx.OpRun, ub, 15, []any{}}}},
		{"[call-GAS.transfer]", []any{[]any{chainx.OpCall, nativehashes.GasToken.BytesBE(), "transfer", 15, []any{w.UA.BytesBE(), chainx.Acc(1).ScriptHash().BytesBE(), 1, nil}}}},
		{"[loadscript-call-UB[put]]", []any{[]any{chainx.OpLoadScript, callPut, 15, []any{}}}},
		{"[try[put]]", []any{[]any{chainx.OpTry, []any{put}, []any{}}}},
		{"[try[run-UB[put,throw]]]", []any{[]any{chainx.OpTry, []any{[]any{chainx.OpRun, ub, 15, []any{put, []any{chainx.OpThrow}}}}, []any{}}}},
		{"[try[run-UB[put]]]", []any{[]any{chainx.OpTry, []any{[]any{chainx.OpRun, ub, 15, []any{put}}}, []any{}}}},
		{"[try[run-UB[notify]],throw]", []any{[]any{chainx.OpTry, []any{[]any{chainx.OpRun, ub, 15, []any{[]any{chainx.OpNotify, 2}}}, []any{chainx.OpThrow}}, []any{}}}},
		{"[try[GAS.transfer-with-callback[put]]]", []any{[]any{chainx.OpTry, []any{[]any{chainx.OpCall, nativehashes.GasToken.BytesBE(), "transfer", 15, []any{w.UA.BytesBE(), ub, 1, []any{put}}}}, []any{}}}},
	}
	s := &opSpec{Op: "safe:U.runSafe", Group: "u", Self: w.UA, Method: "runSafe", Safe: true, Paths: []string{"direct", "viaAreq", "token"}, TokFam: "UArunSafe"}
	for _, p := range progs {
		s.Combos = append(s.Combos, []argv{p})
	}
	s.Full = len(s.Combos)
	return []*opSpec{s}
}

type job struct {
	s      *opSpec
	path   string
	lo, hi int
}

// ---- TestCheck ---------------------------------------------------------------------------------------

func TestCheck(t *testing.T) {
	vk.UseT(t)
	r := vk.Start("C16", "model_checking", 150*time.Second, 22*time.Minute)
	defer vk.CleanScratch()
	if r.Replay != "" {
		replay(r)
		return
	}
	w, err := newWorld()
	if err != nil {
		fmt.Println("CHECK-ERROR: cannot prepare the chain:", err)
		os.Exit(3)
	}
	defer w.n.Close()
	if _, missingSys := w.sysSpecs(); len(missingSys) > 0 {
		// not a finding about the tree but a hole in the check: a system call was added (or renamed) and
		// the menu has no operation that exercises it - refuse to report anything until the menu knows it
		// (reported loudly, not fatal: the system calls the menu does know stay verified; C16_STRICT_MENU=1 makes it fatal)
		fmt.Printf("COVERAGE-GAP: C16 menu is incomplete: system calls registered in pkg/core/interops.go that no operation of the menu issues: %v (add a method to rawMethods() and arguments to sysArgs() in checks/c16)\n", missingSys)
		if os.Getenv("C16_STRICT_MENU") != "" {
			os.Exit(3)
		}
	}
	if os.Getenv("C16_ONLY") == "member" { // development aid: the group-membership family alone
		info := runMember(r, "")
		fmt.Printf("C16 member: cells=%v shapes=%v installed=%v\n", info["cells_total"], info["shapes"], info["installed_by_route"])
		r.Finish(map[string]any{"states": 1, "transitions": 1, "traces_validated_against_impl": 1, "group_membership": info}, nil)
		return
	}
	cap := vk.Pick(r, 1500, 200000)
	en := &engine{r: r, w: w, comp: map[string]*compRow{}, vio: map[string]int{}, allVio: map[string]int{}, states: vk.NewSet()}

	// -- sub-check perm first (cheap, and it holds the suspicion to settle)
	ps := &permStats{other: map[string]int{}, witness: map[string]*permCase{}, rootBySub: map[string]int{}}
	permInfo := runPerm(r, ps)

	// -- manifests that change: update histories, forged groups, natives appearing with hardforks
	updInfo := runUpd(r)

	// -- how a contract becomes a member of a group: signatures of every entry x deploy/update routes
	memInfo := runMember(r, "")

	// -- a subset through real blocks: the compiled contract's operations, all flag sets
	btxs, bhalt, bagree := flagsInBlocks(r, nil)

	// -- sub-check chain
	var chainExact vk.Counter
	ccs := chainCases()
	chainDone := r.Parallel(len(ccs), func(i int) { w.chainOne(r, ccs[i], &chainExact) })

	// -- contexts created by the ledger under the Verification trigger; invalid flag values
	verifInfo := runVerif(r, w)
	badInfo := runBadFlags(r, w)

	// -- sub-checks flags + safe
	specs := w.uSpecs()
	sys, _ := w.sysSpecs()
	specs = append(specs, sys...)
	specs = append(specs, w.safeUSpecs()...)
	specs = append(specs, w.vfSpecs()...)
	nat := w.nativeSpecs(cap)
	specs = append(specs, nat...)
	var jobs []job
	combos, capped := 0, []string{}
	for _, s := range specs {
		en.comp[s.Op] = &compRow{}
		combos += len(s.Combos)
		if s.Full > len(s.Combos) {
			capped = append(capped, fmt.Sprintf("%s: %d of %d", s.Op, len(s.Combos), s.Full))
		}
		for _, p := range s.Paths {
			for lo := 0; lo < len(s.Combos); lo += 64 {
				jobs = append(jobs, job{s, p, lo, min(lo+64, len(s.Combos))})
			}
		}
	}
	// simplest first: short argument lists before long ones
	sort.SliceStable(jobs, func(i, j int) bool { return len(jobs[i].s.Combos) < len(jobs[j].s.Combos) })
	r.Parallel(len(jobs), func(i int) {
		j := jobs[i]
		for k := j.lo; k < j.hi; k++ {
			// f=All first: it feeds the completeness table
			for _, f := range flagOrder {
				en.one(j.s, j.path, j.s.Combos[k], f)
			}
			if r.Expired() {
				return
			}
		}
	})

	// -- completeness of the menu, measured with f=All
	var never, neverHalt, declGap []string
	effectOps := 0
	for _, s := range specs {
		row := en.comp[s.Op]
		if !row.Halt {
			neverHalt = append(neverHalt, s.Op)
		}
		if row.W || row.N || row.C {
			effectOps++
		} else {
			never = append(never, s.Op)
		}
		// reporting only: what the tree's own tables declare for this operation
		var decl callflag.CallFlag
		known := false
		switch s.Group {
		case "native":
			decl, known = w.declared[strings.TrimPrefix(s.Op, "native:")]
		case "sys":
			name := strings.TrimPrefix(s.Op, "sys:")
			if i := strings.Index(name, "("); i >= 0 {
				name = name[:i]
			}
			decl, known = w.syscalls[name]
		}
		if known {
			var g []string
			if decl&callflag.WriteStates != 0 && !row.W {
				g = append(g, "storage")
			}
			if decl&callflag.AllowNotify != 0 && !row.N {
				g = append(g, "notification")
			}
			if decl&callflag.AllowCall != 0 && !row.C {
				g = append(g, "call")
			}
			if len(g) > 0 {
				declGap = append(declGap, s.Op+" ("+strings.Join(g, ",")+")")
			}
		}
	}
	sort.Strings(never)
	sort.Strings(declGap)
	sort.Strings(neverHalt)
	fmt.Printf("C16: %d operations, %d argument combinations, %d executions (%d HALT); effect seen with f=All for %d operations\n", len(specs), combos, en.execs.Get(), en.halts.Get(), effectOps)
	fmt.Printf("C16: operations whose tables declare an effect that was never observed: %v\n", declGap)
	fmt.Printf("C16: operations that never halted with f=All: %v\n", neverHalt)
	fmt.Printf("C16: chain cases %d (exact intersection in %d); perm: %v\n", chainDone, chainExact.Get(), permInfo)
	grewN := flushGrew(r)
	byFlag := map[string]string{}
	for f := 0; f < 16; f++ {
		byFlag[fname(f)] = fmt.Sprintf("HALT %d / FAULT %d", en.byFlag[f][0].Get(), en.byFlag[f][1].Get())
	}
	asInt := func(v any) int {
		switch x := v.(type) {
		case int:
			return x
		case int64:
			return int(x)
		}
		return 0
	}
	// executions of the extension families (each one runs the real code)
	extRuns := asInt(verifInfo["cases"]) + asInt(verifInfo["runs_on_VerifyWitness_VerifyTx"]) + asInt(verifInfo["cases_in_blocks"]) + asInt(badInfo["cases"]) + asInt(updInfo["cells_total"]) + asInt(memInfo["cells_total"])
	cov := map[string]any{
		"states":                                      en.states.Len() + len(ccs) + int(ps.pure+ps.namesPure),
		"transitions":                                 int(en.execs.Get()) + chainDone + int(ps.real+ps.block+ps.token+ps.entry+ps.names) + btxs + extRuns,
		"traces_validated_against_impl":               int(en.execs.Get()) + chainDone + int(ps.real+ps.block+ps.token+ps.entry+ps.pure+ps.names+ps.namesPure) + extRuns,
		"extension_family_executions":                 extRuns,
		"flag_sets":                                   16,
		"operations":                                  len(specs),
		"operations_native_methods":                   len(nat),
		"operations_system_calls":                     len(sys),
		"system_calls_in_tree":                        len(w.syscalls),
		"argument_combinations":                       combos,
		"argument_cap_per_method":                     cap,
		"methods_with_capped_arguments":               capped,
		"executions":                                  int(en.execs.Get()),
		"executions_halted":                           int(en.halts.Get()),
		"violating_operation_flag_path":               en.allVio,
		"halt_fault_by_flag_set":                      byFlag,
		"operations_with_effect_seen_under_all_flags": effectOps,
		"operations_never_seen_having_an_effect":      never,
		"declared_effect_never_observed":              declGap,
		"operations_never_halting_under_all_flags":    neverHalt,
		"in_block_transactions":                       btxs,
		"in_block_halted":                             bhalt,
		"in_block_agreeing_with_test_vm":              bagree,
		"chain_cases":                                 len(ccs),
		"chain_cases_done":                            chainDone,
		"chain_exact_intersection":                    int(chainExact.Get()),
		"chain_cases_halted":                          chainDone - int(chainFault.Get()),
		"permission":                                  permInfo,
		"update_histories":                            updInfo,
		"group_membership":                            memInfo,
		"group_membership_cells":                      asInt(memInfo["cells_total"]),
		"group_membership_shapes":                     asInt(memInfo["shapes"]),
		"group_membership_pure_reverse_cells":         asInt(memInfo["pure_reverse_cells"]),
		"verification_contexts":                       verifInfo,
		"invalid_flag_values":                         badInfo,
		"universal_shrink_executions_with_growth":     grewN,
		"universal_shrink_oracle":                     "every execution in a VM the check owns (all sub-checks): whenever the executing context changes, its flags must be a subset of those of the context below it on the invocation stack",
		"paths":                                       "direct: entry(All)->op with f; viaA: entry->UA.run(f)->op(All); viaAreq: entry->UB.run(All)->op(f); u: entry->UA.run(f)[one op of compiled code]; entry: raw system call in an entry script loaded with f",
		"rule":                                        "every operation x every argument combination of its menu x every path x all 16 flag sets; oracle on HALTed executions: storage diff of all contracts / notification list / executed contexts vs the flags the code ran with",
	}
	r.Finish(cov, []string{
		"effects are read from the test VM's interop context after a HALT (storage change set of its private store layer compared with the chain's values; ic.Notifications; OnExecHook script hashes and ic.Invocations); a FAULTed execution is discarded by the ledger and is not judged",
		"test invocations carry unverified signers (validator/committee and accounts 1..5, Global scope) and an OracleResponse attribute so that witness- and attribute-guarded native methods can succeed",
		"all hardforks are enabled from genesis",
		"native argument menus are type-directed (not name-directed); methods whose product exceeds the cap use the documented reduction (see methods_with_capped_arguments)",
		"verification contexts are expected to hold ReadStates|AllowCall at most (protocol rule the tree implements in InitVerificationContext; the property text itself only says that code without a flag cannot have the effect)",
		"flags arguments outside 0..15 whose low byte is a valid flag set are accepted by the tree (truncated to the low byte); they are judged by 'flags never grow' only and counted (invalid_flag_values)",
		"in the same context right after a contract updated itself, the permissions of the executing contract state apply from hardfork Domovoi on and those of the stored state before (documented in pkg/config/hardfork.go); everywhere else the updated manifest applies at once",
		"caches of native contracts inside the DAO are not compared, only contract storage",
	})
}

// f=All first, then the rest, simplest (fewest flags) first.
var flagOrder = func() []int {
	o := []int{15}
	for n := 0; n <= 3; n++ {
		for f := 0; f < 15; f++ {
			c := 0
			for b := 0; b < 4; b++ {
				c += f >> b & 1
			}
			if c == n {
				o = append(o, f)
			}
		}
	}
	return o
}()

// ---- perm sub-check driver ---------------------------------------------------------------------------

func runPerm(r *vk.Run, ps *permStats) map[string]any {
	pw, err := newPermWorld()
	if err != nil {
		fmt.Println("CHECK-ERROR: cannot prepare the permission chain:", err)
		os.Exit(3)
	}
	defer func() { pw.n.Close() }()
	pw.pure(r, ps)
	all := pw.allCallers()
	var dep []callerSpec
	for _, c := range all {
		if !deployable(c) {
			continue
		}
		// quick: one order of every pair; thorough: both orders
		if len(c.Perms) == 2 && !r.Thorough() && descIndex(pw, c.Perms[0].Desc) > descIndex(pw, c.Perms[1].Desc) {
			continue
		}
		dep = append(dep, c)
	}
	dep, err = pw.deploy(r, dep)
	if err != nil {
		fmt.Println("CHECK-ERROR: cannot deploy the callers:", err)
		os.Exit(3)
	}
	ps.deployed = len(dep)
	var pjs []pj
	for _, cs := range dep {
		for _, c := range pw.callees {
			for _, md := range c.Methods {
				pjs = append(pjs, pj{cs: cs, c: c, md: md})
			}
		}
	}
	judge := func(sub string, j pj, got string, e *effects) {
		want := verdict(j.md.Safe || allowedBy(j.cs.Perms, j.c, j.md.Name))
		pc := permCase{Sub: sub, Caller: j.cs, Callee: j.c.Name, Groups: j.c.Groups, Method: j.md.Name, Safe: j.md.Safe, Got: got, Want: want}
		if e != nil {
			pc.Note = e.Fault
		}
		if got != want {
			ps.report(r, pc, j.cs.Perms, j.c)
			return
		}
		r.Outcome(sub + ":" + got)
		r.Sample(map[string]any{"sub": sub, "caller_permissions": j.cs.String(), "callee": j.c.Name, "callee_groups": j.c.Groups, "method": j.md.Name, "safe": j.md.Safe, "result": got})
	}
	// the same matrix through method tokens for the callers with at most one permission
	var tks []pj
	var tcs []callerSpec
	{
		for _, cs := range dep {
			if len(cs.Perms) <= 1 {
				tcs = append(tcs, cs)
			}
		}
		if err := pw.deployTokenCallers(tcs); err != nil {
			fmt.Println("CHECK-ERROR: cannot deploy the token callers:", err)
			os.Exit(3)
		}
		if err := pw.deployEntryCallers(tcs); err != nil {
			fmt.Println("CHECK-ERROR: cannot deploy the entry-context callers:", err)
			os.Exit(3)
		}
		for _, cs := range tcs {
			k := 0
			for _, c := range pw.callees {
				for _, md := range c.Methods {
					tks = append(tks, pj{cs: cs, c: c, md: md, tok: k})
					k++
				}
			}
		}
	}
	tokenMatrix := func(sub string) {
		r.Parallel(len(tks), func(i int) {
			j := tks[i]
			got, e := pw.tokenCall(j.cs, j.tok, j.md)
			ps.mu.Lock()
			ps.token++
			ps.mu.Unlock()
			judge(sub, j, got, e)
		})
	}
	realMatrix := func(sub string) {
		r.Parallel(len(pjs), func(i int) {
			j := pjs[i]
			got, e := pw.realCall(j.cs, j.c, j.md)
			ps.mu.Lock()
			ps.real++
			if got == "allowed" {
				ps.allowed++
			} else if got == "denied" {
				ps.denied++
			}
			ps.mu.Unlock()
			judge(sub, j, got, e)
		})
	}
	realMatrix("perm-real")
	tokenMatrix("perm-token")
	// observed, not judged: a script loaded dynamically by a caller WITHOUT any
	// permission calls a non-safe method (the loaded script is not a deployed
	// contract; it runs with read-only flags at most)
	loadObs := "n/a"
	for _, cs := range dep {
		if len(cs.Perms) == 0 {
			bw := io.NewBufBinWriter()
			emit.AppCall(bw.BinWriter, pw.byName["Cn"].Hash, "other", callflag.All, 1)
			prog := []any{[]any{chainx.OpLoadScript, bw.Bytes(), 15, []any{}}}
			e := pw.run(callScript(cs.c.Hash, "run", 15, prog), fAll)
			loadObs = e.State
			if e.State != "HALT" {
				loadObs += ": " + e.Fault
			}
		}
	}
	// a subset through real blocks: the single-permission callers
	var btx []pj
	for _, j := range pjs {
		if len(j.cs.Perms) <= 1 {
			btx = append(btx, j)
		}
	}
	blockSubset := func(sub string) {
		val := []neotest.Signer{pw.n.Validator}
		for lo := 0; lo < len(btx) && !r.Expired(); lo += 40 {
			part := btx[lo:min(lo+40, len(btx))]
			var hashes []util.Uint256
			blockTxs, err := pw.buildCallTxs(val, part)
			if err != nil {
				fmt.Println("CHECK-ERROR: cannot build permission call transactions:", err)
				os.Exit(3)
			}
			if _, err := pw.n.AddBlock(blockTxs...); err != nil {
				fmt.Println("CHECK-ERROR: permission block rejected:", err)
				os.Exit(3)
			}
			for _, tx := range blockTxs {
				hashes = append(hashes, tx.Hash())
			}
			for k, h := range hashes {
				aers, err := pw.n.BC.GetAppExecResults(h, 0x40)
				got, fault := "error", ""
				if err == nil && len(aers) == 1 {
					fault = aers[0].FaultException
					switch {
					case aers[0].VMState.String() == "HALT":
						got = "allowed"
					case strings.Contains(fault, "disallowed method call"):
						got = "denied"
					}
				}
				ps.block++
				judge(sub, part[k], got, &effects{Fault: fault})
			}
		}
	}
	blockSubset("perm-block")
	// entry contexts: the same matrix when the caller's code is entered as verify,
	// _deploy, onNEP17Payment, _initialize, a loaded script (and an ordinary method)
	er := &entryRunner{r: r, pw: pw, st: &entryStats{byCtx: map[string]int64{}}, reported: map[string]int{}, best: map[string]entryWitness{}}
	er.matrix(tcs, "")
	er.blocks(tcs, "", []string{"call", "token"}, vk.Pick(r, 5, 1))
	{ // what confines a loaded script: loaders without any permission and with the wildcard
		var ls []callerSpec
		for _, cs := range tcs {
			if len(cs.Perms) == 0 || (len(cs.Perms) == 1 && cs.Perms[0].Desc == "*" && cs.Perms[0].Wild) {
				ls = append(ls, cs)
			}
		}
		er.loadFlags(ls)
	}
	// method names, overloads, textual descriptor forms, fields that must not matter (ext_names_test.go)
	nw, err := pw.setupNames()
	if err != nil {
		fmt.Println("CHECK-ERROR: cannot prepare the names family:", err)
		os.Exit(3)
	}
	nw.pure(r)
	nw.jsonDesc(r)
	nw.trusts(r)
	nw.matrix(r, "")
	// graceful restart on the same store: the Management cache is rebuilt from the
	// STORED (stack item) form of every manifest; the predicate must hold as before
	restarted := false
	if !r.Expired() {
		m, err := pw.n.Reopen()
		if err != nil {
			fmt.Println("CHECK-ERROR: cannot restart the permission node:", err)
			os.Exit(3)
		}
		pw.n = m
		restarted = true
		realMatrix("perm-real-after-restart")
		tokenMatrix("perm-token-after-restart")
		blockSubset("perm-block-after-restart")
		er.matrix(tcs, "-after-restart")
		er.blocks(tcs, "-after-restart", []string{"call"}, vk.Pick(r, 5, 1))
		nw.matrix(r, "-after-restart")
	}
	info := map[string]any{
		"contract_descriptors":          pw.descs,
		"method_lists":                  []string{"*", "[run]", "[other]", "[run,other,transfer]", "[]"},
		"callees":                       "Cn (no group), Cg (group G1), Cgg (groups G2,G1), O (group G3), GAS (native); methods run, other, runSafe(safe) / transfer, balanceOf(safe)",
		"caller_manifests_pure":         len(all),
		"caller_contracts_deployed":     ps.deployed,
		"pure_evaluations":              ps.pure,
		"real_calls_test_vm":            ps.real,
		"real_calls_in_blocks":          ps.block,
		"real_calls_through_tokens":     ps.token,
		"matrix_repeated_after_restart": restarted,
		"real_allowed":                  ps.allowed,
		"real_denied":                   ps.denied,
		"mismatches_group_root_cause":   ps.rootCause,
		"observed_not_judged_call_of_non_safe_method_from_a_script_loaded_by_a_caller_without_permissions": loadObs,
	}
	info["mismatches_group_root_cause_by_subcheck"] = ps.rootBySub
	info["entry_context_cells"] = er.st.cells
	info["entry_context_cells_by_subcheck"] = er.st.byCtx
	info["entry_context_cells_not_applicable"] = er.st.na
	info["entry_context_blocks"] = er.st.blocks
	info["entry_contexts"] = "app (ordinary method), init (_initialize), payment (onNEP17Payment called by GAS.transfer), deploy (_deploy of a new instance), update (_deploy(isUpdate) after the wildcard instance updated itself to the shape's manifest), oracle (callback called by Oracle.finish on the wildcard instance after it updated itself to the shape's manifest), loadscript, verify-witness (Blockchain.VerifyWitness), verify-tx (Blockchain.VerifyTx), verify-block (AddBlock); kinds: System.Contract.Call and CALLT"
	info["loaded_script_flag_cells"] = er.st.loadCells
	info["loaded_script_flag_cells_halted"] = er.st.loadHalt
	info["loaded_script_callee_refused_witness_of_loader"] = er.st.loadWitnessRefused
	info["loaded_script_flags_observed"] = er.st.loadFlagsSeen
	info["names_family"] = nw.info()
	ps.names = nw.st.real + nw.st.token
	ps.namesPure = nw.st.pure + nw.st.jsonDesc + nw.st.trusts
	ps.entry = er.st.cells
	er.flush()
	if len(ps.witness) > 0 {
		min := ps.witness["perm-pure"]
		if min == nil {
			for _, w := range ps.witness {
				min = w
			}
		}
		r.Violation("permission:group-kind-ignores-method-list", map[string]any{
			"what":                   "a caller whose only matching permission is {contract: <group of the callee>, methods: [a list without the method]} may call the method: Permission.IsAllowed returns the group-membership test for PermissionGroup without consulting the method list (pkg/smartcontract/manifest/permission.go, case PermissionGroup)",
			"minimal_case":           min,
			"witness_real_call":      ps.witness["perm-real"],
			"witness_real_block":     ps.witness["perm-block"],
			"mismatches_in_total":    ps.rootCause,
			"mismatches_by_subcheck": ps.rootBySub,
		})
	}
	return info
}

type pj struct {
	cs  callerSpec
	c   *callee
	md  calleeMethod
	tok int // index of the method token (token matrix)
}

func (pw *permWorld) buildCallTxs(val []neotest.Signer, part []pj) ([]*transaction.Transaction, error) {
	var txs []*transaction.Transaction
	for _, j := range part {
		prog := []any{[]any{chainx.OpCall, j.c.Hash.BytesBE(), j.md.Name, 15, j.md.Args(j.cs.c.Hash)}}
		tx, err := pw.n.MakeTx(callScript(j.cs.c.Hash, "run", 15, prog), val)
		if err != nil {
			return nil, err
		}
		txs = append(txs, tx)
	}
	return txs, nil
}

func descIndex(pw *permWorld, d string) int {
	for i, x := range pw.descs {
		if x == d {
			return i
		}
	}
	return -1
}

// ---- replay -------------------------------------------------------------------------------------------

func replay(r *vk.Run) {
	var d struct {
		Sub string `json:"sub"`
	}
	_ = r.ReadReplay(&d)
	fmt.Println("replay of sub-check", d.Sub)
	switch {
	case d.Sub == "flags" || d.Sub == "safe":
		var fc flagCase
		if err := r.ReadReplay(&fc); err != nil {
			fmt.Println("cannot read replay:", err)
			os.Exit(3)
		}
		w, err := newWorld()
		if err != nil {
			fmt.Println("CHECK-ERROR:", err)
			os.Exit(3)
		}
		defer w.n.Close()
		en := &engine{r: r, w: w, comp: map[string]*compRow{}, vio: map[string]int{}, allVio: map[string]int{}, states: vk.NewSet()}
		specs := w.uSpecs()
		sys, _ := w.sysSpecs()
		specs = append(append(append(append(specs, sys...), w.safeUSpecs()...), w.vfSpecs()...), w.nativeSpecs(200000)...)
		found := false
		for _, s := range specs {
			if s.Op != fc.Op {
				continue
			}
			en.comp[s.Op] = &compRow{}
			for _, c := range s.Combos {
				if labels(c) != fc.Args {
					continue
				}
				found = true
				for i := 0; i < 5; i++ {
					en.vio = map[string]int{}
					v := en.one(s, fc.Path, c, fc.F)
					fmt.Printf("replay %d: %s %s(%s) with %s: violated=%v\n", i, fc.Path, fc.Op, fc.Args, fname(fc.F), v)
				}
			}
		}
		if !found {
			fmt.Println("replay: case not found in the menu")
			os.Exit(3)
		}
	case d.Sub == "flags-block":
		var bc blockCase
		if err := r.ReadReplay(&bc); err != nil {
			fmt.Println("cannot read replay:", err)
			os.Exit(3)
		}
		for i := 0; i < 5; i++ {
			// the case alone on a fresh chain (the recorded run had bc.History transactions before it)
			n, h, a := flagsInBlocks(r, &bc)
			fmt.Printf("replay %d: %s(%s) with %s in a block: txs=%d halted=%d agreeing=%d violations so far=%d\n", i, bc.Op, bc.Args, bc.FName, n, h, a, r.NViolations())
		}
	case d.Sub == "entry-loadscript-flags":
		var lc loadCase
		if err := r.ReadReplay(&lc); err != nil {
			fmt.Println("cannot read replay:", err)
			os.Exit(3)
		}
		replayLoad(r, lc)
	case strings.HasPrefix(d.Sub, "names-") || d.Sub == "json-desc" || d.Sub == "trusts":
		var nc namesCase
		_ = r.ReadReplay(&nc)
		replayNames(r, nc)
	case strings.HasPrefix(d.Sub, "upd-") || d.Sub == "forged" || d.Sub == "staged":
		var uc updCase
		_ = r.ReadReplay(&uc)
		replayUpd(r, uc)
	case d.Sub == "member":
		var mc memCase
		_ = r.ReadReplay(&mc)
		replayMember(r, mc)
	case d.Sub == "universal-shrink":
		var gc grewCase
		_ = r.ReadReplay(&gc)
		replayGrew(r, gc)
	case d.Sub == "verif":
		var vc verifCase
		_ = r.ReadReplay(&vc)
		replayVerif(r, vc)
	case d.Sub == "badflags":
		var bc badFlagCase
		_ = r.ReadReplay(&bc)
		replayBadFlag(r, bc)
	case d.Sub == "chain":
		var cc chainCase
		if err := r.ReadReplay(&cc); err != nil {
			fmt.Println("cannot read replay:", err)
			os.Exit(3)
		}
		w, err := newWorld()
		if err != nil {
			fmt.Println("CHECK-ERROR:", err)
			os.Exit(3)
		}
		defer w.n.Close()
		var ex vk.Counter
		for i := 0; i < 5; i++ {
			c := cc
			fmt.Printf("replay %d: chain %s %s %s: violated=%v seen=%v\n", i, cc.Shape, fname(cc.F1), fname(cc.F2), w.chainOne(r, &c, &ex), c.Seen)
		}
	default:
		// entry-context cases
		var eraw struct {
			Case    *entryCase `json:"case"`
			Minimal *entryCase `json:"minimal_case"`
		}
		_ = r.ReadReplay(&eraw)
		if eraw.Case == nil {
			eraw.Case = eraw.Minimal
		}
		if eraw.Case != nil && strings.HasPrefix(eraw.Case.Sub, "entry-") {
			replayEntry(r, *eraw.Case)
			break
		}
		// permission cases (and the group root cause): re-evaluate the recorded case
		var raw struct {
			Minimal *permCase `json:"minimal_case"`
		}
		var pc permCase
		_ = r.ReadReplay(&raw)
		if raw.Minimal != nil {
			pc = *raw.Minimal
		} else if err := r.ReadReplay(&pc); err != nil {
			fmt.Println("cannot read replay:", err)
			os.Exit(3)
		}
		pw, err := newPermWorld()
		if err != nil {
			fmt.Println("CHECK-ERROR:", err)
			os.Exit(3)
		}
		defer func() { pw.n.Close() }()
		c := pw.byName[pc.Callee]
		var md calleeMethod
		for _, m := range c.Methods {
			if m.Name == pc.Method {
				md = m
			}
		}
		dep := []callerSpec{pc.Caller}
		if deployable(pc.Caller) {
			if dep, err = pw.deploy(nil, dep); err != nil {
				fmt.Println("CHECK-ERROR:", err)
				os.Exit(3)
			}
		}
		viaToken, tokIdx := strings.HasPrefix(pc.Sub, "perm-token"), 0
		if viaToken {
			if err := pw.deployTokenCallers(dep); err != nil {
				fmt.Println("CHECK-ERROR:", err)
				os.Exit(3)
			}
			for _, t := range pw.permTokens() {
				if t.Hash == c.Hash && t.Method == pc.Method {
					break
				}
				tokIdx++
			}
		}
		if strings.Contains(pc.Sub, "after-restart") {
			m, err := pw.n.Reopen()
			if err != nil {
				fmt.Println("CHECK-ERROR:", err)
				os.Exit(3)
			}
			pw.n = m
		}
		for i := 0; i < 5; i++ {
			m := manifestOf(pw, pc.Caller)
			if it, err := m.ToStackItem(); err == nil { // the stored form
				m2 := new(manifest.Manifest)
				if m2.FromStackItem(it) == nil {
					m = m2
				}
			}
			pure := verdict(m.CanCall(c.Hash, c.Mf, pc.Method))
			want := verdict(allowedBy(pc.Caller.Perms, c, pc.Method))
			real := "n/a"
			if deployable(pc.Caller) {
				if viaToken {
					real, _ = pw.tokenCall(dep[0], tokIdx, md)
				} else {
					real, _ = pw.realCall(dep[0], c, md)
				}
			}
			wantReal := verdict(md.Safe || allowedBy(pc.Caller.Perms, c, pc.Method))
			fmt.Printf("replay %d: %s -> %s.%s: CanCall=%s (predicate %s), real call=%s (predicate %s)\n", i, pc.Caller.String(), pc.Callee, pc.Method, pure, want, real, wantReal)
			if pure != want || (real != "n/a" && real != wantReal) {
				r.Violation("replay:permission:"+pc.Caller.String()+"->"+pc.Callee+"."+pc.Method, pc)
			}
		}
	}
	r.Finish(map[string]any{"states": 1, "transitions": 5, "traces_validated_against_impl": 5}, nil)
}
