package c16

import (
	"encoding/binary"
	"encoding/json"
	"fmt"
	"os"
	"sort"
	"strings"
	"sync"

	"github.com/nspcc-dev/neo-go/pkg/core/native/nativehashes"
	"github.com/nspcc-dev/neo-go/pkg/core/native/noderoles"
	"github.com/nspcc-dev/neo-go/pkg/core/state"
	"github.com/nspcc-dev/neo-go/pkg/core/transaction"
	"github.com/nspcc-dev/neo-go/pkg/crypto/hash"
	"github.com/nspcc-dev/neo-go/pkg/io"
	"github.com/nspcc-dev/neo-go/pkg/neotest"
	"github.com/nspcc-dev/neo-go/pkg/smartcontract"
	"github.com/nspcc-dev/neo-go/pkg/smartcontract/manifest"
	"github.com/nspcc-dev/neo-go/pkg/smartcontract/nef"
	"github.com/nspcc-dev/neo-go/pkg/util"
	"github.com/nspcc-dev/neo-go/pkg/vm/emit"
	"github.com/nspcc-dev/neo-go/pkg/vm/opcode"
	"github.com/nspcc-dev/neo-go/pkg/vm/stackitem"

	"verif/lib/chainx"
	"verif/lib/vk"
)

// ---- entry contexts -------------------------------------------------------------------------
//
// Contract E (hand-assembled, one instance per permission shape) runs the SAME
// small program - "call <target method> dynamically (System.Contract.Call) or
// through method token i (CALLT)" - from every way contract code can be
// entered: an ordinary method (app), verify of a contract signer (Verification
// trigger), _deploy (deploy and update), onNEP17Payment called by a native
// transfer, _initialize, and a script it loads with System.Runtime.LoadScript.
// A program is the array [flags, method, hash, sel, args]; sel = -1: dynamic
// call, sel = i: CALLT i with args spread on the stack.

// asm is a tiny assembler with labels and 4-byte relative jumps.
type asm struct {
	b      []byte
	labels map[string]int
	fix    []asmFix
}

type asmFix struct {
	at, insn int
	label    string
}

func newAsm() *asm { return &asm{labels: map[string]int{}} }

func (a *asm) op(ops ...opcode.Opcode) {
	for _, o := range ops {
		a.b = append(a.b, byte(o))
	}
}
func (a *asm) raw(b ...byte)  { a.b = append(a.b, b...) }
func (a *asm) label(l string) { a.labels[l] = len(a.b) }
func (a *asm) pos() int       { return len(a.b) }
func (a *asm) data(s string) {
	a.b = append(a.b, byte(opcode.PUSHDATA1), byte(len(s)))
	a.b = append(a.b, s...)
}
func (a *asm) jmp(o opcode.Opcode, l string) { // o must be a *_L jump or CALL_L
	insn := len(a.b)
	a.b = append(a.b, byte(o), 0, 0, 0, 0)
	a.fix = append(a.fix, asmFix{at: insn + 1, insn: insn, label: l})
}
func (a *asm) syscall(name string) {
	w := io.NewBufBinWriter()
	emit.Syscall(w.BinWriter, name)
	a.b = append(a.b, w.Bytes()...)
}
func (a *asm) bytes() []byte {
	for _, f := range a.fix {
		t, ok := a.labels[f.label]
		if !ok {
			panic("asm: no label " + f.label)
		}
		binary.LittleEndian.PutUint32(a.b[f.at:], uint32(int32(t-f.insn)))
	}
	return a.b
}

type entryMethod struct {
	name string
	np   int
	ret  smartcontract.ParamType
	off  int
}

// buildEntryContract assembles E with the given permissions and tokens.
func buildEntryContract(name string, sender util.Uint160, perms []manifest.Permission, toks []tokSpec) (*neotest.Contract, error) {
	a := newAsm()
	var ms []entryMethod
	m := func(name string, np int, ret smartcontract.ParamType) {
		ms = append(ms, entryMethod{name, np, ret, a.pos()})
	}
	// doProg: [prog] ->
	a.label("doProg")
	a.raw(byte(opcode.INITSLOT), 1, 0)
	a.op(opcode.UNPACK, opcode.DROP)               // flags, method, hash, sel, args
	a.op(opcode.PUSH3, opcode.ROLL, opcode.STLOC0) // flags, method, hash, args ; loc0 = sel
	a.op(opcode.REVERSE3)                          // hash, method, flags, args
	a.op(opcode.LDLOC0, opcode.PUSHM1, opcode.NUMEQUAL)
	a.jmp(opcode.JMPIFNOTL, "tok")
	a.syscall("System.Contract.Call")
	a.op(opcode.DROP, opcode.RET)
	a.label("tok")
	a.op(opcode.DROP, opcode.DROP, opcode.DROP, opcode.UNPACK, opcode.DROP) // a0, a1, ...
	for i := range toks {
		next := fmt.Sprintf("next%d", i)
		a.op(opcode.LDLOC0)
		a.raw(byte(opcode.PUSHINT8), byte(i))
		a.op(opcode.NUMEQUAL)
		a.jmp(opcode.JMPIFNOTL, next)
		a.raw(byte(opcode.CALLT), byte(i), byte(i>>8))
		a.op(opcode.DROP, opcode.RET)
		a.label(next)
	}
	a.op(opcode.ABORT)

	m("verify", 1, smartcontract.BoolType)
	a.jmp(opcode.CALLL, "doProg")
	a.op(opcode.PUSHT, opcode.RET)

	m("call", 1, smartcontract.VoidType)
	a.jmp(opcode.CALLL, "doProg")
	a.op(opcode.RET)

	m("_deploy", 2, smartcontract.VoidType) // data, isUpdate
	a.op(opcode.DUP, opcode.ISNULL)
	a.jmp(opcode.JMPIFL, "dskip")
	a.jmp(opcode.CALLL, "doProg")
	a.op(opcode.DROP, opcode.RET)
	a.label("dskip")
	a.op(opcode.DROP, opcode.DROP, opcode.RET)

	m("onNEP17Payment", 3, smartcontract.VoidType) // from, amount, data
	a.op(opcode.DROP, opcode.DROP, opcode.DUP, opcode.ISNULL)
	a.jmp(opcode.JMPIFL, "pskip")
	a.jmp(opcode.CALLL, "doProg")
	a.op(opcode.RET)
	a.label("pskip")
	a.op(opcode.DROP, opcode.RET)

	m("load", 2, smartcontract.AnyType)                  // script, flags -> result of the loaded script
	a.op(opcode.NEWARRAY0, opcode.REVERSE3, opcode.SWAP) // script, flags, args
	a.syscall("System.Runtime.LoadScript")
	a.op(opcode.RET)

	m("set", 2, smartcontract.VoidType) // key, value
	a.syscall("System.Storage.Local.Put")
	a.op(opcode.RET)

	m("nop", 0, smartcontract.VoidType)
	a.op(opcode.RET)

	// callback of an oracle request; the program it runs is the one _initialize finds in storage
	m("oracleCb", 4, smartcontract.VoidType) // url, userdata, code, result
	a.op(opcode.DROP, opcode.DROP, opcode.DROP, opcode.DROP, opcode.RET)

	// _initialize: runs the program stored under the keys s,a,h,m,f (if any)
	m("_initialize", 0, smartcontract.VoidType)
	a.data("s")
	a.syscall("System.Storage.Local.Get")
	a.op(opcode.DUP, opcode.ISNULL)
	a.jmp(opcode.JMPIFNOTL, "igo")
	a.op(opcode.DROP, opcode.RET)
	a.label("igo") // sel
	a.data("a")
	a.syscall("System.Storage.Local.Get")
	a.op(opcode.DUP, opcode.ISNULL)
	a.jmp(opcode.JMPIFNOTL, "ihave")
	a.op(opcode.DROP, opcode.NEWARRAY0)
	a.label("ihave")                             // arg, sel
	a.op(opcode.PUSH1, opcode.PACK, opcode.SWAP) // sel, args
	for _, k := range []string{"h", "m", "f"} {
		a.data(k)
		a.syscall("System.Storage.Local.Get")
	} // flags, method, hash, sel, args
	a.op(opcode.PUSH5, opcode.PACK)
	a.jmp(opcode.CALLL, "doProg")
	a.op(opcode.RET)

	script := a.bytes()
	mf := manifest.DefaultManifest(name)
	if perms != nil {
		mf.Permissions = perms
	}
	for _, x := range ms {
		md := manifest.Method{Name: x.name, Offset: x.off, ReturnType: x.ret, Parameters: []manifest.Parameter{}}
		for p := 0; p < x.np; p++ {
			md.Parameters = append(md.Parameters, manifest.NewParameter(fmt.Sprintf("a%d", p), smartcontract.AnyType))
		}
		mf.ABI.Methods = append(mf.ABI.Methods, md)
	}
	ne, err := nef.NewFile(script)
	if err != nil {
		return nil, err
	}
	for _, t := range toks {
		ne.Tokens = append(ne.Tokens, nef.MethodToken{Hash: t.Hash, Method: t.Method, ParamCount: uint16(t.NParam), HasReturn: t.Ret, CallFlag: t.Flags})
	}
	ne.Checksum = ne.CalculateChecksum()
	return &neotest.Contract{Hash: state.CreateContractHash(sender, ne.Checksum, mf.Name), NEF: ne, Manifest: mf}, nil
}

// deployEntryCallers deploys one E per caller shape.
func (pw *permWorld) deployEntryCallers(cs []callerSpec) error {
	sender := pw.n.Validator.ScriptHash()
	toks := pw.permTokens()
	const batch = 20
	for i := 0; i < len(cs); i += batch {
		var txs []*transaction.Transaction
		part := cs[i:min(i+batch, len(cs))]
		for j := range part {
			e, err := buildEntryContract(fmt.Sprintf("E%d", i+j), sender, pw.realPerms(part[j].Perms), toks)
			if err != nil {
				return err
			}
			part[j].ec = e
			tx, err := pw.n.DeployTx(e, pw.n.Validator, nil)
			if err != nil {
				return fmt.Errorf("deploy tx of entry caller %s: %w", part[j].String(), err)
			}
			txs = append(txs, tx)
		}
		if _, err := pw.n.AddBlock(txs...); err != nil {
			return err
		}
		for j, tx := range txs {
			if err := pw.n.CheckHalt(tx.Hash()); err != nil {
				return fmt.Errorf("deploy entry caller %s: %w", part[j].String(), err)
			}
		}
	}
	// the wildcard instance makes ONE oracle request (callback oracleCb); the oracle context answers it in test
	// invocations after the instance updated itself to the permissions under test
	for i := range cs {
		if len(cs[i].Perms) == 1 && cs[i].Perms[0].Desc == "*" && cs[i].Perms[0].Wild && !pw.oracleReady {
			com := []neotest.Signer{pw.n.Committee}
			val := []neotest.Signer{pw.n.Validator}
			d, err := pw.n.CallTx(com, nativehashes.RoleManagement, "designateAsRole", int64(noderoles.Oracle), []any{chainx.Acc(3).PublicKey().Bytes()})
			if err != nil {
				return fmt.Errorf("designate oracle: %w", err)
			}
			q, err := pw.n.CallTx(val, cs[i].ec.Hash, "call", []any{15, "request", nativehashes.OracleContract.BytesBE(), -1, []any{"https://x.y/z", nil, "oracleCb", nil, int64(gas)}})
			if err != nil {
				return fmt.Errorf("oracle request: %w", err)
			}
			if _, err := pw.n.AddBlock(d, q); err != nil {
				return err
			}
			for _, tx := range []*transaction.Transaction{d, q} {
				if err := pw.n.CheckHalt(tx.Hash()); err != nil {
					return fmt.Errorf("oracle request: %w", err)
				}
			}
			pw.oracleReq, pw.oracleReady = 0, true
		}
	}
	return nil
}

// entryContexts in the order they are explored (simplest first).
var entryContexts = []string{"app", "init", "payment", "deploy", "update", "oracle", "loadscript", "verify-witness", "verify-tx"}

// entryCase is one cell of the matrix (also the replay detail).
type entryCase struct {
	Sub     string     `json:"sub"`  // entry-<context>[-after-restart]
	Kind    string     `json:"kind"` // call | token
	Caller  callerSpec `json:"caller"`
	Callee  string     `json:"callee"`
	Groups  []string   `json:"callee_groups"`
	Method  string     `json:"method"`
	Safe    bool       `json:"method_safe"`
	Got     string     `json:"got"`
	Want    string     `json:"want"`
	Detail  string     `json:"detail,omitempty"`
	Context string     `json:"context"`
}

func classify(state, fault string) string {
	switch {
	case state == "HALT" || state == "ok":
		return "ok"
	case strings.Contains(fault, "disallowed method call"):
		return "denied"
	}
	return "fault"
}

// prog builds [flags, method, hash, sel, args].
func entryProg(c *callee, md calleeMethod, self util.Uint160, sel int) []any {
	return []any{15, md.Name, c.Hash.BytesBE(), sel, md.Args(self)}
}

// verifyTx builds a transaction sent by the validator whose second signer is
// the contract e (empty verification script, invocation script pushing prog).
func (pw *permWorld) verifyTx(e util.Uint160, prog []any) (*transaction.Transaction, error) {
	tx := transaction.New([]byte{byte(opcode.PUSH1), byte(opcode.RET)}, 1000000)
	nonceMu.Lock() // verifyTx is called from parallel workers
	tx.Nonce = pw.n.Nonce()
	nonceMu.Unlock()
	tx.ValidUntilBlock = pw.n.BC.BlockHeight() + 5
	tx.NetworkFee = 2 * gas
	tx.Signers = []transaction.Signer{
		{Account: pw.n.Validator.ScriptHash(), Scopes: transaction.CalledByEntry},
		{Account: e, Scopes: transaction.None},
	}
	w := io.NewBufBinWriter()
	emitArg(w.BinWriter, prog)
	if w.Err != nil {
		return nil, w.Err
	}
	magic := uint32(pw.n.BC.GetConfig().Magic)
	tx.Scripts = []transaction.Witness{
		{InvocationScript: pw.n.Validator.SignHashable(magic, tx), VerificationScript: pw.n.Validator.Script()},
		{InvocationScript: w.Bytes(), VerificationScript: []byte{}},
	}
	return tx, nil
}

// entryRun executes one cell. applicable=false: the cell does not exist
// (e.g. a 4-argument target cannot be described to _initialize).
func (pw *permWorld) entryRun(ctx, kind string, cs callerSpec, tok int, c *callee, md calleeMethod, star *callerSpec) (got, detail string, applicable bool) {
	e := cs.ec
	sel := -1
	if kind == "token" {
		sel = tok
	}
	run := func(script []byte) (string, string) {
		ef := pw.run(script, fAll)
		return classify(ef.State, ef.Fault), ef.Fault
	}
	join := func(parts ...[]byte) []byte {
		var out []byte
		for _, p := range parts {
			out = append(out, p...)
		}
		return out
	}
	switch ctx {
	case "app":
		got, detail = run(callScript(e.Hash, "call", 15, entryProg(c, md, e.Hash, sel)))
	case "init":
		args := md.Args(e.Hash)
		if len(args) != 1 {
			return "", "", false
		}
		set := func(k string, v []byte) []byte { return callScript(e.Hash, "set", 15, []byte(k), v) }
		parts := [][]byte{set("h", c.Hash.BytesBE()), set("m", []byte(md.Name)), set("f", []byte{15})}
		switch v := args[0].(type) {
		case int:
			parts = append(parts, set("a", []byte{byte(v)}))
		case []byte:
			parts = append(parts, set("a", v))
		} // an empty array is the default argument
		parts = append(parts, set("s", []byte{byte(int8(sel))}), callScript(e.Hash, "nop", 15))
		got, detail = run(join(parts...))
	case "payment":
		got, detail = run(callScript(nativehashes.GasToken, "transfer", 15, pw.n.Validator.ScriptHash(), e.Hash, 1, entryProg(c, md, e.Hash, sel)))
	case "deploy":
		// a NEW instance with the same code and permissions is deployed by the entry script; its _deploy runs the program
		mf := *e.Manifest
		mf.Name = e.Manifest.Name + "x"
		h := state.CreateContractHash(pw.n.Validator.ScriptHash(), e.NEF.Checksum, mf.Name)
		mb, err := json.Marshal(&mf)
		nb, err2 := e.NEF.Bytes()
		if err != nil || err2 != nil {
			return "fault", fmt.Sprint(err, err2), true
		}
		got, detail = run(callScript(nativehashes.ContractManagement, "deploy", 15, nb, mb, entryProg(c, md, h, sel)))
	case "update":
		// the wildcard instance updates ITSELF to the manifest (permissions) of cs; _deploy(data, true) runs the program
		if star == nil {
			return "", "", false
		}
		mf := *e.Manifest
		mf.Name = star.ec.Manifest.Name
		mb, err := json.Marshal(&mf)
		if err != nil {
			return "fault", err.Error(), true
		}
		inner := entryProg(c, md, star.ec.Hash, sel)
		outer := []any{15, "update", nativehashes.ContractManagement.BytesBE(), -1, []any{nil, mb, inner}}
		got, detail = run(callScript(star.ec.Hash, "call", 15, outer))
	case "oracle":
		// Oracle.finish (called by the entry script, as an oracle response transaction does) makes the native
		// contract call oracleCb of the wildcard instance, which by then has updated itself to the permissions of
		// cs; the callback's _initialize runs the program stored by the preceding calls of set
		args := md.Args(e.Hash)
		if star == nil || !pw.oracleReady || len(args) != 1 {
			return "", "", false
		}
		se := star.ec
		mf := *e.Manifest
		mf.Name = se.Manifest.Name
		mb, err := json.Marshal(&mf)
		if err != nil {
			return "fault", err.Error(), true
		}
		set := func(k string, v []byte) []byte { return callScript(se.Hash, "set", 15, []byte(k), v) }
		parts := [][]byte{callScript(se.Hash, "call", 15, []any{15, "update", nativehashes.ContractManagement.BytesBE(), -1, []any{nil, mb, nil}}),
			set("h", c.Hash.BytesBE()), set("m", []byte(md.Name)), set("f", []byte{15})}
		switch v := md.Args(se.Hash)[0].(type) {
		case int:
			parts = append(parts, set("a", []byte{byte(v)}))
		case []byte:
			parts = append(parts, set("a", v))
		}
		parts = append(parts, set("s", []byte{byte(int8(sel))}), callScript(nativehashes.OracleContract, "finish", 15))
		got, detail = run(join(parts...))
	case "loadscript":
		if kind == "token" {
			return "", "", false
		}
		got, detail = run(callScript(e.Hash, "load", 15, callScript(c.Hash, md.Name, 15, md.Args(e.Hash)...), 15))
	case "verify-witness", "verify-tx":
		tx, err := pw.verifyTx(e.Hash, entryProg(c, md, e.Hash, sel))
		if err != nil {
			return "fault", err.Error(), true
		}
		if ctx == "verify-witness" {
			_, err = pw.n.BC.VerifyWitness(e.Hash, tx, &tx.Scripts[1], 1*gas)
		} else {
			err = pw.n.BC.VerifyTx(tx)
		}
		if err == nil {
			return "ok", "", true
		}
		return classify("FAULT", err.Error()), err.Error(), true
	default:
		panic("entry context " + ctx)
	}
	return got, detail, true
}

// writeNeeded: the target needs WriteStates/AllowNotify, which verification
// and loaded scripts never have.
func writeNeeded(md calleeMethod) bool { return md.Name == "transfer" }

func readOnlyContext(ctx string) bool {
	return strings.HasPrefix(ctx, "verify") || ctx == "loadscript"
}

var _ = vk.Root

var nonceMu sync.Mutex

// ---- driver -----------------------------------------------------------------------------------

type entryCell struct {
	ctx, kind string
	cs        callerSpec
	c         *callee
	md        calleeMethod
	tok       int
}

type entryStats struct {
	cells, na, blocks                 int64
	loadCells                         int64 // cells of the loaded-script flags oracle
	loadHalt                          int64
	loadWitnessRefused, loadFlagsSeen int64
	byCtx                             map[string]int64
}

// judgeEntry evaluates one cell; it returns a violation key ("" = fine).
func judgeEntry(ec *entryCase, perms []permShape, c *callee, md calleeMethod) string {
	want := md.Safe || allowedBy(perms, c, md.Name)
	who := fmt.Sprintf("permission:%s:%s:%s->%s.%s", ec.Sub, ec.Kind, ec.Caller.String(), ec.Callee, ec.Method)
	if ec.Context == "loadscript" {
		// A dynamically loaded script is not a deployed contract (it runs under its
		// own script hash, like an entry script): no manifest permission check
		// applies to its calls. What confines it is checked by loadFlags().
		want = true
		who = fmt.Sprintf("flags:%s:%s->%s.%s", ec.Sub, ec.Caller.String(), ec.Callee, ec.Method)
	}
	ec.Want = verdict(want)
	switch {
	case ec.Got == "denied" && want:
		return who + ":denied-but-predicate-allowed"
	case ec.Got != "denied" && !want:
		return who + ":" + ec.Got + "-but-predicate-denied"
	case want && ec.Got != "ok" && !(readOnlyContext(ec.Context) && writeNeeded(md)):
		return who + ":allowed-call-failed"
	}
	return ""
}

func (pw *permWorld) entryCells(shapes []callerSpec, ctxs []string) []entryCell {
	var out []entryCell
	for _, ctx := range ctxs {
		for _, kind := range []string{"call", "token"} {
			for _, cs := range shapes {
				k := 0
				for _, c := range pw.callees {
					for _, md := range c.Methods {
						out = append(out, entryCell{ctx, kind, cs, c, md, k})
						k++
					}
				}
			}
		}
	}
	return out
}

type entryRunner struct {
	r        *vk.Run
	pw       *permWorld
	st       *entryStats
	mu       sync.Mutex
	reported map[string]int
	best     map[string]entryWitness
}

func (er *entryRunner) judge(ec entryCase, perms []permShape, c *callee, md calleeMethod) {
	key := judgeEntry(&ec, perms, c, md)
	er.mu.Lock()
	defer er.mu.Unlock()
	er.st.cells++
	er.st.byCtx[ec.Sub]++
	if key == "" {
		er.r.Outcome(ec.Sub + ":" + ec.Got)
		er.r.Sample(map[string]any{"sub": ec.Sub, "kind": ec.Kind, "caller_permissions": ec.Caller.String(), "callee": ec.Callee, "method": ec.Method, "result": ec.Got})
		return
	}
	// one witness per (context, kind of mismatch): the smallest case, reported by flush()
	cls := "entry-" + ec.Context + ":" + key[strings.LastIndex(key, ":")+1:]
	er.reported[cls]++
	rank := func(k string, e entryCase) string {
		return fmt.Sprintf("%v %d %s", strings.Contains(e.Sub, "after-restart"), len(e.Caller.Perms), k)
	}
	if w, ok := er.best[cls]; !ok || rank(key, ec) < rank(w.key, w.ec) {
		er.best[cls] = entryWitness{key, ec}
	}
}

type entryWitness struct {
	key string
	ec  entryCase
}

// flush reports the witnesses (a root cause is reported a few times at most).
func (er *entryRunner) flush() {
	var cl []string
	for c := range er.best {
		cl = append(cl, c)
	}
	sort.Strings(cl)
	for i, c := range cl {
		if i >= 8 {
			er.r.Outcome("suppressed-duplicate:" + c)
			continue
		}
		w := er.best[c]
		er.r.Violation(w.key, map[string]any{"sub": w.ec.Sub, "case": w.ec, "cells_in_this_class": er.reported[c]})
	}
}

func (er *entryRunner) matrix(shapes []callerSpec, suffix string) {
	pw := er.pw
	var star *callerSpec
	for i := range shapes {
		if len(shapes[i].Perms) == 1 && shapes[i].Perms[0].Desc == "*" && shapes[i].Perms[0].Wild {
			star = &shapes[i]
		}
	}
	cells := pw.entryCells(shapes, entryContexts)
	er.r.Parallel(len(cells), func(i int) {
		x := cells[i]
		got, detail, ok := pw.entryRun(x.ctx, x.kind, x.cs, x.tok, x.c, x.md, star)
		if !ok {
			er.mu.Lock()
			er.st.na++
			er.mu.Unlock()
			return
		}
		if len(detail) > 300 {
			detail = detail[:300]
		}
		er.judge(entryCase{Sub: "entry-" + x.ctx + suffix, Kind: x.kind, Caller: x.cs, Callee: x.c.Name, Groups: x.c.Groups, Method: x.md.Name, Safe: x.md.Safe,
			Got: got, Detail: detail, Context: x.ctx}, x.cs.Perms, x.c, x.md)
	})
}

// blocks: the contract-witnessed transaction alone in a block built and signed
// like any other; a block holding a transaction with a failing witness must be
// rejected, one with a passing witness accepted.
func (er *entryRunner) blocks(shapes []callerSpec, suffix string, kinds []string, every int) {
	pw := er.pw
	poisoned, neg := false, 0
	for _, x := range pw.entryCells(shapes, []string{"verify-block"}) {
		if er.r.Expired() || poisoned {
			return
		}
		use := false
		for _, k := range kinds {
			use = use || k == x.kind
		}
		if !use {
			continue
		}
		sel := -1
		if x.kind == "token" {
			sel = x.tok
		}
		tx, err := pw.verifyTx(x.cs.ec.Hash, entryProg(x.c, x.md, x.cs.ec.Hash, sel))
		got, detail := "ok", ""
		if err == nil {
			// A block whose transaction fails verification is rejected AFTER its
			// header was accepted, which pins the node to that block. So blocks that
			// the node's own VerifyTx refuses are tried on a clone of the node.
			if pw.n.BC.VerifyTx(tx) == nil {
				if _, err = pw.n.AddBlock(tx); err != nil {
					poisoned = true
				}
			} else {
				if every > 1 && neg%every != 0 {
					neg++
					er.r.Outcome("entry-verify-block" + suffix + ":refused-case-not-tried-in-a-block(quick)")
					continue
				}
				neg++
				var cl *chainx.Node
				if cl, err = pw.clone(); err == nil {
					_, err = cl.AddBlock(tx)
					cl.Close()
				}
			}
		}
		if err != nil {
			got, detail = classify("FAULT", err.Error()), err.Error()
			if len(detail) > 300 {
				detail = detail[:300]
			}
		}
		er.st.blocks++
		er.judge(entryCase{Sub: "entry-verify-block" + suffix, Kind: x.kind, Caller: x.cs, Callee: x.c.Name, Groups: x.c.Groups, Method: x.md.Name, Safe: x.md.Safe,
			Got: got, Detail: detail, Context: "verify-block"}, x.cs.Perms, x.c, x.md)
	}
}

// clone starts a second node on a copy of everything the node has stored.
func (pw *permWorld) clone() (*chainx.Node, error) {
	if err := pw.n.Persist(); err != nil {
		return nil, err
	}
	rs, ok := pw.n.Store.(*chainx.RecStore)
	if !ok {
		return nil, fmt.Errorf("node store is not a recording store")
	}
	b := rs.Batches()
	return chainx.New(chainx.Opts{Proto: allHF, Store: chainx.NewRecStore(chainx.ApplyBatches(b, len(b)))})
}

// replayEntry re-runs one cell of the entry-context matrix 5 times on a fresh chain.
func replayEntry(r *vk.Run, ec entryCase) {
	pw, err := newPermWorld()
	if err != nil {
		fmt.Println("CHECK-ERROR:", err)
		os.Exit(3)
	}
	defer func() { pw.n.Close() }()
	shapes := []callerSpec{ec.Caller, {Perms: []permShape{{Desc: "*", Wild: true}}}}
	if err := pw.deployEntryCallers(shapes); err != nil {
		fmt.Println("CHECK-ERROR:", err)
		os.Exit(3)
	}
	if strings.Contains(ec.Sub, "after-restart") {
		m, err := pw.n.Reopen()
		if err != nil {
			fmt.Println("CHECK-ERROR:", err)
			os.Exit(3)
		}
		pw.n = m
	}
	c := pw.byName[ec.Callee]
	tok, k := 0, 0
	var md calleeMethod
	for _, cc := range pw.callees {
		for _, m := range cc.Methods {
			if cc == c && m.Name == ec.Method {
				md, tok = m, k
			}
			k++
		}
	}
	for i := 0; i < 5; i++ {
		x := ec
		var detail string
		if ec.Context == "verify-block" {
			sel := -1
			if ec.Kind == "token" {
				sel = tok
			}
			x.Got = "ok"
			tx, err := pw.verifyTx(shapes[0].ec.Hash, entryProg(c, md, shapes[0].ec.Hash, sel))
			if err == nil {
				var cl *chainx.Node
				if cl, err = pw.clone(); err == nil {
					_, err = cl.AddBlock(tx)
					cl.Close()
				}
			}
			if err != nil {
				x.Got, detail = classify("FAULT", err.Error()), err.Error()
			}
		} else {
			x.Got, detail, _ = pw.entryRun(ec.Context, ec.Kind, shapes[0], tok, c, md, &shapes[1])
		}
		key := judgeEntry(&x, ec.Caller.Perms, c, md)
		fmt.Printf("replay %d: %s %s %s -> %s.%s: %s (predicate %s) %s\n", i, x.Sub, x.Kind, ec.Caller.String(), ec.Callee, ec.Method, x.Got, x.Want, detail)
		if key != "" {
			if ec.Context == "loadscript" {
				key = "permission:entry-loadscript:loaded-script-skips-permission-check"
			}
			r.Violation(key, x)
		}
	}
}

// ---- what confines a dynamically loaded script -------------------------------------------------

// loadCase is one cell of the loaded-script flags oracle (replay detail).
type loadCase struct {
	Sub     string   `json:"sub"` // entry-loadscript-flags
	Loader  string   `json:"loader_permissions"`
	FL      int      `json:"loader_flags"`
	FA      int      `json:"flags_argument"`
	Target  string   `json:"target"`
	What    string   `json:"what"`
	Effects *effects `json:"effects,omitempty"`
}

type loadTarget struct {
	name   string
	script func(e util.Uint160) []byte
}

func (pw *permWorld) loadTargets() []loadTarget {
	cn := pw.byName["Cn"].Hash
	put := []any{chainx.OpPut, []byte("x"), []byte("1")}
	call := func(method string, prog ...any) func(util.Uint160) []byte {
		return func(util.Uint160) []byte { return callScript(cn, method, 15, append([]any{}, prog...)) }
	}
	getFlags := func(util.Uint160) []byte { return getFlagsScript }
	return []loadTarget{
		{"getflags", getFlags},
		{"Cn.run[]", call("run")},
		{"Cn.run[put]", call("run", put)},
		{"Cn.run[notify]", call("run", []any{chainx.OpNotify, 1})},
		{"Cn.run[getflags]", call("run", []any{chainx.OpGetFlags})},
		{"Cn.runSafe[put]", call("runSafe", put)},
		{"Cn.runSafe[notify]", call("runSafe", []any{chainx.OpNotify, 1})},
		{"Cn.other", func(util.Uint160) []byte { return callScript(cn, "other", 15, 1) }},
		{"Cn.run[checkwitness-loader]", func(e util.Uint160) []byte {
			return callScript(cn, "run", 15, []any{[]any{chainx.OpCheckWitness, e.BytesBE()}})
		}},
		{"GAS.transfer-from-loader", func(e util.Uint160) []byte {
			return callScript(nativehashes.GasToken, "transfer", 15, e.BytesBE(), chainx.Acc(1).ScriptHash().BytesBE(), 1, nil)
		}},
		{"GAS.balanceOf", func(e util.Uint160) []byte { return callScript(nativehashes.GasToken, "balanceOf", 15, e.BytesBE()) }},
	}
}

// loadFlags: loader E (called with flags fl) loads a script with flags
// argument fa, for all 16x16 pairs and every target. Demanded (all stated by
// the property): the loaded script and everything it calls run with a subset
// of ReadStates|AllowCall, of fl and of fa; hence no storage change and no
// notification in any cell; a callee is executed only if AllowCall is in fl and
// fa; the callee sees the script's hash, not the loader, as its caller (a
// CheckWitness(loader) inside the callee is false); the call is never refused
// for manifest permissions, whatever the loader's manifest says.
func (er *entryRunner) loadFlags(shapes []callerSpec) {
	pw := er.pw
	type cell struct {
		cs     callerSpec
		fl, fa int
		t      loadTarget
	}
	var cells []cell
	for _, cs := range shapes {
		for _, t := range pw.loadTargets() {
			for _, fl := range flagOrder {
				for _, fa := range flagOrder {
					cells = append(cells, cell{cs, fl, fa, t})
				}
			}
		}
	}
	var mu sync.Mutex
	best := map[string]struct {
		key string
		lc  loadCase
	}{}
	er.r.Parallel(len(cells), func(i int) {
		x := cells[i]
		e := x.cs.ec.Hash
		ef := pw.run(callScript(e, "load", x.fl, x.t.script(e), x.fa), fAll)
		mu.Lock()
		er.st.loadCells++
		mu.Unlock()
		if ef.State != "HALT" {
			if strings.Contains(ef.Fault, "disallowed method call") {
				ef.State = "HALT-less" // judged below
			} else {
				er.r.Outcome("entry-loadscript-flags:FAULT")
				return
			}
		}
		mu.Lock()
		er.st.loadHalt++
		mu.Unlock()
		eff := x.fl & x.fa & (fR | fC)
		var what, kind string
		calleeRan := false
		for h := range ef.ctxs {
			if h != e && h != hash.Hash160(x.t.script(e)) {
				calleeRan = true
			}
		}
		var ints []int
		var bools []bool
		for _, it := range ef.stack {
			flattenInts(it, &ints)
			flattenBools(it, &bools)
		}
		switch {
		case ef.State != "HALT":
			kind, what = "refused-for-manifest-permissions", "a call made by a loaded script was refused with 'disallowed method call' although no manifest applies to a loaded script"
		case len(ef.Diff) > 0:
			kind, what = "storage-changed", "storage changed through a dynamically loaded script (its flags are at most ReadStates|AllowCall)"
		case len(ef.Notifs) > 0:
			kind, what = "notified", "a notification was emitted through a dynamically loaded script"
		case calleeRan && eff&fC == 0:
			kind, what = "called-without-AllowCall", "a contract was executed although AllowCall is missing in the loader's flags or in the flags argument"
		case (x.t.name == "getflags" || x.t.name == "Cn.run[getflags]") && len(ints) == 1 && ints[0]&^eff != 0:
			kind, what = "flags-grew", fmt.Sprintf("GetCallFlags inside is %s, not a subset of ReadOnly & loader %s & argument %s", fname(ints[0]), fname(x.fl), fname(x.fa))
		case x.t.name == "Cn.run[checkwitness-loader]" && len(bools) == 1 && bools[0]:
			kind, what = "loader-identity-lent", "CheckWitness(loader) inside a callee reached through the loaded script is true: the callee must see the script's hash as its caller"
		}
		if kind == "" {
			mu.Lock()
			if x.t.name == "Cn.run[checkwitness-loader]" && len(bools) == 1 && !bools[0] {
				er.st.loadWitnessRefused++
			}
			if (x.t.name == "getflags" || x.t.name == "Cn.run[getflags]") && len(ints) == 1 {
				er.st.loadFlagsSeen++
			}
			mu.Unlock()
			er.r.Outcome("entry-loadscript-flags:HALT")
			er.r.Sample(map[string]any{"sub": "entry-loadscript-flags", "loader_flags": fname(x.fl), "flags_argument": fname(x.fa), "target": x.t.name, "stack": ef.Stack})
			return
		}
		lc := loadCase{Sub: "entry-loadscript-flags", Loader: x.cs.String(), FL: x.fl, FA: x.fa, Target: x.t.name, What: what, Effects: ef}
		key := fmt.Sprintf("flags:entry-loadscript:%s:%s:%s:%s:%s", fname(x.fl), fname(x.fa), x.t.name, x.cs.String(), kind)
		mu.Lock()
		rank := fmt.Sprintf("%02d %s", popcount(x.fl)+popcount(x.fa), key)
		if b, ok := best[kind]; !ok || rank < b.key {
			best[kind] = struct {
				key string
				lc  loadCase
			}{rank, lc}
		}
		mu.Unlock()
	})
	var kinds []string
	for k := range best {
		kinds = append(kinds, k)
	}
	sort.Strings(kinds)
	for _, k := range kinds {
		b := best[k]
		er.r.Violation(b.key[3:], b.lc)
	}
}

func popcount(f int) int {
	n := 0
	for ; f != 0; f &= f - 1 {
		n++
	}
	return n
}

func flattenBools(it stackitem.Item, out *[]bool) {
	switch it.Type() {
	case stackitem.ArrayT, stackitem.StructT:
		for _, x := range it.Value().([]stackitem.Item) {
			flattenBools(x, out)
		}
	case stackitem.BooleanT:
		b, _ := it.TryBool()
		*out = append(*out, b)
	}
}

// replayLoad re-runs one cell of the loaded-script flags oracle 5 times.
func replayLoad(r *vk.Run, lc loadCase) {
	pw, err := newPermWorld()
	if err != nil {
		fmt.Println("CHECK-ERROR:", err)
		os.Exit(3)
	}
	defer func() { pw.n.Close() }()
	shapes := []callerSpec{{Perms: []permShape{}}, {Perms: []permShape{{Desc: "*", Wild: true}}}}
	if err := pw.deployEntryCallers(shapes); err != nil {
		fmt.Println("CHECK-ERROR:", err)
		os.Exit(3)
	}
	cs := shapes[0]
	if lc.Loader != cs.String() {
		cs = shapes[1]
	}
	for _, t := range pw.loadTargets() {
		if t.name != lc.Target {
			continue
		}
		for i := 0; i < 5; i++ {
			ef := pw.run(callScript(cs.ec.Hash, "load", lc.FL, t.script(cs.ec.Hash), lc.FA), fAll)
			fmt.Printf("replay %d: loader %s flags %s, argument %s, %s: %s diff=%v notifications=%v contexts=%v stack=%s %s\n", i, cs.String(), fname(lc.FL), fname(lc.FA), t.name, ef.State, ef.Diff, ef.Notifs, ef.Ctxs, ef.Stack, ef.Fault)
		}
	}
	er := &entryRunner{r: r, pw: pw, st: &entryStats{byCtx: map[string]int64{}}, reported: map[string]int{}, best: map[string]entryWitness{}}
	er.loadFlags([]callerSpec{cs})
}
