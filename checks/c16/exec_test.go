package c16

import (
	"bytes"
	"encoding/binary"
	"encoding/hex"
	"fmt"
	"sort"
	"strings"

	"github.com/nspcc-dev/neo-go/pkg/core/interop"
	"github.com/nspcc-dev/neo-go/pkg/core/transaction"
	"github.com/nspcc-dev/neo-go/pkg/io"
	"github.com/nspcc-dev/neo-go/pkg/smartcontract/callflag"
	"github.com/nspcc-dev/neo-go/pkg/smartcontract/trigger"
	"github.com/nspcc-dev/neo-go/pkg/util"
	"github.com/nspcc-dev/neo-go/pkg/vm"
	"github.com/nspcc-dev/neo-go/pkg/vm/emit"
	"github.com/nspcc-dev/neo-go/pkg/vm/opcode"
	"github.com/nspcc-dev/neo-go/pkg/vm/stackitem"

	"verif/lib/chainx"
)

// ---- flag sets ---------------------------------------------------------------

const (
	fR   = int(callflag.ReadStates)
	fW   = int(callflag.WriteStates)
	fC   = int(callflag.AllowCall)
	fN   = int(callflag.AllowNotify)
	fAll = int(callflag.All)
)

// fname renders a flag set as "RWCN" with '-' for absent flags.
func fname(f int) string {
	b := []byte("----")
	for i, c := range []byte("RWCN") {
		if f&(1<<uint(i)) != 0 {
			b[i] = c
		}
	}
	return string(b)
}

// ---- one execution on the real code and its observed effects ----------------------

// effects is what an execution did, observed on the interop context (not
// derived from any flag table).
type effects struct {
	State   string   `json:"state"` // HALT | FAULT
	Fault   string   `json:"fault,omitempty"`
	Diff    []string `json:"storage_diff,omitempty"`  // "id:hexkey" of items whose value differs from the chain's
	Writes  int      `json:"raw_writes,omitempty"`    // entries of the context's change set (incl. same-value writes)
	Notifs  []string `json:"notifications,omitempty"` // "hash8:name"
	Ctxs    []string `json:"contexts,omitempty"`      // script hashes (LE, 8 chars) that executed at least one instruction, except the entry script
	Invoked []string `json:"invocations,omitempty"`   // ic.Invocations
	Stack   string   `json:"stack,omitempty"`
	// universal observation (every execution of the check): the flags every context ran with, and
	// the first context seen running with a flag its parent on the invocation stack did not hold
	Grew    string         `json:"flags_grew,omitempty"`
	FlagsOf map[string]int `json:"flags_of_contexts,omitempty"` // hash8 -> OR of the flag sets its contexts ran with
	Union   int            `json:"flags_union"`                 // OR over all contexts that executed an instruction
	stack   []stackitem.Item
	ctxs    map[util.Uint160]bool
	inv     map[util.Uint160]int
	flagsOf map[util.Uint160]int
}

func short(h util.Uint160) string { return h.StringLE()[:8] }

// run executes an entry script (loaded with all flags) against the current
// state of the prepared chain in a test VM, the way an RPC invocation or a
// transaction in a block does, and collects the effects.
// runner is a prepared chain plus the signers of the test transactions.
type runner struct {
	n         *chainx.Node
	signers   []transaction.Signer
	oracleReq uint64
	tag       string // which prepared chain ("" = the chain of the flags sub-check, which replays rebuild)
}

func (w *runner) run(script []byte, load int) *effects {
	tx := transaction.New(script, 0)
	tx.Nonce = 7
	tx.ValidUntilBlock = w.n.BC.BlockHeight() + 5
	tx.Signers = w.signers
	tx.Attributes = []transaction.Attribute{{Type: transaction.OracleResponseT, Value: &transaction.OracleResponse{ID: w.oracleReq, Code: transaction.Success, Result: []byte{}}}}
	tx.Scripts = make([]transaction.Witness, len(tx.Signers))
	ic, err := w.n.BC.GetTestVM(trigger.Application, tx, nil)
	if err != nil {
		return &effects{State: "ERROR", Fault: err.Error()}
	}
	return w.runIC(ic, script, load)
}

func (w *runner) runIC(ic *interop.Context, script []byte, load int) (e *effects) {
	return w.runLoaded(ic, script, load, func() { ic.VM.LoadScriptWithFlags(script, callflag.CallFlag(load)) })
}

// runLoaded: loadFn puts the contexts to execute onto the VM's invocation stack
// (script and load only describe the case for reports).
func (w *runner) runLoaded(ic *interop.Context, script []byte, load int, loadFn func()) (e *effects) {
	e = &effects{ctxs: map[util.Uint160]bool{}, flagsOf: map[util.Uint160]int{}}
	base := ic.DAO
	entry := util.Uint160{}
	first := true
	var last *vm.Context
	ic.VM.SetOnExecHook(func(h util.Uint160, _ int, _ opcode.Opcode) {
		if first {
			entry, first = h, false
		}
		e.ctxs[h] = true
		if cur := ic.VM.Context(); cur != last {
			last = cur
			f := int(cur.GetCallFlags())
			e.flagsOf[h] |= f
			e.Union |= f
			if is := ic.VM.Istack(); len(is) >= 2 && e.Grew == "" {
				if p := is[len(is)-2]; f&^int(p.GetCallFlags()) != 0 {
					e.Grew = fmt.Sprintf("%s:%s-above-%s:%s:depth%d", short(h), fname(f), short(p.ScriptHash()), fname(int(p.GetCallFlags())), len(is))
				}
			}
		}
	})
	ic.VM.SetGasLimit(20000 * 100000000)
	loadFn()
	func() {
		defer func() {
			if r := recover(); r != nil {
				err := fmt.Errorf("panic: %v", r)
				e.State, e.Fault = "PANIC", err.Error()
			}
		}()
		err := ic.Exec()
		if ic.VM.HasFailed() || err != nil {
			e.State = "FAULT"
			if err != nil {
				e.Fault = err.Error()
			}
		} else {
			e.State = "HALT"
		}
	}()
	delete(e.ctxs, entry)
	if len(e.flagsOf) > 0 {
		e.FlagsOf = map[string]int{}
		for h, f := range e.flagsOf {
			e.FlagsOf[short(h)] = f
		}
	}
	if e.Grew != "" {
		noteGrew(e, script, load, w.tag)
	}
	for h := range e.ctxs {
		e.Ctxs = append(e.Ctxs, short(h))
	}
	sort.Strings(e.Ctxs)
	e.inv = ic.Invocations
	for h, n := range ic.Invocations {
		e.Invoked = append(e.Invoked, fmt.Sprintf("%s x%d", short(h), n))
	}
	sort.Strings(e.Invoked)
	for _, n := range ic.Notifications {
		e.Notifs = append(e.Notifs, short(n.ScriptHash)+":"+n.Name)
	}
	// Storage diff of ALL contracts: the change set of the context's private
	// store layer against the chain's own view.
	ch := base.Store.GetStorageChanges()
	e.Writes = len(ch)
	for k, v := range ch {
		if len(k) < 5 {
			continue
		}
		id := int32(binary.LittleEndian.Uint32([]byte(k[1:5])))
		key := []byte(k[5:])
		old := w.n.BC.GetStorageItem(id, key)
		if (v == nil && old != nil) || (v != nil && (old == nil || !bytes.Equal(old, v))) {
			e.Diff = append(e.Diff, fmt.Sprintf("%d:%s", id, hex.EncodeToString(key)))
		}
	}
	sort.Strings(e.Diff)
	if e.State == "HALT" {
		st := ic.VM.Estack()
		for i := st.Len() - 1; i >= 0; i-- {
			e.stack = append(e.stack, st.Peek(i).Item())
		}
		var sb []string
		for _, it := range e.stack {
			sb = append(sb, chainx.ItemString(it))
		}
		e.Stack = strings.Join(sb, " ")
		if len(e.Stack) > 400 {
			e.Stack = e.Stack[:400] + "..."
		}
	}
	return e
}

// ---- entry scripts -----------------------------------------------------------------

// frag is a script fragment that pushes one value (used for arguments that
// cannot be written as data: interop interfaces).
type frag []byte

// emitArg pushes one argument.
func emitArg(w *io.BinWriter, a any) {
	switch v := a.(type) {
	case frag:
		w.WriteBytes(v)
	case []any:
		for i := len(v) - 1; i >= 0; i-- {
			emitArg(w, v[i])
		}
		emit.Int(w, int64(len(v)))
		emit.Opcodes(w, opcode.PACK)
	case util.Uint160:
		emit.Bytes(w, v.BytesBE())
	case util.Uint256:
		emit.Bytes(w, v.BytesBE())
	case int:
		emit.Int(w, int64(v))
	default:
		emit.Any(w, a)
	}
}

// callScript is an entry script calling method of h with call flags f.
func callScript(h util.Uint160, method string, f int, args ...any) []byte {
	w := io.NewBufBinWriter()
	emitArg(w.BinWriter, append([]any{}, args...))
	emit.Int(w.BinWriter, int64(f))
	emit.String(w.BinWriter, method)
	emit.Bytes(w.BinWriter, h.BytesBE())
	emit.Syscall(w.BinWriter, "System.Contract.Call")
	if w.Err != nil {
		panic(w.Err)
	}
	return w.Bytes()
}

// names of effects, for keys and completeness tables
func (e *effects) kinds(self util.Uint160) (wr, nt, call bool) {
	wr = len(e.Diff) > 0
	nt = len(e.Notifs) > 0
	for h := range e.ctxs {
		if h != self {
			call = true
		}
	}
	for h := range e.inv {
		if h != self {
			call = true
		}
	}
	return
}
