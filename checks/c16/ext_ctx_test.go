package c16

// Extension (author round): contexts the ledger itself creates, and invalid flag values.
//
//	verif    - everything that can run under the Verification trigger: verify of a
//	           deployed contract (VF.verify), a plain verification script (account =
//	           hash of the script), and invocation scripts that do more than push
//	           data. Each case runs on four paths: a VM the check owns
//	           (GetTestVM(Verification) + Blockchain.InitVerificationContext, watched
//	           instruction by instruction), Blockchain.VerifyWitness, Blockchain.VerifyTx
//	           and - a subset - a block. Oracle: no context ever holds a flag outside
//	           ReadStates|AllowCall, flags never grow along the invocation stack, no
//	           storage change, no notification; the unwatched paths accept exactly the
//	           cases the watched path accepts; the ledger's storage is untouched.
//	badflags - flags arguments outside the 16 defined sets given to
//	           System.Contract.Call / System.Runtime.LoadScript (through compiled code
//	           and as raw entry scripts, every caller flag set) and NEF method tokens
//	           with undefined flag bits.

import (
	"encoding/json"
	"fmt"
	"math/big"
	"sort"
	"strings"
	"sync"

	"github.com/nspcc-dev/neo-go/pkg/core/native/nativehashes"
	"github.com/nspcc-dev/neo-go/pkg/core/state"
	"github.com/nspcc-dev/neo-go/pkg/core/transaction"
	"github.com/nspcc-dev/neo-go/pkg/crypto/hash"
	"github.com/nspcc-dev/neo-go/pkg/io"
	"github.com/nspcc-dev/neo-go/pkg/neotest"
	"github.com/nspcc-dev/neo-go/pkg/smartcontract"
	"github.com/nspcc-dev/neo-go/pkg/smartcontract/callflag"
	"github.com/nspcc-dev/neo-go/pkg/smartcontract/manifest"
	"github.com/nspcc-dev/neo-go/pkg/smartcontract/nef"
	"github.com/nspcc-dev/neo-go/pkg/smartcontract/trigger"
	"github.com/nspcc-dev/neo-go/pkg/util"
	"github.com/nspcc-dev/neo-go/pkg/vm/emit"
	"github.com/nspcc-dev/neo-go/pkg/vm/opcode"

	"verif/lib/chainx"
	"verif/lib/vk"
)

// ---- contract VF: verify(op, a, b) / do(op, a, b) / doSafe(op, a, b) -----------------------------

const (
	vfAssertFlags = 0 // GetCallFlags == a, else fault
	vfPut         = 1 // Storage.Put(GetContext, a, b)
	vfNotify      = 2 // Notify("ev", [a])
	vfCall        = 3 // System.Contract.Call(a, b[0], All, b[1])
	vfToken       = 5 // CALLT 0 = UB.run(b), token flags All
	vfLoad        = 6 // System.Runtime.LoadScript(a, All, [])
	vfLocalPut    = 7 // System.Storage.Local.Put(a, b)
	vfDelete      = 8 // Storage.Delete(GetContext, a)
	vfGet         = 9 // Storage.Get(GetReadOnlyContext, a)
)

func buildVF(sender, ub util.Uint160) (*neotest.Contract, error) {
	a := newAsm()
	a.label("S")
	a.raw(byte(opcode.INITSLOT), 0, 3)
	opcase := func(n int, body func()) {
		next := fmt.Sprintf("n%d", n)
		a.op(opcode.LDARG0)
		a.raw(byte(opcode.PUSHINT8), byte(n))
		a.op(opcode.NUMEQUAL)
		a.jmp(opcode.JMPIFNOTL, next)
		body()
		a.op(opcode.RET)
		a.label(next)
	}
	opcase(vfAssertFlags, func() {
		a.syscall("System.Contract.GetCallFlags")
		a.op(opcode.LDARG1, opcode.NUMEQUAL, opcode.ASSERT)
	})
	opcase(vfPut, func() {
		a.op(opcode.LDARG2, opcode.LDARG1)
		a.syscall("System.Storage.GetContext")
		a.syscall("System.Storage.Put")
	})
	opcase(vfNotify, func() {
		a.op(opcode.LDARG1, opcode.PUSH1, opcode.PACK)
		a.data("ev")
		a.syscall("System.Runtime.Notify")
	})
	opcase(vfCall, func() {
		a.op(opcode.LDARG2, opcode.PUSH1, opcode.PICKITEM) // args
		a.op(opcode.PUSH15)
		a.op(opcode.LDARG2, opcode.PUSH0, opcode.PICKITEM) // method
		a.op(opcode.LDARG1)
		a.syscall("System.Contract.Call")
		a.op(opcode.DROP)
	})
	opcase(vfToken, func() {
		a.op(opcode.LDARG2)
		a.raw(byte(opcode.CALLT), 0, 0)
		a.op(opcode.DROP)
	})
	opcase(vfLoad, func() {
		a.op(opcode.NEWARRAY0, opcode.PUSH15, opcode.LDARG1)
		a.syscall("System.Runtime.LoadScript")
		a.op(opcode.DROP)
	})
	opcase(vfLocalPut, func() {
		a.op(opcode.LDARG2, opcode.LDARG1)
		a.syscall("System.Storage.Local.Put")
	})
	opcase(vfDelete, func() {
		a.op(opcode.LDARG1)
		a.syscall("System.Storage.GetContext")
		a.syscall("System.Storage.Delete")
	})
	opcase(vfGet, func() {
		a.op(opcode.LDARG1)
		a.syscall("System.Storage.GetReadOnlyContext")
		a.syscall("System.Storage.Get")
		a.op(opcode.DROP)
	})
	a.op(opcode.ABORT)
	mf := manifest.DefaultManifest("VF")
	add := func(name string, ret smartcontract.ParamType, safe bool, tail ...opcode.Opcode) {
		md := manifest.Method{Name: name, Offset: a.pos(), ReturnType: ret, Safe: safe, Parameters: []manifest.Parameter{
			manifest.NewParameter("op", smartcontract.AnyType), manifest.NewParameter("a", smartcontract.AnyType), manifest.NewParameter("b", smartcontract.AnyType)}}
		mf.ABI.Methods = append(mf.ABI.Methods, md)
		a.jmp(opcode.CALLL, "S")
		a.op(tail...)
	}
	add("verify", smartcontract.BoolType, false, opcode.PUSHT, opcode.RET)
	add("do", smartcontract.AnyType, false, opcode.PUSH1, opcode.RET)
	add("doSafe", smartcontract.AnyType, true, opcode.PUSH1, opcode.RET)
	mf.ABI.Events = []manifest.Event{{Name: "ev", Parameters: []manifest.Parameter{manifest.NewParameter("n", smartcontract.AnyType)}}}
	ne, err := nef.NewFile(a.bytes())
	if err != nil {
		return nil, err
	}
	ne.Tokens = []nef.MethodToken{{Hash: ub, Method: "run", ParamCount: 1, HasReturn: true, CallFlag: callflag.All}}
	ne.Checksum = ne.CalculateChecksum()
	return &neotest.Contract{Hash: state.CreateContractHash(sender, ne.Checksum, mf.Name), NEF: ne, Manifest: mf}, nil
}

// ---- verification cases ---------------------------------------------------------------------------

type verifCase struct {
	Sub     string   `json:"sub"`  // verif
	Kind    string   `json:"kind"` // contract | script | invocation
	Name    string   `json:"case"`
	Path    string   `json:"path,omitempty"`
	What    string   `json:"what,omitempty"`
	Effects *effects `json:"effects,omitempty"`
	acc     util.Uint160
	wit     transaction.Witness
	probe   int  // >= 0: the case asserts GetCallFlags == probe
	noBlock bool // the outcome legitimately depends on a persisting block being present (not compared across paths)
}

func pushScript(items ...any) []byte {
	w := io.NewBufBinWriter()
	for i := len(items) - 1; i >= 0; i-- {
		emitArg(w.BinWriter, items[i])
	}
	if w.Err != nil {
		panic(w.Err)
	}
	return w.Bytes()
}

func rawScript(f func(w *io.BinWriter)) []byte {
	w := io.NewBufBinWriter()
	f(w.BinWriter)
	if w.Err != nil {
		panic(w.Err)
	}
	return w.Bytes()
}

func (w *world) verifCases() []*verifCase {
	var out []*verifCase
	ub, ua := w.UB.BytesBE(), w.UA.BytesBE()
	put := []any{chainx.OpPut, []byte("x"), []byte("1")}
	callPut := callScript(w.UB, "run", 15, []any{put})
	acc1 := chainx.Acc(1).ScriptHash().BytesBE()
	// -- verify of a deployed contract
	c := func(name string, probe int, op int, a, b any) {
		out = append(out, &verifCase{Sub: "verif", Kind: "contract", Name: name, acc: w.VF.Hash, probe: probe,
			wit: transaction.Witness{InvocationScript: pushScript(op, a, b), VerificationScript: []byte{}}})
	}
	for v := 0; v < 16; v++ {
		c(fmt.Sprintf("flags==%s", fname(v)), v, vfAssertFlags, v, nil)
	}
	c("put", -1, vfPut, []byte("vk"), []byte("1"))
	c("local-put", -1, vfLocalPut, []byte("vk"), []byte("1"))
	c("delete", -1, vfDelete, []byte("vk"), nil)
	c("get", -1, vfGet, []byte("vk"), nil)
	c("notify", -1, vfNotify, 1, nil)
	c("call-UB.run[]", -1, vfCall, ub, []any{"run", []any{[]any{}}})
	c("call-UB.run[put]", -1, vfCall, ub, []any{"run", []any{[]any{put}}})
	c("call-UB.run[notify]", -1, vfCall, ub, []any{"run", []any{[]any{[]any{chainx.OpNotify, 1}}}})
	c("call-UB.run[getflags]", -1, vfCall, ub, []any{"run", []any{[]any{[]any{chainx.OpGetFlags}}}})
	c("call-UB.run[get]", -1, vfCall, ub, []any{"run", []any{[]any{[]any{chainx.OpGet, []byte("a")}}}})
	c("call-UB.run[run-UA[put]]", -1, vfCall, ub, []any{"run", []any{[]any{[]any{chainx.OpRun, ua, 15, []any{put}}}}})
	c("call-UB.run[run-UA[getflags]]", -1, vfCall, ub, []any{"run", []any{[]any{[]any{chainx.OpRun, ua, 15, []any{[]any{chainx.OpGetFlags}}}}}})
	c("call-UB.run[try[put]]", -1, vfCall, ub, []any{"run", []any{[]any{[]any{chainx.OpTry, []any{put}, []any{}}}}})
	c("call-UB.runSafe[]", -1, vfCall, ub, []any{"runSafe", []any{[]any{}}})
	c("call-UB.runSafe[put]", -1, vfCall, ub, []any{"runSafe", []any{[]any{put}}})
	c("call-GAS.transfer", -1, vfCall, nativehashes.GasToken.BytesBE(), []any{"transfer", []any{w.VF.Hash.BytesBE(), acc1, 1, nil}})
	c("call-GAS.balanceOf", -1, vfCall, nativehashes.GasToken.BytesBE(), []any{"balanceOf", []any{acc1}})
	c("call-self.do[put]", -1, vfCall, w.VF.Hash.BytesBE(), []any{"do", []any{vfPut, []byte("vk"), []byte("1")}})
	c("token-UB.run[]", -1, vfToken, nil, []any{})
	c("token-UB.run[put]", -1, vfToken, nil, []any{put})
	c("token-UB.run[getflags]", -1, vfToken, nil, []any{[]any{chainx.OpGetFlags}})
	c("load[getflags]", -1, vfLoad, getFlagsScript, nil)
	c("load[call-UB.run[put]]", -1, vfLoad, callPut, nil)
	c("load[call-UB.run[]]", -1, vfLoad, callScript(w.UB, "run", 15, []any{}), nil)
	// -- plain verification scripts (no contract): the account is the hash of the script
	s := func(name string, probe int, body func(bw *io.BinWriter)) {
		scr := rawScript(func(bw *io.BinWriter) {
			body(bw)
			emit.Opcodes(bw, opcode.PUSHT)
		})
		out = append(out, &verifCase{Sub: "verif", Kind: "script", Name: name, acc: hash.Hash160(scr), probe: probe,
			wit: transaction.Witness{InvocationScript: []byte{}, VerificationScript: scr}})
	}
	for v := 0; v < 16; v++ {
		s(fmt.Sprintf("flags==%s", fname(v)), v, func(bw *io.BinWriter) {
			emit.Syscall(bw, "System.Contract.GetCallFlags")
			emit.Int(bw, int64(v))
			emit.Opcodes(bw, opcode.NUMEQUAL, opcode.ASSERT)
		})
	}
	app := func(scr []byte, drop bool) func(bw *io.BinWriter) {
		return func(bw *io.BinWriter) {
			bw.WriteBytes(scr)
			if drop {
				emit.Opcodes(bw, opcode.DROP)
			}
		}
	}
	s("only-true", -1, func(*io.BinWriter) {})
	s("gettime", -1, func(bw *io.BinWriter) {
		emit.Syscall(bw, "System.Runtime.GetTime")
		emit.Opcodes(bw, opcode.DROP)
	})
	out[len(out)-1].noBlock = true // VerifyWitness/VerifyTx run without a persisting block: GetTime faults there
	s("put", -1, func(bw *io.BinWriter) {
		emit.Bytes(bw, []byte("1"))
		emit.Bytes(bw, []byte("vk"))
		emit.Syscall(bw, "System.Storage.GetContext")
		emit.Syscall(bw, "System.Storage.Put")
	})
	s("local-put", -1, func(bw *io.BinWriter) {
		emit.Bytes(bw, []byte("1"))
		emit.Bytes(bw, []byte("vk"))
		emit.Syscall(bw, "System.Storage.Local.Put")
	})
	s("notify", -1, func(bw *io.BinWriter) {
		emit.Array(bw, 1)
		emit.String(bw, "ev")
		emit.Syscall(bw, "System.Runtime.Notify")
	})
	s("log", -1, func(bw *io.BinWriter) {
		emit.String(bw, "msg")
		emit.Syscall(bw, "System.Runtime.Log")
	})
	s("call-UB.run[]", -1, app(callScript(w.UB, "run", 15, []any{}), true))
	s("call-UB.run[put]", -1, app(callPut, true))
	s("call-UB.run[notify]", -1, app(callScript(w.UB, "run", 15, []any{[]any{chainx.OpNotify, 1}}), true))
	s("call-UB.run[getflags]", -1, app(callScript(w.UB, "run", 15, []any{[]any{chainx.OpGetFlags}}), true))
	s("call-UB.run[run-UA[put]]", -1, app(callScript(w.UB, "run", 15, []any{[]any{chainx.OpRun, ua, 15, []any{put}}}), true))
	s("call-UB.runSafe[put]", -1, app(callScript(w.UB, "runSafe", 15, []any{put}), true))
	s("call-UB.other", -1, app(callScript(w.UB, "other", 15, 1), true))
	s("call-GAS.balanceOf", -1, app(callScript(nativehashes.GasToken, "balanceOf", 15, acc1), true))
	s("call-VF.do[put]", -1, app(callScript(w.VF.Hash, "do", 15, vfPut, []byte("vk"), []byte("1")), true))
	s("call-VF.do[notify]", -1, app(callScript(w.VF.Hash, "do", 15, vfNotify, 1, nil), true))
	s("load[call-UB.run[put]]", -1, func(bw *io.BinWriter) {
		emit.Opcodes(bw, opcode.NEWARRAY0, opcode.PUSH15)
		emit.Bytes(bw, callPut)
		emit.Syscall(bw, "System.Runtime.LoadScript")
		emit.Opcodes(bw, opcode.DROP)
	})
	// -- invocation scripts that do more than push data (over VF.verify(get) and over a plain script)
	plain := rawScript(func(bw *io.BinWriter) { emit.Opcodes(bw, opcode.PUSHT) })
	inv := func(name string, probe int, body func(bw *io.BinWriter)) {
		pre := rawScript(body)
		out = append(out, &verifCase{Sub: "verif", Kind: "invocation", Name: name + "/contract", acc: w.VF.Hash, probe: probe,
			wit: transaction.Witness{InvocationScript: append(append([]byte{}, pre...), pushScript(vfGet, []byte("vk"), nil)...), VerificationScript: []byte{}}})
		out = append(out, &verifCase{Sub: "verif", Kind: "invocation", Name: name + "/script", acc: hash.Hash160(plain), probe: probe,
			wit: transaction.Witness{InvocationScript: pre, VerificationScript: plain}})
	}
	for v := 0; v < 16; v++ {
		inv(fmt.Sprintf("flags==%s", fname(v)), v, func(bw *io.BinWriter) {
			emit.Syscall(bw, "System.Contract.GetCallFlags")
			emit.Int(bw, int64(v))
			emit.Opcodes(bw, opcode.NUMEQUAL, opcode.ASSERT)
		})
	}
	inv("nop", -1, func(bw *io.BinWriter) { emit.Opcodes(bw, opcode.NOP) })
	inv("gettime", -1, func(bw *io.BinWriter) {
		emit.Syscall(bw, "System.Runtime.GetTime")
		emit.Opcodes(bw, opcode.DROP)
	})
	inv("gettrigger", -1, func(bw *io.BinWriter) {
		emit.Syscall(bw, "System.Runtime.GetTrigger")
		emit.Opcodes(bw, opcode.DROP)
	})
	inv("call-UB.run[]", -1, app(callScript(w.UB, "run", 15, []any{}), true))
	inv("call-UB.runSafe[]", -1, app(callScript(w.UB, "runSafe", 15, []any{}), true))
	inv("call-VF.do[put]", -1, app(callScript(w.VF.Hash, "do", 15, vfPut, []byte("vk"), []byte("1")), true))
	inv("load[getflags]", -1, func(bw *io.BinWriter) {
		emit.Opcodes(bw, opcode.NEWARRAY0, opcode.PUSH15)
		emit.Bytes(bw, getFlagsScript)
		emit.Syscall(bw, "System.Runtime.LoadScript")
		emit.Opcodes(bw, opcode.DROP)
	})
	return out
}

// verifTx: a transaction sent by the validator whose second signer is acc with the given witness.
func (w *world) verifTx(n *chainx.Node, acc util.Uint160, wit transaction.Witness) *transaction.Transaction {
	tx := transaction.New([]byte{byte(opcode.PUSH1), byte(opcode.RET)}, 1000000)
	tx.Nonce = 4242
	tx.ValidUntilBlock = n.BC.BlockHeight() + 5
	tx.NetworkFee = 3 * gas
	tx.Signers = []transaction.Signer{
		{Account: n.Validator.ScriptHash(), Scopes: transaction.CalledByEntry},
		{Account: acc, Scopes: transaction.None},
	}
	magic := uint32(n.BC.GetConfig().Magic)
	tx.Scripts = []transaction.Witness{
		{InvocationScript: n.Validator.SignHashable(magic, tx), VerificationScript: n.Validator.Script()},
		wit,
	}
	return tx
}

// verifWatched runs the witness in a VM the check owns.
func (w *world) verifWatched(vc *verifCase) (ok bool, e *effects) {
	tx := w.verifTx(w.n, vc.acc, vc.wit)
	ic, err := w.n.BC.GetTestVM(trigger.Verification, tx, nil)
	if err != nil {
		return false, &effects{State: "ERROR", Fault: err.Error()}
	}
	var ierr error
	e = w.runLoaded(ic, append(append([]byte{}, vc.wit.InvocationScript...), vc.wit.VerificationScript...), -1, func() {
		ierr = w.n.BC.InitVerificationContext(ic, vc.acc, &vc.wit)
		if ierr != nil {
			// nothing loaded: make the VM fault instead of running an empty stack
			ic.VM.LoadScriptWithFlags([]byte{byte(opcode.ABORT)}, callflag.NoneFlag)
		}
	})
	if ierr != nil {
		e.State, e.Fault = "FAULT", "InitVerificationContext: "+ierr.Error()
		return false, e
	}
	if e.State != "HALT" || len(e.stack) != 1 {
		return false, e
	}
	b, err := e.stack[0].TryBool()
	return err == nil && b, e
}

type verifStats struct {
	mu                   sync.Mutex
	cases, watchedOK     int
	pathRuns, blocks     int
	flagsSeen            map[string]string // kind -> flag sets observed (watched path)
	probePass            map[string][]string
	reported             map[string]int
	calleeRan, calleeCtx int
}

func runVerif(r *vk.Run, w *world) map[string]any {
	cases := w.verifCases()
	st := &verifStats{flagsSeen: map[string]string{}, probePass: map[string][]string{}, reported: map[string]int{}}
	ids := w.n.ContractIDs(64)
	before := w.n.StorageDump(ids)
	seen := map[string]map[int]bool{}
	viol := func(class, key string, vc *verifCase) {
		st.mu.Lock()
		st.reported[class]++
		n := st.reported[class]
		st.mu.Unlock()
		if n <= 2 {
			r.Violation(key, vc)
		} else {
			r.Outcome("verif:suppressed-duplicate:" + class)
		}
	}
	watched := make([]bool, len(cases))
	r.Parallel(len(cases), func(i int) {
		vc := cases[i]
		ok, e := w.verifWatched(vc)
		watched[i] = ok
		st.mu.Lock()
		st.cases++
		if ok {
			st.watchedOK++
		}
		if seen[vc.Kind] == nil {
			seen[vc.Kind] = map[int]bool{}
		}
		for _, f := range e.flagsOf {
			seen[vc.Kind][f] = true
		}
		if len(e.ctxs) > 0 {
			st.calleeRan++
		}
		if ok && vc.probe >= 0 {
			k := vc.Kind
			if i := strings.LastIndex(vc.Name, "/"); i >= 0 {
				k += vc.Name[i:]
			}
			st.probePass[k] = append(st.probePass[k], fname(vc.probe))
		}
		st.mu.Unlock()
		r.Outcome(fmt.Sprintf("verif:%s:watched:%v", vc.Kind, ok))
		cp := *vc
		cp.Path, cp.Effects = "watched", e
		switch {
		case e.State == "PANIC" || e.State == "ERROR":
			cp.What = "the verification run left the VM abnormally: " + e.Fault
			viol("abnormal", fmt.Sprintf("flags:verification:%s:%s:abnormal", vc.Kind, vc.Name), &cp)
		case e.Union&^(fR|fC) != 0:
			cp.What = "a context of a verification run holds flags outside ReadStates|AllowCall: " + fname(e.Union)
			viol("flags", fmt.Sprintf("flags:verification:%s:%s:runs-with-%s", vc.Kind, vc.Name, fname(e.Union)), &cp)
		case e.State == "HALT" && len(e.Diff) > 0:
			cp.What = "storage changed by a verification run (no context held WriteStates)"
			viol("w", fmt.Sprintf("flags:verification:%s:%s:storage-changed", vc.Kind, vc.Name), &cp)
		case e.State == "HALT" && len(e.Notifs) > 0:
			cp.What = "notification emitted by a verification run (no context held AllowNotify)"
			viol("n", fmt.Sprintf("flags:verification:%s:%s:notified", vc.Kind, vc.Name), &cp)
		default:
			r.Sample(map[string]any{"sub": "verif", "kind": vc.Kind, "case": vc.Name, "accepted": ok, "flags_of_contexts": e.FlagsOf, "fault": e.Fault})
		}
	})
	// the unwatched paths must accept exactly what the watched one accepts
	r.Parallel(len(cases), func(i int) {
		vc := cases[i]
		if vc.noBlock {
			return
		}
		tx := w.verifTx(w.n, vc.acc, vc.wit)
		for _, p := range []string{"VerifyWitness", "VerifyTx"} {
			var err error
			if p == "VerifyWitness" {
				_, err = w.n.BC.VerifyWitness(vc.acc, tx, &tx.Scripts[1], 2*gas)
			} else {
				err = w.n.BC.VerifyTx(tx)
			}
			st.mu.Lock()
			st.pathRuns++
			st.mu.Unlock()
			r.Outcome(fmt.Sprintf("verif:%s:%s:%v", vc.Kind, p, err == nil))
			if (err == nil) != watched[i] {
				cp := *vc
				cp.Path = p
				cp.What = fmt.Sprintf("%s accepts=%v, the watched run of the same witness accepts=%v (%v)", p, err == nil, watched[i], err)
				viol("paths", fmt.Sprintf("flags:verification:%s:%s:%s-disagrees", vc.Kind, vc.Name, p), &cp)
			}
		}
	})
	after := w.n.StorageDump(ids)
	if d := dumpDiff(before, after); len(d) > 0 {
		r.Violation("flags:verification:ledger-storage-changed", map[string]any{"sub": "verif", "what": "VerifyWitness/VerifyTx changed contract storage of the ledger", "keys": d})
	}
	// a subset in blocks, on copies of the chain: accepted witnesses in one block each; refused ones must make the block invalid
	if !r.Expired() {
		st.blocks = w.verifBlocks(r, cases, watched, viol)
	}
	for k, m := range seen {
		var fs []string
		for f := range m {
			fs = append(fs, fname(f))
		}
		sort.Strings(fs)
		st.flagsSeen[k] = strings.Join(fs, " ")
	}
	// exactly one probe value may pass per kind
	for k, p := range st.probePass {
		sort.Strings(p)
		if len(p) != 1 {
			r.Violation("flags:verification:"+k+":flag-probes-inconsistent", map[string]any{"sub": "verif", "what": "GetCallFlags==v passed for several/no v", "passed": p})
		}
	}
	return map[string]any{
		"cases":                           st.cases,
		"accepted_on_the_watched_path":    st.watchedOK,
		"cases_in_which_a_callee_ran":     st.calleeRan,
		"runs_on_VerifyWitness_VerifyTx":  st.pathRuns,
		"cases_in_blocks":                 st.blocks,
		"flag_sets_of_contexts_by_kind":   st.flagsSeen,
		"GetCallFlags_probe_passing_for":  st.probePass,
		"kinds":                           "contract = VF.verify(op,a,b); script = plain verification script; invocation = invocation script executing syscalls/calls over VF.verify and over a plain script",
		"oracle":                          "all contexts within ReadStates|AllowCall; flags never grow along the invocation stack; no storage diff; no notification; VerifyWitness/VerifyTx/block accept iff the watched run accepts; ledger storage unchanged",
		"violations_by_class_incl_hidden": st.reported,
	}
}

func dumpDiff(a, b map[string]string) []string {
	var d []string
	for k, v := range b {
		if o, ok := a[k]; !ok || o != v {
			d = append(d, k)
		}
	}
	for k := range a {
		if _, ok := b[k]; !ok {
			d = append(d, k)
		}
	}
	sort.Strings(d)
	return d
}

func (w *world) cloneNode() (*chainx.Node, error) {
	if err := w.n.Persist(); err != nil {
		return nil, err
	}
	rs, ok := w.n.Store.(*chainx.RecStore)
	if !ok {
		return nil, fmt.Errorf("node store is not a recording store")
	}
	b := rs.Batches()
	return chainx.New(chainx.Opts{Proto: allHF, Store: chainx.NewRecStore(chainx.ApplyBatches(b, len(b)))})
}

// verifBlocks: on one copy of the chain every selected accepted case goes into
// a block of its own; every selected refused case is tried on a copy of its own
// (a block with a failing witness pins the node).
func (w *world) verifBlocks(r *vk.Run, cases []*verifCase, watched []bool, viol func(class, key string, vc *verifCase)) int {
	pick := map[string]bool{
		"contract/flags==R-C-": true, "contract/get": true, "contract/call-UB.run[]": true, "contract/call-UB.runSafe[put]": true, "contract/token-UB.run[]": true,
		"script/flags==R-C-": true, "script/call-UB.run[getflags]": true, "invocation/flags==----/contract": true, "invocation/nop/script": true,
		"contract/put": true, "contract/flags==RWCN": true, "contract/call-UB.run[put]": true, "script/call-VF.do[put]": true, "script/notify": true, "invocation/gettime/contract": true, "invocation/flags==R-C-/script": true,
	}
	n := 0
	pos, err := w.cloneNode()
	if err != nil {
		fmt.Println("CHECK-ERROR: cannot copy the chain:", err)
		return 0
	}
	defer func() { pos.Close() }()
	for i, vc := range cases {
		if !pick[vc.Kind+"/"+vc.Name] || r.Expired() {
			continue
		}
		node := pos
		if !watched[i] {
			if node, err = w.cloneNode(); err != nil {
				fmt.Println("CHECK-ERROR: cannot copy the chain:", err)
				return n
			}
		}
		tx := w.verifTx(node, vc.acc, vc.wit)
		_, berr := node.AddBlock(tx)
		if !watched[i] {
			node.Close()
		}
		n++
		r.Outcome(fmt.Sprintf("verif:%s:block:%v", vc.Kind, berr == nil))
		if (berr == nil) != watched[i] {
			cp := *vc
			cp.Path = "block"
			cp.What = fmt.Sprintf("a block holding the transaction is accepted=%v, the watched run of the same witness accepts=%v (%v)", berr == nil, watched[i], berr)
			viol("paths", fmt.Sprintf("flags:verification:%s:%s:block-disagrees", vc.Kind, vc.Name), &cp)
			if watched[i] {
				return n // the shared copy is pinned now
			}
		}
	}
	return n
}

func replayVerif(r *vk.Run, vc verifCase) {
	w, err := newWorld()
	if err != nil {
		fmt.Println("CHECK-ERROR:", err)
		return
	}
	defer w.n.Close()
	for _, c := range w.verifCases() {
		if c.Kind != vc.Kind || c.Name != vc.Name {
			continue
		}
		for i := 0; i < 5; i++ {
			ok, e := w.verifWatched(c)
			tx := w.verifTx(w.n, c.acc, c.wit)
			_, e1 := w.n.BC.VerifyWitness(c.acc, tx, &tx.Scripts[1], 2*gas)
			e2 := w.n.BC.VerifyTx(tx)
			fmt.Printf("replay %d: %s/%s: watched accepts=%v state=%s flags=%v diff=%v notifications=%v grew=%q %s | VerifyWitness: %v | VerifyTx: %v\n",
				i, c.Kind, c.Name, ok, e.State, e.FlagsOf, e.Diff, e.Notifs, e.Grew, e.Fault, e1, e2)
			if e.Union&^(fR|fC) != 0 || len(e.Diff) > 0 || len(e.Notifs) > 0 || (e1 == nil) != ok || (e2 == nil) != ok {
				r.Violation("replay:"+vc.Kind+":"+vc.Name, vc)
			}
		}
	}
	flushGrew(r)
}

// ---- invalid flag values ---------------------------------------------------------------------------

type badFlagCase struct {
	Sub   string `json:"sub"`  // badflags
	Kind  string `json:"kind"` // call | call-safe | load | raw-call | raw-load | token
	Value string `json:"value"`
	F1    int    `json:"caller_flags"`
	State string `json:"state"`
	Fault string `json:"fault,omitempty"`
	Seen  []int  `json:"flags_seen,omitempty"`
	What  string `json:"what,omitempty"`
	val   *big.Int
}

func badFlagValues() []*big.Int {
	var out []*big.Int
	for _, v := range []int64{16, 17, 31, 32, 64, 128, 240, 255, 256, 257, 271, 4095, 65536, 65551, -1, -16, -241, -256, 1 << 31, 1<<31 + 15, 1 << 32, 1<<32 + 15, 1<<63 - 1, -1 << 63} {
		out = append(out, big.NewInt(v))
	}
	p64 := new(big.Int).Lsh(big.NewInt(1), 64)
	out = append(out, p64, new(big.Int).Add(p64, big.NewInt(15)), new(big.Int).Add(p64, big.NewInt(16)))
	return out
}

func (w *world) badFlagScript(kind string, v *big.Int, f1 int) (script []byte, load int) {
	getf := []any{[]any{chainx.OpGetFlags}}
	switch kind {
	case "call":
		return callScript(w.UA, "run", f1, []any{[]any{chainx.OpCall, w.UB.BytesBE(), "run", v, []any{getf}}}), fAll
	case "call-safe":
		return callScript(w.UA, "run", f1, []any{[]any{chainx.OpCall, w.UB.BytesBE(), "runSafe", v, []any{getf}}}), fAll
	case "load":
		return callScript(w.UA, "run", f1, []any{[]any{chainx.OpLoadScript, getFlagsScript, v, []any{}}}), fAll
	case "raw-call": // the entry script itself, loaded with f1
		return rawScript(func(bw *io.BinWriter) {
			emitArg(bw, []any{getf})
			emit.BigInt(bw, v)
			emit.String(bw, "run")
			emit.Bytes(bw, w.UB.BytesBE())
			emit.Syscall(bw, "System.Contract.Call")
		}), f1
	case "raw-load":
		return rawScript(func(bw *io.BinWriter) {
			emit.Opcodes(bw, opcode.NEWARRAY0)
			emit.BigInt(bw, v)
			emit.Bytes(bw, getFlagsScript)
			emit.Syscall(bw, "System.Runtime.LoadScript")
		}), f1
	}
	panic(kind)
}

// strictInvalidFlags: demand a FAULT for every value outside 0..15 (not only for
// those the tree's own range check refuses). The property text demands only
// that flags never grow; see the report.
const strictInvalidFlags = false

func runBadFlags(r *vk.Run, w *world) map[string]any {
	var cases []*badFlagCase
	for _, kind := range []string{"call", "call-safe", "load", "raw-call", "raw-load"} {
		for _, v := range badFlagValues() {
			for _, f1 := range flagOrder {
				// a copy per case: encoding a negative big.Int patches it in place for a moment (bigint.ToPreallocatedBytes)
				cases = append(cases, &badFlagCase{Sub: "badflags", Kind: kind, Value: v.String(), F1: f1, val: new(big.Int).Set(v)})
			}
		}
	}
	var mu sync.Mutex
	reported := map[string]int{}
	faulted, truncated := 0, 0
	trunc := map[string]bool{}
	r.Parallel(len(cases), func(i int) {
		bc := cases[i]
		if w.badFlagOne(r, bc) {
			mu.Lock()
			reported[bc.Kind+":"+bc.What[:min(12, len(bc.What))]]++
			mu.Unlock()
		}
		mu.Lock()
		if bc.State == "HALT" {
			truncated++
			trunc[bc.Kind+":"+bc.Value] = true
		} else {
			faulted++
		}
		mu.Unlock()
	})
	// NEF method tokens with undefined flag bits must not be deployable
	tokDeployed := []string{}
	for _, f := range []byte{16, 32, 128, 255, 0x1f} {
		t, err := buildTokenContract(fmt.Sprintf("BadTok%d", f), w.n.Validator.ScriptHash(), nil, []tokSpec{{Name: "t", Hash: w.UB, Method: "run", NParam: 1, Ret: true, Flags: callflag.CallFlag(f)}})
		if err != nil {
			continue
		}
		nb, err1 := t.NEF.Bytes()
		mb, err2 := json.Marshal(t.Manifest)
		if err1 != nil || err2 != nil {
			r.Outcome("badflags:token:not-encodable")
			continue
		}
		e := w.run(callScript(nativehashes.ContractManagement, "deploy", 15, nb, mb), fAll)
		r.Outcome("badflags:token:" + e.State)
		if e.State == "HALT" {
			tokDeployed = append(tokDeployed, fmt.Sprint(f))
			r.Violation(fmt.Sprintf("flags:invalid-flag-value-accepted:method-token:%d", f), badFlagCase{Sub: "badflags", Kind: "token", Value: fmt.Sprint(f), State: e.State, What: "a contract whose NEF holds a method token with undefined call flag bits was deployed"})
		}
	}
	var tl []string
	for k := range trunc {
		tl = append(tl, k)
	}
	sort.Strings(tl)
	return map[string]any{
		"cases":   len(cases),
		"values":  len(badFlagValues()),
		"kinds":   "call / call-safe / load: compiled code of UA (called with every flag set) passes the value to System.Contract.Call / System.Runtime.LoadScript; raw-call / raw-load: the entry script (loaded with every flag set) does; token: NEF method token flags",
		"faulted": faulted,
		"accepted_with_the_value_truncated_to_its_low_byte": truncated,
		"outcome_invalid-flags:accepted-truncated":          truncated,
		"accepted_kind_value":                               tl,
		"oracle":                                            "a value whose low byte has a bit outside the four flags must fault (the tree's own range check); an accepted value must give the callee a subset of caller flags & low four bits of the value (safe: minus write/notify, loaded script: within ReadStates|AllowCall); strict mode (all values outside 0..15 fault) = " + fmt.Sprint(strictInvalidFlags),
	}
}

func (w *world) badFlagOne(r *vk.Run, bc *badFlagCase) (violated bool) {
	script, load := w.badFlagScript(bc.Kind, bc.val, bc.F1)
	e := w.run(script, load)
	bc.State, bc.Fault = e.State, e.Fault
	low := int(new(big.Int).And(bc.val, big.NewInt(255)).Int64())
	if e.State != "HALT" {
		r.Outcome("badflags:" + bc.Kind + ":FAULT")
		return false
	}
	var seen []int
	for _, it := range e.stack {
		flattenInts(it, &seen)
	}
	bc.Seen = seen
	key := fmt.Sprintf("flags:invalid-flag-value-accepted:%s:%s:%s", bc.Kind, bc.Value, fname(bc.F1))
	switch {
	case low&^15 != 0 || strictInvalidFlags:
		bc.What = "accepted: a flags argument outside the sixteen flag sets did not fault"
	case len(seen) != 1:
		bc.What = fmt.Sprintf("unexpected result: expected one logged flag set, got %v", seen)
		key = fmt.Sprintf("flags:invalid-flag-value:%s:%s:%s:unexpected-log", bc.Kind, bc.Value, fname(bc.F1))
	default:
		limit := bc.F1 & low
		if bc.Kind == "call-safe" {
			limit &^= fW | fN
		}
		if bc.Kind == "load" || bc.Kind == "raw-load" {
			limit &= fR | fC
		}
		if seen[0]&^limit != 0 {
			bc.What = fmt.Sprintf("grew: the callee runs with %s, caller %s, low bits of the value %s", fname(seen[0]), fname(bc.F1), fname(low&15))
			key = fmt.Sprintf("flags:invalid-flag-value:%s:%s:%s:flags-grew", bc.Kind, bc.Value, fname(bc.F1))
		}
	}
	if bc.What == "" {
		r.Outcome("invalid-flags:accepted-truncated")
		r.Outcome("badflags:" + bc.Kind + ":accepted-truncated")
		return false
	}
	if bc.F1 == fAll || !strings.HasPrefix(bc.What, "accepted") { // one report per value, not per caller flag set
		badMu.Lock()
		badReported[bc.Kind]++
		badReported[""]++
		a, b := badReported[bc.Kind], badReported[""]
		badMu.Unlock()
		if a <= 1 && b <= 4 { // a root cause is reported a few times at most
			r.Violation(key, bc)
		} else {
			r.Outcome("badflags:suppressed-duplicate")
		}
	}
	return true
}

var (
	badMu       sync.Mutex
	badReported = map[string]int{}
)

func replayBadFlag(r *vk.Run, bc badFlagCase) {
	w, err := newWorld()
	if err != nil {
		fmt.Println("CHECK-ERROR:", err)
		return
	}
	defer w.n.Close()
	v, ok := new(big.Int).SetString(bc.Value, 10)
	if !ok || bc.Kind == "token" {
		fmt.Println("replay: re-run the full check for this case")
		return
	}
	for i := 0; i < 5; i++ {
		c := bc
		c.val, c.What = v, ""
		viol := w.badFlagOne(r, &c)
		fmt.Printf("replay %d: %s value %s caller %s: %s seen=%v violated=%v %s\n", i, c.Kind, c.Value, fname(c.F1), c.State, c.Seen, viol, c.Fault)
	}
}

// vfSpecs: the raw operations of VF through its non-safe method do and its manifest-safe method doSafe
// (the flags / safe sub-checks run them with every flag set on the direct, viaA and viaAreq paths).
func (w *world) vfSpecs() []*opSpec {
	ub := w.UB.BytesBE()
	put := []any{chainx.OpPut, []byte("x"), []byte("1")}
	acc1 := chainx.Acc(1).ScriptHash().BytesBE()
	combos := [][]argv{
		{{"put", vfPut}, {"vk", []byte("vk")}, {"1", []byte("1")}},
		{{"local-put", vfLocalPut}, {"vk", []byte("vk")}, {"1", []byte("1")}},
		{{"delete", vfDelete}, {"vk", []byte("vk")}, {"nil", nil}},
		{{"get", vfGet}, {"vk", []byte("vk")}, {"nil", nil}},
		{{"notify", vfNotify}, {"1", 1}, {"nil", nil}},
		{{"getflags", vfAssertFlags}, {"R-C-", 5}, {"nil", nil}},
		{{"call", vfCall}, {"UB", ub}, {"run[put]", []any{"run", []any{[]any{put}}}}},
		{{"call", vfCall}, {"UB", ub}, {"run[notify]", []any{"run", []any{[]any{[]any{chainx.OpNotify, 1}}}}}},
		{{"call", vfCall}, {"UB", ub}, {"runSafe[put]", []any{"runSafe", []any{[]any{put}}}}},
		{{"call", vfCall}, {"GAS", nativehashes.GasToken.BytesBE()}, {"transfer", []any{"transfer", []any{w.VF.Hash.BytesBE(), acc1, 0, nil}}}},
		{{"call", vfCall}, {"self", w.VF.Hash.BytesBE()}, {"do[put]", []any{"do", []any{vfPut, []byte("vk"), []byte("1")}}}},
		{{"token", vfToken}, {"nil", nil}, {"UB.run[put]", []any{put}}},
		{{"token", vfToken}, {"nil", nil}, {"UB.run[notify]", []any{[]any{chainx.OpNotify, 1}}}},
		{{"load", vfLoad}, {"call-UB.run[put]", callScript(w.UB, "run", 15, []any{put})}, {"nil", nil}},
	}
	mk := func(op, method string, safe bool) *opSpec {
		return &opSpec{Op: op, Group: "u", Self: w.VF.Hash, Method: method, Safe: safe, Combos: combos, Full: len(combos), Paths: []string{"direct", "viaA", "viaAreq"}}
	}
	return []*opSpec{mk("safe:VF.doSafe", "doSafe", true), mk("vf:VF.do", "do", false)}
}
