package c16

// Extension (round 2): how a contract BECOMES a member of a group.
//
// "by group membership" in the property is only as good as the membership itself: a manifest may list any
// public key in `groups`; what makes it a membership is the group key's signature over the contract hash,
// verified by ContractManagement.deploy / update (Manifest.IsValid -> Groups.AreValid) for EVERY entry.
// The older families (forged, upd-callee) only offered manifests whose forged entry was the only or the
// last one. Family `member`:
//
//	shapes   - group lists of 1..3 entries, entry i claiming key G(i+1), each entry independently
//	           V validly signed | H signed by the right key over ANOTHER contract hash | K signed by ANOTHER
//	           key over the right hash | X 64 garbage bytes | E empty signature - all 5^k shapes for k<=3
//	           (thorough: also the {V,H,X}^4 cube of four entries), plus lists with a
//	           REPEATED key (valid+valid, forged+valid, valid+forged) and lists with the MIRROR key -G1
//	           (same X coordinate, other Y: a distinct group with a private key of its own).
//	routes   - deploy and update(self), each in a test invocation (with the calls in the same transaction)
//	           and as a transaction in a block (calls in later invocations and after a restart of the node).
//	oracles  - accept: the manifest is installed iff every entry is validly signed and no key repeats;
//	           stored: whatever the ledger holds for the contract afterwards lists no group key that did not
//	           sign its hash; calls: for every family contract on the ledger, every caller restricted to
//	           {group G / methods}: real System.Contract.Call and Manifest.CanCall on the STORED manifests =
//	           the property's predicate evaluated over the VALIDLY SIGNED groups only.
//	reverse  - caller side (member-pure): permissions naming G1, its mirror, G2, wildcard, alone and in all
//	           ordered pairs including the same key twice, against callees in {}, {G1}, {-G1}, {G1,-G1}, ...;
//	           the reference compares 33-byte key encodings.

import (
	"crypto/elliptic"
	"encoding/hex"
	"encoding/json"
	"fmt"
	"math/big"
	"slices"
	"sort"
	"strings"

	"github.com/nspcc-dev/neo-go/pkg/core/native/nativehashes"
	"github.com/nspcc-dev/neo-go/pkg/core/transaction"
	"github.com/nspcc-dev/neo-go/pkg/crypto/keys"
	"github.com/nspcc-dev/neo-go/pkg/neotest"
	"github.com/nspcc-dev/neo-go/pkg/smartcontract/manifest"
	"github.com/nspcc-dev/neo-go/pkg/util"

	"verif/lib/chainx"
	"verif/lib/vk"
)

type memEntry struct {
	Key  string `json:"key"`
	Kind string `json:"kind"` // V | H | K | X | E
}

type memShape struct {
	Name string     `json:"name"`
	E    []memEntry `json:"entries"`
}

func mkMemShape(es ...memEntry) memShape {
	var p []string
	for _, e := range es {
		p = append(p, e.Key+":"+e.Kind)
	}
	return memShape{Name: strings.Join(p, ","), E: es}
}

// accept: what the property needs of deploy/update - every entry signed by its key over this contract's
// hash, no key twice.
func (s memShape) accept() bool {
	seen := map[string]bool{}
	for _, e := range s.E {
		if e.Kind != "V" || seen[e.Key] {
			return false
		}
		seen[e.Key] = true
	}
	return true
}

// valid: the groups that vouched for the contract.
func (s memShape) valid() []string {
	var out []string
	for _, e := range s.E {
		if e.Kind == "V" && !slices.Contains(out, e.Key) {
			out = append(out, e.Key)
		}
	}
	return out
}

var memKinds = []string{"V", "H", "K", "X", "E"}

func memShapes(thorough bool) []memShape {
	var out []memShape
	keysOf := []string{"G1", "G2", "G3", "G4"}
	maxK, kinds4 := 3, []string{"V", "H", "X"}
	if thorough {
		maxK = 4
	}
	for k := 1; k <= maxK; k++ {
		n := 1
		for i := 0; i < k; i++ {
			n *= len(memKinds)
		}
		for x := 0; x < n; x++ {
			var es []memEntry
			cube := true
			for i, y := 0, x; i < k; i, y = i+1, y/len(memKinds) {
				kind := memKinds[y%len(memKinds)]
				es = append(es, memEntry{keysOf[i], kind})
				if !slices.Contains(kinds4, kind) {
					cube = false
				}
			}
			if k == 4 && !cube { // four entries: the {V,H,X} cube only
				continue
			}
			out = append(out, mkMemShape(es...))
		}
	}
	e := func(k, kind string) memEntry { return memEntry{k, kind} }
	out = append(out,
		// a key twice
		mkMemShape(e("G1", "V"), e("G1", "V")),
		mkMemShape(e("G1", "X"), e("G1", "V")),
		mkMemShape(e("G1", "V"), e("G1", "H")),
		mkMemShape(e("G1", "V"), e("G2", "V"), e("G1", "V")),
		mkMemShape(e("G2", "V"), e("G1", "K"), e("G2", "V")),
		// the mirror key of G1: a group of its own
		mkMemShape(e("G1m", "V")),
		mkMemShape(e("G1", "V"), e("G1m", "V")),
		mkMemShape(e("G1m", "V"), e("G1", "V")),
		mkMemShape(e("G1", "X"), e("G1m", "V")),
		mkMemShape(e("G1", "K"), e("G1m", "V")),
		mkMemShape(e("G1m", "V"), e("G1", "H")),
		mkMemShape(e("G1m", "H"), e("G2", "V"), e("G1", "V")),
	)
	return out
}

type memCase struct {
	Sub    string   `json:"sub"` // member
	Route  string   `json:"route"`
	Phase  string   `json:"phase"`
	Shape  memShape `json:"shape"`
	Caller string   `json:"caller,omitempty"`
	Target string   `json:"target,omitempty"`
	Got    string   `json:"got"`
	Want   string   `json:"want"`
	Note   string   `json:"note,omitempty"`
}

type memWorld struct {
	*updWorld
	other   util.Uint160 // the hash kind H signs
	callers []updShape
	cc      []*neotest.Contract
	keyName map[string]string // hex of the 33-byte encoding -> group name
}

// memMirrorPriv: the private key of -P (n - d); checked on the encodings only.
func memMirrorPriv(k *keys.PrivateKey) (*keys.PrivateKey, error) {
	d := new(big.Int).Sub(elliptic.P256().Params().N, k.D)
	m, err := keys.NewPrivateKeyFromBytes(d.FillBytes(make([]byte, 32)))
	if err != nil {
		return nil, err
	}
	a, b := k.PublicKey().Bytes(), m.PublicKey().Bytes()
	if len(a) != 33 || len(b) != 33 || string(a[1:]) != string(b[1:]) || a[0]^b[0] != 1 {
		return nil, fmt.Errorf("mirror key of %x is not %x", a, b)
	}
	return m, nil
}

var memCallers = []updShape{
	{"none", nil},
	{"G1/[run]", []permShape{{Desc: "group:G1", Methods: []string{"run"}}}},
	{"G2/[run]", []permShape{{Desc: "group:G2", Methods: []string{"run"}}}},
	{"G3/*", []permShape{{Desc: "group:G3", Wild: true}}},
	{"G1m/[run]", []permShape{{Desc: "group:G1m", Methods: []string{"run"}}}},
	{"G1/[other]+G2/[other]", []permShape{{Desc: "group:G1", Methods: []string{"other"}}, {Desc: "group:G2", Methods: []string{"other"}}}},
	{"G1/[run]+G1m/[other]", []permShape{{Desc: "group:G1", Methods: []string{"run"}}, {Desc: "group:G1m", Methods: []string{"other"}}}},
}

var memMethods = []updTarget{{Method: "run", Args: []any{[]any{}}}, {Method: "other", Args: []any{1}}}

func newMemWorld() (*memWorld, error) {
	uw, err := newUpdWorld("post")
	if err != nil {
		return nil, err
	}
	uw.tag = "member"
	mw := &memWorld{updWorld: uw, keyName: map[string]string{}, callers: memCallers}
	if uw.gkeys["G1m"], err = memMirrorPriv(uw.gkeys["G1"]); err != nil {
		return nil, err
	}
	uw.gkeys["GX"] = chainx.Acc(14).PrivateKey()
	uw.gkeys["G4"] = chainx.Acc(15).PrivateKey()
	for name, k := range uw.gkeys {
		mw.keyName[hex.EncodeToString(k.PublicKey().Bytes())] = name
	}
	for i, s := range mw.callers {
		c, err := uw.variant(fmt.Sprintf("MC%d", i), nil, uw.realPerms(s.P, false), nil)
		if err != nil {
			return nil, err
		}
		mw.cc = append(mw.cc, c)
	}
	mw.other = mw.cc[0].Hash
	if err := uw.deployAll(mw.cc...); err != nil {
		return nil, err
	}
	return mw, nil
}

func (mw *memWorld) groups(s memShape, h util.Uint160) []manifest.Group {
	gs := []manifest.Group{}
	for _, e := range s.E {
		k := mw.gkeys[e.Key]
		var sig []byte
		switch e.Kind {
		case "V":
			sig = k.Sign(h.BytesBE())
		case "H":
			sig = k.Sign(mw.other.BytesBE())
		case "K":
			sig = mw.gkeys["GX"].Sign(h.BytesBE())
		case "X":
			sig = make([]byte, keys.SignatureLen)
			for i := range sig {
				sig[i] = byte(i + 1)
			}
		default:
			sig = []byte{}
		}
		gs = append(gs, manifest.Group{PublicKey: k.PublicKey(), Signature: sig})
	}
	return gs
}

// contract: the U instance `name` claiming the groups of s (signatures made for ITS hash).
func (mw *memWorld) contract(name string, s *memShape) (*neotest.Contract, error) {
	c, err := mw.variant(name, nil, nil, nil)
	if err != nil {
		return nil, err
	}
	if s != nil {
		c.Manifest.Groups = mw.groups(*s, c.Hash)
	}
	return c, nil
}

type memStats struct {
	*updStats
	accepted map[string]int
}

func (st *memStats) judgeAccept(r *vk.Run, route string, s memShape, accepted bool, note string) {
	st.count("member:" + route + ":install")
	switch {
	case accepted && !s.accept():
		why := "an-entry-is-not-validly-signed"
		if len(s.valid()) == len(s.E) || !slices.ContainsFunc(s.E, func(e memEntry) bool { return e.Kind != "V" }) {
			why = "a-group-key-repeats"
		}
		st.report(r, "member-accept:"+route, fmt.Sprintf("permission:member:%s:[%s]:installed-although-%s", route, s.Name, why),
			memCase{Sub: "member", Route: route, Phase: "install", Shape: s, Got: "installed", Want: "refused", Note: note})
	case !accepted && s.accept():
		st.report(r, "member-refuse:"+route, fmt.Sprintf("permission:member:%s:[%s]:refused-although-every-entry-is-validly-signed", route, s.Name),
			memCase{Sub: "member", Route: route, Phase: "install", Shape: s, Got: "refused", Want: "installed", Note: note})
	default:
		o := fmt.Sprintf("member:%s:install:%v", route, accepted)
		if !accepted {
			reason := "OTHER"
			for _, x := range []string{"incorrect group signature", "duplicate group keys", "wrong signature length"} {
				if strings.Contains(note, x) {
					reason = x
				}
			}
			if reason == "OTHER" {
				fmt.Printf("C16 member: NOTE: %s of [%s] refused for a reason the family does not know: %s\n", route, s.Name, note)
			}
			o += ":" + strings.ReplaceAll(reason, " ", "-")
		}
		r.Outcome(o)
		st.mu.Lock()
		st.outcomes[o]++
		if accepted {
			st.accepted[route]++
		}
		st.mu.Unlock()
	}
}

func (st *memStats) judgeCall(r *vk.Run, kind, route, phase string, s memShape, caller updShape, method, got string, want bool, note string) {
	st.count("member:" + route + ":" + phase + ":" + kind)
	if got != verdict(want) {
		st.report(r, "member-"+kind+":"+route+":"+phase, fmt.Sprintf("permission:member:%s:%s:[%s]:{%s}->%s:%s-%s-but-predicate-%s", route, phase, s.Name, caller.Name, method, kind, got, verdict(want)),
			memCase{Sub: "member", Route: route, Phase: phase, Shape: s, Caller: caller.Name, Target: method, Got: got, Want: verdict(want), Note: note})
		return
	}
	o := fmt.Sprintf("member:%s:%s:%s:%s", route, phase, kind, got)
	r.Outcome(o)
	st.mu.Lock()
	st.outcomes[o]++
	st.mu.Unlock()
}

type memItem struct {
	s    memShape
	d, b *neotest.Contract // deployed with the groups / base (no groups) that updates itself
	bMf  *manifest.Manifest
}

func (mw *memWorld) callProg(h util.Uint160, t updTarget) []any {
	return []any{chainx.OpCall, h.BytesBE(), t.Method, 15, t.Args}
}

// ledger: everything the chain holds about the contract h of shape s is judged against the groups that
// really signed (valid), whatever the installation said.
func (mw *memWorld) ledger(r *vk.Run, st *memStats, route, phase string, s memShape, h util.Uint160, expectGroups bool) {
	cs := mw.n.BC.GetContractState(h)
	if cs == nil {
		r.Outcome("member:" + route + ":" + phase + ":not-on-ledger")
		return
	}
	valid := s.valid()
	var stored []string
	for _, g := range cs.Manifest.Groups {
		name := mw.keyName[hex.EncodeToString(g.PublicKey.Bytes())]
		if name == "" {
			name = "unknown:" + hex.EncodeToString(g.PublicKey.Bytes())
		}
		stored = append(stored, name)
		st.count("member:" + route + ":" + phase + ":stored-group")
		if !slices.Contains(valid, name) {
			st.report(r, "member-stored:"+route+":"+phase, fmt.Sprintf("permission:member:%s:%s:[%s]:ledger-lists-group-%s-that-never-signed-the-contract-hash", route, phase, s.Name, name),
				memCase{Sub: "member", Route: route, Phase: phase, Shape: s, Got: "stored groups " + strings.Join(stored, ","), Want: "only groups among " + strings.Join(valid, ",")})
		}
	}
	if expectGroups && s.accept() && len(stored) != len(s.E) {
		st.report(r, "member-lost:"+route+":"+phase, fmt.Sprintf("permission:member:%s:%s:[%s]:accepted-groups-not-stored", route, phase, s.Name),
			memCase{Sub: "member", Route: route, Phase: phase, Shape: s, Got: "stored groups " + strings.Join(stored, ","), Want: strings.Join(valid, ",")})
	}
	// the membership the property may rely on: stored AND signed (on an intact tree = stored)
	ref := &callee{Name: "X", Hash: h}
	for _, g := range stored {
		if slices.Contains(valid, g) {
			ref.Groups = append(ref.Groups, g)
		}
	}
	r.Outcome(fmt.Sprintf("member:%s:%s:groups=%d", route, phase, len(stored)))
	for i, c := range mw.callers {
		cm := mw.n.BC.GetContractState(mw.cc[i].Hash)
		for _, t := range memMethods {
			want := allowedBy(c.P, ref, t.Method)
			if cm != nil {
				st.judgeCall(r, "CanCall", route, phase, s, c, t.Method, verdict(cm.Manifest.CanCall(h, &cs.Manifest, t.Method)), want, "")
			}
			e := mw.run(callScript(mw.cc[i].Hash, "run", 15, []any{mw.callProg(h, t)}), fAll)
			st.judgeCall(r, "call", route, phase, s, c, t.Method, classifyUpd(e, false), want, e.Fault)
		}
	}
}

// report: a root cause is reported a few times at most.
func (st *memStats) report(r *vk.Run, class, key string, mc memCase) {
	st.mu.Lock()
	st.reported[class]++
	fam := strings.SplitN(class, ":", 2)[0]
	st.reported["family:"+fam]++
	n, nf := st.reported[class], st.reported["family:"+fam]
	st.mu.Unlock()
	if n <= 1 && nf <= 3 {
		r.Violation(key, mc)
	} else {
		r.Outcome("member:suppressed-duplicate:" + class)
	}
}

func runMember(r *vk.Run, only string) map[string]any {
	st := &memStats{updStats: &updStats{cells: map[string]int{}, reported: map[string]int{}, outcomes: map[string]int{}}, accepted: map[string]int{}}
	info, err := runMemberOn(r, st, only)
	if err != nil {
		fmt.Println("CHECK-ERROR: group-membership family:", err)
		return map[string]any{"error": err.Error()}
	}
	return info
}

func runMemberOn(r *vk.Run, st *memStats, only string) (map[string]any, error) {
	mw, err := newMemWorld()
	if err != nil {
		return nil, err
	}
	defer func() { mw.n.Close() }()
	var items []*memItem
	var bases []*neotest.Contract
	for _, s := range memShapes(r.Thorough()) {
		if only != "" && s.Name != only {
			continue
		}
		it := &memItem{s: s}
		if it.d, err = mw.contract("D:"+s.Name, &it.s); err != nil {
			return nil, err
		}
		if it.b, err = mw.contract("B:"+s.Name, nil); err != nil {
			return nil, err
		}
		nb, err := mw.contract("B:"+s.Name, &it.s)
		if err != nil {
			return nil, err
		}
		it.bMf = nb.Manifest
		items = append(items, it)
		bases = append(bases, it.b)
	}
	if err := mw.deployAll(bases...); err != nil {
		return nil, err
	}
	deployScript := func(c *neotest.Contract) []byte {
		nb, _ := c.NEF.Bytes()
		mb, err := json.Marshal(c.Manifest)
		if err != nil {
			panic(err)
		}
		return callScript(nativehashes.ContractManagement, "deploy", 15, nb, mb)
	}
	deployedNow := func(e *effects) bool {
		return e.State == "HALT" && slices.Contains(e.Notifs, short(nativehashes.ContractManagement)+":Deploy")
	}
	// -- test invocations: install, and call in the same transaction
	r.Parallel(len(items), func(i int) {
		it := items[i]
		ds := deployScript(it.d)
		e := mw.run(ds, fAll)
		st.judgeAccept(r, "deploy-vm", it.s, deployedNow(e), e.Fault)
		us := callScript(it.b.Hash, "run", 15, []any{updateOp(it.bMf)})
		e2 := mw.run(us, fAll)
		st.judgeAccept(r, "update-vm", it.s, e2.State == "HALT" && updated(e2), e2.Fault)
		for _, x := range []struct {
			route string
			pre   []byte
			h     util.Uint160
			ok    bool
		}{{"deploy-vm", ds, it.d.Hash, deployedNow(e)}, {"update-vm", us, it.b.Hash, e2.State == "HALT" && updated(e2)}} {
			if !x.ok {
				continue
			}
			ref := &callee{Name: "X", Hash: x.h, Groups: it.s.valid()}
			for ci, c := range mw.callers {
				for _, t := range memMethods {
					ec := mw.run(append(append([]byte{}, x.pre...), callScript(mw.cc[ci].Hash, "run", 15, []any{mw.callProg(x.h, t)})...), fAll)
					st.judgeCall(r, "call", x.route, "same-tx", it.s, c, t.Method, classifyUpd(ec, false), allowedBy(c.P, ref, t.Method), ec.Fault)
				}
			}
		}
	})
	// -- transactions in blocks
	val := []neotest.Signer{mw.n.Validator}
	for _, route := range []string{"deploy-block", "update-block"} {
		for lo := 0; lo < len(items) && !r.Expired(); lo += 20 {
			part := items[lo:min(lo+20, len(items))]
			var txs []*transaction.Transaction
			for _, it := range part {
				script := deployScript(it.d)
				if route == "update-block" {
					script = callScript(it.b.Hash, "run", 15, []any{updateOp(it.bMf)})
				}
				tx, err := mw.n.MakeTx(script, val, chainx.SysFee(25*gas))
				if err != nil {
					return nil, err
				}
				txs = append(txs, tx)
			}
			res, faults, err := mw.blockResults(txs)
			if err != nil {
				return nil, fmt.Errorf("%s: %w", route, err)
			}
			for i, it := range part {
				if res[i] != "allowed" && (strings.Contains(faults[i], "gas limit") || strings.Contains(faults[i], "insufficient")) {
					return nil, fmt.Errorf("%s of [%s]: %s", route, it.s.Name, faults[i])
				}
				st.judgeAccept(r, route, it.s, res[i] == "allowed", faults[i])
			}
		}
	}
	ledgerPhase := func(phase string) {
		r.Parallel(2*len(items), func(i int) {
			it := items[i/2]
			if i%2 == 0 {
				mw.ledger(r, st, "deploy-block", phase, it.s, it.d.Hash, true)
			} else {
				mw.ledger(r, st, "update-block", phase, it.s, it.b.Hash, true)
			}
		})
	}
	ledgerPhase("next-invocation")
	if !r.Expired() {
		if err := mw.restart(); err != nil {
			return nil, err
		}
		ledgerPhase("after-restart")
	}
	pure := 0
	if only == "" {
		pure = mw.pure(r, st)
	}
	total := 0
	for _, v := range st.cells {
		total += v
	}
	var names []string
	for _, it := range items {
		names = append(names, it.s.Name)
	}
	sort.Strings(names)
	var cn []string
	for _, c := range mw.callers {
		cn = append(cn, c.Name)
	}
	return map[string]any{
		"cells_total":                     total,
		"cells_by_route_phase":            st.cells,
		"outcomes":                        st.outcomes,
		"shapes":                          len(items),
		"shape_names":                     names,
		"entry_kinds":                     "V valid | H right key, other contract hash | K other key, right hash | X 64 garbage bytes | E empty signature",
		"installed_by_route":              st.accepted,
		"callers":                         cn,
		"methods":                         "run, other (non-safe)",
		"pure_reverse_cells":              pure,
		"violations_by_class_incl_hidden": st.reported,
	}, nil
}

// pure: the caller side. Permissions over {*, G1, -G1, G2} x {*, [run], [other]}, alone and in all ordered
// pairs (so also the same key twice), against callee group lists with and without mirror keys; CanCall on
// the manifests as built and as read back from their stored (stack item) form.
func (mw *memWorld) pure(r *vk.Run, st *memStats) int {
	descs := []string{"*", "group:G1", "group:G1m", "group:G2"}
	var singles []permShape
	for _, d := range descs {
		singles = append(singles, permShape{Desc: d, Wild: true}, permShape{Desc: d, Methods: []string{"run"}}, permShape{Desc: d, Methods: []string{"other"}})
	}
	var callers [][]permShape
	for _, a := range singles {
		callers = append(callers, []permShape{a})
	}
	for _, a := range singles {
		for _, b := range singles {
			callers = append(callers, []permShape{a, b})
		}
	}
	glists := [][]string{{}, {"G1"}, {"G1m"}, {"G1", "G1m"}, {"G1m", "G1"}, {"G2", "G1m"}, {"G3"}, {"G3", "G2", "G1"}}
	h := mw.cc[1].Hash
	stored := func(m *manifest.Manifest) *manifest.Manifest {
		it, err := m.ToStackItem()
		if err != nil {
			return nil
		}
		m2 := new(manifest.Manifest)
		if m2.FromStackItem(it) != nil {
			return nil
		}
		return m2
	}
	var cms [][2]*manifest.Manifest
	for _, gl := range glists {
		m := manifest.NewManifest("callee")
		for _, g := range gl {
			k := mw.gkeys[g]
			m.Groups = append(m.Groups, manifest.Group{PublicKey: k.PublicKey(), Signature: k.Sign(h.BytesBE())})
		}
		cms = append(cms, [2]*manifest.Manifest{m, stored(m)})
	}
	var n vk.Counter
	r.Parallel(len(callers), func(i int) {
		ps := callers[i]
		m := manifest.NewManifest("caller")
		m.Permissions = mw.realPerms(ps, false)
		forms := [2]*manifest.Manifest{m, stored(m)}
		var pn []string
		for _, p := range ps {
			pn = append(pn, p.String())
		}
		for gi, gl := range glists {
			ref := &callee{Name: "X", Hash: h, Groups: gl}
			for _, method := range []string{"run", "other"} {
				want := allowedBy(ps, ref, method)
				for f, form := range []string{"built", "stored"} {
					if forms[f] == nil || cms[gi][f] == nil {
						r.Outcome("member-pure:no-stored-form")
						continue
					}
					n.Add(1)
					st.count("member-pure")
					if got := forms[f].CanCall(h, cms[gi][f], method); got != want {
						st.report(r, "member-pure:"+form, fmt.Sprintf("permission:member-pure:%s:{%s}->[%s].%s:%s-but-predicate-%s", form, strings.Join(pn, "+"), strings.Join(gl, ","), method, verdict(got), verdict(want)),
							memCase{Sub: "member", Route: "pure-" + form, Phase: "pure", Shape: memShape{Name: strings.Join(gl, ",")}, Caller: strings.Join(pn, "+"), Target: method, Got: verdict(got), Want: verdict(want)})
					} else {
						r.Outcome("member-pure:" + form + ":" + verdict(got))
					}
				}
			}
		}
	})
	return int(n.Get())
}

func replayMember(r *vk.Run, mc memCase) {
	for i := 0; i < 5; i++ {
		st := &memStats{updStats: &updStats{cells: map[string]int{}, reported: map[string]int{}, outcomes: map[string]int{}}, accepted: map[string]int{}}
		only := mc.Shape.Name
		if mc.Phase == "pure" {
			only = ""
		}
		if _, err := runMemberOn(r, st, only); err != nil {
			fmt.Println("CHECK-ERROR:", err)
			return
		}
		fmt.Printf("replay %d: family member, shape [%s] re-run on a fresh chain: mismatches in this pass by class: %v\n", i, mc.Shape.Name, st.reported)
	}
}
