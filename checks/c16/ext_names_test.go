package c16

// Extension (author round): the method-name side of permission matching and of method lookup.
//
//	names-real / names-token - callee N (hand-assembled, member of group G2) has non-safe methods whose
//	    names are prefixes of each other, differ in case only, are the literal "*", start with an
//	    underscore, and two overloaded names with a safe and a non-safe arity each (both orders in the
//	    ABI). Callers (compiled U calling dynamically, and a token contract calling through CALLT) carry
//	    every contract descriptor x method list of the names alphabet. Oracle: predicate of the property
//	    (safe arity, or a permission matching callee and name); a denied call never executes N; an
//	    allowed call executes exactly the overload asked for (every method returns its own constant and
//	    its GetCallFlags), a safe overload runs without write/notify, a non-safe one with all flags.
//	    Repeated after the restart of the node.
//	names-pure - Permission.IsAllowed / Manifest.CanCall over the names alphabet incl. the empty name and
//	    names with trailing characters, in all four forms (built, JSON, stack item, both).
//	json-desc  - every textual form of a permission's contract field (0x-prefixed / bare / upper-case LE
//	    hex, compressed key hex, "*", and near-misses): a decoded descriptor matches the callee iff the
//	    text denotes the callee's hash or one of its group keys.
//	trusts     - the trusts / supportedstandards / extra fields of caller and callee never influence CanCall.

import (
	"encoding/hex"
	"encoding/json"
	"fmt"
	"math/big"
	"slices"
	"sort"
	"strings"
	"sync"

	"github.com/nspcc-dev/neo-go/pkg/core/state"
	"github.com/nspcc-dev/neo-go/pkg/core/transaction"
	"github.com/nspcc-dev/neo-go/pkg/crypto/keys"
	"github.com/nspcc-dev/neo-go/pkg/neotest"
	"github.com/nspcc-dev/neo-go/pkg/smartcontract"
	"github.com/nspcc-dev/neo-go/pkg/smartcontract/callflag"
	"github.com/nspcc-dev/neo-go/pkg/smartcontract/manifest"
	"github.com/nspcc-dev/neo-go/pkg/smartcontract/nef"
	"github.com/nspcc-dev/neo-go/pkg/util"
	"github.com/nspcc-dev/neo-go/pkg/vm/opcode"

	"verif/lib/chainx"
	"verif/lib/vk"
)

type nMethod struct {
	Name  string
	Arity int
	Safe  bool
	Const int
}

func (m nMethod) id() string { return fmt.Sprintf("%s/%d", m.Name, m.Arity) }

// the ABI order matters for lookup: m has its safe arity first, k its non-safe arity first
var nMethods = []nMethod{
	{"a", 0, false, 1}, {"ab", 0, false, 2}, {"A", 0, false, 3}, {"aB", 0, false, 4}, {"b", 0, false, 5},
	{"m", 0, true, 10}, {"m", 1, false, 11},
	{"k", 0, false, 20}, {"k", 1, true, 21},
	{"*", 0, false, 40},
	{"_x", 0, false, 30},
}

func buildN(sender util.Uint160, g *keys.PrivateKey) (*neotest.Contract, error) {
	a := newAsm()
	mf := manifest.DefaultManifest("N")
	for _, m := range nMethods {
		md := manifest.Method{Name: m.Name, Offset: a.pos(), ReturnType: smartcontract.AnyType, Safe: m.Safe, Parameters: []manifest.Parameter{}}
		for p := 0; p < m.Arity; p++ {
			md.Parameters = append(md.Parameters, manifest.NewParameter(fmt.Sprintf("a%d", p), smartcontract.AnyType))
			a.op(opcode.DROP)
		}
		mf.ABI.Methods = append(mf.ABI.Methods, md)
		if !m.Safe {
			a.data("1")
			a.data(m.id())
			a.syscall("System.Storage.Local.Put")
		}
		a.syscall("System.Contract.GetCallFlags")
		a.raw(byte(opcode.PUSHINT8), byte(m.Const))
		a.op(opcode.PUSH2, opcode.PACK, opcode.RET)
	}
	ne, err := nef.NewFile(a.bytes())
	if err != nil {
		return nil, err
	}
	h := state.CreateContractHash(sender, ne.Checksum, mf.Name)
	mf.Groups = []manifest.Group{{PublicKey: g.PublicKey(), Signature: g.Sign(h.BytesBE())}}
	return &neotest.Contract{Hash: h, NEF: ne, Manifest: mf}, nil
}

type namesWorld struct {
	pw      *permWorld
	N       *callee
	callers []callerSpec // .c = compiled U with the permissions, .tc = token contract with the same permissions
	toks    []nMethod    // token i of the token callers calls toks[i]
	st      namesStats
}

type namesStats struct {
	mu                           sync.Mutex
	real, token, allowed, denied int64
	reserved                     int64 // allowed by the predicate but refused for the underscore
	pure, jsonDesc, trusts       int64
	jsonDecoded, jsonRefused     int64
	reported                     map[string]int
	dispatchSeen                 map[string]bool
}

type namesCase struct {
	Sub    string     `json:"sub"` // names-real | names-token [-after-restart] | names-pure | json-desc | trusts
	Caller callerSpec `json:"caller"`
	Method string     `json:"method"`
	Safe   bool       `json:"method_safe"`
	Got    string     `json:"got"`
	Want   string     `json:"want"`
	What   string     `json:"what,omitempty"`
	Note   string     `json:"note,omitempty"`
}

var namesMethodLists = []permShape{{Wild: true}, {Methods: []string{"a"}}, {Methods: []string{"ab"}}, {Methods: []string{"A"}}, {Methods: []string{"a", "ab"}},
	{Methods: []string{"m"}}, {Methods: []string{"k"}}, {Methods: []string{"*"}}, {Methods: []string{"_x"}}, {Methods: []string{"b", "aB"}}, {Methods: []string{}}}

func (pw *permWorld) setupNames() (*namesWorld, error) {
	nw := &namesWorld{pw: pw}
	nw.st.reported, nw.st.dispatchSeen = map[string]int{}, map[string]bool{}
	sender := pw.n.Validator.ScriptHash()
	nc, err := buildN(sender, pw.gkeys["G2"])
	if err != nil {
		return nil, err
	}
	nw.N = &callee{Name: "N", Hash: nc.Hash, Groups: []string{"G2"}, Mf: nc.Manifest}
	pw.byName["N"] = nw.N
	// a key with the same X coordinate as G2 (the negated point): never a group of anybody
	if _, ok := pw.gkeys["G2neg"]; !ok {
		k := pw.gkeys["G2"]
		d := new(big.Int).Sub(k.PublicKey().Params().N, k.D)
		nk, err := keys.NewPrivateKeyFromBytes(d.FillBytes(make([]byte, 32)))
		if err != nil {
			return nil, err
		}
		pw.gkeys["G2neg"] = nk
	}
	tx, err := pw.n.DeployTx(nc, pw.n.Validator, nil)
	if err != nil {
		return nil, fmt.Errorf("deploy N: %w", err)
	}
	txs := []*transaction.Transaction{tx}
	for _, m := range nMethods {
		if !strings.HasPrefix(m.Name, "_") { // a NEF cannot hold a token for such a name
			nw.toks = append(nw.toks, m)
		}
	}
	var toks []tokSpec
	for i, m := range nw.toks {
		toks = append(toks, tokSpec{Name: fmt.Sprintf("c%d", i), Hash: nc.Hash, Method: m.Name, NParam: m.Arity, Ret: true, Flags: callflag.All})
	}
	nw.callers = append(nw.callers, callerSpec{Perms: []permShape{}}, callerSpec{Perms: []permShape{{Desc: "hash:Cn", Wild: true}}}, callerSpec{Perms: []permShape{{Desc: "group:G2neg", Wild: true}}},
		callerSpec{Perms: []permShape{{Desc: "group:G1", Wild: true}}})
	for _, d := range []string{"*", "hash:N", "group:G2"} {
		for _, ml := range namesMethodLists {
			nw.callers = append(nw.callers, callerSpec{Perms: []permShape{{Desc: d, Methods: ml.Methods, Wild: ml.Wild}}})
		}
	}
	// two permissions: the first matches the contract but not the method, the second the other way round / both halves
	nw.callers = append(nw.callers,
		callerSpec{Perms: []permShape{{Desc: "hash:N", Methods: []string{"a"}}, {Desc: "hash:Cn", Methods: []string{"ab"}}}},
		callerSpec{Perms: []permShape{{Desc: "hash:N", Methods: []string{"a"}}, {Desc: "group:G2", Methods: []string{"ab"}}}},
		callerSpec{Perms: []permShape{{Desc: "hash:Cn", Wild: true}, {Desc: "group:G2", Methods: []string{"k"}}}},
	)
	for i := range nw.callers {
		cs := &nw.callers[i]
		cs.name = fmt.Sprintf("NP%d", i)
		if cs.c, err = chainx.CompileU(chainx.UVariant{Name: cs.name, Sender: sender, Permissions: pw.realPerms(cs.Perms)}); err != nil {
			return nil, err
		}
		if cs.tc, err = buildTokenContract(fmt.Sprintf("NT%d", i), sender, pw.realPerms(cs.Perms), toks); err != nil {
			return nil, err
		}
		for _, c := range []*neotest.Contract{cs.c, cs.tc} {
			tx, err := pw.n.DeployTx(c, pw.n.Validator, nil)
			if err != nil {
				return nil, fmt.Errorf("deploy names caller %s: %w", cs.String(), err)
			}
			txs = append(txs, tx)
		}
	}
	for lo := 0; lo < len(txs); lo += 30 {
		part := txs[lo:min(lo+30, len(txs))]
		if _, err := pw.n.AddBlock(part...); err != nil {
			return nil, err
		}
		for _, tx := range part {
			if err := pw.n.CheckHalt(tx.Hash()); err != nil {
				return nil, fmt.Errorf("names deployment: %w", err)
			}
		}
	}
	return nw, nil
}

func (nw *namesWorld) report(r *vk.Run, class, key string, nc namesCase) {
	nw.st.mu.Lock()
	nw.st.reported[class]++
	n := nw.st.reported[class]
	nw.st.mu.Unlock()
	if n <= 2 {
		r.Violation(key, nc)
	} else {
		r.Outcome("names:suppressed-duplicate:" + class)
	}
}

// matrix: every caller x every method of N, dynamically and through tokens.
func (nw *namesWorld) matrix(r *vk.Run, suffix string) { nw.matrixOnly(r, suffix, "", "") }

// matrixOnly: only = caller permissions (String()) and method id to restrict the matrix to (replays).
func (nw *namesWorld) matrixOnly(r *vk.Run, suffix, onlyCaller, onlyMethod string) {
	pw := nw.pw
	type cell struct {
		cs  callerSpec
		m   nMethod
		tok int // -1: dynamic call
	}
	var cells []cell
	for _, cs := range nw.callers {
		if onlyCaller != "" && cs.String() != onlyCaller {
			continue
		}
		for _, m := range nMethods {
			if onlyMethod == "" || m.id() == onlyMethod {
				cells = append(cells, cell{cs, m, -1})
			}
		}
		for i, m := range nw.toks {
			if onlyMethod == "" || m.id() == onlyMethod {
				cells = append(cells, cell{cs, m, i})
			}
		}
	}
	r.Parallel(len(cells), func(i int) {
		x := cells[i]
		sub := "names-real" + suffix
		args := make([]any, x.m.Arity)
		for k := range args {
			args[k] = 7
		}
		var e *effects
		var self util.Uint160
		if x.tok < 0 {
			self = x.cs.c.Hash
			e = pw.run(callScript(self, "run", 15, []any{[]any{chainx.OpCall, nw.N.Hash.BytesBE(), x.m.Name, 15, args}}), fAll)
		} else {
			sub = "names-token" + suffix
			self = x.cs.tc.Hash
			e = pw.run(callScript(self, fmt.Sprintf("c%d", x.tok), 15, args...), fAll)
		}
		want := x.m.Safe || allowedBy(x.cs.Perms, nw.N, x.m.Name)
		ran := e.ctxs[nw.N.Hash]
		got := "error"
		switch {
		case e.State == "HALT":
			got = "allowed"
		case strings.Contains(e.Fault, "disallowed method call"):
			got = "denied"
		case strings.Contains(e.Fault, "invalid method name"):
			got = "reserved-name"
		}
		nc := namesCase{Sub: sub, Caller: x.cs, Method: x.m.id(), Safe: x.m.Safe, Got: got, Want: verdict(want), Note: e.Fault}
		who := fmt.Sprintf("permission:%s:%s->N.%s", sub, x.cs.String(), x.m.id())
		nw.st.mu.Lock()
		if x.tok < 0 {
			nw.st.real++
		} else {
			nw.st.token++
		}
		nw.st.mu.Unlock()
		if !want {
			if ran || got == "allowed" {
				nc.What = "the predicate denies the call but code of N was executed"
				nw.report(r, "executed", who+":executed-but-predicate-denied", nc)
				return
			}
			nw.st.mu.Lock()
			nw.st.denied++
			nw.st.mu.Unlock()
			r.Outcome(sub + ":" + got)
			return
		}
		if got != "allowed" && !ran && strings.HasPrefix(x.m.Name, "_") {
			// names starting with an underscore are reserved for the ledger's own calls: refused whatever the permissions say
			nw.st.mu.Lock()
			nw.st.reserved++
			nw.st.mu.Unlock()
			r.Outcome(sub + ":reserved-name")
			return
		}
		if got != "allowed" {
			nc.What = "the predicate allows the call but it failed"
			nw.report(r, "refused", who+":"+got+"-but-predicate-allowed", nc)
			return
		}
		// which overload ran, and with which flags
		var ints []int
		for _, it := range e.stack {
			flattenInts(it, &ints)
		}
		wrote := slices.Contains(e.Diff, fmt.Sprintf("%d:%s", nw.nID(), hex.EncodeToString([]byte(x.m.id()))))
		switch {
		case len(ints) != 2 || ints[0] != x.m.Const:
			nc.What = fmt.Sprintf("another method body ran: result %v, expected constant %d", ints, x.m.Const)
			nw.report(r, "dispatch", who+":wrong-overload", nc)
		case x.m.Safe && (ints[1]&(fW|fN) != 0 || len(e.Diff) > 0 || len(e.Notifs) > 0):
			nc.What = fmt.Sprintf("the safe overload ran with %s (storage diff %v)", fname(ints[1]), e.Diff)
			nw.report(r, "safe", who+":safe-overload-not-masked", nc)
		case !x.m.Safe && !wrote:
			nc.What = fmt.Sprintf("the non-safe overload left no trace in N's storage (diff %v)", e.Diff)
			nw.report(r, "dispatch", who+":non-safe-overload-did-not-run", nc)
		default:
			nw.st.mu.Lock()
			nw.st.allowed++
			nw.st.dispatchSeen[fmt.Sprintf("%s->%d/%s", x.m.id(), ints[0], fname(ints[1]))] = true
			nw.st.mu.Unlock()
			r.Outcome(sub + ":allowed")
			r.Sample(map[string]any{"sub": sub, "caller_permissions": x.cs.String(), "method": x.m.id(), "safe": x.m.Safe, "result": ints})
		}
	})
}

func (nw *namesWorld) nID() int32 {
	if cs := nw.pw.n.BC.GetContractState(nw.N.Hash); cs != nil {
		return cs.ID
	}
	return -1
}

// pure: names alphabet x method lists x descriptors, all four forms of the manifest.
func (nw *namesWorld) pure(r *vk.Run) {
	pw := nw.pw
	names := []string{"a", "ab", "A", "aB", "b", "m", "k", "*", "_x", "", "a ", "a\x00", "abc", "_deploy"}
	lists := append([]permShape{}, namesMethodLists...)
	lists = append(lists, permShape{Methods: []string{"ab", "a"}}, permShape{Methods: []string{"a ", "abc"}}, permShape{Methods: []string{"_deploy"}})
	descs := []string{"*", "hash:N", "hash:Cn", "group:G2", "group:G2neg", "group:G1"}
	for _, d := range descs {
		for _, ml := range lists {
			cs := callerSpec{Perms: []permShape{{Desc: d, Methods: ml.Methods, Wild: ml.Wild}}}
			m := manifest.NewManifest("caller")
			m.Permissions = pw.realPerms(cs.Perms)
			forms := []*manifest.Manifest{m}
			var m2 manifest.Manifest
			if b, err := json.Marshal(m); err == nil && json.Unmarshal(b, &m2) == nil {
				forms = append(forms, &m2)
			} else {
				r.Violation("permission:names-pure:manifest-json-roundtrip:"+cs.String(), fmt.Sprint(err))
			}
			for _, src := range []*manifest.Manifest{m, &m2} {
				m3 := new(manifest.Manifest)
				it, err := src.ToStackItem()
				if err == nil {
					err = m3.FromStackItem(it)
				}
				if err != nil {
					r.Violation("permission:names-pure:manifest-stackitem-roundtrip:"+cs.String(), err.Error())
					continue
				}
				forms = append(forms, m3)
			}
			for _, name := range names {
				want := allowedBy(cs.Perms, nw.N, name)
				for i, f := range forms {
					nw.st.pure++
					if got := f.CanCall(nw.N.Hash, nw.N.Mf, name); got != want {
						nw.report(r, "pure", fmt.Sprintf("permission:names-pure:%s->N.%q:%s-but-predicate-%s", cs.String(), name, verdict(got), verdict(want)),
							namesCase{Sub: "names-pure", Caller: cs, Method: name, Got: verdict(got), Want: verdict(want), Note: fmt.Sprintf("Manifest.CanCall, form %d (0 built, 1 JSON, 2 stack item, 3 JSON+stack item)", i)})
					} else {
						r.Outcome("names-pure:" + verdict(got))
					}
				}
			}
		}
	}
}

// jsonDesc: textual forms of the contract field of a permission.
func (nw *namesWorld) jsonDesc(r *vk.Run) {
	pw := nw.pw
	type form struct {
		name, text string
		denotes    string // "" = nothing valid / something else; else a callee name or group name
	}
	var forms []form
	for _, c := range []*callee{nw.N, pw.byName["Cn"], pw.byName["Cg"]} {
		le, be := c.Hash.StringLE(), c.Hash.StringBE()
		forms = append(forms,
			form{"0x+LE:" + c.Name, "0x" + le, c.Name}, form{"LE:" + c.Name, le, c.Name}, form{"0x+LE-upper:" + c.Name, "0x" + strings.ToUpper(le), c.Name},
			form{"LE-upper:" + c.Name, strings.ToUpper(le), c.Name}, form{"0x+BE:" + c.Name, "0x" + be, ""}, form{"BE:" + c.Name, be, ""},
			form{"0X+LE:" + c.Name, "0X" + le, ""}, form{"LE-short:" + c.Name, le[:38], ""}, form{"LE+00:" + c.Name, le + "00", ""})
	}
	for _, g := range []string{"G1", "G2", "G2neg", "G3"} {
		k := pw.gkeys[g].PublicKey().StringCompressed()
		forms = append(forms, form{"key:" + g, k, g}, form{"key-upper:" + g, strings.ToUpper(k), g}, form{"0x+key:" + g, "0x" + k, ""},
			form{"key-uncompressed:" + g, hex.EncodeToString(pw.gkeys[g].PublicKey().UncompressedBytes()), ""})
	}
	forms = append(forms, form{"star", "*", "*"}, form{"two-stars", "**", ""}, form{"empty", "", ""}, form{"space-star", " *", ""})
	callees := []*callee{nw.N, pw.byName["Cn"], pw.byName["Cg"], pw.byName["Cgg"], pw.byName["O"]}
	for _, f := range forms {
		txt, _ := json.Marshal(f.text)
		js := fmt.Sprintf(`{"contract":%s,"methods":["a"]}`, txt)
		var p manifest.Permission
		err := json.Unmarshal([]byte(js), &p)
		nw.st.jsonDesc++
		if err != nil {
			nw.st.jsonRefused++
			r.Outcome("json-desc:refused")
			if f.denotes != "" {
				nw.report(r, "json", "permission:json-desc:"+f.name+":valid-form-refused", namesCase{Sub: "json-desc", Method: f.name, Got: "error", Want: "decoded", Note: err.Error()})
			}
			continue
		}
		nw.st.jsonDecoded++
		for _, c := range callees {
			want := f.denotes == "*" || f.denotes == c.Name || (f.denotes != "" && slices.Contains(c.Groups, f.denotes))
			// stack item round trip of the decoded permission must not change the answer either
			var p2 manifest.Permission
			rtErr := p2.FromStackItem(p.ToStackItem())
			for i, q := range []*manifest.Permission{&p, &p2} {
				if i == 1 && rtErr != nil {
					nw.report(r, "json", "permission:json-desc:"+f.name+":stackitem-roundtrip-failed", namesCase{Sub: "json-desc", Method: f.name, Note: rtErr.Error()})
					continue
				}
				got := q.IsAllowed(c.Hash, c.Mf, "a")
				if got != want {
					nw.report(r, "json", fmt.Sprintf("permission:json-desc:%s->%s:%s-but-text-means-%s", f.name, c.Name, verdict(got), verdict(want)),
						namesCase{Sub: "json-desc", Method: f.name + "->" + c.Name, Got: verdict(got), Want: verdict(want), Note: js})
				} else {
					r.Outcome("json-desc:" + verdict(got))
				}
			}
		}
	}
}

// trusts: fields that are not permissions never influence the answer.
func (nw *namesWorld) trusts(r *vk.Run) {
	pw := nw.pw
	cn := pw.byName["Cn"]
	type variant struct {
		name string
		set  func(m *manifest.Manifest)
	}
	desc := func(p permShape) manifest.PermissionDesc { return pw.realPerm(p).Contract }
	vars := []variant{
		{"plain", func(m *manifest.Manifest) {}},
		{"trusts-wildcard", func(m *manifest.Manifest) { m.Trusts = manifest.WildPermissionDescs{Wildcard: true} }},
		{"trusts-N-Cn", func(m *manifest.Manifest) {
			m.Trusts = manifest.WildPermissionDescs{Value: []manifest.PermissionDesc{desc(permShape{Desc: "hash:N"}), desc(permShape{Desc: "hash:Cn"})}}
		}},
		{"trusts-groups", func(m *manifest.Manifest) {
			m.Trusts = manifest.WildPermissionDescs{Value: []manifest.PermissionDesc{desc(permShape{Desc: "group:G2"}), desc(permShape{Desc: "group:G1"})}}
		}},
		{"standards", func(m *manifest.Manifest) { m.SupportedStandards = []string{"NEP-17", "NEP-11"} }},
		{"extra-permissions", func(m *manifest.Manifest) {
			m.Extra = json.RawMessage(`{"permissions":[{"contract":"*","methods":"*"}],"trusts":"*"}`)
		}},
	}
	clone := func(src *manifest.Manifest, v variant) *manifest.Manifest {
		b, _ := json.Marshal(src)
		m := new(manifest.Manifest)
		_ = json.Unmarshal(b, m)
		v.set(m)
		// through JSON once more, as a deployed manifest
		b, _ = json.Marshal(m)
		m2 := new(manifest.Manifest)
		if err := json.Unmarshal(b, m2); err != nil {
			return m
		}
		// and through the stored form, as a node loads it after a restart
		m3 := new(manifest.Manifest)
		if it, err := m2.ToStackItem(); err == nil && m3.FromStackItem(it) == nil {
			return m3
		}
		r.Violation("permission:trusts:stored-form-roundtrip:"+v.name+":"+src.Name, "the manifest variant does not survive ToStackItem/FromStackItem")
		return m2
	}
	targets := map[string]*manifest.Manifest{}
	for _, tv := range vars {
		for _, c := range []*callee{nw.N, cn} {
			targets[tv.name+c.Name] = clone(c.Mf, tv)
		}
	}
	for _, cs := range nw.callers {
		base := manifest.NewManifest("caller")
		base.Permissions = pw.realPerms(cs.Perms)
		for _, cv := range vars {
			caller := clone(base, cv)
			for _, tv := range vars {
				for _, c := range []*callee{nw.N, cn} {
					target := targets[tv.name+c.Name]
					for _, name := range []string{"a", "ab", "k", "run", "other"} {
						want := allowedBy(cs.Perms, c, name)
						nw.st.trusts++
						if got := caller.CanCall(c.Hash, target, name); got != want {
							nw.report(r, "trusts", fmt.Sprintf("permission:trusts:caller-%s:callee-%s:%s->%s.%s:%s-but-predicate-%s", cv.name, tv.name, cs.String(), c.Name, name, verdict(got), verdict(want)),
								namesCase{Sub: "trusts", Caller: cs, Method: c.Name + "." + name, Got: verdict(got), Want: verdict(want), Note: "caller variant " + cv.name + ", callee variant " + tv.name})
						} else {
							r.Outcome("trusts:" + verdict(got))
						}
					}
				}
			}
		}
	}
}

func (nw *namesWorld) info() map[string]any {
	var ds []string
	for k := range nw.st.dispatchSeen {
		ds = append(ds, k)
	}
	sort.Strings(ds)
	var ml []string
	for _, l := range namesMethodLists {
		ml = append(ml, permShape{Desc: "", Methods: l.Methods, Wild: l.Wild}.String())
	}
	var ms []string
	for _, m := range nMethods {
		s := m.id()
		if m.Safe {
			s += "(safe)"
		}
		ms = append(ms, s)
	}
	return map[string]any{
		"callee_methods":                         ms,
		"method_lists":                           ml,
		"callers":                                len(nw.callers),
		"real_calls":                             nw.st.real,
		"token_calls":                            nw.st.token,
		"allowed_and_right_overload_ran":         nw.st.allowed,
		"denied_and_callee_not_executed":         nw.st.denied,
		"allowed_by_predicate_but_name_reserved": nw.st.reserved,
		"overload_result_flags_seen":             ds,
		"pure_evaluations":                       nw.st.pure,
		"json_descriptor_forms":                  nw.st.jsonDesc,
		"json_descriptor_forms_decoded":          nw.st.jsonDecoded,
		"json_descriptor_forms_refused":          nw.st.jsonRefused,
		"trusts_evaluations":                     nw.st.trusts,
		"violations_by_class_incl_hidden":        nw.st.reported,
	}
}

func replayNames(r *vk.Run, nc namesCase) {
	pw, err := newPermWorld()
	if err != nil {
		fmt.Println("CHECK-ERROR:", err)
		return
	}
	defer func() { pw.n.Close() }()
	nw, err := pw.setupNames()
	if err != nil {
		fmt.Println("CHECK-ERROR:", err)
		return
	}
	suffix := ""
	if strings.HasSuffix(nc.Sub, "-after-restart") {
		suffix = "-after-restart"
		m, err := pw.n.Reopen()
		if err != nil {
			fmt.Println("CHECK-ERROR:", err)
			return
		}
		pw.n = m
	}
	for i := 0; i < 5; i++ {
		before := r.NViolations()
		nw.st.reported = map[string]int{}
		switch {
		case strings.HasPrefix(nc.Sub, "names-real"), strings.HasPrefix(nc.Sub, "names-token"):
			nw.matrixOnly(r, suffix, nc.Caller.String(), nc.Method)
		case nc.Sub == "names-pure":
			nw.pure(r)
		case nc.Sub == "json-desc":
			nw.jsonDesc(r)
		default:
			nw.trusts(r)
		}
		_ = before
		fmt.Printf("replay %d: %s %s -> N.%s: mismatches in this pass by class: %v\n", i, nc.Sub, nc.Caller.String(), nc.Method, nw.st.reported)
	}
}
