package c16

import (
	"encoding/hex"
	"fmt"
	"sort"
	"sync"

	"verif/lib/vk"
)

// ---- universal oracle: flags only shrink along the invocation stack -----------------------------
//
// Every execution the check performs in a VM it owns (all sub-checks) is
// watched instruction by instruction: whenever the executing context changes,
// its call flags must be a subset of the flags of the context directly below
// it on the invocation stack - whoever created it (System.Contract.Call,
// CALLT, System.Runtime.LoadScript, a native contract calling _deploy /
// onNEP17Payment / an oracle callback / a token's transfer, the invocation
// script loaded over a verification context).

type grewCase struct {
	Sub    string `json:"sub"` // universal-shrink
	Script string `json:"script_hex"`
	Load   int    `json:"entry_flags"`
	World  string `json:"world,omitempty"` // "" = chain of the flags sub-check (replayable alone)
	What   string `json:"what"`
}

var grew struct {
	mu    sync.Mutex
	n     int
	first map[string]grewCase // by description (without the script): one witness per distinct pair
}

func noteGrew(e *effects, script []byte, load int, world string) {
	grew.mu.Lock()
	defer grew.mu.Unlock()
	grew.n++
	if grew.first == nil {
		grew.first = map[string]grewCase{}
	}
	if w, ok := grew.first[e.Grew]; !ok || (world == "" && w.World != "") || (world == w.World && len(script) < len(w.Script)/2) {
		grew.first[e.Grew] = grewCase{Sub: "universal-shrink", Script: hex.EncodeToString(script), Load: load, What: e.Grew, World: world}
	}
}

// flushGrew reports the witnesses (at most 3) and returns the number of executions that showed growth.
func flushGrew(r *vk.Run) int {
	grew.mu.Lock()
	defer grew.mu.Unlock()
	var keys []string
	for k := range grew.first {
		keys = append(keys, k)
	}
	sort.Slice(keys, func(i, j int) bool {
		a, b := grew.first[keys[i]], grew.first[keys[j]]
		if (a.World == "") != (b.World == "") {
			return a.World == ""
		}
		if len(a.Script) != len(b.Script) {
			return len(a.Script) < len(b.Script)
		}
		return keys[i] < keys[j]
	})
	for i, k := range keys {
		if i >= 3 {
			r.Outcome("universal-shrink:flags-grew(not reported one by one)")
			continue
		}
		w := grew.first[k]
		r.Violation(fmt.Sprintf("chain:universal-shrink:%s", k), w)
	}
	return grew.n
}

func replayGrew(r *vk.Run, gc grewCase) {
	if gc.World != "" {
		fmt.Printf("this witness was found on the %q chain, which is rebuilt only by a full run (deterministic): ./vr C16 quick\n", gc.World)
		return
	}
	w, err := newWorld()
	if err != nil {
		fmt.Println("CHECK-ERROR:", err)
		return
	}
	defer w.n.Close()
	script, _ := hex.DecodeString(gc.Script)
	for i := 0; i < 5; i++ {
		e := w.run(script, gc.Load)
		fmt.Printf("replay %d: %s grew=%q\n", i, e.State, e.Grew)
	}
	flushGrew(r)
}
