package c16

// Extension (author round): manifests that change - histories instead of single calls.
//
//	upd-caller - a caller whose permissions are P_old updates itself (ContractManagement.update, manifest
//	    only) to P_new, for every ordered pair of a small shape alphabet, and calls each target: before;
//	    in the SAME context right after the update; in a new context of the same transaction; in a later
//	    transaction of the SAME block; in the next test invocation; after a restart of the node. The
//	    predicate is evaluated with P_new everywhere except in the same context, where the tree documents
//	    (hardfork Domovoi) that the permissions of the EXECUTING contract state apply: P_old from Domovoi
//	    on, the stored state (P_new) before. Both eras are explored on chains of their own.
//	upd-callee - the callee changes instead: it gains / loses a group, a non-safe method becomes safe, a
//	    safe one becomes non-safe; callers with group / wildcard / no permissions; same phases.
//	forged     - group membership needs the group's signature over the contract hash: updates and
//	    deployments claiming group G1 with a signature over another hash, or made by another key, must
//	    fail and must not make the contract callable by {group:G1} callers.
//	staged     - hardforks inside the history: native contracts and native methods that appear with a
//	    hardfork (Notary, Treasury, Policy/Management/NEO additions) called at every height around their
//	    activation by callers with every relevant permission shape.

import (
	"encoding/json"
	"fmt"
	"sort"
	"strings"
	"sync"

	"github.com/nspcc-dev/neo-go/pkg/config"
	"github.com/nspcc-dev/neo-go/pkg/core/native/nativehashes"
	"github.com/nspcc-dev/neo-go/pkg/core/transaction"
	"github.com/nspcc-dev/neo-go/pkg/crypto/keys"
	"github.com/nspcc-dev/neo-go/pkg/neotest"
	"github.com/nspcc-dev/neo-go/pkg/smartcontract/manifest"
	"github.com/nspcc-dev/neo-go/pkg/util"

	"verif/lib/chainx"
	"verif/lib/vk"
)

func preDomovoi(c *config.Blockchain) {
	c.Hardforks = map[string]uint32{}
	for _, hf := range config.Hardforks {
		if hf.Cmp(config.HFDomovoi) < 0 {
			c.Hardforks[hf.String()] = 0
		}
	}
}

type updWorld struct {
	runner
	era    string // post | pre (Domovoi)
	proto  func(*config.Blockchain)
	gkeys  map[string]*keys.PrivateKey
	sender util.Uint160
	byName map[string]*callee // static callees Cn, Cg and the current state of the mutable ones
	safe   map[string]map[string]bool
}

type updShape struct {
	Name string
	P    []permShape
}

var updShapes = []updShape{
	{"none", nil},
	{"*/*", []permShape{{Desc: "*", Wild: true}}},
	{"Cn/[run]", []permShape{{Desc: "hash:Cn", Methods: []string{"run"}}}},
	{"Cn/[other]", []permShape{{Desc: "hash:Cn", Methods: []string{"other"}}}},
	{"G1/*", []permShape{{Desc: "group:G1", Wild: true}}},
	{"*/[other]", []permShape{{Desc: "*", Methods: []string{"other"}}}},
}

type updTarget struct {
	Callee, Method string
	Args           []any
}

var updTargets = []updTarget{{"Cn", "run", []any{[]any{}}}, {"Cn", "other", []any{1}}, {"Cg", "run", []any{[]any{}}}, {"Cn", "runSafe", []any{[]any{}}}}

type updCase struct {
	Sub    string `json:"sub"` // upd-caller | upd-callee | forged | staged
	Era    string `json:"era"`
	Phase  string `json:"phase"`
	Caller string `json:"caller"`
	Old    string `json:"old"`
	New    string `json:"new"`
	Target string `json:"target"`
	Got    string `json:"got"`
	Want   string `json:"want"`
	Note   string `json:"note,omitempty"`
}

type updStats struct {
	mu       sync.Mutex
	cells    map[string]int
	reported map[string]int
	outcomes map[string]int
}

func (st *updStats) count(k string) {
	st.mu.Lock()
	st.cells[k]++
	st.mu.Unlock()
}

func (st *updStats) report(r *vk.Run, class, key string, uc updCase) {
	st.mu.Lock()
	st.reported[class]++
	fam := strings.SplitN(class, ":", 2)[0]
	st.reported["family:"+fam]++
	n, nf := st.reported[class], st.reported["family:"+fam]
	st.mu.Unlock()
	if n <= 1 && nf <= 3 { // a root cause is reported a few times at most
		r.Violation(key, uc)
	} else {
		r.Outcome("upd:suppressed-duplicate:" + class)
	}
}

func newUpdWorld(era string) (*updWorld, error) {
	proto := allHF
	if era == "pre" {
		proto = preDomovoi
	}
	n, err := chainx.New(chainx.Opts{Proto: proto})
	if err != nil {
		return nil, err
	}
	uw := &updWorld{runner: runner{n: n, tag: "upd-" + era}, era: era, proto: proto, gkeys: map[string]*keys.PrivateKey{}, byName: map[string]*callee{}, safe: map[string]map[string]bool{}, sender: n.Validator.ScriptHash()}
	for i, g := range []string{"G1", "G2", "G3"} {
		uw.gkeys[g] = chainx.Acc(11 + i).PrivateKey()
	}
	uw.signers = []transaction.Signer{{Account: n.Validator.ScriptHash(), Scopes: transaction.Global}}
	return uw, nil
}

// variant builds the U instance `name` with the given groups (signed properly), permissions and safe flags.
func (uw *updWorld) variant(name string, groups []string, perms []manifest.Permission, safe map[string]bool) (*neotest.Contract, error) {
	u, err := chainx.CompileU(chainx.UVariant{Name: name, Sender: uw.sender, Permissions: perms})
	if err != nil {
		return nil, err
	}
	gs := []manifest.Group{}
	for _, g := range groups {
		k := uw.gkeys[g]
		gs = append(gs, manifest.Group{PublicKey: k.PublicKey(), Signature: k.Sign(u.Hash.BytesBE())})
	}
	u.Manifest.Groups = gs
	for i := range u.Manifest.ABI.Methods {
		if v, ok := safe[u.Manifest.ABI.Methods[i].Name]; ok {
			u.Manifest.ABI.Methods[i].Safe = v
		}
	}
	return u, nil
}

func (uw *updWorld) realPerms(ps []permShape, withUpdate bool) []manifest.Permission {
	out := []manifest.Permission{}
	if withUpdate {
		p := manifest.NewPermission(manifest.PermissionHash, nativehashes.ContractManagement)
		p.Methods.Value = []string{"update"}
		out = append(out, *p)
	}
	for _, p := range ps {
		var mp *manifest.Permission
		switch {
		case p.Desc == "*":
			mp = manifest.NewPermission(manifest.PermissionWildcard)
		case strings.HasPrefix(p.Desc, "hash:"):
			mp = manifest.NewPermission(manifest.PermissionHash, uw.byName[p.Desc[5:]].Hash)
		default:
			mp = manifest.NewPermission(manifest.PermissionGroup, uw.gkeys[p.Desc[6:]].PublicKey())
		}
		if !p.Wild {
			mp.Methods.Value = append([]string{}, p.Methods...)
		}
		out = append(out, *mp)
	}
	return out
}

func (uw *updWorld) deployAll(cs ...*neotest.Contract) error {
	for lo := 0; lo < len(cs); lo += 25 {
		var txs []*transaction.Transaction
		for _, c := range cs[lo:min(lo+25, len(cs))] {
			tx, err := uw.n.DeployTx(c, uw.n.Validator, nil)
			if err != nil {
				return fmt.Errorf("deploy %s: %w", c.Manifest.Name, err)
			}
			txs = append(txs, tx)
		}
		if _, err := uw.n.AddBlock(txs...); err != nil {
			return err
		}
		for _, tx := range txs {
			if err := uw.n.CheckHalt(tx.Hash()); err != nil {
				return err
			}
		}
	}
	return nil
}

func updateOp(mf *manifest.Manifest) []any {
	b, err := json.Marshal(mf)
	if err != nil {
		panic(err)
	}
	return []any{chainx.OpCall, nativehashes.ContractManagement.BytesBE(), "update", 15, []any{nil, b, nil}}
}

func (uw *updWorld) callOp(t updTarget) []any {
	return []any{chainx.OpCall, uw.byName[t.Callee].Hash.BytesBE(), t.Method, 15, t.Args}
}

func updated(e *effects) bool {
	for _, n := range e.Notifs {
		if n == short(nativehashes.ContractManagement)+":Update" {
			return true
		}
	}
	return false
}

func classifyUpd(e *effects, needUpdate bool) string {
	switch {
	case e.State == "HALT":
		return "allowed"
	case strings.Contains(e.Fault, "disallowed method call") && (!needUpdate || updated(e)):
		return "denied"
	}
	return "error"
}

func (uw *updWorld) want(perms []permShape, t updTarget) bool {
	return uw.safe[t.Callee][t.Method] || allowedBy(perms, uw.byName[t.Callee], t.Method)
}

func (uw *updWorld) restart() error {
	m, err := uw.n.Reopen()
	if err != nil {
		return err
	}
	uw.n = m
	return nil
}

// blockResults adds the transactions as one block and classifies each.
func (uw *updWorld) blockResults(txs []*transaction.Transaction) ([]string, []string, error) {
	if _, err := uw.n.AddBlock(txs...); err != nil {
		return nil, nil, err
	}
	out, faults := make([]string, len(txs)), make([]string, len(txs))
	for i, tx := range txs {
		aers, err := uw.n.BC.GetAppExecResults(tx.Hash(), 0x40)
		out[i] = "error"
		if err == nil && len(aers) == 1 {
			faults[i] = aers[0].FaultException
			switch {
			case aers[0].VMState.String() == "HALT":
				out[i] = "allowed"
			case strings.Contains(aers[0].FaultException, "disallowed method call"):
				out[i] = "denied"
			}
		}
	}
	return out, faults, nil
}

// ---- caller side -----------------------------------------------------------------------------------

type updCaller struct {
	name     string
	old, new updShape
	c        *neotest.Contract
	newMf    *manifest.Manifest
}

// shapes of the self-updating callers: quick = 6 (30 ordered pairs), thorough = 9 (72 ordered pairs)
func updShapeSet(r *vk.Run) []updShape {
	if !r.Thorough() {
		return updShapes
	}
	return append(append([]updShape{}, updShapes...),
		updShape{"Cg/[run]", []permShape{{Desc: "hash:Cg", Methods: []string{"run"}}}},
		updShape{"*/[run]", []permShape{{Desc: "*", Methods: []string{"run"}}}},
		updShape{"G3/*+Cn/*", []permShape{{Desc: "group:G3", Wild: true}, {Desc: "hash:Cn", Wild: true}}})
}

func runUpdEra(r *vk.Run, era string, st *updStats) error {
	uw, err := newUpdWorld(era)
	if err != nil {
		return err
	}
	defer func() { uw.n.Close() }()
	std := map[string]bool{"run": false, "other": false, "runSafe": true}
	mk := func(name string, groups []string, safe map[string]bool) (*neotest.Contract, error) {
		c, err := uw.variant(name, groups, nil, safe)
		if err != nil {
			return nil, err
		}
		uw.byName[name] = &callee{Name: name, Hash: c.Hash, Groups: groups, Mf: c.Manifest}
		s := map[string]bool{}
		for k, v := range std {
			s[k] = v
		}
		for k, v := range safe {
			s[k] = v
		}
		uw.safe[name] = s
		return c, nil
	}
	var deploy []*neotest.Contract
	for _, x := range []struct {
		name   string
		groups []string
	}{{"Cn", nil}, {"Cg", []string{"G1"}}, {"Mg", nil}, {"Ml", []string{"G1"}}, {"Ms", nil}, {"Mu", nil}, {"Mf1", nil}, {"Mf2", nil}, {"Mf3", []string{"G3"}}} {
		c, err := mk(x.name, x.groups, nil)
		if err != nil {
			return err
		}
		deploy = append(deploy, c)
	}
	// callers that update themselves
	var ks []*updCaller
	for _, o := range updShapeSet(r) {
		for _, nw := range updShapeSet(r) {
			if o.Name == nw.Name {
				continue
			}
			k := &updCaller{name: fmt.Sprintf("K%d", len(ks)), old: o, new: nw}
			if k.c, err = uw.variant(k.name, nil, uw.realPerms(o.P, true), nil); err != nil {
				return err
			}
			nc, err := uw.variant(k.name, nil, uw.realPerms(nw.P, true), nil)
			if err != nil {
				return err
			}
			k.newMf = nc.Manifest
			ks = append(ks, k)
			deploy = append(deploy, k.c)
		}
	}
	// static callers of the callee-side part
	statics := []updShape{{"none", nil}, {"*/*", []permShape{{Desc: "*", Wild: true}}}, {"G1/*", []permShape{{Desc: "group:G1", Wild: true}}}, {"G1/[other]", []permShape{{Desc: "group:G1", Methods: []string{"other"}}}}}
	sc := map[string]*neotest.Contract{}
	for i, s := range statics {
		c, err := uw.variant(fmt.Sprintf("S%d", i), nil, uw.realPerms(s.P, false), nil)
		if err != nil {
			return err
		}
		sc[s.Name] = c
		deploy = append(deploy, c)
	}
	if err := uw.deployAll(deploy...); err != nil {
		return err
	}
	val := []neotest.Signer{uw.n.Validator}

	judge := func(sub, phase, caller, oldN, newN string, t updTarget, got string, want bool, note string) {
		st.count(sub + ":" + era + ":" + phase)
		tn := t.Callee + "." + t.Method
		if got != verdict(want) {
			st.report(r, sub+":"+phase, fmt.Sprintf("permission:%s:%s:%s:%s=>%s->%s:%s-but-predicate-%s", sub, era, phase, oldN, newN, tn, got, verdict(want)),
				updCase{Sub: sub, Era: era, Phase: phase, Caller: caller, Old: oldN, New: newN, Target: tn, Got: got, Want: verdict(want), Note: note})
			return
		}
		r.Outcome(fmt.Sprintf("%s:%s:%s:%s", sub, era, phase, got))
		st.mu.Lock()
		st.outcomes[fmt.Sprintf("%s:%s:%s:%s", sub, era, phase, got)]++
		st.mu.Unlock()
	}
	runScript := func(s []byte, needUpdate bool) (string, string) {
		e := uw.run(s, fAll)
		return classifyUpd(e, needUpdate), e.Fault
	}
	callerPhase := func(phase string, perms func(k *updCaller) []permShape) {
		type cell struct {
			k *updCaller
			t updTarget
		}
		var cells []cell
		for _, k := range ks {
			for _, t := range updTargets {
				cells = append(cells, cell{k, t})
			}
		}
		r.Parallel(len(cells), func(i int) {
			x := cells[i]
			var got, note string
			switch phase {
			case "same-context":
				got, note = runScript(callScript(x.k.c.Hash, "run", 15, []any{updateOp(x.k.newMf), uw.callOp(x.t)}), true)
			case "same-tx-new-context":
				s := append(callScript(x.k.c.Hash, "run", 15, []any{updateOp(x.k.newMf)}), callScript(x.k.c.Hash, "run", 15, []any{uw.callOp(x.t)})...)
				got, note = runScript(s, true)
			default:
				got, note = runScript(callScript(x.k.c.Hash, "run", 15, []any{uw.callOp(x.t)}), false)
			}
			judge("upd-caller", phase, x.k.name, x.k.old.Name, x.k.new.Name, x.t, got, uw.want(perms(x.k), x.t), note)
		})
	}
	oldP := func(k *updCaller) []permShape { return k.old.P }
	newP := func(k *updCaller) []permShape { return k.new.P }
	callerPhase("before", oldP)
	if era == "post" {
		callerPhase("same-context", oldP) // Domovoi: the executing contract state
	} else {
		callerPhase("same-context", newP) // before Domovoi: the state stored in ContractManagement
	}
	callerPhase("same-tx-new-context", newP)
	// a transaction that updates and then FAULTS changes nothing: later transactions of the same block and
	// the next invocation still see P_old (the block's and the transaction's layers of the contract cache)
	for lo := 0; lo < len(ks) && !r.Expired(); lo += 10 {
		part := ks[lo:min(lo+10, len(ks))]
		var txs []*transaction.Transaction
		for _, k := range part {
			tx, err := uw.n.MakeTx(callScript(k.c.Hash, "run", 15, []any{updateOp(k.newMf), []any{chainx.OpThrow}}), val, chainx.SysFee(20*gas))
			if err != nil {
				return err
			}
			txs = append(txs, tx)
		}
		for _, k := range part {
			for _, t := range updTargets {
				tx, err := uw.n.MakeTx(callScript(k.c.Hash, "run", 15, []any{uw.callOp(t)}), val, chainx.SysFee(3*gas))
				if err != nil {
					return err
				}
				txs = append(txs, tx)
			}
		}
		res, faults, err := uw.blockResults(txs)
		if err != nil {
			return fmt.Errorf("failed-update block: %w", err)
		}
		for i := range part {
			if res[i] == "allowed" {
				return fmt.Errorf("the update-then-throw transaction of %s halted", part[i].name)
			}
		}
		for i, k := range part {
			for j, t := range updTargets {
				x := len(part) + i*len(updTargets) + j
				judge("upd-caller", "same-block-after-faulted-update", k.name, k.old.Name, k.new.Name, t, res[x], uw.want(k.old.P, t), faults[x])
			}
		}
	}
	callerPhase("next-invocation-after-faulted-update", oldP)
	// same block: updates first, then the calls
	for lo := 0; lo < len(ks) && !r.Expired(); lo += 10 {
		part := ks[lo:min(lo+10, len(ks))]
		var txs []*transaction.Transaction
		for _, k := range part {
			tx, err := uw.n.MakeTx(callScript(k.c.Hash, "run", 15, []any{updateOp(k.newMf)}), val, chainx.SysFee(20*gas))
			if err != nil {
				return err
			}
			txs = append(txs, tx)
		}
		for _, k := range part {
			for _, t := range updTargets {
				tx, err := uw.n.MakeTx(callScript(k.c.Hash, "run", 15, []any{uw.callOp(t)}), val, chainx.SysFee(3*gas))
				if err != nil {
					return err
				}
				txs = append(txs, tx)
			}
		}
		res, faults, err := uw.blockResults(txs)
		if err != nil {
			return fmt.Errorf("update block: %w", err)
		}
		for i := range part {
			if res[i] != "allowed" {
				return fmt.Errorf("self-update of %s (%s => %s) failed in a block: %s", part[i].name, part[i].old.Name, part[i].new.Name, faults[i])
			}
		}
		for i, k := range part {
			for j, t := range updTargets {
				x := len(part) + i*len(updTargets) + j
				judge("upd-caller", "same-block", k.name, k.old.Name, k.new.Name, t, res[x], uw.want(k.new.P, t), faults[x])
			}
		}
	}
	callerPhase("next-invocation", newP)

	// ---- callee side ---------------------------------------------------------------------------------
	type mut struct {
		name      string
		label     string
		groups    []string
		safe      map[string]bool
		forge     string // "" | other-hash | other-key | keep-and-forge
		wantFault bool
	}
	muts := []mut{
		{name: "Mg", label: "gains-G1", groups: []string{"G1"}},
		{name: "Ml", label: "loses-G1", groups: nil},
		{name: "Ms", label: "other-becomes-safe", safe: map[string]bool{"other": true}},
		{name: "Mu", label: "runSafe-becomes-non-safe", safe: map[string]bool{"runSafe": false}},
		{name: "Mf1", label: "forged-G1-signature-over-other-hash", forge: "other-hash", wantFault: true},
		{name: "Mf2", label: "forged-G1-signature-by-other-key", forge: "other-key", wantFault: true},
		{name: "Mf3", label: "keeps-G3-forged-G1", groups: []string{"G3"}, forge: "keep-and-forge", wantFault: true},
	}
	mtargets := []string{"run", "other", "runSafe"}
	newMf := map[string]*manifest.Manifest{}
	for _, m := range muts {
		c, err := uw.variant(m.name, m.groups, nil, m.safe)
		if err != nil {
			return err
		}
		g1 := uw.gkeys["G1"]
		switch m.forge {
		case "other-hash": // G1's genuine signature, but over another contract's hash
			c.Manifest.Groups = append(c.Manifest.Groups, manifest.Group{PublicKey: g1.PublicKey(), Signature: g1.Sign(uw.byName["Cn"].Hash.BytesBE())})
		case "other-key", "keep-and-forge": // G1 claimed, signed by G2's key over the right hash
			c.Manifest.Groups = append(c.Manifest.Groups, manifest.Group{PublicKey: g1.PublicKey(), Signature: uw.gkeys["G2"].Sign(c.Hash.BytesBE())})
		}
		newMf[m.name] = c.Manifest
	}
	calleePhase := func(phase string, after bool) {
		type cell struct {
			m  mut
			s  updShape
			tm string
		}
		var cells []cell
		for _, m := range muts {
			for _, s := range statics {
				for _, tm := range mtargets {
					cells = append(cells, cell{m, s, tm})
				}
			}
		}
		r.Parallel(len(cells), func(i int) {
			x := cells[i]
			t := updTarget{x.m.name, x.tm, []any{[]any{}}}
			if x.tm == "other" {
				t.Args = []any{1}
			}
			call := callScript(sc[x.s.Name].Hash, "run", 15, []any{uw.callOp(t)})
			var got, note string
			if phase == "same-tx" {
				// the callee updates itself (called by the entry script), then the caller calls it
				e := uw.run(append(callScript(uw.byName[x.m.name].Hash, "run", 15, []any{updateOp(newMf[x.m.name])}), call...), fAll)
				got, note = classifyUpd(e, true), e.Fault
				if x.m.wantFault {
					// the forged update must fail the whole script; nothing to judge about the call
					st.count("forged:" + era + ":same-tx")
					if updated(e) {
						st.report(r, "forged", fmt.Sprintf("permission:forged-group-accepted:%s:%s:update-%s", era, x.m.name, x.m.forge),
							updCase{Sub: "forged", Era: era, Phase: phase, Caller: x.s.Name, Target: x.m.name, Got: "updated", Want: "update refused", Note: e.Fault})
					} else {
						r.Outcome("forged:" + era + ":update-refused")
					}
					return
				}
			} else {
				got, note = runScript(call, false)
			}
			// predicate on the state the callee is expected to be in
			c := &callee{Name: x.m.name, Groups: uw.byName[x.m.name].Groups}
			safe := uw.safe[x.m.name][x.tm]
			if after && !x.m.wantFault {
				c.Groups = x.m.groups
				if v, ok := x.m.safe[x.tm]; ok {
					safe = v
				}
			}
			sub := "upd-callee"
			if x.m.wantFault {
				sub = "forged"
			}
			judge(sub, phase, x.s.Name, "caller:"+x.s.Name, x.m.label, t, got, safe || allowedBy(x.s.P, c, x.tm), note)
		})
	}
	calleePhase("before", false)
	calleePhase("same-tx", true)
	{
		var txs []*transaction.Transaction
		for _, m := range muts {
			tx, err := uw.n.MakeTx(callScript(uw.byName[m.name].Hash, "run", 15, []any{updateOp(newMf[m.name])}), val, chainx.SysFee(20*gas))
			if err != nil {
				return err
			}
			txs = append(txs, tx)
		}
		type bc struct {
			m  mut
			s  updShape
			tm string
		}
		var bcs []bc
		for _, m := range muts {
			for _, s := range statics {
				for _, tm := range mtargets {
					t := updTarget{m.name, tm, []any{[]any{}}}
					if tm == "other" {
						t.Args = []any{1}
					}
					tx, err := uw.n.MakeTx(callScript(sc[s.Name].Hash, "run", 15, []any{uw.callOp(t)}), val, chainx.SysFee(3*gas))
					if err != nil {
						return err
					}
					txs = append(txs, tx)
					bcs = append(bcs, bc{m, s, tm})
				}
			}
		}
		res, faults, err := uw.blockResults(txs)
		if err != nil {
			return fmt.Errorf("callee update block: %w", err)
		}
		for i, m := range muts {
			st.count("upd-callee:" + era + ":update-tx")
			if (res[i] == "allowed") == m.wantFault {
				if m.wantFault {
					st.report(r, "forged", fmt.Sprintf("permission:forged-group-accepted:%s:%s:update-%s:in-block", era, m.name, m.forge),
						updCase{Sub: "forged", Era: era, Phase: "same-block", Target: m.name, Got: "updated", Want: "update refused"})
				} else {
					return fmt.Errorf("self-update of %s failed in a block: %s", m.name, faults[i])
				}
			}
		}
		for i, x := range bcs {
			c := &callee{Name: x.m.name, Groups: uw.byName[x.m.name].Groups}
			safe := uw.safe[x.m.name][x.tm]
			if !x.m.wantFault {
				c.Groups = x.m.groups
				if v, ok := x.m.safe[x.tm]; ok {
					safe = v
				}
			}
			sub := "upd-callee"
			if x.m.wantFault {
				sub = "forged"
			}
			judge(sub, "same-block", x.s.Name, "caller:"+x.s.Name, x.m.label, updTarget{Callee: x.m.name, Method: x.tm}, res[len(muts)+i], safe || allowedBy(x.s.P, c, x.tm), faults[len(muts)+i])
		}
	}
	calleePhase("next-invocation", true)
	// deployments claiming a group with a bad signature
	for _, forge := range []string{"other-hash", "other-key"} {
		c, err := uw.variant("Fd-"+forge, nil, nil, nil)
		if err != nil {
			return err
		}
		g1 := uw.gkeys["G1"]
		if forge == "other-hash" {
			c.Manifest.Groups = []manifest.Group{{PublicKey: g1.PublicKey(), Signature: g1.Sign(uw.byName["Cn"].Hash.BytesBE())}}
		} else {
			c.Manifest.Groups = []manifest.Group{{PublicKey: g1.PublicKey(), Signature: uw.gkeys["G2"].Sign(c.Hash.BytesBE())}}
		}
		nb, _ := c.NEF.Bytes()
		mb, _ := json.Marshal(c.Manifest)
		e := uw.run(callScript(nativehashes.ContractManagement, "deploy", 15, nb, mb), fAll)
		st.count("forged:" + era + ":deploy")
		if e.State == "HALT" {
			st.report(r, "forged", fmt.Sprintf("permission:forged-group-accepted:%s:deploy-%s", era, forge), updCase{Sub: "forged", Era: era, Phase: "deploy", Target: "Fd-" + forge, Got: "deployed", Want: "deployment refused"})
		} else {
			r.Outcome("forged:" + era + ":deploy-refused")
		}
	}
	// after a restart: everything as after the updates
	if r.Expired() {
		return nil
	}
	if err := uw.restart(); err != nil {
		return err
	}
	callerPhase("after-restart", newP)
	calleePhase("after-restart", true)
	return nil
}

// ---- staged hardforks: natives and native methods appearing inside the history ------------------------

func stagedHF(c *config.Blockchain) {
	c.Hardforks = map[string]uint32{}
	h := uint32(0)
	for _, hf := range config.Hardforks {
		if hf.Cmp(config.HFDomovoi) >= 0 {
			if h == 0 {
				h = 5
			} else {
				h += 2
			}
		}
		c.Hardforks[hf.String()] = h
	}
}

type stagedTarget struct {
	Contract string
	Hash     util.Uint160
	Method   string
	Args     []any
}

func runStaged(r *vk.Run, st *updStats) (map[string]any, error) {
	n, err := chainx.New(chainx.Opts{Proto: stagedHF})
	if err != nil {
		return nil, err
	}
	uw := &updWorld{runner: runner{n: n, tag: "staged"}, era: "staged", gkeys: map[string]*keys.PrivateKey{}, byName: map[string]*callee{}, safe: map[string]map[string]bool{}, sender: n.Validator.ScriptHash()}
	defer func() { uw.n.Close() }()
	uw.signers = []transaction.Signer{{Account: n.Validator.ScriptHash(), Scopes: transaction.Global}}
	acc := chainx.Acc(1).ScriptHash().BytesBE()
	natives := map[string]util.Uint160{"Notary": nativehashes.Notary, "Policy": nativehashes.PolicyContract, "Treasury": nativehashes.Treasury, "Management": nativehashes.ContractManagement, "NEO": nativehashes.NeoToken, "GAS": nativehashes.GasToken}
	for name, h := range natives {
		uw.byName[name] = &callee{Name: name, Hash: h}
	}
	// N (ext_names_test.go): its non-safe methods use System.Storage.Local.Put, a system call that appears with Faun
	uw.gkeys["G2"] = chainx.Acc(12).PrivateKey()
	nc, err := buildN(uw.sender, uw.gkeys["G2"])
	if err != nil {
		return nil, err
	}
	natives["N"] = nc.Hash
	uw.byName["N"] = &callee{Name: "N", Hash: nc.Hash, Groups: []string{"G2"}}
	tg := func(c, m string, args ...any) stagedTarget {
		return stagedTarget{c, natives[c], m, append([]any{}, args...)}
	}
	targets := []stagedTarget{
		tg("Policy", "getFeePerByte"), tg("Policy", "setFeePerByte", 1000),
		tg("Notary", "balanceOf", acc), tg("Notary", "expirationOf", acc), tg("Notary", "lockDepositUntil", acc, 100), tg("Notary", "setMaxNotValidBeforeDelta", 100), tg("Notary", "withdraw", acc, acc),
		tg("Policy", "getMillisecondsPerBlock"), tg("Policy", "setMillisecondsPerBlock", 1000), tg("Policy", "getMaxTraceableBlocks"), tg("Policy", "setMaxTraceableBlocks", 1000),
		tg("Policy", "getBlockedAccounts"), tg("Policy", "getExecPicoFeeFactor"), tg("Policy", "setWhitelistFeeContract", acc, "run", 1, 0), tg("Policy", "removeWhitelistFeeContract", acc, "run", 1),
		tg("Management", "isContract", acc), tg("NEO", "onNEP17Payment", acc, 1, nil), tg("NEO", "getCommitteeAddress"),
		tg("Treasury", "verify"), tg("Treasury", "onNEP17Payment", acc, 1, nil),
		tg("GAS", "transfer", acc, acc, 0, nil),
		tg("N", "a"), tg("N", "m"), tg("N", "m", 7),
	}
	shapes := []updShape{
		{"none", nil},
		{"*/*", []permShape{{Desc: "*", Wild: true}}},
		{"Notary/*", []permShape{{Desc: "hash:Notary", Wild: true}}},
		{"Notary/[withdraw]+Policy/[setMillisecondsPerBlock]", []permShape{{Desc: "hash:Notary", Methods: []string{"withdraw"}}, {Desc: "hash:Policy", Methods: []string{"setMillisecondsPerBlock"}}}},
		{"*/[lockDepositUntil,setWhitelistFeeContract,onNEP17Payment]", []permShape{{Desc: "*", Methods: []string{"lockDepositUntil", "setWhitelistFeeContract", "onNEP17Payment"}}}},
		{"Treasury/*+Policy/[setFeePerByte]", []permShape{{Desc: "hash:Treasury", Wild: true}, {Desc: "hash:Policy", Methods: []string{"setFeePerByte"}}}},
	}
	cs := []*neotest.Contract{}
	for i, s := range shapes {
		c, err := uw.variant(fmt.Sprintf("H%d", i), nil, uw.realPerms(s.P, false), nil)
		if err != nil {
			return nil, err
		}
		cs = append(cs, c)
	}
	if err := uw.deployAll(append([]*neotest.Contract{nc}, cs...)...); err != nil {
		return nil, err
	}
	val := []neotest.Signer{uw.n.Validator}
	type blockObs struct {
		h      uint32
		caller int
		t      stagedTarget
		got    string
	}
	var inBlocks []blockObs
	last := uint32(0)
	for _, h := range uw.n.BC.GetConfig().Hardforks {
		last = max(last, h)
	}
	firstSeen := map[string]uint32{}
	heights := 0
	for uw.n.Height() <= last+1 && !r.Expired() {
		h := uw.n.Height()
		heights++
		type cell struct {
			i int
			t stagedTarget
		}
		var cells []cell
		for i := range shapes {
			for _, t := range targets {
				cells = append(cells, cell{i, t})
			}
		}
		r.Parallel(len(cells), func(k int) {
			x := cells[k]
			e := uw.run(callScript(cs[x.i].Hash, "run", 15, []any{[]any{chainx.OpCall, x.t.Hash.BytesBE(), x.t.Method, 15, x.t.Args}}), fAll)
			got := "other-failure"
			switch {
			case e.State == "HALT":
				got = "allowed"
			case strings.Contains(e.Fault, "disallowed method call"):
				got = "denied"
			}
			state := uw.n.BC.GetContractState(x.t.Hash)
			var md *manifest.Method
			if state != nil {
				md = state.Manifest.ABI.GetMethod(x.t.Method, len(x.t.Args))
			}
			tn := fmt.Sprintf("%s.%s/%d", x.t.Contract, x.t.Method, len(x.t.Args))
			st.count("staged")
			uc := updCase{Sub: "staged", Era: fmt.Sprintf("height %d", h), Phase: "staged", Caller: shapes[x.i].Name, Target: tn, Got: got, Note: e.Fault}
			key := fmt.Sprintf("permission:staged:h%d:%s->%s", h, shapes[x.i].Name, tn)
			switch {
			case md == nil:
				// the method is not on the ledger (yet): nobody may reach it
				uc.Want = "not callable"
				if got == "allowed" || e.ctxs[x.t.Hash] {
					st.report(r, "staged-absent", key+":executed-before-activation", uc)
					return
				}
				r.Outcome("staged:absent:" + got)
			case md.Safe || allowedBy(shapes[x.i].P, uw.byName[x.t.Contract], x.t.Method):
				uc.Want = "not denied"
				st.mu.Lock()
				if _, ok := firstSeen[tn]; !ok || h < firstSeen[tn] {
					firstSeen[tn] = h
				}
				st.mu.Unlock()
				if got == "denied" {
					st.report(r, "staged-refused", key+":denied-but-predicate-allowed", uc)
					return
				}
				r.Outcome("staged:permitted:" + got)
			default:
				uc.Want = "denied"
				st.mu.Lock()
				if _, ok := firstSeen[tn]; !ok || h < firstSeen[tn] {
					firstSeen[tn] = h
				}
				st.mu.Unlock()
				if got != "denied" || e.ctxs[x.t.Hash] {
					st.report(r, "staged-allowed", key+":"+got+"-but-predicate-denied", uc)
					return
				}
				r.Outcome("staged:denied")
			}
		})
		// the next block carries the same calls of the callers without any / with all permissions as real
		// transactions (in the activation block itself a native is deployed but not callable yet)
		var txs []*transaction.Transaction
		var obs []blockObs
		for _, ci := range []int{0, 1} {
			for _, t := range targets {
				tx, err := uw.n.MakeTx(callScript(cs[ci].Hash, "run", 15, []any{[]any{chainx.OpCall, t.Hash.BytesBE(), t.Method, 15, t.Args}}), val, chainx.SysFee(2*gas))
				if err != nil {
					return nil, err
				}
				txs = append(txs, tx)
				obs = append(obs, blockObs{h: h + 1, caller: ci, t: t})
			}
		}
		res, _, err := uw.blockResults(txs)
		if err != nil {
			return nil, fmt.Errorf("staged block %d: %w", h+1, err)
		}
		for i := range obs {
			obs[i].got = res[i]
		}
		inBlocks = append(inBlocks, obs...)
	}
	// judged with the final manifests: a caller without permissions never completes a call of a non-safe
	// method in any block; what the wildcard caller achieves is recorded
	firstBlockOK := map[string]uint32{}
	for _, o := range inBlocks {
		tn := fmt.Sprintf("%s.%s/%d", o.t.Contract, o.t.Method, len(o.t.Args))
		st.count("staged-block")
		if o.caller == 1 {
			if o.got == "allowed" {
				if v, ok := firstBlockOK[tn]; !ok || o.h < v {
					firstBlockOK[tn] = o.h
				}
			}
			r.Outcome("staged-block:wildcard:" + o.got)
			continue
		}
		state := uw.n.BC.GetContractState(o.t.Hash)
		var md *manifest.Method
		if state != nil {
			md = state.Manifest.ABI.GetMethod(o.t.Method, len(o.t.Args))
		}
		if md != nil && !md.Safe && o.got == "allowed" {
			st.report(r, "staged-block", fmt.Sprintf("permission:staged-block:h%d:none->%s:allowed-but-predicate-denied", o.h, tn),
				updCase{Sub: "staged", Era: fmt.Sprintf("block %d", o.h), Phase: "block", Caller: "none", Target: tn, Got: o.got, Want: "denied"})
			continue
		}
		r.Outcome("staged-block:none:" + o.got)
	}
	var fb []string
	for k, v := range firstBlockOK {
		fb = append(fb, fmt.Sprintf("%s@%d", k, v))
	}
	sort.Strings(fb)
	var fs []string
	for k, v := range firstSeen {
		fs = append(fs, fmt.Sprintf("%s@%d", k, v))
	}
	sort.Strings(fs)
	return map[string]any{"hardfork_heights": uw.n.BC.GetConfig().Hardforks, "heights_explored": heights, "callers": len(shapes), "targets": len(targets), "method_on_ledger_from_height": fs, "in_block_calls": len(inBlocks), "wildcard_caller_first_halting_in_block": fb}, nil
}

func runUpd(r *vk.Run) map[string]any {
	st := &updStats{cells: map[string]int{}, reported: map[string]int{}, outcomes: map[string]int{}}
	for _, era := range []string{"post", "pre"} {
		if err := runUpdEra(r, era, st); err != nil {
			fmt.Printf("CHECK-ERROR: update family (%s-Domovoi chain): %v\n", era, err)
			return map[string]any{"error": err.Error()}
		}
	}
	staged, err := runStaged(r, st)
	if err != nil {
		fmt.Println("CHECK-ERROR: staged-hardfork family:", err)
		return map[string]any{"error": err.Error()}
	}
	total := 0
	for _, v := range st.cells {
		total += v
	}
	var sh []string
	for _, s := range updShapeSet(r) {
		sh = append(sh, s.Name)
	}
	return map[string]any{
		"cells_total":                     total,
		"cells_by_family_era_phase":       st.cells,
		"outcomes":                        st.outcomes,
		"permission_shapes":               sh,
		"self_updating_callers_per_era":   len(updShapeSet(r)) * (len(updShapeSet(r)) - 1),
		"targets":                         "Cn.run, Cn.other, Cg.run (group G1), Cn.runSafe (safe)",
		"callee_mutations":                "Mg gains group G1; Ml loses G1; Ms: other becomes safe; Mu: runSafe becomes non-safe; Mf1/Mf2/Mf3: forged G1 membership (signature over another hash / by another key / next to a genuine G3 membership)",
		"phases":                          "before, same-context (caller side), same-tx(-new-context), same-block-after-faulted-update, next-invocation-after-faulted-update, same-block, next-invocation, after-restart",
		"staged_hardforks":                staged,
		"violations_by_class_incl_hidden": st.reported,
	}
}

func replayUpd(r *vk.Run, uc updCase) {
	for i := 0; i < 5; i++ {
		before := r.NViolations()
		st := &updStats{cells: map[string]int{}, reported: map[string]int{}, outcomes: map[string]int{}}
		var err error
		switch {
		case uc.Sub == "staged":
			_, err = runStaged(r, st)
		case uc.Era == "pre":
			err = runUpdEra(r, "pre", st)
		default:
			err = runUpdEra(r, "post", st)
		}
		if err != nil {
			fmt.Println("CHECK-ERROR:", err)
			return
		}
		_ = before
		fmt.Printf("replay %d: family %s (%s) re-run on a fresh chain: mismatches in this pass by class: %v\n", i, uc.Sub, uc.Era, st.reported)
	}
}
