package c16

import (
	"encoding/hex"
	"fmt"
	"math/big"
	"sort"

	"github.com/nspcc-dev/neo-go/pkg/core/native/nativehashes"
	"github.com/nspcc-dev/neo-go/pkg/encoding/base58"
	"github.com/nspcc-dev/neo-go/pkg/io"
	"github.com/nspcc-dev/neo-go/pkg/smartcontract"
	"github.com/nspcc-dev/neo-go/pkg/smartcontract/callflag"
	"github.com/nspcc-dev/neo-go/pkg/util"
	"github.com/nspcc-dev/neo-go/pkg/vm/emit"
	"github.com/nspcc-dev/neo-go/pkg/vm/opcode"
	"github.com/nspcc-dev/neo-go/pkg/vm/stackitem"

	"verif/lib/chainx"
)

// argv is one labelled argument value.
type argv struct {
	L string
	V any
}

// opSpec is one operation of the menu with its argument combinations.
type opSpec struct {
	Op     string       // id in the completeness table: "u:put", "sys:System.Storage.Put", "native:GasToken.transfer/4"
	Group  string       // u | sys | native
	Self   util.Uint160 // contract holding the method
	Method string
	Safe   bool // manifest-safe method
	Combos [][]argv
	Paths  []string
	TokFam string                   // path "token": family of T's methods reaching Self.Method through CALLT
	Raw    func(args []argv) []byte // path "entry": the raw script
	Full   int                      // size of the full product before capping
}

func labels(c []argv) string {
	s := ""
	for i, a := range c {
		if i > 0 {
			s += ","
		}
		s += a.L
	}
	return s
}

func vals(c []argv) []any {
	out := make([]any, len(c))
	for i, a := range c {
		out[i] = a.V
	}
	return out
}

func hasFrag(c []argv) bool {
	for _, a := range c {
		if _, ok := a.V.(frag); ok {
			return true
		}
	}
	return false
}

// ---- type-directed argument menus for native methods -------------------------------------

var (
	blsG1, _ = hex.DecodeString("97f1d3a73197d7942695638c4fa9ac0fc3688c4f9774b905a14e3a3f171bac586c55e83ff97a1aeffb3af00adb22c6bb")
	blsG2, _ = hex.DecodeString("93e02b6052719f607dacd3a088274f65596bd0d09920b61ab5da61bbdc7f5049334cf11213945d57e5ac7d055d042b7e024aa2b2f08f0a91260805272dc51051c6e47ad4fa403b02b4510b647ae3d1770bac0326a805bbefd48056c8c121bdb8")
)

var absentHash = util.Uint160{1, 2, 3, 4, 5, 6, 7, 8, 9, 10, 11, 12, 13, 14, 15, 16, 17, 18, 19, 20}

func (w *world) blsFrag(b []byte) frag {
	bw := io.NewBufBinWriter()
	emit.AppCall(bw.BinWriter, nativehashes.CryptoLib, "bls12381Deserialize", callflag.All, b)
	return frag(bw.Bytes())
}

// payProg is a program U runs when it is paid (data of a NEP-17 transfer).
var payProg = []any{[]any{chainx.OpNotify, 7}, []any{chainx.OpPut, []byte("paid"), []byte("1")}}

func (w *world) menu(t smartcontract.ParamType) []argv {
	if m, ok := w.menus[t]; ok {
		return m
	}
	m := w.menu0(t)
	w.menus[t] = m
	return m
}

func (w *world) menu0(t smartcontract.ParamType) []argv {
	h := int64(w.n.Height())
	acc := func(i int) util.Uint160 { return chainx.Acc(i).ScriptHash() }
	pub := func(i int) []byte { return chainx.Acc(i).PublicKey().Bytes() }
	ser, _ := stackitem.Serialize(stackitem.NewArray([]stackitem.Item{stackitem.Make(1), stackitem.Make("a")}))
	sig := chainx.Acc(1).PrivateKey().Sign([]byte("abc"))
	switch t {
	case smartcontract.Hash160Type:
		return []argv{{"acc1", acc(1)}, {"acc2", acc(2)}, {"UA", w.UA}, {"UB", w.UB}, {"absent", absentHash}, {"acc5blocked", acc(5)}, {"GAS", nativehashes.GasToken},
			{"Notary", nativehashes.Notary}, {"NEO", nativehashes.NeoToken}}
	case smartcontract.IntegerType:
		return []argv{{"1", 1}, {"0", 0}, {"-1", -1}, {"2", 2}, {"8", 8}, {"10", 10}, {"16", 16}, {"23", 23}, {"32", 32}, {"100", 100}, {"1000", 1000},
			{"100000", 100000}, {"10000000", 10000000}, {"H+1", int(h + 1)}, {"MTB-1", int(w.n.BC.GetMaxTraceableBlocks()) - 1}, {"2^62", big.NewInt(1 << 62)}}
	case smartcontract.StringType:
		return []argv{{"abc", "abc"}, {"empty", ""}, {"run", "run"}, {"other", "other"}, {"10", "10"}, {"1f", "1f"}, {"YWJj", "YWJj"}, {"url", "https://x.y/z"}, {"json", "[1,2]"}, {"cb", "cb"}, {"base58check", base58.CheckEncode([]byte("abc"))}}
	case smartcontract.ByteArrayType:
		return []argv{{"abc", []byte("abc")}, {"pub1", pub(1)}, {"sig", sig}, {"empty", []byte{}}, {"idx1", []byte{1}}, {"blockhash", w.blkHash.BytesBE()}, {"txhash", w.txHash.BytesBE()},
			{"serialized", ser}, {"json", []byte("[1]")}, {"nefD", w.nefD}, {"manifestNewD", w.mfNewD}, {"manifestUA-D", w.mfUAD}, {"nefU", w.nefBytes}, {"manifestNewU", w.mfNew}, {"manifestUA-U", w.mfUA}, {"blsG1", blsG1}, {"scalar32", append([]byte{3}, make([]byte, 31)...)}}
	case smartcontract.Hash256Type:
		return []argv{{"tx", w.txHash}, {"block", w.blkHash}, {"absent", util.Uint256{9, 9, 9}}}
	case smartcontract.PublicKeyType:
		return []argv{{"pub1cand", pub(1)}, {"pub2", pub(2)}, {"pub3", pub(3)}}
	case smartcontract.BoolType:
		return []argv{{"false", false}, {"true", true}}
	case smartcontract.AnyType:
		return []argv{{"nil", nil}, {"1", 1}, {"prog", payProg}, {"[nil,till]", []any{nil, int(h + 200)}}}
	case smartcontract.ArrayType:
		return []argv{{"[pub3]", []any{pub(3)}}, {"[]", []any{}}, {"[pub2,pub4]", []any{pub(2), pub(4)}}}
	case smartcontract.InteropInterfaceType:
		return []argv{{"g1", w.blsFrag(blsG1)}, {"g2", w.blsFrag(blsG2)}, {"nil", nil}}
	}
	return []argv{{"nil", nil}}
}

// product enumerates the full product of the menus when it does not exceed
// cap. Otherwise (deterministically): the full product of the menus shortened
// from their tails until it fits into cap/2, plus, for every parameter and
// every value of its full menu, the combinations with the other parameters
// taken from the first two values of their menus.
func product(menus [][]argv, cap int) (out [][]argv, full int) {
	full = 1
	for _, m := range menus {
		full *= len(m)
		if full > 1<<40 {
			full = 1 << 40
		}
	}
	enum := func(ms [][]argv, f func([]argv)) {
		cur := make([]argv, len(ms))
		var rec func(i int)
		rec = func(i int) {
			if i == len(ms) {
				f(append([]argv{}, cur...))
				return
			}
			for _, v := range ms[i] {
				cur[i] = v
				rec(i + 1)
			}
		}
		rec(0)
	}
	if full <= cap {
		enum(menus, func(c []argv) { out = append(out, c) })
		return
	}
	short := make([][]argv, len(menus))
	for i := range menus {
		short[i] = menus[i]
	}
	size := func() int {
		p := 1
		for _, m := range short {
			p *= len(m)
		}
		return p
	}
	for size() > cap/2 {
		big := 0
		for i := range short {
			if len(short[i]) > len(short[big]) {
				big = i
			}
		}
		short[big] = short[big][:len(short[big])-1]
	}
	seen := map[string]bool{}
	add := func(c []argv) {
		if l := labels(c); !seen[l] {
			seen[l] = true
			out = append(out, c)
		}
	}
	enum(short, add)
	for i := range menus {
		star := make([][]argv, len(menus))
		for j := range menus {
			if j == i {
				star[j] = menus[j]
			} else {
				star[j] = menus[j][:min(2, len(menus[j]))]
			}
		}
		enum(star, add)
	}
	return
}

// nativeSpecs: every ABI method of every native contract.
func (w *world) nativeSpecs(cap int) []*opSpec {
	var out []*opSpec
	for _, c := range w.natives {
		for _, m := range c.Manifest.ABI.Methods {
			var menus [][]argv
			for _, p := range m.Parameters {
				menus = append(menus, w.menu(p.Type))
			}
			combos, full := product(menus, cap)
			paths, fam := []string{"direct", "viaA", "viaAreq"}, ""
			if c.Hash == nativehashes.GasToken && m.Name == "balanceOf" {
				paths, fam = append(paths, "token"), "GASbalanceOf"
			}
			out = append(out, &opSpec{
				TokFam: fam,
				Op:     fmt.Sprintf("native:%s.%s/%d", c.Manifest.Name, m.Name, len(m.Parameters)),
				Group:  "native",
				Self:   c.Hash,
				Method: m.Name,
				Safe:   m.Safe,
				Combos: combos,
				Full:   full,
				Paths:  paths,
			})
		}
	}
	return out
}

// ---- operations of the universal contract (compiled code) ----------------------------------

func (w *world) uSpecs() []*opSpec {
	ub := w.UB.BytesBE()
	gasH := nativehashes.GasToken.BytesBE()
	put := []any{chainx.OpPut, []byte("x"), []byte("1")}
	one := func(op string, progs ...argv) *opSpec {
		s := &opSpec{Op: "u:" + op, Group: "u", Self: w.UA, Method: "run", Paths: []string{"u", "token"}, TokFam: "UArun"}
		for _, p := range progs {
			s.Combos = append(s.Combos, []argv{p})
		}
		s.Full = len(s.Combos)
		return s
	}
	p := func(l string, ops ...any) argv { return argv{l, append([]any{}, ops...)} }
	scr := func(f func(bw *io.BinWriter)) []byte {
		bw := io.NewBufBinWriter()
		f(bw.BinWriter)
		return bw.Bytes()
	}
	push1 := []byte{byte(opcode.PUSH1), byte(opcode.RET)}
	callPut := scr(func(bw *io.BinWriter) { emit.AppCall(bw, w.UB, "run", callflag.All, []any{put}) })
	return []*opSpec{
		one("storage.put", p("new", put), p("same", []any{chainx.OpPut, []byte("a"), []byte("1")}), p("change", []any{chainx.OpPut, []byte("a"), []byte("2")})),
		one("storage.delete", p("existing", []any{chainx.OpDel, []byte("a")}), p("absent", []any{chainx.OpDel, []byte("zz")})),
		one("storage.get", p("existing", []any{chainx.OpGet, []byte("a")}), p("absent", []any{chainx.OpGet, []byte("zz")})),
		one("storage.find", p("prefix-a", []any{chainx.OpFind, []byte("a"), 0}), p("none", []any{chainx.OpFind, []byte("zz"), 0})),
		one("notify", p("1", []any{chainx.OpNotify, 1})),
		one("checkwitness", p("acc1", []any{chainx.OpCheckWitness, chainx.Acc(1).ScriptHash().BytesBE()}), p("absent", []any{chainx.OpCheckWitness, absentHash.BytesBE()})),
		one("getflags", p("", []any{chainx.OpGetFlags})),
		one("call",
			p("UB.other", []any{chainx.OpCall, ub, "other", 15, []any{1}}),
			p("UB.run[put]", []any{chainx.OpCall, ub, "run", 15, []any{[]any{put}}}),
			p("UB.run[put]/None", []any{chainx.OpCall, ub, "run", 0, []any{[]any{put}}}),
			p("UB.run[notify]", []any{chainx.OpCall, ub, "run", 15, []any{[]any{[]any{chainx.OpNotify, 2}}}}),
			p("UB.runSafe[]", []any{chainx.OpCall, ub, "runSafe", 15, []any{[]any{}}}),
			p("self.other", []any{chainx.OpCall, w.UA.BytesBE(), "other", 15, []any{1}}),
			p("self.run[put]", []any{chainx.OpCall, w.UA.BytesBE(), "run", 15, []any{[]any{put}}}),
			p("GAS.transfer", []any{chainx.OpCall, gasH, "transfer", 15, []any{w.UA.BytesBE(), chainx.Acc(1).ScriptHash().BytesBE(), 1, nil}}),
			p("GAS.balanceOf", []any{chainx.OpCall, gasH, "balanceOf", 15, []any{w.UA.BytesBE()}}),
			p("absent.x", []any{chainx.OpCall, absentHash.BytesBE(), "x", 15, []any{}}),
		),
		one("run", p("UB[put,notify]", []any{chainx.OpRun, ub, 15, []any{put, []any{chainx.OpNotify, 3}}}), p("UB[]", []any{chainx.OpRun, ub, 15, []any{}})),
		one("loadscript",
			p("push1", []any{chainx.OpLoadScript, push1, 15, []any{}}),
			p("call-UB.run[put]", []any{chainx.OpLoadScript, callPut, 15, []any{}}),
			p("push1/None", []any{chainx.OpLoadScript, push1, 0, []any{}}),
		),
		one("try-throw", p("caught", []any{chainx.OpTry, []any{[]any{chainx.OpThrow}}, []any{put}}),
			p("callee-throws", []any{chainx.OpTry, []any{[]any{chainx.OpRun, ub, 15, []any{put, []any{chainx.OpNotify, 4}, []any{chainx.OpThrow}}}}, []any{}}),
			// the callee returns normally inside the caller's try block: its private storage layer is committed
			p("callee-commits", []any{chainx.OpTry, []any{[]any{chainx.OpRun, ub, 15, []any{put, []any{chainx.OpNotify, 4}}}}, []any{}}),
			p("callee-commits-then-caller-throws", []any{chainx.OpTry, []any{[]any{chainx.OpRun, ub, 15, []any{put}}, []any{chainx.OpThrow}}, []any{[]any{chainx.OpNotify, 9}}}),
			p("callee-commits/None", []any{chainx.OpTry, []any{[]any{chainx.OpRun, ub, 0, []any{put}}}, []any{}}),
			p("nested-callee-throws-inner-commits", []any{chainx.OpTry, []any{[]any{chainx.OpRun, ub, 15, []any{[]any{chainx.OpRun, w.UA.BytesBE(), 15, []any{put}}, []any{chainx.OpThrow}}}}, []any{}}),
			// a payment callback (called by the native token) throws inside the payer's try block
			p("payment-callback-throws", []any{chainx.OpTry, []any{[]any{chainx.OpCall, gasH, "transfer", 15, []any{w.UA.BytesBE(), ub, 1, []any{put, []any{chainx.OpThrow}}}}}, []any{}}),
			p("payment-callback-commits", []any{chainx.OpTry, []any{[]any{chainx.OpCall, gasH, "transfer", 15, []any{w.UA.BytesBE(), ub, 1, []any{put, []any{chainx.OpNotify, 6}}}}}, []any{}})),
	}
}

// ---- system calls: hand-assembled contract R and raw entry scripts ---------------------------

// sysArgs is the argument menu of R's methods (by method name).
func (w *world) sysArgs() map[string][][]argv {
	ub, r := w.UB.BytesBE(), w.R.Hash.BytesBE()
	acc1 := chainx.Acc(1).ScriptHash().BytesBE()
	pub1 := chainx.Acc(1).PublicKey().Bytes()
	put := []any{chainx.OpPut, []byte("x"), []byte("1")}
	sig := chainx.Acc(1).PrivateKey().Sign([]byte("abc"))
	scr := func(f func(bw *io.BinWriter)) []byte {
		bw := io.NewBufBinWriter()
		f(bw.BinWriter)
		return bw.Bytes()
	}
	push1 := []byte{byte(opcode.PUSH1), byte(opcode.RET)}
	callPut := scr(func(bw *io.BinWriter) { emit.AppCall(bw, w.UB, "run", callflag.All, []any{put}) })
	rawNotify := scr(func(bw *io.BinWriter) {
		emit.Array(bw, 1)
		emit.String(bw, "ev")
		emit.Syscall(bw, "System.Runtime.Notify")
	})
	c := func(a ...argv) []argv { return a }
	v := func(l string, x any) argv { return argv{l, x} }
	kv := func(k, val string) []argv { return c(v(k, []byte(k)), v(val, []byte(val))) }
	k1 := func(k string) []argv { return c(v(k, []byte(k))) }
	findArgs := [][]argv{c(v("a", []byte("a")), v("0", 0)), c(v("zz", []byte("zz")), v("0", 0)), c(v("a", []byte("a")), v("keysonly", 2))}
	puts := [][]argv{kv("x", "1"), kv("a", "1"), kv("a", "2")}
	dels := [][]argv{k1("a"), k1("zz")}
	return map[string][][]argv{
		"contractCall": {
			c(v("UB", ub), v("other", "other"), v("All", 15), v("[1]", []any{1})),
			c(v("UB", ub), v("run", "run"), v("All", 15), v("[[put]]", []any{[]any{put}})),
			c(v("UB", ub), v("run", "run"), v("None", 0), v("[[put]]", []any{[]any{put}})),
			c(v("UB", ub), v("run", "run"), v("All", 15), v("[[notify]]", []any{[]any{[]any{chainx.OpNotify, 2}}})),
			c(v("UB", ub), v("runSafe", "runSafe"), v("All", 15), v("[[]]", []any{[]any{}})),
			c(v("GAS", nativehashes.GasToken.BytesBE()), v("transfer", "transfer"), v("All", 15), v("[R,acc1,1,nil]", []any{r, acc1, 1, nil})),
			c(v("GAS", nativehashes.GasToken.BytesBE()), v("balanceOf", "balanceOf"), v("All", 15), v("[acc1]", []any{acc1})),
			c(v("R", r), v("storagePut", "storagePut"), v("All", 15), v("[z,1]", []any{[]byte("z"), []byte("1")})),
			c(v("absent", absentHash.BytesBE()), v("x", "x"), v("All", 15), v("[]", []any{})),
		},
		"callNative":        {c(v("0", 0))},
		"createMultisig":    {c(v("1", 1), v("[pub1]", []any{pub1}))},
		"createStandard":    {c(v("pub1", pub1))},
		"getCallFlags":      {c()},
		"nativeOnPersist":   {c()},
		"nativePostPersist": {c()},
		"checkMultisig":     {c(v("[pub1]", []any{pub1}), v("[sig]", []any{sig}))},
		"checkSig":          {c(v("pub1", pub1), v("sig", sig))},
		"iterNext":          {k1("a"), k1("zz")},
		"iterValue":         {k1("a")},
		"burnGas":           {c(v("1", 1)), c(v("0", 0))},
		"checkWitness":      {c(v("acc1", acc1)), c(v("absent", absentHash.BytesBE()))},
		"currentSigners":    {c()}, "gasLeft": {c()}, "addressVersion": {c()}, "callingHash": {c()}, "entryHash": {c()}, "executingHash": {c()},
		"invocationCounter": {c()}, "network": {c()}, "random": {c()}, "scriptContainer": {c()}, "time": {c()}, "trigger": {c()}, "platform": {c()},
		"getNotifications": {c(v("nil", nil)), c(v("R", r))},
		"loadScript": {
			c(v("push1", push1), v("All", 15), v("[]", []any{})),
			c(v("call-UB.run[put]", callPut), v("All", 15), v("[]", []any{})),
			c(v("notify", rawNotify), v("All", 15), v("[]", []any{})),
			c(v("push1", push1), v("None", 0), v("[]", []any{})),
		},
		"log":                {c(v("msg", "msg"))},
		"notify":             {c(v("ev", "ev"), v("[1]", []any{1})), c(v("undeclared", "nope"), v("[1]", []any{1}))},
		"storageDelete":      dels,
		"storageFind":        findArgs,
		"storageGet":         {k1("a"), k1("zz")},
		"getContext":         {c()},
		"getReadOnlyContext": {c()},
		"storagePut":         puts,
		"asReadOnly":         {c()},
		"localGet":           {k1("a"), k1("zz")},
		"localFind":          findArgs,
		"localPut":           puts,
		"localDelete":        dels,
		"putViaReadOnly":     puts,
		"putViaAsReadOnly":   puts,
		"deleteViaReadOnly":  dels,
		"tokenRun":           {c(v("[put]", []any{put})), c(v("[notify]", []any{[]any{chainx.OpNotify, 5}})), c(v("[]", []any{}))},
		"tokenOther":         {c(v("1", 1))},
		"tokenGasTransfer":   {c(v("R", r), v("acc1", acc1), v("1", 1), v("nil", nil))},
	}
}

// sysSpecs: one spec per method of R (direct, through A, requested by A) and,
// for system calls that need no deployed contract around them, the raw script
// loaded as the entry script with the flag set under test.
func (w *world) sysSpecs() (out []*opSpec, missing []string) {
	args := w.sysArgs()
	covered := map[string]bool{}
	for _, m := range w.rMethods {
		if len(m.Sys) == 0 {
			continue
		}
		for _, s := range m.Sys {
			covered[s] = true
		}
		last := m.Sys[len(m.Sys)-1]
		op := "sys:" + last
		if m.Variant {
			op += "(" + m.Name + ")"
		}
		s := &opSpec{Op: op, Group: "sys", Self: w.R.Hash, Method: m.Name, Combos: args[m.Name], Paths: []string{"direct", "viaA", "viaAreq"}}
		if len(s.Combos) == 0 {
			panic("no arguments for R." + m.Name)
		}
		s.Full = len(s.Combos)
		// raw entry script: arguments then the system calls (contract-less)
		if last != "CALLT" {
			mm := m
			s.Raw = func(a []argv) []byte {
				bw := io.NewBufBinWriter()
				for i := len(a) - 1; i >= 0; i-- {
					emitArg(bw.BinWriter, a[i].V)
				}
				bw.WriteBytes(mm.body[:len(mm.body)-1])
				return bw.Bytes()
			}
			s.Paths = append(s.Paths, "entry")
		}
		out = append(out, s)
	}
	for name := range w.syscalls {
		if !covered[name] {
			missing = append(missing, name)
		}
	}
	sort.Strings(missing)
	return
}
