package c16

import (
	"encoding/json"
	"fmt"
	"slices"
	"strings"
	"sync"

	"github.com/nspcc-dev/neo-go/pkg/core/native/nativehashes"
	"github.com/nspcc-dev/neo-go/pkg/core/transaction"
	"github.com/nspcc-dev/neo-go/pkg/crypto/keys"
	"github.com/nspcc-dev/neo-go/pkg/neotest"
	"github.com/nspcc-dev/neo-go/pkg/smartcontract/callflag"
	"github.com/nspcc-dev/neo-go/pkg/smartcontract/manifest"
	"github.com/nspcc-dev/neo-go/pkg/util"

	"verif/lib/chainx"
	"verif/lib/vk"
)

// ---- shapes ---------------------------------------------------------------------------

// permShape is one manifest permission: contract descriptor x method list.
type permShape struct {
	Desc    string   `json:"contract"` // "*" | "hash:<name>" | "group:<G>"
	Methods []string `json:"methods"`  // nil = wildcard
	Wild    bool     `json:"methods_wildcard"`
}

func (p permShape) String() string {
	m := "*"
	if !p.Wild {
		m = "[" + strings.Join(p.Methods, ",") + "]"
	}
	return p.Desc + "/" + m
}

type callee struct {
	Name    string
	Hash    util.Uint160
	Groups  []string // group names
	Mf      *manifest.Manifest
	Methods []calleeMethod
}

type calleeMethod struct {
	Name string
	Safe bool
	Args func(caller util.Uint160) []any
}

type permWorld struct {
	runner
	gkeys   map[string]*keys.PrivateKey
	callees []*callee
	byName  map[string]*callee
	descs   []string
	mlists  []permShape
	// one pending oracle request of the wildcard entry-context instance (callback oracleCb) exists
	oracleReady bool
}

// allowedBy is the property's predicate: one permission matches both the
// callee (wildcard, hash or group membership) and the method name.
func allowedBy(perms []permShape, c *callee, method string) bool {
	for _, p := range perms {
		matchC := p.Desc == "*" || p.Desc == "hash:"+c.Name || (strings.HasPrefix(p.Desc, "group:") && slices.Contains(c.Groups, p.Desc[6:]))
		matchM := p.Wild || slices.Contains(p.Methods, method)
		if matchC && matchM {
			return true
		}
	}
	return false
}

// groupRootCause: the call is allowed by the code although the predicate
// denies it, and some group permission matches the callee's group while its
// method list does not contain the method.
func groupRootCause(perms []permShape, c *callee, method string) bool {
	for _, p := range perms {
		if strings.HasPrefix(p.Desc, "group:") && slices.Contains(c.Groups, p.Desc[6:]) && !(p.Wild || slices.Contains(p.Methods, method)) {
			return true
		}
	}
	return false
}

func (pw *permWorld) realPerm(p permShape) manifest.Permission {
	var mp *manifest.Permission
	switch {
	case p.Desc == "*":
		mp = manifest.NewPermission(manifest.PermissionWildcard)
	case strings.HasPrefix(p.Desc, "hash:"):
		mp = manifest.NewPermission(manifest.PermissionHash, pw.byName[p.Desc[5:]].Hash)
	default:
		mp = manifest.NewPermission(manifest.PermissionGroup, pw.gkeys[p.Desc[6:]].PublicKey())
	}
	if !p.Wild {
		mp.Methods.Value = append([]string{}, p.Methods...)
	}
	return *mp
}

func (pw *permWorld) realPerms(ps []permShape) []manifest.Permission {
	out := []manifest.Permission{}
	for _, p := range ps {
		out = append(out, pw.realPerm(p))
	}
	return out
}

func newPermWorld() (*permWorld, error) {
	n, err := chainx.New(chainx.Opts{Proto: allHF})
	if err != nil {
		return nil, err
	}
	pw := &permWorld{runner: runner{n: n, tag: "perm"}, gkeys: map[string]*keys.PrivateKey{}, byName: map[string]*callee{}}
	for i, g := range []string{"G1", "G2", "G3"} {
		pw.gkeys[g] = chainx.Acc(11 + i).PrivateKey()
	}
	sender := n.Validator.ScriptHash()
	uMethods := []calleeMethod{
		{"run", false, func(util.Uint160) []any { return []any{[]any{}} }},
		{"other", false, func(util.Uint160) []any { return []any{1} }},
		{"runSafe", true, func(util.Uint160) []any { return []any{[]any{}} }},
	}
	var txs []*transaction.Transaction
	for _, c := range []struct {
		name   string
		groups []string
	}{{"Cn", nil}, {"Cg", []string{"G1"}}, {"Cgg", []string{"G2", "G1"}}, {"O", []string{"G3"}}} {
		// the hash does not depend on the groups: compile once to learn it, then sign it
		u, err := chainx.CompileU(chainx.UVariant{Name: c.name, Sender: sender})
		if err != nil {
			n.Close()
			return nil, err
		}
		var gs []manifest.Group
		for _, g := range c.groups {
			k := pw.gkeys[g]
			gs = append(gs, manifest.Group{PublicKey: k.PublicKey(), Signature: k.Sign(u.Hash.BytesBE())})
		}
		if gs != nil {
			if u, err = chainx.CompileU(chainx.UVariant{Name: c.name, Sender: sender, Groups: gs}); err != nil {
				n.Close()
				return nil, err
			}
		}
		cl := &callee{Name: c.name, Hash: u.Hash, Groups: c.groups, Mf: u.Manifest, Methods: uMethods}
		pw.callees = append(pw.callees, cl)
		pw.byName[c.name] = cl
		tx, err := n.DeployTx(u, n.Validator, nil)
		if err != nil {
			n.Close()
			return nil, fmt.Errorf("deploy %s: %w", c.name, err)
		}
		txs = append(txs, tx)
	}
	if _, err := n.AddBlock(txs...); err != nil {
		n.Close()
		return nil, err
	}
	for _, tx := range txs {
		if err := n.CheckHalt(tx.Hash()); err != nil {
			n.Close()
			return nil, err
		}
	}
	gasState := n.BC.GetContractState(nativehashes.GasToken)
	gc := &callee{Name: "GAS", Hash: nativehashes.GasToken, Mf: &gasState.Manifest, Methods: []calleeMethod{
		{"transfer", false, func(c util.Uint160) []any { return []any{c.BytesBE(), chainx.Acc(1).ScriptHash().BytesBE(), 0, nil} }},
		{"balanceOf", true, func(c util.Uint160) []any { return []any{c.BytesBE()} }},
	}}
	pw.callees = append(pw.callees, gc)
	pw.byName["GAS"] = gc
	// for every callee the menu holds: wildcard, its hash (except Cgg: reachable by
	// wildcard and group only), another contract's hash, its group, another group
	pw.descs = []string{"*", "hash:Cn", "hash:Cg", "hash:O", "hash:GAS", "group:G1", "group:G3"}
	pw.mlists = []permShape{{Wild: true}, {Methods: []string{"run"}}, {Methods: []string{"other"}}, {Methods: []string{"run", "other", "transfer"}}, {Methods: []string{}}}
	pw.signers = []transaction.Signer{{Account: n.Validator.ScriptHash(), Scopes: transaction.Global}}
	return pw, nil
}

func (pw *permWorld) singles() []permShape {
	var out []permShape
	for _, d := range pw.descs {
		for _, m := range pw.mlists {
			out = append(out, permShape{Desc: d, Methods: m.Methods, Wild: m.Wild})
		}
	}
	return out
}

// callerSpec is one caller manifest: a list of permissions.
type callerSpec struct {
	Perms []permShape `json:"permissions"`
	name  string
	c     *neotest.Contract
	tc    *neotest.Contract // the same permissions on a hand-assembled caller that uses method tokens (CALLT)
	ec    *neotest.Contract // the same permissions on the entry-context contract E
}

func (c callerSpec) String() string {
	var s []string
	for _, p := range c.Perms {
		s = append(s, p.String())
	}
	return "{" + strings.Join(s, " + ") + "}"
}

// allCallers: no permission, every single permission, every ordered pair.
// Pairs with the same contract descriptor are not deployable (the manifest
// validity check rejects duplicates) and exist for the pure sub-check only.
func (pw *permWorld) allCallers() (all []callerSpec) {
	s := pw.singles()
	all = append(all, callerSpec{Perms: []permShape{}})
	for _, p := range s {
		all = append(all, callerSpec{Perms: []permShape{p}})
	}
	for _, p := range s {
		for _, q := range s {
			all = append(all, callerSpec{Perms: []permShape{p, q}})
		}
	}
	return
}

func deployable(c callerSpec) bool {
	return len(c.Perms) < 2 || c.Perms[0].Desc != c.Perms[1].Desc
}

// ---- sub-check -----------------------------------------------------------------------------

type permCase struct {
	Sub    string     `json:"sub"` // perm-pure | perm-real | perm-block
	Caller callerSpec `json:"caller"`
	Callee string     `json:"callee"`
	Groups []string   `json:"callee_groups"`
	Method string     `json:"method"`
	Safe   bool       `json:"method_safe"`
	Got    string     `json:"got"`
	Want   string     `json:"want"`
	Note   string     `json:"note,omitempty"`
}

type permStats struct {
	mu         sync.Mutex
	pure, real int64
	block      int64
	token      int64
	entry      int64
	names      int64 // real calls of the names family
	namesPure  int64 // pure evaluations of the names family
	rootCause  int64 // mismatches explained by the group kind skipping the method list
	witness    map[string]*permCase
	rootBySub  map[string]int
	allowed    int64
	denied     int64
	deployed   int
	other      map[string]int
}

func (ps *permStats) report(r *vk.Run, pc permCase, perms []permShape, c *callee) {
	ps.mu.Lock()
	defer ps.mu.Unlock()
	if pc.Got == "allowed" && pc.Want == "denied" && !strings.Contains(pc.Sub, "after-restart") && !strings.Contains(pc.Note, "stack item") && !strings.Contains(pc.Note, "StackItem") && (pc.Sub == "perm-pure" || ps.rootBySub["perm-pure"] > 0) && groupRootCause(perms, c, pc.Method) {
		ps.rootCause++
		ps.rootBySub[pc.Sub]++
		// keep the simplest witness of each sub-check: fewest permissions, earliest
		if w := ps.witness[pc.Sub]; w == nil || len(pc.Caller.Perms) < len(w.Caller.Perms) || (len(pc.Caller.Perms) == len(w.Caller.Perms) && pc.Caller.String()+pc.Callee+pc.Method < w.Caller.String()+w.Callee+w.Method) {
			cp := pc
			ps.witness[pc.Sub] = &cp
		}
		r.Outcome("perm:" + pc.Sub + ":group-permission-allowed-unlisted-method")
		return
	}
	k := fmt.Sprintf("permission:%s:%s->%s.%s:%s-but-predicate-%s", pc.Sub, pc.Caller.String(), pc.Callee, pc.Method, pc.Got, pc.Want)
	cls := pc.Sub + ":" + pc.Got
	ps.other[cls]++
	if ps.other[cls] <= 3 {
		r.Violation(k, pc)
	}
}

// pure: Permission.IsAllowed and Manifest.CanCall over the full product.
func (pw *permWorld) pure(r *vk.Run, ps *permStats) {
	for _, cs := range pw.allCallers() {
		m := manifest.NewManifest("caller")
		m.Permissions = pw.realPerms(cs.Perms)
		// a second copy that went through JSON, as a deployed manifest does
		var m2 manifest.Manifest
		b, _ := json.Marshal(m)
		if err := json.Unmarshal(b, &m2); err != nil {
			r.Violation("permission:perm-pure:manifest-json-roundtrip:"+cs.String(), err.Error())
			continue
		}
		// copies that went through the stored form (what a restarted node loads)
		m3, m4 := new(manifest.Manifest), manifest.Manifest{}
		bad := false
		for k, pair := range [][2]*manifest.Manifest{{m, m3}, {&m2, &m4}} {
			it, err := pair[0].ToStackItem()
			if err == nil {
				err = pair[1].FromStackItem(it)
			}
			if err != nil {
				r.Violation(fmt.Sprintf("permission:perm-pure:manifest-stackitem-roundtrip-%d:%s", k, cs.String()), err.Error())
				bad = true
			}
		}
		if bad {
			continue
		}
		for _, c := range pw.callees {
			for _, md := range c.Methods {
				want := allowedBy(cs.Perms, c, md.Name)
				for i, mm := range []*manifest.Manifest{m, &m2, m3, &m4} {
					got := mm.CanCall(c.Hash, c.Mf, md.Name)
					ps.mu.Lock()
					ps.pure++
					ps.mu.Unlock()
					if got != want {
						ps.report(r, permCase{Sub: "perm-pure", Caller: cs, Callee: c.Name, Groups: c.Groups, Method: md.Name, Safe: md.Safe,
							Got: verdict(got), Want: verdict(want), Note: "Manifest.CanCall on " + []string{"the built manifest", "its JSON round trip", "its stack item round trip", "JSON then stack item round trip"}[i]}, cs.Perms, c)
					} else {
						r.Outcome("perm-pure:" + verdict(got))
					}
				}
				if len(cs.Perms) == 1 {
					p := pw.realPerm(cs.Perms[0])
					got := p.IsAllowed(c.Hash, c.Mf, md.Name)
					var p2 manifest.Permission
					if err := p2.FromStackItem(p.ToStackItem()); err != nil || p2.IsAllowed(c.Hash, c.Mf, md.Name) != want {
						ps.report(r, permCase{Sub: "perm-pure", Caller: cs, Callee: c.Name, Groups: c.Groups, Method: md.Name, Safe: md.Safe,
							Got: verdict(!want), Want: verdict(want), Note: fmt.Sprintf("Permission.IsAllowed after ToStackItem/FromStackItem (err=%v)", err)}, cs.Perms, c)
					}
					ps.pure += 2
					if got != want {
						ps.report(r, permCase{Sub: "perm-pure", Caller: cs, Callee: c.Name, Groups: c.Groups, Method: md.Name, Safe: md.Safe,
							Got: verdict(got), Want: verdict(want), Note: "Permission.IsAllowed"}, cs.Perms, c)
					}
				}
			}
		}
	}
}

func verdict(b bool) string {
	if b {
		return "allowed"
	}
	return "denied"
}

// deploy deploys the callers (batches of transactions in blocks).
func (pw *permWorld) deploy(r *vk.Run, cs []callerSpec) ([]callerSpec, error) {
	var out []callerSpec
	sender := pw.n.Validator.ScriptHash()
	const batch = 25
	for i := 0; i < len(cs); i += batch {
		if r != nil && r.Expired() {
			break
		}
		var txs []*transaction.Transaction
		part := cs[i:min(i+batch, len(cs))]
		for j := range part {
			part[j].name = fmt.Sprintf("P%d", i+j)
			u, err := chainx.CompileU(chainx.UVariant{Name: part[j].name, Sender: sender, Permissions: pw.realPerms(part[j].Perms)})
			if err != nil {
				return nil, err
			}
			part[j].c = u
			tx, err := pw.n.DeployTx(u, pw.n.Validator, nil)
			if err != nil {
				return nil, fmt.Errorf("deploy tx %s: %w", part[j].String(), err)
			}
			txs = append(txs, tx)
		}
		if _, err := pw.n.AddBlock(txs...); err != nil {
			return nil, err
		}
		for j, tx := range txs {
			if err := pw.n.CheckHalt(tx.Hash()); err != nil {
				return nil, fmt.Errorf("deploy %s: %w", part[j].String(), err)
			}
		}
		out = append(out, part...)
	}
	return out, nil
}

// realCall performs entry(All) -> caller.run(All)[ call callee.method(All) ] in
// a test VM and classifies the result.
func (pw *permWorld) realCall(cs callerSpec, c *callee, md calleeMethod) (string, *effects) {
	prog := []any{[]any{chainx.OpCall, c.Hash.BytesBE(), md.Name, 15, md.Args(cs.c.Hash)}}
	e := pw.run(callScript(cs.c.Hash, "run", 15, prog), fAll)
	switch {
	case e.State == "HALT":
		return "allowed", e
	case e.State == "FAULT" && strings.Contains(e.Fault, "disallowed method call"):
		return "denied", e
	}
	return "error", e
}

func manifestOf(pw *permWorld, cs callerSpec) *manifest.Manifest {
	m := manifest.NewManifest("caller")
	m.Permissions = pw.realPerms(cs.Perms)
	return m
}

// permTokens: one token (all flags) per callee method, in the order of the matrix.
func (pw *permWorld) permTokens() []tokSpec {
	var out []tokSpec
	for _, c := range pw.callees {
		for _, md := range c.Methods {
			out = append(out, tokSpec{Name: fmt.Sprintf("c%d", len(out)), Hash: c.Hash, Method: md.Name, NParam: len(md.Args(util.Uint160{})), Ret: true, Flags: callflag.All})
		}
	}
	return out
}

// deployTokenCallers deploys, for every given caller, a contract with the same
// permissions whose methods reach the callees through CALLT.
func (pw *permWorld) deployTokenCallers(cs []callerSpec) error {
	sender := pw.n.Validator.ScriptHash()
	toks := pw.permTokens()
	const batch = 25
	for i := 0; i < len(cs); i += batch {
		var txs []*transaction.Transaction
		part := cs[i:min(i+batch, len(cs))]
		for j := range part {
			t, err := buildTokenContract(fmt.Sprintf("TP%d", i+j), sender, pw.realPerms(part[j].Perms), toks)
			if err != nil {
				return err
			}
			part[j].tc = t
			tx, err := pw.n.DeployTx(t, pw.n.Validator, nil)
			if err != nil {
				return fmt.Errorf("deploy tx of token caller %s: %w", part[j].String(), err)
			}
			txs = append(txs, tx)
		}
		if _, err := pw.n.AddBlock(txs...); err != nil {
			return err
		}
		for j, tx := range txs {
			if err := pw.n.CheckHalt(tx.Hash()); err != nil {
				return fmt.Errorf("deploy token caller %s: %w", part[j].String(), err)
			}
		}
	}
	return nil
}

// tokenCall performs entry(All) -> tokenCaller.c<i>(All) -> CALLT -> callee.method.
func (pw *permWorld) tokenCall(cs callerSpec, tok int, md calleeMethod) (string, *effects) {
	e := pw.run(callScript(cs.tc.Hash, fmt.Sprintf("c%d", tok), 15, md.Args(cs.tc.Hash)...), fAll)
	switch {
	case e.State == "HALT":
		return "allowed", e
	case e.State == "FAULT" && strings.Contains(e.Fault, "disallowed method call"):
		return "denied", e
	}
	return "error", e
}
