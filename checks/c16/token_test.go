package c16

import (
	"fmt"

	"github.com/nspcc-dev/neo-go/pkg/core/state"
	"github.com/nspcc-dev/neo-go/pkg/neotest"
	"github.com/nspcc-dev/neo-go/pkg/smartcontract"
	"github.com/nspcc-dev/neo-go/pkg/smartcontract/callflag"
	"github.com/nspcc-dev/neo-go/pkg/smartcontract/manifest"
	"github.com/nspcc-dev/neo-go/pkg/smartcontract/nef"
	"github.com/nspcc-dev/neo-go/pkg/util"
	"github.com/nspcc-dev/neo-go/pkg/vm/opcode"
)

// tokSpec is one NEF method token and the name of the method that uses it
// (body: CALLT <token>; RET - the second way, besides System.Contract.Call,
// to call a contract method).
type tokSpec struct {
	Name   string // method of the token contract
	Hash   util.Uint160
	Method string
	NParam int
	Ret    bool
	Flags  callflag.CallFlag
}

// buildTokenContract assembles a contract with one method per token.
func buildTokenContract(name string, sender util.Uint160, perms []manifest.Permission, toks []tokSpec) (*neotest.Contract, error) {
	var script []byte
	m := manifest.DefaultManifest(name)
	if perms != nil {
		m.Permissions = perms
	}
	var tokens []nef.MethodToken
	for i, t := range toks {
		md := manifest.Method{Name: t.Name, Offset: len(script), ReturnType: smartcontract.VoidType, Parameters: []manifest.Parameter{}}
		if t.Ret {
			md.ReturnType = smartcontract.AnyType
		}
		for p := 0; p < t.NParam; p++ {
			md.Parameters = append(md.Parameters, manifest.NewParameter(fmt.Sprintf("a%d", p), smartcontract.AnyType))
		}
		m.ABI.Methods = append(m.ABI.Methods, md)
		script = append(script, byte(opcode.CALLT), byte(i), byte(i>>8), byte(opcode.RET))
		tokens = append(tokens, nef.MethodToken{Hash: t.Hash, Method: t.Method, ParamCount: uint16(t.NParam), HasReturn: t.Ret, CallFlag: t.Flags})
	}
	ne, err := nef.NewFile(script)
	if err != nil {
		return nil, err
	}
	ne.Tokens = tokens
	ne.Checksum = ne.CalculateChecksum()
	return &neotest.Contract{Hash: state.CreateContractHash(sender, ne.Checksum, m.Name), NEF: ne, Manifest: m}, nil
}

// tokenFamilies of the flags/safe/chain sub-checks: for each target method one
// token per flag set; the method using token flags f is named <family><f>.
func flagTokens(ua, gas util.Uint160) []tokSpec {
	var out []tokSpec
	for _, fam := range []struct {
		name   string
		h      util.Uint160
		method string
	}{{"UArun", ua, "run"}, {"UArunSafe", ua, "runSafe"}, {"GASbalanceOf", gas, "balanceOf"}} {
		for f := 0; f < 16; f++ {
			out = append(out, tokSpec{Name: fmt.Sprintf("%s%d", fam.name, f), Hash: fam.h, Method: fam.method, NParam: 1, Ret: true, Flags: callflag.CallFlag(f)})
		}
	}
	return out
}
