package c16

import (
	"encoding/json"
	"fmt"

	"github.com/nspcc-dev/neo-go/pkg/config"
	"github.com/nspcc-dev/neo-go/pkg/core/interop"
	"github.com/nspcc-dev/neo-go/pkg/core/native/nativehashes"
	"github.com/nspcc-dev/neo-go/pkg/core/native/noderoles"
	"github.com/nspcc-dev/neo-go/pkg/core/state"
	"github.com/nspcc-dev/neo-go/pkg/core/transaction"
	"github.com/nspcc-dev/neo-go/pkg/io"
	"github.com/nspcc-dev/neo-go/pkg/neotest"
	"github.com/nspcc-dev/neo-go/pkg/smartcontract"
	"github.com/nspcc-dev/neo-go/pkg/smartcontract/callflag"
	"github.com/nspcc-dev/neo-go/pkg/smartcontract/manifest"
	"github.com/nspcc-dev/neo-go/pkg/smartcontract/nef"
	"github.com/nspcc-dev/neo-go/pkg/smartcontract/trigger"
	"github.com/nspcc-dev/neo-go/pkg/util"
	"github.com/nspcc-dev/neo-go/pkg/vm/emit"
	"github.com/nspcc-dev/neo-go/pkg/vm/opcode"

	"verif/lib/chainx"
)

const gas = 100000000

// allHF enables every known hardfork from genesis, so that every system call
// and every native method of the tree exists.
func allHF(c *config.Blockchain) {
	c.Hardforks = map[string]uint32{}
	for _, hf := range config.Hardforks {
		c.Hardforks[hf.String()] = 0
	}
}

// world is the prepared chain of the flag sub-checks.
type world struct {
	runner
	cw       *chainx.World
	UA, UB   util.Uint160
	T        *neotest.Contract // token contract: CALLT into UA.run / UA.runSafe / GAS.balanceOf with every flag set
	R        *neotest.Contract
	VF       *neotest.Contract // verify(op,a,b) / do / doSafe: raw operations under the Verification trigger (ext_ctx_test.go)
	rMethods []rMethod
	txHash   util.Uint256 // an on-chain transaction
	blkHash  util.Uint256 // an on-chain block
	natives  []state.Contract
	declared map[string]callflag.CallFlag // "Contract.method/n" -> RequiredFlags (reporting only, never the oracle)
	syscalls map[string]callflag.CallFlag // name -> RequiredFlags (reporting only)
	nefBytes []byte                       // NEF of U
	mfNew    []byte                       // manifest of a not yet deployed U instance "UD"
	mfUA     []byte                       // manifest of UA (for update)
	nefD     []byte                       // NEF of a tiny contract with a _deploy method
	mfNewD   []byte                       // its manifest under a new name
	mfUAD    []byte                       // its manifest under UA's name (UA updating itself to it)
	menus    map[smartcontract.ParamType][]argv
}

// ---- raw contract R: one method per system call ------------------------------------

// rMethod is one hand-assembled method of R.
type rMethod struct {
	Name    string
	NParams int
	Ret     bool
	Sys     []string // system calls the body issues, in order; the LAST one is the operation under test
	Variant bool     // a second way to reach the same system call (own row in the completeness table)
	body    []byte
	off     int
}

func sysBody(pre []opcode.Opcode, calls ...string) []byte {
	w := io.NewBufBinWriter()
	emit.Opcodes(w.BinWriter, pre...)
	for _, c := range calls {
		emit.Syscall(w.BinWriter, c)
	}
	emit.Opcodes(w.BinWriter, opcode.RET)
	return w.Bytes()
}

func rawMethods() []rMethod {
	const (
		getCtx = "System.Storage.GetContext"
		getRO  = "System.Storage.GetReadOnlyContext"
	)
	m := func(name string, np int, ret bool, pre []opcode.Opcode, calls ...string) rMethod {
		return rMethod{Name: name, NParams: np, Ret: ret, Sys: calls, body: sysBody(pre, calls...)}
	}
	ms := []rMethod{
		m("contractCall", 4, true, nil, "System.Contract.Call"),
		m("callNative", 1, false, nil, "System.Contract.CallNative"),
		m("createMultisig", 2, true, nil, "System.Contract.CreateMultisigAccount"),
		m("createStandard", 1, true, nil, "System.Contract.CreateStandardAccount"),
		m("getCallFlags", 0, true, nil, "System.Contract.GetCallFlags"),
		m("nativeOnPersist", 0, false, nil, "System.Contract.NativeOnPersist"),
		m("nativePostPersist", 0, false, nil, "System.Contract.NativePostPersist"),
		m("checkMultisig", 2, true, nil, "System.Crypto.CheckMultisig"),
		m("checkSig", 2, true, nil, "System.Crypto.CheckSig"),
		// iterNext(prefix): Find(roctx, prefix, 0) then Next
		m("iterNext", 1, true, []opcode.Opcode{opcode.PUSH0, opcode.SWAP}, getRO, "System.Storage.Find", "System.Iterator.Next"),
		m("burnGas", 1, false, nil, "System.Runtime.BurnGas"),
		m("checkWitness", 1, true, nil, "System.Runtime.CheckWitness"),
		m("currentSigners", 0, true, nil, "System.Runtime.CurrentSigners"),
		m("gasLeft", 0, true, nil, "System.Runtime.GasLeft"),
		m("addressVersion", 0, true, nil, "System.Runtime.GetAddressVersion"),
		m("callingHash", 0, true, nil, "System.Runtime.GetCallingScriptHash"),
		m("entryHash", 0, true, nil, "System.Runtime.GetEntryScriptHash"),
		m("executingHash", 0, true, nil, "System.Runtime.GetExecutingScriptHash"),
		m("invocationCounter", 0, true, nil, "System.Runtime.GetInvocationCounter"),
		m("network", 0, true, nil, "System.Runtime.GetNetwork"),
		m("getNotifications", 1, true, nil, "System.Runtime.GetNotifications"),
		m("random", 0, true, nil, "System.Runtime.GetRandom"),
		m("scriptContainer", 0, true, nil, "System.Runtime.GetScriptContainer"),
		m("time", 0, true, nil, "System.Runtime.GetTime"),
		m("trigger", 0, true, nil, "System.Runtime.GetTrigger"),
		m("loadScript", 3, true, nil, "System.Runtime.LoadScript"),
		m("log", 1, false, nil, "System.Runtime.Log"),
		m("notify", 2, false, nil, "System.Runtime.Notify"),
		m("platform", 0, true, nil, "System.Runtime.Platform"),
		m("storageDelete", 1, false, nil, getCtx, "System.Storage.Delete"),
		m("storageFind", 2, true, nil, getRO, "System.Storage.Find"),
		m("storageGet", 1, true, nil, getRO, "System.Storage.Get"),
		m("getContext", 0, true, nil, getCtx),
		m("getReadOnlyContext", 0, true, nil, getRO),
		m("storagePut", 2, false, nil, getCtx, "System.Storage.Put"),
		m("asReadOnly", 0, true, nil, getCtx, "System.Storage.AsReadOnly"),
		m("localGet", 1, true, nil, "System.Storage.Local.Get"),
		m("localFind", 2, true, nil, "System.Storage.Local.Find"),
		m("localPut", 2, false, nil, "System.Storage.Local.Put"),
		m("localDelete", 1, false, nil, "System.Storage.Local.Delete"),
		// must never work whatever the flags: writes through read-only contexts
		m("putViaReadOnly", 2, false, nil, getRO, "System.Storage.Put"),
		m("putViaAsReadOnly", 2, false, nil, getCtx, "System.Storage.AsReadOnly", "System.Storage.Put"),
		m("deleteViaReadOnly", 1, false, nil, getRO, "System.Storage.Delete"),
	}
	for i := range ms {
		if n := ms[i].Name; n == "putViaReadOnly" || n == "putViaAsReadOnly" || n == "deleteViaReadOnly" {
			ms[i].Variant = true
		}
	}
	// iterValue(prefix): Find, DUP, Next, DROP, Value
	{
		w := io.NewBufBinWriter()
		emit.Opcodes(w.BinWriter, opcode.PUSH0, opcode.SWAP)
		emit.Syscall(w.BinWriter, getRO)
		emit.Syscall(w.BinWriter, "System.Storage.Find")
		emit.Opcodes(w.BinWriter, opcode.DUP)
		emit.Syscall(w.BinWriter, "System.Iterator.Next")
		emit.Opcodes(w.BinWriter, opcode.DROP)
		emit.Syscall(w.BinWriter, "System.Iterator.Value")
		emit.Opcodes(w.BinWriter, opcode.RET)
		ms = append(ms, rMethod{Name: "iterValue", NParams: 1, Ret: true, Sys: []string{getRO, "System.Storage.Find", "System.Iterator.Next", "System.Iterator.Value"}, body: w.Bytes()})
	}
	// method tokens (CALLT): token 0 = UB.run (all flags), token 1 = UB.other, token 2 = GAS.transfer
	for i, name := range []string{"tokenRun", "tokenOther", "tokenGasTransfer"} {
		np := []int{1, 1, 4}[i]
		ms = append(ms, rMethod{Name: name, NParams: np, Ret: true, Sys: []string{"CALLT"}, Variant: true, body: []byte{byte(opcode.CALLT), byte(i), 0, byte(opcode.RET)}})
	}
	// helpers: oracle callback, NEP-17 receiver
	ms = append(ms, rMethod{Name: "cb", NParams: 4, Ret: false, body: []byte{byte(opcode.DROP), byte(opcode.DROP), byte(opcode.DROP), byte(opcode.DROP), byte(opcode.RET)}})
	ms = append(ms, rMethod{Name: "onNEP17Payment", NParams: 3, Ret: false, body: []byte{byte(opcode.DROP), byte(opcode.DROP), byte(opcode.DROP), byte(opcode.RET)}})
	return ms
}

func buildR(sender, ub util.Uint160) (*neotest.Contract, []rMethod, error) {
	ms := rawMethods()
	var script []byte
	m := manifest.DefaultManifest("R")
	for i := range ms {
		ms[i].off = len(script)
		script = append(script, ms[i].body...)
		md := manifest.Method{Name: ms[i].Name, Offset: ms[i].off, ReturnType: smartcontract.VoidType, Parameters: []manifest.Parameter{}}
		if ms[i].Ret {
			md.ReturnType = smartcontract.AnyType
		}
		for p := 0; p < ms[i].NParams; p++ {
			md.Parameters = append(md.Parameters, manifest.NewParameter(fmt.Sprintf("a%d", p), smartcontract.AnyType))
		}
		m.ABI.Methods = append(m.ABI.Methods, md)
	}
	m.ABI.Events = []manifest.Event{{Name: "ev", Parameters: []manifest.Parameter{manifest.NewParameter("n", smartcontract.AnyType)}}}
	ne, err := nef.NewFile(script)
	if err != nil {
		return nil, nil, err
	}
	ne.Tokens = []nef.MethodToken{
		{Hash: ub, Method: "run", ParamCount: 1, HasReturn: true, CallFlag: callflag.All},
		{Hash: ub, Method: "other", ParamCount: 1, HasReturn: true, CallFlag: callflag.All},
		{Hash: nativehashes.GasToken, Method: "transfer", ParamCount: 4, HasReturn: true, CallFlag: callflag.All},
	}
	ne.Checksum = ne.CalculateChecksum()
	return &neotest.Contract{Hash: state.CreateContractHash(sender, ne.Checksum, m.Name), NEF: ne, Manifest: m}, ms, nil
}

// ---- preparation ----------------------------------------------------------------------

func (w *world) block(txs ...*transaction.Transaction) error {
	if _, err := w.n.AddBlock(txs...); err != nil {
		return err
	}
	for _, tx := range txs {
		if err := w.n.CheckHalt(tx.Hash()); err != nil {
			return err
		}
	}
	return nil
}

func newWorld() (*world, error) {
	n, err := chainx.New(chainx.Opts{Proto: allHF})
	if err != nil {
		return nil, err
	}
	cw, err := chainx.BuildPreamble(n, 0)
	if err != nil {
		n.Close()
		return nil, err
	}
	w := &world{runner: runner{n: n}, cw: cw, UA: cw.UA.Hash, UB: cw.UB.Hash, menus: map[smartcontract.ParamType][]argv{}}
	fail := func(what string, err error) (*world, error) {
		n.Close()
		return nil, fmt.Errorf("%s: %w", what, err)
	}
	w.txHash = cw.Preamble[0].Transactions[0].Hash()
	w.blkHash = cw.Preamble[0].Hash()
	val := []neotest.Signer{n.Validator}
	com := []neotest.Signer{n.Committee}
	s := func(i int) []neotest.Signer { return []neotest.Signer{chainx.Signer(i)} }
	neo, gasH, pol := nativehashes.NeoToken, nativehashes.GasToken, nativehashes.PolicyContract

	// block 1: R
	if w.R, w.rMethods, err = buildR(n.Validator.ScriptHash(), w.UB); err != nil {
		return fail("build R", err)
	}
	d, err := n.DeployTx(w.R, n.Validator, nil)
	if err != nil {
		return fail("deploy R tx", err)
	}
	if w.T, err = buildTokenContract("T", n.Validator.ScriptHash(), nil, flagTokens(w.UA, nativehashes.GasToken)); err != nil {
		return fail("build T", err)
	}
	dt, err := n.DeployTx(w.T, n.Validator, nil)
	if err != nil {
		return fail("deploy T tx", err)
	}
	if w.VF, err = buildVF(n.Validator.ScriptHash(), w.UB); err != nil {
		return fail("build VF", err)
	}
	dv, err := n.DeployTx(w.VF, n.Validator, nil)
	if err != nil {
		return fail("deploy VF tx", err)
	}
	if err := w.block(d, dt, dv); err != nil {
		return fail("deploy R, T, VF", err)
	}
	// block 2: state that lets every native method succeed for some arguments
	var txs []*transaction.Transaction
	add := func(tx *transaction.Transaction, e error) {
		if e != nil && err == nil {
			err = e
		}
		txs = append(txs, tx)
	}
	h := n.Height() + 1 // index of the block being built
	add(n.CallTx(s(1), gasH, "transfer", chainx.Acc(1).ScriptHash(), w.UA, int64(100*gas), nil))
	add(n.CallTx(s(1), neo, "transfer", chainx.Acc(1).ScriptHash(), w.UA, int64(100), nil))
	add(n.CallTx(s(1), gasH, "transfer", chainx.Acc(1).ScriptHash(), w.R.Hash, int64(100*gas), nil))
	add(n.CallTx(com, pol, "blockAccount", chainx.Acc(5).ScriptHash()))
	add(n.CallTx(com, pol, "setWhitelistFeeContract", w.UB, "other", int64(1), int64(0)))
	add(n.CallTx(com, nativehashes.RoleManagement, "designateAsRole", int64(noderoles.Oracle), []any{chainx.Acc(3).PublicKey().Bytes()}))
	add(n.CallTx(com, nativehashes.RoleManagement, "designateAsRole", int64(noderoles.P2PNotary), []any{chainx.Acc(4).PublicKey().Bytes()}))
	add(n.CallTx(s(1), gasH, "transfer", chainx.Acc(1).ScriptHash(), nativehashes.Notary, int64(20*gas), []any{nil, int64(h + 50)}))
	add(n.CallTx(s(2), gasH, "transfer", chainx.Acc(2).ScriptHash(), nativehashes.Notary, int64(20*gas), []any{nil, int64(h + 1)}))
	add(n.CallTx(s(1), w.R.Hash, "contractCall", nativehashes.OracleContract, "request", int64(callflag.All), []any{"https://x.y/z", nil, "cb", nil, int64(gas)}))
	add(n.CallTx(val, w.UB, "run", []any{[]any{chainx.OpPut, []byte("a"), []byte("1")}, []any{chainx.OpPut, []byte("k"), []byte("v")}}))
	add(n.CallTx(val, w.R.Hash, "storagePut", []byte("a"), []byte("1")))
	add(n.CallTx(val, w.R.Hash, "storagePut", []byte("ab"), []byte("2")))
	if err != nil {
		return fail("setup txs", err)
	}
	if err := w.block(txs...); err != nil {
		return fail("setup block", err)
	}
	// the short notary deposit expires
	for i := 0; i < 2; i++ {
		if err := w.block(); err != nil {
			return fail("empty block", err)
		}
	}
	w.oracleReq = 0
	w.signers = []transaction.Signer{{Account: n.Validator.ScriptHash(), Scopes: transaction.Global}}
	if n.Committee.ScriptHash() != n.Validator.ScriptHash() {
		w.signers = append(w.signers, transaction.Signer{Account: n.Committee.ScriptHash(), Scopes: transaction.Global})
	}
	for i := 1; i <= 5; i++ {
		w.signers = append(w.signers, transaction.Signer{Account: chainx.Acc(i).ScriptHash(), Scopes: transaction.Global})
	}
	w.natives = n.BC.GetNatives()
	// declared flags, for the completeness report only
	ic, err := n.BC.GetTestVM(trigger.Application, nil, nil)
	if err != nil {
		return fail("test vm", err)
	}
	w.declared = map[string]callflag.CallFlag{}
	w.syscalls = map[string]callflag.CallFlag{}
	for _, f := range ic.Functions {
		w.syscalls[f.Name] = f.RequiredFlags
	}
	last := config.HFLatestKnown
	for _, c := range ic.Natives {
		md := nativeMD(c, &last)
		if md == nil {
			continue
		}
		for _, m := range md.Methods {
			w.declared[fmt.Sprintf("%s.%s/%d", md.Manifest.Name, m.MD.Name, len(m.MD.Parameters))] = m.RequiredFlags
		}
	}
	// deployment material
	if w.nefBytes, err = cw.UA.NEF.Bytes(); err != nil {
		return fail("nef", err)
	}
	ud, err := chainx.CompileU(chainx.UVariant{Name: "UD", Sender: n.Validator.ScriptHash()})
	if err != nil {
		return fail("UD", err)
	}
	if w.mfNew, err = json.Marshal(ud.Manifest); err != nil {
		return fail("UD manifest", err)
	}
	if w.mfUA, err = json.Marshal(cw.UA.Manifest); err != nil {
		return fail("UA manifest", err)
	}
	// D: a contract whose deployment/update makes the ledger call its _deploy
	dScript := []byte{byte(opcode.DROP), byte(opcode.DROP), byte(opcode.RET), byte(opcode.PUSH1), byte(opcode.RET)}
	dn, err := nef.NewFile(dScript)
	if err != nil {
		return fail("D nef", err)
	}
	if w.nefD, err = dn.Bytes(); err != nil {
		return fail("D nef", err)
	}
	for i, name := range []string{"D", "UA"} {
		m := manifest.DefaultManifest(name)
		m.ABI.Methods = []manifest.Method{
			{Name: "_deploy", Offset: 0, ReturnType: smartcontract.VoidType, Parameters: []manifest.Parameter{manifest.NewParameter("data", smartcontract.AnyType), manifest.NewParameter("isUpdate", smartcontract.BoolType)}},
			{Name: "x", Offset: 3, ReturnType: smartcontract.IntegerType, Parameters: []manifest.Parameter{}},
		}
		b, err := json.Marshal(m)
		if err != nil {
			return fail("D manifest", err)
		}
		if i == 0 {
			w.mfNewD = b
		} else {
			w.mfUAD = b
		}
	}
	return w, nil
}

func nativeMD(c interop.Contract, hf *config.Hardfork) (md *interop.HFSpecificContractMD) {
	defer func() {
		if recover() != nil {
			md = nil
		}
	}()
	return c.Metadata().HFSpecificContractMD(hf)
}
