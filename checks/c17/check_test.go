// C17: wire formats round-trip, identity depends only on content
// (DESIGN.md section 4, C17). Level: exploration, exhaustive over the stated
// finite input sets.
//
// Phase A (in process): every value of every shape generator through
//
//	encode/decode/JSON/size/hash (O-rt).
//
// Phase B (in process): path independence of transaction and block identity.
// Phase C (isolated worker processes, one per codec shard): decoder robustness
//
//	over all short strings and all mutants of every seed encoding. Workers are
//	separate processes because a decoder that loops, exhausts memory or
//	overflows the stack cannot be stopped or survived inside the process; the
//	parent attributes such a death to the input the worker had announced in a
//	shared marker file, records the violation and restarts the worker behind it.
//
// Extension phases (files ext_*_test.go):
// registry completeness scan (check error if a type with a decoder is unknown),
// E cross-format agreement at limits (binary / JSON / stack item forms),
// F structural mutants of the JSON form, G arrival paths of headers,
// extensible payloads and notary requests plus the compression threshold;
// ext_types_test.go adds the types that were not registered and values with
// every count / length field on the var-int boundaries (phase A, size oracle).
// Phase C additionally sends every value a binary decoder accepts through the
// JSON form and compares its reported size with the length of its encoding.
package c17

import (
	"bytes"
	"encoding/binary"
	"encoding/json"
	"fmt"
	"hash/fnv"
	"os"
	"os/exec"
	"path/filepath"
	"runtime"
	"runtime/debug"
	"runtime/metrics"
	"runtime/pprof"
	"sort"
	"strconv"
	"strings"
	"sync"
	"syscall"
	"testing"
	"time"

	"verif/lib/vk"
)

func registry() []*codec {
	out := registryAll()
	// development aid: C17_ONLY=substr,substr restricts the run to matching codecs
	if only := os.Getenv("C17_ONLY"); only != "" {
		var sel []*codec
		for _, c := range out {
			for _, s := range strings.Split(only, ",") {
				if strings.Contains(c.name, s) {
					sel = append(sel, c)
					break
				}
			}
		}
		return sel
	}
	return out
}

func registryAll() []*codec {
	var out []*codec
	out = append(out, ioCodecs()...)
	out = append(out, keyCodecs()...)
	out = append(out, txCodecs()...)
	out = append(out, blockCodecs()...)
	out = append(out, payloadCodecs()...)
	out = append(out, messageCodecs()...)
	out = append(out, consensusCodecs()...)
	out = append(out, stateRootCodecs()...)
	out = append(out, itemCodecs()...)
	out = append(out, stateCodecs()...)
	out = append(out, mptCodecs()...)
	out = append(out, nefCodecs()...)
	out = append(out, manifestCodecs()...)
	out = append(out, extraCodecs()...)
	// values with count / length fields on the var-int boundaries, appended to
	// the generators (existing value indices stay)
	extras := boundaryExtras()
	for _, c := range out {
		if ex := extras[c.name]; ex != nil {
			g := c.gen
			c.gen = func(th bool) []any { return append(g(th), ex(th)...) }
			delete(extras, c.name)
		}
	}
	for n := range extras {
		panic("boundaryExtras: no codec " + n)
	}
	// the JSON decoders of the same types
	for _, c := range out {
		if c.jenc != nil && c.jdec != nil {
			out = append(out, jsonCodecOf(c))
		}
	}
	return out
}

// finding is a violation candidate and at the same time the replay record.
type finding struct {
	Key    string `json:"key"`
	Mode   string `json:"mode"` // value | input | path | fatal | hang
	Codec  string `json:"codec"`
	Kind   string `json:"kind,omitempty"`   // mutation kind
	Oracle string `json:"oracle,omitempty"` // which oracle fired
	Label  string `json:"label,omitempty"`  // field of the mutated offset
	Input  string `json:"input_hex,omitempty"`
	Seed   string `json:"seed_hex,omitempty"`
	Value  int    `json:"value_index,omitempty"`
	Offset int    `json:"offset,omitempty"`
	Detail string `json:"detail,omitempty"`
	Pkg    string `json:"package,omitempty"`
}

func (f finding) String() string {
	b, _ := json.Marshal(f)
	return string(b)
}

func clip(b []byte) string {
	if len(b) > 4096 {
		return hx(b[:4096]) + fmt.Sprintf("...(%d bytes)", len(b))
	}
	return hx(b)
}

// panicSite names the innermost neo-go frame of a recovered panic, followed by
// its caller if that is in another package (one key per faulty call site).
func panicSite(st string) string {
	var fr []string
	for _, l := range strings.Split(st, "\n") {
		if strings.HasPrefix(l, "\t") || !strings.Contains(l, "neo-go/pkg/") {
			continue
		}
		l = l[strings.Index(l, "neo-go/pkg/")+len("neo-go/pkg/"):]
		if i := strings.LastIndex(l, "("); i > 0 {
			l = l[:i]
		}
		if i := strings.LastIndex(l, "/"); i >= 0 {
			l = l[i+1:]
		}
		pkgOf := func(s string) string { return s[:strings.Index(s+".", ".")] }
		if len(fr) == 1 {
			if pkgOf(l) == pkgOf(fr[0]) {
				break
			}
			fr = append(fr, l)
			break
		}
		fr = append(fr, l)
	}
	return strings.Join(fr, "<-")
}

// guard runs f and converts a panic into an error text.
func guard(f func()) (pan string) {
	defer func() {
		if r := recover(); r != nil {
			st := string(debug.Stack())
			// keep the frames below the panic
			if i := strings.Index(st, "panic("); i >= 0 {
				st = st[i:]
			}
			pan = fmt.Sprintf("[%s] %v | %s", panicSite(st), r, short(st, 600))
		}
	}()
	f()
	return ""
}

// ---- O-rt on generated values ----------------------------------------------------

func (c *codec) canonOf(v any) ([]byte, error) {
	if c.canon != nil {
		return c.canon(v)
	}
	return c.enc(v)
}

func (c *codec) checkValue(v any, idx int) []finding {
	var out []finding
	bad := func(oracle, detail string, b []byte) {
		out = append(out, finding{Key: fmt.Sprintf("value:%s:%s", oracle, c.name), Mode: "value", Codec: c.name, Oracle: oracle, Value: idx,
			Input: clip(b), Detail: short(detail, 500), Pkg: c.pkg})
	}
	var b []byte
	if p := guard(func() {
		var err error
		b, err = c.enc(v)
		if err != nil {
			bad("encode-fails", err.Error(), nil)
			b = nil
			return
		}
		v1, err := c.dec(b)
		if err != nil {
			bad("decode-of-own-encoding-fails", err.Error(), b)
			return
		}
		b1, err := c.canonOf(v1)
		if err != nil {
			bad("re-encode-fails", err.Error(), b)
			return
		}
		cb, err := c.canonOf(v)
		if err != nil {
			bad("encode-fails", err.Error(), b)
			return
		}
		if !c.noBytes && !bytes.Equal(cb, b1) {
			bad("re-encoding-differs", "re-encoded: "+clip(b1), b)
		}
		if !c.noDeep {
			if ok, path := semEqual(v, v1); !ok {
				bad("decoded-value-differs", "first difference at "+path, b)
			}
		}
		if c.size != nil {
			if s := c.size(v); s >= 0 && s != len(cb)+c.sizeAdj {
				bad("size-differs-from-encoding", fmt.Sprintf("reported size %d, encoding is %d bytes (expected size %d)", s, len(cb), len(cb)+c.sizeAdj), b)
			}
			if s := c.size(v1); s >= 0 && s != len(cb)+c.sizeAdj {
				bad("size-differs-from-encoding", fmt.Sprintf("reported size %d, encoding is %d bytes (expected size %d)", s, len(cb), len(cb)+c.sizeAdj), b)
			}
		}
		if c.hash != nil {
			if h, h1 := c.hash(v), c.hash(v1); h != h1 {
				bad("hash-changes-over-round-trip", h+" vs "+h1, b)
			}
		}
		if c.jenc != nil {
			j, err := c.jenc(v)
			if err == errNoJSON {
				return
			}
			if err != nil {
				bad("json-encode-fails", err.Error(), b)
				return
			}
			vj, err := c.jdec(j)
			if err != nil {
				bad("json-decode-of-own-encoding-fails", err.Error()+" json: "+short(string(j), 300), b)
				return
			}
			bj, err := c.canonOf(vj)
			if err != nil {
				bad("encode-after-json-fails", err.Error(), b)
				return
			}
			if !c.noBytes && !bytes.Equal(bj, cb) {
				bad("binary-differs-after-json-round-trip", "json: "+short(string(j), 300)+" binary after: "+clip(bj), b)
			}
			if !c.noDeep {
				if ok, path := semEqual(v1, vj); !ok {
					// compare against the binary-decoded value: both come from decoders
					if ok2, _ := semEqual(v, vj); !ok2 {
						bad("json-decoded-value-differs", "first difference at "+path+" json: "+short(string(j), 300), b)
					}
				}
			}
			j2, err := c.jenc(vj)
			if err != nil {
				bad("json-re-encode-fails", err.Error(), b)
				return
			}
			if !bytes.Equal(j, j2) {
				bad("json-re-encoding-differs", short(string(j), 300)+" vs "+short(string(j2), 300), b)
			}
			if c.hash != nil {
				if h, h1 := c.hash(v), c.hash(vj); h != h1 {
					bad("hash-changes-over-json-round-trip", h+" vs "+h1, b)
				}
			}
		}
	}); p != "" {
		bad("panic", p, b)
		out[len(out)-1].Key = "panic:" + p[1:strings.Index(p, "]")]
	}
	return out
}

// ---- the oracle for one byte string fed to a decoder ------------------------------

var allocSample = []metrics.Sample{{Name: "/gc/heap/allocs:bytes"}}

func allocated() uint64 {
	metrics.Read(allocSample)
	return allocSample[0].Value.Uint64()
}

const (
	allocC1 = 64 << 20 // bytes a single decode may allocate regardless of input length
	allocC2 = 4096     // plus this many bytes per input byte
)

type inputCase struct {
	kind  string
	off   int
	seed  []byte
	input []byte
	// expect: "" none, "reject" documented limit exceeded, "accept" at the limit
	expect string
	name   string
	// big: the mutation introduces a 4- or 8-byte var-int prefix or a count >= 2^16
	big bool
	// alloc: bytes allocated by the first decode (set by evalInput)
	alloc uint64
}

// evalInput returns the outcome class, whether the input was accepted, and findings.
func (c *codec) evalInput(ic *inputCase) (string, bool, []finding) {
	var out []finding
	label := ""
	if c.label != nil && ic.seed != nil && ic.off >= 0 {
		label = c.label(ic.seed, ic.off)
	}
	bad := func(oracle, detail string) {
		// one key per site class: <class>:<oracle>:<codec>[:<field>]
		class, lb := "mutant", ""
		switch ic.kind {
		case "varint-nonminimal":
			class, lb = "nonminimal-varint", label
		case "subst":
			class, lb = "noncanonical-byte", label
		case "short", "seed":
			class = ic.kind
		case "limit":
			class, lb = "limit", ic.name
		}
		key := fmt.Sprintf("%s:%s", oracle, c.name)
		switch {
		case oracle == "allocation-over-ceiling":
			key = fmt.Sprintf("%s:%s", oracle, c.groupName())
		case oracle == "re-decoded-value-differs" && ownerOf(detail) != "":
			key = fmt.Sprintf("%s:%s", oracle, ownerOf(detail))
		case oracle == "panic":
			key = "panic:" + detail[1:strings.Index(detail, "]")]
			detail = "decoder " + c.name + ": " + detail
		case class == "limit":
			key = fmt.Sprintf("limit:%s:%s:%s", oracle, c.name, lb)
		case strings.HasPrefix(oracle, "cross-"):
			key = fmt.Sprintf("%s:%s", oracle, c.name)
			if o := ownerOf(detail); o != "" {
				key += ":" + o
			}
		case oracle == "size-differs-from-encoding":
			// one key per decoder and class of site: substitutions of a seed byte, everything else
			cl := "mutant"
			if ic.kind == "subst" {
				cl = "noncanonical-byte"
			}
			key = fmt.Sprintf("%s:%s:%s", cl, oracle, c.name)
		case oracle == "hash-differs" || oracle == "size-differs":
			key = fmt.Sprintf("%s:%s:%s", class, oracle, c.name)
			if lb != "" {
				key += ":" + lb
			}
		}
		out = append(out, finding{Key: key, Mode: "input", Codec: c.name, Kind: ic.kind, Oracle: oracle, Label: label, Input: clip(ic.input), Seed: clip(ic.seed),
			Offset: ic.off, Detail: short(detail, 700), Pkg: c.pkg})
	}
	outcome := "rejected"
	accepted := false
	if p := guard(func() {
		a0 := allocated()
		v, err := c.dec(ic.input)
		a1 := allocated()
		ic.alloc = a1 - a0
		if d := a1 - a0; d > allocC1+allocC2*uint64(len(ic.input)) {
			bad("allocation-over-ceiling", fmt.Sprintf("decoding %d input bytes allocated %d bytes (ceiling %d + %d per input byte); decode error: %v", len(ic.input), d, allocC1, allocC2, err))
		}
		if err != nil {
			if ic.expect == "accept" {
				bad("rejected-at-documented-limit", err.Error())
			}
			return
		}
		accepted = true
		if ic.expect == "reject" {
			bad("accepted-over-documented-limit", "decoder returned no error")
		}
		b1, err := c.enc(v)
		if err != nil {
			if c.encMayFail != nil && c.encMayFail(err) {
				outcome = "accepted-outside-the-encoder-domain"
				return
			}
			bad("decoded-value-does-not-encode", err.Error())
			return
		}
		if bytes.Equal(b1, ic.input) {
			outcome = "accepted-canonical"
		} else {
			outcome = "accepted-noncanonical"
		}
		c1, err := c.canonOf(v)
		if err != nil {
			bad("decoded-value-does-not-encode", err.Error())
			return
		}
		v2, err := c.dec(b1)
		if err != nil {
			bad("re-encoding-does-not-decode", err.Error()+" re-encoding: "+clip(b1))
			return
		}
		b2, err := c.canonOf(v2)
		if err != nil {
			bad("second-re-encode-fails", err.Error())
			return
		}
		if !c.noBytes && !bytes.Equal(c1, b2) {
			bad("re-encoding-not-stable", clip(c1)+" vs "+clip(b2))
		}
		if !c.noDeep && !c.noDeepDecoded {
			if ok, path := semEqual(v, v2); !ok {
				bad("re-decoded-value-differs", "first difference at "+path+"; re-encoding: "+clip(b1))
			}
		}
		if c.hash != nil {
			if h, h2 := c.hash(v), c.hash(v2); h != h2 {
				bad("hash-differs", fmt.Sprintf("hash of the decoded value %s, hash after re-encoding and decoding %s; re-encoding: %s", h, h2, clip(b1)))
			}
		}
		if c.size != nil {
			if s, s2 := c.size(v), c.size(v2); s != s2 && s >= 0 {
				bad("size-differs", fmt.Sprintf("size of the decoded value %d, size after re-encoding and decoding %d (re-encoding is %d bytes)", s, s2, len(b1)))
			}
			// the reported size of an accepted value is the length of its encoding
			if s := c.size(v); s >= 0 && s != len(c1)+c.sizeAdj {
				bad("size-differs-from-encoding", fmt.Sprintf("decoded value reports size %d, its encoding is %d bytes (expected size %d): %s", s, len(c1), len(c1)+c.sizeAdj, clip(c1)))
			}
		}
		c.crossCheck(v, bad)
	}); p != "" {
		bad("panic", p)
		outcome = "panic"
	}
	return outcome, accepted, out
}

// ---- input enumeration ---------------------------------------------------------------

var boundaryBytes = []byte{0x00, 0x01, 0x7f, 0x80, 0xfc, 0xfd, 0xfe, 0xff}

var smallCounts = []uint64{0, 1, 2, 3, 16, 17, 32, 33, 64, 65, 200, 201, 0xfc, 0xfd, 0xff, 0x100, 500, 501, 1024, 1025, 2000, 2001, 2047, 2048, 2049, 0xfffe, 0xffff}
var hugeCounts = []uint64{0x10000, 0x1000000, 0x1000001, 0x2000000, 0x2000001, 0x7fffffff, 0x80000000, 0xffffffff, 0x100000000, 1<<63 - 1, 1 << 63, 1<<64 - 1}

type seedT struct {
	idx int
	b   []byte
}

// seedsOf returns the canonical encodings used as mutation seeds (deduplicated,
// bounded in length) of a codec.
func seedsOf(c *codec, th bool) []seedT {
	maxLen := vk2(th, 200, 420)
	if c.maxSeed > 0 {
		maxLen = c.maxSeed
	}
	seen := map[string]bool{}
	var out []seedT
	sigs := map[string]int{}
	add := func(i int, b []byte) {
		if len(b) > maxLen || len(b) == 0 || seen[string(b)] {
			return
		}
		seen[string(b)] = true
		if c.sig != nil {
			// one seed per layout in quick, two in thorough
			sg := c.sig(b)
			if sigs[sg] >= vk2(th, 1, 2) {
				return
			}
			sigs[sg]++
		}
		out = append(out, seedT{i, b})
	}
	senc := c.enc
	if c.seedEnc != nil {
		senc = c.seedEnc
	}
	for i, v := range c.gen(th) {
		b, err := senc(v)
		if err != nil {
			continue
		}
		add(i, b)
	}
	if c.accept != nil {
		for _, a := range c.accept() {
			add(-1, a.b)
		}
	}
	if n := vk2(th, c.maxSeeds[0], c.maxSeeds[1]); n > 0 && len(out) > n {
		// evenly spread, keeping the first and the last
		sel := make([]seedT, 0, n)
		for i := 0; i < n; i++ {
			sel = append(sel, out[i*(len(out)-1)/(n-1)])
		}
		out = sel
	}
	return out
}

func vk2[T any](th bool, q, t T) T {
	if th {
		return t
	}
	return q
}

// enumerate calls f for every input of shard `shard` of `nshards` of the codec.
// The order is deterministic. f returns false to stop.
func enumerate(c *codec, th bool, shard, nshards int, f func(ic *inputCase) bool) {
	emitB := func(kind string, off int, seed, input []byte, big bool) bool {
		return f(&inputCase{kind: kind, off: off, seed: seed, input: input, big: big})
	}
	emit := func(kind string, off int, seed, input []byte) bool { return emitB(kind, off, seed, input, false) }
	// all byte strings up to length 2 (3 for the cheap decoders in thorough),
	// spread over the shards by their first byte
	{
		maxLen := 2
		if th && c.cheap {
			maxLen = 3
		}
		if shard == 0 && !emit("short", -1, nil, []byte{}) {
			return
		}
		for l := 1; l <= maxLen; l++ {
			n := 1 << (8 * l)
			for x := 0; x < n; x++ {
				if (x>>(8*(l-1)))%nshards != shard {
					continue
				}
				b := make([]byte, l)
				for k := 0; k < l; k++ {
					b[k] = byte(x >> (8 * (l - 1 - k)))
				}
				if !emit("short", -1, nil, b) {
					return
				}
			}
		}
	}
	if shard == 0 {
		if c.reject != nil {
			for _, r := range c.reject() {
				if !f(&inputCase{kind: "limit", off: -1, input: r.b, expect: "reject", name: r.name}) {
					return
				}
			}
		}
		if c.accept != nil {
			for _, r := range c.accept() {
				if !f(&inputCase{kind: "limit", off: -1, input: r.b, expect: "accept", name: r.name}) {
					return
				}
			}
		}
	}
	seeds := seedsOf(c, th)
	substSet, insertSet := boundaryBytes, boundaryBytes
	if th && !c.derived {
		substSet = make([]byte, 256)
		for i := range substSet {
			substSet[i] = byte(i)
		}
	}
	hugeLeft := vk2(th, 3, 10)
	sigSeen := map[int]bool{}
	for si, sd := range seeds {
		if si%nshards != shard {
			continue
		}
		s := sd.b
		if !emit("seed", -1, s, s) {
			return
		}
		for i := 0; i < len(s); i++ {
			if !emit("trunc", i, s, s[:i]) {
				return
			}
		}
		for i := 0; i < len(s); i++ {
			for _, x := range substSet {
				if x == s[i] {
					continue
				}
				m := append([]byte{}, s...)
				m[i] = x
				if !emitB("subst", i, s, m, x >= 0xfe) {
					return
				}
			}
		}
		for i := 0; i <= len(s); i++ {
			for _, x := range insertSet {
				m := cat(s[:i], []byte{x}, s[i:])
				off := i
				if off == len(s) {
					off = len(s) - 1
				}
				if !emitB("insert", off, s, m, x >= 0xfe) {
					return
				}
			}
		}
		for i := 0; i < len(s); i++ {
			if !emit("delete", i, s, cat(s[:i], s[i+1:])) {
				return
			}
		}
		// var-int sites: position i is one if the 0xfd form of its byte decodes
		// to the value of the seed. Every position is tried with every longer
		// form (the non-sites are just more inputs).
		var sites []int
		for i := 0; i < len(s) && !c.derived; i++ {
			if s[i] >= 0xfd {
				continue
			}
			for _, form := range []byte{0xfd, 0xfe, 0xff} {
				m := cat(s[:i], varintForm(uint64(s[i]), form), s[i+1:])
				if form == 0xfd {
					if v, err := safeDec(c, m); err == nil {
						if b, err := c.enc(v); err == nil && bytes.Equal(b, s) {
							sites = append(sites, i)
						}
					}
				}
				if !emitB("varint-nonminimal", i, s, m, form >= 0xfe) {
					return
				}
			}
		}
		for _, i := range sites {
			for _, cv := range smallCounts {
				if cv == uint64(s[i]) {
					continue
				}
				if !emit("varint-count", i, s, cat(s[:i], varint(cv), s[i+1:])) {
					return
				}
			}
		}
		if hugeLeft > 0 && !sigSeen[len(sites)] && len(sites) > 0 {
			sigSeen[len(sites)] = true
			hugeLeft--
			for _, i := range sites {
				for _, cv := range hugeCounts {
					if !emitB("varint-count-huge", i, s, cat(s[:i], varint(cv), s[i+1:]), true) {
						return
					}
				}
			}
		}
	}
}

func safeDec(c *codec, b []byte) (v any, err error) {
	if p := guard(func() { v, err = c.dec(b) }); p != "" {
		return nil, fmt.Errorf("panic: %s", p)
	}
	return
}

// ---- worker process --------------------------------------------------------------------

type job struct {
	Codec    string     `json:"codec"`
	Shard    int        `json:"shard"`
	NShards  int        `json:"nshards"`
	Start    int        `json:"start"`
	Thorough bool       `json:"thorough"`
	Dir      string     `json:"dir"`
	Deadline int64      `json:"deadline_unix"`
	SkipBig  bool       `json:"skip_big"` // set after a hang/death: skip mutants that introduce long var-int prefixes
	Replay   string     `json:"replay_hex,omitempty"`
	ReplayIC *inputCase `json:"-"`
}

type jobResult struct {
	Evals     int64            `json:"evals"`
	Accepted  int64            `json:"accepted"`
	Outcomes  map[string]int64 `json:"outcomes"`
	Findings  []finding        `json:"findings"`
	Capped    bool             `json:"capped"`
	MaxAlloc  uint64           `json:"max_alloc"`
	MaxAllocI string           `json:"max_alloc_input"`
	Skipped   int64            `json:"skipped"`
	MaxNs     int64            `json:"max_ns"`
	MaxNsI    string           `json:"max_ns_input"`
	CPUSec    float64          `json:"cpu_s"`
	Done      bool             `json:"done"`
}

const markerSize = 1 << 21

type marker struct {
	m []byte
}

func openMarker(path string, create bool) (*marker, error) {
	flags := os.O_RDWR
	if create {
		flags |= os.O_CREATE
	}
	f, err := os.OpenFile(path, flags, 0o644)
	if err != nil {
		return nil, err
	}
	defer f.Close()
	if create {
		if err := f.Truncate(markerSize); err != nil {
			return nil, err
		}
	}
	m, err := syscall.Mmap(int(f.Fd()), 0, markerSize, syscall.PROT_READ|syscall.PROT_WRITE, syscall.MAP_SHARED)
	if err != nil {
		return nil, err
	}
	return &marker{m}, nil
}

// set announces the input about to be decoded.
func (k *marker) set(idx int, ic *inputCase) {
	desc := ic.kind + "|" + strconv.Itoa(ic.off) + "|" + ic.name
	in := ic.input
	if len(in) > markerSize/2 {
		in = in[:markerSize/2]
	}
	sd := ic.seed
	if len(sd) > 4096 {
		sd = nil
	}
	p := 24
	binary.LittleEndian.PutUint32(k.m[8:], uint32(len(desc)))
	binary.LittleEndian.PutUint32(k.m[12:], uint32(len(in)))
	binary.LittleEndian.PutUint32(k.m[16:], uint32(len(sd)))
	p += copy(k.m[p:], desc)
	p += copy(k.m[p:], in)
	copy(k.m[p:], sd)
	binary.LittleEndian.PutUint64(k.m[0:], uint64(idx)+1)
}

func (k *marker) idx() int64 { return int64(binary.LittleEndian.Uint64(k.m[0:])) - 1 }

func (k *marker) get() (idx int64, ic inputCase) {
	idx = k.idx()
	dl, il, sl := int(binary.LittleEndian.Uint32(k.m[8:])), int(binary.LittleEndian.Uint32(k.m[12:])), int(binary.LittleEndian.Uint32(k.m[16:]))
	if 24+dl+il+sl > len(k.m) {
		return idx, ic
	}
	desc := string(k.m[24 : 24+dl])
	ic.input = append([]byte{}, k.m[24+dl:24+dl+il]...)
	if sl > 0 {
		ic.seed = append([]byte{}, k.m[24+dl+il:24+dl+il+sl]...)
	}
	parts := strings.SplitN(desc, "|", 3)
	if len(parts) == 3 {
		ic.kind = parts[0]
		ic.off, _ = strconv.Atoi(parts[1])
		ic.name = parts[2]
	}
	return
}

func findCodec(name string) *codec {
	for _, c := range registry() {
		if c.name == name {
			return c
		}
	}
	return nil
}

func jobBase(j *job) string {
	return filepath.Join(j.Dir, fmt.Sprintf("%s.%d", sanitizeName(j.Codec), j.Shard))
}

func sanitizeName(s string) string {
	return strings.Map(func(r rune) rune {
		if r >= 'a' && r <= 'z' || r >= 'A' && r <= 'Z' || r >= '0' && r <= '9' || r == '.' || r == '-' {
			return r
		}
		return '_'
	}, s)
}

// workerMain runs one shard in this (child) process.
func workerMain(j *job) {
	if pf := os.Getenv("C17_PROF"); pf != "" {
		f, _ := os.Create(pf)
		pprof.StartCPUProfile(f)
		defer pprof.StopCPUProfile()
	}
	c := findCodec(j.Codec)
	if c == nil {
		fmt.Fprintln(os.Stderr, "no such codec", j.Codec)
		os.Exit(4)
	}
	base := jobBase(j)
	mk, err := openMarker(base+".marker", false)
	if err != nil {
		fmt.Fprintln(os.Stderr, "marker:", err)
		os.Exit(4)
	}
	vf, err := os.OpenFile(base+".findings", os.O_WRONLY|os.O_APPEND|os.O_CREATE, 0o644)
	if err != nil {
		os.Exit(4)
	}
	hf, err := os.OpenFile(base+".accepted", os.O_WRONLY|os.O_APPEND|os.O_CREATE, 0o644)
	if err != nil {
		os.Exit(4)
	}
	res := &jobResult{Outcomes: map[string]int64{}}
	seenKeys := map[string]bool{}
	var hbuf []byte
	flush := func() {
		if len(hbuf) > 0 {
			hf.Write(hbuf)
			hbuf = hbuf[:0]
		}
	}
	allocFindings := 0
	one := func(idx int, ic *inputCase) {
		if ic.big && (j.SkipBig || allocFindings >= 2) && j.ReplayIC == nil {
			// the defect around long var-int prefixes is already reported for this
			// decoder; every further such input costs seconds and gigabytes
			res.Outcomes["skipped-after-finding"]++
			res.Skipped++
			return
		}
		mk.set(idx, ic)
		t0 := time.Now()
		outcome, acc, fs := c.evalInput(ic)
		if d := time.Since(t0).Nanoseconds(); d > res.MaxNs {
			res.MaxNs, res.MaxNsI = d, short(hx(ic.input), 200)
		}
		if d := ic.alloc; d > res.MaxAlloc {
			res.MaxAlloc, res.MaxAllocI = d, short(hx(ic.input), 200)
		}
		res.Evals++
		res.Outcomes[ic.kind+"->"+outcome]++
		if acc {
			res.Accepted++
			binary.LittleEndian.PutUint64(mk.m[markerSize-8:], uint64(res.Accepted))
			h := fnv.New64a()
			h.Write([]byte(c.name))
			h.Write(ic.input)
			hbuf = binary.LittleEndian.AppendUint64(hbuf, h.Sum64())
			if len(hbuf) >= 1<<16 {
				flush()
			}
		}
		for _, f := range fs {
			if f.Oracle == "allocation-over-ceiling" {
				allocFindings++
			}
			if seenKeys[f.Key] {
				continue
			}
			seenKeys[f.Key] = true
			res.Findings = append(res.Findings, f)
			b, _ := json.Marshal(f)
			vf.Write(append(b, '\n'))
		}
	}
	if j.ReplayIC != nil {
		for k := 0; k < 5; k++ {
			one(k, j.ReplayIC)
		}
	} else {
		idx := 0
		enumerate(c, j.Thorough, j.Shard, j.NShards, func(ic *inputCase) bool {
			if idx < j.Start {
				idx++
				return true
			}
			if idx&255 == 0 && time.Now().Unix() > j.Deadline {
				res.Capped = true
				return false
			}
			one(idx, ic)
			idx++
			return true
		})
	}
	flush()
	res.Done = true
	res.CPUSec = procCPU(os.Getpid())
	pprof.StopCPUProfile()
	b, _ := json.Marshal(res)
	if err := os.WriteFile(base+".result", b, 0o644); err != nil {
		os.Exit(4)
	}
	os.Exit(0)
}

// ---- parent side: running the workers ---------------------------------------------------------

type shardOutcome struct {
	res      jobResult
	findings []finding
	restarts int
	hangs    int
}

func procCPU(pid int) float64 {
	b, err := os.ReadFile(fmt.Sprintf("/proc/%d/stat", pid))
	if err != nil {
		return -1
	}
	s := string(b)
	i := strings.LastIndex(s, ")")
	if i < 0 {
		return -1
	}
	f := strings.Fields(s[i+1:])
	if len(f) < 14 {
		return -1
	}
	ut, _ := strconv.ParseFloat(f[11], 64)
	st, _ := strconv.ParseFloat(f[12], 64)
	return (ut + st) / 100
}

// hangCPUSeconds: CPU seconds (not wall clock) a worker may spend on ONE input
// before it counts as spinning. Typical decode: microseconds; the slowest
// terminating one observed (16M-element ReadArray) takes below 10. 60 in thorough.
var hangCPUSeconds = 25.0

const (
	stallWallSec = 900.0 // safety net if the worker does not even consume CPU
	maxRestarts  = 4
)

// runShard runs one shard to completion, restarting the worker behind every
// input that killed or hung it.
func runShard(r *vk.Run, j job, deadline time.Time) shardOutcome {
	var so shardOutcome
	maxHangs := 1
	if j.Thorough {
		maxHangs = 3
	}
	so.res.Outcomes = map[string]int64{}
	base := jobBase(&j)
	mk, err := openMarker(base+".marker", true)
	if err != nil {
		so.findings = append(so.findings, finding{Key: "harness:marker:" + j.Codec, Mode: "harness", Detail: err.Error()})
		return so
	}
	defer syscall.Munmap(mk.m)
	for {
		os.Remove(base + ".result")
		binary.LittleEndian.PutUint64(mk.m[0:], 0)
		binary.LittleEndian.PutUint64(mk.m[markerSize-8:], 0)
		j.Deadline = deadline.Unix()
		jb, _ := json.Marshal(j)
		cmd := exec.Command(os.Args[0], "-test.run", "^TestCheck$", "-test.timeout", "0")
		cmd.Env = append(os.Environ(), "C17_JOB="+string(jb), "GOMAXPROCS=2")
		var stderr bytes.Buffer
		cmd.Stderr = &stderr
		cmd.Stdout = &stderr
		if err := cmd.Start(); err != nil {
			so.findings = append(so.findings, finding{Key: "harness:start:" + j.Codec, Mode: "harness", Detail: err.Error()})
			return so
		}
		done := make(chan error, 1)
		go func() { done <- cmd.Wait() }()
		lastIdx := int64(-2)
		cpuAtChange := 0.0
		wallAtChange := time.Now()
		hung := false
		var werr error
	wait:
		for {
			select {
			case werr = <-done:
				break wait
			case <-time.After(400 * time.Millisecond):
				idx := mk.idx()
				cpu := procCPU(cmd.Process.Pid)
				if idx != lastIdx {
					lastIdx, cpuAtChange, wallAtChange = idx, cpu, time.Now()
					continue
				}
				if (cpu >= 0 && cpu-cpuAtChange > hangCPUSeconds) || time.Since(wallAtChange).Seconds() > stallWallSec {
					hung = true
					cmd.Process.Kill()
					werr = <-done
					break wait
				}
			}
		}
		if b, err := os.ReadFile(base + ".result"); err == nil && !hung {
			var res jobResult
			if json.Unmarshal(b, &res) == nil && res.Done {
				so.res.Evals += res.Evals
				so.res.Accepted += res.Accepted
				for k, v := range res.Outcomes {
					so.res.Outcomes[k] += v
				}
				so.res.Capped = so.res.Capped || res.Capped
				if res.MaxAlloc > so.res.MaxAlloc {
					so.res.MaxAlloc, so.res.MaxAllocI = res.MaxAlloc, res.MaxAllocI
				}
				if res.MaxNs > so.res.MaxNs {
					so.res.MaxNs, so.res.MaxNsI = res.MaxNs, res.MaxNsI
				}
				so.res.CPUSec += res.CPUSec
				so.res.Skipped += res.Skipped
				so.findings = append(so.findings, res.Findings...)
				return so
			}
		}
		// the worker died or hung: attribute it to the announced input
		idx, ic := mk.get()
		c := findCodec(j.Codec)
		label := ""
		if c != nil && c.label != nil && ic.seed != nil && ic.off >= 0 {
			label = c.label(ic.seed, ic.off)
		}
		mode, oracle := "fatal", "worker-died"
		tail := stderr.String()
		switch {
		case hung:
			mode, oracle = "hang", "no-progress"
		case strings.Contains(tail, "out of memory") || strings.Contains(tail, "cannot allocate memory"):
			oracle = "out-of-memory"
		case strings.Contains(tail, "stack overflow") || strings.Contains(tail, "stack exceeds"):
			oracle = "stack-overflow"
		case strings.Contains(tail, "signal: killed"):
			oracle = "killed"
		}
		if i := strings.Index(tail, "fatal error"); i >= 0 {
			tail = tail[i:]
		} else if i := strings.Index(tail, "panic:"); i >= 0 {
			tail = tail[i:]
		}
		key := fmt.Sprintf("%s:%s", oracle, j.Codec)
		if c != nil {
			key = fmt.Sprintf("%s:%s", oracle, c.groupName())
		}
		detail := fmt.Sprintf("worker exit: %v; ", werr)
		if hung {
			detail += fmt.Sprintf("no progress on this input for more than %.0f CPU seconds; ", hangCPUSeconds)
		}
		detail += short(tail, 700)
		// findings the worker had written before dying
		if b, err := os.ReadFile(base + ".findings"); err == nil {
			for _, l := range bytes.Split(b, []byte("\n")) {
				var f finding
				if len(l) > 0 && json.Unmarshal(l, &f) == nil {
					so.findings = append(so.findings, f)
				}
			}
			os.Remove(base + ".findings")
		}
		if idx < 0 {
			so.findings = append(so.findings, finding{Key: "harness:worker-died-before-first-input:" + j.Codec, Mode: "harness", Codec: j.Codec, Detail: detail})
			return so
		}
		so.findings = append(so.findings, finding{Key: key, Mode: mode, Codec: j.Codec, Kind: ic.kind, Oracle: oracle, Label: label, Input: clip(ic.input), Seed: clip(ic.seed), Offset: ic.off, Detail: detail,
			Pkg: func() string {
				if c != nil {
					return c.pkg
				}
				return ""
			}()})
		so.res.Evals += idx + 1 - int64(j.Start)
		so.res.Accepted += int64(binary.LittleEndian.Uint64(mk.m[markerSize-8:]))
		fmt.Printf("worker %s shard %d/%d %s at input #%d (%s, offset %d): %s\n", j.Codec, j.Shard, j.NShards, oracle, idx, ic.kind, ic.off, short(hx(ic.input), 160))
		so.restarts++
		j.Start = int(idx) + 1
		j.SkipBig = true
		if j.Replay != "" {
			return so
		}
		if hung {
			so.hangs++
		}
		if so.restarts > maxRestarts || so.hangs > maxHangs || time.Now().After(deadline) {
			if so.hangs > maxHangs {
				fmt.Printf("worker %s shard %d/%d: exploration of this shard stopped after %d inputs that made the decoder spin\n", j.Codec, j.Shard, j.NShards, so.hangs)
			}
			so.res.Capped = true
			return so
		}
	}
}

// ---- TestCheck ----------------------------------------------------------------------------------

func TestCheck(t *testing.T) {
	vk.UseT(t)
	if js := os.Getenv("C17_JOB"); js != "" {
		var j job
		if err := json.Unmarshal([]byte(js), &j); err != nil {
			os.Exit(4)
		}
		if j.Replay != "" {
			j.ReplayIC = &inputCase{}
			if err := json.Unmarshal([]byte(j.Replay), &replayWire{j.ReplayIC}); err != nil {
				os.Exit(4)
			}
		}
		workerMain(&j)
		return
	}
	r := vk.Start("C17", "exploration", 170*time.Second, 24*time.Minute)
	r.SetSampleCap(10)
	if r.Replay != "" {
		replay(r)
		return
	}
	th := r.Thorough()
	if th {
		hangCPUSeconds = 60
	}
	// registry completeness: a serialisable type the check does not know is reported
	// loudly (COVERAGE-GAP lines and the `registry_scan` evidence entry). It is not
	// an alarm about the tree and not fatal: a tree that merely gained a type must
	// not make the known codecs unverifiable; C17_STRICT_REGISTRY=1 makes it fatal
	// (development).
	scanProblems, scanInfo := checkRegistryComplete()
	if len(scanProblems) > 0 {
		for _, p := range scanProblems {
			fmt.Println("COVERAGE-GAP C17 registry incomplete:", p)
		}
		if scanInfo == nil {
			scanInfo = map[string]any{}
		}
		scanInfo["unregistered"] = scanProblems
		if os.Getenv("C17_STRICT_REGISTRY") != "" {
			os.Exit(3)
		}
	}
	reg := registry()
	var evals, nontrivial vk.Counter
	report := func(f finding) { violate(r, f.Key, f) }
	// development aid: C17_PHASE=ext runs only the extension phases (E..H)
	devPhase := os.Getenv("C17_PHASE")
	if devPhase == "ext" {
		ext := runExtPhases(r, th)
		r.Finish(map[string]any{"evaluations": ext.evals, "distinct_nontrivial": ext.nontrivial, "rule": "development run of the extension phases", "extension": ext.info}, nil)
	}

	// ---- phase A: O-rt ----
	type vjob struct {
		c      *codec
		lo, hi int
		vals   []any
	}
	var vjobs []vjob
	valuesPer := map[string]int{}
	for _, c := range reg {
		if c.derived {
			continue
		}
		vals := c.gen(th)
		valuesPer[c.name] = len(vals)
		for lo := 0; lo < len(vals); lo += 64 {
			vjobs = append(vjobs, vjob{c, lo, min(lo+64, len(vals)), vals})
		}
	}
	distinctEnc := vk.NewSet()
	var amu sync.Mutex
	var aFindings []finding
	tA := time.Now()
	r.Parallel(len(vjobs), func(i int) {
		j := vjobs[i]
		for k := j.lo; k < j.hi; k++ {
			fs := j.c.checkValue(j.vals[k], k)
			evals.Inc()
			if len(fs) == 0 {
				r.Outcome("value->round-trips")
			} else {
				r.Outcome("value->" + fs[0].Oracle)
			}
			if len(fs) > 0 {
				amu.Lock()
				aFindings = append(aFindings, fs...)
				amu.Unlock()
			}
			if b, err := j.c.enc(j.vals[k]); err == nil && len(b) > 0 {
				if distinctEnc.Add(j.c.name + string(b)) {
					nontrivial.Inc()
				}
			}
			if k == j.lo && j.lo == 0 {
				b, _ := j.c.enc(j.vals[k])
				r.Sample(map[string]any{"phase": "round-trip", "codec": j.c.name, "first_value_hex": short(hx(b), 120), "values": len(j.vals)})
			}
		}
	})
	sort.SliceStable(aFindings, func(a, b int) bool {
		if aFindings[a].Codec != aFindings[b].Codec {
			return aFindings[a].Codec < aFindings[b].Codec
		}
		return aFindings[a].Value < aFindings[b].Value
	})
	for _, f := range aFindings {
		report(f)
	}
	fmt.Printf("phase A (round trips): %d values of %d codecs in %.1fs\n", evals.Get(), len(reg), time.Since(tA).Seconds())

	// ---- phase B: path independence ----
	tB := time.Now()
	pathEvals, pathNontrivial := pathPhase(r, th, report)
	fmt.Printf("phase B (paths): %d cases in %.1fs\n", pathEvals, time.Since(tB).Seconds())

	// ---- phase D: item graphs with shared objects (in process) ----
	tD := time.Now()
	dagEvals, dagNontrivial, dagInfo := dagPhase(r, th, report)
	fmt.Printf("phase D (item graphs with sharing): %v, %d evaluations in %.1fs\n", dagInfo, dagEvals, time.Since(tD).Seconds())

	// ---- phases E..: extension families (in process) ----
	ext := runExtPhases(r, th)

	// ---- phase C: decoder robustness in worker processes ----
	tC := time.Now()
	dir, cleanup := vk.Scratch("c17")
	defer cleanup()
	var jobs []job
	seedStats := map[string][2]int{}
	for _, c := range reg {
		seeds := seedsOf(c, th)
		tot := 0
		for _, s := range seeds {
			tot += len(s.b)
		}
		seedStats[c.name] = [2]int{len(seeds), tot}
		// inputs per seed byte: trunc 1 + subst |set| + insert |set| + delete 1 + 3 var-int forms
		per := 2*len(boundaryBytes) + 5
		if th && !c.derived {
			per = 256 + len(boundaryBytes) + 5
		}
		n := 1 + tot*per/vk2(th, 350000, 1500000)
		if n > 16 {
			n = 16
		}
		if n > len(seeds) && len(seeds) > 0 {
			n = len(seeds)
		}
		if th && c.cheap && n < 8 {
			n = 8 // 2^24 short strings
		}
		for s := 0; s < n; s++ {
			jobs = append(jobs, job{Codec: c.name, Shard: s, NShards: n, Thorough: th, Dir: dir})
		}
	}
	// long shards first
	// and shard k of every codec before shard k+1 of any, so that a capped run
	// has touched every codec
	sort.SliceStable(jobs, func(a, b int) bool {
		if jobs[a].Shard != jobs[b].Shard {
			return jobs[a].Shard < jobs[b].Shard
		}
		return seedStats[jobs[a].Codec][1]/jobs[a].NShards > seedStats[jobs[b].Codec][1]/jobs[b].NShards
	})
	deadline := time.Now().Add(time.Duration(float64(time.Second) * (budgetLeft(r))))
	var mu sync.Mutex
	outcomes := map[string]int64{}
	perCodec := map[string]*[3]int64{}
	var cEvals, cAccepted int64
	var maxAlloc uint64
	var maxAllocWhere, maxNsWhere string
	var maxNs, skipped int64
	var cFindings []finding
	restarts := 0
	workers := runtime.NumCPU() - 2
	if workers < 2 {
		workers = 2
	}
	sem := make(chan struct{}, workers)
	var wg sync.WaitGroup
	for _, j := range jobs {
		if r.Expired() {
			break
		}
		sem <- struct{}{}
		wg.Add(1)
		go func(j job) {
			defer wg.Done()
			defer func() { <-sem }()
			so := runShard(r, j, deadline)
			mu.Lock()
			defer mu.Unlock()
			cEvals += so.res.Evals
			cAccepted += so.res.Accepted
			for k, v := range so.res.Outcomes {
				outcomes[k] += v
			}
			pc := perCodec[j.Codec]
			if pc == nil {
				pc = &[3]int64{}
				perCodec[j.Codec] = pc
			}
			pc[0] += so.res.Evals
			pc[1] += so.res.Accepted
			pc[2] += int64(so.res.CPUSec * 1000)
			skipped += so.res.Skipped
			if so.res.MaxNs > maxNs {
				maxNs, maxNsWhere = so.res.MaxNs, j.Codec+" "+so.res.MaxNsI
			}
			if so.res.Capped {
				r.Capped()
			}
			if so.res.MaxAlloc > maxAlloc {
				maxAlloc, maxAllocWhere = so.res.MaxAlloc, j.Codec+" "+so.res.MaxAllocI
			}
			restarts += so.restarts
			cFindings = append(cFindings, so.findings...)
		}(j)
	}
	wg.Wait()
	// report the shortest input of every key, simplest codec first
	sort.SliceStable(cFindings, func(a, b int) bool {
		if len(cFindings[a].Input) != len(cFindings[b].Input) {
			return len(cFindings[a].Input) < len(cFindings[b].Input)
		}
		return cFindings[a].Codec < cFindings[b].Codec
	})
	for _, f := range cFindings {
		report(f)
	}
	// distinct accepted inputs over all shards
	distinct := map[uint64]struct{}{}
	files, _ := filepath.Glob(filepath.Join(dir, "*.accepted"))
	for _, fn := range files {
		b, err := os.ReadFile(fn)
		if err != nil {
			continue
		}
		for i := 0; i+8 <= len(b); i += 8 {
			distinct[binary.LittleEndian.Uint64(b[i:])] = struct{}{}
		}
	}
	for k := range outcomes {
		r.Outcome(k)
	}
	fmt.Printf("phase C (decoders): %d inputs, %d accepted (%d distinct), %d worker restarts in %.1fs\n", cEvals, cAccepted, len(distinct), restarts, time.Since(tC).Seconds())

	cleanup()
	vk.CleanScratch()
	codecNames := make([]string, 0, len(reg))
	perCodecOut := map[string]any{}
	for _, c := range reg {
		codecNames = append(codecNames, c.name)
		pc := perCodec[c.name]
		if pc == nil {
			pc = &[3]int64{}
		}
		perCodecOut[c.name] = map[string]any{"values": valuesPer[c.name], "seeds": seedStats[c.name][0], "seed_bytes": seedStats[c.name][1], "decoder_inputs": pc[0], "accepted": pc[1], "cpu_ms": pc[2]}
	}
	outc := map[string]int64{}
	for k, v := range outcomes {
		outc[k] = v
	}
	r.Finish(map[string]any{
		"evaluations":                        int(evals.Get()) + pathEvals + int(cEvals) + dagEvals + ext.evals,
		"distinct_nontrivial":                int(nontrivial.Get()) + pathNontrivial + len(distinct) + dagNontrivial + ext.nontrivial,
		"extension_families":                 ext.info,
		"registry_completeness_scan":         scanInfo,
		"item_graphs":                        dagInfo,
		"item_graph_evaluations":             dagEvals,
		"rule":                               "a case is one oracle evaluation: a generated value through encode/decode/JSON/size/hash, one (content, arrival path) pair, one (item graph, limit or entry point) pair, or one byte string fed to one decoder; non-trivial = a generated value with a distinct non-empty encoding, a path case whose content decodes on at least two paths, an item graph in which some object is referenced more than once (compared with its un-shared copy under every limit), or a distinct byte string (per decoder) that the decoder ACCEPTS so that the re-encode/re-decode/hash/size oracle is evaluated (rejected strings only exercise the no-panic/allocation oracle)",
		"codecs":                             len(reg),
		"codec_names":                        codecNames,
		"round_trip_values":                  int(evals.Get()),
		"path_cases":                         pathEvals,
		"decoder_inputs":                     int(cEvals),
		"decoder_accepted":                   int(cAccepted),
		"decoder_outcomes":                   outc,
		"per_codec":                          perCodecOut,
		"worker_shards":                      len(jobs),
		"worker_restarts":                    restarts,
		"inputs_skipped_after_a_finding":     skipped,
		"max_single_decode_allocation_bytes": maxAlloc,
		"max_single_decode_allocation_where": maxAllocWhere,
		"slowest_single_input_ms":            maxNs / 1e6,
		"slowest_single_input_where":         maxNsWhere,
		"allocation_ceiling":                 fmt.Sprintf("%d + %d*len(input) bytes", allocC1, allocC2),
		"substitution_bytes":                 vk2(th, len(boundaryBytes), 256),
		"insertion_bytes":                    len(boundaryBytes),
	}, []string{
		"field alphabets: every scalar from {0,1,max}, list lengths {0,1,2,max}, every union variant; composite types (transaction, block, messages, execution results, manifest) take the product over reduced lists of component shapes rather than over all component values",
		"seeds for mutation are the distinct encodings of generated values not longer than 200 (quick) / 420 (thorough) bytes unless a codec states another bound; longer values take part in the round-trip phase only",
		"huge counts (>= 2^16) are substituted at the var-int sites of a few seeds per shard with distinct numbers of sites, small boundary counts at every site of every seed",
		"each decoder input runs in an isolated worker process; a worker that dies or makes no progress for 45 CPU seconds on one input (typical decode: microseconds) is a violation attributed to that input; allocation is measured with runtime/metrics around the first decode of the input",
		"consensus message types are unexported: their values are obtained by decoding hand-built wire forms through consensus.NewPayload(...).DecodeBinary, re-encoding goes through the message encoder",
		"the oracle demands from a decoder only: error, or a value whose re-encoding decodes to an equal value with equal hash and size; limits are demanded only where an exported constant or a doc comment states them",
		"cross-format agreement (phases E, F and the binary->JSON step of phase C): a value one decoder accepts is a value of the type, so every other wire form of the type must encode it and decode it back to an equal value with the same hash; strings that are not valid UTF-8, reserved attributes, interop/pointer/unserialisable stack entries are outside the domain of the JSON form; the protected and the plain-JSON item forms are lossy by design and only asked to accept what they produce",
		"limit cases are built in memory at limit-1 / limit / limit+1 (encoders check no limits), with every constructor kind providing the depth or the count and every container (rule, signer, transaction, block) the decoding path; within the limits every form must accept",
		"structural JSON mutants: the smallest and the longest JSON text of every distinct member-path shape of a codec's generated values (at most 6 / 24 shapes per codec), every node x every replacement of the stated mutation alphabet; the first two and the last element of every list",
		"embedded / compact forms (phase H): real values are put into the embedding through the function the node uses (RecoveryMessage.AddPayload, dao.StoreAsBlock / StoreAsTransaction / StoreHeader / PutStorageConvertible, Headers / MerkleBlock / Inventory / P2PNotaryRequest / Extensible payloads inside network.Message, Management.deploy / update on a real chain) and taken out through the accessor the node uses; demanded: the same encoding, hash and size, and for signed consensus payloads a witness that still verifies - only for what the compact form carries (ChangeView reason and rejected hashes, the view of a PrepareResponse, the preparation hash next to an embedded PrepareRequest after serialisation are not carried; a PrepareRequest is only compared for carrier view = its own view); the stored or added original must re-encode unchanged afterwards; compact entries of a DECODED RecoveryMessage with a validator index outside the list must not panic",
		"registry completeness: the repository source (vk.Repo()/pkg) is scanned for methods DecodeBinary, FromStackItem, UnmarshalJSON, FromBytes, DecodeBytes; every receiver type must be mapped to a codec or carry an exemption with a reason (client, wallet, compiler, RPC envelope packages are exempt as packages)",
	})
}

func budgetLeft(r *vk.Run) float64 {
	b := 170.0
	if r.Thorough() {
		b = 24 * 60
	}
	if s := os.Getenv("VERIF_BUDGET_S"); s != "" {
		if n, err := strconv.Atoi(s); err == nil {
			b = float64(n)
		}
	}
	left := b - r.Elapsed()
	if left < 5 {
		left = 5
	}
	return left
}

// ---- replay ------------------------------------------------------------------------------------

type replayWire struct{ ic *inputCase }

func (w *replayWire) UnmarshalJSON(b []byte) error {
	var x struct {
		Kind, Name, Expect string
		Off                int
		Input, Seed        string
	}
	if err := json.Unmarshal(b, &x); err != nil {
		return err
	}
	w.ic.kind, w.ic.name, w.ic.expect, w.ic.off = x.Kind, x.Name, x.Expect, x.Off
	w.ic.input = unhx(x.Input)
	if x.Seed != "" {
		w.ic.seed = unhx(x.Seed)
	}
	return nil
}

func replay(r *vk.Run) {
	var f finding
	if err := r.ReadReplay(&f); err != nil {
		fmt.Println("cannot read replay:", err)
		r.Finish(map[string]any{"evaluations": 0, "distinct_nontrivial": 0, "rule": "replay"}, nil)
	}
	c := findCodec(f.Codec)
	n := 0
	switch {
	case f.Mode == "path":
		n = replayPath(r, f)
	case f.Mode == "dag":
		n = replayDag(r, f)
	case f.Mode == "xfmt":
		n = replayXfmt(r)
	case f.Mode == "jsonmut":
		n = replayJSONMut(r, f)
	case f.Mode == "path2" || f.Mode == "threshold":
		n = replayPath2(r, f)
	case f.Mode == "embed":
		n = replayEmbed(r, f)
	case c == nil:
		fmt.Println("replay: unknown codec", f.Codec)
	case f.Mode == "value":
		vals := c.gen(r.Thorough())
		if f.Value < len(vals) {
			for k := 0; k < 5; k++ {
				fs := c.checkValue(vals[f.Value], f.Value)
				keys := []string{}
				for _, x := range fs {
					keys = append(keys, x.Key)
					if x.Key == f.Key {
						r.Violation(x.Key, x)
					}
				}
				fmt.Printf("replay %d: codec %s value #%d -> %v\n", k+1, c.name, f.Value, keys)
				n++
			}
		}
	default:
		if strings.Contains(f.Input, "...") {
			fmt.Println("replay: input was clipped in the record, cannot replay")
			break
		}
		expect := ""
		if f.Oracle == "accepted-over-documented-limit" {
			expect = "reject"
		} else if f.Oracle == "rejected-at-documented-limit" {
			expect = "accept"
		}
		seed := f.Seed
		if strings.Contains(seed, "...") {
			seed = ""
		}
		name := ""
		if f.Kind == "limit" {
			name = f.Key[strings.LastIndex(f.Key, ":")+1:]
		}
		w, _ := json.Marshal(map[string]any{"Kind": f.Kind, "Name": name, "Expect": expect, "Off": f.Offset, "Input": f.Input, "Seed": seed})
		dir, cleanup := vk.Scratch("c17r")
		defer cleanup()
		j := job{Codec: f.Codec, Shard: 0, NShards: 1, Thorough: r.Thorough(), Dir: dir, Replay: string(w)}
		so := runShard(r, j, time.Now().Add(10*time.Minute))
		keys := []string{}
		for _, x := range so.findings {
			keys = append(keys, x.Key)
			if x.Key == f.Key {
				r.Violation(x.Key, x)
			}
		}
		fmt.Printf("replayed 5x in a worker: codec %s kind %s input %s -> outcomes %v findings %v\n", f.Codec, f.Kind, short(f.Input, 100), so.res.Outcomes, keys)
		n = 5
		cleanup()
		vk.CleanScratch()
	}
	r.Finish(map[string]any{"evaluations": n, "distinct_nontrivial": 2, "rule": "replay of one recorded case, 5 times"}, nil)
}
