// C17 phase D: stack item graphs with SHARING. The serialisers keep a `seen`
// table so that an object referenced twice is copied, not walked again; what
// is charged against the item limit and the size limit for the second
// reference must be what its content costs. Every small DAG over {Array,
// Struct, Map} is enumerated (each child position: a primitive or a reference
// to an earlier-built node), and compared with its fully un-shared deep copy
// under every item limit around its item count, with the default limit on
// scaled graphs crossing MaxSerialized and MaxSize, through every entry point
// (Serialize/SerializeLimited, EncodeBinary, EncodeBinaryProtected, a reused
// SerializationContext, ToJSON, ToJSONWithTypes) and back through the decoders.
package c17

import (
	"bytes"
	"fmt"
	"math/big"
	"sort"
	"strconv"
	"strings"
	"sync"

	"github.com/nspcc-dev/neo-go/pkg/io"
	"github.com/nspcc-dev/neo-go/pkg/vm/stackitem"

	"verif/lib/vk"
)

// dagNode: kind 'A' array, 'S' struct, 'M' map; a child >= 0 is the index of
// an earlier node, a child < 0 is primitive number -(c+1).
type dagNode struct {
	kind byte
	ch   []int
}

type dag []dagNode // the last node is the root

func dagPrims() []func() stackitem.Item {
	return []func() stackitem.Item{
		func() stackitem.Item { return stackitem.Null{} },
		func() stackitem.Item { return stackitem.NewBigInteger(big.NewInt(1)) },
		func() stackitem.Item { return stackitem.NewByteArray([]byte("a")) },
	}
}

func (g dag) String() string {
	var parts []string
	for _, n := range g {
		var cs []string
		for _, c := range n.ch {
			if c >= 0 {
				cs = append(cs, "n"+strconv.Itoa(c))
			} else {
				cs = append(cs, "p"+strconv.Itoa(-c-1))
			}
		}
		parts = append(parts, string(n.kind)+"("+strings.Join(cs, ",")+")")
	}
	return strings.Join(parts, ";")
}

func parseDag(s string) (dag, error) {
	var g dag
	for _, p := range strings.Split(s, ";") {
		if len(p) < 3 || p[1] != '(' || p[len(p)-1] != ')' {
			return nil, fmt.Errorf("bad node %q", p)
		}
		n := dagNode{kind: p[0]}
		if body := p[2 : len(p)-1]; body != "" {
			for _, c := range strings.Split(body, ",") {
				v, err := strconv.Atoi(c[1:])
				if err != nil {
					return nil, err
				}
				if c[0] == 'n' {
					n.ch = append(n.ch, v)
				} else {
					n.ch = append(n.ch, -v-1)
				}
			}
		}
		g = append(g, n)
	}
	return g, nil
}

func mapKey(i int) stackitem.Item { return stackitem.NewBigInteger(big.NewInt(int64(i))) }

func mkCompound(kind byte, kids []stackitem.Item) stackitem.Item {
	switch kind {
	case 'A':
		return stackitem.NewArray(kids)
	case 'S':
		return stackitem.NewStruct(kids)
	}
	el := make([]stackitem.MapElement, len(kids))
	for i := range kids {
		el[i] = stackitem.MapElement{Key: mapKey(i), Value: kids[i]}
	}
	return stackitem.NewMapWithValue(el)
}

// shared builds the graph with every node object built once.
func (g dag) shared() stackitem.Item {
	prims := dagPrims()
	nodes := make([]stackitem.Item, len(g))
	for i, n := range g {
		kids := make([]stackitem.Item, len(n.ch))
		for k, c := range n.ch {
			if c >= 0 {
				kids[k] = nodes[c]
			} else {
				kids[k] = prims[-c-1]()
			}
		}
		nodes[i] = mkCompound(n.kind, kids)
	}
	return nodes[len(g)-1]
}

// tree builds the same content with no object occurring twice and returns its
// item count (keys and values counted, every compound counts itself).
func (g dag) tree() (stackitem.Item, int) {
	prims := dagPrims()
	var build func(i int) (stackitem.Item, int)
	build = func(i int) (stackitem.Item, int) {
		n := g[i]
		cnt := 1
		kids := make([]stackitem.Item, len(n.ch))
		for k, c := range n.ch {
			if n.kind == 'M' {
				cnt++ // the key
			}
			if c >= 0 {
				var s int
				kids[k], s = build(c)
				cnt += s
			} else {
				kids[k] = prims[-c-1]()
				cnt++
			}
		}
		return mkCompound(n.kind, kids), cnt
	}
	return build(len(g) - 1)
}

func (g dag) reachableAll() bool {
	seen := make([]bool, len(g))
	var walk func(i int)
	walk = func(i int) {
		if seen[i] {
			return
		}
		seen[i] = true
		for _, c := range g[i].ch {
			if c >= 0 {
				walk(c)
			}
		}
	}
	walk(len(g) - 1)
	for _, s := range seen {
		if !s {
			return false
		}
	}
	return true
}

func (g dag) hasSharing() bool {
	refs := make([]int, len(g))
	for _, n := range g {
		for _, c := range n.ch {
			if c >= 0 {
				refs[c]++
			}
		}
	}
	for _, r := range refs {
		if r > 1 {
			return true
		}
	}
	return false
}

// enumDags: every graph of up to maxNodes nodes, every kind, every width up to
// maxWidth, every child a primitive or any earlier node; all nodes reachable.
func enumDags(maxNodes, maxWidth int) []dag {
	nprim := len(dagPrims())
	var out []dag
	var nodeChoices func(i int) []dagNode
	nodeChoices = func(i int) []dagNode {
		opts := []int{}
		for p := 0; p < nprim; p++ {
			opts = append(opts, -p-1)
		}
		for j := 0; j < i; j++ {
			opts = append(opts, j)
		}
		var res []dagNode
		var tuples func(w int, cur []int)
		tuples = func(w int, cur []int) {
			if w == 0 {
				for _, k := range []byte{'A', 'S', 'M'} {
					res = append(res, dagNode{k, append([]int{}, cur...)})
				}
				return
			}
			for _, o := range opts {
				tuples(w-1, append(cur, o))
			}
		}
		for w := 0; w <= maxWidth; w++ {
			tuples(w, nil)
		}
		return res
	}
	var rec func(g dag, total int)
	rec = func(g dag, total int) {
		if len(g) == total {
			if g.reachableAll() {
				out = append(out, append(dag{}, g...))
			}
			return
		}
		for _, n := range nodeChoices(len(g)) {
			// prune: primitives-only variety matters only for the first node
			if len(g) > 0 {
				prim := map[int]bool{}
				skip := false
				for _, c := range n.ch {
					if c < 0 {
						prim[c] = true
					}
				}
				// later nodes use primitive p0 only (content variety is in node 0)
				for c := range prim {
					if c != -1 {
						skip = true
					}
				}
				if skip {
					continue
				}
			}
			rec(append(g, n), total)
		}
	}
	for total := 1; total <= maxNodes; total++ {
		rec(nil, total)
	}
	return out
}

type dagFinding struct {
	oracle, detail string
}

func errStr(err error) string {
	if err == nil {
		return "ok"
	}
	return "error: " + err.Error()
}

// checkPair evaluates all oracles on a shared graph sh and its deep copy tr
// with `count` items. limits: item limits to try with SerializeLimited (0 =
// skip the exact-rule part).
// jsonMode: 1 compares the JSON encoders on shared vs un-shared only, 2 also decodes back.
func checkPair(sh, tr stackitem.Item, count int, limits []int, jsonMode int) (fs []dagFinding, evals int) {
	bad := func(o, d string) { fs = append(fs, dagFinding{o, d}) }
	decodeBack := func(what string, b []byte, limit int, want []byte) {
		var it stackitem.Item
		var err error
		if limit > 0 {
			it, err = stackitem.DeserializeLimited(b, limit)
		} else {
			it, err = stackitem.Deserialize(b)
		}
		if err != nil {
			bad("accepted-by-encoder-rejected-by-decoder:"+what, fmt.Sprintf("%d bytes, %d items, limit %d: %v", len(b), count, limit, err))
			return
		}
		if ok, path := semEqual(it, tr); !ok {
			bad("decoded-differs-from-content:"+what, "first difference at "+path)
		}
		var b2 []byte
		if limit > 0 {
			b2, err = stackitem.SerializeLimited(it, limit)
		} else {
			b2, err = stackitem.Serialize(it)
		}
		if err != nil || !bytes.Equal(b2, want) {
			bad("re-serialisation-differs:"+what, fmt.Sprintf("%v", err))
		}
	}
	full, fullErr := stackitem.SerializeLimited(tr, count+10)
	for _, l := range limits {
		evals++
		bs, es := stackitem.SerializeLimited(sh, l)
		bt, et := stackitem.SerializeLimited(tr, l)
		if (es == nil) != (et == nil) {
			bad("limit-depends-on-sharing:SerializeLimited", fmt.Sprintf("limit %d, content has %d items: shared graph -> %s, un-shared copy -> %s", l, count, errStr(es), errStr(et)))
		} else if es == nil && !bytes.Equal(bs, bt) {
			bad("bytes-depend-on-sharing:SerializeLimited", fmt.Sprintf("limit %d: %s vs %s", l, clip(bs), clip(bt)))
		}
		// documented: the limit is the maximum number of items including the item itself
		if fullErr == nil && len(full) <= stackitem.MaxSize {
			if (et == nil) != (count <= l) {
				bad("limit-rule:SerializeLimited(un-shared)", fmt.Sprintf("limit %d, %d items -> %s", l, count, errStr(et)))
			}
			if (es == nil) != (count <= l) {
				bad("limit-rule:SerializeLimited(shared)", fmt.Sprintf("limit %d, %d items -> %s", l, count, errStr(es)))
			}
			// encoder and decoder limits are the same number
			_, ed := stackitem.DeserializeLimited(full, l)
			if (ed == nil) != (count <= l) {
				bad("limit-rule:DeserializeLimited", fmt.Sprintf("limit %d, %d items -> %s", l, count, errStr(ed)))
			}
		}
		if es == nil {
			decodeBack("SerializeLimited", bs, l, bs)
		}
	}
	// default limit, every entry point
	evals++
	bs, es := stackitem.Serialize(sh)
	bt, et := stackitem.Serialize(tr)
	if (es == nil) != (et == nil) {
		bad("limit-depends-on-sharing:Serialize", fmt.Sprintf("content has %d items, %d bytes un-shared: shared graph -> %s, un-shared copy -> %s", count, len(full), errStr(es), errStr(et)))
	} else if es == nil && !bytes.Equal(bs, bt) {
		bad("bytes-depend-on-sharing:Serialize", clip(bs)+" vs "+clip(bt))
	}
	if es == nil {
		decodeBack("Serialize", bs, 0, bs)
	}
	if fullErr == nil && len(full) <= stackitem.MaxSize {
		if (es == nil) != (count <= stackitem.MaxSerialized) {
			bad("limit-rule:Serialize(shared)", fmt.Sprintf("%d items -> %s", count, errStr(es)))
		}
	}
	// EncodeBinary / DecodeBinary
	for _, prot := range []bool{false, true} {
		name := "EncodeBinary"
		enc := func(it stackitem.Item) ([]byte, error) {
			return encW(func(w *io.BinWriter) {
				if prot {
					stackitem.EncodeBinaryProtected(it, w)
				} else {
					stackitem.EncodeBinary(it, w)
				}
			})
		}
		if prot {
			name = "EncodeBinaryProtected"
		}
		evals++
		b1, e1 := enc(sh)
		b2, e2 := enc(tr)
		if (e1 == nil) != (e2 == nil) || (e1 == nil && !bytes.Equal(b1, b2)) {
			bad("result-depends-on-sharing:"+name, fmt.Sprintf("%s / %s; %d vs %d bytes", errStr(e1), errStr(e2), len(b1), len(b2)))
		}
		if e1 == nil && !(prot && len(b1) == 1 && b1[0] == byte(stackitem.InvalidT)) {
			r := io.NewBinReaderFromBuf(b1)
			var it stackitem.Item
			if prot {
				it = stackitem.DecodeBinaryProtected(r)
			} else {
				it = stackitem.DecodeBinary(r)
			}
			if r.Err != nil {
				bad("accepted-by-encoder-rejected-by-decoder:"+name, fmt.Sprintf("%d bytes, %d items: %v", len(b1), count, r.Err))
			} else if ok, path := semEqual(it, tr); !ok {
				bad("decoded-differs-from-content:"+name, "first difference at "+path)
			}
		}
	}
	// a reused context: Serialize documents a reset between calls
	{
		evals++
		sc := stackitem.NewSerializationContext()
		first, e1 := sc.Serialize(sh, false)
		first = append([]byte{}, first...)
		if (e1 == nil) != (es == nil) || (e1 == nil && !bytes.Equal(first, bs)) {
			bad("context-differs-from-Serialize", fmt.Sprintf("%s vs %s", errStr(e1), errStr(es)))
		}
		// a part of the first item, then the item again
		if kids, ok := sh.Value().([]stackitem.Item); ok && len(kids) > 0 {
			want, ew := stackitem.Serialize(kids[len(kids)-1])
			got, eg := sc.Serialize(kids[len(kids)-1], false)
			if (ew == nil) != (eg == nil) || (ew == nil && !bytes.Equal(want, got)) {
				bad("context-leaks-between-calls", fmt.Sprintf("child after parent: %s vs %s", errStr(eg), errStr(ew)))
			}
		}
		again, e2 := sc.Serialize(sh, false)
		if (e2 == nil) != (e1 == nil) || (e1 == nil && !bytes.Equal(again, first)) {
			bad("context-leaks-between-calls", fmt.Sprintf("same item twice: %s vs %s", errStr(e2), errStr(e1)))
		}
		pr, _ := sc.Serialize(sh, true)
		pw, _ := encW(func(w *io.BinWriter) { stackitem.EncodeBinaryProtected(sh, w) })
		if !bytes.Equal(pr, pw) {
			bad("context-differs-from-EncodeBinaryProtected", "")
		}
	}
	if jsonMode > 0 {
		evals++
		j1, e1 := stackitem.ToJSON(sh)
		j2, e2 := stackitem.ToJSON(tr)
		if (e1 == nil) != (e2 == nil) || (e1 == nil && !bytes.Equal(j1, j2)) {
			bad("result-depends-on-sharing:ToJSON", fmt.Sprintf("%s / %s; %d vs %d bytes", errStr(e1), errStr(e2), len(j1), len(j2)))
		}
		if e1 == nil && jsonMode > 1 {
			it, err := stackitem.FromJSON(j1, stackitem.MaxDeserialized, true)
			if err != nil {
				// FromJSON limits depth (10) and count; only the count can be hit here
				if count <= stackitem.MaxDeserialized {
					bad("accepted-by-encoder-rejected-by-decoder:ToJSON", fmt.Sprintf("%d items: %v", count, err))
				}
			} else if j3, err := stackitem.ToJSON(it); err != nil || !bytes.Equal(j3, j1) {
				// byte strings come back as the text of their base64 form: compare shapes only when none is present
				if !bytes.Contains(j1, []byte(`"`)) {
					bad("re-serialisation-differs:ToJSON", fmt.Sprintf("%v", err))
				}
			}
		}
		t1, e1 := stackitem.ToJSONWithTypes(sh)
		t2, e2 := stackitem.ToJSONWithTypes(tr)
		if (e1 == nil) != (e2 == nil) || (e1 == nil && !bytes.Equal(t1, t2)) {
			bad("result-depends-on-sharing:ToJSONWithTypes", fmt.Sprintf("%s / %s; %d vs %d bytes", errStr(e1), errStr(e2), len(t1), len(t2)))
		}
		if e1 == nil && jsonMode > 1 {
			it, err := stackitem.FromJSONWithTypes(t1)
			if err != nil {
				bad("accepted-by-encoder-rejected-by-decoder:ToJSONWithTypes", err.Error())
			} else if ok, path := semEqual(it, tr); !ok {
				bad("decoded-differs-from-content:ToJSONWithTypes", "first difference at "+path)
			}
		}
	}
	return
}

// scaled graphs: a big child x referenced k times (directly, or through a
// two-level diamond), sized to sit just below / at / above MaxSerialized items
// and MaxSize bytes.
type scaledSpec struct {
	Shape string // array | struct | map-prims | map-of-array | nested | diamond | bytes
	N, K  int
}

func (s scaledSpec) String() string { return fmt.Sprintf("scaled:%s:%d:%d", s.Shape, s.N, s.K) }

func (s scaledSpec) build(shared bool) (stackitem.Item, int) {
	mkX := func() (stackitem.Item, int) {
		kids := func(n int) []stackitem.Item {
			a := make([]stackitem.Item, n)
			for i := range a {
				a[i] = stackitem.NewBool(i%2 == 0)
			}
			return a
		}
		switch s.Shape {
		case "array", "diamond":
			return stackitem.NewArray(kids(s.N)), 1 + s.N
		case "struct":
			return stackitem.NewStruct(kids(s.N)), 1 + s.N
		case "map-prims":
			el := make([]stackitem.MapElement, s.N)
			for i := range el {
				el[i] = stackitem.MapElement{Key: mapKey(i), Value: stackitem.Null{}}
			}
			return stackitem.NewMapWithValue(el), 1 + 2*s.N
		case "map-of-array":
			return stackitem.NewMapWithValue([]stackitem.MapElement{{Key: mapKey(0), Value: stackitem.NewArray(kids(s.N))}}), 3 + s.N
		case "nested":
			return stackitem.NewArray([]stackitem.Item{stackitem.NewStruct(kids(s.N)), stackitem.NewMapWithValue([]stackitem.MapElement{{Key: mapKey(1), Value: stackitem.NewArray(kids(2))}})}), 1 + (1 + s.N) + (1 + 1 + 3)
		case "bytes":
			return stackitem.NewArray([]stackitem.Item{stackitem.NewByteArray(bytes.Repeat([]byte{7}, s.N))}), 2
		}
		panic("shape")
	}
	rep := func(mk func() (stackitem.Item, int), k int) (stackitem.Item, int) {
		var x stackitem.Item
		var sx int
		if shared {
			x, sx = mk()
		}
		kids := make([]stackitem.Item, k)
		for i := range kids {
			if shared {
				kids[i] = x
			} else {
				kids[i], sx = mk()
			}
		}
		return stackitem.NewArray(kids), 1 + k*sx
	}
	if s.Shape == "diamond" {
		// root [y x K], y = [x, x]: y is shared at the top, x inside y
		return rep(func() (stackitem.Item, int) { return rep(mkX, 2) }, s.K)
	}
	return rep(mkX, s.K)
}

func scaledSpecs(th bool) []scaledSpec {
	var out []scaledSpec
	per := map[string]func(n int) int{} // items of x, linear in n: measured on the builder
	for _, sh := range []string{"array", "struct", "map-prims", "map-of-array", "nested"} {
		_, c1 := scaledSpec{sh, 1, 1}.build(false)
		_, c2 := scaledSpec{sh, 2, 1}.build(false)
		a, b := (c1-1)-(c2-c1), c2-c1
		per[sh] = func(n int) int { return a + b*n }
	}
	shapes := []string{"array", "struct", "map-prims", "map-of-array", "nested"}
	ks := []int{2, 3, 5}
	if th {
		ks = []int{2, 3, 4, 5, 8, 16}
	}
	for _, sh := range shapes {
		for _, k := range ks {
			// all n whose total 1+k*items(x) lies within one step of the limit
			for n := 1; n < 2100; n++ {
				tot := 1 + k*per[sh](n)
				step := k * (per[sh](n+1) - per[sh](n))
				if tot > stackitem.MaxSerialized-2*step && tot <= stackitem.MaxSerialized+2*step {
					out = append(out, scaledSpec{sh, n, k})
				}
			}
		}
	}
	for _, k := range ks[:2] {
		for n := 1; n < 1100; n++ {
			tot := 1 + k*(1+2*(1+n))
			if tot > stackitem.MaxSerialized-4*k && tot <= stackitem.MaxSerialized+4*k {
				out = append(out, scaledSpec{"diamond", n, k})
			}
		}
	}
	// bytes: x is about N+5 bytes; K copies cross MaxSize
	for _, n := range []int{8000, 30000} {
		for k := 1; k*(n+5) < stackitem.MaxSize+2*(n+5); k++ {
			if k*(n+5) > stackitem.MaxSize-3*(n+5) {
				out = append(out, scaledSpec{"bytes", n, k})
			}
		}
	}
	return out
}

func dagFindingOf(spec string, f dagFinding) finding {
	return finding{Key: "dag:" + f.oracle, Mode: "dag", Codec: "stackitem.Item/graph", Oracle: f.oracle, Input: spec, Detail: short(f.detail, 600), Pkg: "pkg/vm/stackitem"}
}

func limitsFor(count int) []int {
	var ls []int
	for l := 1; l <= count+2; l++ {
		ls = append(ls, l)
	}
	return ls
}

// evalDagSpec evaluates one recorded case (used by the exploration and by replay).
func evalDagSpec(spec string, th bool) ([]finding, int, error) {
	var fs []dagFinding
	var evals int
	if strings.HasPrefix(spec, "scaled:") {
		p := strings.Split(spec, ":")
		if len(p) != 4 {
			return nil, 0, fmt.Errorf("bad spec")
		}
		n, _ := strconv.Atoi(p[2])
		k, _ := strconv.Atoi(p[3])
		s := scaledSpec{p[1], n, k}
		sh, count := s.build(true)
		tr, _ := s.build(false)
		fs, evals = checkPair(sh, tr, count, []int{count - 1, count, count + 1}, 1)
	} else {
		g, err := parseDag(spec)
		if err != nil {
			return nil, 0, err
		}
		tr, count := g.tree()
		fs, evals = checkPair(g.shared(), tr, count, limitsFor(count), 2)
	}
	var out []finding
	for _, f := range fs {
		out = append(out, dagFindingOf(spec, f))
	}
	return out, evals, nil
}

func dagPhase(r *vk.Run, th bool, report func(finding)) (evals, nontrivial int, info map[string]any) {
	graphs := enumDags(3, vk2(th, 2, 3))
	specs := make([]string, 0, len(graphs))
	sharing := 0
	for _, g := range graphs {
		specs = append(specs, g.String())
		if g.hasSharing() {
			sharing++
		}
	}
	sc := scaledSpecs(th)
	for _, s := range sc {
		specs = append(specs, s.String())
	}
	var mu sync.Mutex
	var all []finding
	const chunk = 256
	nchunks := (len(specs) + chunk - 1) / chunk
	r.Parallel(nchunks, func(ci int) {
		var loc []finding
		ev, nt := 0, 0
		for i := ci * chunk; i < min(len(specs), (ci+1)*chunk); i++ {
			var fs []finding
			var e int
			if p := guard(func() {
				var err error
				fs, e, err = evalDagSpec(specs[i], th)
				if err != nil {
					fs = append(fs, finding{Key: "harness:dag-spec", Mode: "harness", Input: specs[i], Detail: err.Error()})
				}
			}); p != "" {
				fs = append(fs, finding{Key: "panic:" + p[1:strings.Index(p, "]")], Mode: "dag", Codec: "stackitem.Item/graph", Oracle: "panic", Input: specs[i], Detail: short(p, 600), Pkg: "pkg/vm/stackitem"})
			}
			ev += e
			if i >= len(graphs) || graphs[i].hasSharing() {
				nt++
			}
			loc = append(loc, fs...)
			if len(fs) > 0 {
				r.Outcome("graph->" + fs[0].Oracle)
			} else {
				r.Outcome("graph->consistent")
			}
		}
		mu.Lock()
		evals += ev
		nontrivial += nt
		all = append(all, loc...)
		mu.Unlock()
	})
	// simplest graph first
	sortFindingsByInput(all)
	for _, f := range all {
		report(f)
	}
	r.Sample(map[string]any{"phase": "graphs", "first_shared_graph": firstShared(graphs), "scaled_example": sc[0].String()})
	info = map[string]any{"graphs": len(graphs), "graphs_with_a_shared_object": sharing, "scaled_graphs": len(sc), "graph_nodes_max": 3, "graph_width_max": vk2(th, 2, 3)}
	return
}

func firstShared(gs []dag) string {
	for _, g := range gs {
		if g.hasSharing() {
			return g.String()
		}
	}
	return ""
}

func sortFindingsByInput(fs []finding) {
	sort.SliceStable(fs, func(a, b int) bool {
		if len(fs[a].Input) != len(fs[b].Input) {
			return len(fs[a].Input) < len(fs[b].Input)
		}
		return fs[a].Input < fs[b].Input
	})
}

func replayDag(r *vk.Run, f finding) int {
	for k := 0; k < 5; k++ {
		fs, _, err := evalDagSpec(f.Input, r.Thorough())
		var keys []string
		for _, x := range fs {
			keys = append(keys, x.Key)
			if x.Key == f.Key {
				r.Violation(x.Key, x)
			}
		}
		fmt.Printf("replay %d: graph %s -> %v %v\n", k+1, f.Input, keys, err)
	}
	return 5
}
