// C17 phase H, family "ledger": a real core.Blockchain (lib/chainx). NEF files
// and manifests travel as deploy / update ARGUMENTS (byte strings inside a
// transaction script), through the VM into the Management storage, into the
// contract cache, into the execution result of the deploying transaction and
// into the JSON form; the blocks and transactions carrying them go through the
// trimmed database form. Whatever comes back out - before the write cache is
// flushed, after it, and after a restart on the same store - must be the bytes
// that went in.
package c17

import (
	"bytes"
	"encoding/json"
	"fmt"

	"github.com/nspcc-dev/neo-go/pkg/core/block"
	"github.com/nspcc-dev/neo-go/pkg/core/native"
	"github.com/nspcc-dev/neo-go/pkg/core/native/nativehashes"
	"github.com/nspcc-dev/neo-go/pkg/core/state"
	"github.com/nspcc-dev/neo-go/pkg/core/transaction"
	"github.com/nspcc-dev/neo-go/pkg/crypto/keys"
	"github.com/nspcc-dev/neo-go/pkg/io"
	"github.com/nspcc-dev/neo-go/pkg/neotest"
	"github.com/nspcc-dev/neo-go/pkg/network"
	"github.com/nspcc-dev/neo-go/pkg/smartcontract"
	"github.com/nspcc-dev/neo-go/pkg/smartcontract/callflag"
	"github.com/nspcc-dev/neo-go/pkg/smartcontract/manifest"
	"github.com/nspcc-dev/neo-go/pkg/smartcontract/nef"
	"github.com/nspcc-dev/neo-go/pkg/smartcontract/trigger"
	"github.com/nspcc-dev/neo-go/pkg/util"
	"github.com/nspcc-dev/neo-go/pkg/vm/opcode"
	"github.com/nspcc-dev/neo-go/pkg/vm/stackitem"
	"github.com/nspcc-dev/neo-go/pkg/vm/vmstate"

	"verif/lib/chainx"
)

func ledgerCases(th bool) []embedCase {
	var out []embedCase
	for _, sr := range []bool{false, true} {
		sr := sr
		out = append(out, embedCase{family: "ledger", id: fmt.Sprintf("single/sr=%v", sr), run: func(c *embedCtx) { ledgerOne(c, sr) }})
	}
	return out
}

// handMade: a tiny contract whose NEF uses every field (source, two method
// tokens) and whose manifest uses groups, permissions, trusts, standards, events
// and a nested Extra.
func handMade(name string, sender util.Uint160, script []byte, variant int) (*neotest.Contract, error) {
	ne, err := nef.NewFile(script)
	if err != nil {
		return nil, err
	}
	ne.Source = "https://example.org/" + name + ".go"
	ne.Tokens = []nef.MethodToken{
		{Hash: nativehashes.StdLib, Method: "itoa", ParamCount: 1, HasReturn: true, CallFlag: callflag.ReadStates},
		{Hash: util.Uint160{1, 2, 3}, Method: "m", ParamCount: 0, HasReturn: false, CallFlag: callflag.All},
	}
	if variant == 1 {
		ne.Tokens = ne.Tokens[:1]
		ne.Source = ""
	}
	ne.Checksum = ne.CalculateChecksum()
	h := state.CreateContractHash(sender, ne.Checksum, name)
	m := manifest.NewManifest(name)
	m.ABI.Methods = []manifest.Method{
		{Name: "main", Offset: 0, ReturnType: smartcontract.IntegerType, Safe: true, Parameters: []manifest.Parameter{}},
		{Name: "other", Offset: len(script) - 1, ReturnType: smartcontract.VoidType, Parameters: []manifest.Parameter{{Name: "a", Type: smartcontract.ByteArrayType}, {Name: "b", Type: smartcontract.MapType}}},
	}
	m.ABI.Events = []manifest.Event{{Name: "E", Parameters: []manifest.Parameter{{Name: "x", Type: smartcontract.AnyType}}}}
	m.SupportedStandards = []string{"NEP-99", "X"}
	m.Extra = json.RawMessage(`{"k":[1,2,{"z":null}],"a":"b"}`)
	gk := consPrivs[variant]
	m.Groups = []manifest.Group{{PublicKey: gk.PublicKey(), Signature: gk.Sign(h.BytesBE())}}
	p1 := manifest.NewPermission(manifest.PermissionHash, nativehashes.StdLib)
	p1.Methods.Add("itoa")
	p2 := manifest.NewPermission(manifest.PermissionGroup, consPrivs[2].PublicKey())
	m.Permissions = []manifest.Permission{*p1, *p2}
	if variant == 1 {
		m.Permissions = []manifest.Permission{*manifest.NewPermission(manifest.PermissionWildcard)}
		m.Trusts.Add(manifest.PermissionDesc{Type: manifest.PermissionHash, Value: util.Uint160{9}})
		m.Trusts.Add(manifest.PermissionDesc{Type: manifest.PermissionGroup, Value: consPrivs[3].PublicKey()})
		m.Extra = nil
	}
	return &neotest.Contract{Hash: h, NEF: ne, Manifest: m}, nil
}

type deployed struct {
	name     string
	c        *neotest.Contract
	nefB     []byte
	manJ     []byte
	tx       *transaction.Transaction
	counter  uint16
	viaStack bool // the execution result of tx carries the contract on its stack
}

func ledgerOne(c *embedCtx, sr bool) {
	class := fmt.Sprintf("sr=%v", sr)
	n, err := chainx.New(chainx.Opts{SRIH: sr})
	if err != nil {
		c.bad("harness", class, "chain: %v", err)
		return
	}
	defer func() {
		if n != nil {
			n.Close()
		}
	}()
	signer := n.Validator
	sender := signer.ScriptHash()
	mgmt := n.BC.ManagementContractHash()
	mcs := n.BC.GetContractState(mgmt)
	if mcs == nil {
		c.bad("harness", class, "no Management contract state")
		return
	}
	mgmtID := mcs.ID

	var contracts []*deployed
	mk := func(name string, ct *neotest.Contract, err error) *deployed {
		if err != nil {
			panic("harness: contract " + name + ": " + err.Error())
		}
		nb, err := ct.NEF.Bytes()
		if err != nil {
			panic("harness: NEF of " + name + ": " + err.Error())
		}
		mj, err := json.Marshal(ct.Manifest)
		if err != nil {
			panic("harness: manifest of " + name + ": " + err.Error())
		}
		return &deployed{name: name, c: ct, nefB: nb, manJ: mj}
	}
	u1, err := chainx.CompileU(chainx.UVariant{Name: "U1", Sender: sender})
	contracts = append(contracts, mk("U1", u1, err))
	u2, err := chainx.CompileU(chainx.UVariant{Name: "U2", Sender: sender,
		Permissions: []manifest.Permission{*manifest.NewPermission(manifest.PermissionHash, mgmt), *manifest.NewPermission(manifest.PermissionGroup, consPrivs[1].PublicKey())}})
	if err == nil {
		u2.Manifest.Groups = []manifest.Group{{PublicKey: consPrivs[4].PublicKey(), Signature: consPrivs[4].Sign(u2.Hash.BytesBE())}}
	}
	contracts = append(contracts, mk("U2", u2, err))
	small := []byte{byte(opcode.PUSH1), byte(opcode.RET), byte(opcode.RET)}
	h1, err := handMade("T1", sender, small, 0)
	contracts = append(contracts, mk("T1", h1, err))
	h2, err := handMade("T2", sender, cat([]byte{byte(opcode.PUSHDATA1), 200}, rep(0xab, 200), []byte{byte(opcode.DROP), byte(opcode.PUSH2), byte(opcode.RET), byte(opcode.RET)}), 1)
	contracts = append(contracts, mk("T2", h2, err))

	type blk struct {
		b *block.Block
		y []byte
	}
	var chain []blk
	addBlock := func(what string, txs ...*transaction.Transaction) bool {
		b, err := n.AddBlock(txs...)
		if err != nil {
			c.bad("harness", class, "%s: block rejected: %v", what, err)
			return false
		}
		chain = append(chain, blk{b, mustEnc(b)})
		for _, t := range txs {
			aers, err := n.BC.GetAppExecResults(t.Hash(), trigger.Application)
			if err != nil || len(aers) != 1 || aers[0].VMState != vmstate.Halt {
				fe := ""
				if len(aers) == 1 {
					fe = aers[0].FaultException
				}
				c.bad("harness", class, "%s: transaction did not HALT: %v %s", what, err, fe)
				return false
			}
		}
		return true
	}
	// block 1: two deployments in one block; block 2: the two others, one with data
	var txs []*transaction.Transaction
	for i, d := range contracts {
		var data any
		if i%2 == 1 {
			data = []any{int64(i), []byte{1, 2, 3}}
		}
		tx, err := n.DeployTx(d.c, signer, data)
		if err != nil {
			c.bad("harness", class, "deploy tx of %s: %v", d.name, err)
			return
		}
		d.tx, d.viaStack = tx, true
		txs = append(txs, tx)
		if i%2 == 1 {
			if !addBlock("deploy", txs...) {
				return
			}
			txs = nil
		}
	}
	check := func(stage string) {
		cls := class + ":" + stage
		for _, d := range contracts {
			ledgerContract(c, cls, n, mgmtID, d)
		}
		for i, bl := range chain {
			ledgerBlock(c, cls, n, sr, bl.b, bl.y, i)
			// the state root of block i: stored by the state module, embedded in the header of block i+1
			root, err := n.BC.GetStateModule().GetStateRoot(bl.b.Index)
			if err != nil {
				c.bad("state-root-unreadable", cls, "height %d: %v", bl.b.Index, err)
				continue
			}
			c.evals++
			rb := mustEnc(root)
			back := new(state.MPTRoot)
			if r := io.NewBinReaderFromBuf(rb); true {
				back.DecodeBinary(r)
				if r.Err != nil || !bytes.Equal(mustEnc(back), rb) || back.Hash() != root.Hash() || root.Index != bl.b.Index {
					c.bad("state-root-differs-after-the-database", cls, "height %d: %v", bl.b.Index, r.Err)
				}
			}
			if sr && i+1 < len(chain) && chain[i+1].b.PrevStateRoot != root.Root {
				c.bad("state-root-in-header-differs-from-the-stored-root", cls, "header %d carries %s, the state module has %s for height %d", chain[i+1].b.Index, chain[i+1].b.PrevStateRoot.StringLE(), root.Root.StringLE(), bl.b.Index)
			}
		}
	}
	check("fresh")
	// U1 updates itself: a new NEF (source changed) and a manifest with one more standard and an Extra
	{
		d := contracts[0]
		ne2 := *d.c.NEF
		ne2.Source = "updated"
		ne2.Checksum = ne2.CalculateChecksum()
		nb2, err := ne2.Bytes()
		if err != nil {
			c.bad("harness", class, "updated NEF: %v", err)
			return
		}
		m2 := *d.c.Manifest
		m2.SupportedStandards = []string{"NEP-17-like"}
		m2.Extra = json.RawMessage(`[1,"two",{"three":3}]`)
		mj2, _ := json.Marshal(&m2)
		tx, err := n.CallTx([]neotest.Signer{signer}, d.c.Hash, "run", []any{[]any{chainx.OpCall, mgmt.BytesBE(), "update", 15, []any{nb2, mj2, nil}}})
		if err != nil {
			c.bad("harness", class, "update tx: %v", err)
			return
		}
		if !addBlock("update", tx) {
			return
		}
		contracts[0] = &deployed{name: "U1-updated", c: &neotest.Contract{Hash: d.c.Hash, NEF: &ne2, Manifest: &m2}, nefB: nb2, manJ: mj2, tx: tx, counter: 1}
	}
	// an empty block on top
	if !addBlock("empty") {
		return
	}
	check("updated")
	if err := n.Persist(); err != nil {
		c.bad("harness", class, "persist: %v", err)
		return
	}
	check("flushed")
	n2, err := n.Reopen()
	n = n2
	if err != nil {
		c.bad("harness", class, "reopen: %v", err)
		return
	}
	check("restarted")
	c.outcome = class + fmt.Sprintf(":%d-contracts:%d-blocks:4-stages", len(contracts), len(chain))
}

func ledgerContract(c *embedCtx, cls string, n *chainx.Node, mgmtID int32, d *deployed) {
	what := d.name
	cs := n.BC.GetContractState(d.c.Hash)
	if cs == nil {
		c.bad("deployed-contract-missing", cls, "%s", what)
		return
	}
	c.evals++
	if nb, err := cs.NEF.Bytes(); err != nil || !bytes.Equal(nb, d.nefB) || cs.NEF.Checksum != d.c.NEF.Checksum {
		c.bad("nef-differs-from-the-deployed-bytes", cls, "%s: %s (%v)", what, diffAt(nb, d.nefB), err)
	}
	if mj, err := json.Marshal(&cs.Manifest); err != nil || !bytes.Equal(mj, d.manJ) {
		c.bad("manifest-differs-from-the-deployed-json", cls, "%s: %s vs %s (%v)", what, short(string(mj), 400), short(string(d.manJ), 400), err)
	}
	if cs.Hash != d.c.Hash || cs.UpdateCounter != d.counter {
		c.bad("contract-head-differs", cls, "%s: hash %s/%s counter %d/%d", what, cs.Hash.StringLE(), d.c.Hash.StringLE(), cs.UpdateCounter, d.counter)
	}
	// the storage item behind the cached state
	raw := n.BC.GetStorageItem(mgmtID, native.MakeContractKey(d.c.Hash))
	if raw == nil {
		c.bad("contract-storage-item-missing", cls, "%s", what)
		return
	}
	ser := func(x *state.Contract) ([]byte, error) {
		it, err := x.ToStackItem()
		if err != nil {
			return nil, err
		}
		return stackitem.Serialize(it)
	}
	if b, err := ser(cs); err != nil || !bytes.Equal(b, raw) {
		c.bad("cached-contract-differs-from-its-storage-item", cls, "%s: %s (%v)", what, diffAt(b, raw), err)
	}
	st := new(state.Contract)
	if err := stackitem.DeserializeConvertible(raw, st); err != nil {
		c.bad("contract-storage-item-unreadable", cls, "%s: %v", what, err)
	} else {
		c.evals++
		if nb, err := st.NEF.Bytes(); err != nil || !bytes.Equal(nb, d.nefB) {
			c.bad("nef-differs-in-the-storage-item", cls, "%s: %s (%v)", what, diffAt(nb, d.nefB), err)
		}
		if b, err := ser(st); err != nil || !bytes.Equal(b, raw) {
			c.bad("contract-differs-after-the-storage", cls, "%s: %s (%v)", what, diffAt(b, raw), err)
		}
	}
	// JSON (getcontractstate) and back
	if j, err := json.Marshal(cs); err != nil {
		c.bad("contract-json-does-not-encode", cls, "%s: %v", what, err)
	} else {
		back := new(state.Contract)
		if err := json.Unmarshal(j, back); err != nil {
			c.bad("contract-json-rejected", cls, "%s: %v", what, err)
		} else {
			c.evals++
			if b, err := ser(back); err != nil || !bytes.Equal(b, raw) {
				c.bad("contract-differs-between-storage-and-json", cls, "%s: %s (%v)", what, diffAt(b, raw), err)
			}
		}
	}
	// the contract as returned by deploy: on the stack of the execution result
	if d.viaStack {
		aers, err := n.BC.GetAppExecResults(d.tx.Hash(), trigger.Application)
		if err != nil || len(aers) != 1 || len(aers[0].Stack) != 1 {
			c.bad("deploy-result-unreadable", cls, "%s: %v", what, err)
		} else {
			c.evals++
			rs := new(state.Contract)
			if err := rs.FromStackItem(aers[0].Stack[0]); err != nil {
				c.bad("contract-on-the-result-stack-unreadable", cls, "%s: %v", what, err)
			} else if nb, err := rs.NEF.Bytes(); err != nil || !bytes.Equal(nb, d.nefB) || rs.Hash != d.c.Hash {
				c.bad("nef-differs-on-the-result-stack", cls, "%s: %s (%v)", what, diffAt(nb, d.nefB), err)
			} else if mj, err := json.Marshal(&rs.Manifest); err != nil || !bytes.Equal(mj, d.manJ) {
				c.bad("manifest-differs-on-the-result-stack", cls, "%s: %s (%v)", what, short(string(mj), 300), err)
			}
			// the Deploy notification names the contract
			found := false
			for _, e := range aers[0].Events {
				if e.Name == "Deploy" {
					if arr, ok := e.Item.Value().([]stackitem.Item); ok && len(arr) == 1 {
						if b, err := arr[0].TryBytes(); err == nil && bytes.Equal(b, d.c.Hash.BytesBE()) {
							found = true
						}
					}
				}
			}
			if !found {
				c.bad("deploy-notification-differs", cls, "%s: no Deploy event with the contract hash among %d events", what, len(aers[0].Events))
			}
		}
	}
}

func ledgerBlock(c *embedCtx, cls string, n *chainx.Node, sr bool, b *block.Block, y []byte, i int) {
	what := fmt.Sprintf("block %d (%d txs)", b.Index, len(b.Transactions))
	got, err := n.BC.GetBlock(b.Hash())
	if err != nil {
		c.bad("stored-block-unreadable", cls, "%s: %v", what, err)
		return
	}
	c.evals++
	gy, err := encS(got)
	if err != nil || !bytes.Equal(gy, y) {
		c.bad("block-differs-after-the-database", cls, "%s: %s (%v)", what, diffAt(gy, y), err)
		return
	}
	if got.Hash() != b.Hash() || io.GetVarSize(got) != len(y) {
		c.bad("block-identity-differs-after-the-database", cls, "%s: hash %s/%s size %d/%d", what, got.Hash().StringLE(), b.Hash().StringLE(), io.GetVarSize(got), len(y))
	}
	if hh := n.BC.GetHeaderHash(b.Index); hh != b.Hash() {
		c.bad("header-hash-by-index-differs", cls, "%s: %s vs %s", what, hh.StringLE(), b.Hash().StringLE())
	}
	hdr := mustEnc(&b.Header)
	if h, err := n.BC.GetHeader(b.Hash()); err != nil || !bytes.Equal(mustEnc(h), hdr) {
		c.bad("header-differs-after-the-database", cls, "%s: %v", what, err)
	}
	for k, t := range b.Transactions {
		t2, height, err := n.BC.GetTransaction(t.Hash())
		if err != nil {
			c.bad("stored-transaction-unreadable", cls, "%s tx %d: %v", what, k, err)
			continue
		}
		c.evals++
		if w := mustEnc(t); height != b.Index || !bytes.Equal(mustEnc(t2), w) || t2.Hash() != t.Hash() || t2.Size() != len(w) {
			c.bad("transaction-differs-after-the-database", cls, "%s tx %d: height %d, %s", what, k, height, diffAt(mustEnc(t2), w))
		}
	}
	// what a peer gets when it asks for the block, and what RPC clients get
	for _, compress := range []bool{false, true} {
		raw, err := network.NewMessage(network.CMDBlock, got).BytesCompressed(compress)
		if err != nil {
			c.bad("message-does-not-encode", cls, "%s: %v", what, err)
			continue
		}
		m, err := decodeMsg(raw, sr)
		if err != nil {
			c.bad("own-message-rejected", cls, "%s: %v", what, err)
			continue
		}
		c.evals++
		if w, err := encS(m.Payload.(*block.Block)); err != nil || !bytes.Equal(w, y) {
			c.bad("block-differs-after-database-and-message", cls, "%s: %s (%v)", what, diffAt(w, y), err)
		}
	}
	j, err := json.Marshal(got)
	if err != nil {
		c.bad("block-json-does-not-encode", cls, "%s: %v", what, err)
		return
	}
	jb := block.New(sr)
	if err := json.Unmarshal(j, jb); err != nil {
		c.bad("block-json-rejected", cls, "%s: %v", what, err)
		return
	}
	c.evals++
	if w, err := encS(jb); err != nil || !bytes.Equal(w, y) || jb.Hash() != b.Hash() {
		c.bad("block-differs-after-database-and-json", cls, "%s: %s (%v)", what, diffAt(w, y), err)
	}
}

var _ = keys.NewPrivateKey
