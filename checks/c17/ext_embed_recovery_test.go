// C17 phase H, families "recovery", "recovery-full", "consensus-extensible":
// REAL (signed) consensus payloads put into a RecoveryMessage through
// AddPayload and taken out again through Get*, as built and after the message
// went over the wire.
//
// What the compact forms carry (pkg/consensus/recovery_message.go) and what is
// therefore demanded (consistent with checks/c19/ext_algebra_test.go):
//   - ChangeView: validator, ORIGINAL view, timestamp, invocation script. Not
//     carried: reason and rejected hashes -> a ChangeView sent with reason
//     Timeout (0, no hashes) must come back byte-identical from a carrier of any
//     view; for the other reasons only the carried fields are compared.
//   - Commit: view, validator, signature, invocation script -> byte-identical
//     from a carrier of any view.
//   - PrepareResponse: validator and invocation script, the preparation hash once
//     per message, NO view -> byte-identical only when the carrier has the
//     payload's view (other views: nothing demanded).
//   - PrepareRequest: the whole message body + the primary's invocation script;
//     GetPrepareRequest documents nothing about the view: demanded only for
//     carrier view == payload view (the other views are counted, not judged).
//     After serialisation the preparation hash is not carried next to an embedded
//     request (the service fills it in): responses are then not demanded.
package c17

import (
	"bytes"
	"fmt"
	"sort"

	"github.com/nspcc-dev/dbft"
	"github.com/nspcc-dev/neo-go/pkg/config/netmode"
	"github.com/nspcc-dev/neo-go/pkg/consensus"
	"github.com/nspcc-dev/neo-go/pkg/core/transaction"
	"github.com/nspcc-dev/neo-go/pkg/crypto/keys"
	"github.com/nspcc-dev/neo-go/pkg/io"
	"github.com/nspcc-dev/neo-go/pkg/network"
	"github.com/nspcc-dev/neo-go/pkg/network/payload"
	"github.com/nspcc-dev/neo-go/pkg/util"
	"github.com/nspcc-dev/neo-go/pkg/vm/emit"
)

type consNet struct {
	magic netmode.Magic
	sr    bool
	privs []*keys.PrivateKey
	vals  []dbft.PublicKey
}

var consPrivs = func() []*keys.PrivateKey {
	var out []*keys.PrivateKey
	for i := 0; i < 7; i++ {
		b := make([]byte, 32)
		b[0], b[31] = 0x17, byte(0x21+i)
		p, err := keys.NewPrivateKeyFromBytes(b)
		if err != nil {
			panic(err)
		}
		out = append(out, p)
	}
	return out
}()

func newConsNet(n int, sr bool) *consNet {
	cn := &consNet{magic: netmode.UnitTestNet, sr: sr, privs: consPrivs[:n]}
	for _, p := range cn.privs {
		cn.vals = append(cn.vals, p.PublicKey())
	}
	return cn
}

func (cn *consNet) decode(wire []byte) (*consensus.Payload, error) {
	p := consensus.NewPayload(cn.magic, cn.sr)
	r := io.NewBinReaderFromBuf(wire)
	p.DecodeBinary(r)
	if r.Err != nil {
		return nil, r.Err
	}
	if r.Len() != 0 {
		return nil, fmt.Errorf("harness: %d trailing bytes", r.Len())
	}
	return p, nil
}

func consMsg(t byte, h uint32, idx int, view byte, body []byte) []byte {
	return cat([]byte{t}, le32(h), []byte{byte(idx), view}, body)
}

// signed builds the payload validator i broadcasts for the message msg at
// height h the way consensus.Payload.Sign does, and reads it off the wire.
func (cn *consNet) signed(i int, h uint32, msg []byte) ([]byte, *consensus.Payload, error) {
	e := &payload.Extensible{Category: payload.ConsensusCategory, ValidBlockStart: 0, ValidBlockEnd: h,
		Sender: cn.privs[i].PublicKey().GetScriptHash(), Data: msg}
	sig := cn.privs[i].SignHashable(uint32(cn.magic), e)
	bw := io.NewBufBinWriter()
	emit.Bytes(bw.BinWriter, sig)
	e.Witness = transaction.Witness{InvocationScript: bw.Bytes(), VerificationScript: cn.privs[i].PublicKey().GetVerificationScript()}
	wire, err := encS(e)
	if err != nil {
		return nil, nil, err
	}
	p, err := cn.decode(wire)
	return wire, p, err
}

// emptyRecoveryBody: no change views, no request, no preparation hash, no
// preparations, no commits.
var emptyRecoveryBody = []byte{0, 0, 0, 0, 0}

func (cn *consNet) carrier(h uint32, view byte, s int, body []byte) (*consensus.Payload, error) {
	if body == nil {
		body = emptyRecoveryBody
	}
	_, p, err := cn.signed(s, h, consMsg(0x41, h, s, view, body))
	return p, err
}

func wireOfPayload(p dbft.ConsensusPayload[util.Uint256]) ([]byte, *consensus.Payload, error) {
	cp, ok := p.(*consensus.Payload)
	if !ok || cp == nil {
		return nil, nil, fmt.Errorf("restored payload is %T", p)
	}
	q := *cp // EncodeBinary fills Data of the value it encodes
	b, err := encS(&q)
	return b, &q, err
}

func (cn *consNet) sigValid(p *consensus.Payload, i int) bool {
	inv := p.Witness.InvocationScript
	if len(inv) != 66 || inv[0] != 0x0c || inv[1] != 64 {
		return false
	}
	_ = p.Hash()
	return cn.privs[i].PublicKey().VerifyHashable(inv[2:], uint32(cn.magic), &p.Extensible)
}

// sameRestored demands byte identity of a restored payload with the original.
func (cn *consNet) sameRestored(c *embedCtx, class, what string, i int, origWire []byte, orig *consensus.Payload, got dbft.ConsensusPayload[util.Uint256]) {
	c.evals++
	w, q, err := wireOfPayload(got)
	if err != nil {
		c.bad("restored-payload-does-not-encode", class, "%s: %v", what, err)
		return
	}
	if !bytes.Equal(w, origWire) {
		var diffs []string
		if q.ViewNumber() != orig.ViewNumber() {
			diffs = append(diffs, fmt.Sprintf("view %d instead of %d", q.ViewNumber(), orig.ViewNumber()))
		}
		if q.ValidatorIndex() != orig.ValidatorIndex() {
			diffs = append(diffs, fmt.Sprintf("validator %d instead of %d", q.ValidatorIndex(), orig.ValidatorIndex()))
		}
		if q.Height() != orig.Height() {
			diffs = append(diffs, fmt.Sprintf("height %d instead of %d", q.Height(), orig.Height()))
		}
		if q.Sender != orig.Sender {
			diffs = append(diffs, "sender differs")
		}
		if q.ValidBlockStart != orig.ValidBlockStart || q.ValidBlockEnd != orig.ValidBlockEnd {
			diffs = append(diffs, fmt.Sprintf("valid range %d..%d instead of %d..%d", q.ValidBlockStart, q.ValidBlockEnd, orig.ValidBlockStart, orig.ValidBlockEnd))
		}
		if !bytes.Equal(q.Witness.InvocationScript, orig.Witness.InvocationScript) {
			diffs = append(diffs, "invocation script differs")
		}
		if !bytes.Equal(q.Witness.VerificationScript, orig.Witness.VerificationScript) {
			diffs = append(diffs, "verification script differs")
		}
		if !bytes.Equal(q.Data, orig.Data) {
			diffs = append(diffs, fmt.Sprintf("message data %s instead of %s", short(hx(q.Data), 80), short(hx(orig.Data), 80)))
		}
		c.bad("restored-payload-differs", class, "%s: %v; %s; hash %s instead of %s; original signature valid for the restored payload: %v",
			what, diffs, diffAt(w, origWire), q.Hash().StringLE()[:16], orig.Hash().StringLE()[:16], cn.sigValid(q, i))
		return
	}
	if q.Hash() != orig.Hash() {
		c.bad("restored-hash-differs", class, "%s: %s instead of %s", what, q.Hash().StringLE(), orig.Hash().StringLE())
	}
	if !cn.sigValid(q, i) {
		c.bad("restored-signature-invalid", class, "%s: the witness of validator %d does not verify for the restored payload", what, i)
	}
}

// ---- message bodies ----------------------------------------------------------------------------

type consBody struct {
	name string
	body []byte
}

func (cn *consNet) changeViewBodies() []consBody {
	hashes := func(n int) []byte {
		b := varint(uint64(n))
		for k := 0; k < n; k++ {
			b = append(b, h256(byte(k+1))...)
		}
		return b
	}
	var out []consBody
	for _, ts := range []uint64{1, 0x0102030405060708, 1<<64 - 1} {
		out = append(out, consBody{fmt.Sprintf("timeout/ts%x", ts), cat(le64(ts), []byte{byte(dbft.CVTimeout)})})
	}
	for _, r := range []dbft.ChangeViewReason{dbft.CVChangeAgreement, dbft.CVTxNotFound, dbft.CVBlockRejectedByPolicy, dbft.CVUnknown} {
		out = append(out, consBody{fmt.Sprintf("reason%02x", byte(r)), cat(le64(0x1122334455), []byte{byte(r)})})
	}
	for _, r := range []dbft.ChangeViewReason{dbft.CVTxRejectedByPolicy, dbft.CVTxInvalid} {
		for _, n := range []int{0, 2} {
			out = append(out, consBody{fmt.Sprintf("reason%02x+%dhashes", byte(r), n), cat(le64(0x1122334455), []byte{byte(r)}, hashes(n))})
		}
	}
	return out
}

func (cn *consNet) prepareRequestBodies() []consBody {
	var out []consBody
	for _, n := range []int{0, 1, 3} {
		b := cat(le32(0), h256(0x77), le64(0x0102030405060708+uint64(n)), le64(0xa1a2a3a4a5a6a7a8), varint(uint64(n)))
		for k := 0; k < n; k++ {
			b = append(b, h256(byte(0x30+k))...)
		}
		if cn.sr {
			b = append(b, h256(0x99)...)
		}
		out = append(out, consBody{fmt.Sprintf("%dtx", n), b})
	}
	return out
}

func commitBodies() []consBody {
	sig := make([]byte, 64)
	for i := range sig {
		sig[i] = byte(i + 1)
	}
	return []consBody{{"sig-ramp", sig}, {"sig-ff", rep(0xff, 64)}}
}

func prepareResponseBodies() []consBody {
	return []consBody{{"hash-ramp", h256(0x42)}, {"hash-zero", make([]byte, 32)}}
}

const (
	cvType   = 0x00
	reqType  = 0x20
	respType = 0x21
	comType  = 0x30
)

// ---- family "recovery": one payload per message --------------------------------------------

func recoveryCases(th bool) []embedCase {
	var out []embedCase
	ns := []int{4}
	if th {
		ns = []int{4, 7}
	}
	for _, sr := range []bool{false, true} {
		for _, n := range ns {
			cn := newConsNet(n, sr)
			type kindT struct {
				name   string
				t      byte
				bodies []consBody
			}
			kinds := []kindT{
				{"ChangeView", cvType, cn.changeViewBodies()},
				{"Commit", comType, commitBodies()},
				{"PrepareResponse", respType, prepareResponseBodies()},
				{"PrepareRequest", reqType, cn.prepareRequestBodies()},
			}
			senders := []int{0, n - 1}
			if th {
				senders = nil
				for s := 0; s < n; s++ {
					senders = append(senders, s)
				}
			}
			for _, h := range []uint32{1, 0x01020304} {
				for _, k := range kinds {
					for _, bd := range k.bodies {
						for N := byte(0); N <= vk2(th, byte(2), byte(3)); N++ {
							for M := byte(0); M <= vk2(th, byte(3), byte(5)); M++ {
								for i := 0; i < n; i++ {
									for _, s := range senders {
										k, bd, N, M, i, s, h := k, bd, N, M, i, s, h
										id := fmt.Sprintf("sr=%v/n=%d/h=%d/%s/%s/sent-in-view-%d/carrier-view-%d/validator-%d/carrier-sender-%d", sr, n, h, k.name, bd.name, N, M, i, s)
										out = append(out, embedCase{family: "recovery", id: id, run: func(c *embedCtx) {
											cn.recoveryOne(c, k.name, k.t, bd, h, N, M, i, s)
										}})
									}
								}
							}
						}
					}
				}
			}
		}
	}
	return out
}

func viewRel(N, M byte) string {
	switch {
	case N == M:
		return "carrier-view-equal"
	case N < M:
		return "carrier-view-higher"
	}
	return "carrier-view-lower"
}

func (cn *consNet) recoveryOne(c *embedCtx, kind string, t byte, bd consBody, h uint32, N, M byte, i, s int) {
	origWire, orig, err := cn.signed(i, h, consMsg(t, h, i, N, bd.body))
	if err != nil {
		c.bad("harness", kind, "original %s does not parse: %v", kind, err)
		return
	}
	if !cn.sigValid(orig, i) {
		c.bad("harness", kind, "original signature does not verify")
		return
	}
	class := kind + ":" + viewRel(N, M)
	// what is demanded for this combination
	demand := "identity"
	switch {
	case t == cvType && bd.body[8] != byte(dbft.CVTimeout):
		demand = "carried-fields"
	case t == respType && N != M:
		demand = "none:view-not-carried"
	case t == reqType && N != M:
		demand = "none:request-view-of-carrier"
	}
	outs := ""
	for stage, st := range []string{"built", "parsed"} {
		car, err := cn.carrier(h, M, s, nil)
		if err != nil {
			c.bad("harness", kind, "carrier: %v", err)
			return
		}
		rec := car.GetRecoveryMessage()
		rec.AddPayload(orig)
		if stage == 1 {
			body, err := encS(rec.(io.Serializable))
			if err != nil {
				c.bad("recovery-message-does-not-encode", class, "%v", err)
				return
			}
			car, err = cn.carrier(h, M, s, body)
			if err != nil {
				c.bad("serialised-recovery-message-rejected", class, "%v (body %s)", err, short(hx(body), 200))
				return
			}
			rec = car.GetRecoveryMessage()
		}
		cls := class + ":" + st
		req := rec.GetPrepareRequest(car, cn.vals, uint16(i))
		resps := rec.GetPrepareResponses(car, cn.vals)
		coms := rec.GetCommits(car, cn.vals)
		cvs := rec.GetChangeViews(car, cn.vals)
		var got []dbft.ConsensusPayload[util.Uint256]
		switch t {
		case cvType:
			got = cvs
		case comType:
			got = coms
		case respType:
			got = resps
		case reqType:
			if req != nil {
				got = append(got, req)
			}
			// the primary's compact also comes back as a "response" (callers skip it)
			resps = nil
			req = nil
		}
		// nothing but the added payload comes out
		others := map[string]int{"ChangeView": len(cvs), "Commit": len(coms), "PrepareResponse": len(resps), "PrepareRequest": 0}
		if req != nil {
			others["PrepareRequest"] = 1
		}
		delete(others, kind)
		for _, k := range sortedKeys(others) {
			if others[k] != 0 {
				c.bad("payloads-of-another-kind-come-out", cls, "added one %s: %d %s come out", kind, others[k], k)
			}
		}
		if len(got) != 1 {
			c.bad("restored-payload-count", cls, "added one %s of validator %d, %d come out", kind, i, len(got))
			continue
		}
		if ph := rec.PreparationHash(); t == respType && (ph == nil || !bytes.Equal(ph[:], bd.body)) {
			c.bad("preparation-hash-differs", cls, "PreparationHash() %v, the response carries %s", ph, hx(bd.body))
		} else if t == reqType && ph != nil && *ph != orig.Hash() {
			c.bad("preparation-hash-differs", cls, "PreparationHash() %s, the added request has %s", ph.StringLE(), orig.Hash().StringLE())
		} else if t == reqType && stage == 0 && ph == nil {
			c.bad("preparation-hash-differs", cls, "PreparationHash() is nil after AddPayload(PrepareRequest)")
		}
		what := fmt.Sprintf("%s of validator %d sent in view %d, carrier of view %d from validator %d (%s)", kind, i, N, M, s, st)
		switch demand {
		case "identity":
			cn.sameRestored(c, cls, what, i, origWire, orig, got[0])
			if t == cvType {
				// not part of the wire form: derived from the view the ChangeView was sent in
				if nv := got[0].GetChangeView().NewViewNumber(); nv != N+1 {
					c.bad("restored-change-view-asks-for-another-view", cls, "%s: asks for view %d", what, nv)
				}
			}
		case "carried-fields":
			c.evals++
			_, q, err := wireOfPayload(got[0])
			if err != nil {
				c.bad("restored-payload-does-not-encode", cls, "%s: %v", what, err)
				break
			}
			_ = q.Hash()
			var diffs []string
			if q.ViewNumber() != N {
				diffs = append(diffs, fmt.Sprintf("view %d instead of %d", q.ViewNumber(), N))
			}
			if int(q.ValidatorIndex()) != i || q.Height() != h || q.Sender != orig.Sender {
				diffs = append(diffs, fmt.Sprintf("validator %d height %d sender %s", q.ValidatorIndex(), q.Height(), q.Sender.StringLE()))
			}
			if len(q.Data) < 15 || !bytes.Equal(q.Data[:15], orig.Data[:15]) {
				diffs = append(diffs, fmt.Sprintf("message head and timestamp %s instead of %s", hx(q.Data[:min(15, len(q.Data))]), hx(orig.Data[:15])))
			}
			if !bytes.Equal(q.Witness.InvocationScript, orig.Witness.InvocationScript) || !bytes.Equal(q.Witness.VerificationScript, orig.Witness.VerificationScript) {
				diffs = append(diffs, "witness differs")
			}
			if nv := q.GetChangeView().NewViewNumber(); nv != N+1 {
				diffs = append(diffs, fmt.Sprintf("asks for view %d, was sent in view %d", nv, N))
			}
			if len(diffs) > 0 {
				c.bad("restored-carried-fields-differ", cls, "%s: %v", what, diffs)
			}
		default:
			// counted only
			if w, _, err := wireOfPayload(got[0]); err == nil && bytes.Equal(w, origWire) {
				demand += ":identical-anyway"
			}
		}
		// the original is not touched by being embedded
		if w, _, err := wireOfPayload(orig); err != nil || !bytes.Equal(w, origWire) {
			c.bad("original-changed-by-embedding", cls, "%s: the added payload re-encodes differently afterwards (%v)", what, err)
		}
		outs = demand
	}
	c.outcome = fmt.Sprintf("%s:%s:%s", kind, viewRel(N, M), outs)
	if len(c.problems) > 0 {
		c.outcome += ":FAILS"
	}
}

// ---- family "recovery-full": every kind from every validator in one message ------------------------

func recoveryFullCases(th bool) []embedCase {
	var out []embedCase
	ns := []int{4}
	if th {
		ns = []int{4, 7}
	}
	for _, sr := range []bool{false, true} {
		for _, n := range ns {
			cn := newConsNet(n, sr)
			for M := byte(0); M <= 3; M++ {
				for p := 0; p < n; p++ {
					for s := 0; s < n; s++ {
						for _, variant := range []string{"all", "no-request", "no-preparations", "reversed"} {
							M, p, s, variant := M, p, s, variant
							id := fmt.Sprintf("sr=%v/n=%d/carrier-view-%d/primary-%d/carrier-sender-%d/%s", sr, n, M, p, s, variant)
							out = append(out, embedCase{family: "recovery-full", id: id, run: func(c *embedCtx) { cn.recoveryFull(c, M, p, s, variant) }})
						}
					}
				}
			}
		}
	}
	return out
}

// recoveryFull: a PrepareRequest of the primary and PrepareResponses of the
// others in the carrier's view M, a Commit of every validator j sent in view
// j mod (M+1) (dBFT keeps commits of other views and hands them all to
// AddPayload once its own commit is sent), a ChangeView (Timeout) of every
// validator j sent in view (j+1) mod (M+1).
func (cn *consNet) recoveryFull(c *embedCtx, M byte, prim, s int, variant string) {
	const h = 7
	n := len(cn.privs)
	type item struct {
		wire []byte
		p    *consensus.Payload
		i    int
	}
	mk := func(t byte, i int, view byte, body []byte) item {
		w, p, err := cn.signed(i, h, consMsg(t, h, i, view, body))
		if err != nil {
			panic(fmt.Sprintf("harness: original payload does not parse: %v", err))
		}
		return item{w, p, i}
	}
	req := mk(reqType, prim, M, cn.prepareRequestBodies()[1].body)
	var resps, coms, cvs []item
	rh := req.p.Hash()
	for j := 0; j < n; j++ {
		if j != prim {
			resps = append(resps, mk(respType, j, M, rh[:]))
		}
		sig := rep(byte(0x80+j), 64)
		coms = append(coms, mk(comType, j, byte(j%(int(M)+1)), sig))
		cvs = append(cvs, mk(cvType, j, byte((j+1)%(int(M)+1)), cat(le64(uint64(1000+j)), []byte{0})))
	}
	withReq, withPreps := variant != "no-request" && variant != "no-preparations", variant != "no-preparations"
	var adds []item
	if withReq {
		adds = append(adds, req)
	}
	if withPreps {
		adds = append(adds, resps...)
	}
	adds = append(adds, cvs...)
	adds = append(adds, coms...)
	if variant == "reversed" {
		for a, b := 0, len(adds)-1; a < b; a, b = a+1, b-1 {
			adds[a], adds[b] = adds[b], adds[a]
		}
	}
	for stage, st := range []string{"built", "parsed"} {
		car, err := cn.carrier(h, M, s, nil)
		if err != nil {
			c.bad("harness", "full", "carrier: %v", err)
			return
		}
		rec := car.GetRecoveryMessage()
		for _, a := range adds {
			rec.AddPayload(a.p)
		}
		if stage == 1 {
			body, err := encS(rec.(io.Serializable))
			if err != nil {
				c.bad("recovery-message-does-not-encode", "full", "%v", err)
				return
			}
			car, err = cn.carrier(h, M, s, body)
			if err != nil {
				c.bad("serialised-recovery-message-rejected", "full", "%v", err)
				return
			}
			rec = car.GetRecoveryMessage()
		}
		match := func(kind string, want []item, got []dbft.ConsensusPayload[util.Uint256], skip int) {
			byIdx := map[int]dbft.ConsensusPayload[util.Uint256]{}
			cnt := 0
			for _, g := range got {
				if int(g.ValidatorIndex()) == skip {
					continue
				}
				cnt++
				byIdx[int(g.ValidatorIndex())] = g
			}
			if cnt != len(want) {
				c.bad("restored-payload-count", kind+":full:"+st, "%d %ss added, %d come out (carrier view %d, primary %d)", len(want), kind, cnt, M, prim)
			}
			for _, w := range want {
				g, ok := byIdx[w.i]
				if !ok {
					c.bad("restored-payload-missing", kind+":full:"+st, "no %s of validator %d comes out", kind, w.i)
					continue
				}
				cn.sameRestored(c, kind+":"+viewRel(w.p.ViewNumber(), M)+":full:"+st, fmt.Sprintf("%s of validator %d (view %d) among %d payloads, carrier of view %d from validator %d, primary %d, %s", kind, w.i, w.p.ViewNumber(), len(adds), M, s, prim, st), w.i, w.wire, w.p, g)
			}
		}
		match("ChangeView", cvs, rec.GetChangeViews(car, cn.vals), -1)
		match("Commit", coms, rec.GetCommits(car, cn.vals), -1)
		gr := rec.GetPrepareRequest(car, cn.vals, uint16(prim))
		if withReq {
			if gr == nil {
				c.bad("restored-payload-missing", "PrepareRequest:carrier-view-equal:full:"+st, "the PrepareRequest of primary %d was added, none comes out", prim)
			} else {
				cn.sameRestored(c, "PrepareRequest:carrier-view-equal:full:"+st, fmt.Sprintf("PrepareRequest of primary %d, carrier of view %d from validator %d, %s", prim, M, s, st), prim, req.wire, req.p, gr)
			}
		} else if gr != nil {
			c.bad("payloads-of-another-kind-come-out", "PrepareRequest:carrier-view-equal:full:"+st, "no PrepareRequest was added, one comes out")
		}
		// other primaries: nothing comes out (the compact of that validator is a response)
		if withReq {
			if o := rec.GetPrepareRequest(car, cn.vals, uint16((prim+1)%n)); o != nil {
				if w, _, err := wireOfPayload(o); err == nil && bytes.Equal(w, req.wire) {
					c.bad("request-restored-for-another-primary", "PrepareRequest:carrier-view-equal:full:"+st, "GetPrepareRequest(primary %d) returns the request of primary %d", (prim+1)%n, prim)
				}
			}
		}
		ph := rec.PreparationHash()
		switch {
		case !withPreps:
			if ph != nil {
				c.bad("preparation-hash-differs", "full:"+st, "no preparation added, PreparationHash() %s", ph.StringLE())
			}
		case stage == 1 && withReq:
			// not carried next to an embedded request; the service fills it from the rebuilt request
			if ph != nil && *ph != rh {
				c.bad("preparation-hash-differs", "full:"+st, "PreparationHash() %s, the request has %s", ph.StringLE(), rh.StringLE())
			}
		default:
			if ph == nil || *ph != rh {
				c.bad("preparation-hash-differs", "full:"+st, "PreparationHash() %v, the request has %s", ph, rh.StringLE())
			}
		}
		if withPreps && ph != nil {
			match("PrepareResponse", resps, rec.GetPrepareResponses(car, cn.vals), map[bool]int{true: prim, false: -1}[withReq])
		}
	}
	c.outcome = fmt.Sprintf("full:%s:carrier-view-%d", variant, M)
	if len(c.problems) > 0 {
		c.outcome += ":FAILS"
	}
}

// ---- family "consensus-extensible": a consensus message inside an extensible payload ---------------

func consensusExtensibleCases(th bool) []embedCase {
	var out []embedCase
	for _, sr := range []bool{false, true} {
		cn := newConsNet(4, sr)
		type kb struct {
			kind string
			t    byte
			b    consBody
		}
		var all []kb
		for _, b := range cn.changeViewBodies() {
			all = append(all, kb{"ChangeView", cvType, b})
		}
		for _, b := range commitBodies() {
			all = append(all, kb{"Commit", comType, b})
		}
		for _, b := range prepareResponseBodies() {
			all = append(all, kb{"PrepareResponse", respType, b})
		}
		for _, b := range cn.prepareRequestBodies() {
			all = append(all, kb{"PrepareRequest", reqType, b})
		}
		all = append(all, kb{"RecoveryRequest", 0x40, consBody{"ts", le64(0x0102030405060708)}}, kb{"RecoveryMessage", 0x41, consBody{"empty", emptyRecoveryBody}})
		for _, x := range all {
			for _, h := range []uint32{0, 1, 0x01020304, 1<<32 - 1} {
				for _, view := range []byte{0, 1, 0xff} {
					for i := 0; i < 4; i += 3 {
						x, h, view, i := x, h, view, i
						id := fmt.Sprintf("sr=%v/%s/%s/h=%d/view-%d/validator-%d", sr, x.kind, x.b.name, h, view, i)
						out = append(out, embedCase{family: "consensus-extensible", id: id, run: func(c *embedCtx) {
							cn.extensibleOne(c, x.kind, x.t, x.b, h, view, i)
						}})
					}
				}
			}
		}
	}
	return out
}

func (cn *consNet) extensibleOne(c *embedCtx, kind string, t byte, bd consBody, h uint32, view byte, i int) {
	msg := consMsg(t, h, i, view, bd.body)
	wire, p, err := cn.signed(i, h, msg)
	if err != nil {
		c.bad("signed-consensus-payload-rejected", kind, "%v", err)
		return
	}
	c.evals++
	// the consensus payload reports what the message says
	if byte(p.Type()) != t || p.Height() != h || p.ViewNumber() != view || int(p.ValidatorIndex()) != i {
		c.bad("message-head-differs", kind, "type %02x height %d view %d validator %d read back as %02x/%d/%d/%d", t, h, view, i, byte(p.Type()), p.Height(), p.ViewNumber(), p.ValidatorIndex())
	}
	// as a plain extensible payload
	e := payload.NewExtensible()
	r := io.NewBinReaderFromBuf(wire)
	e.DecodeBinary(r)
	if r.Err != nil {
		c.bad("extensible-decoder-rejects-consensus-payload", kind, "%v", r.Err)
		return
	}
	if e.Hash() != p.Hash() {
		c.bad("hash-differs-between-extensible-and-consensus-payload", kind, "%s vs %s", e.Hash().StringLE(), p.Hash().StringLE())
	}
	if !bytes.Equal(e.Data, msg) {
		c.bad("message-bytes-differ-inside-extensible", kind, "%s", diffAt(e.Data, msg))
	}
	for _, v := range []struct {
		name string
		p    payload.Payload
	}{{"consensus.Payload", p}, {"payload.Extensible", e}, {"&consensus.Payload.Extensible", &p.Extensible}} {
		for _, compress := range []bool{false, true} {
			raw, err := network.NewMessage(network.CMDExtensible, v.p).BytesCompressed(compress)
			if err != nil {
				c.bad("message-does-not-encode", kind, "%s: %v", v.name, err)
				continue
			}
			m, err := decodeMsg(raw, cn.sr)
			if err != nil {
				c.bad("own-message-rejected", kind, "%s: %v", v.name, err)
				continue
			}
			c.evals++
			e2 := m.Payload.(*payload.Extensible)
			w2, err := encS(e2)
			if err != nil || !bytes.Equal(w2, wire) {
				c.bad("extensible-differs-after-the-message", kind, "%s sent as CMDExtensible: %s (%v)", v.name, diffAt(w2, wire), err)
				continue
			}
			p2, err := cn.decode(w2)
			if err != nil {
				c.bad("relayed-consensus-payload-rejected", kind, "%v", err)
				continue
			}
			if p2.Hash() != p.Hash() || !cn.sigValid(p2, i) {
				c.bad("relayed-consensus-payload-differs", kind, "hash %s vs %s, signature valid %v", p2.Hash().StringLE(), p.Hash().StringLE(), cn.sigValid(p2, i))
			}
		}
	}
	// what dBFT reads from the payload is what the message says
	switch t {
	case cvType:
		cv := p.GetChangeView()
		if cv.NewViewNumber() != view+1 || byte(cv.Reason()) != bd.body[8] {
			c.bad("message-accessor-differs", kind, "ChangeView: new view %d (sent in %d), reason %02x (message %02x)", cv.NewViewNumber(), view, byte(cv.Reason()), bd.body[8])
		}
	case comType:
		if !bytes.Equal(p.GetCommit().Signature(), bd.body) {
			c.bad("message-accessor-differs", kind, "Commit.Signature() %s", hx(p.GetCommit().Signature()))
		}
	case respType:
		if ph := p.GetPrepareResponse().PreparationHash(); !bytes.Equal(ph[:], bd.body) {
			c.bad("message-accessor-differs", kind, "PrepareResponse.PreparationHash() %s", ph.StringLE())
		}
	case reqType:
		rq := p.GetPrepareRequest()
		ths := rq.TransactionHashes()
		n := int(bd.body[4+32+8+8])
		okh := len(ths) == n
		for k := 0; okh && k < n; k++ {
			okh = bytes.Equal(ths[k][:], bd.body[4+32+8+8+1+32*k:][:32])
		}
		if !okh || rq.Nonce() != 0xa1a2a3a4a5a6a7a8 {
			c.bad("message-accessor-differs", kind, "PrepareRequest: %d hashes (message %d), nonce %x", len(ths), n, rq.Nonce())
		}
	}
	// consensus.Payload.Sign on the unsigned payload gives the payload that was broadcast (signatures are deterministic)
	if up, err := cn.decode(mustEnc(&payload.Extensible{Category: payload.ConsensusCategory, ValidBlockEnd: h, Sender: p.Sender, Data: msg,
		Witness: transaction.Witness{InvocationScript: []byte{}, VerificationScript: []byte{}}})); err != nil {
		c.bad("unsigned-consensus-payload-rejected", kind, "%v", err)
	} else if err := up.Sign(cn.privs[i]); err != nil {
		c.bad("sign-fails", kind, "%v", err)
	} else {
		c.evals++
		if w, err := encS(up); err != nil || !bytes.Equal(w, wire) || up.Hash() != p.Hash() || !cn.sigValid(up, i) {
			c.bad("signed-payload-differs", kind, "Payload.Sign: %s (%v), signature valid %v", diffAt(w, wire), err, cn.sigValid(up, i))
		}
	}
	// view and validator set through the dbft interface end up in the message
	{
		q := *p
		q.Extensible.Data = nil
		q.SetViewNumber(view ^ 1)
		q.SetValidatorIndex(uint16(i ^ 1))
		want := append([]byte{}, msg...)
		want[5], want[6] = byte(i^1), view^1
		if w, err := encS(&q); err != nil {
			c.bad("message-re-encoded-from-fields-differs", kind, "after SetViewNumber/SetValidatorIndex: %v", err)
		} else if q2, err := cn.decode(w); err != nil || q2.ViewNumber() != view^1 || int(q2.ValidatorIndex()) != i^1 || !bytes.Equal(q2.Data, want) {
			c.bad("message-re-encoded-from-fields-differs", kind, "after SetViewNumber(%d)/SetValidatorIndex(%d): %v", view^1, i^1, err)
		}
		c.evals++
	}
	// the message re-encoded from its fields (Data dropped) is the message that was signed
	q := *p
	q.Extensible.Data = nil
	if hh := q.Hash(); hh != p.Hash() {
		c.bad("message-re-encoded-from-fields-differs", kind, "hash %s instead of %s: %s", hh.StringLE(), p.Hash().StringLE(), diffAt(q.Data, msg))
	}
	c.outcome = kind
}

var _ = sort.Strings

func h256(b byte) []byte { u := u256(b); return u[:] }

// ---- family "recovery-decoded": compact entries as a peer may send them ---------------------------------
// A RecoveryMessage read off the wire names validators by index. The accessors
// turn every compact entry into a payload of that validator; an index outside
// the validator list must not take the node down (getVerificationScript checks
// the bound, so the intent of the code is to tolerate it).

func recoveryDecodedCases(th bool) []embedCase {
	var out []embedCase
	for _, sr := range []bool{false, true} {
		for _, n := range []int{4, 7} {
			cn := newConsNet(n, sr)
			for _, kind := range []string{"ChangeView", "PrepareResponse", "Commit"} {
				for _, idx := range []int{0, n - 1, n, n + 1, 127, 128, 255} {
					for _, cnt := range []int{1, 2} {
						kind, idx, cnt := kind, idx, cnt
						id := fmt.Sprintf("sr=%v/n=%d/%s/compact-validator-index-%d/%d-entries", sr, n, kind, idx, cnt)
						out = append(out, embedCase{family: "recovery-decoded", id: id, run: func(c *embedCtx) { cn.recoveryDecoded(c, kind, idx, cnt) }})
					}
				}
			}
		}
	}
	return out
}

func (cn *consNet) recoveryDecoded(c *embedCtx, kind string, idx, cnt int) {
	n := len(cn.privs)
	inv := cat([]byte{0x0c, 64}, rep(0x5a, 64))
	vb := func(b []byte) []byte { return cat(varint(uint64(len(b))), b) }
	entry := func(i int) []byte {
		switch kind {
		case "ChangeView":
			return cat([]byte{byte(i), 0}, le64(77), vb(inv))
		case "PrepareResponse":
			return cat([]byte{byte(i)}, vb(inv))
		}
		return cat([]byte{0, byte(i)}, rep(0x11, 64), vb(inv))
	}
	// the entry under test last, a valid one (validator 1) before it when two are sent
	var list []byte
	if cnt == 2 {
		list = entry(1)
	}
	list = cat([]byte{byte(cnt)}, list, entry(idx))
	none := []byte{0}
	var body []byte
	switch kind {
	case "ChangeView":
		body = cat(list, []byte{0, 0}, none, none)
	case "PrepareResponse":
		body = cat(none, []byte{0, 32}, h256(0x42), list, none)
	default:
		body = cat(none, []byte{0, 0}, none, list)
	}
	class := kind + ":index-within-the-validator-list"
	if idx >= n {
		class = kind + ":index-outside-the-validator-list"
	}
	car, err := cn.carrier(9, 0, 0, body)
	if err != nil {
		// rejecting the message is fine for an index outside the list
		if idx < n {
			c.bad("serialised-recovery-message-rejected", class, "%v", err)
		}
		c.outcome = class + ":rejected-by-the-decoder"
		return
	}
	rec := car.GetRecoveryMessage()
	var got []dbft.ConsensusPayload[util.Uint256]
	if p := guard(func() {
		switch kind {
		case "ChangeView":
			got = rec.GetChangeViews(car, cn.vals)
		case "PrepareResponse":
			got = rec.GetPrepareResponses(car, cn.vals)
		default:
			got = rec.GetCommits(car, cn.vals)
		}
	}); p != "" {
		c.bad("panic-expanding-a-decoded-recovery-message", class, "%s with compact validator index %d, %d validators: %s", kind, idx, n, p)
		c.outcome = class + ":panic"
		return
	}
	c.evals++
	if idx < n {
		found := false
		for _, g := range got {
			if g != nil && int(g.ValidatorIndex()) == idx {
				found = true
				if q, ok := g.(*consensus.Payload); !ok || q.Sender != cn.privs[idx].PublicKey().GetScriptHash() || !bytes.Equal(q.Witness.InvocationScript, inv) {
					c.bad("restored-payload-differs", class, "entry of validator %d: sender / invocation script differ", idx)
				}
			}
		}
		if !found || len(got) != cnt {
			c.bad("restored-payload-count", class, "%d entries sent, %d payloads, validator %d present %v", cnt, len(got), idx, found)
		}
	}
	c.outcome = fmt.Sprintf("%s:%d-payloads-of-%d-entries", class, len(got), cnt)
}
