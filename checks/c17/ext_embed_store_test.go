// C17 phase H, database and payload embeddings: blocks as trimmed records,
// transactions and execution results behind one record, headers inside Headers /
// MerkleBlock payloads, transaction hashes inside inventories, transactions
// inside notary requests, contracts (with their NEF) as storage items.
package c17

import (
	"bytes"
	"encoding/json"
	"errors"
	"fmt"

	"github.com/nspcc-dev/neo-go/pkg/config/netmode"
	"github.com/nspcc-dev/neo-go/pkg/core/block"
	"github.com/nspcc-dev/neo-go/pkg/core/dao"
	"github.com/nspcc-dev/neo-go/pkg/core/native"
	"github.com/nspcc-dev/neo-go/pkg/core/state"
	"github.com/nspcc-dev/neo-go/pkg/core/storage"
	"github.com/nspcc-dev/neo-go/pkg/core/transaction"
	"github.com/nspcc-dev/neo-go/pkg/crypto/hash"
	"github.com/nspcc-dev/neo-go/pkg/io"
	"github.com/nspcc-dev/neo-go/pkg/network"
	"github.com/nspcc-dev/neo-go/pkg/network/payload"
	"github.com/nspcc-dev/neo-go/pkg/services/stateroot"
	"github.com/nspcc-dev/neo-go/pkg/smartcontract/trigger"
	"github.com/nspcc-dev/neo-go/pkg/util"
	"github.com/nspcc-dev/neo-go/pkg/vm/stackitem"
)

var allTriggers = []trigger.Type{trigger.OnPersist, trigger.PostPersist, trigger.Verification, trigger.Application, trigger.All,
	trigger.OnPersist | trigger.PostPersist, trigger.Application | trigger.Verification}

func mustEnc(s io.Serializable) []byte {
	b, err := encS(s)
	if err != nil {
		panic("harness: value does not encode: " + err.Error())
	}
	return b
}

// daoFlavours: the plain DAO, and a private layer (shared key / data buffers and
// one serialisation context) read before and after it is flushed into its parent.
type daoUnderTest struct {
	name    string
	write   *dao.Simple
	readers func() []namedDAO
}

type namedDAO struct {
	name   string
	d      *dao.Simple
	before func() // run before reading through d
}

func daoFlavours(sr bool) []daoUnderTest {
	plain := dao.NewSimple(storage.NewMemoryStore(), sr)
	base := dao.NewSimple(storage.NewMemoryStore(), sr)
	priv := base.GetPrivate()
	nop := func() {}
	return []daoUnderTest{
		{"plain", plain, func() []namedDAO { return []namedDAO{{"plain", plain, nop}} }},
		{"private", priv, func() []namedDAO {
			return []namedDAO{{"private-layer", priv, nop}, {"parent-after-flush", base, func() {
				if _, err := priv.Persist(); err != nil {
					panic("harness: persist of the private layer: " + err.Error())
				}
			}}}
		}},
	}
}

func aerWith(a *state.AppExecResult, trig trigger.Type, container util.Uint256) *state.AppExecResult {
	c := *a
	c.Trigger = trig
	c.Container = container
	return &c
}

// encodableAERs: the generated execution results that have a binary form
// (interop / pointer items are written as Invalid markers in protected mode, so
// all of them do).
func encodableAERs() []*state.AppExecResult {
	var out []*state.AppExecResult
	for _, a := range appExecResults() {
		if _, err := encS(a); err == nil {
			out = append(out, a)
		}
	}
	return out
}

func compareAERs(c *embedCtx, class, what string, got []state.AppExecResult, want []*state.AppExecResult) {
	c.evals++
	if len(got) != len(want) {
		c.bad("execution-results-count", class, "%s: %d results come out, %d stored with a matching trigger", what, len(got), len(want))
		return
	}
	for i := range got {
		g, err := encS(&got[i])
		w := mustEnc(want[i])
		if err != nil || !bytes.Equal(g, w) {
			c.bad("execution-result-differs", class, "%s: result %d: %s (%v); trigger %v/%v state %v/%v invocations %d/%d", what, i, diffAt(g, w), err,
				got[i].Trigger, want[i].Trigger, got[i].VMState, want[i].VMState, len(got[i].Invocations), len(want[i].Invocations))
		}
	}
}

func filterAERs(trig trigger.Type, aers ...*state.AppExecResult) []*state.AppExecResult {
	var out []*state.AppExecResult
	for _, a := range aers {
		if a != nil && a.Trigger&trig != 0 {
			out = append(out, a)
		}
	}
	return out
}

// ---- family "block-db" -------------------------------------------------------------------------------

func blockDBCases(th bool) []embedCase {
	var out []embedCase
	aers := encodableAERs()
	for _, sr := range []bool{false, true} {
		for bi, b := range blocks(sr, th) {
			for _, mode := range []string{"no-results", "onpersist-only", "both-results", "postpersist-only"} {
				for fl := 0; fl < 2; fl++ {
					sr, bi, b, mode, fl := sr, bi, b, mode, fl
					id := fmt.Sprintf("sr=%v/block#%d(%d-txs)/%s/%s", sr, bi, len(b.Transactions), mode, []string{"plain", "private"}[fl])
					out = append(out, embedCase{family: "block-db", id: id, run: func(c *embedCtx) {
						blockDBOne(c, sr, b, bi, mode, fl, aers)
					}})
				}
			}
		}
	}
	return out
}

func blockDBOne(c *embedCtx, sr bool, b0 *block.Block, bi int, mode string, fl int, aers []*state.AppExecResult) {
	// a private copy (the generators share values between cases)
	y := mustEnc(b0)
	b := block.New(sr)
	if r := io.NewBinReaderFromBuf(y); true {
		b.DecodeBinary(r)
		if r.Err != nil {
			c.outcome = "trivial:block-has-no-binary-form"
			return
		}
	}
	class := fmt.Sprintf("%d-txs", min(len(b.Transactions), 3))
	hdr := mustEnc(&b.Header)
	var txb [][]byte
	for _, t := range b.Transactions {
		txb = append(txb, mustEnc(t))
	}
	var a1, a2 *state.AppExecResult
	if mode == "onpersist-only" || mode == "both-results" {
		a1 = aerWith(aers[(bi*5+1)%len(aers)], trigger.OnPersist, b.Hash())
	}
	if mode == "postpersist-only" || mode == "both-results" {
		a2 = aerWith(aers[(bi*7+2)%len(aers)], trigger.PostPersist, b.Hash())
	}
	txa := make([]*state.AppExecResult, len(b.Transactions))
	for k, t := range b.Transactions {
		if mode != "no-results" {
			txa[k] = aerWith(aers[(bi*3+k*11+4)%len(aers)], trigger.Application, t.Hash())
		}
	}
	var a1b, a2b []byte
	if a1 != nil {
		a1b = mustEnc(a1)
	}
	if a2 != nil {
		a2b = mustEnc(a2)
	}
	du := daoFlavours(sr)[fl]
	d := du.write
	// what Blockchain.storeBlock does: the block record, then every transaction
	if err := d.StoreAsBlock(b, a1, a2); err != nil {
		c.bad("StoreAsBlock-fails", class, "%v", err)
		return
	}
	for k, t := range b.Transactions {
		if err := d.StoreAsTransaction(t, b.Index, txa[k]); err != nil {
			c.bad("StoreAsTransaction-fails", class, "tx %d: %v", k, err)
			return
		}
	}
	// storing does not change the stored values
	if !bytes.Equal(mustEnc(b), y) {
		c.bad("original-changed-by-embedding", class, "the block re-encodes differently after StoreAsBlock")
	}
	if a1 != nil && !bytes.Equal(mustEnc(a1), a1b) || a2 != nil && !bytes.Equal(mustEnc(a2), a2b) {
		c.bad("original-changed-by-embedding", class, "an execution result re-encodes differently after StoreAsBlock")
	}
	for _, rd := range du.readers() {
		cls := class
		c.note = "read through " + rd.name
		rd.before()
		d := rd.d
		tb, err := d.GetBlock(b.Hash())
		if err != nil {
			c.bad("stored-block-unreadable", cls, "GetBlock(hash it was stored under): %v", err)
			continue
		}
		c.evals++
		if !tb.Trimmed && len(b.Transactions) > 0 {
			c.bad("trimmed-flag", cls, "GetBlock returns Trimmed=false for a record that holds hashes only")
		}
		if got := mustEnc(&tb.Header); !bytes.Equal(got, hdr) {
			c.bad("header-differs-after-the-database", cls, "%s; hash %s vs %s", diffAt(got, hdr), tb.Hash().StringLE(), b.Hash().StringLE())
		}
		if tb.Hash() != b.Hash() {
			c.bad("block-hash-differs-after-the-database", cls, "%s vs %s", tb.Hash().StringLE(), b.Hash().StringLE())
		}
		if len(tb.Transactions) != len(b.Transactions) {
			c.bad("transaction-count-differs-after-the-database", cls, "%d vs %d", len(tb.Transactions), len(b.Transactions))
			continue
		}
		// the trimmed form written again is the trimmed form of the original
		bw1, bw2 := io.NewBufBinWriter(), io.NewBufBinWriter()
		tb.EncodeTrimmed(bw1.BinWriter)
		b.EncodeTrimmed(bw2.BinWriter)
		if bw1.Err != nil || bw2.Err != nil || !bytes.Equal(bw1.Bytes(), bw2.Bytes()) {
			c.bad("trimmed-form-differs-after-the-database", cls, "%s (%v, %v)", diffAt(bw1.Bytes(), bw2.Bytes()), bw1.Err, bw2.Err)
		}
		// the full block put together again the way Blockchain.GetBlock does
		full := *tb
		full.Transactions = make([]*transaction.Transaction, len(tb.Transactions))
		ok := true
		for k, tt := range tb.Transactions {
			if tt.Hash() != b.Transactions[k].Hash() {
				c.bad("transaction-hash-differs-after-the-database", cls, "position %d: %s vs %s", k, tt.Hash().StringLE(), b.Transactions[k].Hash().StringLE())
				ok = false
				continue
			}
			t2, height, err := d.GetTransaction(tt.Hash())
			if err != nil {
				c.bad("stored-transaction-unreadable", cls, "GetTransaction(%d): %v", k, err)
				ok = false
				continue
			}
			c.evals++
			if height != b.Index {
				c.bad("transaction-height-differs", cls, "tx %d stored at height %d, read back %d", k, b.Index, height)
			}
			if got := mustEnc(t2); !bytes.Equal(got, txb[k]) {
				c.bad("transaction-differs-after-the-database", cls, "tx %d: %s", k, diffAt(got, txb[k]))
			}
			if t2.Hash() != b.Transactions[k].Hash() || t2.Size() != b.Transactions[k].Size() {
				c.bad("transaction-identity-differs-after-the-database", cls, "tx %d: hash %s/%s size %d/%d", k, t2.Hash().StringLE(), b.Transactions[k].Hash().StringLE(), t2.Size(), b.Transactions[k].Size())
			}
			full.Transactions[k] = t2
			if txa[k] != nil {
				h2, t3, a3, err := d.GetTxExecResult(tt.Hash())
				if err != nil {
					c.bad("stored-execution-result-unreadable", cls, "GetTxExecResult(%d): %v", k, err)
				} else {
					if h2 != b.Index || !bytes.Equal(mustEnc(t3), txb[k]) {
						c.bad("transaction-differs-after-the-database", cls, "GetTxExecResult: tx %d height %d/%d, %s", k, h2, b.Index, diffAt(mustEnc(t3), txb[k]))
					}
					compareAERs(c, cls, fmt.Sprintf("GetTxExecResult(tx %d)", k), []state.AppExecResult{*a3}, []*state.AppExecResult{txa[k]})
				}
				for _, trig := range allTriggers {
					got, err := d.GetAppExecResults(tt.Hash(), trig)
					if err != nil {
						c.bad("stored-execution-result-unreadable", cls, "GetAppExecResults(tx %d, %v): %v", k, trig, err)
						continue
					}
					compareAERs(c, cls, fmt.Sprintf("GetAppExecResults(tx %d, trigger %v)", k, trig), got, filterAERs(trig, txa[k]))
				}
			}
		}
		if ok {
			full.Trimmed = false
			if got := mustEnc(&full); !bytes.Equal(got, y) {
				c.bad("block-differs-after-the-database", cls, "header + transactions read back: %s", diffAt(got, y))
			}
			if mr := full.ComputeMerkleRoot(); mr != b.ComputeMerkleRoot() {
				c.bad("merkle-root-differs-after-the-database", cls, "%s vs %s", mr.StringLE(), b.ComputeMerkleRoot().StringLE())
			}
		}
		for _, trig := range allTriggers {
			got, err := d.GetAppExecResults(b.Hash(), trig)
			if err != nil {
				c.bad("stored-execution-result-unreadable", cls, "GetAppExecResults(block, %v): %v", trig, err)
				continue
			}
			compareAERs(c, cls, fmt.Sprintf("GetAppExecResults(block, trigger %v) with %s", trig, mode), got, filterAERs(trig, a1, a2))
		}
		// conflict record stubs are not transactions (dao.GetTransaction: "It does not return conflict record stubs")
		stored := map[util.Uint256]bool{b.Hash(): true}
		for _, t := range b.Transactions {
			stored[t.Hash()] = true
		}
		for k, t := range b.Transactions {
			for _, a := range t.GetAttributes(transaction.ConflictsT) {
				h := a.Value.(*transaction.Conflicts).Hash
				if stored[h] {
					continue
				}
				c.evals++
				if tt, _, err := d.GetTransaction(h); !errors.Is(err, storage.ErrKeyNotFound) {
					c.bad("conflict-stub-read-as-transaction", cls, "tx %d conflicts with %s: GetTransaction gives %v, %v", k, h.StringLE(), tt != nil, err)
				}
				if _, err := d.GetBlock(h); !errors.Is(err, storage.ErrKeyNotFound) {
					c.bad("conflict-stub-read-as-block", cls, "tx %d conflicts with %s: GetBlock gives %v", k, h.StringLE(), err)
				}
			}
		}
		// a transaction is not a block and the other way round
		if len(b.Transactions) > 0 {
			if _, err := d.GetBlock(b.Transactions[0].Hash()); !errors.Is(err, storage.ErrKeyNotFound) {
				c.bad("transaction-record-read-as-block", cls, "GetBlock(transaction hash): %v", err)
			}
		}
		if _, _, err := d.GetTransaction(b.Hash()); !errors.Is(err, storage.ErrKeyNotFound) {
			c.bad("block-record-read-as-transaction", cls, "GetTransaction(block hash): %v", err)
		}
	}
	// the header alone (what a node that is ahead on headers holds)
	c.note = "StoreHeader"
	for _, hd := range daoFlavours(sr)[fl : fl+1] {
		if err := hd.write.StoreHeader(&b.Header); err != nil {
			c.bad("StoreHeader-fails", class, "%v", err)
			break
		}
		for _, rd := range hd.readers() {
			rd.before()
			hb, err := rd.d.GetBlock(b.Hash())
			if err != nil {
				c.bad("stored-header-unreadable", class, "GetBlock(hash the header was stored under): %v", err)
				continue
			}
			c.evals++
			if got := mustEnc(&hb.Header); !bytes.Equal(got, hdr) || len(hb.Transactions) != 0 || hb.Hash() != b.Hash() {
				c.bad("header-differs-after-the-database", class, "StoreHeader: %s, %d transactions", diffAt(got, hdr), len(hb.Transactions))
			}
		}
	}
	// a later transaction naming this block's hash in a Conflicts attribute must
	// not replace the block record (dao.StoreAsTransaction: "a short path if
	// there's a block with the matching hash")
	c.note = ""
	if fl == 0 && mode == "both-results" {
		d := daoFlavours(sr)[0].write
		if err := d.StoreAsBlock(b, a1, a2); err == nil {
			ct := &transaction.Transaction{Nonce: 5, ValidUntilBlock: 9, Script: []byte{0x11}, Signers: []transaction.Signer{{Account: u160(7)}},
				Attributes: []transaction.Attribute{{Type: transaction.ConflictsT, Value: &transaction.Conflicts{Hash: b.Hash()}}},
				Scripts:    []transaction.Witness{{InvocationScript: []byte{}, VerificationScript: []byte{}}}}
			if err := d.StoreAsTransaction(ct, b.Index+1, nil); err != nil {
				c.bad("StoreAsTransaction-fails", class, "conflicting tx: %v", err)
			} else if tb, err := d.GetBlock(b.Hash()); err != nil || !bytes.Equal(mustEnc(&tb.Header), hdr) {
				c.bad("block-record-replaced-by-conflict-stub", class, "GetBlock after a transaction with Conflicts(block hash): %v", err)
			} else {
				c.evals++
			}
		}
	}
	c.outcome = fmt.Sprintf("%s:%s:%s", class, mode, []string{"plain", "private"}[fl])
}

// ---- family "aer-db": every generated execution result behind a transaction / block record ------

func aerDBCases(th bool) []embedCase {
	var out []embedCase
	aers := encodableAERs()
	txs := transactions(th)
	pickTx := []*transaction.Transaction{txs[0], txs[len(txs)/2], txs[len(txs)-1]}
	for ai := range aers {
		for ti := range pickTx {
			for _, trig := range []trigger.Type{trigger.Application, trigger.Verification, trigger.OnPersist, trigger.PostPersist} {
				for fl := 0; fl < 2; fl++ {
					ai, ti, trig, fl := ai, ti, trig, fl
					id := fmt.Sprintf("aer#%d/tx-pick-%d/trigger-%v/%s", ai, ti, trig, []string{"plain", "private"}[fl])
					out = append(out, embedCase{family: "aer-db", id: id, run: func(c *embedCtx) {
						aerDBOne(c, aers, ai, pickTx[ti].Copy(), trig, fl)
					}})
				}
			}
		}
	}
	return out
}

func aerDBOne(c *embedCtx, aers []*state.AppExecResult, ai int, t *transaction.Transaction, trig trigger.Type, fl int) {
	a := aerWith(aers[ai], trig, t.Hash())
	next := aerWith(aers[(ai+1)%len(aers)], trigger.Application, util.Uint256{1})
	class := fmt.Sprintf("invocations-%d", min(len(a.Invocations), 2))
	shape := fmt.Sprintf("invocations-%d:events-%d:stack-%d", min(len(a.Invocations), 2), min(len(a.Events), 2), min(len(a.Stack), 2))
	ab := mustEnc(a)
	tb := mustEnc(t)
	du := daoFlavours(false)[fl]
	d := du.write
	// a second record written through the same DAO afterwards (buffers and the
	// serialisation context are reused by a private DAO)
	t2 := t.Copy()
	t2.Nonce++
	if err := d.StoreAsTransaction(t, 3, a); err != nil {
		c.bad("StoreAsTransaction-fails", class, "%v", err)
		return
	}
	if err := d.StoreAsTransaction(t2, 4, next); err != nil {
		c.bad("StoreAsTransaction-fails", class, "second record: %v", err)
		return
	}
	hb := &block.Block{Header: *headers(false)[0]}
	var b1, b2 *state.AppExecResult
	if trig == trigger.OnPersist || trig == trigger.Application {
		b1 = aerWith(aers[ai], trigger.OnPersist, hb.Hash())
	}
	b2 = aerWith(aers[(ai+2)%len(aers)], trigger.PostPersist, hb.Hash())
	if err := d.StoreAsBlock(hb, b1, b2); err != nil {
		c.bad("StoreAsBlock-fails", class, "%v", err)
		return
	}
	if !bytes.Equal(mustEnc(a), ab) {
		c.bad("original-changed-by-embedding", class, "the execution result re-encodes differently after StoreAsTransaction: %s", diffAt(mustEnc(a), ab))
	}
	for _, rd := range du.readers() {
		cls := class
		c.note = "read through " + rd.name
		rd.before()
		h, tt, a3, err := rd.d.GetTxExecResult(t.Hash())
		if err != nil {
			c.bad("stored-execution-result-unreadable", cls, "GetTxExecResult: %v", err)
			continue
		}
		if h != 3 || !bytes.Equal(mustEnc(tt), tb) {
			c.bad("transaction-differs-after-the-database", cls, "height %d, %s", h, diffAt(mustEnc(tt), tb))
		}
		compareAERs(c, cls, "GetTxExecResult", []state.AppExecResult{*a3}, []*state.AppExecResult{a})
		for _, q := range allTriggers {
			got, err := rd.d.GetAppExecResults(t.Hash(), q)
			if err != nil {
				c.bad("stored-execution-result-unreadable", cls, "GetAppExecResults(%v): %v", q, err)
				continue
			}
			compareAERs(c, cls, fmt.Sprintf("GetAppExecResults(transaction, %v), stored trigger %v", q, trig), got, filterAERs(q, a))
			got, err = rd.d.GetAppExecResults(hb.Hash(), q)
			if err != nil {
				c.bad("stored-execution-result-unreadable", cls, "GetAppExecResults(block, %v): %v", q, err)
				continue
			}
			compareAERs(c, cls, fmt.Sprintf("GetAppExecResults(block, %v), OnPersist stored %v", q, b1 != nil), got, filterAERs(q, b1, b2))
		}
		got, err := rd.d.GetAppExecResults(t2.Hash(), trigger.All)
		if err != nil {
			c.bad("stored-execution-result-unreadable", cls, "second record: %v", err)
			continue
		}
		compareAERs(c, cls, "GetAppExecResults(second transaction)", got, []*state.AppExecResult{next})
		// the JSON the RPC server gives for what the database returned reads back as the same result
		// (where the JSON form can carry the value at all: see the codec of state.AppExecResult)
		if j, err := codecBy("state.AppExecResult").jenc(a3); err == nil {
			var a4 state.AppExecResult
			if err := json.Unmarshal(j, &a4); err != nil {
				c.bad("execution-result-json-rejected-after-the-database", cls, "%v: %s", err, short(string(j), 300))
			} else if g := mustEnc(&a4); !bytes.Equal(g, ab) {
				c.bad("execution-result-differs-after-the-database-and-json", cls, "%s", diffAt(g, ab))
			}
			c.evals++
		}
	}
	c.note = ""
	c.outcome = fmt.Sprintf("%s:trigger-%v", shape, trig)
}

// ---- family "headers-merkleblock-inventory" ---------------------------------------------------------

func headerEmbedCases(th bool) []embedCase {
	var out []embedCase
	for _, sr := range []bool{false, true} {
		bl := blocks(sr, th)
		for bi := range bl {
			sr, bi := sr, bi
			out = append(out, embedCase{family: "headers-merkleblock-inventory", id: fmt.Sprintf("sr=%v/block#%d", sr, bi), run: func(c *embedCtx) {
				headerEmbedOne(c, sr, bl, bi)
			}})
		}
	}
	return out
}

func headerEmbedOne(c *embedCtx, sr bool, bl []*block.Block, bi int) {
	b := bl[bi]
	class := fmt.Sprintf("sr=%v", sr)
	hdr := mustEnc(&b.Header)
	var hashes []util.Uint256
	for _, t := range b.Transactions {
		hashes = append(hashes, t.Hash())
	}
	// 1, 2 and 3 headers per Headers payload, this block's header at every position
	for n := 1; n <= 3; n++ {
		for pos := 0; pos < n; pos++ {
			var hs []*block.Header
			for k := 0; k < n; k++ {
				hs = append(hs, &bl[(bi+k-pos+len(bl))%len(bl)].Header)
			}
			for _, compress := range []bool{false, true} {
				raw, err := network.NewMessage(network.CMDHeaders, &payload.Headers{Hdrs: hs, StateRootInHeader: sr}).BytesCompressed(compress)
				if err != nil {
					c.bad("message-does-not-encode", class, "Headers: %v", err)
					continue
				}
				m, err := decodeMsg(raw, sr)
				if err != nil {
					c.bad("own-message-rejected", class, "Headers of %d: %v", n, err)
					continue
				}
				got := m.Payload.(*payload.Headers).Hdrs
				c.evals++
				if len(got) != n {
					c.bad("header-count-differs", class, "%d sent, %d received", n, len(got))
					continue
				}
				for k := range got {
					if w := mustEnc(hs[k]); !bytes.Equal(mustEnc(got[k]), w) || got[k].Hash() != hs[k].Hash() {
						c.bad("header-differs-inside-Headers", class, "position %d of %d: %s; hash %s vs %s", k, n, diffAt(mustEnc(got[k]), w), got[k].Hash().StringLE(), hs[k].Hash().StringLE())
					}
				}
				if got[pos].Hash() != b.Hash() {
					c.bad("header-hash-differs-from-block-hash", class, "%s vs %s", got[pos].Hash().StringLE(), b.Hash().StringLE())
				}
			}
		}
	}
	// inventories of the block's transaction hashes and of the block hash
	for _, inv := range []*payload.Inventory{payload.NewInventory(payload.TXType, hashes), payload.NewInventory(payload.BlockType, []util.Uint256{b.Hash()})} {
		if len(inv.Hashes) == 0 {
			continue
		}
		for _, cmd := range []network.CommandType{network.CMDInv, network.CMDGetData, network.CMDNotFound} {
			raw, err := network.NewMessage(cmd, inv).Bytes()
			if err != nil {
				c.bad("message-does-not-encode", class, "inventory: %v", err)
				continue
			}
			m, err := decodeMsg(raw, sr)
			if err != nil {
				c.bad("own-message-rejected", class, "inventory of %d: %v", len(inv.Hashes), err)
				continue
			}
			c.evals++
			got := m.Payload.(*payload.Inventory)
			if got.Type != inv.Type || len(got.Hashes) != len(inv.Hashes) {
				c.bad("inventory-differs", class, "type %v/%v, %d/%d hashes", got.Type, inv.Type, len(got.Hashes), len(inv.Hashes))
				continue
			}
			for k := range got.Hashes {
				if got.Hashes[k] != inv.Hashes[k] {
					c.bad("inventory-differs", class, "hash %d: %s vs %s", k, got.Hashes[k].StringLE(), inv.Hashes[k].StringLE())
				}
			}
		}
	}
	// the whole block inside a P2P message and in JSON
	if y, err := encS(b); err == nil {
		for _, compress := range []bool{false, true} {
			raw, err := network.NewMessage(network.CMDBlock, b).BytesCompressed(compress)
			if err != nil {
				c.bad("message-does-not-encode", class, "block: %v", err)
				continue
			}
			m, err := decodeMsg(raw, sr)
			if err != nil {
				c.bad("own-message-rejected", class, "CMDBlock: %v", err)
				continue
			}
			c.evals++
			if w, err := encS(m.Payload.(*block.Block)); err != nil || !bytes.Equal(w, y) || m.Payload.(*block.Block).Hash() != b.Hash() {
				c.bad("block-differs-inside-p2p-message", class, "%s (%v)", diffAt(w, y), err)
			}
		}
		reserved := false
		for _, t := range b.Transactions {
			reserved = reserved || hasReserved(t)
		}
		if !reserved {
			if j, err := json.Marshal(b); err != nil {
				c.bad("block-json-does-not-encode", class, "%v", err)
			} else {
				jb := block.New(sr)
				if err := json.Unmarshal(j, jb); err != nil {
					c.bad("block-json-rejected", class, "%v", err)
				} else if w, err := encS(jb); err != nil || !bytes.Equal(w, y) || jb.Hash() != b.Hash() {
					c.bad("block-differs-after-json", class, "%s (%v)", diffAt(w, y), err)
				}
				c.evals++
			}
		}
	}
	// the merkle block (the payload has no state root switch: plain headers only)
	if !sr {
		flags := rep(0xff, (len(hashes)+7)/8)
		mb := &payload.MerkleBlock{Header: &b.Header, TxCount: len(hashes), Hashes: hashes, Flags: flags}
		raw, err := network.NewMessage(network.CMDMerkleBlock, mb).Bytes()
		if err != nil {
			c.bad("message-does-not-encode", class, "MerkleBlock: %v", err)
		} else if m, err := decodeMsg(raw, sr); err != nil {
			c.bad("own-message-rejected", class, "MerkleBlock with %d hashes: %v", len(hashes), err)
		} else {
			c.evals++
			got := m.Payload.(*payload.MerkleBlock)
			if w := mustEnc(got.Header); !bytes.Equal(w, hdr) || got.Header.Hash() != b.Hash() {
				c.bad("header-differs-inside-MerkleBlock", class, "%s; hash %s vs %s", diffAt(w, hdr), got.Header.Hash().StringLE(), b.Hash().StringLE())
			}
			if got.TxCount != len(hashes) || len(got.Hashes) != len(hashes) || !bytes.Equal(got.Flags, flags) {
				c.bad("merkleblock-differs", class, "count %d/%d hashes %d flags %x/%x", got.TxCount, len(hashes), len(got.Hashes), got.Flags, flags)
			} else {
				for k := range hashes {
					if got.Hashes[k] != hashes[k] {
						c.bad("merkleblock-differs", class, "hash %d", k)
					}
				}
				if len(hashes) > 0 && hash.CalcMerkleRoot(got.Hashes) != b.MerkleRoot {
					c.bad("merkle-root-differs", class, "root of the received hashes %s, header says %s", hash.CalcMerkleRoot(got.Hashes).StringLE(), b.MerkleRoot.StringLE())
				}
			}
		}
	}
	c.outcome = fmt.Sprintf("%s:%d-txs", class, min(len(hashes), 3))
}

// ---- family "notary-request" ---------------------------------------------------------------------------

func notaryEmbedCases(th bool) []embedCase {
	var out []embedCase
	reqs := notaryRequests()
	for i := range reqs {
		i := i
		out = append(out, embedCase{family: "notary-request", id: fmt.Sprintf("request#%d", i), run: func(c *embedCtx) { notaryEmbedOne(c, reqs[i]) }})
	}
	return out
}

func notaryEmbedOne(c *embedCtx, r0 *payload.P2PNotaryRequest) {
	req := &payload.P2PNotaryRequest{MainTransaction: r0.MainTransaction.Copy(), FallbackTransaction: r0.FallbackTransaction.Copy(), Witness: r0.Witness}
	class := "request"
	mainB, fbB := mustEnc(req.MainTransaction), mustEnc(req.FallbackTransaction)
	wit := mustEnc(&req.Witness)
	z, err := req.Bytes()
	if err != nil {
		c.outcome = "trivial:no-binary-form"
		return
	}
	check := func(path string, got *payload.P2PNotaryRequest) {
		c.evals++
		if w := mustEnc(got.MainTransaction); !bytes.Equal(w, mainB) || got.MainTransaction.Hash() != req.MainTransaction.Hash() || got.MainTransaction.Size() != req.MainTransaction.Size() {
			c.bad("main-transaction-differs-inside-the-request", class, "%s: %s", path, diffAt(w, mainB))
		}
		if w := mustEnc(got.FallbackTransaction); !bytes.Equal(w, fbB) || got.FallbackTransaction.Hash() != req.FallbackTransaction.Hash() || got.FallbackTransaction.Size() != req.FallbackTransaction.Size() {
			c.bad("fallback-transaction-differs-inside-the-request", class, "%s: %s", path, diffAt(w, fbB))
		}
		if w := mustEnc(&got.Witness); !bytes.Equal(w, wit) {
			c.bad("request-witness-differs", class, "%s: %s", path, diffAt(w, wit))
		}
		if got.Hash() != req.Hash() {
			c.bad("request-hash-differs", class, "%s: %s vs %s", path, got.Hash().StringLE(), req.Hash().StringLE())
		}
		if z2, err := got.Bytes(); err != nil || !bytes.Equal(z2, z) {
			c.bad("request-differs", class, "%s: %s (%v)", path, diffAt(z2, z), err)
		}
	}
	accepted := 0
	check("Copy", req.Copy())
	if r1, err := payload.NewP2PNotaryRequestFromBytes(z); err == nil {
		check("Copy-of-received", r1.Copy())
		check("NewP2PNotaryRequestFromBytes", r1)
		accepted++
	}
	for _, compress := range []bool{false, true} {
		raw, err := network.NewMessage(network.CMDP2PNotaryRequest, req).BytesCompressed(compress)
		if err != nil {
			c.bad("message-does-not-encode", class, "%v", err)
			continue
		}
		m, err := decodeMsg(raw, false)
		if err != nil {
			continue // the generated requests include invalid ones (phase A/G compare acceptance)
		}
		check(fmt.Sprintf("p2p-message(compress=%v)", compress), m.Payload.(*payload.P2PNotaryRequest))
		accepted++
	}
	// the transactions taken out of the request arrive as transactions
	if accepted > 0 {
		for name, tb := range map[string][]byte{"main": mainB, "fallback": fbB} {
			t, err := transaction.NewTransactionFromBytes(tb)
			if err != nil {
				c.bad("embedded-transaction-rejected-on-its-own", class, "%s: %v", name, err)
				continue
			}
			c.evals++
			want := req.MainTransaction
			if name == "fallback" {
				want = req.FallbackTransaction
			}
			if t.Hash() != want.Hash() || !bytes.Equal(mustEnc(t), tb) {
				c.bad("embedded-transaction-differs-on-its-own", class, "%s", name)
			}
		}
	}
	if !bytes.Equal(mustEnc(req.MainTransaction), mainB) || !bytes.Equal(mustEnc(req.FallbackTransaction), fbB) {
		c.bad("original-changed-by-embedding", class, "a transaction of the request re-encodes differently afterwards")
	}
	c.outcome = fmt.Sprintf("request:accepted-on-%d-paths", accepted)
	if accepted == 0 {
		c.outcome = "trivial:rejected-everywhere"
	}
}

// ---- family "contract-storage" -------------------------------------------------------------------------

func contractStorageCases(th bool) []embedCase {
	var out []embedCase
	vals := codecBy("state.Contract").gen(th)
	for i := range vals {
		for fl := 0; fl < 2; fl++ {
			i, fl := i, fl
			out = append(out, embedCase{family: "contract-storage", id: fmt.Sprintf("contract#%d/%s", i, []string{"plain", "private"}[fl]), run: func(c *embedCtx) {
				contractStorageOne(c, vals[i].(*state.Contract), vals[(i+1)%len(vals)].(*state.Contract), fl)
			}})
		}
	}
	return out
}

const mgmtID = -1

func contractStorageOne(c *embedCtx, cs, other *state.Contract, fl int) {
	class := "contract"
	nefB, err := cs.NEF.Bytes()
	if err != nil {
		c.outcome = "trivial:nef-has-no-binary-form"
		return
	}
	item, err := cs.ToStackItem()
	if err != nil {
		c.outcome = "trivial:no-stack-item-form"
		return
	}
	ref, err := stackitem.Serialize(item)
	if err != nil {
		c.outcome = "trivial:not-serialisable"
		return
	}
	manJ, manErr := json.Marshal(&cs.Manifest)
	du := daoFlavours(false)[fl]
	d := du.write
	key := native.MakeContractKey(cs.Hash)
	// another contract first and afterwards: the serialisation context is reused
	_ = d.PutStorageConvertible(mgmtID, []byte{0xee, 1}, other)
	if err := d.PutStorageConvertible(mgmtID, key, cs); err != nil {
		c.bad("PutStorageConvertible-fails", class, "%v", err)
		return
	}
	_ = d.PutStorageConvertible(mgmtID, []byte{0xee, 2}, other)
	jsonLeg := "json-leg-unavailable"
	for _, rd := range du.readers() {
		cls := class
		c.note = "read through " + rd.name
		rd.before()
		raw := rd.d.GetStorageItem(mgmtID, key)
		c.evals++
		if !bytes.Equal(raw, ref) {
			c.bad("storage-item-differs-from-serialised-stack-item", cls, "%s", diffAt(raw, ref))
			continue
		}
		got := new(state.Contract)
		if err := rd.d.GetStorageConvertible(mgmtID, key, got); err != nil {
			c.bad("stored-contract-unreadable", cls, "%v", err)
			continue
		}
		if nb, err := got.NEF.Bytes(); err != nil || !bytes.Equal(nb, nefB) || got.NEF.Checksum != cs.NEF.Checksum {
			c.bad("nef-differs-after-the-storage", cls, "%s (%v); checksum %d/%d", diffAt(nb, nefB), err, got.NEF.Checksum, cs.NEF.Checksum)
		}
		if got.ID != cs.ID || got.UpdateCounter != cs.UpdateCounter || got.Hash != cs.Hash {
			c.bad("contract-head-differs-after-the-storage", cls, "id %d/%d counter %d/%d hash %s/%s", got.ID, cs.ID, got.UpdateCounter, cs.UpdateCounter, got.Hash.StringLE(), cs.Hash.StringLE())
		}
		if manErr == nil {
			if j, err := json.Marshal(&got.Manifest); err != nil || !bytes.Equal(j, manJ) {
				c.bad("manifest-differs-after-the-storage", cls, "%s vs %s (%v)", short(string(j), 300), short(string(manJ), 300), err)
			}
		}
		if it2, err := got.ToStackItem(); err != nil {
			c.bad("restored-contract-does-not-encode", cls, "%v", err)
		} else if s2, err := stackitem.Serialize(it2); err != nil || !bytes.Equal(s2, raw) {
			c.bad("contract-differs-after-the-storage", cls, "%s (%v)", diffAt(s2, raw), err)
		}
		// the JSON form (getcontractstate) of what the storage returned, stored again
		j, err := json.Marshal(got)
		if err != nil {
			continue
		}
		back := new(state.Contract)
		if err := json.Unmarshal(j, back); err != nil {
			continue
		}
		jsonLeg = "json-leg-compared"
		c.evals++
		k2 := []byte{0xee, 3}
		if err := rd.d.PutStorageConvertible(mgmtID, k2, back); err != nil {
			c.bad("contract-from-json-does-not-store", cls, "%v", err)
		} else if raw2 := rd.d.GetStorageItem(mgmtID, k2); !bytes.Equal(raw2, raw) {
			c.bad("contract-differs-between-storage-and-json", cls, "%s", diffAt(raw2, raw))
		}
		if nb, err := back.NEF.Bytes(); err != nil || !bytes.Equal(nb, nefB) {
			c.bad("nef-differs-after-json", cls, "%s (%v)", diffAt(nb, nefB), err)
		}
	}
	c.note = ""
	c.outcome = "contract:" + jsonLeg
}

// ---- family "transaction-embeddings" ---------------------------------------------------------------
// Phase B compares hash and size over the arrival paths; the witnesses are not
// covered by the hash and a change that keeps the length keeps the size. Here
// the transaction taken out of every container must have the bytes that went in.

func txEmbedCases(th bool) []embedCase {
	var out []embedCase
	seen := map[string]bool{}
	txs := transactions(th)
	for i, t := range txs {
		x, err := encS(t)
		if err != nil || seen[string(x)] {
			continue
		}
		seen[string(x)] = true
		// a neighbour with another hash (neighbours often differ in the witnesses only)
		o := (i + 1) % len(txs)
		for txs[o].Hash() == t.Hash() {
			o = (o + 1) % len(txs)
		}
		i, t, x := i, t, x
		out = append(out, embedCase{family: "transaction-embeddings", id: fmt.Sprintf("tx#%d", i), run: func(c *embedCtx) { txEmbedOne(c, t.Copy(), x, txs[o].Copy()) }})
	}
	return out
}

func txEmbedOne(c *embedCtx, t *transaction.Transaction, x []byte, other *transaction.Transaction) {
	class := fmt.Sprintf("%d-signers:%d-attributes", min(len(t.Signers), 3), min(len(t.Attributes), 3))
	same := func(path string, g *transaction.Transaction) {
		c.evals++
		w, err := encS(g)
		if err != nil || !bytes.Equal(w, x) {
			c.bad("transaction-differs-inside-"+path, class, "%s (%v)", diffAt(w, x), err)
			return
		}
		if g.Hash() != t.Hash() || g.Size() != len(x) || !bytes.Equal(g.Bytes(), x) {
			c.bad("transaction-identity-differs-inside-"+path, class, "hash %s/%s size %d/%d Bytes() equal %v", g.Hash().StringLE(), t.Hash().StringLE(), g.Size(), len(x), bytes.Equal(g.Bytes(), x))
		}
	}
	t1, err := transaction.NewTransactionFromBytes(x)
	if err != nil {
		c.outcome = "trivial:rejected-by-NewTransactionFromBytes"
		return
	}
	same("NewTransactionFromBytes", t1)
	same("Copy", t.Copy())
	same("Copy-of-received", t1.Copy())
	for _, compress := range []bool{false, true} {
		raw, err := network.NewMessage(network.CMDTX, t).BytesCompressed(compress)
		if err != nil {
			c.bad("message-does-not-encode", class, "%v", err)
			continue
		}
		m, err := decodeMsg(raw, false)
		if err != nil {
			c.bad("own-message-rejected", class, "CMDTX: %v", err)
			continue
		}
		same("p2p-message", m.Payload.(*transaction.Transaction))
	}
	// block bodies: alone, first of two, second of two
	for pos, list := range [][]*transaction.Transaction{{t}, {t, other}, {other, t}} {
		if pos > 0 && other.Hash() == t.Hash() {
			continue
		}
		b := &block.Block{Header: *headers(false)[0], Transactions: list}
		b.RebuildMerkleRoot()
		y, err := encS(b)
		if err != nil {
			continue
		}
		for _, compress := range []bool{false, true} {
			raw, err := network.NewMessage(network.CMDBlock, b).BytesCompressed(compress)
			if err != nil {
				c.bad("message-does-not-encode", class, "block: %v", err)
				continue
			}
			m, err := decodeMsg(raw, false)
			if err != nil {
				c.bad("own-message-rejected", class, "CMDBlock: %v", err)
				continue
			}
			gb := m.Payload.(*block.Block)
			if w, err := encS(gb); err != nil || !bytes.Equal(w, y) || gb.Hash() != b.Hash() {
				c.bad("block-differs-inside-p2p-message", class, "%s (%v)", diffAt(w, y), err)
				continue
			}
			same("block-body", gb.Transactions[map[int]int{0: 0, 1: 0, 2: 1}[pos]])
			if gb.ComputeMerkleRoot() != b.MerkleRoot {
				c.bad("merkle-root-differs-inside-p2p-message", class, "position %d", pos)
			}
		}
	}
	for fl := 0; fl < 2; fl++ {
		du := daoFlavours(false)[fl]
		if err := du.write.StoreAsTransaction(t, 77, nil); err != nil {
			c.bad("StoreAsTransaction-fails", class, "%v", err)
			continue
		}
		_ = du.write.StoreAsTransaction(other, 78, nil)
		for _, rd := range du.readers() {
			rd.before()
			g, h, err := rd.d.GetTransaction(t.Hash())
			if err != nil {
				// a later transaction may name this one in a Conflicts attribute: the stub replaces the record
				conflict := false
				for _, a := range other.GetAttributes(transaction.ConflictsT) {
					conflict = conflict || a.Value.(*transaction.Conflicts).Hash == t.Hash()
				}
				if !conflict {
					c.bad("stored-transaction-unreadable", class, "%v", err)
				}
				continue
			}
			if h != 77 {
				c.bad("transaction-height-differs", class, "%d", h)
			}
			c.note = "read through " + rd.name
			same("database", g)
			c.note = ""
		}
	}
	if !hasReserved(t) {
		j, err := json.Marshal(t)
		if err != nil {
			c.bad("transaction-json-does-not-encode", class, "%v", err)
		} else {
			g := new(transaction.Transaction)
			if err := json.Unmarshal(j, g); err != nil {
				c.bad("transaction-json-rejected", class, "%v", err)
			} else {
				same("json", g)
			}
		}
	}
	if w := mustEnc(t); !bytes.Equal(w, x) {
		c.bad("original-changed-by-embedding", class, "%s", diffAt(w, x))
	}
	c.outcome = class
}

// ---- family "stateroot-extensible": state roots and votes inside the state service's extensible payload ----

func staterootEmbedCases(th bool) []embedCase {
	var out []embedCase
	var vals []io.Serializable
	var names []string
	for i, r := range mptRoots() {
		vals = append(vals, r)
		names = append(names, fmt.Sprintf("root#%d(%d-witnesses)", i, len(r.Witness)))
	}
	for i, v := range codecBy("stateroot.Vote").gen(th) {
		vals = append(vals, v.(*stateroot.Vote))
		names = append(names, fmt.Sprintf("vote#%d", i))
	}
	for i := range vals {
		i := i
		out = append(out, embedCase{family: "stateroot-extensible", id: names[i], run: func(c *embedCtx) { staterootEmbedOne(c, vals[i], i) }})
	}
	return out
}

func staterootEmbedOne(c *embedCtx, v io.Serializable, i int) {
	typ, class := stateroot.RootT, "root"
	if _, ok := v.(*stateroot.Vote); ok {
		typ, class = stateroot.VoteT, "vote"
	}
	vb, err := encS(v)
	if err != nil {
		c.outcome = "trivial:no-binary-form"
		return
	}
	if r, ok := v.(*state.MPTRoot); ok && len(r.Witness) > 1 {
		c.outcome = "trivial:more-than-one-witness"
		return
	}
	msg, err := encS(stateroot.NewMessage(typ, v))
	if err != nil {
		c.bad("message-does-not-encode", class, "%v", err)
		return
	}
	k := consPrivs[i%len(consPrivs)]
	e := &payload.Extensible{Category: stateroot.Category, ValidBlockStart: uint32(i), ValidBlockEnd: uint32(i) + 100, Sender: k.PublicKey().GetScriptHash(), Data: msg}
	sig := k.SignHashable(uint32(netmode.UnitTestNet), e)
	e.Witness = transaction.Witness{InvocationScript: cat([]byte{0x0c, 64}, sig), VerificationScript: k.PublicKey().GetVerificationScript()}
	wire := mustEnc(e)
	for _, compress := range []bool{false, true} {
		raw, err := network.NewMessage(network.CMDExtensible, e).BytesCompressed(compress)
		if err != nil {
			c.bad("message-does-not-encode", class, "%v", err)
			continue
		}
		m, err := decodeMsg(raw, false)
		if err != nil {
			c.bad("own-message-rejected", class, "%v", err)
			continue
		}
		e2 := m.Payload.(*payload.Extensible)
		c.evals++
		if w := mustEnc(e2); !bytes.Equal(w, wire) || e2.Hash() != e.Hash() {
			c.bad("extensible-differs-after-the-message", class, "%s", diffAt(w, wire))
			continue
		}
		if !k.PublicKey().VerifyHashable(sig, uint32(netmode.UnitTestNet), e2) {
			c.bad("restored-signature-invalid", class, "the sender's signature does not verify for the received payload")
		}
		sm := new(stateroot.Message)
		r := io.NewBinReaderFromBuf(e2.Data)
		sm.DecodeBinary(r)
		if r.Err != nil || r.Len() != 0 {
			c.bad("state-service-message-rejected", class, "%v, %d bytes left", r.Err, r.Len())
			continue
		}
		if sm.Type != typ {
			c.bad("state-service-message-differs", class, "type %d vs %d", sm.Type, typ)
		}
		if w, err := encS(sm.Payload); err != nil || !bytes.Equal(w, vb) {
			c.bad("state-service-message-differs", class, "%s (%v)", diffAt(w, vb), err)
		}
		if r1, ok := v.(*state.MPTRoot); ok {
			if r2, ok := sm.Payload.(*state.MPTRoot); !ok || r2.Hash() != r1.Hash() {
				c.bad("state-root-hash-differs", class, "after the message")
			}
		}
	}
	c.outcome = class
}

// ---- family "contained-notification": a notification inside the subscription event (JSON only) -------

func containedNotificationCases(th bool) []embedCase {
	var out []embedCase
	ns := notifications()
	for i := range ns {
		for hi, h := range u256s {
			i, hi, h := i, hi, h
			out = append(out, embedCase{family: "contained-notification", id: fmt.Sprintf("notification#%d/container-%d", i, hi), run: func(c *embedCtx) {
				ne := ns[i]
				inner, err := codecBy("state.NotificationEvent").jenc(ne)
				if err != nil {
					c.outcome = "trivial:no-json-form"
					return
				}
				cne := &state.ContainedNotificationEvent{Container: h, NotificationEvent: *ne}
				j, err := json.Marshal(cne)
				if err != nil {
					c.bad("contained-notification-json-does-not-encode", "notification", "%v", err)
					return
				}
				back := new(state.ContainedNotificationEvent)
				if err := json.Unmarshal(j, back); err != nil {
					c.bad("contained-notification-json-rejected", "notification", "%v: %s", err, short(string(j), 300))
					return
				}
				c.evals++
				if back.Container != h {
					c.bad("container-differs", "notification", "%s vs %s", back.Container.StringLE(), h.StringLE())
				}
				if j2, err := json.Marshal(&back.NotificationEvent); err != nil || !bytes.Equal(j2, inner) {
					c.bad("notification-differs-inside-the-container", "notification", "%s vs %s (%v)", short(string(j2), 300), short(string(inner), 300), err)
				}
				// the binary form of the notification taken out again
				if w, err := encS(ne); err == nil {
					if w2, err := encS(&back.NotificationEvent); err != nil || !bytes.Equal(w2, w) {
						c.bad("notification-differs-inside-the-container", "notification", "binary form: %s (%v)", diffAt(w2, w), err)
					}
				}
				c.outcome = "notification"
			}})
		}
	}
	return out
}

// ---- family "trimmed-limits": the hash lists of the trimmed forms at block.MaxTransactionsPerBlock ----

func trimmedLimitCases(th bool) []embedCase {
	var out []embedCase
	for _, sr := range []bool{false, true} {
		for _, n := range []int{block.MaxTransactionsPerBlock - 1, block.MaxTransactionsPerBlock, block.MaxTransactionsPerBlock + 1} {
			for _, form := range []string{"trimmed-block", "merkleblock"} {
				if form == "merkleblock" && sr {
					continue
				}
				sr, n, form := sr, n, form
				out = append(out, embedCase{family: "trimmed-limits", id: fmt.Sprintf("sr=%v/%s/%d-hashes", sr, form, n), run: func(c *embedCtx) {
					trimmedLimitOne(c, sr, n, form)
				}})
			}
		}
	}
	return out
}

func trimmedLimitOne(c *embedCtx, sr bool, n int, form string) {
	class := form + map[bool]string{true: ":within-MaxTransactionsPerBlock", false: ":over-MaxTransactionsPerBlock"}[n <= block.MaxTransactionsPerBlock]
	h := *headers(sr)[1]
	hashes := make([]util.Uint256, n)
	for i := range hashes {
		hashes[i] = u256(byte(i))
		hashes[i][1], hashes[i][2] = byte(i>>8), byte(i>>16)
	}
	h.MerkleRoot = hash.CalcMerkleRoot(append([]util.Uint256{}, hashes...))
	hb := mustEnc(&h)
	list := make([]byte, 0, n*32)
	for i := range hashes {
		list = append(list, hashes[i][:]...)
	}
	within := n <= block.MaxTransactionsPerBlock
	if form == "merkleblock" {
		flags := rep(0xff, (n+7)/8)
		raw := cat(hb, varint(uint64(n)), varint(uint64(n)), list, varint(uint64(len(flags))), flags)
		m := new(payload.MerkleBlock)
		r := io.NewBinReaderFromBuf(raw)
		m.DecodeBinary(r)
		c.evals++
		switch {
		case within && r.Err != nil:
			c.bad("rejected-within-the-limit", class, "%d hashes: %v", n, r.Err)
		case !within && r.Err == nil:
			c.bad("accepted-over-the-limit", class, "%d hashes", n)
		case within:
			if w := mustEnc(m); !bytes.Equal(w, raw) || m.Header.Hash() != h.Hash() || hash.CalcMerkleRoot(append([]util.Uint256{}, m.Hashes...)) != h.MerkleRoot {
				c.bad("merkleblock-differs", class, "%s", diffAt(w, raw))
			}
		}
		c.outcome = class
		return
	}
	// the database record of a block: what StoreAsBlock writes for a block of n transactions
	rec := cat(hb, varint(uint64(n)), list)
	tb, err := block.NewTrimmedFromReader(sr, io.NewBinReaderFromBuf(rec))
	c.evals++
	switch {
	case within && err != nil:
		c.bad("rejected-within-the-limit", class, "NewTrimmedFromReader, %d hashes: %v", n, err)
	case !within && err == nil:
		c.bad("accepted-over-the-limit", class, "NewTrimmedFromReader, %d hashes", n)
	case within:
		bw := io.NewBufBinWriter()
		tb.EncodeTrimmed(bw.BinWriter)
		if bw.Err != nil || !bytes.Equal(bw.Bytes(), rec) || tb.Hash() != h.Hash() || len(tb.Transactions) != n || tb.ComputeMerkleRoot() != h.MerkleRoot {
			c.bad("trimmed-form-differs-after-the-database", class, "%s (%v), %d transactions", diffAt(bw.Bytes(), rec), bw.Err, len(tb.Transactions))
		}
		// the same through StoreAsBlock / GetBlock
		d := dao.NewSimple(storage.NewMemoryStore(), sr)
		if err := d.StoreAsBlock(tb, nil, nil); err != nil {
			c.bad("StoreAsBlock-fails", class, "%v", err)
		} else if b2, err := d.GetBlock(h.Hash()); err != nil {
			c.bad("stored-block-unreadable", class, "%d hashes: %v", n, err)
		} else if len(b2.Transactions) != n || b2.Transactions[n-1].Hash() != hashes[n-1] || b2.Transactions[0].Hash() != hashes[0] {
			c.bad("transaction-hash-differs-after-the-database", class, "%d hashes stored, %d read", n, len(b2.Transactions))
		}
	}
	c.outcome = class
}
