// C17 phase H: compact / embedded forms restore the original value and identity.
//
// Many values travel or are stored inside another value in a shortened form:
// consensus payloads inside a RecoveryMessage (only the fields that differ from
// the carrier are kept), blocks in the database (header + transaction hashes),
// transactions and execution results behind one database record, headers inside
// Headers / MerkleBlock payloads, transactions inside notary requests, consensus
// messages inside extensible payloads, contracts (with their NEF) inside the
// Management storage. The codecs of the compact structs round-trip on their
// own (phases A, C), which says nothing about the value that comes OUT of the
// embedding: this phase puts real values in, takes them out through the
// accessor the node uses and demands the same bytes, the same hash and (for
// signed payloads) a signature that still verifies.
package c17

import (
	"bytes"
	"fmt"
	"os"
	"sort"
	"strings"
	"sync"

	"verif/lib/vk"
)

// embedCtx collects what one case observed.
type embedCtx struct {
	problems []embedProblem
	outcome  string
	evals    int    // oracle evaluations (restored values compared)
	note     string // where the case currently is (appended to details, not part of keys)
}

type embedProblem struct {
	oracle string // which demand failed
	class  string // the class of inputs it failed for (part of the key)
	detail string
}

func (c *embedCtx) bad(oracle, class, format string, a ...any) {
	d := fmt.Sprintf(format, a...)
	if c.note != "" {
		d = "[" + c.note + "] " + d
	}
	c.problems = append(c.problems, embedProblem{oracle, class, short(d, 900)})
}

type embedCase struct {
	family string
	id     string // stable and unique within the family
	run    func(c *embedCtx)
}

type embedFamily struct {
	name  string
	key   string // family part of the violation keys (families of one subject share it)
	cases func(th bool) []embedCase
}

func embedFamilies() []embedFamily {
	return []embedFamily{
		{"recovery", "recovery", recoveryCases},
		{"recovery-full", "recovery", recoveryFullCases},
		{"recovery-decoded", "recovery", recoveryDecodedCases},
		{"consensus-extensible", "consensus-extensible", consensusExtensibleCases},
		{"contained-notification", "contained-notification", containedNotificationCases},
		{"stateroot-extensible", "stateroot-extensible", staterootEmbedCases},
		{"transaction-embeddings", "transaction-embeddings", txEmbedCases},
		{"block-db", "block-db", blockDBCases},
		{"trimmed-limits", "trimmed-limits", trimmedLimitCases},
		{"aer-db", "aer-db", aerDBCases},
		{"headers-merkleblock-inventory", "header-lists", headerEmbedCases},
		{"notary-request", "notary-request", notaryEmbedCases},
		{"contract-storage", "contract-storage", contractStorageCases},
		{"ledger", "ledger", ledgerCases},
	}
}

func (ec *embedCase) eval() *embedCtx {
	c := &embedCtx{}
	if p := guard(func() { ec.run(c) }); p != "" {
		c.bad("panic", "panic", "%s", p)
		c.outcome = "panic"
	}
	return c
}

func embedKey(family string, p embedProblem) string {
	return fmt.Sprintf("embed:%s:%s:%s", family, p.oracle, p.class)
}

// embedPhase runs every family; per (family, oracle, class) the first failing
// case in enumeration order is reported with the number of failing cases.
func embedPhase(r *vk.Run, th bool, only string) (evals, nontrivial int, info map[string]any) {
	type fr struct {
		f     finding
		count int
	}
	info = map[string]any{}
	var mu sync.Mutex
	for _, fam := range embedFamilies() {
		if only != "" && only != "1" && !strings.Contains(","+only+",", ","+fam.name+",") {
			continue
		}
		var cases []embedCase
		if p := guard(func() { cases = fam.cases(th) }); p != "" {
			violate(r, "embed:"+fam.key+":case-generation-failed:"+fam.name, map[string]any{"mode": "embed", "codec": fam.name, "detail": p})
			continue
		}
		res := make([]*embedCtx, len(cases))
		r.Parallel(len(cases), func(i int) { res[i] = cases[i].eval() })
		outcomes := map[string]int{}
		byKey := map[string]*fr{}
		var order []string
		famEvals, done := 0, 0
		for i, c := range res {
			if c == nil {
				continue // deadline
			}
			done++
			famEvals += c.evals
			mu.Lock()
			outcomes[c.outcome]++
			mu.Unlock()
			for _, p := range c.problems {
				k := embedKey(fam.key, p)
				if byKey[k] == nil {
					byKey[k] = &fr{f: finding{Key: k, Mode: "embed", Codec: fam.name, Kind: cases[i].id, Oracle: p.oracle, Label: p.class, Detail: p.detail, Pkg: "embedded forms"}}
					order = append(order, k)
				}
				byKey[k].count++
			}
		}
		for _, k := range order {
			x := byKey[k]
			x.f.Detail = fmt.Sprintf("%s || first failing case of %d: %s", x.f.Detail, x.count, x.f.Kind)
			violate(r, k, x.f)
		}
		for k := range outcomes {
			r.Outcome("embed:" + fam.name + ":" + k)
		}
		if len(cases) > 0 {
			r.Sample(map[string]any{"phase": "embedded-forms", "family": fam.name, "first_case": cases[0].id, "last_case": cases[len(cases)-1].id, "cases": len(cases)})
		}
		evals += famEvals
		nt := 0
		for k, n := range outcomes {
			if !strings.HasPrefix(k, "trivial") {
				nt += n
			}
		}
		nontrivial += nt
		info[fam.name] = map[string]any{"cases": len(cases), "cases_run": done, "restored_values_compared": famEvals, "distinct_outcomes": len(outcomes), "outcomes": outcomes, "failing_keys": len(order)}
		if os.Getenv("C17_EMBED_VERBOSE") != "" {
			ks := sortedKeys(outcomes)
			for _, k := range ks {
				fmt.Printf("  embed %s: %s x%d\n", fam.name, k, outcomes[k])
			}
		}
	}
	return
}

func replayEmbed(r *vk.Run, f finding) int {
	n := 0
	for _, fam := range embedFamilies() {
		if fam.name != f.Codec {
			continue
		}
		for _, c := range fam.cases(r.Thorough()) {
			if c.id != f.Kind {
				continue
			}
			for k := 0; k < 5; k++ {
				res := c.eval()
				var keys []string
				for _, p := range res.problems {
					key := embedKey(fam.key, p)
					keys = append(keys, key)
					if key == f.Key {
						f2 := f
						f2.Detail = p.detail
						violate(r, key, f2)
						break
					}
				}
				sort.Strings(keys)
				fmt.Printf("replay %d: embed %s %s -> %s %v\n", k+1, fam.name, c.id, res.outcome, keys)
				n++
			}
			return n
		}
	}
	fmt.Println("replay: no such embed case", f.Codec, f.Kind)
	return n
}

// diffAt names the first differing offset of two encodings.
func diffAt(a, b []byte) string {
	n := min(len(a), len(b))
	for i := 0; i < n; i++ {
		if a[i] != b[i] {
			return fmt.Sprintf("first difference at byte %d of %d/%d (%02x vs %02x)", i, len(a), len(b), a[i], b[i])
		}
	}
	if len(a) != len(b) {
		return fmt.Sprintf("lengths %d vs %d, common prefix equal", len(a), len(b))
	}
	return "equal"
}

var _ = bytes.Equal
