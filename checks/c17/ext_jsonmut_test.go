// C17 phase F: structural mutants of the JSON form.
//
// The byte-level mutants of phase C hardly ever stay well-formed JSON. Here the
// JSON text of seed values is parsed into an ordered tree and every node is
// mutated structurally: member omitted / null / duplicated / unknown member
// added, value replaced by every other JSON kind and by the empty value of its
// own kind, numbers as strings and strings as numbers, hex case and 0x prefix,
// base64 padding, numbers in float / exponent / out-of-range spelling, array
// elements dropped / doubled. Oracle for every mutant the JSON decoder accepts:
// it re-encodes, the re-encoding decodes to an equal value with the same hash
// and is stable, and (cross-format) the value encodes in the binary / stack
// item form of the type and decodes from it to an equal value with the same
// hash.
package c17

import (
	"bytes"
	"encoding/json"
	"fmt"
	"os"
	"sort"
	"strconv"
	"strings"
	"sync"

	"github.com/nspcc-dev/neo-go/pkg/core/transaction"

	"verif/lib/vk"
)

type jnode struct {
	kind byte // o object, a array, s string, n number, b bool, z null
	keys []string
	kids []*jnode
	str  string
	b    bool
}

func parseJ(text []byte) (*jnode, error) {
	d := json.NewDecoder(bytes.NewReader(text))
	d.UseNumber()
	n, err := parseJTok(d)
	if err != nil {
		return nil, err
	}
	return n, nil
}

func parseJTok(d *json.Decoder) (*jnode, error) {
	tok, err := d.Token()
	if err != nil {
		return nil, err
	}
	switch t := tok.(type) {
	case json.Delim:
		switch t {
		case '{':
			n := &jnode{kind: 'o'}
			for d.More() {
				k, err := d.Token()
				if err != nil {
					return nil, err
				}
				v, err := parseJTok(d)
				if err != nil {
					return nil, err
				}
				n.keys = append(n.keys, k.(string))
				n.kids = append(n.kids, v)
			}
			_, err := d.Token()
			return n, err
		case '[':
			n := &jnode{kind: 'a'}
			for d.More() {
				v, err := parseJTok(d)
				if err != nil {
					return nil, err
				}
				n.kids = append(n.kids, v)
			}
			_, err := d.Token()
			return n, err
		}
		return nil, fmt.Errorf("unexpected delimiter %v", t)
	case string:
		return &jnode{kind: 's', str: t}, nil
	case json.Number:
		return &jnode{kind: 'n', str: t.String()}, nil
	case bool:
		return &jnode{kind: 'b', b: t}, nil
	}
	return &jnode{kind: 'z'}, nil
}

func (n *jnode) render(w *bytes.Buffer) {
	switch n.kind {
	case 'o':
		w.WriteByte('{')
		for i := range n.kids {
			if i > 0 {
				w.WriteByte(',')
			}
			k, _ := json.Marshal(n.keys[i])
			w.Write(k)
			w.WriteByte(':')
			n.kids[i].render(w)
		}
		w.WriteByte('}')
	case 'a':
		w.WriteByte('[')
		for i := range n.kids {
			if i > 0 {
				w.WriteByte(',')
			}
			n.kids[i].render(w)
		}
		w.WriteByte(']')
	case 's':
		k, _ := json.Marshal(n.str)
		w.Write(k)
	case 'n':
		w.WriteString(n.str) // raw: mutants put any spelling here
	case 'b':
		if n.b {
			w.WriteString("true")
		} else {
			w.WriteString("false")
		}
	default:
		w.WriteString("null")
	}
}

func (n *jnode) text() []byte {
	var w bytes.Buffer
	n.render(&w)
	return w.Bytes()
}

func raw(s string) *jnode { return &jnode{kind: 'n', str: s} }

func isHex(s string) bool {
	if len(s) == 0 || len(s)%2 != 0 {
		return false
	}
	for _, c := range s {
		if !(c >= '0' && c <= '9' || c >= 'a' && c <= 'f' || c >= 'A' && c <= 'F') {
			return false
		}
	}
	return true
}

// replacements returns the mutants of one value node: (name, replacement).
func replacements(n *jnode) (names []string, repl []*jnode) {
	add := func(name string, r *jnode) { names = append(names, name); repl = append(repl, r) }
	if n.kind != 'z' {
		add("null", &jnode{kind: 'z'})
	}
	if n.kind != 'b' {
		add("true", &jnode{kind: 'b', b: true})
	}
	if n.kind != 'n' {
		add("number-0", raw("0"))
		add("number-1", raw("1"))
	}
	if n.kind != 's' {
		add("string-empty", &jnode{kind: 's'})
		add("string-x", &jnode{kind: 's', str: "x"})
	}
	if n.kind != 'a' {
		add("array-empty", &jnode{kind: 'a'})
	}
	if n.kind != 'o' {
		add("object-empty", &jnode{kind: 'o'})
	}
	switch n.kind {
	case 's':
		s := n.str
		if s != "" {
			add("string-empty", &jnode{kind: 's'})
		}
		if _, err := strconv.ParseFloat(s, 64); err == nil {
			add("string-as-number", raw(s))
		}
		body, pfx := s, ""
		if strings.HasPrefix(s, "0x") {
			body, pfx = s[2:], "0x"
		}
		if isHex(body) {
			if up := strings.ToUpper(body); up != body {
				add("hex-upper", &jnode{kind: 's', str: pfx + up})
			}
			if pfx != "" {
				add("hex-without-0x", &jnode{kind: 's', str: body})
				add("hex-0X", &jnode{kind: 's', str: "0X" + body})
			} else {
				add("hex-with-0x", &jnode{kind: 's', str: "0x" + body})
			}
			add("hex-one-digit-less", &jnode{kind: 's', str: pfx + body[1:]})
			add("hex-one-byte-more", &jnode{kind: 's', str: pfx + body + "00"})
			add("hex-one-byte-less", &jnode{kind: 's', str: pfx + body[:len(body)-2]})
		}
		if strings.HasSuffix(s, "=") {
			add("base64-without-padding", &jnode{kind: 's', str: strings.TrimRight(s, "=")})
			add("base64-url-alphabet", &jnode{kind: 's', str: strings.NewReplacer("+", "-", "/", "_").Replace(s)})
		}
		add("string-leading-space", &jnode{kind: 's', str: " " + s})
		add("string-trailing-space", &jnode{kind: 's', str: s + " "})
		if lo := strings.ToLower(s); lo != s {
			add("string-lower", &jnode{kind: 's', str: lo})
		} else if up := strings.ToUpper(s); up != s && !isHex(body) {
			add("string-upper", &jnode{kind: 's', str: up})
		}
		add("string-unknown-name", &jnode{kind: 's', str: s + "X"})
	case 'n':
		s := n.str
		add("number-as-string", &jnode{kind: 's', str: s})
		add("number-float-spelling", raw(s+".0"))
		add("number-exponent-spelling", raw(s+"e0"))
		add("number-negated", raw("-"+strings.TrimPrefix(s, "-")))
		add("number-minus-zero", raw("-0"))
		add("number-fraction", raw("0.5"))
		for _, x := range []string{"255", "256", "65535", "65536", "4294967295", "4294967296", "9223372036854775807", "9223372036854775808", "18446744073709551615", "18446744073709551616", "1e400", "-1"} {
			if x != s {
				add("number-"+x, raw(x))
			}
		}
	case 'b':
		add("bool-flipped", &jnode{kind: 'b', b: !n.b})
		add("bool-as-string", &jnode{kind: 's', str: strconv.FormatBool(n.b)})
	case 'a':
		if len(n.kids) > 0 {
			add("array-first-dropped", &jnode{kind: 'a', kids: n.kids[1:]})
			add("array-last-dropped", &jnode{kind: 'a', kids: n.kids[:len(n.kids)-1]})
			add("array-first-doubled", &jnode{kind: 'a', kids: append([]*jnode{n.kids[0]}, n.kids...)})
			add("array-null-appended", &jnode{kind: 'a', kids: append(append([]*jnode{}, n.kids...), &jnode{kind: 'z'})})
			add("array-as-its-first-element", n.kids[0])
		}
	case 'o':
		add("object-unknown-member", &jnode{kind: 'o', keys: append(append([]string{}, n.keys...), "unknownmember"), kids: append(append([]*jnode{}, n.kids...), raw("1"))})
	}
	return
}

type jmutant struct {
	path string // member path without array indices
	name string
	text []byte
}

// mutantsOf enumerates every mutant of the tree.
func mutantsOf(root *jnode) []jmutant {
	var out []jmutant
	cur := root
	var walk func(n *jnode, path string, set func(r *jnode))
	walk = func(n *jnode, path string, set func(r *jnode)) {
		names, repl := replacements(n)
		for i := range names {
			set(repl[i])
			out = append(out, jmutant{path, names[i], cur.text()})
		}
		set(n)
		switch n.kind {
		case 'o':
			for i := range n.kids {
				i := i
				p := path + "." + n.keys[i]
				// member omitted
				keys, kids := n.keys, n.kids
				n.keys = append(append([]string{}, keys[:i]...), keys[i+1:]...)
				n.kids = append(append([]*jnode{}, kids[:i]...), kids[i+1:]...)
				out = append(out, jmutant{p, "member-omitted", cur.text()})
				// member twice: first null then the value, and the other way round
				n.keys = append(append(append([]string{}, keys[:i]...), keys[i]), keys[i:]...)
				n.kids = append(append(append([]*jnode{}, kids[:i]...), &jnode{kind: 'z'}), kids[i:]...)
				out = append(out, jmutant{p, "member-null-then-value", cur.text()})
				n.kids = append(append(append([]*jnode{}, kids[:i+1]...), &jnode{kind: 'z'}), kids[i+1:]...)
				n.keys = append(append(append([]string{}, keys[:i+1]...), keys[i]), keys[i+1:]...)
				out = append(out, jmutant{p, "member-value-then-null", cur.text()})
				// member name in upper case (encoding/json matches names case-insensitively)
				n.keys, n.kids = append([]string{}, keys...), kids
				n.keys[i] = strings.ToUpper(keys[i])
				out = append(out, jmutant{p, "member-name-upper", cur.text()})
				n.keys, n.kids = keys, kids
				walk(n.kids[i], p, func(r *jnode) { n.kids[i] = r })
			}
		case 'a':
			for i := range n.kids {
				i := i
				if i > 1 && i < len(n.kids)-1 {
					continue // first two and the last element of a list
				}
				walk(n.kids[i], path+"[]", func(r *jnode) { n.kids[i] = r })
			}
		}
	}
	walk(root, "", func(r *jnode) { cur = r })
	return out
}

// shapeOf: the set of member paths with the kinds of their values.
func shapeOf(n *jnode, path string, acc map[string]bool) {
	acc[path+":"+string(n.kind)] = true
	switch n.kind {
	case 'o':
		for i := range n.kids {
			shapeOf(n.kids[i], path+"."+n.keys[i], acc)
		}
	case 'a':
		for _, k := range n.kids {
			shapeOf(k, path+"[]", acc)
		}
	}
}

type jseed struct {
	c    *codec
	idx  int
	text []byte
}

// jsonSeeds: per JSON-capable codec the smallest value of every distinct JSON
// shape, at most `per` of them.
func jsonSeeds(th bool) []jseed {
	per, maxLen := 6, 2500
	if th {
		per, maxLen = 24, 6000
	}
	var out []jseed
	for _, c := range registryAll() {
		if c.derived || c.jenc == nil || c.jdec == nil {
			continue
		}
		type cand struct {
			idx  int
			text []byte
		}
		byShape := map[string]cand{}
		for i, v := range c.gen(th) {
			var j []byte
			var err error
			if p := guard(func() { j, err = c.jenc(v) }); p != "" || err != nil || len(j) > maxLen {
				continue
			}
			root, err := parseJ(j)
			if err != nil {
				continue
			}
			acc := map[string]bool{}
			shapeOf(root, "", acc)
			sig := strings.Join(sortedKeys(acc), ",")
			if o, ok := byShape[sig]; !ok || len(j) < len(o.text) {
				byShape[sig] = cand{i, j}
			}
			// and the longest text of the shape (non-empty strings, lists at their maxima)
			if o, ok := byShape[sig+"+"]; !ok || len(j) > len(o.text) {
				byShape[sig+"+"] = cand{i, j}
			}
		}
		var cs []cand
		dup := map[int]bool{}
		for _, k := range sortedKeys(byShape) {
			if v := byShape[k]; !dup[v.idx] {
				dup[v.idx] = true
				cs = append(cs, v)
			}
		}
		// richest shapes first (most members), then by value index
		sort.Slice(cs, func(a, b int) bool {
			if len(cs[a].text) != len(cs[b].text) {
				return len(cs[a].text) > len(cs[b].text)
			}
			return cs[a].idx < cs[b].idx
		})
		if len(cs) > per {
			// keep the richest half and the simplest half
			cs = append(cs[:per/2], cs[len(cs)-per/2:]...)
		}
		sort.Slice(cs, func(a, b int) bool { return cs[a].idx < cs[b].idx })
		for _, x := range cs {
			out = append(out, jseed{c, x.idx, x.text})
		}
	}
	return out
}

// evalJSONMutant is the oracle for one JSON text fed to the JSON decoder of c.
func evalJSONMutant(c *codec, path, name string, text []byte) (outcome string, fs []finding) {
	bad := func(oracle, detail string) {
		fs = append(fs, finding{Key: fmt.Sprintf("jsonmut:%s:%s:%s:%s", c.name, oracle, path, name), Mode: "jsonmut", Codec: c.name, Kind: name, Oracle: oracle, Label: path,
			Input: hx(text), Detail: short("json: "+short(string(text), 500)+" || "+detail, 1100), Pkg: c.pkg})
	}
	outcome = "rejected"
	if p := guard(func() {
		v, err := c.jdec(text)
		if err != nil {
			return
		}
		outcome = "accepted"
		var h string
		if c.hash != nil {
			h = c.hash(v)
		}
		j2, err := c.jenc(v)
		if err != nil {
			if err != errNoJSON {
				bad("accepted-value-does-not-encode-as-json", err.Error())
			}
			return
		}
		if bytes.Equal(j2, text) {
			outcome = "accepted-canonical"
		}
		v2, err := c.jdec(j2)
		if err != nil {
			bad("json-re-encoding-rejected", err.Error()+"; re-encoding: "+short(string(j2), 300))
			return
		}
		if !c.noDeep {
			if ok, p := semEqual(v, v2); !ok {
				bad("json-re-decoded-value-differs", "first difference at "+p+"; re-encoding: "+short(string(j2), 300))
			}
		}
		if c.hash != nil {
			if h2 := c.hash(v2); h2 != h {
				bad("hash-differs-after-json-re-encoding", h+" vs "+h2)
			}
		}
		if j3, err := c.jenc(v2); err != nil || !bytes.Equal(j3, j2) {
			bad("json-re-encoding-not-stable", short(string(j2), 300)+" vs "+short(string(j3), 300))
		}
		// cross-format: the accepted value in the binary (stack item) form
		b, err := c.enc(v)
		if err != nil {
			if !(c.encMayFail != nil && c.encMayFail(err)) {
				bad("json-accepted-value-does-not-encode-in-binary-form", err.Error())
			}
			return
		}
		v3, err := c.dec(b)
		if err != nil {
			bad("json-accepted-value-rejected-in-binary-form", err.Error()+"; binary: "+clip(b))
			return
		}
		if !c.noDeep {
			if ok, p := semEqual(v, v3); !ok {
				bad("value-differs-in-binary-form", "first difference at "+p+"; binary: "+clip(b))
			}
		}
		if c.hash != nil {
			if h3 := c.hash(v3); h3 != h {
				bad("hash-differs-in-binary-form", h+" vs "+h3)
			}
		}
		if c.size != nil {
			cb, err := c.canonOf(v)
			if s := c.size(v); err == nil && s >= 0 && s != len(cb)+c.sizeAdj {
				bad("size-differs-from-encoding", fmt.Sprintf("reported size %d, encoding is %d bytes", s, len(cb)))
			}
		}
	}); p != "" {
		outcome = "panic"
		fs = append(fs, finding{Key: "panic:" + p[1:strings.Index(p, "]")], Mode: "jsonmut", Codec: c.name, Kind: name, Oracle: "panic", Label: path, Input: hx(text),
			Detail: short("json decoder of "+c.name+": "+short(string(text), 300)+" || "+p, 1100), Pkg: c.pkg})
	}
	return
}

func jsonMutPhase(r *vk.Run, th bool, only string) (evals, nontrivial int, info map[string]any) {
	seeds := jsonSeeds(th)
	type job struct {
		s jseed
		m jmutant
	}
	var jobs []job
	perCodec := map[string]int{}
	mutNames := map[string]bool{}
	for _, s := range seeds {
		if only != "" && !strings.Contains(s.c.name, only) {
			continue
		}
		root, err := parseJ(s.text)
		if err != nil {
			continue
		}
		jobs = append(jobs, job{s, jmutant{"", "seed", s.text}})
		for _, m := range mutantsOf(root) {
			jobs = append(jobs, job{s, m})
			mutNames[m.name] = true
			// a transaction JSON carries its own hash and size, which nearly every
			// mutant contradicts: the same mutant with both made consistent again
			if strings.HasPrefix(s.c.name, "transaction.Transaction/") && !strings.HasPrefix(m.path, ".hash") && !strings.HasPrefix(m.path, ".size") {
				if fx := txJSONFixup(m.text); fx != nil {
					jobs = append(jobs, job{s, jmutant{m.path, m.name + "+hash-and-size-adjusted", fx}})
				}
			}
		}
		perCodec[s.c.name]++
	}
	var mu sync.Mutex
	outcomes := map[string]int{}
	first := map[string]struct {
		f   finding
		ord int
	}{}
	distinct := map[string]bool{}
	r.Parallel(len(jobs), func(i int) {
		j := jobs[i]
		out, fs := evalJSONMutant(j.s.c, j.m.path, j.m.name, j.m.text)
		mu.Lock()
		defer mu.Unlock()
		evals++
		outcomes[j.m.name+"->"+out]++
		if strings.HasPrefix(out, "accepted") {
			k := j.s.c.name + string(j.m.text)
			if !distinct[k] {
				distinct[k] = true
				nontrivial++
			}
		}
		for _, f := range fs {
			// one report per codec / oracle / member path: the first mutation
			parts := strings.Split(f.Key, ":")
			class := f.Key
			if len(parts) >= 5 {
				class = strings.Join(parts[:4], ":")
			}
			if o, ok := first[class]; !ok || i < o.ord {
				first[class] = struct {
					f   finding
					ord int
				}{f, i}
			}
		}
		if i%4999 == 0 {
			r.Sample(map[string]any{"phase": "jsonmut", "codec": j.s.c.name, "path": j.m.path, "mutation": j.m.name, "json": short(string(j.m.text), 200), "outcome": out})
		}
	})
	for k, n := range outcomes {
		_ = n
		r.Outcome("jsonmut:" + k)
	}
	var keys []string
	for k := range first {
		keys = append(keys, k)
	}
	sort.Slice(keys, func(a, b int) bool { return first[keys[a]].ord < first[keys[b]].ord })
	if os.Getenv("C17_XDUMP") != "" {
		for _, k := range keys {
			fmt.Printf("JKEY %s\n     %s\n", first[k].f.Key, short(first[k].f.Detail, 420))
		}
		keys = nil
	}
	for _, k := range keys {
		violate(r, first[k].f.Key, first[k].f)
	}
	info = map[string]any{"codecs": len(perCodec), "seeds": len(seeds), "seeds_per_codec": perCodec, "mutation_kinds": len(mutNames), "mutants": len(jobs), "accepted_distinct": nontrivial, "distinct_outcomes": len(outcomes)}
	return
}

func replayJSONMut(r *vk.Run, f finding) int {
	c := findCodec(f.Codec)
	if c == nil {
		fmt.Println("replay: unknown codec", f.Codec)
		return 0
	}
	for k := 0; k < 5; k++ {
		_, fs := evalJSONMutant(c, f.Label, f.Kind, unhx(f.Input))
		var keys []string
		for _, x := range fs {
			keys = append(keys, x.Key)
			if x.Key == f.Key {
				r.Violation(x.Key, x)
			}
		}
		fmt.Printf("replay %d: json mutant of %s at %s (%s) -> %v\n", k+1, f.Codec, f.Label, f.Kind, keys)
	}
	return 5
}

// txJSONFixup rewrites "hash" and "size" of a transaction JSON to what the
// fields of that JSON give (nil if the text does not parse as a transaction).
func txJSONFixup(text []byte) (out []byte) {
	guard(func() {
		t := &transaction.Transaction{}
		if err := t.UnmarshalJSONUnsafe(text); err != nil {
			return
		}
		c := t.Copy() // drops the declared hash and size
		b, err := encS(c)
		if err != nil {
			return
		}
		root, err := parseJ(text)
		if err != nil || root.kind != 'o' {
			return
		}
		for i, k := range root.keys {
			switch k {
			case "hash":
				root.kids[i] = &jnode{kind: 's', str: "0x" + c.Hash().StringLE()}
			case "size":
				root.kids[i] = raw(strconv.Itoa(len(b)))
			}
		}
		out = root.text()
	})
	return
}
