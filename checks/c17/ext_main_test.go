// C17 extension phases (E: cross-format agreement at limits, ...).
package c17

import (
	"fmt"
	"os"
	"path/filepath"
	"strings"
	"sync"
	"time"

	"verif/lib/vk"
)

type extResult struct {
	evals, nontrivial int
	info              map[string]any
}

func runExtPhases(r *vk.Run, th bool) extResult {
	res := extResult{info: map[string]any{}}
	if os.Getenv("C17_EMBED") != "" { // development: phase H only
		runEmbed(r, th, &res)
		return res
	}
	t0 := time.Now()
	e, n, info := xfmtPhase(r, th, os.Getenv("C17_XGROUP"))
	res.evals += e
	res.nontrivial += n
	res.info["cross_format_limits"] = info
	fmt.Printf("phase E (cross-format agreement at limits): %v, %d evaluations in %.1fs\n", info["cases_per_group"], e, time.Since(t0).Seconds())
	if os.Getenv("C17_XGROUP") == "" || os.Getenv("C17_JSONMUT") != "" {
		t0 = time.Now()
		e, n, info = jsonMutPhase(r, th, os.Getenv("C17_JSONMUT"))
		res.evals += e
		res.nontrivial += n
		res.info["json_structural_mutants"] = info
		fmt.Printf("phase F (structural JSON mutants): %d seeds of %d codecs, %d mutants, %d accepted (distinct) in %.1fs\n", info["seeds"], info["codecs"], e, n, time.Since(t0).Seconds())
	}
	if os.Getenv("C17_XGROUP") == "" && os.Getenv("C17_JSONMUT") == "" || os.Getenv("C17_PATHS2") != "" {
		t0 = time.Now()
		e, n, info = pathPhase2(r, th)
		res.evals += e
		res.nontrivial += n
		res.info["paths_headers_extensible_notary_and_compression_threshold"] = info
		fmt.Printf("phase G (paths of headers / extensibles / notary requests, compression threshold): %v, %d threshold cases, %d evaluations in %.1fs\n", info["path_cases_by_kind"], info["threshold_cases"], e, time.Since(t0).Seconds())
	}
	if os.Getenv("C17_XGROUP") == "" && os.Getenv("C17_JSONMUT") == "" && os.Getenv("C17_PATHS2") == "" {
		runEmbed(r, th, &res)
	}
	return res
}

func runEmbed(r *vk.Run, th bool, res *extResult) {
	t0 := time.Now()
	e, n, info := embedPhase(r, th, os.Getenv("C17_EMBED"))
	res.evals += e
	res.nontrivial += n
	res.info["embedded_and_compact_forms"] = info
	var parts []string
	for _, k := range sortedKeys(info) {
		m := info[k].(map[string]any)
		parts = append(parts, fmt.Sprintf("%s=%d/%d", k, m["cases"], m["distinct_outcomes"]))
	}
	fmt.Printf("phase H (embedded / compact forms restore value and identity): cases/distinct outcomes %s, %d restored values compared in %.1fs\n", strings.Join(parts, " "), e, time.Since(t0).Seconds())
}

// violate reports a violation. Development aid: with C17_DEV_KNOWN=1 the keys
// listed in PROPOSED_KNOWN_FINDINGS.txt (next to the sources, not yet copied
// into /verif/KNOWN_FINDINGS.txt by the lead) are only counted, so that a
// development run shows what else fires. Normal runs do not read that file.
var devKnown = sync.OnceValue(func() []string {
	if os.Getenv("C17_DEV_KNOWN") == "" {
		return nil
	}
	b, err := os.ReadFile(filepath.Join(vk.Root(), "checks", "c17", "PROPOSED_KNOWN_FINDINGS.txt"))
	if err != nil {
		return nil
	}
	var out []string
	for _, l := range strings.Split(string(b), "\n") {
		f := strings.Fields(l)
		if len(f) >= 2 && strings.HasPrefix(f[0], "property=") && strings.HasPrefix(f[1], "key=") {
			out = append(out, strings.TrimPrefix(f[1], "key="))
		}
	}
	return out
})

var devKnownHits sync.Map

func violate(r *vk.Run, key string, detail any) {
	k := strings.ReplaceAll(key, " ", "_")
	for _, p := range devKnown() {
		if p == k || strings.HasSuffix(p, "*") && strings.HasPrefix(k, strings.TrimSuffix(p, "*")) {
			if _, seen := devKnownHits.LoadOrStore(p, true); !seen {
				fmt.Println("PROPOSED-KNOWN:", p)
			}
			return
		}
	}
	r.Violation(key, detail)
}
