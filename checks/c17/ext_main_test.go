// C17 extension phases (E: cross-format agreement at limits, ...).
package c17

import (
	"fmt"
	"os"
	"time"

	"verif/lib/vk"
)

type extResult struct {
	evals, nontrivial int
	info              map[string]any
}

func runExtPhases(r *vk.Run, th bool) extResult {
	res := extResult{info: map[string]any{}}
	t0 := time.Now()
	e, n, info := xfmtPhase(r, th, os.Getenv("C17_XGROUP"))
	res.evals += e
	res.nontrivial += n
	res.info["cross_format_limits"] = info
	fmt.Printf("phase E (cross-format agreement at limits): %v, %d evaluations in %.1fs\n", info["cases_per_group"], e, time.Since(t0).Seconds())
	if os.Getenv("C17_XGROUP") == "" || os.Getenv("C17_JSONMUT") != "" {
		t0 = time.Now()
		e, n, info = jsonMutPhase(r, th, os.Getenv("C17_JSONMUT"))
		res.evals += e
		res.nontrivial += n
		res.info["json_structural_mutants"] = info
		fmt.Printf("phase F (structural JSON mutants): %d seeds of %d codecs, %d mutants, %d accepted (distinct) in %.1fs\n", info["seeds"], info["codecs"], e, n, time.Since(t0).Seconds())
	}
	return res
}
