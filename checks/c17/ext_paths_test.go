// C17 phase G: identity does not depend on the arrival path - headers,
// extensible payloads and notary requests (phase B does transactions and
// blocks), and P2P messages whose payload sits at the compression threshold.
package c17

import (
	"bytes"
	"crypto/sha256"
	"encoding/json"
	"fmt"
	"sort"
	"strings"
	"sync"

	"github.com/nspcc-dev/neo-go/pkg/config/netmode"
	"github.com/nspcc-dev/neo-go/pkg/consensus"
	"github.com/nspcc-dev/neo-go/pkg/core/block"
	"github.com/nspcc-dev/neo-go/pkg/core/dao"
	"github.com/nspcc-dev/neo-go/pkg/core/storage"
	"github.com/nspcc-dev/neo-go/pkg/core/transaction"
	"github.com/nspcc-dev/neo-go/pkg/io"
	"github.com/nspcc-dev/neo-go/pkg/network"
	"github.com/nspcc-dev/neo-go/pkg/network/payload"
	"github.com/nspcc-dev/neo-go/pkg/util"

	"verif/lib/vk"
)

func obsOf(path string, f func() (hash string, size int, err error)) pathObs {
	o := pathObs{path: path, size: -1}
	if p := guard(func() {
		h, s, err := f()
		if err != nil {
			o.err = err.Error()
			return
		}
		o.hash, o.size = h, s
	}); p != "" {
		o.err = "panic: " + p
	}
	return o
}

func decodeMsg(raw []byte, sr bool) (*network.Message, error) {
	m := &network.Message{StateRootInHeader: sr}
	if err := m.Decode(io.NewBinReaderFromBuf(raw)); err != nil {
		return nil, err
	}
	return m, nil
}

func headerPaths(y []byte, sr bool) []pathObs {
	id := func(h *block.Header) (string, int, error) { return h.Hash().StringLE(), io.GetVarSize(h), nil }
	direct := func() (*block.Header, error) {
		h := &block.Header{StateRootEnabled: sr}
		r := io.NewBinReaderFromBuf(y)
		h.DecodeBinary(r)
		if r.Err == nil && r.Len() != 0 {
			return nil, fmt.Errorf("harness: trailing bytes")
		}
		return h, r.Err
	}
	fromHeaders := func(raw []byte) (string, int, error) {
		m, err := decodeMsg(raw, sr)
		if err != nil {
			return "", 0, err
		}
		return id(m.Payload.(*payload.Headers).Hdrs[0])
	}
	var out []pathObs
	out = append(out, obsOf("DecodeBinary", func() (string, int, error) {
		h, err := direct()
		if err != nil {
			return "", 0, err
		}
		return id(h)
	}))
	out = append(out, obsOf("empty-block", func() (string, int, error) {
		b := block.New(sr)
		r := io.NewBinReaderFromBuf(cat(y, []byte{0}))
		b.DecodeBinary(r)
		if r.Err != nil {
			return "", 0, r.Err
		}
		if b.Hash() != b.Header.Hash() {
			return "", 0, fmt.Errorf("block hash differs from its header's hash")
		}
		return id(&b.Header)
	}))
	out = append(out, obsOf("p2p-headers", func() (string, int, error) {
		return fromHeaders(rawMessage(0, network.CMDHeaders, cat([]byte{1}, y)))
	}))
	out = append(out, obsOf("p2p-headers-compressed", func() (string, int, error) {
		return fromHeaders(rawMessage(byte(network.Compressed), network.CMDHeaders, lz4Literals(cat([]byte{1}, y))))
	}))
	out = append(out, obsOf("p2p-block", func() (string, int, error) {
		m, err := decodeMsg(rawMessage(0, network.CMDBlock, cat(y, []byte{0})), sr)
		if err != nil {
			return "", 0, err
		}
		return id(&m.Payload.(*block.Block).Header)
	}))
	out = append(out, obsOf("json-of-received", func() (string, int, error) {
		h, err := direct()
		if err != nil {
			return "", 0, err
		}
		j, err := json.Marshal(h)
		if err != nil {
			return "", 0, err
		}
		h2 := &block.Header{StateRootEnabled: sr}
		if err := json.Unmarshal(j, h2); err != nil {
			return "", 0, fmt.Errorf("JSON produced for the received header is rejected: %w", err)
		}
		return id(h2)
	}))
	out = append(out, obsOf("dao", func() (string, int, error) {
		h, err := direct()
		if err != nil {
			return "", 0, err
		}
		d := dao.NewSimple(storage.NewMemoryStore(), sr)
		if err := d.StoreHeader(h); err != nil {
			return "", 0, err
		}
		b, err := d.GetBlock(h.Hash())
		if err != nil {
			return "", 0, fmt.Errorf("GetBlock(hash the header was stored under): %w", err)
		}
		return id(&b.Header)
	}))
	return out
}

func extensiblePaths(x []byte) []pathObs {
	id := func(e *payload.Extensible) (string, int, error) { return e.Hash().StringLE(), io.GetVarSize(e), nil }
	var out []pathObs
	out = append(out, obsOf("DecodeBinary", func() (string, int, error) {
		e := payload.NewExtensible()
		r := io.NewBinReaderFromBuf(x)
		e.DecodeBinary(r)
		if r.Err != nil {
			return "", 0, r.Err
		}
		if r.Len() != 0 {
			return "", 0, fmt.Errorf("harness: trailing bytes")
		}
		return id(e)
	}))
	msg := func(raw []byte) (string, int, error) {
		m, err := decodeMsg(raw, false)
		if err != nil {
			return "", 0, err
		}
		return id(m.Payload.(*payload.Extensible))
	}
	out = append(out, obsOf("p2p-message", func() (string, int, error) { return msg(rawMessage(0, network.CMDExtensible, x)) }))
	out = append(out, obsOf("p2p-message-compressed", func() (string, int, error) {
		return msg(rawMessage(byte(network.Compressed), network.CMDExtensible, lz4Literals(x)))
	}))
	out = append(out, obsOf("re-sent", func() (string, int, error) {
		m, err := decodeMsg(rawMessage(0, network.CMDExtensible, x), false)
		if err != nil {
			return "", 0, err
		}
		// what the node relays: the payload re-encoded into a new message
		raw, err := network.NewMessage(network.CMDExtensible, m.Payload).Bytes()
		if err != nil {
			return "", 0, err
		}
		return msg(raw)
	}))
	// as a consensus payload (only if it decodes as one)
	out = append(out, obsOf("consensus-payload", func() (string, int, error) {
		p := consensus.NewPayload(netmode.UnitTestNet, false)
		r := io.NewBinReaderFromBuf(x)
		p.DecodeBinary(r)
		if r.Err != nil {
			return "", 0, fmt.Errorf("not-a-consensus-message: %w", r.Err)
		}
		return p.Hash().StringLE(), io.GetVarSize(&p.Extensible), nil
	}))
	return out
}

func notaryPaths(z []byte) []pathObs {
	id := func(r *payload.P2PNotaryRequest) (string, int, error) {
		return r.Hash().StringLE() + "," + r.MainTransaction.Hash().StringLE() + "," + r.FallbackTransaction.Hash().StringLE(),
			r.MainTransaction.Size()*100000 + r.FallbackTransaction.Size(), nil
	}
	var out []pathObs
	out = append(out, obsOf("NewP2PNotaryRequestFromBytes", func() (string, int, error) {
		r, err := payload.NewP2PNotaryRequestFromBytes(z)
		if err != nil {
			return "", 0, err
		}
		return id(r)
	}))
	msg := func(raw []byte) (string, int, error) {
		m, err := decodeMsg(raw, false)
		if err != nil {
			return "", 0, err
		}
		return id(m.Payload.(*payload.P2PNotaryRequest))
	}
	out = append(out, obsOf("p2p-message", func() (string, int, error) { return msg(rawMessage(0, network.CMDP2PNotaryRequest, z)) }))
	out = append(out, obsOf("p2p-message-compressed", func() (string, int, error) {
		return msg(rawMessage(byte(network.Compressed), network.CMDP2PNotaryRequest, lz4Literals(z)))
	}))
	out = append(out, obsOf("re-sent", func() (string, int, error) {
		m, err := decodeMsg(rawMessage(0, network.CMDP2PNotaryRequest, z), false)
		if err != nil {
			return "", 0, err
		}
		raw, err := network.NewMessage(network.CMDP2PNotaryRequest, m.Payload).Bytes()
		if err != nil {
			return "", 0, err
		}
		return msg(raw)
	}))
	// the two transactions on their own: through the transaction entry points
	out = append(out, obsOf("transactions-through-NewTransactionFromBytes", func() (string, int, error) {
		r, err := payload.NewP2PNotaryRequestFromBytes(z)
		if err != nil {
			return "", 0, err
		}
		mt, err := transaction.NewTransactionFromBytes(r.MainTransaction.Bytes())
		if err != nil {
			return "", 0, fmt.Errorf("main transaction re-read: %w", err)
		}
		ft, err := transaction.NewTransactionFromBytes(r.FallbackTransaction.Bytes())
		if err != nil {
			return "", 0, fmt.Errorf("fallback transaction re-read: %w", err)
		}
		return r.Hash().StringLE() + "," + mt.Hash().StringLE() + "," + ft.Hash().StringLE(), mt.Size()*100000 + ft.Size(), nil
	}))
	return out
}

type pathCase2 struct {
	what  string // header | header/stateroot | extensible | notary
	kind  string
	off   int
	input []byte
}

func (pc *pathCase2) obs() []pathObs {
	switch pc.what {
	case "header":
		return headerPaths(pc.input, false)
	case "header/stateroot":
		return headerPaths(pc.input, true)
	case "extensible":
		return extensiblePaths(pc.input)
	}
	return notaryPaths(pc.input)
}

func pathCases2(th bool) []pathCase2 {
	var out []pathCase2
	seen := map[string]bool{}
	addAll := func(what string, b []byte, mutate bool) {
		if seen[what+string(b)] {
			return
		}
		seen[what+string(b)] = true
		out = append(out, pathCase2{what, "canonical", -1, b})
		if !mutate {
			return
		}
		for i := 0; i < len(b); i++ {
			if b[i] < 0xfd {
				for _, form := range []byte{0xfd, 0xfe, 0xff} {
					out = append(out, pathCase2{what, "varint-nonminimal", i, cat(b[:i], varintForm(uint64(b[i]), form), b[i+1:])})
				}
			}
			for _, x := range boundaryBytes {
				if x != b[i] {
					m := append([]byte{}, b...)
					m[i] = x
					out = append(out, pathCase2{what, "subst", i, m})
				}
			}
		}
	}
	for _, sr := range []bool{false, true} {
		what := "header"
		if sr {
			what = "header/stateroot"
		}
		for i, v := range codecBy(map[bool]string{false: "block.Header", true: "block.Header/stateroot"}[sr]).gen(th) {
			b, err := encS(v.(*block.Header))
			if err == nil {
				addAll(what, b, i < vk2(th, 2, 6))
			}
		}
	}
	n := 0
	for _, v := range codecBy("payload.Extensible").gen(th) {
		b, err := encS(v.(*payload.Extensible))
		if err != nil {
			continue
		}
		mut := len(b) < 120 && n < vk2(th, 4, 16)
		if mut {
			n++
		}
		addAll("extensible", b, mut)
	}
	// consensus messages in their envelope
	for i, m := range consensusMessages(false) {
		e := &payload.Extensible{Category: payload.ConsensusCategory, ValidBlockEnd: 9, Sender: u160s[1], Data: m.b, Witness: witnesses()[1]}
		b, _ := encS(e)
		addAll("extensible", b, i%9 == 0 && len(b) < 200)
	}
	for i, v := range codecBy("payload.P2PNotaryRequest").gen(th) {
		b, err := v.(*payload.P2PNotaryRequest).Bytes()
		if err == nil {
			addAll("notary", b, i < vk2(th, 2, 5))
		}
	}
	return out
}

func (pc *pathCase2) eval() (accepted int, fs []finding) {
	obs := pc.obs()
	what := pc.what
	accepted, diffs := comparePaths(what, obs)
	for _, d := range diffs {
		parts := strings.SplitN(d, "|", 2)
		if strings.Contains(parts[0], "consensus-payload") {
			continue
		}
		key := fmt.Sprintf("path:%s:%s", pc.kind, parts[0])
		var all []string
		for _, o := range obs {
			if o.err != "" {
				all = append(all, fmt.Sprintf("%s: error %s", o.path, short(o.err, 120)))
			} else {
				all = append(all, fmt.Sprintf("%s: hash %s size %d", o.path, o.hash, o.size))
			}
		}
		fs = append(fs, finding{Key: key, Mode: "path2", Codec: pc.what, Kind: pc.kind, Oracle: parts[0], Input: clip(pc.input), Offset: pc.off,
			Detail: parts[1] + " || " + strings.Join(all, "; "), Pkg: "pkg/network/payload"})
	}
	// what one path accepts, the equivalent paths must accept too (the same bytes
	// in another envelope): the P2P paths against the direct decoder
	var direct, others []pathObs
	for _, o := range obs {
		switch o.path {
		case "DecodeBinary", "NewP2PNotaryRequestFromBytes":
			direct = append(direct, o)
		case "p2p-message", "p2p-message-compressed", "p2p-headers", "p2p-headers-compressed", "re-sent", "empty-block", "p2p-block", "dao", "json-of-received", "transactions-through-NewTransactionFromBytes":
			others = append(others, o)
		}
	}
	// (bytes left over after the value are not the decoder's business: a message
	// payload may carry them, the strict entry points refuse them)
	if len(direct) == 1 && !strings.Contains(direct[0].err, "trailing bytes") && !strings.Contains(direct[0].err, "additional data after") {
		for _, o := range others {
			if (direct[0].err == "") != (o.err == "") {
				fs = append(fs, finding{Key: fmt.Sprintf("path:%s:%s-accepted-on-one-path-only:%s", pc.kind, what, o.path), Mode: "path2", Codec: pc.what, Kind: pc.kind, Oracle: "accepted-on-one-path-only",
					Input: clip(pc.input), Offset: pc.off, Detail: fmt.Sprintf("%s: %q; %s: %q", direct[0].path, direct[0].err, o.path, o.err), Pkg: "pkg/network/payload"})
			}
		}
	}
	return
}

// ---- compression threshold -------------------------------------------------------------------

type thresholdCase struct {
	name string
	cmd  network.CommandType
	mk   func(pad int, fill func(n int) []byte) payload.Payload
}

func fillZero(n int) []byte { return make([]byte, n) }

// fillHashChain: bytes of a SHA-256 chain - what hashes, signatures and already
// compressed data look like on the wire: no repetition an LZ4 encoder could use.
func fillHashChain(n int) []byte {
	b := make([]byte, 0, n+32)
	h := sha256.Sum256([]byte("c17"))
	for len(b) < n {
		b = append(b, h[:]...)
		h = sha256.Sum256(h[:])
	}
	return b[:n]
}

// fillNoise: incompressible bytes from a fixed linear congruential generator.
func fillNoise(n int) []byte {
	b := make([]byte, n)
	x := uint32(12345)
	for i := range b {
		x = x*1664525 + 1013904223
		b[i] = byte(x >> 24)
	}
	return b
}

func thresholdCases() []thresholdCase {
	w := transaction.Witness{InvocationScript: []byte{}, VerificationScript: []byte{}}
	return []thresholdCase{
		{"extensible", network.CMDExtensible, func(pad int, fill func(int) []byte) payload.Payload {
			return &payload.Extensible{Category: "c", ValidBlockEnd: 5, Sender: u160(1), Data: fill(pad), Witness: w}
		}},
		{"tx", network.CMDTX, func(pad int, fill func(int) []byte) payload.Payload {
			s := fill(pad)
			if pad == 0 {
				return nil
			}
			return &transaction.Transaction{Nonce: 3, ValidUntilBlock: 4, Script: s, Signers: []transaction.Signer{{Account: u160(2)}}, Attributes: []transaction.Attribute{}, Scripts: []transaction.Witness{w}}
		}},
		{"block", network.CMDBlock, func(pad int, fill func(int) []byte) payload.Payload {
			if pad == 0 {
				return nil
			}
			t := &transaction.Transaction{Nonce: 3, ValidUntilBlock: 4, Script: fill(pad), Signers: []transaction.Signer{{Account: u160(2)}}, Attributes: []transaction.Attribute{}, Scripts: []transaction.Witness{w}}
			b := &block.Block{Header: *headers(false)[0], Transactions: []*transaction.Transaction{t}}
			b.RebuildMerkleRoot()
			return b
		}},
		{"mptdata", network.CMDMPTData, func(pad int, fill func(int) []byte) payload.Payload {
			return &payload.MPTData{Nodes: [][]byte{fill(pad)}}
		}},
		{"headers", network.CMDHeaders, func(pad int, fill func(int) []byte) payload.Payload {
			if pad > transaction.MaxInvocationScript {
				return nil
			}
			h := *headers(false)[0]
			h.Script = transaction.Witness{InvocationScript: fill(pad), VerificationScript: fill(transaction.MaxVerificationScript / 2)}
			return &payload.Headers{Hdrs: []*block.Header{&h}}
		}},
		{"inventory", network.CMDInv, func(pad int, fill func(int) []byte) payload.Payload {
			if pad%32 != 0 {
				return nil
			}
			inv := &payload.Inventory{Type: payload.TXType}
			f := fill(pad)
			for i := 0; i+32 <= len(f); i += 32 {
				var h util.Uint256
				copy(h[:], f[i:i+32])
				inv.Hashes = append(inv.Hashes, h)
			}
			if len(inv.Hashes) == 0 {
				return nil
			}
			return inv
		}},
	}
}

// evalThreshold: payloads of exactly n bytes for n around CompressionMinSize.
func evalThreshold(tc thresholdCase, n int, fillName string, fill func(int) []byte) (outcome string, fs []finding) {
	bad := func(oracle, detail string) {
		fs = append(fs, finding{Key: fmt.Sprintf("threshold:%s:%s:%s:%d", tc.name, oracle, fillName, n-network.CompressionMinSize), Mode: "threshold", Codec: tc.name, Kind: fillName, Oracle: oracle, Offset: n,
			Detail: short(detail, 600), Pkg: "pkg/network"})
	}
	// find the padding that makes the payload encoding exactly n bytes long
	var p payload.Payload
	var pb []byte
	start := 0
	if n > 4*network.CompressionMinSize {
		start = n - 400 // bulk sizes: the fixed part of every payload kind is far below 400 bytes
	}
	for pad := start; pad <= n; pad++ {
		var q payload.Payload
		if pn := guard(func() { q = tc.mk(pad, fill) }); pn != "" || q == nil {
			continue
		}
		b, err := encS(q)
		if err != nil {
			continue
		}
		if len(b) == n {
			p, pb = q, b
			break
		}
		if len(b) > n {
			break
		}
	}
	if p == nil {
		return "no-payload-of-this-size", nil
	}
	if pn := guard(func() {
		for _, allow := range []bool{true, false} {
			msg := network.NewMessage(tc.cmd, p)
			raw, err := msg.BytesCompressed(allow)
			if err != nil {
				bad("message-does-not-encode", err.Error())
				return
			}
			// the encoding is a function of the value: the same message object encoded
			// again (same setting, then the other one) still gives messages a peer reads
			for _, again := range []bool{allow, !allow} {
				rawN, err := msg.BytesCompressed(again)
				if err != nil {
					bad("message-does-not-encode-again", err.Error())
					break
				}
				// (the bytes themselves need not repeat: the LZ4 encoder's match table is
				// pooled, so two compressions of one payload may differ and both be valid)
				if again == allow && (rawN[0] != raw[0] || (raw[0]&byte(network.Compressed) == 0 && !bytes.Equal(rawN, raw))) {
					bad("second-encoding-of-the-same-message-differs", fmt.Sprintf("allow=%v: %s.. then %s..", allow, hx(raw[:8]), hx(rawN[:8])))
				}
				if mN, err := decodeMsg(rawN, false); err != nil {
					bad("second-encoding-of-the-same-message-rejected", fmt.Sprintf("first allow=%v, again allow=%v: %v", allow, again, err))
				} else if bN, err := encS(mN.Payload); err != nil || !bytes.Equal(bN, pb) {
					bad("payload-differs-after-the-second-encoding", fmt.Sprintf("first allow=%v, again allow=%v", allow, again))
				}
			}
			compressed := raw[0]&byte(network.Compressed) != 0
			if compressed && !allow {
				bad("compressed-although-not-allowed", hx(raw[:8]))
			}
			if compressed && n <= network.CompressionMinSize {
				bad("compressed-at-or-below-CompressionMinSize", fmt.Sprintf("payload of %d bytes, CompressionMinSize %d", n, network.CompressionMinSize))
			}
			m, err := decodeMsg(raw, false)
			if err != nil {
				bad("own-message-rejected", fmt.Sprintf("compressed=%v: %v", compressed, err))
				return
			}
			b2, err := encS(m.Payload)
			if err != nil || !bytes.Equal(b2, pb) {
				bad("payload-differs-after-the-message", fmt.Sprintf("compressed=%v: %d bytes vs %d bytes (%v)", compressed, len(pb), len(b2), err))
			}
			if m.Command != tc.cmd {
				bad("command-differs", m.Command.String())
			}
			if allow {
				outcome = fmt.Sprintf("compressed=%v", compressed)
			}
			// the same payload framed the other way round by a peer
			var alt []byte
			if compressed {
				alt = rawMessage(0, tc.cmd, pb)
			} else {
				alt = rawMessage(byte(network.Compressed), tc.cmd, lz4Literals(pb))
			}
			m2, err := decodeMsg(alt, false)
			if err != nil {
				bad("other-framing-rejected", fmt.Sprintf("compressed=%v: %v", !compressed, err))
				return
			}
			if b3, err := encS(m2.Payload); err != nil || !bytes.Equal(b3, pb) {
				bad("payload-differs-with-the-other-framing", fmt.Sprintf("%d vs %d bytes (%v)", len(pb), len(b3), err))
			}
		}
	}); pn != "" {
		bad("panic", pn)
	}
	return
}

func pathPhase2(r *vk.Run, th bool) (evals, nontrivial int, info map[string]any) {
	cases := pathCases2(th)
	var mu sync.Mutex
	var all []finding
	byKind := map[string]int{}
	r.Parallel(len(cases), func(i int) {
		acc, fs := cases[i].eval()
		mu.Lock()
		defer mu.Unlock()
		evals++
		if acc >= 2 {
			nontrivial++
		}
		byKind[cases[i].what+"/"+cases[i].kind]++
		all = append(all, fs...)
		switch {
		case len(fs) > 0:
			r.Outcome("path2->" + fs[0].Oracle)
		case acc == 0:
			r.Outcome("path2->" + cases[i].what + "-rejected-everywhere")
		default:
			r.Outcome("path2->" + cases[i].what + "-agree")
		}
		if cases[i].kind == "canonical" && i%53 == 0 {
			r.Sample(map[string]any{"phase": "paths2", "what": cases[i].what, "input_hex": short(hx(cases[i].input), 160), "paths_accepting": acc})
		}
	})
	// thresholds
	type tj struct {
		tc   thresholdCase
		n    int
		fn   string
		fill func(int) []byte
	}
	var tjs []tj
	sizes := []int{network.CompressionMinSize - 1, network.CompressionMinSize, network.CompressionMinSize + 1, network.CompressionMinSize + 2}
	if th {
		sizes = nil
		for n := network.CompressionMinSize - 40; n <= network.CompressionMinSize+40; n++ {
			sizes = append(sizes, n)
		}
	}
	// bulk sizes far above the threshold: what an encoder does with incompressible
	// payloads depends on their size (output larger than the input by size/255)
	bulk := []int{4096, 16384, 60000}
	if th {
		bulk = []int{2048, 4096, 8192, 16384, 32768, 60000, 65000}
	}
	for _, tc := range thresholdCases() {
		for _, n := range sizes {
			tjs = append(tjs, tj{tc, n, "zeros", fillZero}, tj{tc, n, "noise", fillNoise}, tj{tc, n, "hashes", fillHashChain})
		}
		for _, n := range bulk {
			tjs = append(tjs, tj{tc, n, "zeros", fillZero}, tj{tc, n, "noise", fillNoise}, tj{tc, n, "hashes", fillHashChain})
		}
	}
	thOutcomes := map[string]int{}
	r.Parallel(len(tjs), func(i int) {
		j := tjs[i]
		out, fs := evalThreshold(j.tc, j.n, j.fn, j.fill)
		mu.Lock()
		defer mu.Unlock()
		evals++
		if strings.HasPrefix(out, "compressed=") {
			nontrivial++
		}
		thOutcomes[fmt.Sprintf("%s/%s/%+d->%s", j.tc.name, j.fn, j.n-network.CompressionMinSize, out)]++
		all = append(all, fs...)
	})
	for k := range thOutcomes {
		r.Outcome("threshold:" + k)
	}
	sort.SliceStable(all, func(a, b int) bool { return len(all[a].Input) < len(all[b].Input) })
	for _, f := range all {
		violate(r, f.Key, f)
	}
	info = map[string]any{"path_cases_by_kind": byKind, "path_cases": len(cases), "threshold_cases": len(tjs), "threshold_outcomes": thOutcomes}
	return
}

func replayPath2(r *vk.Run, f finding) int {
	if f.Mode == "threshold" {
		for _, tc := range thresholdCases() {
			if tc.name != f.Codec {
				continue
			}
			fill := fillZero
			if f.Kind == "noise" {
				fill = fillNoise
			}
			for k := 0; k < 5; k++ {
				_, fs := evalThreshold(tc, f.Offset, f.Kind, fill)
				for _, x := range fs {
					if x.Key == f.Key {
						r.Violation(x.Key, x)
					}
				}
			}
			return 5
		}
		return 0
	}
	if strings.Contains(f.Input, "...") {
		fmt.Println("replay: input was clipped")
		return 0
	}
	pc := pathCase2{what: f.Codec, kind: f.Kind, off: f.Offset, input: unhx(f.Input)}
	for k := 0; k < 5; k++ {
		_, fs := pc.eval()
		var keys []string
		for _, x := range fs {
			keys = append(keys, x.Key)
			if x.Key == f.Key {
				r.Violation(x.Key, x)
			}
		}
		fmt.Printf("replay %d: %s %s -> %v\n", k+1, pc.what, pc.kind, keys)
	}
	return 5
}
