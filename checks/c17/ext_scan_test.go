// C17 registry completeness: every type of the repository that has a decoder
// (DecodeBinary, FromStackItem, UnmarshalJSON, FromBytes/DecodeBytes) must be in
// the registry or in the exemption list below, with a reason. A new or renamed
// serialisable type makes the check FAIL LOUDLY (check error, exit 3), it is
// not silently left unexplored.
package c17

import (
	"fmt"
	"go/ast"
	"go/parser"
	"go/token"
	"os"
	"path/filepath"
	"sort"
	"strings"

	"verif/lib/vk"
)

// coveredBy: "<package dir under pkg>.<Type>" -> codec that decodes values of
// the type (directly or as a component), or "-" + reason for an exemption.
var coveredBy = map[string]string{
	// io.Serializable
	"consensus.changeView": "consensus.message", "consensus.commit": "consensus.message", "consensus.message": "consensus.message", "consensus.Payload": "consensus.Payload",
	"consensus.prepareRequest": "consensus.message", "consensus.prepareResponse": "consensus.message", "consensus.changeViewCompact": "consensus.message",
	"consensus.commitCompact": "consensus.message", "consensus.preparationCompact": "consensus.message", "consensus.recoveryMessage": "consensus.message", "consensus.recoveryRequest": "consensus.message",
	"core/block.Block": "block.Block", "core/block.Header": "block.Header",
	"core/dao.StateSyncCheckpoint": "dao.StateSyncCheckpoint", "core/dao.Version": "dao.Version",
	"core/mpt.NodeObject": "mpt.NodeObject", "core/mpt.BranchNode": "mpt.NodeObject", "core/mpt.ExtensionNode": "mpt.NodeObject", "core/mpt.HashNode": "mpt.NodeObject", "core/mpt.LeafNode": "mpt.NodeObject", "core/mpt.EmptyNode": "mpt.NodeObject",
	"core/state.ContractInvocation": "state.ContractInvocation", "core/state.MPTRoot": "state.MPTRoot", "core/state.AppExecResult": "state.AppExecResult", "core/state.NotificationEvent": "state.NotificationEvent",
	"core/state.NEP11Transfer": "state.NEP11Transfer", "core/state.NEP17Transfer": "state.NEP17Transfer", "core/state.TokenTransferInfo": "state.TokenTransferInfo",
	"core/state.Execution": "state.AppExecResult", "core/state.ContainedNotificationEvent": "-RPC notification wrapper: a NotificationEvent plus the container hash, JSON only, embeds the registered type",
	"core/transaction.Attribute": "transaction.Attribute", "core/transaction.Conflicts": "transaction.Conflicts", "core/transaction.NotValidBefore": "transaction.NotValidBefore", "core/transaction.NotaryAssisted": "transaction.NotaryAssisted",
	"core/transaction.OracleResponse": "transaction.OracleResponse", "core/transaction.Reserved": "transaction.Reserved", "core/transaction.Signer": "transaction.Signer", "core/transaction.Transaction": "transaction.Transaction/DecodeBinary",
	"core/transaction.Witness": "transaction.Witness", "core/transaction.WitnessRule": "transaction.WitnessRule", "core/transaction.OracleResponseCode": "transaction.OracleResponse", "core/transaction.WitnessScope": "transaction.Signer",
	"crypto/keys.PublicKey": "keys.PublicKey", "crypto/keys.PublicKeys": "keys.PublicKeys",
	"encoding/fixedn.Fixed8": "fixedn.Fixed8",
	"neorpc/result.ProofWithKey": "result.ProofWithKey", "neorpc/result.VerifyProof": "result.VerifyProof/json",
	"network/capability.Archival": "capability.Capability", "network/capability.Capabilities": "capability.Capabilities", "network/capability.Capability": "capability.Capability", "network/capability.DisableCompression": "capability.Capability",
	"network/capability.Node": "capability.Capability", "network/capability.Server": "capability.Capability", "network/capability.Unknown": "capability.Capability",
	"network/payload.AddressAndTime": "payload.AddressAndTime", "network/payload.AddressList": "payload.AddressList", "network/payload.Extensible": "payload.Extensible", "network/payload.GetBlockByIndex": "payload.GetBlockByIndex",
	"network/payload.GetBlocks": "payload.GetBlocks", "network/payload.Headers": "payload.Headers", "network/payload.Inventory": "payload.Inventory", "network/payload.MerkleBlock": "payload.MerkleBlock", "network/payload.MPTData": "payload.MPTData",
	"network/payload.MPTInventory": "payload.MPTInventory", "network/payload.P2PNotaryRequest": "payload.P2PNotaryRequest", "network/payload.NullPayload": "payload.NullPayload", "network/payload.Ping": "payload.Ping", "network/payload.Version": "payload.Version",
	"services/stateroot.Message": "stateroot.Message", "services/stateroot.Vote": "stateroot.Vote",
	"smartcontract/nef.MethodToken": "nef.MethodToken", "smartcontract/nef.File": "nef.File", "smartcontract/nef.Header": "nef.Header",
	"smartcontract.ParamType": "smartcontract.ParamType",
	"util.Uint160": "util.Uint160", "util.Uint256": "util.Uint256",
	// stack item forms
	"core/native.IDList": "native.IDList", "core/native.NodeList": "native.NodeList",
	"core/native.candidate":     "-unexported record of the NEO native contract (registered flag + votes), only reachable through contract storage; explored by the ledger-level checks",
	"core/native.keysWithVotes": "-unexported NEO committee cache record, only reachable through contract storage",
	"core/native.blsPoint":      "-BLS12-381 point interop object, not a stored/hashed/sent value (C18 territory)",
	"core/state.Contract":       "state.Contract", "core/state.Deposit": "state.Deposit", "core/state.NEOBalance": "state.NEOBalance", "core/state.NEP17Balance": "state.NEP17Balance", "core/state.OracleRequest": "state.OracleRequest",
	"core/state.WhitelistFeeContract": "state.WhitelistFeeContract",
	"smartcontract/manifest.ABI": "manifest.Manifest", "smartcontract/manifest.Event": "manifest.Manifest", "smartcontract/manifest.Group": "manifest.Manifest", "smartcontract/manifest.Manifest": "manifest.Manifest", "smartcontract/manifest.Method": "manifest.Manifest",
	"smartcontract/manifest.Parameter": "manifest.Manifest", "smartcontract/manifest.Permission": "manifest.Manifest", "smartcontract/manifest.PermissionDesc": "manifest.Manifest", "smartcontract/manifest.WildPermissionDescs": "manifest.Manifest", "smartcontract/manifest.WildStrings": "manifest.Manifest",
	// JSON only
	"smartcontract/callflag.CallFlag": "nef.MethodToken", "vm/vmstate.State": "state.AppExecResult",
	"core/mempoolevent.Type":          "-subscription event name (RPC notifications), not a stored/hashed/sent ledger value",
	"smartcontract.Parameter":         "-RPC invocation parameter (client -> server request form), not a ledger value; covered by the RPC-level checks",
	"smartcontract/context.ParameterContext": "-offline signing context file of the CLI/wallet, not handled by the node",
}

// exemptDirs: packages whose decoders are client-side / tooling / configuration.
var exemptDirs = map[string]string{
	"rpcclient": "RPC client", "wallet": "wallet files", "config": "node configuration", "compiler": "compiler debug info", "neotest": "test framework", "neorpc": "RPC request/response envelopes (result.ProofWithKey and VerifyProof are registered explicitly)",
	"services/rpcsrv": "RPC request parsing", "smartcontract/rpcbinding": "binding generator templates", "smartcontract/binding": "binding generator", "smartcontract/zkpbinding": "binding generator",
	"services/oracle": "oracle service configuration/filters", "services/notary": "notary service internals", "services/helpers": "helpers", "vm": "VM debugging output (JSON of stacks/contexts is write-only)", "cli": "CLI",
	"core/native/nativenames": "constants", "core/interop": "interop plumbing", "encoding/bigint": "C18", "crypto": "C18 (keys.PublicKey(s) are registered explicitly)",
}

var decoderMethods = map[string]bool{"DecodeBinary": true, "FromStackItem": true, "UnmarshalJSON": true, "FromBytes": true, "DecodeBytes": true}

// scanRepo lists "<dir>.<Type>" of every type under <repo>/pkg with a decoder method.
func scanRepo() (map[string][]string, error) {
	root := filepath.Join(vk.Repo(), "pkg")
	found := map[string][]string{}
	fset := token.NewFileSet()
	err := filepath.WalkDir(root, func(path string, d os.DirEntry, err error) error {
		if err != nil {
			return err
		}
		if d.IsDir() {
			if d.Name() == "testdata" {
				return filepath.SkipDir
			}
			return nil
		}
		if !strings.HasSuffix(path, ".go") || strings.HasSuffix(path, "_test.go") {
			return nil
		}
		f, err := parser.ParseFile(fset, path, nil, parser.SkipObjectResolution)
		if err != nil {
			return nil // templates etc.
		}
		dir, _ := filepath.Rel(root, filepath.Dir(path))
		for _, decl := range f.Decls {
			fd, ok := decl.(*ast.FuncDecl)
			if !ok || fd.Recv == nil || len(fd.Recv.List) != 1 || !decoderMethods[fd.Name.Name] {
				continue
			}
			t := fd.Recv.List[0].Type
			if s, ok := t.(*ast.StarExpr); ok {
				t = s.X
			}
			if ix, ok := t.(*ast.IndexExpr); ok {
				t = ix.X
			}
			id, ok := t.(*ast.Ident)
			if !ok {
				continue
			}
			k := filepath.ToSlash(dir) + "." + id.Name
			found[k] = append(found[k], fd.Name.Name)
		}
		return nil
	})
	return found, err
}

// checkRegistryComplete returns the problems (empty = complete) and counters.
func checkRegistryComplete() (problems []string, info map[string]any) {
	found, err := scanRepo()
	if err != nil {
		return []string{"cannot scan the repository: " + err.Error()}, nil
	}
	if len(found) < 60 {
		return []string{fmt.Sprintf("the scan of %s/pkg found only %d types with decoders: the scanner is broken", vk.Repo(), len(found))}, nil
	}
	names := map[string]bool{}
	for _, c := range registryAll() {
		names[c.name] = true
	}
	nCovered, nExemptType, nExemptDir := 0, 0, 0
	var keys []string
	for k := range found {
		keys = append(keys, k)
	}
	sort.Strings(keys)
	for _, k := range keys {
		dir := k[:strings.LastIndex(k, ".")]
		if by, ok := coveredBy[k]; ok {
			if strings.HasPrefix(by, "-") {
				nExemptType++
			} else if !names[by] {
				problems = append(problems, fmt.Sprintf("%s is listed as covered by codec %q, which is not in the registry", k, by))
			} else {
				nCovered++
			}
			continue
		}
		exempt := false
		for d := range exemptDirs {
			if dir == d || strings.HasPrefix(dir, d+"/") {
				exempt = true
			}
		}
		if exempt {
			nExemptDir++
			continue
		}
		problems = append(problems, fmt.Sprintf("type %s has %v but is neither registered in C17 nor exempted (add a codec, or an entry with a reason to coveredBy in ext_scan_test.go)", k, found[k]))
	}
	info = map[string]any{"types_with_decoders": len(found), "covered_by_a_codec": nCovered, "exempt_types_with_reason": nExemptType, "exempt_client_or_tooling_packages": nExemptDir}
	return
}
