// C17 extension: serialisable types that were not registered, and values with
// every count / length field at the var-int boundaries (0xfc, 0xfd, 0xffff,
// 0x10000 where the limits allow) for the size-equals-encoding oracle.
package c17

import (
	"encoding/json"
	"fmt"
	"math"
	"math/big"

	"github.com/nspcc-dev/neo-go/pkg/config/netmode"
	"github.com/nspcc-dev/neo-go/pkg/consensus"
	"github.com/nspcc-dev/neo-go/pkg/core/block"
	"github.com/nspcc-dev/neo-go/pkg/core/dao"
	"github.com/nspcc-dev/neo-go/pkg/core/mpt"
	"github.com/nspcc-dev/neo-go/pkg/core/native"
	"github.com/nspcc-dev/neo-go/pkg/core/state"
	"github.com/nspcc-dev/neo-go/pkg/core/storage"
	"github.com/nspcc-dev/neo-go/pkg/core/transaction"
	"github.com/nspcc-dev/neo-go/pkg/crypto/keys"
	"github.com/nspcc-dev/neo-go/pkg/encoding/fixedn"
	"github.com/nspcc-dev/neo-go/pkg/io"
	"github.com/nspcc-dev/neo-go/pkg/neorpc/result"
	"github.com/nspcc-dev/neo-go/pkg/network/payload"
	"github.com/nspcc-dev/neo-go/pkg/smartcontract"
	"github.com/nspcc-dev/neo-go/pkg/smartcontract/nef"
	"github.com/nspcc-dev/neo-go/pkg/smartcontract/trigger"
	"github.com/nspcc-dev/neo-go/pkg/util"
	"github.com/nspcc-dev/neo-go/pkg/vm/stackitem"
	"github.com/nspcc-dev/neo-go/pkg/vm/vmstate"
)

type paramTypeBox struct{ T smartcontract.ParamType }

func (p *paramTypeBox) EncodeBinary(w *io.BinWriter) { p.T.EncodeBinary(w) }
func (p *paramTypeBox) DecodeBinary(r *io.BinReader) { p.T.DecodeBinary(r) }

type nullBox struct{ P payload.NullPayload }

func (p *nullBox) EncodeBinary(w *io.BinWriter) { p.P.EncodeBinary(w) }
func (p *nullBox) DecodeBinary(r *io.BinReader) { p.P.DecodeBinary(r) }

// extraCodecs: types with a binary / JSON / stack item decoder that the
// registry did not have.
func extraCodecs() []*codec {
	var out []*codec
	h160 := ser[util.Uint160]("util.Uint160", "pkg/util", func(bool) []*util.Uint160 {
		x := util.Uint160{1, 2, 3, 4, 5, 6, 7, 8, 9, 10, 11, 12, 13, 14, 15, 16, 17, 18, 19, 0xab}
		return []*util.Uint160{&u160s[0], &u160s[1], &u160s[2], &x}
	})
	withJSON[util.Uint160](h160).withSizeVar()
	h160.cheap = true
	out = append(out, h160)
	h256 := ser[util.Uint256]("util.Uint256", "pkg/util", func(bool) []*util.Uint256 {
		x := u256(0)
		for i := range x {
			x[i] = byte(0xa0 + i)
		}
		return []*util.Uint256{&u256s[0], &u256s[1], &u256s[2], &x}
	})
	withJSON[util.Uint256](h256).withSizeVar()
	out = append(out, h256)

	f8 := ser[fixedn.Fixed8]("fixedn.Fixed8", "pkg/encoding/fixedn", func(bool) []*fixedn.Fixed8 {
		var vs []*fixedn.Fixed8
		for _, v := range []int64{0, 1, -1, 99999999, 100000000, 100000001, -100000000, math.MaxInt64, math.MinInt64 + 1} {
			f := fixedn.Fixed8(v)
			vs = append(vs, &f)
		}
		return vs
	})
	withJSON[fixedn.Fixed8](f8)
	f8.cheap = true
	out = append(out, f8)

	pt := ser[paramTypeBox]("smartcontract.ParamType", "pkg/smartcontract", func(bool) []*paramTypeBox {
		var vs []*paramTypeBox
		for _, t := range []smartcontract.ParamType{smartcontract.AnyType, smartcontract.BoolType, smartcontract.IntegerType, smartcontract.ByteArrayType, smartcontract.StringType, smartcontract.Hash160Type,
			smartcontract.Hash256Type, smartcontract.PublicKeyType, smartcontract.SignatureType, smartcontract.ArrayType, smartcontract.MapType, smartcontract.InteropInterfaceType, smartcontract.VoidType} {
			vs = append(vs, &paramTypeBox{t})
		}
		return vs
	})
	pt.jenc = func(v any) ([]byte, error) { return json.Marshal(v.(*paramTypeBox).T) }
	pt.jdec = func(b []byte) (any, error) {
		var p paramTypeBox
		if err := json.Unmarshal(b, &p.T); err != nil {
			return nil, err
		}
		return &p, nil
	}
	pt.cheap = true
	out = append(out, pt)

	np := ser[nullBox]("payload.NullPayload", "pkg/network/payload", func(bool) []*nullBox { return []*nullBox{{}} })
	np.cheap = true
	out = append(out, np)

	ws := witnesses()
	cp := ser[dao.StateSyncCheckpoint]("dao.StateSyncCheckpoint", "pkg/core/dao", func(bool) []*dao.StateSyncCheckpoint {
		var vs []*dao.StateSyncCheckpoint
		for i, k := range [][]byte{{}, {0x00}, {0x01, 0xfd}, rep(7, 0xfc), rep(7, 0xfd), rep(7, 0xffff), rep(7, 0x10000)} {
			vs = append(vs, &dao.StateSyncCheckpoint{IntermediateRoot: u256s[i%3], Root: u256s[(i+1)%3], Witness: ws[(i*7)%len(ws)], LastStoredKey: k})
		}
		return vs
	})
	cp.withSizeVar()
	out = append(out, cp)

	pk := ser[result.ProofWithKey]("result.ProofWithKey", "pkg/neorpc/result", func(bool) []*result.ProofWithKey {
		var vs []*result.ProofWithKey
		bs := byteStrings(0xfd)
		for i, k := range bs {
			vs = append(vs, &result.ProofWithKey{Key: k, Proof: [][]byte{}}, &result.ProofWithKey{Key: k, Proof: [][]byte{bs[(i+1)%len(bs)]}},
				&result.ProofWithKey{Key: bs[(i+2)%len(bs)], Proof: [][]byte{k, bs[0], bs[3]}})
		}
		many := make([][]byte, 0xfd)
		for i := range many {
			many[i] = []byte{byte(i)}
		}
		vs = append(vs, &result.ProofWithKey{Key: []byte{1}, Proof: many[:0xfc]}, &result.ProofWithKey{Key: []byte{1}, Proof: many})
		return vs
	})
	withJSON[result.ProofWithKey](pk).withSizeVar()
	pk.cheap = true
	out = append(out, pk)

	vp := &codec{
		name: "result.VerifyProof/json", pkg: "pkg/neorpc/result", derived: true, maxSeed: 900, maxSeeds: [2]int{10, 40},
		gen: func(bool) []any {
			var vs []any
			for _, b := range append(byteStrings(0x100), nil) {
				vs = append(vs, &result.VerifyProof{Value: b})
			}
			return vs
		},
		enc: func(v any) ([]byte, error) { return json.Marshal(v) },
		dec: func(b []byte) (any, error) {
			var p result.VerifyProof
			if err := json.Unmarshal(b, &p); err != nil {
				return nil, err
			}
			return &p, nil
		},
	}
	out = append(out, vp)

	nh := ser[nef.Header]("nef.Header", "pkg/smartcontract/nef", func(bool) []*nef.Header {
		var vs []*nef.Header
		for _, c := range []string{"", "c", "neo-go-0.0", string(rep('z', 63)), string(rep('z', 64))} {
			vs = append(vs, &nef.Header{Magic: nef.Magic, Compiler: c})
		}
		return vs
	})
	withJSON[nef.Header](nh).withSizeVar()
	out = append(out, nh)

	wl := conv[state.WhitelistFeeContract]("state.WhitelistFeeContract", "pkg/core/state", func() []*state.WhitelistFeeContract {
		var vs []*state.WhitelistFeeContract
		for i, m := range []string{"", "m", "transfer"} {
			for j, f := range []int64{0, 1, -1, math.MaxInt64, math.MinInt64} {
				vs = append(vs, &state.WhitelistFeeContract{Hash: u160s[(i+j)%3], Method: m, ArgCnt: []int{0, 1, -1, math.MaxInt32, math.MinInt32}[(i+j)%5], Fee: f})
			}
		}
		return vs
	})
	out = append(out, wl)

	idl := conv[native.IDList]("native.IDList", "pkg/core/native", func() []*native.IDList {
		big := make(native.IDList, 0xfd)
		for i := range big {
			big[i] = uint64(i)
		}
		return []*native.IDList{{}, {0}, {1, math.MaxUint64}, {math.MaxInt64, math.MaxInt64 + 1, 0}, &big}
	})
	out = append(out, idl)
	ndl := conv[native.NodeList]("native.NodeList", "pkg/core/native", func() []*native.NodeList {
		return []*native.NodeList{{}, {pubs[0]}, {pubs[1], pubs[0]}, {pubs[2], pubs[2], pubs[1]}}
	})
	out = append(out, ndl)

	dv := &codec{
		name: "dao.Version", pkg: "pkg/core/dao", cheap: true,
		gen: func(bool) []any {
			var vs []any
			for i, val := range []string{"", "0.2.12", "v"} {
				for m := 0; m < 32; m += 1 + 2*i {
					vs = append(vs, &dao.Version{StoragePrefix: storage.KeyPrefix(u8s[i]), StateRootInHeader: m&1 != 0, P2PSigExtensions: m&2 != 0, P2PStateExchangeExtensions: m&4 != 0,
						KeepOnlyLatestState: m&8 != 0, SaveInvocations: m&16 != 0, Magic: u32s[i], Value: val})
				}
			}
			return vs
		},
		enc: func(v any) ([]byte, error) { return v.(*dao.Version).Bytes(), nil },
		dec: func(b []byte) (any, error) {
			var v dao.Version
			if err := v.FromBytes(b); err != nil {
				return nil, err
			}
			return &v, nil
		},
	}
	out = append(out, dv)
	return out
}

// crossForms: the other wire forms of a codec's values, used by the
// cross-format oracle on every value a decoder accepts.
func init() {
	_ = fmt.Sprint
	_ = big.NewInt
}

// ---- var-int boundary values --------------------------------------------------------------------

var lenBoundaries = []int{0xfc, 0xfd, 0xfe, 0xffff, 0x10000}

func lensUpTo(max int) []int {
	var out []int
	for _, n := range lenBoundaries {
		if n <= max {
			out = append(out, n)
		}
	}
	return out
}

// boundaryExtras returns, per codec name, additional values whose count and
// length fields sit on the var-int boundaries. They are appended to the
// codec's generator (indices of the existing values do not move).
func boundaryExtras() map[string]func(th bool) []any {
	ws := witnesses()
	w0 := transaction.Witness{InvocationScript: []byte{}, VerificationScript: []byte{}}
	m := map[string]func(bool) []any{}
	m["transaction.Witness"] = func(bool) []any {
		var vs []any
		for _, n := range lensUpTo(transaction.MaxInvocationScript) {
			vs = append(vs, &transaction.Witness{InvocationScript: rep(1, n), VerificationScript: []byte{}}, &transaction.Witness{InvocationScript: []byte{2}, VerificationScript: rep(3, n)})
		}
		return vs
	}
	m["transaction.OracleResponse"] = func(bool) []any {
		var vs []any
		for _, n := range lensUpTo(transaction.MaxOracleResultSize) {
			vs = append(vs, &transaction.OracleResponse{ID: 1, Code: transaction.Success, Result: rep(9, n)})
		}
		return vs
	}
	m["transaction.Attribute"] = func(bool) []any {
		var vs []any
		for _, n := range lensUpTo(transaction.MaxOracleResultSize) {
			vs = append(vs, &transaction.Attribute{Type: transaction.OracleResponseT, Value: &transaction.OracleResponse{ID: 1, Code: transaction.Success, Result: rep(9, n)}},
				&transaction.Attribute{Type: transaction.ReservedLowerBound, Value: &transaction.Reserved{Value: rep(8, n)}})
		}
		return vs
	}
	m["transaction.Reserved"] = func(bool) []any {
		var vs []any
		for _, n := range lensUpTo(0xffff) {
			vs = append(vs, &transaction.Reserved{Value: rep(8, n)})
		}
		return vs
	}
	txBoundary := func(bool) []any {
		var vs []any
		mk := func(script []byte, w transaction.Witness, attrs []transaction.Attribute) *transaction.Transaction {
			return &transaction.Transaction{Nonce: 7, ValidUntilBlock: 9, SystemFee: 1, NetworkFee: 1, Script: script, Attributes: attrs,
				Signers: []transaction.Signer{{Account: u160(3), Scopes: transaction.CalledByEntry}}, Scripts: []transaction.Witness{w}}
		}
		for _, n := range lensUpTo(transaction.MaxScriptLength) {
			vs = append(vs, mk(rep(0x21, n), w0, []transaction.Attribute{}))
			vs = append(vs, mk([]byte{0x11}, w0, []transaction.Attribute{{Type: transaction.OracleResponseT, Value: &transaction.OracleResponse{ID: 2, Code: transaction.Success, Result: rep(5, n)}}}))
		}
		for _, n := range lensUpTo(transaction.MaxInvocationScript) {
			vs = append(vs, mk([]byte{0x11}, transaction.Witness{InvocationScript: rep(1, n), VerificationScript: rep(2, n)}, []transaction.Attribute{}))
		}
		return vs
	}
	m["transaction.Transaction/NewTransactionFromBytes"] = txBoundary
	m["transaction.Transaction/DecodeBinary"] = txBoundary
	for _, sr := range []bool{false, true} {
		sr := sr
		sfx := ""
		if sr {
			sfx = "/stateroot"
		}
		m["block.Block"+sfx] = func(bool) []any {
			var vs []any
			for _, n := range []int{0xfc, 0xfd, 0xfe} {
				b := &block.Block{Header: *headers(sr)[1]}
				for i := 0; i < n; i++ {
					b.Transactions = append(b.Transactions, &transaction.Transaction{Nonce: uint32(i), ValidUntilBlock: 1, Script: []byte{0x11},
						Signers: []transaction.Signer{{Account: u160(3)}}, Attributes: []transaction.Attribute{}, Scripts: []transaction.Witness{w0}})
				}
				b.RebuildMerkleRoot()
				vs = append(vs, b)
			}
			return vs
		}
		m["block.Block/trimmed"+sfx] = m["block.Block"+sfx]
		m["block.Header"+sfx] = func(bool) []any {
			var vs []any
			for _, n := range lensUpTo(transaction.MaxInvocationScript) {
				h := *headers(sr)[2]
				h.Script = transaction.Witness{InvocationScript: rep(1, n), VerificationScript: rep(2, n)}
				vs = append(vs, &h)
			}
			return vs
		}
		m["payload.Headers"+sfx] = func(bool) []any {
			var vs []any
			for _, n := range []int{0xfc, 0xfd, 0xfe} {
				hs := make([]*block.Header, n)
				for i := range hs {
					hs[i] = headers(sr)[i%3]
				}
				vs = append(vs, &payload.Headers{Hdrs: hs, StateRootInHeader: sr})
			}
			return vs
		}
	}
	m["payload.Inventory"] = func(bool) []any {
		var vs []any
		for _, n := range []int{0xfc, 0xfd, 0xfe, payload.MaxHashesCount - 1} {
			hs := make([]util.Uint256, n)
			for i := range hs {
				hs[i] = u256(byte(i))
			}
			vs = append(vs, &payload.Inventory{Type: payload.TXType, Hashes: hs})
		}
		return vs
	}
	m["payload.Version"] = func(bool) []any {
		var vs []any
		for _, n := range lensUpTo(payload.MaxUserAgentLength) {
			vs = append(vs, &payload.Version{Magic: netmode.UnitTestNet, UserAgent: rep('u', n), Capabilities: capabilitySets()[1]})
		}
		return vs
	}
	m["payload.Extensible"] = func(bool) []any {
		var vs []any
		for _, n := range lensUpTo(0x10000) {
			vs = append(vs, &payload.Extensible{Category: "c", ValidBlockEnd: 1, Sender: u160(1), Data: rep(4, n), Witness: ws[1]})
		}
		for _, n := range lensUpTo(transaction.MaxInvocationScript) {
			vs = append(vs, &payload.Extensible{Category: "dBFT", ValidBlockEnd: 1, Sender: u160(1), Data: []byte{1}, Witness: transaction.Witness{InvocationScript: rep(1, n), VerificationScript: rep(2, n)}})
		}
		return vs
	}
	m["payload.MPTData"] = func(bool) []any {
		var vs []any
		for _, n := range lensUpTo(0x10000) {
			vs = append(vs, &payload.MPTData{Nodes: [][]byte{rep(6, n), {1}}})
		}
		for _, n := range []int{0xfc, 0xfd, 0xfe} {
			nodes := make([][]byte, n)
			for i := range nodes {
				nodes[i] = []byte{byte(i)}
			}
			vs = append(vs, &payload.MPTData{Nodes: nodes})
		}
		return vs
	}
	m["payload.MerkleBlock"] = func(bool) []any {
		var vs []any
		for _, n := range []int{0xfc, 0xfd, 0xfe} {
			hl := make([]util.Uint256, n)
			for i := range hl {
				hl[i] = u256(byte(i))
			}
			vs = append(vs, &payload.MerkleBlock{Header: headers(false)[0], TxCount: n, Hashes: hl, Flags: rep(0xff, (n+7)/8)})
		}
		// flags at the boundary need 8 * 0xfd transactions (and as many hashes)
		for _, fl := range []int{0xfc, 0xfd} {
			n := fl * 8
			hl := make([]util.Uint256, n)
			for i := range hl {
				hl[i] = u256(byte(i))
			}
			vs = append(vs, &payload.MerkleBlock{Header: headers(false)[0], TxCount: n, Hashes: hl, Flags: rep(0x55, fl)})
		}
		return vs
	}
	m["payload.P2PNotaryRequest"] = func(bool) []any {
		var vs []any
		base := notaryRequests()[0]
		for _, n := range lensUpTo(transaction.MaxInvocationScript) {
			r := &payload.P2PNotaryRequest{MainTransaction: base.MainTransaction.Copy(), FallbackTransaction: base.FallbackTransaction.Copy(), Witness: transaction.Witness{InvocationScript: rep(1, n), VerificationScript: rep(2, n)}}
			vs = append(vs, r)
		}
		for _, n := range lensUpTo(transaction.MaxScriptLength) {
			r := &payload.P2PNotaryRequest{MainTransaction: base.MainTransaction.Copy(), FallbackTransaction: base.FallbackTransaction.Copy(), Witness: ws[1]}
			r.MainTransaction.Script = rep(0x21, n)
			// the fallback names the main transaction in its Conflicts attribute
			for i := range r.FallbackTransaction.Attributes {
				if r.FallbackTransaction.Attributes[i].Type == transaction.ConflictsT {
					r.FallbackTransaction.Attributes[i].Value = &transaction.Conflicts{Hash: r.MainTransaction.Hash()}
				}
			}
			vs = append(vs, r)
		}
		return vs
	}
	m["stackitem.Item"] = func(bool) []any {
		var its []stackitem.Item
		for _, n := range lensUpTo(0x10000) {
			its = append(its, stackitem.NewByteArray(rep('b', n)), stackitem.NewBuffer(rep('b', n)), stackitem.NewArray([]stackitem.Item{stackitem.NewByteArray(rep('c', n))}))
		}
		for _, n := range []int{0xfc, 0xfd, 0xfe} {
			el := make([]stackitem.Item, n)
			for i := range el {
				el[i] = stackitem.NewBool(i%2 == 0)
			}
			var me []stackitem.MapElement
			for i := 0; i < n; i++ {
				me = append(me, stackitem.MapElement{Key: stackitem.NewBigInteger(big.NewInt(int64(i))), Value: stackitem.Null{}})
			}
			its = append(its, stackitem.NewArray(el), stackitem.NewStruct(el), stackitem.NewMapWithValue(me))
		}
		return boxItems(its)
	}
	m["stackitem.Item/protected"] = m["stackitem.Item"]
	m["state.NotificationEvent"] = func(bool) []any {
		var vs []any
		for _, n := range []int{0xfc, 0xfd, 0xfe} {
			el := make([]stackitem.Item, n)
			for i := range el {
				el[i] = stackitem.NewBigInteger(big.NewInt(int64(i)))
			}
			vs = append(vs, &state.NotificationEvent{ScriptHash: u160(1), Name: "Transfer", Item: stackitem.NewArray(el)})
		}
		for _, n := range lensUpTo(0xffff) {
			vs = append(vs, &state.NotificationEvent{ScriptHash: u160(1), Name: string(rep('n', n)), Item: stackitem.NewArray([]stackitem.Item{})})
		}
		return vs
	}
	m["state.AppExecResult"] = func(bool) []any {
		var vs []any
		ev := state.NotificationEvent{ScriptHash: u160(2), Name: "e", Item: stackitem.NewArray([]stackitem.Item{})}
		for _, n := range []int{0xfc, 0xfd, 0xfe} {
			st := make([]stackitem.Item, n)
			evs := make([]state.NotificationEvent, n)
			for i := range st {
				st[i] = stackitem.NewBool(true)
				evs[i] = ev
			}
			vs = append(vs, &state.AppExecResult{Container: u256(1), Execution: state.Execution{Trigger: trigger.Application, VMState: vmstate.Halt, Stack: st, Events: []state.NotificationEvent{}}},
				&state.AppExecResult{Container: u256(1), Execution: state.Execution{Trigger: trigger.Application, VMState: vmstate.Halt, Stack: []stackitem.Item{}, Events: evs}})
		}
		for _, n := range lensUpTo(0x10000) {
			vs = append(vs, &state.AppExecResult{Container: u256(1), Execution: state.Execution{Trigger: trigger.Application, VMState: vmstate.Fault, Stack: []stackitem.Item{}, Events: []state.NotificationEvent{}, FaultException: string(rep('f', n))}})
		}
		return vs
	}
	m["state.ContractInvocation"] = func(bool) []any {
		var vs []any
		for _, n := range lensUpTo(0x10000) {
			arr := stackitem.NewArray([]stackitem.Item{stackitem.NewByteArray(rep('a', n-6))})
			b, err := stackitem.Serialize(arr)
			if err != nil {
				panic(err)
			}
			vs = append(vs, state.NewContractInvocation(u160(1), "m", b, 1))
		}
		return vs
	}
	m["state.NEP11Transfer"] = func(bool) []any { return nil }
	m["mpt.NodeObject"] = func(bool) []any {
		var vs []any
		for _, n := range lensUpTo(mpt.MaxValueLength) {
			vs = append(vs, &mpt.NodeObject{Node: mpt.NewLeafNode(rep(3, n))})
		}
		for _, n := range []int{0xfc, 0xfd, 0xfe} {
			if n <= mpt.MaxKeyLength*2 {
				vs = append(vs, &mpt.NodeObject{Node: mpt.NewExtensionNode(rep(0x0a, n), mpt.NewHashNode(u256(1)))})
			}
		}
		return vs
	}
	m["nef.File"] = func(bool) []any {
		var vs []any
		mk := func(src string, ntok int, script []byte) *nef.File {
			f := &nef.File{Header: nef.Header{Magic: nef.Magic, Compiler: "c"}, Source: src, Tokens: make([]nef.MethodToken, ntok), Script: script}
			for i := range f.Tokens {
				f.Tokens[i] = nef.MethodToken{Hash: u160(byte(i)), Method: "m"}
			}
			f.Checksum = f.CalculateChecksum()
			return f
		}
		for _, n := range lensUpTo(0x10000) {
			vs = append(vs, mk("", 0, rep(0x21, n)))
		}
		for _, n := range lensUpTo(nef.MaxSourceURLLength) {
			vs = append(vs, mk(string(rep('s', n)), 0, []byte{0x40}))
		}
		for _, n := range []int{0xfc, 0xfd, 0xfe} {
			vs = append(vs, mk("", n, []byte{0x40}))
		}
		return vs
	}
	m["stateroot.Message"] = func(bool) []any { return nil }
	m["state.MPTRoot"] = func(bool) []any {
		var vs []any
		for _, n := range lensUpTo(transaction.MaxInvocationScript) {
			vs = append(vs, &state.MPTRoot{Index: 1, Root: u256(1), Witness: []transaction.Witness{{InvocationScript: rep(1, n), VerificationScript: rep(2, n)}}})
		}
		return vs
	}
	m["keys.PublicKeys"] = func(bool) []any {
		var vs []any
		for _, n := range []int{0xfc, 0xfd, 0xfe} {
			ks := make(keys.PublicKeys, n)
			for i := range ks {
				ks[i] = pubs[i%3]
			}
			vs = append(vs, &pubKeys{ks})
		}
		return vs
	}
	return m
}

// consensusBoundaryMessages: prepare requests and recovery messages whose list
// counts sit on the var-int boundaries (appended to consensusMessages).
func consensusBoundaryMessages(sr bool) []namedBytes {
	var out []namedBytes
	hdr := func(t byte) []byte { return cat([]byte{t}, le32(5), []byte{1, 0}) }
	hashes := func(n int) []byte {
		b := varint(uint64(n))
		for k := 0; k < n; k++ {
			h := u256(byte(k))
			b = append(b, h[:]...)
		}
		return b
	}
	prepReq := func(n int) []byte {
		b := cat(le32(0), u256s[1][:], le64(1), le64(2), hashes(n))
		if sr {
			b = append(b, u256s[2][:]...)
		}
		return b
	}
	for _, n := range []int{0xfc, 0xfd, 0xfe} {
		out = append(out, namedBytes{fmt.Sprintf("prepareRequest-%d-hashes", n), cat(hdr(0x20), prepReq(n))})
		out = append(out, namedBytes{fmt.Sprintf("changeView-%d-hashes", n), cat(hdr(0x00), le64(1), []byte{3}, hashes(n))})
		// recovery message with n change views, n preparations, n commits
		cv := func(i int) []byte { return cat([]byte{byte(i), 1}, le64(uint64(i)), []byte{1, 0x0c}) }
		pr := func(i int) []byte { return cat([]byte{byte(i)}, []byte{0}) }
		cm := func(i int) []byte { return cat([]byte{0, byte(i)}, rep(byte(i), 64), []byte{2, 0x0c, 0x40}) }
		list := func(f func(int) []byte) []byte {
			b := varint(uint64(n))
			for i := 0; i < n; i++ {
				b = append(b, f(i)...)
			}
			return b
		}
		out = append(out, namedBytes{fmt.Sprintf("recoveryMessage-%d", n), cat(hdr(0x41), list(cv), []byte{0, 0}, list(pr), list(cm))})
	}
	for _, n := range lensUpTo(transaction.MaxInvocationScript) {
		inv := rep(0x0c, n)
		out = append(out, namedBytes{fmt.Sprintf("recoveryMessage-invocation-%d", n),
			cat(hdr(0x41), []byte{1}, []byte{2, 1}, le64(3), varint(uint64(n)), inv, []byte{0, 0}, []byte{1, 3}, varint(uint64(n)), inv, []byte{1, 0, 4}, rep(9, 64), varint(uint64(n)), inv)})
	}
	return out
}

var _ = consensus.NewPayload
