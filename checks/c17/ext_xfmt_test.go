// C17 phase E: cross-format agreement at limits.
//
// The property demands that every value survives encode-then-decode unchanged
// "in binary and in JSON form" (and contracts / RPC bindings see a third, the
// stack item form). So a value that ONE decoder accepts is a value of the type
// and must be encodable and re-decodable by the decoders of the other forms:
// nesting, count and length limits have to agree between the forms.
//
// For every type with more than one form the family builds values in memory
// (encoders check no limits) at limit-1, limit, limit+1 of every limit, with
// every constructor kind providing the depth / the count, encodes them in each
// form and feeds the result to that form's decoder:
//   - a value within all limits must be accepted by every form, decode to equal
//     values, and cross-encode to identical bytes and hash;
//   - a value a form X accepts must encode in every other form Y and Y's
//     decoder must accept it and give an equal value (X-accepts-Y-rejects).
package c17

import (
	"bytes"
	"fmt"
	"os"
	"sort"
	"strings"
	"sync"

	"verif/lib/vk"
)

// form is one wire form of a type.
type form struct {
	name string
	// kind: binary | json | stackitem | protected | plain-json (the wire form
	// proper; name also tells the container it is embedded in)
	kind string
	enc  func(v any) ([]byte, error)
	dec  func(b []byte) (any, error)
	// outside tells that an encoder error means "value outside the domain of
	// this form by design" (e.g. reserved attributes have no JSON form).
	outside func(err error) bool
	// lossy: the form does not carry the whole value (trimmed block, plain JSON
	// of items); it is only asked to accept what it produced itself.
	lossy bool
	// decOutside: a decoder error that states a documented limit of THIS form
	// only (plain JSON of items: MaxJSONDepth).
	decOutside func(err error) bool
}

type xcase struct {
	limit  string // which limit / dimension
	point  string // limit-1 | limit | limit+1 | named point
	kind   string // constructor kinds providing the depth / count
	v      any
	within bool // within every documented limit: every form must accept
}

type xgroup struct {
	name   string
	forms  []form
	hash   func(v any) string
	noDeep bool
	cases  func(th bool) []xcase
}

var codecIndex = sync.OnceValue(func() map[string]*codec {
	m := map[string]*codec{}
	old := ""
	_ = old
	for _, c := range registryAll() {
		m[c.name] = c
	}
	return m
})

func codecBy(name string) *codec {
	c := codecIndex()[name]
	if c == nil {
		panic("no codec " + name)
	}
	return c
}

func isNoJSON(err error) bool { return err == errNoJSON }

func binForm(c *codec) form {
	return form{name: "binary", kind: "binary", enc: c.enc, dec: c.dec, outside: c.encMayFail}
}
func jsonForm(c *codec) form {
	return form{name: "json", kind: "json", enc: c.jenc, dec: c.jdec, outside: isNoJSON}
}

// namedForm: the encoder/decoder pair of a codec as a form of the given kind.
func namedForm(kind string, c *codec) form {
	return form{name: kind, kind: kind, enc: c.enc, dec: c.dec, outside: c.encMayFail}
}

// wrapForm embeds a value into a container before encoding with the
// container's form and extracts it after decoding.
func wrapForm(inner form, name string, wrap func(v any) any, unwrap func(w any) any) form {
	return form{
		name: name,
		kind: inner.kind,
		enc:  func(v any) ([]byte, error) { return inner.enc(wrap(v)) },
		dec: func(b []byte) (any, error) {
			w, err := inner.dec(b)
			if err != nil {
				return nil, err
			}
			return unwrap(w), nil
		},
		outside: inner.outside,
		lossy:   inner.lossy,
	}
}

type xfinding struct {
	key    string
	class  string // key without the kind: one report per class
	detail map[string]any
}

// evalX runs the oracle on one case; it returns findings, the number of oracle
// evaluations and the verdict vector.
func (g *xgroup) evalX(c *xcase) (fs []xfinding, evals int, verdict string) {
	kindOf := func(n string) string {
		for i := range g.forms {
			if g.forms[i].name == n {
				return g.forms[i].kind
			}
		}
		return n
	}
	bad := func(oracle, x, y string, detail string, in []byte) {
		// key: the wire forms proper first (binary/json/stackitem), then the
		// containers, the point and the constructor kinds
		pair, names := kindOf(x), x
		if y != "" {
			pair, names = kindOf(x)+"-vs-"+kindOf(y), x+"-vs-"+y
		}
		class := fmt.Sprintf("xfmt:%s:%s:%s:%s", g.name, c.limit, oracle, pair)
		fs = append(fs, xfinding{key: class + ":" + names + ":" + c.point + ":" + c.kind, class: class, detail: map[string]any{
			"key": class + ":" + names + ":" + c.point + ":" + c.kind, "mode": "xfmt", "group": g.name, "limit": c.limit, "point": c.point, "kind": c.kind, "oracle": oracle, "form": x, "other_form": y,
			"input": clipS(in, x), "detail": short(detail, 600)}})
	}
	var vs []string
	for xi := range g.forms {
		x := &g.forms[xi]
		// the case value is built in memory, possibly outside every limit: an
		// encoder that refuses it or panics on it is within its rights
		var bx []byte
		var err error
		if p := guard(func() { bx, err = x.enc(c.v) }); p != "" {
			err = fmt.Errorf("encoder panic: %s", short(p, 200))
		}
		if err != nil {
			vs = append(vs, x.name+"=unencodable")
			if c.within && !(x.outside != nil && x.outside(err)) {
				bad("value-within-limits-does-not-encode", x.name, "", err.Error(), nil)
			}
			continue
		}
		if p := guard(func() {
			evals++
			vx, err := x.dec(bx)
			if err != nil {
				vs = append(vs, x.name+"=reject")
				if c.within && !(x.decOutside != nil && x.decOutside(err)) {
					bad("rejected-within-limits", x.name, "", err.Error(), bx)
				}
				return
			}
			vs = append(vs, x.name+"=accept")
			if x.lossy {
				return
			}
			var hx string
			if g.hash != nil {
				hx = g.hash(vx)
			}
			for yi := range g.forms {
				if yi == xi {
					continue
				}
				y := &g.forms[yi]
				evals++
				by, err := y.enc(vx)
				if err != nil {
					if !(y.outside != nil && y.outside(err)) {
						bad("accepted-value-does-not-encode-in-other-form", x.name, y.name, err.Error(), bx)
					}
					continue
				}
				vy, err := y.dec(by)
				if err != nil && y.decOutside != nil && y.decOutside(err) {
					continue
				}
				if err != nil {
					bad("accepted-by-one-form-rejected-by-other", x.name, y.name, fmt.Sprintf("%s decoder accepted the value, its %s encoding %s is rejected: %v", x.name, y.name, clipS(by, y.name), err), bx)
					continue
				}
				if y.lossy {
					continue
				}
				if !g.noDeep {
					if ok, path := semEqual(vx, vy); !ok {
						bad("value-differs-between-forms", x.name, y.name, "first difference at "+path+"; "+y.name+" encoding: "+clipS(by, y.name), bx)
						continue
					}
				}
				bx2, err := x.enc(vy)
				if err != nil {
					bad("value-does-not-encode-after-other-form", x.name, y.name, err.Error(), bx)
					continue
				}
				bx1, err := x.enc(vx)
				if err == nil && !bytes.Equal(bx1, bx2) && !strings.Contains(x.name, "json") {
					bad("encoding-differs-after-other-form", x.name, y.name, clipS(bx1, x.name)+" vs "+clipS(bx2, x.name), bx)
				}
				if g.hash != nil {
					if hy := g.hash(vy); hy != hx {
						bad("hash-differs-between-forms", x.name, y.name, hx+" vs "+hy, bx)
					}
				}
			}
		}); p != "" {
			vs = append(vs, x.name+"=panic")
			class := "panic:" + p[1:strings.Index(p, "]")]
			fs = append(fs, xfinding{key: class, class: class, detail: map[string]any{"mode": "xfmt", "group": g.name, "limit": c.limit, "point": c.point, "kind": c.kind, "form": x.name, "detail": short(p, 700)}})
		}
	}
	return fs, evals, strings.Join(vs, ",")
}

func clipS(b []byte, formName string) string {
	if strings.Contains(formName, "json") {
		return short(string(b), 400)
	}
	if len(b) > 300 {
		return hx(b[:300]) + fmt.Sprintf("...(%d bytes)", len(b))
	}
	return hx(b)
}

// xfmtPhase runs all groups. Findings are reported once per class (the
// simplest kind first: cases are enumerated simplest first).
func xfmtPhase(r *vk.Run, th bool, only string) (evals, nontrivial int, info map[string]any) {
	groups := xgroups()
	type job struct {
		g *xgroup
		c xcase
		i int
	}
	var jobs []job
	perGroup := map[string]int{}
	for _, g := range groups {
		if only != "" && !strings.Contains(g.name, only) {
			continue
		}
		cs := g.cases(th)
		perGroup[g.name] = len(cs)
		for i, c := range cs {
			jobs = append(jobs, job{g, c, i})
		}
	}
	var mu sync.Mutex
	type rec struct {
		f   xfinding
		ord int
	}
	first := map[string]rec{}
	verdicts := map[string]int{}
	limitsSeen := map[string]bool{}
	r.Parallel(len(jobs), func(i int) {
		j := jobs[i]
		fs, n, verdict := j.g.evalX(&j.c)
		mu.Lock()
		defer mu.Unlock()
		evals += n
		vclass := j.g.name + "/" + j.c.limit + "/" + j.c.point + "->" + verdict
		verdicts[vclass]++
		limitsSeen[j.g.name+"/"+j.c.limit] = true
		if strings.Contains(verdict, "accept") && strings.Contains(verdict, ",") {
			nontrivial++
		}
		for _, f := range fs {
			if o, ok := first[f.class]; !ok || i < o.ord {
				first[f.class] = rec{f, i}
			}
		}
		if i%997 == 0 {
			r.Sample(map[string]any{"phase": "xfmt", "group": j.g.name, "limit": j.c.limit, "point": j.c.point, "kind": j.c.kind, "verdicts": verdict})
		}
	})
	for k := range verdicts {
		r.Outcome("xfmt:" + k)
	}
	if os.Getenv("C17_XDUMP") != "" {
		for _, k := range sortedKeys(verdicts) {
			fmt.Printf("XVERDICT %s  n=%d\n", k, verdicts[k])
		}
		for _, k := range sortedKeys(first) {
			fmt.Printf("XKEY %s\n     %s\n", first[k].f.key, short(fmt.Sprint(first[k].f.detail["detail"]), 260))
		}
		return
	}
	var recs []rec
	for _, v := range first {
		recs = append(recs, v)
	}
	sort.Slice(recs, func(a, b int) bool { return recs[a].ord < recs[b].ord })
	for _, v := range recs {
		violate(r, v.f.key, v.f.detail)
	}
	info = map[string]any{"groups": len(perGroup), "cases_per_group": perGroup, "limits": len(limitsSeen), "cases": len(jobs), "distinct_verdict_vectors": len(verdicts)}
	return
}

// replayXfmt re-runs the recorded (group, limit, point, kind) case five times.
func replayXfmt(r *vk.Run) int {
	var d struct {
		Key, Group, Limit, Point, Kind string
	}
	if err := r.ReadReplay(&d); err != nil {
		fmt.Println("cannot read replay:", err)
		return 0
	}
	n := 0
	for _, g := range xgroups() {
		if g.name != d.Group {
			continue
		}
		for _, c := range g.cases(r.Thorough()) {
			if c.limit != d.Limit || c.point != d.Point || c.kind != d.Kind {
				continue
			}
			for k := 0; k < 5; k++ {
				fs, _, verdict := g.evalX(&c)
				var keys []string
				for _, f := range fs {
					keys = append(keys, f.key)
					if f.key == d.Key || d.Key == "" {
						violate(r, f.key, f.detail)
					}
				}
				fmt.Printf("replay %d: %s %s %s %s -> %s %v\n", k+1, d.Group, d.Limit, d.Point, d.Kind, verdict, keys)
				n++
			}
			return n
		}
	}
	fmt.Println("replay: no such case", d)
	return n
}
