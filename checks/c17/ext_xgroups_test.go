// C17 phase E: the groups (types with several wire forms) and their limit cases.
package c17

import (
	"encoding/json"
	"errors"
	"fmt"
	"math"
	"math/big"
	"strings"

	"github.com/nspcc-dev/neo-go/pkg/core/block"
	"github.com/nspcc-dev/neo-go/pkg/core/mpt"
	"github.com/nspcc-dev/neo-go/pkg/core/state"
	"github.com/nspcc-dev/neo-go/pkg/core/transaction"
	"github.com/nspcc-dev/neo-go/pkg/crypto/keys"
	"github.com/nspcc-dev/neo-go/pkg/smartcontract"
	"github.com/nspcc-dev/neo-go/pkg/smartcontract/callflag"
	"github.com/nspcc-dev/neo-go/pkg/smartcontract/manifest"
	"github.com/nspcc-dev/neo-go/pkg/smartcontract/nef"
	"github.com/nspcc-dev/neo-go/pkg/util"
	"github.com/nspcc-dev/neo-go/pkg/vm/stackitem"
)

// ---- witness conditions -----------------------------------------------------------

// condKinds: the composite constructors, each with the positions the deep
// child can take among siblings.
var condKinds = []string{"Not", "And1", "Or1", "And2a", "And2b", "Or2a", "Or2b"}

func condLeafKinds() []transaction.WitnessCondition {
	t := transaction.ConditionBoolean(true)
	sh, cc := transaction.ConditionScriptHash(u160(1)), transaction.ConditionCalledByContract(u160(2))
	g, cg := transaction.ConditionGroup(*pubs[0]), transaction.ConditionCalledByGroup(*pubs[1])
	return []transaction.WitnessCondition{&t, transaction.ConditionCalledByEntry{}, &sh, &g, &cc, &cg}
}

var condLeafNames = []string{"Boolean", "CalledByEntry", "ScriptHash", "Group", "CalledByContract", "CalledByGroup"}

func condWrap(kind string, child transaction.WitnessCondition) transaction.WitnessCondition {
	sib := transaction.ConditionCalledByEntry{}
	var l []transaction.WitnessCondition
	switch kind[len(kind)-2:] {
	case "2a":
		l = []transaction.WitnessCondition{child, sib}
	case "2b":
		l = []transaction.WitnessCondition{sib, child}
	default:
		l = []transaction.WitnessCondition{child}
	}
	switch {
	case kind == "Not":
		return &transaction.ConditionNot{Condition: child}
	case strings.HasPrefix(kind, "And"):
		a := transaction.ConditionAnd(l)
		return &a
	default:
		o := transaction.ConditionOr(l)
		return &o
	}
}

// condChain builds kinds[0](kinds[1](...(leaf))).
func condChain(kinds []string, leaf transaction.WitnessCondition) transaction.WitnessCondition {
	c := leaf
	for i := len(kinds) - 1; i >= 0; i-- {
		c = condWrap(kinds[i], c)
	}
	return c
}

func chainsOf(alphabet []string, n int) [][]string {
	out := [][]string{{}}
	for i := 0; i < n; i++ {
		var next [][]string
		for _, p := range out {
			for _, k := range alphabet {
				next = append(next, append(append([]string{}, p...), k))
			}
		}
		out = next
	}
	return out
}

func pointName(v, limit int) string {
	switch {
	case v == limit:
		return "limit"
	case v == limit-1:
		return "limit-1"
	case v == limit+1:
		return "limit+1"
	case v == 0:
		return "zero"
	case v < limit:
		return "below"
	}
	return fmt.Sprintf("limit+%d", v-limit)
}

const maxCondSubitems = 16 // transaction.maxSubitems ("The maximum number of AllowedContracts or AllowedGroups", also used for And/Or)

// condCases: nesting 2..4 (5 in thorough) through every chain of constructor
// kinds with every leaf kind at the bottom of the short chains; And/Or counts
// 0,1,15,16,17 at every level 1..3.
func condCases(th bool) []xcase {
	var out []xcase
	leaves := condLeafKinds()
	L := transaction.MaxConditionNesting
	for li, leaf := range leaves {
		out = append(out, xcase{limit: "nesting", point: pointName(1, L), kind: condLeafNames[li], v: &condBox{leaf}, within: true})
	}
	maxComposites := L // depth L+1
	if th {
		maxComposites = L + 1
	}
	for n := 1; n <= maxComposites; n++ {
		depth := n + 1
		for _, ch := range chainsOf(condKinds, n) {
			for li, leaf := range leaves {
				if n >= L && li > 1 && !th {
					continue // over the limit the leaf kind is varied over two kinds only
				}
				out = append(out, xcase{limit: "nesting", point: pointName(depth, L), kind: strings.Join(ch, ">") + ">" + condLeafNames[li],
					v: &condBox{condChain(ch, leaf)}, within: depth <= L})
			}
		}
	}
	// counts: the list-bearing node at level 1..L under every prefix of kinds
	for lvl := 0; lvl < L; lvl++ {
		for _, prefix := range chainsOf([]string{"Not", "And1", "Or2b"}, lvl) {
			for _, lk := range []string{"And", "Or"} {
				for _, n := range []int{0, 1, 2, maxCondSubitems - 1, maxCondSubitems, maxCondSubitems + 1} {
					if lvl == L-1 && n > 0 {
						// children of a node at the last level are one too deep anyway;
						// keep the count dimension separate: leaves fit only up to level L-1
						continue
					}
					l := make([]transaction.WitnessCondition, n)
					for i := range l {
						l[i] = leaves[i%2]
					}
					var node transaction.WitnessCondition
					if lk == "And" {
						a := transaction.ConditionAnd(l)
						node = &a
					} else {
						o := transaction.ConditionOr(l)
						node = &o
					}
					out = append(out, xcase{limit: "subitems", point: pointName(n, maxCondSubitems), kind: strings.Join(append(append([]string{}, prefix...), fmt.Sprintf("%s[%d]", lk, n)), ">"),
						v: &condBox{condChain(prefix, node)}, within: n >= 1 && n <= maxCondSubitems})
				}
			}
		}
	}
	return out
}

func ruleOf(c transaction.WitnessCondition) *transaction.WitnessRule {
	return &transaction.WitnessRule{Action: transaction.WitnessAllow, Condition: c}
}

func txWithSigner(s transaction.Signer) *transaction.Transaction {
	return &transaction.Transaction{Nonce: 1, ValidUntilBlock: 2, SystemFee: 3, NetworkFee: 4, Script: []byte{0x11},
		Signers: []transaction.Signer{s}, Attributes: []transaction.Attribute{}, Scripts: []transaction.Witness{{InvocationScript: []byte{}, VerificationScript: []byte{}}}}
}

func signerWithRule(r transaction.WitnessRule, second bool) *transaction.Signer {
	rules := []transaction.WitnessRule{r}
	if second {
		rules = []transaction.WitnessRule{{Action: transaction.WitnessDeny, Condition: transaction.ConditionCalledByEntry{}}, r}
	}
	return &transaction.Signer{Account: u160(7), Scopes: transaction.Rules, Rules: rules}
}

func condForms() []form {
	cc := codecBy("transaction.WitnessCondition")
	rule, ruleSI := codecBy("transaction.WitnessRule"), codecBy("transaction.WitnessRule/stackitem")
	sg, sgSI := codecBy("transaction.Signer"), codecBy("transaction.Signer/stackitem")
	txd, txb := codecBy("transaction.Transaction/DecodeBinary"), codecBy("transaction.Transaction/NewTransactionFromBytes")
	inRule := func(v any) any { return ruleOf(v.(*condBox).C) }
	outRule := func(w any) any { return &condBox{w.(*transaction.WitnessRule).Condition} }
	inSigner := func(second bool) func(v any) any {
		return func(v any) any { return signerWithRule(*ruleOf(v.(*condBox).C), second) }
	}
	outSigner := func(w any) any {
		s := w.(*transaction.Signer)
		return &condBox{s.Rules[len(s.Rules)-1].Condition}
	}
	inTx := func(v any) any { return txWithSigner(*signerWithRule(*ruleOf(v.(*condBox).C), true)) }
	outTx := func(w any) any {
		s := w.(*transaction.Transaction).Signers[0]
		return &condBox{s.Rules[len(s.Rules)-1].Condition}
	}
	return []form{
		binForm(cc), jsonForm(cc),
		wrapForm(namedForm("stackitem", ruleSI), "stackitem", inRule, outRule),
		wrapForm(binForm(rule), "rule-binary", inRule, outRule),
		wrapForm(jsonForm(rule), "rule-json", inRule, outRule),
		wrapForm(binForm(sg), "signer-binary", inSigner(false), outSigner),
		wrapForm(jsonForm(sg), "signer-json", inSigner(true), outSigner),
		wrapForm(namedForm("stackitem", sgSI), "signer-stackitem", inSigner(true), outSigner),
		wrapForm(binForm(txd), "tx-binary", inTx, outTx),
		wrapForm(binForm(txb), "tx-frombytes", inTx, outTx),
		wrapForm(jsonForm(txb), "tx-json", inTx, outTx),
	}
}

// ---- rules, signers -------------------------------------------------------------------

func ruleCases(bool) []xcase {
	var out []xcase
	t := transaction.ConditionBoolean(true)
	deep := condChain([]string{"Not", "Or1"}, &t)
	over := condChain([]string{"And1", "Not", "Or1"}, &t)
	for _, a := range []byte{0, 1, 2, 0x7f, 0x80, 0xff} {
		for i, c := range []transaction.WitnessCondition{&t, deep, over} {
			out = append(out, xcase{limit: "action", point: fmt.Sprintf("action-%d", a), kind: []string{"leaf", "depth-3", "depth-4"}[i],
				v: &transaction.WitnessRule{Action: transaction.WitnessAction(a), Condition: c}, within: a <= 1 && i < 2})
		}
	}
	return out
}

func signerCases(th bool) []xcase {
	var out []xcase
	t := transaction.ConditionBoolean(true)
	mkLists := func(sc transaction.WitnessScope, nc, ng, nr int) *transaction.Signer {
		s := &transaction.Signer{Account: u160(9), Scopes: sc}
		if sc&transaction.CustomContracts != 0 {
			s.AllowedContracts = make([]util.Uint160, nc)
			for i := range s.AllowedContracts {
				s.AllowedContracts[i] = u160(byte(i + 1))
			}
		}
		if sc&transaction.CustomGroups != 0 {
			s.AllowedGroups = make([]*keys.PublicKey, ng)
			for i := range s.AllowedGroups {
				s.AllowedGroups[i] = pubs[i%3]
			}
		}
		if sc&transaction.Rules != 0 {
			s.Rules = make([]transaction.WitnessRule, nr)
			for i := range s.Rules {
				s.Rules[i] = transaction.WitnessRule{Action: transaction.WitnessAction(i % 2), Condition: &t}
			}
		}
		return s
	}
	valid := func(sc transaction.WitnessScope) bool {
		all := transaction.CalledByEntry | transaction.CustomContracts | transaction.CustomGroups | transaction.Rules | transaction.Global
		return sc&^all == 0 && (sc&transaction.Global == 0 || sc == transaction.Global)
	}
	// every scope byte, one element in every selected list
	for b := 0; b < 256; b++ {
		sc := transaction.WitnessScope(b)
		out = append(out, xcase{limit: "scopes", point: fmt.Sprintf("0x%02x", b), kind: "lists-1", v: mkLists(sc, 1, 1, 1), within: valid(sc)})
	}
	// list lengths around the limit, alone and combined with the other lists
	counts := []int{0, 1, maxCondSubitems - 1, maxCondSubitems, maxCondSubitems + 1}
	type lk struct {
		name string
		sc   transaction.WitnessScope
	}
	for _, l := range []lk{{"allowedcontracts", transaction.CustomContracts}, {"allowedgroups", transaction.CustomGroups}, {"rules", transaction.Rules}} {
		for _, extra := range []transaction.WitnessScope{0, transaction.CalledByEntry, transaction.CalledByEntry | transaction.CustomContracts | transaction.CustomGroups | transaction.Rules} {
			for _, n := range counts {
				nc, ng, nr := 1, 1, 1
				switch l.name {
				case "allowedcontracts":
					nc = n
				case "allowedgroups":
					ng = n
				default:
					nr = n
				}
				out = append(out, xcase{limit: l.name, point: pointName(n, maxCondSubitems), kind: fmt.Sprintf("scopes-0x%02x", byte(l.sc|extra)),
					v: mkLists(l.sc|extra, nc, ng, nr), within: n <= maxCondSubitems})
			}
		}
	}
	return out
}

func signerForms() []form {
	sg, sgSI := codecBy("transaction.Signer"), codecBy("transaction.Signer/stackitem")
	txd, txb := codecBy("transaction.Transaction/DecodeBinary"), codecBy("transaction.Transaction/NewTransactionFromBytes")
	inTx := func(v any) any { return txWithSigner(*v.(*transaction.Signer)) }
	outTx := func(w any) any { s := w.(*transaction.Transaction).Signers[0]; return &s }
	return []form{binForm(sg), jsonForm(sg), namedForm("stackitem", sgSI),
		wrapForm(binForm(txd), "tx-binary", inTx, outTx), wrapForm(jsonForm(txb), "tx-json", inTx, outTx)}
}

// ---- transactions, attributes, witnesses ----------------------------------------------

func txCases(th bool) []xcase {
	var out []xcase
	w0 := transaction.Witness{InvocationScript: []byte{}, VerificationScript: []byte{}}
	mk := func(ns, na, nw int, script []byte) *transaction.Transaction {
		t := &transaction.Transaction{Nonce: 1, ValidUntilBlock: 5, SystemFee: 1, NetworkFee: 2, Script: script, Signers: []transaction.Signer{}, Attributes: []transaction.Attribute{}, Scripts: []transaction.Witness{}}
		for i := 0; i < ns; i++ {
			t.Signers = append(t.Signers, transaction.Signer{Account: u160(byte(i + 1)), Scopes: transaction.CalledByEntry})
		}
		for i := 0; i < na; i++ {
			t.Attributes = append(t.Attributes, transaction.Attribute{Type: transaction.ConflictsT, Value: &transaction.Conflicts{Hash: u256(byte(i + 1))}})
		}
		for i := 0; i < nw; i++ {
			t.Scripts = append(t.Scripts, w0)
		}
		return t
	}
	M := transaction.MaxAttributes
	add := func(limit, point, kind string, t *transaction.Transaction, within bool) {
		out = append(out, xcase{limit: limit, point: point, kind: kind, v: t, within: within})
	}
	// signers + attributes <= MaxAttributes, each of the two kinds providing the count
	for _, ns := range []int{0, 1, 2, M - 1, M, M + 1} {
		for _, tot := range []int{M - 1, M, M + 1} {
			na := tot - ns
			if na < 0 {
				na = 0
			}
			add("signers+attributes", pointName(ns+na, M), fmt.Sprintf("signers-%d,attributes-%d", ns, na), mk(ns, na, ns, []byte{0x11}), ns >= 1 && ns+na <= M)
		}
	}
	// number of witnesses against the number of signers
	for _, ns := range []int{1, 2, M} {
		for _, d := range []int{-1, 0, 1} {
			add("witnesses", fmt.Sprintf("signers%+d", d), fmt.Sprintf("signers-%d", ns), mk(ns, 0, ns+d, []byte{0x11}), d == 0)
		}
	}
	// script length
	for _, n := range []int{0, 1, transaction.MaxScriptLength - 1, transaction.MaxScriptLength, transaction.MaxScriptLength + 1} {
		add("script", pointName(n, transaction.MaxScriptLength), "script", mk(1, 0, 1, rep(0x21, n)), n >= 1 && n <= transaction.MaxScriptLength)
	}
	// witness script lengths inside a transaction
	for _, which := range []string{"invocation", "verification"} {
		for _, n := range []int{transaction.MaxInvocationScript - 1, transaction.MaxInvocationScript, transaction.MaxInvocationScript + 1} {
			t := mk(2, 0, 2, []byte{0x11})
			if which == "invocation" {
				t.Scripts[1].InvocationScript = rep(1, n)
			} else {
				t.Scripts[1].VerificationScript = rep(1, n)
			}
			add("witness-"+which, pointName(n, transaction.MaxInvocationScript), "second-witness", t, n <= transaction.MaxInvocationScript)
		}
	}
	// scalar validity
	type sc struct {
		name     string
		ver      uint8
		sys, net int64
		ok       bool
	}
	for _, s := range []sc{{"version-1", 1, 0, 0, false}, {"version-255", 255, 0, 0, false}, {"sysfee--1", 0, -1, 0, false}, {"netfee--1", 0, 0, -1, false},
		{"sysfee-min", 0, math.MinInt64, 0, false}, {"fees-max", 0, math.MaxInt64, 0, true}, {"fees-sum-max", 0, math.MaxInt64 - 1, 1, true}, {"fees-sum-overflow", 0, math.MaxInt64, 1, false},
		{"fees-both-max", 0, math.MaxInt64, math.MaxInt64, false}} {
		t := mk(1, 0, 1, []byte{0x11})
		t.Version, t.SystemFee, t.NetworkFee = s.ver, s.sys, s.net
		add("scalars", s.name, "tx", t, s.ok)
	}
	// duplicates
	{
		t := mk(2, 0, 2, []byte{0x11})
		t.Signers[1].Account = t.Signers[0].Account
		add("unique-signers", "duplicate", "first-two", t, false)
		t = mk(3, 0, 3, []byte{0x11})
		t.Signers[2].Account = t.Signers[0].Account
		add("unique-signers", "duplicate", "first-last", t, false)
	}
	attrOf := func(k int) transaction.Attribute {
		switch k {
		case 0:
			return transaction.Attribute{Type: transaction.HighPriority}
		case 1:
			return transaction.Attribute{Type: transaction.OracleResponseT, Value: &transaction.OracleResponse{ID: 1, Code: transaction.Success, Result: []byte{1}}}
		case 2:
			return transaction.Attribute{Type: transaction.NotValidBeforeT, Value: &transaction.NotValidBefore{Height: 1}}
		case 3:
			return transaction.Attribute{Type: transaction.ConflictsT, Value: &transaction.Conflicts{Hash: u256(1)}}
		}
		return transaction.Attribute{Type: transaction.NotaryAssistedT, Value: &transaction.NotaryAssisted{NKeys: 1}}
	}
	names := []string{"HighPriority", "OracleResponse", "NotValidBefore", "Conflicts", "NotaryAssisted"}
	for a := 0; a < 5; a++ {
		for b := 0; b < 5; b++ {
			t := mk(1, 0, 1, []byte{0x11})
			t.Attributes = []transaction.Attribute{attrOf(a), attrOf(b)}
			// Conflicts may repeat (documented by allowMultiple); the others not
			add("attribute-pairs", "pair", names[a]+"+"+names[b], t, a != b || a == 3)
		}
	}
	return out
}

func blockWithTx(t *transaction.Transaction) *block.Block {
	h := *headers(false)[0]
	b := &block.Block{Header: h, Transactions: []*transaction.Transaction{t}}
	b.RebuildMerkleRoot()
	return b
}

func txForms() []form {
	txd, txb := codecBy("transaction.Transaction/DecodeBinary"), codecBy("transaction.Transaction/NewTransactionFromBytes")
	blk := codecBy("block.Block")
	inB := func(v any) any { return blockWithTx(v.(*transaction.Transaction)) }
	outB := func(w any) any { return w.(*block.Block).Transactions[0] }
	fb := binForm(txb)
	fb.name = "frombytes"
	return []form{binForm(txd), fb, jsonForm(txb),
		wrapForm(binForm(blk), "block-binary", inB, outB), wrapForm(jsonForm(blk), "block-json", inB, outB)}
}

func attrCases(bool) []xcase {
	var out []xcase
	for c := 0; c < 256; c++ {
		code := transaction.OracleResponseCode(c)
		for _, n := range []int{0, 1} {
			ok := code.IsValid() && (n == 0 || code == transaction.Success)
			out = append(out, xcase{limit: "oracle-code", point: fmt.Sprintf("0x%02x", c), kind: fmt.Sprintf("result-%d", n),
				v: &transaction.Attribute{Type: transaction.OracleResponseT, Value: &transaction.OracleResponse{ID: 3, Code: code, Result: rep(1, n)}}, within: ok})
		}
	}
	for _, n := range []int{transaction.MaxOracleResultSize - 1, transaction.MaxOracleResultSize, transaction.MaxOracleResultSize + 1} {
		out = append(out, xcase{limit: "oracle-result", point: pointName(n, transaction.MaxOracleResultSize), kind: "Success",
			v: &transaction.Attribute{Type: transaction.OracleResponseT, Value: &transaction.OracleResponse{ID: math.MaxUint64, Code: transaction.Success, Result: rep(1, n)}}, within: n <= transaction.MaxOracleResultSize})
	}
	for t := 0; t < 256; t++ {
		var a *transaction.Attribute
		known := true
		switch tt := transaction.AttrType(t); tt {
		case transaction.HighPriority:
			a = &transaction.Attribute{Type: tt}
		case transaction.OracleResponseT:
			a = &transaction.Attribute{Type: tt, Value: &transaction.OracleResponse{Result: []byte{}}}
		case transaction.NotValidBeforeT:
			a = &transaction.Attribute{Type: tt, Value: &transaction.NotValidBefore{Height: math.MaxUint32}}
		case transaction.ConflictsT:
			a = &transaction.Attribute{Type: tt, Value: &transaction.Conflicts{Hash: u256(0xff)}}
		case transaction.NotaryAssistedT:
			a = &transaction.Attribute{Type: tt, Value: &transaction.NotaryAssisted{NKeys: 255}}
		default:
			known = tt >= transaction.ReservedLowerBound
			a = &transaction.Attribute{Type: tt, Value: &transaction.Reserved{Value: []byte{1}}}
		}
		out = append(out, xcase{limit: "attribute-type", point: fmt.Sprintf("0x%02x", t), kind: "typical-value", v: a, within: known})
	}
	return out
}

func attrForms() []form {
	at := codecBy("transaction.Attribute")
	txd, txb := codecBy("transaction.Transaction/DecodeBinary"), codecBy("transaction.Transaction/NewTransactionFromBytes")
	inTx := func(v any) any {
		t := txWithSigner(transaction.Signer{Account: u160(1)})
		t.Attributes = []transaction.Attribute{*v.(*transaction.Attribute)}
		return t
	}
	outTx := func(w any) any { a := w.(*transaction.Transaction).Attributes[0]; return &a }
	return []form{binForm(at), jsonForm(at), wrapForm(binForm(txd), "tx-binary", inTx, outTx), wrapForm(jsonForm(txb), "tx-json", inTx, outTx)}
}

func witnessCases(bool) []xcase {
	var out []xcase
	for _, which := range []string{"invocation", "verification"} {
		for _, n := range []int{0, 1, transaction.MaxInvocationScript - 1, transaction.MaxInvocationScript, transaction.MaxInvocationScript + 1} {
			w := &transaction.Witness{InvocationScript: []byte{}, VerificationScript: []byte{}}
			if which == "invocation" {
				w.InvocationScript = rep(0xaa, n)
			} else {
				w.VerificationScript = rep(0xaa, n)
			}
			out = append(out, xcase{limit: which, point: pointName(n, transaction.MaxInvocationScript), kind: "witness", v: w, within: n <= transaction.MaxInvocationScript})
		}
	}
	return out
}

func witnessForms() []form {
	w := codecBy("transaction.Witness")
	hd := codecBy("block.Header")
	inH := func(v any) any { h := *headers(false)[0]; h.Script = *v.(*transaction.Witness); return &h }
	outH := func(x any) any { w := x.(*block.Header).Script; return &w }
	return []form{binForm(w), jsonForm(w), wrapForm(binForm(hd), "header-binary", inH, outH), wrapForm(jsonForm(hd), "header-json", inH, outH)}
}

// ---- keys ---------------------------------------------------------------------------------

func keyCases(bool) []xcase {
	return []xcase{
		{limit: "point", point: "valid", kind: "compressed-even-or-odd", v: pubs[0], within: true},
		{limit: "point", point: "valid", kind: "second", v: pubs[1], within: true},
		{limit: "point", point: "infinity", kind: "zero-value", v: &keys.PublicKey{}, within: false},
	}
}

// ---- headers, blocks, state roots ---------------------------------------------------------------

func headerCases(sr bool) func(bool) []xcase {
	return func(bool) []xcase {
		var out []xcase
		for i, v := range u32s {
			h := *headers(sr)[i]
			h.Version = v
			out = append(out, xcase{limit: "version", point: fmt.Sprintf("%d", v), kind: "header", v: &h, within: true})
		}
		for _, n := range []uint64{0, 1, 0xf, 0x10, math.MaxUint64} {
			h := *headers(sr)[1]
			h.Nonce = n
			out = append(out, xcase{limit: "nonce", point: fmt.Sprintf("%x", n), kind: "header", v: &h, within: true})
		}
		return out
	}
}

func blockCases(sr bool) func(bool) []xcase {
	return func(th bool) []xcase {
		var out []xcase
		txs := transactions(th)
		sel := []*transaction.Transaction{txs[0], txs[len(txs)/2], txs[len(txs)-1]}
		for _, n := range []int{0, 1, 2, 3} {
			b := &block.Block{Header: *headers(sr)[n%3]}
			for i := 0; i < n; i++ {
				b.Transactions = append(b.Transactions, sel[i].Copy())
			}
			b.RebuildMerkleRoot()
			out = append(out, xcase{limit: "transactions", point: fmt.Sprintf("%d", n), kind: "block", v: b, within: true})
		}
		// the same transaction twice
		b := &block.Block{Header: *headers(sr)[0], Transactions: []*transaction.Transaction{sel[0].Copy(), sel[0].Copy()}}
		b.RebuildMerkleRoot()
		out = append(out, xcase{limit: "transactions", point: "duplicate", kind: "block", v: b, within: false})
		return out
	}
}

func rootCases(bool) []xcase {
	var out []xcase
	ws := witnesses()
	for n := 0; n <= 2; n++ {
		out = append(out, xcase{limit: "witnesses", point: fmt.Sprintf("%d", n), kind: "mptroot", v: &state.MPTRoot{Version: 0, Index: 7, Root: u256(3), Witness: ws[1 : 1+n]}, within: n <= 1})
	}
	return out
}

// ---- stack items -------------------------------------------------------------------------------

var itemKinds = []string{"Array", "Struct", "MapValue", "Array2a", "Array2b", "Struct2b", "Map2b"}

func itemWrap(kind string, child stackitem.Item) stackitem.Item {
	sib := stackitem.Item(stackitem.NewBool(true))
	switch kind {
	case "Array":
		return stackitem.NewArray([]stackitem.Item{child})
	case "Struct":
		return stackitem.NewStruct([]stackitem.Item{child})
	case "MapValue":
		return stackitem.NewMapWithValue([]stackitem.MapElement{{Key: stackitem.NewByteArray([]byte("k")), Value: child}})
	case "Array2a":
		return stackitem.NewArray([]stackitem.Item{child, sib})
	case "Array2b":
		return stackitem.NewArray([]stackitem.Item{sib, child})
	case "Struct2b":
		return stackitem.NewStruct([]stackitem.Item{sib, child})
	case "Map2b":
		return stackitem.NewMapWithValue([]stackitem.MapElement{{Key: stackitem.NewByteArray([]byte("a")), Value: sib}, {Key: stackitem.NewByteArray([]byte("b")), Value: child}})
	}
	panic(kind)
}

// rawInt makes an Integer item without the size check of NewBigInteger.
func rawInt(b *big.Int) stackitem.Item { return (*stackitem.BigInteger)(b) }

func itemCases(th bool) []xcase {
	var out []xcase
	add := func(limit, point, kind string, it stackitem.Item, within bool) {
		out = append(out, xcase{limit: limit, point: point, kind: kind, v: &itemBox{it}, within: within})
	}
	// nesting around MaxJSONDepth (the binary form has no depth limit of its own,
	// the typed JSON form is produced for every item the node returns over RPC)
	leaves := []stackitem.Item{stackitem.Null{}, stackitem.NewBigInteger(big.NewInt(5)), stackitem.NewByteArray([]byte("s"))}
	leafNames := []string{"Null", "Integer", "ByteString"}
	for _, depth := range []int{2, stackitem.MaxJSONDepth - 1, stackitem.MaxJSONDepth, stackitem.MaxJSONDepth + 1, stackitem.MaxJSONDepth + 2} {
		// the kind at the top, in the middle and at the bottom is varied; the rest are arrays
		for _, pos := range []int{0, depth / 2, depth - 1} {
			for _, k := range itemKinds {
				for li, leaf := range leaves {
					if li > 0 && k != "Array" && k != "MapValue" {
						continue
					}
					it := leaf
					for d := depth - 1; d >= 0; d-- {
						kk := "Array"
						if d == pos {
							kk = k
						}
						it = itemWrap(kk, it)
					}
					add("nesting", fmt.Sprintf("depth-%d", depth), fmt.Sprintf("%s@%d>%s", k, pos, leafNames[li]), it, true)
				}
			}
		}
	}
	// item count around MaxDeserialized, each compound kind providing the count
	for _, n := range []int{stackitem.MaxDeserialized - 2, stackitem.MaxDeserialized - 1, stackitem.MaxDeserialized, stackitem.MaxDeserialized + 1} {
		// n = total number of items including the container
		elems := make([]stackitem.Item, n-1)
		for i := range elems {
			elems[i] = stackitem.NewBool(i%2 == 0)
		}
		add("items", pointName(n, stackitem.MaxDeserialized), "Array", stackitem.NewArray(elems), n <= stackitem.MaxDeserialized)
		add("items", pointName(n, stackitem.MaxDeserialized), "Struct", stackitem.NewStruct(elems), n <= stackitem.MaxDeserialized)
		add("items", pointName(n, stackitem.MaxDeserialized), "Array>Array", stackitem.NewArray([]stackitem.Item{stackitem.NewArray(elems[:n-2])}), n <= stackitem.MaxDeserialized)
		if n%2 == 1 {
			var me []stackitem.MapElement
			for i := 0; i < (n-1)/2; i++ {
				me = append(me, stackitem.MapElement{Key: stackitem.NewBigInteger(big.NewInt(int64(i))), Value: stackitem.Null{}})
			}
			add("items", pointName(n, stackitem.MaxDeserialized), "Map", stackitem.NewMapWithValue(me), n <= stackitem.MaxDeserialized)
		}
	}
	// map keys: size around MaxKeySize for every key type
	for _, n := range []int{1, stackitem.MaxKeySize - 1, stackitem.MaxKeySize, stackitem.MaxKeySize + 1} {
		for _, kt := range []string{"ByteString", "Buffer"} {
			var k stackitem.Item = stackitem.NewByteArray(rep('k', n))
			if kt == "Buffer" {
				k = stackitem.NewBuffer(rep('k', n))
			}
			add("map-key", pointName(n, stackitem.MaxKeySize), kt, stackitem.NewMapWithValue([]stackitem.MapElement{{Key: k, Value: stackitem.Null{}}}), n <= stackitem.MaxKeySize && kt == "ByteString")
		}
	}
	// (keys of other types cannot be built in memory: NewMapWithValue needs TryBytes of the key)
	for i, k := range []stackitem.Item{stackitem.NewBool(true), stackitem.NewBigInteger(big.NewInt(-1)), stackitem.NewBigInteger(new(big.Int).Lsh(big.NewInt(1), 254))} {
		add("map-key", "type", []string{"Boolean", "Integer", "Integer-32-bytes"}[i],
			stackitem.NewMapWithValue([]stackitem.MapElement{{Key: k, Value: stackitem.Null{}}}), true)
	}
	// two keys that are equal
	add("map-key", "duplicate", "ByteString", stackitem.NewMapWithValue([]stackitem.MapElement{{Key: stackitem.NewByteArray([]byte("a")), Value: stackitem.Null{}}, {Key: stackitem.NewByteArray([]byte("a")), Value: stackitem.NewBool(true)}}), false)
	// integers around 256 bits
	p255 := new(big.Int).Lsh(big.NewInt(1), 255)
	p256 := new(big.Int).Lsh(big.NewInt(1), 256)
	type iv struct {
		name string
		v    *big.Int
		ok   bool
	}
	for _, x := range []iv{{"2^255-1", new(big.Int).Sub(p255, big.NewInt(1)), true}, {"2^255", p255, false}, {"-2^255", new(big.Int).Neg(p255), true},
		{"-2^255-1", new(big.Int).Sub(new(big.Int).Neg(p255), big.NewInt(1)), false}, {"2^256", p256, false}, {"-2^256", new(big.Int).Neg(p256), false},
		{"2^53-1", big.NewInt(1<<53 - 1), true}, {"2^53", big.NewInt(1 << 53), true}, {"-2^53", big.NewInt(-(1 << 53)), true}, {"2^63", new(big.Int).Lsh(big.NewInt(1), 63), true}} {
		for _, k := range []string{"bare", "Array"} {
			it := rawInt(x.v)
			if k == "Array" {
				it = stackitem.NewArray([]stackitem.Item{it})
			}
			add("integer", x.name, k, it, x.ok)
		}
	}
	// byte strings around MaxSize (the size of the whole serialisation)
	for _, n := range []int{math.MaxUint16, math.MaxUint16 + 1, stackitem.MaxSize - 6, stackitem.MaxSize - 5, stackitem.MaxSize - 4, stackitem.MaxSize} {
		for _, k := range []string{"ByteString", "Buffer"} {
			var it stackitem.Item = stackitem.NewByteArray(rep('x', n))
			if k == "Buffer" {
				it = stackitem.NewBuffer(rep('x', n))
			}
			// type byte + 5-byte length prefix + n <= MaxSize
			add("size", fmt.Sprintf("%d", n), k, it, n+6 <= stackitem.MaxSize)
		}
	}
	// values the binary form cannot carry
	add("type", "Interop", "bare", stackitem.NewInterop(nil), false)
	add("type", "Pointer", "bare", stackitem.NewPointerWithHash(1, nil, util.Uint160{}), false)
	add("type", "Interop", "Array", stackitem.NewArray([]stackitem.Item{stackitem.NewInterop(nil)}), false)
	return out
}

func itemForms() []form {
	bin, prot, js := codecBy("stackitem.Item"), codecBy("stackitem.Item/protected"), codecBy("stackitem.Item/JSON")
	outsideItem := func(err error) bool { return err != nil } // the encoders state their own limits (size, count, depth): refusing is their right
	f := []form{binForm(bin), jsonForm(bin), namedForm("protected", prot), namedForm("plain-json", js)}
	f[1].name, f[1].kind = "typed-json", "typed-json"
	for i := range f {
		f[i].outside = outsideItem
	}
	// the protected form replaces what it cannot carry by an invalid-item marker,
	// plain JSON drops the types and documents its own depth limit
	f[2].lossy, f[3].lossy = true, true
	f[3].decOutside = func(err error) bool { return errors.Is(err, stackitem.ErrTooDeep) }
	return f
}

// ---- NEF ---------------------------------------------------------------------------------------

const nefManyTokens = 128 // no limit of its own in this tree; the file size limits it

func nefCases(bool) []xcase {
	var out []xcase
	mk := func(comp, src string, ntok int, script []byte) *nef.File {
		f := &nef.File{Header: nef.Header{Magic: nef.Magic, Compiler: comp}, Source: src, Tokens: make([]nef.MethodToken, ntok), Script: script}
		for i := range f.Tokens {
			f.Tokens[i] = nef.MethodToken{Hash: u160(byte(i)), Method: "m", ParamCount: uint16(i), HasReturn: i%2 == 0, CallFlag: callflag.All}
		}
		guard(func() { f.Checksum = f.CalculateChecksum() }) // panics for an over-long compiler field
		return f
	}
	for _, n := range []int{0, 63, 64, 65} {
		out = append(out, xcase{limit: "compiler", point: pointName(n, 64), kind: "nef", v: mk(strings.Repeat("c", n), "", 0, []byte{0x40}), within: n <= 64})
	}
	for _, n := range []int{nef.MaxSourceURLLength - 1, nef.MaxSourceURLLength, nef.MaxSourceURLLength + 1} {
		out = append(out, xcase{limit: "source", point: pointName(n, nef.MaxSourceURLLength), kind: "nef", v: mk("c", strings.Repeat("s", n), 0, []byte{0x40}), within: n <= nef.MaxSourceURLLength})
	}
	for _, n := range []int{1, nefManyTokens, nefManyTokens + 1} {
		out = append(out, xcase{limit: "tokens", point: fmt.Sprintf("%d", n), kind: "nef", v: mk("c", "", n, []byte{0x40}), within: true})
	}
	// the whole file is limited to stackitem.MaxSize bytes (FileFromBytes, Bytes)
	big, _ := mk("c", "", 0, rep(0x21, 0x10000)).BytesLong()
	scriptLimit := stackitem.MaxSize - (len(big) - 0x10000)
	for _, n := range []int{0, 1, scriptLimit - 1, scriptLimit, scriptLimit + 1} {
		out = append(out, xcase{limit: "script", point: pointName(n, scriptLimit), kind: "nef", v: mk("c", "", 0, rep(0x21, n)), within: n >= 1 && n <= scriptLimit})
	}
	{
		f := mk("c", "", 0, []byte{0x40})
		f.Checksum ^= 1
		out = append(out, xcase{limit: "checksum", point: "wrong", kind: "nef", v: f, within: false})
		f = mk("c", "", 0, []byte{0x40})
		f.Magic ^= 1
		f.Checksum = f.CalculateChecksum()
		out = append(out, xcase{limit: "magic", point: "wrong", kind: "nef", v: f, within: false})
	}
	return out
}

func tokenCases(bool) []xcase {
	var out []xcase
	for _, n := range []int{0, 1, 31, 32, 33} {
		out = append(out, xcase{limit: "method", point: pointName(n, 32), kind: "token", v: &nef.MethodToken{Hash: u160(1), Method: strings.Repeat("m", n), CallFlag: callflag.ReadStates}, within: n <= 32})
	}
	out = append(out, xcase{limit: "method", point: "underscore", kind: "token", v: &nef.MethodToken{Hash: u160(1), Method: "_deploy"}, within: false})
	for f := 0; f < 256; f++ {
		out = append(out, xcase{limit: "callflags", point: fmt.Sprintf("0x%02x", f), kind: "token", v: &nef.MethodToken{Hash: u160(2), Method: "a", ParamCount: 0xffff, HasReturn: true, CallFlag: callflag.CallFlag(f)},
			within: callflag.CallFlag(f)&^callflag.All == 0})
	}
	return out
}

// ---- MPT nodes ------------------------------------------------------------------------------------

func mptCases(bool) []xcase {
	var out []xcase
	for _, n := range []int{0, 1, mpt.MaxValueLength - 1, mpt.MaxValueLength, mpt.MaxValueLength + 1} {
		out = append(out, xcase{limit: "leaf-value", point: pointName(n, mpt.MaxValueLength), kind: "leaf", v: &mpt.NodeObject{Node: mpt.NewLeafNode(rep(7, n))}, within: n <= mpt.MaxValueLength})
	}
	mk := mpt.MaxKeyLength * 2
	for _, n := range []int{0, 1, 2, mk - 1, mk, mk + 1} {
		out = append(out, xcase{limit: "extension-key", point: pointName(n, mk), kind: "extension>hash", v: &mpt.NodeObject{Node: mpt.NewExtensionNode(rep(0x0a, n), mpt.NewHashNode(u256(1)))}, within: n <= mk && n > 0})
	}
	for _, nib := range []byte{0x0f, 0x10, 0xff} {
		out = append(out, xcase{limit: "extension-key", point: fmt.Sprintf("nibble-0x%02x", nib), kind: "extension>hash", v: &mpt.NodeObject{Node: mpt.NewExtensionNode([]byte{1, nib}, mpt.NewHashNode(u256(1)))}, within: nib <= 0x0f})
	}
	return out
}

// ---- notifications -------------------------------------------------------------------------------

func notifCases(bool) []xcase {
	var out []xcase
	for _, n := range []int{0, 1, 31, 32, 33} {
		out = append(out, xcase{limit: "name", point: pointName(n, 32), kind: "notification", v: &state.NotificationEvent{ScriptHash: u160(1), Name: strings.Repeat("n", n), Item: stackitem.NewArray([]stackitem.Item{})}, within: true})
	}
	for _, n := range []int{1, stackitem.MaxDeserialized - 2, stackitem.MaxDeserialized - 1, stackitem.MaxDeserialized} {
		el := make([]stackitem.Item, n)
		for i := range el {
			el[i] = stackitem.Null{}
		}
		out = append(out, xcase{limit: "items", point: pointName(n+1, stackitem.MaxDeserialized), kind: "notification", v: &state.NotificationEvent{ScriptHash: u160(1), Name: "e", Item: stackitem.NewArray(el)}, within: n+1 <= stackitem.MaxDeserialized})
	}
	return out
}

var _ = json.Marshal

func xgroups() []*xgroup {
	cc := codecBy("transaction.WitnessCondition")
	_ = cc
	pk := codecBy("keys.PublicKey")
	hd, hdsr := codecBy("block.Header"), codecBy("block.Header/stateroot")
	blk, blksr := codecBy("block.Block"), codecBy("block.Block/stateroot")
	mr := codecBy("state.MPTRoot")
	rule, ruleSI := codecBy("transaction.WitnessRule"), codecBy("transaction.WitnessRule/stackitem")
	nf, mt := codecBy("nef.File"), codecBy("nef.MethodToken")
	node := codecBy("mpt.NodeObject")
	ne := codecBy("state.NotificationEvent")
	return []*xgroup{
		{name: "condition", forms: condForms(), cases: condCases},
		{name: "rule", forms: []form{binForm(rule), jsonForm(rule), namedForm("stackitem", ruleSI)}, cases: ruleCases},
		{name: "signer", forms: signerForms(), cases: signerCases},
		{name: "transaction", forms: txForms(), cases: txCases, hash: txHash},
		{name: "attribute", forms: attrForms(), cases: attrCases},
		{name: "witness", forms: witnessForms(), cases: witnessCases},
		{name: "publickey", forms: []form{binForm(pk), jsonForm(pk)}, cases: keyCases},
		{name: "header", forms: []form{binForm(hd), jsonForm(hd)}, cases: headerCases(false), hash: hdrHash},
		{name: "header/stateroot", forms: []form{binForm(hdsr), jsonForm(hdsr)}, cases: headerCases(true), hash: hdrHash},
		{name: "block", forms: []form{binForm(blk), jsonForm(blk)}, cases: blockCases(false), hash: blkHash},
		{name: "block/stateroot", forms: []form{binForm(blksr), jsonForm(blksr)}, cases: blockCases(true), hash: blkHash},
		{name: "mptroot", forms: []form{binForm(mr), jsonForm(mr)}, cases: rootCases, hash: mr.hash},
		{name: "stackitem", forms: itemForms(), cases: itemCases},
		{name: "nef", forms: []form{binForm(nf), jsonForm(nf)}, cases: nefCases},
		{name: "methodtoken", forms: []form{binForm(mt), jsonForm(mt)}, cases: tokenCases},
		{name: "mptnode", forms: []form{binForm(node), jsonForm(node)}, cases: mptCases, noDeep: true, hash: node.hash},
		{name: "notification", forms: []form{binForm(ne), jsonForm(ne)}, cases: notifCases},
		{name: "manifest", forms: []form{namedForm("stackitem", codecBy("manifest.Manifest")), jsonForm(codecBy("manifest.Manifest"))}, cases: manifestCases},
	}
}

// ---- manifests (JSON vs stack item form) -----------------------------------------------------------

func manifestCases(bool) []xcase {
	var out []xcase
	base := func() *manifest.Manifest {
		m := manifest.NewManifest("c")
		m.ABI.Methods = []manifest.Method{{Name: "main", Offset: 0, Parameters: []manifest.Parameter{manifest.NewParameter("a", smartcontract.IntegerType)}, ReturnType: smartcontract.VoidType}}
		m.ABI.Events = []manifest.Event{}
		m.Extra = json.RawMessage("null")
		return m
	}
	add := func(limit, point, kind string, m *manifest.Manifest, within bool) {
		out = append(out, xcase{limit: limit, point: point, kind: kind, v: m, within: within})
	}
	for _, n := range []int{0, 63, 64, 65} {
		m := base()
		m.Groups = []manifest.Group{{PublicKey: pubs[0], Signature: rep(7, n)}}
		add("group-signature", pointName(n, 64), "group", m, n == 64)
	}
	// every parameter type byte as parameter type and as return type
	known := map[smartcontract.ParamType]bool{}
	for _, t := range []smartcontract.ParamType{smartcontract.AnyType, smartcontract.BoolType, smartcontract.IntegerType, smartcontract.ByteArrayType, smartcontract.StringType, smartcontract.Hash160Type,
		smartcontract.Hash256Type, smartcontract.PublicKeyType, smartcontract.SignatureType, smartcontract.ArrayType, smartcontract.MapType, smartcontract.InteropInterfaceType, smartcontract.VoidType} {
		known[t] = true
	}
	for t := 0; t < 256; t++ {
		pt := smartcontract.ParamType(t)
		m := base()
		m.ABI.Methods[0].Parameters[0].Type = pt
		add("param-type", fmt.Sprintf("0x%02x", t), "method-parameter", m, known[pt])
		m = base()
		m.ABI.Methods[0].ReturnType = pt
		add("param-type", fmt.Sprintf("0x%02x", t), "return-type", m, known[pt])
		m = base()
		m.ABI.Events = []manifest.Event{{Name: "e", Parameters: []manifest.Parameter{manifest.NewParameter("p", pt)}}}
		add("param-type", fmt.Sprintf("0x%02x", t), "event-parameter", m, known[pt])
	}
	for _, off := range []int{-1, 0, 1, math.MaxInt32, math.MaxInt32 + 1, math.MaxInt64} {
		m := base()
		m.ABI.Methods[0].Offset = off
		add("method-offset", fmt.Sprintf("%d", off), "method", m, off >= 0)
	}
	// permissions and trusts: wildcard, empty, one, two
	descs := []manifest.PermissionDesc{{Type: manifest.PermissionHash, Value: u160(1)}, {Type: manifest.PermissionGroup, Value: pubs[0]}}
	for i, methods := range [][]string{nil, {}, {"a"}, {"a", "b"}, {""}} {
		for j, d := range []manifest.PermissionDesc{{Type: manifest.PermissionWildcard}, descs[0], descs[1]} {
			m := base()
			m.Permissions = []manifest.Permission{{Contract: d, Methods: manifest.WildStrings{Value: methods}}}
			add("permission", []string{"methods-wildcard", "methods-empty", "methods-1", "methods-2", "methods-empty-name"}[i], []string{"contract-wildcard", "contract-hash", "contract-group"}[j], m, true)
		}
	}
	for i, tr := range []manifest.WildPermissionDescs{{Wildcard: true}, {Value: []manifest.PermissionDesc{}}, {Value: descs[:1]}, {Value: descs}, {Value: []manifest.PermissionDesc{descs[0], descs[0]}}} {
		m := base()
		m.Trusts = tr
		add("trusts", []string{"wildcard", "empty", "hash", "hash+group", "duplicate"}[i], "trusts", m, true)
	}
	for i, ex := range []string{"null", `{}`, `{"a":[1,"x",null,true]}`, `"s"`, `1`, `[[[[[[[[[[1]]]]]]]]]]`, `[[[[[[[[[[[1]]]]]]]]]]]`} {
		m := base()
		m.Extra = json.RawMessage(ex)
		add("extra", fmt.Sprintf("#%d", i), "extra", m, i < 5)
	}
	for i, ft := range []string{`{}`, `{"a":1}`, `null`, `[]`} {
		m := base()
		m.Features = json.RawMessage(ft)
		add("features", fmt.Sprintf("#%d", i), "features", m, i == 0)
	}
	for _, n := range []int{0, 1, 2} {
		m := base()
		m.SupportedStandards = make([]string, n)
		for i := range m.SupportedStandards {
			m.SupportedStandards[i] = "NEP-17"
		}
		add("standards", fmt.Sprintf("%d-equal", n), "standards", m, true)
	}
	return out
}
