// C17 shape generators: P2P payloads, messages, consensus payloads.
package c17

import (
	"encoding/binary"
	"fmt"
	"math"

	"github.com/nspcc-dev/neo-go/pkg/config/netmode"
	"github.com/nspcc-dev/neo-go/pkg/consensus"
	"github.com/nspcc-dev/neo-go/pkg/core/block"
	"github.com/nspcc-dev/neo-go/pkg/core/state"
	"github.com/nspcc-dev/neo-go/pkg/core/transaction"
	"github.com/nspcc-dev/neo-go/pkg/io"
	"github.com/nspcc-dev/neo-go/pkg/network"
	"github.com/nspcc-dev/neo-go/pkg/network/capability"
	"github.com/nspcc-dev/neo-go/pkg/network/payload"
	"github.com/nspcc-dev/neo-go/pkg/services/stateroot"
	"github.com/nspcc-dev/neo-go/pkg/util"
	"github.com/nspcc-dev/neo-go/pkg/vm/opcode"
)

func capabilityList() []capability.Capability {
	var out []capability.Capability
	for _, p := range u16s {
		out = append(out, capability.Capability{Type: capability.TCPServer, Data: &capability.Server{Port: p}},
			capability.Capability{Type: capability.WSServer, Data: &capability.Server{Port: p}})
	}
	for _, h := range u32s {
		out = append(out, capability.Capability{Type: capability.FullNode, Data: &capability.Node{StartHeight: h}})
	}
	out = append(out, capability.Capability{Type: capability.ArchivalNode, Data: &capability.Archival{}},
		capability.Capability{Type: capability.DisableCompressionNode, Data: &capability.DisableCompression{}})
	for _, t := range []capability.Type{0x04, capability.ReservedFirst, capability.ReservedLast} {
		for _, b := range byteStrings(0) {
			u := capability.Unknown(b)
			out = append(out, capability.Capability{Type: t, Data: &u})
		}
	}
	return out
}

func capabilitySets() []capability.Capabilities {
	cl := capabilityList()
	out := []capability.Capabilities{{}}
	for _, c := range cl {
		out = append(out, capability.Capabilities{c})
	}
	out = append(out, capability.Capabilities{cl[0], cl[6]}, capability.Capabilities{cl[1], cl[0], cl[7], cl[9], cl[10]},
		capability.Capabilities{cl[len(cl)-1], cl[len(cl)-1]}) // unknown ones may repeat
	m := capability.Capabilities{cl[0], cl[1], cl[6], cl[9], cl[10]}
	for len(m) < capability.MaxCapabilities {
		m = append(m, cl[len(cl)-2])
	}
	out = append(out, m)
	return out
}

func payloadCodecs() []*codec {
	var out []*codec
	const pp = "pkg/network/payload"

	cp := ser[capability.Capability]("capability.Capability", "pkg/network/capability", func(bool) []*capability.Capability { return ptrs(capabilityList()) })
	cp.withSizeVar().cheap = true
	out = append(out, cp)
	cs := ser[capability.Capabilities]("capability.Capabilities", "pkg/network/capability", func(bool) []*capability.Capabilities { return ptrs(capabilitySets()) })
	cs.reject = func() []namedBytes {
		return []namedBytes{{"33-capabilities", cat([]byte{33}, bytesRepeat([]byte{0xf0, 0}, 33))},
			{"two-tcp", []byte{2, 1, 0, 0, 1, 1, 0}}, {"archival-with-data", []byte{1, 0x11, 1, 0}}}
	}
	out = append(out, cs)

	ver := ser[payload.Version]("payload.Version", pp, func(bool) []*payload.Version {
		var vs []*payload.Version
		sets := capabilitySets()
		for i := 0; i < 3; i++ {
			for _, ua := range byteStrings(payload.MaxUserAgentLength) {
				for _, c := range []capability.Capabilities{sets[0], sets[1+i], sets[len(sets)-3]} {
					vs = append(vs, &payload.Version{Magic: netmode.Magic(u32s[i]), Version: u32s[(i+1)%3], Timestamp: u32s[(i+2)%3], Nonce: u32s[i], UserAgent: ua, Capabilities: c})
				}
			}
		}
		vs = append(vs, &payload.Version{UserAgent: []byte{}, Capabilities: sets[len(sets)-1]})
		return vs
	})
	ver.withSizeVar()
	ver.reject = func() []namedBytes {
		return []namedBytes{{"useragent-1025", cat(rep(0, 16), varint(payload.MaxUserAgentLength+1), rep('a', payload.MaxUserAgentLength+1), []byte{0})}}
	}
	out = append(out, ver)

	aats := func() []*payload.AddressAndTime {
		var vs []*payload.AddressAndTime
		sets := capabilitySets()
		for i := 0; i < 3; i++ {
			for _, c := range []capability.Capabilities{sets[0], sets[1], sets[len(sets)-3]} {
				a := &payload.AddressAndTime{Timestamp: u32s[i], Capabilities: c}
				copy(a.IP[:], rep(u8s[i], 16))
				vs = append(vs, a)
			}
		}
		return vs
	}
	aat := ser[payload.AddressAndTime]("payload.AddressAndTime", pp, func(bool) []*payload.AddressAndTime { return aats() })
	aat.withSizeVar()
	out = append(out, aat)
	al := ser[payload.AddressList]("payload.AddressList", pp, func(bool) []*payload.AddressList {
		a := aats()
		m := make([]*payload.AddressAndTime, payload.MaxAddrsCount)
		for i := range m {
			m[i] = a[i%len(a)]
		}
		return []*payload.AddressList{{Addrs: a[:1]}, {Addrs: a[1:3]}, {Addrs: a[4:9]}, {Addrs: m}}
	})
	al.reject = func() []namedBytes {
		one, _ := encS(aats()[0])
		return []namedBytes{{"no-addresses", []byte{0}}, {"201-addresses", cat(varint(payload.MaxAddrsCount+1), bytesRepeat(one, payload.MaxAddrsCount+1))}}
	}
	out = append(out, al)

	hashLists := func(max int) [][]util.Uint256 {
		m := make([]util.Uint256, max)
		for i := range m {
			m[i] = u256(byte(i))
		}
		return [][]util.Uint256{{}, {u256s[1]}, {u256s[2], u256s[0]}, m}
	}
	inv := ser[payload.Inventory]("payload.Inventory", pp, func(bool) []*payload.Inventory {
		var vs []*payload.Inventory
		for _, t := range []payload.InventoryType{payload.TXType, payload.BlockType, payload.ExtensibleType, payload.P2PNotaryRequestType, 0, 0xff} {
			for _, h := range hashLists(payload.MaxHashesCount) {
				vs = append(vs, &payload.Inventory{Type: t, Hashes: h})
			}
		}
		return vs
	})
	inv.withSizeVar().cheap = true
	inv.reject = func() []namedBytes {
		return []namedBytes{{"501-hashes", cat([]byte{0x2b}, varint(payload.MaxHashesCount+1), rep(1, 32*(payload.MaxHashesCount+1)))}}
	}
	out = append(out, inv)
	minv := ser[payload.MPTInventory]("payload.MPTInventory", pp, func(bool) []*payload.MPTInventory {
		var vs []*payload.MPTInventory
		for _, h := range hashLists(payload.MaxMPTHashesCount) {
			vs = append(vs, &payload.MPTInventory{Hashes: h})
		}
		return vs
	})
	minv.withSizeVar()
	minv.reject = func() []namedBytes {
		return []namedBytes{{"33-hashes", cat(varint(payload.MaxMPTHashesCount+1), rep(1, 32*(payload.MaxMPTHashesCount+1)))}}
	}
	out = append(out, minv)

	gb := ser[payload.GetBlocks]("payload.GetBlocks", pp, func(bool) []*payload.GetBlocks {
		var vs []*payload.GetBlocks
		for _, h := range u256s {
			for _, c := range []int16{-1, 1, 2, math.MaxInt16} {
				vs = append(vs, &payload.GetBlocks{HashStart: h, Count: c})
			}
		}
		return vs
	})
	gb.withSizeVar()
	gb.reject = func() []namedBytes {
		return []namedBytes{{"count-0", cat(rep(0, 32), []byte{0, 0})}, {"count--2", cat(rep(0, 32), []byte{0xfe, 0xff})}}
	}
	out = append(out, gb)
	gbi := ser[payload.GetBlockByIndex]("payload.GetBlockByIndex", pp, func(bool) []*payload.GetBlockByIndex {
		var vs []*payload.GetBlockByIndex
		for _, h := range u32s {
			for _, c := range []int16{-1, 1, 2, payload.MaxHeadersAllowed} {
				vs = append(vs, &payload.GetBlockByIndex{IndexStart: h, Count: c})
			}
		}
		return vs
	})
	gbi.withSizeVar()
	gbi.reject = func() []namedBytes {
		return []namedBytes{{"count-0", []byte{0, 0, 0, 0, 0, 0}}, {"count-2001", []byte{0, 0, 0, 0, 0xd1, 0x07}}, {"count--2", []byte{0, 0, 0, 0, 0xfe, 0xff}}}
	}
	out = append(out, gbi)

	for _, sr := range []bool{false, true} {
		sr := sr
		sfx := ""
		if sr {
			sfx = "/stateroot"
		}
		hd := serNew[payload.Headers]("payload.Headers"+sfx, pp, func() *payload.Headers { return &payload.Headers{StateRootInHeader: sr} },
			func(bool) []*payload.Headers {
				hs := headers(sr)
				m := make([]*block.Header, payload.MaxHeadersAllowed)
				for i := range m {
					m[i] = hs[0]
				}
				return []*payload.Headers{{Hdrs: hs[:1], StateRootInHeader: sr}, {Hdrs: hs[1:3], StateRootInHeader: sr}, {Hdrs: hs, StateRootInHeader: sr}, {Hdrs: m, StateRootInHeader: sr}}
			})
		hd.reject = func() []namedBytes {
			one, _ := encS(headers(sr)[0])
			return []namedBytes{{"no-headers", []byte{0}}, {"2001-headers", cat(varint(payload.MaxHeadersAllowed+1), bytesRepeat(one, payload.MaxHeadersAllowed+1))}}
		}
		out = append(out, hd)
	}

	mb := ser[payload.MerkleBlock]("payload.MerkleBlock", pp, func(bool) []*payload.MerkleBlock {
		var vs []*payload.MerkleBlock
		hs := headers(false)
		for i, n := range []int{0, 1, 2, 9} {
			hl := make([]util.Uint256, n)
			for k := range hl {
				hl[k] = u256s[k%3]
			}
			for _, fl := range [][]byte{{}, rep(0xff, (n+7)/8)} {
				vs = append(vs, &payload.MerkleBlock{Header: hs[i], TxCount: n, Hashes: hl, Flags: fl})
			}
		}
		return vs
	})
	mb.reject = func() []namedBytes {
		h, _ := encS(headers(false)[0])
		return []namedBytes{
			{"65536-transactions", cat(h, varint(block.MaxTransactionsPerBlock+1), []byte{0, 0})},
			{"count-mismatch", cat(h, []byte{2, 1}, rep(0, 32), []byte{0})},
			{"flags-too-long", cat(h, []byte{1, 1}, rep(0, 32), []byte{2, 0, 0})},
			// a transaction count above 2^63 must not lift the limit of the hash list
			{"tx-count-2^64-1", cat(h, rep(0xff, 9), []byte{0xfe, 0, 0, 0, 4})},
			{"tx-count-and-hash-count-2^64-1", cat(h, rep(0xff, 9), rep(0xff, 9))},
		}
	}
	out = append(out, mb)

	pg := ser[payload.Ping]("payload.Ping", pp, func(bool) []*payload.Ping {
		var vs []*payload.Ping
		for _, a := range u32s {
			for _, b := range u32s {
				for _, c := range u32s {
					vs = append(vs, &payload.Ping{LastBlockIndex: a, Timestamp: b, Nonce: c})
				}
			}
		}
		return vs
	})
	pg.withSizeVar()
	out = append(out, pg)

	ext := ser[payload.Extensible]("payload.Extensible", pp, func(bool) []*payload.Extensible { return extensibles() })
	ext.hash = func(v any) string { return v.(*payload.Extensible).Hash().StringLE() }
	ext.withSizeVar()
	ext.reject = func() []namedBytes {
		return []namedBytes{
			{"category-33", cat(varint(33), rep('a', 33), rep(0, 28), []byte{0, 1, 0, 0})},
			{"padding-2", cat([]byte{0}, rep(0, 28), []byte{0, 2, 0, 0})},
		}
	}
	out = append(out, ext)

	md := ser[payload.MPTData]("payload.MPTData", pp, func(bool) []*payload.MPTData {
		var vs []*payload.MPTData
		bs := byteStrings(0x100)
		for _, b := range bs {
			vs = append(vs, &payload.MPTData{Nodes: [][]byte{b}})
		}
		vs = append(vs, &payload.MPTData{Nodes: [][]byte{bs[1], bs[0]}}, &payload.MPTData{Nodes: bs})
		return vs
	})
	md.withSizeVar().cheap = true
	md.reject = func() []namedBytes { return []namedBytes{{"no-nodes", []byte{0}}} }
	out = append(out, md)

	nr := &codec{
		name: "payload.P2PNotaryRequest", pkg: pp,
		gen: func(bool) []any { return toAny(notaryRequests()) },
		enc: func(v any) ([]byte, error) { return v.(*payload.P2PNotaryRequest).Bytes() },
		dec: func(b []byte) (any, error) {
			r, err := payload.NewP2PNotaryRequestFromBytes(b)
			if err != nil {
				return nil, err
			}
			return r, nil
		},
		hash:    func(v any) string { return v.(*payload.P2PNotaryRequest).Hash().StringLE() },
		size:    func(v any) int { return io.GetVarSize(v) },
		maxSeed: 420,
	}
	out = append(out, nr)
	return out
}

func extensibles() []*payload.Extensible {
	var vs []*payload.Extensible
	ws := witnesses()
	i := 0
	for _, cat := range []string{"", "a", payload.ConsensusCategory, string(rep('x', 32))} {
		for _, d := range byteStrings(0x10000) {
			k := i % 3
			vs = append(vs, &payload.Extensible{Category: cat, ValidBlockStart: u32s[k], ValidBlockEnd: u32s[(k+1)%3], Sender: u160s[k], Data: d, Witness: ws[(i*5)%len(ws)]})
			i++
		}
	}
	return vs
}

func notaryRequests() []*payload.P2PNotaryRequest {
	var out []*payload.P2PNotaryRequest
	ws := witnesses()
	for i, nk := range []uint8{1, 2, 255} {
		main := &transaction.Transaction{Nonce: u32s[i], ValidUntilBlock: u32s[(i+1)%3], Script: []byte{0x11},
			Signers:    []transaction.Signer{{Account: u160s[1], Scopes: transaction.CalledByEntry}},
			Attributes: []transaction.Attribute{{Type: transaction.NotaryAssistedT, Value: &transaction.NotaryAssisted{NKeys: nk}}},
			Scripts:    []transaction.Witness{ws[i]}}
		fb := &transaction.Transaction{Nonce: u32s[(i+2)%3], ValidUntilBlock: main.ValidUntilBlock, Script: []byte{0x40},
			Signers: []transaction.Signer{{Account: u160s[2]}, {Account: u160s[1]}},
			Attributes: []transaction.Attribute{
				{Type: transaction.NotaryAssistedT, Value: &transaction.NotaryAssisted{NKeys: 0}},
				{Type: transaction.NotValidBeforeT, Value: &transaction.NotValidBefore{Height: u32s[i]}},
				{Type: transaction.ConflictsT, Value: &transaction.Conflicts{Hash: main.Hash()}}},
			Scripts: []transaction.Witness{{InvocationScript: cat([]byte{byte(opcode.PUSHDATA1), 64}, rep(0, 64)), VerificationScript: []byte{}}, ws[(i+3)%len(ws)]}}
		for _, w := range []transaction.Witness{ws[0], ws[8], ws[len(ws)-1]} {
			out = append(out, &payload.P2PNotaryRequest{MainTransaction: main.Copy(), FallbackTransaction: fb.Copy(), Witness: w})
		}
	}
	return out
}

// ---- network.Message -------------------------------------------------------------------

type msgCase struct {
	M *network.Message
}

func messages(th bool) []*network.Message {
	var out []*network.Message
	add := func(c network.CommandType, p payload.Payload) { out = append(out, network.NewMessage(c, p)) }
	for _, c := range []network.CommandType{network.CMDVerack, network.CMDGetAddr, network.CMDMempool, network.CMDFilterClear} {
		add(c, payload.NewNullPayload())
	}
	pc := payloadCodecs()
	byName := func(n string) []any {
		for _, c := range pc {
			if c.name == n {
				return c.gen(th)
			}
		}
		panic(n)
	}
	some := func(vs []any, k int) []any {
		if len(vs) <= k {
			return vs
		}
		var o []any
		for i := 0; i < k; i++ {
			o = append(o, vs[i*len(vs)/k])
		}
		return append(o, vs[len(vs)-1])
	}
	for _, v := range some(byName("payload.Version"), 6) {
		add(network.CMDVersion, v.(*payload.Version))
	}
	for _, v := range byName("payload.AddressList") {
		add(network.CMDAddr, v.(*payload.AddressList))
	}
	for _, v := range some(byName("payload.Ping"), 3) {
		add(network.CMDPing, v.(*payload.Ping))
		add(network.CMDPong, v.(*payload.Ping))
	}
	for _, v := range some(byName("payload.Inventory"), 8) {
		add(network.CMDInv, v.(*payload.Inventory))
		add(network.CMDGetData, v.(*payload.Inventory))
		add(network.CMDNotFound, v.(*payload.Inventory))
	}
	for _, v := range byName("payload.MPTInventory") {
		add(network.CMDGetMPTData, v.(*payload.MPTInventory))
	}
	for _, v := range some(byName("payload.MPTData"), 4) {
		add(network.CMDMPTData, v.(*payload.MPTData))
	}
	for _, v := range some(byName("payload.GetBlocks"), 4) {
		add(network.CMDGetBlocks, v.(*payload.GetBlocks))
	}
	for _, v := range some(byName("payload.GetBlockByIndex"), 4) {
		add(network.CMDGetBlockByIndex, v.(*payload.GetBlockByIndex))
		add(network.CMDGetHeaders, v.(*payload.GetBlockByIndex))
	}
	for _, v := range byName("payload.Headers") {
		add(network.CMDHeaders, v.(*payload.Headers))
	}
	for _, v := range some(byName("payload.MerkleBlock"), 4) {
		add(network.CMDMerkleBlock, v.(*payload.MerkleBlock))
	}
	for _, v := range some(byName("payload.Extensible"), 8) {
		add(network.CMDExtensible, v.(*payload.Extensible))
	}
	for _, v := range some(byName("payload.P2PNotaryRequest"), 3) {
		add(network.CMDP2PNotaryRequest, v.(*payload.P2PNotaryRequest))
	}
	txs := transactions(th)
	for _, v := range some(toAny(txs), 40) {
		add(network.CMDTX, v.(*transaction.Transaction))
	}
	for _, v := range some(toAny(blocks(false, th)), 8) {
		add(network.CMDBlock, v.(*block.Block))
	}
	return out
}

func messageCodecs() []*codec {
	mk := func(name string, compress bool) *codec {
		return &codec{
			name: name, pkg: "pkg/network",
			gen: func(th bool) []any { return toAny(messages(th)) },
			enc: func(v any) ([]byte, error) {
				m := v.(*network.Message)
				// encode a copy: EncodeCompressed caches the payload bytes and sets Flags
				c := &network.Message{Command: m.Command, Payload: m.Payload, StateRootInHeader: m.StateRootInHeader}
				return c.BytesCompressed(compress)
			},
			dec: func(b []byte) (any, error) {
				m := &network.Message{}
				if err := m.Decode(io.NewBinReaderFromBuf(b)); err != nil {
					return nil, err
				}
				m.Flags = 0 // whether the sender compressed is not part of the content
				return m, nil
			},
			hash: func(v any) string {
				switch p := v.(*network.Message).Payload.(type) {
				case *transaction.Transaction:
					return p.Hash().StringLE()
				case *block.Block:
					return p.Hash().StringLE()
				case *payload.Extensible:
					return p.Hash().StringLE()
				case *payload.P2PNotaryRequest:
					return p.Hash().StringLE()
				}
				return ""
			},
			seedEnc: func(v any) ([]byte, error) {
				m := v.(*network.Message)
				c := &network.Message{Command: m.Command, Payload: m.Payload, StateRootInHeader: m.StateRootInHeader}
				b, err := c.BytesCompressed(false)
				if err != nil || !compress || len(b) < 4 {
					return b, err
				}
				// flags, command, var-int length, payload -> literal-only LZ4 block
				r := io.NewBinReaderFromBuf(b[2:])
				pl := r.ReadVarBytes(payload.MaxSize)
				if r.Err != nil {
					return nil, r.Err
				}
				if len(pl) == 0 {
					return b, nil
				}
				return rawMessage(byte(network.Compressed), m.Command, lz4Literals(pl)), nil
			},
			canon: func(v any) ([]byte, error) {
				m := v.(*network.Message)
				c := &network.Message{Command: m.Command, Payload: m.Payload, StateRootInHeader: m.StateRootInHeader}
				return c.BytesCompressed(false)
			},
			maxSeed: 260,
			reject: func() []namedBytes {
				return []namedBytes{
					{"payload-length-over-MaxSize", cat([]byte{0, 0x18}, varint(payload.MaxSize+1))},
					{"compressed-length-over-MaxSize", cat([]byte{1, 0x18}, varint(8), []byte{0x01, 0x00, 0x00, 0x02, 0x10, 0, 0, 0})},
					{"empty-ping", []byte{0, 0x18, 0}},
					{"unknown-command", []byte{0, 0x77, 1, 0}},
				}
			},
		}
	}
	return []*codec{mk("network.Message/plain", false), mk("network.Message/compressed", true)}
}

// ---- consensus payloads (types are unexported: built from the wire layout) -----------

func le32(v uint32) []byte { b := make([]byte, 4); binary.LittleEndian.PutUint32(b, v); return b }
func le64(v uint64) []byte { b := make([]byte, 8); binary.LittleEndian.PutUint64(b, v); return b }

// consensusMessages returns the wire form of every consensus message shape:
// type, block index, validator index, view number, body.
func consensusMessages(sr bool) []namedBytes {
	var out []namedBytes
	hdr := func(t byte, i int) []byte { return cat([]byte{t}, le32(u32s[i%3]), []byte{u8s[i%3], u8s[(i+1)%3]}) }
	hashes := func(n int) []byte {
		b := varint(uint64(n))
		for k := 0; k < n; k++ {
			b = append(b, u256s[k%3][:]...)
		}
		return b
	}
	k := 0
	add := func(name string, b []byte) { out = append(out, namedBytes{fmt.Sprintf("%s#%d", name, k), b}); k++ }
	// changeView: timestamp, reason (+ rejected hashes for reasons 3 and 4)
	for i, reason := range []byte{0, 1, 2, 5, 6, 0xff} {
		add("changeView", cat(hdr(0x00, i), le64(u64s[i%3]), []byte{reason}))
	}
	for i, reason := range []byte{3, 4} {
		for _, n := range []int{0, 1, 2} {
			add("changeView+hashes", cat(hdr(0x00, i), le64(u64s[n]), []byte{reason}, hashes(n)))
		}
	}
	prepReq := func(i, n int) []byte {
		b := cat(le32(u32s[i%3]), u256s[i%3][:], le64(u64s[i%3]), le64(u64s[(i+1)%3]), hashes(n))
		if sr {
			b = append(b, u256s[(i+2)%3][:]...)
		}
		return b
	}
	for i, n := range []int{0, 1, 2, 3} {
		add("prepareRequest", cat(hdr(0x20, i), prepReq(i, n)))
	}
	for i := 0; i < 3; i++ {
		add("prepareResponse", cat(hdr(0x21, i), u256s[i][:]))
		add("commit", cat(hdr(0x30, i), rep(u8s[i], 64)))
		add("recoveryRequest", cat(hdr(0x40, i), le64(u64s[i])))
	}
	// recoveryMessage: changeViews, (prepareRequest | preparationHash | nothing), preparations, commits
	inv := byteStrings(0)
	cvc := func(i int) []byte {
		return cat([]byte{u8s[i%3], u8s[(i+1)%3]}, le64(u64s[i%3]), varint(uint64(len(inv[i%4]))), inv[i%4])
	}
	prc := func(i int) []byte { return cat([]byte{u8s[i%3]}, varint(uint64(len(inv[i%4]))), inv[i%4]) }
	cmc := func(i int) []byte {
		return cat([]byte{u8s[i%3], u8s[(i+2)%3]}, rep(u8s[i%3], 64), varint(uint64(len(inv[i%4]))), inv[i%4])
	}
	list := func(n int, f func(int) []byte) []byte {
		b := varint(uint64(n))
		for i := 0; i < n; i++ {
			b = append(b, f(i)...)
		}
		return b
	}
	for i, n := range []int{0, 1, 2} {
		preps := [][]byte{
			{0, 0}, // no request, no hash
			cat([]byte{0, 32}, u256s[i][:]),
			cat([]byte{1}, hdr(0x20, i), prepReq(i, n)),
		}
		for _, p := range preps {
			for _, m := range []int{0, 1, 2} {
				add("recoveryMessage", cat(hdr(0x41, i), list(n, cvc), p, list(m, prc), list((m+1)%3, cmc)))
			}
		}
	}
	return append(out, consensusBoundaryMessages(sr)...)
}

func consensusCodecs() []*codec {
	var out []*codec
	for _, sr := range []bool{false, true} {
		sr := sr
		sfx := ""
		if sr {
			sfx = "/stateroot"
		}
		wrap := func(data []byte, i int) []byte {
			e := &payload.Extensible{Category: payload.ConsensusCategory, ValidBlockStart: 0, ValidBlockEnd: u32s[i%3], Sender: u160s[i%3], Data: data,
				Witness: witnesses()[(i*3)%25]}
			b, _ := encS(e)
			return b
		}
		decode := func(b []byte) (any, error) {
			p := consensus.NewPayload(netmode.UnitTestNet, sr)
			r := io.NewBinReaderFromBuf(b)
			p.DecodeBinary(r)
			if r.Err != nil {
				return nil, r.Err
			}
			return p, nil
		}
		// values are obtained by decoding the hand-built wire form (the message
		// types cannot be constructed from outside the package)
		gen := func(bool) []any {
			var vs []any
			for i, m := range consensusMessages(sr) {
				p, err := decode(wrap(m.b, i))
				if err != nil {
					panic(fmt.Sprintf("consensus seed %s does not decode: %v", m.name, err))
				}
				vs = append(vs, p)
			}
			return vs
		}
		// the payload as the node handles it: EncodeBinary re-sends the received Data
		// (the envelope does not depend on the state root flag: once is enough)
		if !sr {
			out = append(out, &codec{
				name: "consensus.Payload", pkg: "pkg/consensus", gen: gen, dec: decode,
				enc:     func(v any) ([]byte, error) { p := *v.(*consensus.Payload); return encS(&p) },
				hash:    func(v any) string { p := *v.(*consensus.Payload); return p.Hash().StringLE() },
				maxSeed: 400,
			})
		}
		// the message codec itself: the message is re-encoded from its fields
		// (Data dropped) and put back into the envelope of the value.
		out = append(out, &codec{
			name: "consensus.message" + sfx, pkg: "pkg/consensus", gen: gen, dec: decode,
			enc: func(v any) ([]byte, error) {
				p := v.(*consensus.Payload)
				q := consensus.NewPayload(netmode.UnitTestNet, sr)
				*q = *p
				q.Extensible = payload.Extensible{Category: p.Category, Sender: p.Sender, Witness: p.Witness}
				b, err := encS(q)
				if err != nil {
					return nil, err
				}
				var e payload.Extensible
				r := io.NewBinReaderFromBuf(b)
				e.DecodeBinary(r)
				if r.Err != nil {
					return nil, r.Err
				}
				return encS(&payload.Extensible{Category: p.Category, ValidBlockStart: p.ValidBlockStart, ValidBlockEnd: p.ValidBlockEnd, Sender: p.Sender, Data: e.Data, Witness: p.Witness})
			},
			noDeepDecoded: true, // Data of an arbitrary input may carry a non-canonical message
			maxSeed:       400,
			group:         "consensus.Payload",
		})
	}
	return out
}

// ---- state root service messages ---------------------------------------------------------

func mptRoots() []*state.MPTRoot {
	var out []*state.MPTRoot
	ws := witnesses()
	for i := 0; i < 3; i++ {
		for _, w := range [][]transaction.Witness{{}, {ws[0]}, {ws[7]}, {ws[len(ws)-1]}} {
			out = append(out, &state.MPTRoot{Version: u8s[i], Index: u32s[(i+1)%3], Root: u256s[i], Witness: w})
		}
	}
	return out
}

func stateRootCodecs() []*codec {
	vote := ser[stateroot.Vote]("stateroot.Vote", "pkg/services/stateroot", func(bool) []*stateroot.Vote {
		var vs []*stateroot.Vote
		for i := 0; i < 3; i++ {
			for _, s := range byteStrings(64) {
				vs = append(vs, &stateroot.Vote{ValidatorIndex: int32(u32s[i]), Height: u32s[(i+1)%3], Signature: s})
			}
		}
		return vs
	})
	vote.withSizeVar()
	vote.reject = func() []namedBytes { return []namedBytes{{"signature-65", cat(rep(0, 8), []byte{65}, rep(1, 65))}} }
	msg := ser[stateroot.Message]("stateroot.Message", "pkg/services/stateroot", func(th bool) []*stateroot.Message {
		var vs []*stateroot.Message
		for _, v := range vote.gen(th) {
			vs = append(vs, stateroot.NewMessage(stateroot.VoteT, v.(*stateroot.Vote)))
		}
		for _, r := range mptRoots() {
			vs = append(vs, stateroot.NewMessage(stateroot.RootT, r))
		}
		return vs
	})
	msg.withSizeVar()
	return []*codec{vote, msg}
}
