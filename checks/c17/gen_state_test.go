// C17 shape generators: stack items, state records, MPT nodes, NEF, manifest.
package c17

import (
	"encoding/json"
	"errors"
	"fmt"
	"math/big"

	"github.com/nspcc-dev/neo-go/pkg/config/limits"
	"github.com/nspcc-dev/neo-go/pkg/core/mpt"
	"github.com/nspcc-dev/neo-go/pkg/core/state"
	"github.com/nspcc-dev/neo-go/pkg/io"
	"github.com/nspcc-dev/neo-go/pkg/smartcontract"
	"github.com/nspcc-dev/neo-go/pkg/smartcontract/callflag"
	"github.com/nspcc-dev/neo-go/pkg/smartcontract/manifest"
	"github.com/nspcc-dev/neo-go/pkg/smartcontract/nef"
	"github.com/nspcc-dev/neo-go/pkg/smartcontract/trigger"
	"github.com/nspcc-dev/neo-go/pkg/util"
	"github.com/nspcc-dev/neo-go/pkg/vm/stackitem"
	"github.com/nspcc-dev/neo-go/pkg/vm/vmstate"
)

// ---- stack items --------------------------------------------------------------------

func serItem(it stackitem.Item) ([]byte, error)  { return stackitem.Serialize(it) }
func deserItem(b []byte) (stackitem.Item, error) { return stackitem.Deserialize(b) }

func bigs() []*big.Int {
	max := new(big.Int).Sub(new(big.Int).Lsh(big.NewInt(1), 255), big.NewInt(1))
	min := new(big.Int).Neg(new(big.Int).Lsh(big.NewInt(1), 255))
	return []*big.Int{big.NewInt(0), big.NewInt(1), big.NewInt(-1), big.NewInt(127), big.NewInt(128), big.NewInt(-128), big.NewInt(-129), max, min}
}

func itemLeaves() []stackitem.Item {
	out := []stackitem.Item{stackitem.Null{}, stackitem.NewBool(false), stackitem.NewBool(true)}
	for _, b := range bigs() {
		out = append(out, stackitem.NewBigInteger(b))
	}
	for _, b := range byteStrings(0x100) {
		out = append(out, stackitem.NewByteArray(b), stackitem.NewBuffer(b))
	}
	return out
}

func itemCompose(children []stackitem.Item, keys []stackitem.Item) []stackitem.Item {
	var out []stackitem.Item
	out = append(out, stackitem.NewArray([]stackitem.Item{}), stackitem.NewStruct([]stackitem.Item{}), stackitem.NewMap())
	for _, a := range children {
		out = append(out, stackitem.NewArray([]stackitem.Item{a}), stackitem.NewStruct([]stackitem.Item{a}))
		for _, k := range keys {
			out = append(out, stackitem.NewMapWithValue([]stackitem.MapElement{{Key: k, Value: a}}))
		}
	}
	for _, a := range children {
		for _, b := range children {
			out = append(out, stackitem.NewArray([]stackitem.Item{a, b}), stackitem.NewStruct([]stackitem.Item{a, b}))
		}
		out = append(out, stackitem.NewMapWithValue([]stackitem.MapElement{{Key: keys[0], Value: a}, {Key: keys[1], Value: children[0]}}))
	}
	return out
}

// stackItems: all leaves, all depth-2 compositions over four leaves, all depth-3
// compositions over those leaves and four depth-2 shapes, plus a shared
// sub-item (serialised twice) and maximal sizes.
func stackItems() []stackitem.Item {
	leaves := itemLeaves()
	l4 := []stackitem.Item{leaves[0], leaves[2], leaves[4], stackitem.NewByteArray([]byte{0x01, 0xfd})}
	keys := []stackitem.Item{stackitem.NewByteArray([]byte{}), stackitem.NewBigInteger(big.NewInt(1)), stackitem.NewBool(true)}
	d2 := itemCompose(l4, keys)
	mix := append(append([]stackitem.Item{}, l4[:2]...), d2[0], d2[3], d2[5], d2[len(d2)-1])
	d3 := itemCompose(mix, keys)
	out := append(append(append([]stackitem.Item{}, leaves...), d2...), d3...)
	shared := stackitem.NewArray([]stackitem.Item{stackitem.NewBigInteger(big.NewInt(7))})
	out = append(out, stackitem.NewArray([]stackitem.Item{shared, shared}))
	wide := make([]stackitem.Item, stackitem.MaxDeserialized-1)
	for i := range wide {
		wide[i] = stackitem.Null{}
	}
	out = append(out, stackitem.NewArray(wide))
	return out
}

type itemBox struct{ I stackitem.Item }

func boxItems(its []stackitem.Item) []any {
	out := make([]any, len(its))
	for i := range its {
		out[i] = &itemBox{its[i]}
	}
	return out
}

func nestedArrays(n int) []byte {
	var b []byte
	for i := 0; i < n-1; i++ {
		b = append(b, 0x40, 1)
	}
	return append(b, 0x40, 0)
}

func jsonable(it stackitem.Item, depth int) bool {
	switch t := it.(type) {
	case stackitem.Null, stackitem.Bool:
		return true
	case *stackitem.BigInteger:
		return t.Big().IsInt64() && t.Big().Int64() < 1<<52 && t.Big().Int64() > -(1<<52)
	case *stackitem.Array:
		for _, e := range t.Value().([]stackitem.Item) {
			if !jsonable(e, depth+1) {
				return false
			}
		}
		return true
	case *stackitem.Map:
		for _, e := range t.Value().([]stackitem.MapElement) {
			if _, ok := e.Key.(*stackitem.ByteArray); !ok || !jsonable(e.Value, depth+1) {
				return false
			}
		}
		return true
	}
	return false
}

func itemCodecs() []*codec {
	const pp = "pkg/vm/stackitem"
	bin := &codec{
		name: "stackitem.Item", pkg: pp,
		gen: func(bool) []any { return boxItems(stackItems()) },
		enc: func(v any) ([]byte, error) { return stackitem.Serialize(v.(*itemBox).I) },
		dec: func(b []byte) (any, error) {
			it, err := stackitem.Deserialize(b)
			if err != nil {
				return nil, err
			}
			return &itemBox{it}, nil
		},
		jenc: func(v any) ([]byte, error) { return stackitem.ToJSONWithTypes(v.(*itemBox).I) },
		jdec: func(b []byte) (any, error) {
			it, err := stackitem.FromJSONWithTypes(b)
			if err != nil {
				return nil, err
			}
			return &itemBox{it}, nil
		},
		cheap: true,
		accept: func() []namedBytes {
			return []namedBytes{{"2048-nested-arrays", nestedArrays(stackitem.MaxDeserialized)},
				{"2047-element-array", cat([]byte{0x40}, varint(stackitem.MaxDeserialized-1), rep(0x00, stackitem.MaxDeserialized-1))},
				{"1023-pair-map", cat([]byte{0x48}, varint(1023), bytesRepeat([]byte{0x20, 1, 0x00}, 1023))}}
		},
		reject: func() []namedBytes {
			return []namedBytes{{"2049-nested-arrays", nestedArrays(stackitem.MaxDeserialized + 1)},
				{"2048-element-array", cat([]byte{0x40}, varint(stackitem.MaxDeserialized), rep(0x00, stackitem.MaxDeserialized))},
				{"integer-33-bytes", cat([]byte{0x21, 33}, rep(1, 33))},
				{"interop", []byte{0x60}}, {"pointer", []byte{0x10, 0}}, {"invalid-type", []byte{0xff}}}
		},
	}
	prot := &codec{
		name: "stackitem.Item/protected", pkg: pp,
		gen: func(bool) []any {
			its := stackItems()
			its = its[:len(its)/3]
			its = append(its, stackitem.NewInterop(nil), stackitem.NewPointerWithHash(0, nil, util.Uint160{}), stackitem.NewPointerWithHash(0xfd, nil, util.Uint160{}),
				stackitem.NewArray([]stackitem.Item{stackitem.NewInterop(nil), stackitem.NewPointerWithHash(1, nil, util.Uint160{})}))
			return boxItems(its)
		},
		enc: func(v any) ([]byte, error) {
			return encW(func(w *io.BinWriter) { stackitem.EncodeBinaryProtected(v.(*itemBox).I, w) })
		},
		dec: func(b []byte) (any, error) {
			r := io.NewBinReaderFromBuf(b)
			it := stackitem.DecodeBinaryProtected(r)
			if r.Err != nil {
				return nil, r.Err
			}
			return &itemBox{it}, nil
		},
		cheap: true,
	}
	js := &codec{
		name: "stackitem.Item/JSON", pkg: pp,
		gen: func(bool) []any {
			var its []stackitem.Item
			for _, it := range stackItems() {
				if jsonable(it, 0) {
					its = append(its, it)
				}
			}
			m := stackitem.NewMapWithValue([]stackitem.MapElement{{Key: stackitem.NewByteArray([]byte("a")), Value: stackitem.NewBool(true)},
				{Key: stackitem.NewByteArray([]byte("")), Value: stackitem.NewArray([]stackitem.Item{stackitem.Null{}, stackitem.NewBigInteger(big.NewInt(1<<52 - 1))})}})
			its = append(its, m, stackitem.NewArray([]stackitem.Item{m}))
			return boxItems(its[:min(len(its), 400)])
		},
		enc: func(v any) ([]byte, error) { return stackitem.ToJSON(v.(*itemBox).I) },
		dec: func(b []byte) (any, error) {
			it, err := stackitem.FromJSON(b, stackitem.MaxDeserialized, true)
			if err != nil {
				return nil, err
			}
			return &itemBox{it}, nil
		},
		accept: func() []namedBytes {
			return []namedBytes{{"depth-10", []byte("[[[[[[[[[[1]]]]]]]]]]")}}
		},
		// ToJSON documents MaxAllowedInteger (2^53-1) "allowed to be encoded" and
		// refuses byte strings that are not UTF-8; FromJSON accepts any 256-bit
		// integer: not a round-trip pair outside the encoder's domain.
		encMayFail: func(err error) bool { return errors.Is(err, stackitem.ErrInvalidValue) },
		reject: func() []namedBytes {
			return []namedBytes{{"depth-11", []byte("[[[[[[[[[[[1]]]]]]]]]]]")}, {"duplicate-key", []byte(`{"a":1,"a":2}`)}, {"fraction", []byte("1.5")},
				// integers are limited to 256 bits (stackitem.MaxBigIntegerSizeBits)
				{"integer-over-256-bits", []byte("1e77")}, {"integer-with-exponent-6e8", []byte("1e600000000")}}
		},
	}
	return []*codec{bin, prot, js}
}

// ---- state ------------------------------------------------------------------------------

func itemArrays() []*stackitem.Array {
	var out []*stackitem.Array
	its := stackItems()
	out = append(out, stackitem.NewArray([]stackitem.Item{}))
	for i := 0; i < len(its); i += len(its) / 12 {
		out = append(out, stackitem.NewArray([]stackitem.Item{its[i]}))
	}
	out = append(out, stackitem.NewArray([]stackitem.Item{its[3], its[20], its[len(its)-5]}))
	return out
}

func notifications() []*state.NotificationEvent {
	var out []*state.NotificationEvent
	names := []string{"", "a", "Transfer", string(rep('n', 32))}
	for i, arr := range itemArrays() {
		out = append(out, &state.NotificationEvent{ScriptHash: u160s[i%3], Name: names[i%4], Item: arr})
	}
	return out
}

func invocations() []*state.ContractInvocation {
	var out []*state.ContractInvocation
	names := []string{"", "m", "transfer"}
	i := 0
	for _, arr := range itemArrays()[:5] {
		b, err := stackitem.Serialize(arr)
		if err != nil {
			panic(err)
		}
		out = append(out, state.NewContractInvocation(u160s[i%3], names[i%3], b, u32s[i%3]))
		i++
	}
	out = append(out, state.NewContractInvocation(u160s[1], "t", nil, 5)) // truncated
	return out
}

func appExecResults() []*state.AppExecResult {
	var out []*state.AppExecResult
	its := stackItems()
	stacks := [][]stackitem.Item{{}, {its[2]}, {its[4], its[len(its)-3]}, {stackitem.NewInterop(nil), stackitem.NewPointerWithHash(3, nil, util.Uint160{})}}
	ns := notifications()
	events := [][]state.NotificationEvent{{}, {*ns[0]}, {*ns[1], *ns[len(ns)-1]}}
	invs := invocations()
	invLists := [][]state.ContractInvocation{nil, {*invs[0]}, {*invs[1], *invs[len(invs)-1]}}
	trigs := []trigger.Type{trigger.OnPersist, trigger.PostPersist, trigger.Application, trigger.Verification}
	states := []vmstate.State{vmstate.Halt, vmstate.Fault, vmstate.None, vmstate.Break}
	gas := []int64{0, 1, 1<<63 - 1}
	faults := []string{"", "e", "unhandled exception: \"x\"\xff"}
	i := 0
	for _, st := range stacks {
		for _, ev := range events {
			for _, inv := range invLists {
				out = append(out, &state.AppExecResult{Container: u256s[i%3], Execution: state.Execution{
					Trigger: trigs[i%4], VMState: states[i%4], GasConsumed: gas[i%3], Stack: st, Events: ev, FaultException: faults[i%3], Invocations: inv}})
				i++
			}
		}
	}
	return out
}

func transfers17() []*state.NEP17Transfer {
	var out []*state.NEP17Transfer
	for i, a := range bigs() {
		out = append(out, &state.NEP17Transfer{Asset: int32(u32s[i%3]), Counterparty: u160s[i%3], Amount: a, Block: u32s[(i+1)%3], Timestamp: u64s[i%3], Tx: u256s[(i+2)%3]})
	}
	return out
}

type transferList struct{ T []*state.NEP17Transfer }

type convBox[T any] struct{ V *T }

// conv builds a codec for a stackitem.Convertible type stored through
// stackitem.SerializeConvertible / DeserializeConvertible.
func conv[T any, PT interface {
	*T
	stackitem.Convertible
}](name, pkg string, gen func() []*T) *codec {
	return &codec{
		name: name, pkg: pkg,
		gen: func(bool) []any { return toAny(gen()) },
		enc: func(v any) ([]byte, error) { return stackitem.SerializeConvertible(PT(v.(*T))) },
		dec: func(b []byte) (any, error) {
			var t T
			if err := stackitem.DeserializeConvertible(b, PT(&t)); err != nil {
				return nil, err
			}
			return &t, nil
		},
	}
}

func stateCodecs() []*codec {
	const pp = "pkg/core/state"
	var out []*codec
	mr := ser[state.MPTRoot]("state.MPTRoot", pp, func(bool) []*state.MPTRoot { return mptRoots() })
	withJSON[state.MPTRoot](mr).withSizeVar()
	mr.hash = func(v any) string { return v.(*state.MPTRoot).Hash().StringLE() }
	mr.reject = func() []namedBytes {
		return []namedBytes{{"two-witnesses", cat(rep(0, 37), []byte{2, 0, 0, 0, 0})}}
	}
	out = append(out, mr)

	ne := ser[state.NotificationEvent]("state.NotificationEvent", pp, func(bool) []*state.NotificationEvent { return notifications() })
	withJSON[state.NotificationEvent](ne).withSizeVar()
	out = append(out, ne)

	ci := ser[state.ContractInvocation]("state.ContractInvocation", pp, func(bool) []*state.ContractInvocation { return invocations() })
	ci.withSizeVar()
	out = append(out, ci)

	aer := ser[state.AppExecResult]("state.AppExecResult", pp, func(bool) []*state.AppExecResult { return appExecResults() })
	aer.withSizeVar()
	aer.jenc = func(v any) ([]byte, error) {
		a := v.(*state.AppExecResult)
		if len(a.Invocations) > 0 {
			return nil, errNoJSON // JSON carries the arguments as items, the binary form as bytes
		}
		for _, it := range a.Stack {
			if !restorableFromJSON(it, 0) {
				return nil, errNoJSON // interop items, pointers and the protected form's marker of an unserialisable item (nil) are not restorable from JSON by design
			}
		}
		if a.VMState != vmstate.Halt && a.VMState != vmstate.Fault {
			return nil, errNoJSON
		}
		return json.Marshal(a)
	}
	aer.jdec = func(b []byte) (any, error) {
		var a state.AppExecResult
		if err := json.Unmarshal(b, &a); err != nil {
			return nil, err
		}
		return &a, nil
	}
	out = append(out, aer)

	t17 := ser[state.NEP17Transfer]("state.NEP17Transfer", pp, func(bool) []*state.NEP17Transfer { return transfers17() })
	t17.withSizeVar()
	t17.reject = func() []namedBytes {
		return []namedBytes{{"amount-33-bytes", cat(rep(0, 4+32+20+4+8), []byte{33}, rep(1, 33))}}
	}
	out = append(out, t17)
	t11 := ser[state.NEP11Transfer]("state.NEP11Transfer", pp, func(bool) []*state.NEP11Transfer {
		var vs []*state.NEP11Transfer
		ts := transfers17()
		for i, id := range byteStrings(limits.MaxStorageKeyLen) {
			vs = append(vs, &state.NEP11Transfer{NEP17Transfer: *ts[i], ID: id})
		}
		return vs
	})
	t11.withSizeVar()
	t11.reject = func() []namedBytes {
		return []namedBytes{{"id-65-bytes", cat(rep(0, 4+32+20+4+8), []byte{1, 1, 65}, rep(1, 65))}}
	}
	out = append(out, t11)

	tl := &codec{
		name: "state.TokenTransferLog/NEP17", pkg: pp,
		gen: func(bool) []any {
			ts := transfers17()
			many := make([]*state.NEP17Transfer, state.TokenTransferBatchSize)
			for i := range many {
				many[i] = ts[i%len(ts)]
			}
			return []any{&transferList{ts[:1]}, &transferList{ts[1:3]}, &transferList{ts}, &transferList{many}}
		},
		enc: func(v any) ([]byte, error) {
			var lg state.TokenTransferLog
			for _, t := range v.(*transferList).T {
				if err := lg.Append(t); err != nil {
					return nil, err
				}
			}
			return lg.Raw, nil
		},
		dec: func(b []byte) (any, error) {
			lg := &state.TokenTransferLog{Raw: b}
			var l transferList
			_, err := lg.ForEachNEP17(func(t *state.NEP17Transfer) (bool, error) {
				l.T = append([]*state.NEP17Transfer{t}, l.T...)
				return true, nil
			})
			if err != nil {
				return nil, err
			}
			if len(l.T) != lg.Size() {
				return nil, errors.New("harness: size mismatch")
			}
			return &l, nil
		},
	}
	out = append(out, tl)

	tti := ser[state.TokenTransferInfo]("state.TokenTransferInfo", pp, func(bool) []*state.TokenTransferInfo {
		var vs []*state.TokenTransferInfo
		maps := []map[int32]uint32{{}, {0: 0}, {-1: 1, 1: 0xffffffff}, {1: 1, 2: 2, -2147483648: 3}}
		for i, m := range maps {
			for _, b := range []bool{false, true} {
				vs = append(vs, &state.TokenTransferInfo{LastUpdated: m, NextNEP11Batch: u32s[i%3], NextNEP17Batch: u32s[(i+1)%3],
					NextNEP11NewestTimestamp: u64s[i%3], NextNEP17NewestTimestamp: u64s[(i+2)%3], NewNEP11Batch: b, NewNEP17Batch: !b})
			}
		}
		return vs
	})
	tti.noBytes = true // the map is written in iteration order
	out = append(out, tti)

	nb := &codec{
		name: "state.NEP17Balance", pkg: pp,
		gen: func(bool) []any {
			var vs []any
			for _, b := range bigs() {
				vs = append(vs, &state.NEP17Balance{Balance: *b})
			}
			return vs
		},
		enc: func(v any) ([]byte, error) { return v.(*state.NEP17Balance).Bytes(nil), nil },
		dec: func(b []byte) (any, error) {
			x, err := state.NEP17BalanceFromBytes(b)
			if err != nil {
				return nil, err
			}
			return x, nil
		},
		cheap: true,
	}
	out = append(out, nb)
	neo := &codec{
		name: "state.NEOBalance", pkg: pp,
		gen: func(bool) []any {
			var vs []any
			bs := bigs()
			for i, b := range bs[:7] {
				var vote = pubs[i%3]
				if i%2 == 0 {
					vote = nil
				}
				vs = append(vs, &state.NEOBalance{NEP17Balance: state.NEP17Balance{Balance: *b}, BalanceHeight: u32s[i%3], VoteTo: vote, LastGasPerVote: *bs[(i+3)%7]})
			}
			return vs
		},
		enc: func(v any) ([]byte, error) {
			return v.(*state.NEOBalance).Bytes(stackitem.NewSerializationContext()), nil
		},
		dec: func(b []byte) (any, error) {
			x, err := state.NEOBalanceFromBytes(b)
			if err != nil {
				return nil, err
			}
			return x, nil
		},
	}
	out = append(out, neo)

	dep := conv[state.Deposit]("state.Deposit", pp, func() []*state.Deposit {
		var vs []*state.Deposit
		for i, b := range bigs()[:7] {
			vs = append(vs, &state.Deposit{Amount: b, Till: u32s[i%3]})
		}
		return vs
	})
	out = append(out, dep)
	oreq := conv[state.OracleRequest]("state.OracleRequest", pp, func() []*state.OracleRequest {
		var vs []*state.OracleRequest
		f1, f2 := "", "$.a"
		filters := []*string{nil, &f1, &f2}
		strs := []string{"", "u", "https://x/"}
		for i := 0; i < 3; i++ {
			for j, ud := range byteStrings(0x100) {
				vs = append(vs, &state.OracleRequest{OriginalTxID: u256s[i], GasForResponse: u64s[i], URL: strs[(i+j)%3], Filter: filters[(i+j)%3],
					CallbackContract: u160s[i], CallbackMethod: strs[(i+j+1)%3], UserData: ud})
			}
		}
		return vs
	})
	out = append(out, oreq)

	ctr := conv[state.Contract]("state.Contract", pp, func() []*state.Contract {
		var vs []*state.Contract
		ms := manifests()
		ns := nefFiles()
		for i := 0; i < len(ms); i++ {
			vs = append(vs, &state.Contract{ContractBase: state.ContractBase{ID: int32(u32s[i%3]), Hash: u160s[i%3], NEF: *ns[i%len(ns)], Manifest: *ms[i]}, UpdateCounter: u16s[i%3]})
		}
		return vs
	})
	withJSON[state.Contract](ctr)
	ctr.maxSeed = 500
	out = append(out, ctr)
	return out
}

// ---- MPT nodes ------------------------------------------------------------------------------

type nodeBox = mpt.NodeObject

func mptNodes() []*mpt.NodeObject {
	var out []*mpt.NodeObject
	add := func(n mpt.Node) { out = append(out, &mpt.NodeObject{Node: n}) }
	var leaves []mpt.Node
	for _, v := range byteStrings(mpt.MaxValueLength) {
		leaves = append(leaves, mpt.NewLeafNode(v))
	}
	hashes := []mpt.Node{mpt.NewHashNode(u256s[0]), mpt.NewHashNode(u256s[1]), mpt.NewHashNode(u256s[2])}
	for _, n := range leaves {
		add(n)
	}
	for _, n := range hashes {
		add(n)
	}
	add(mpt.EmptyNode{})
	keys := [][]byte{{0x01}, {0x0f, 0x00}, rep(0x0a, mpt.MaxKeyLength*2)}
	kids := []mpt.Node{leaves[1], leaves[3], hashes[1]}
	var exts []mpt.Node
	for _, k := range keys {
		for _, c := range kids {
			e := mpt.NewExtensionNode(k, c)
			exts = append(exts, e)
			add(e)
		}
	}
	branch := func(set map[int]mpt.Node) mpt.Node {
		b := mpt.NewBranchNode()
		for i, c := range set {
			b.Children[i] = c
		}
		return b
	}
	b1 := branch(map[int]mpt.Node{0: leaves[1], 16: leaves[2]})
	b2 := branch(map[int]mpt.Node{3: hashes[2], 15: exts[0]})
	all := map[int]mpt.Node{}
	for i := 0; i < 17; i++ {
		all[i] = kids[i%3]
	}
	add(b1)
	add(b2)
	add(branch(all))
	add(branch(map[int]mpt.Node{}))
	// depth 3
	add(mpt.NewExtensionNode(keys[0], b1))
	add(mpt.NewExtensionNode(keys[1], b2))
	add(branch(map[int]mpt.Node{1: mpt.NewExtensionNode(keys[0], b1), 2: b2}))
	return out
}

func mptCodecs() []*codec {
	c := ser[mpt.NodeObject]("mpt.NodeObject", "pkg/core/mpt", func(bool) []*mpt.NodeObject { return mptNodes() })
	c.hash = func(v any) string {
		n := v.(*mpt.NodeObject).Node
		if n == nil || n.Type() == mpt.EmptyT {
			return "" // EmptyNode.Hash panics by design
		}
		return n.Hash().StringLE()
	}
	c.size = func(v any) int { return v.(*mpt.NodeObject).Size() }
	c.sizeAdj = -1  // Size() is documented to exclude the type byte
	c.noDeep = true // children are stored by hash
	c.jenc = func(v any) ([]byte, error) { return json.Marshal(v.(*mpt.NodeObject).Node) }
	c.jdec = func(b []byte) (any, error) {
		var n mpt.NodeObject
		if err := json.Unmarshal(b, &n); err != nil {
			return nil, err
		}
		return &n, nil
	}
	c.cheap = true
	c.reject = func() []namedBytes {
		deep := func(n int) []byte {
			var b []byte
			for i := 0; i < n; i++ {
				b = append(b, 0x01, 0x00) // extension with an empty key
			}
			return append(b, 0x04)
		}
		return []namedBytes{
			{"leaf-value-too-long", cat([]byte{0x02}, varint(mpt.MaxValueLength+1), rep(0, mpt.MaxValueLength+1))},
			{"extension-key-too-long", cat([]byte{0x01}, varint(mpt.MaxKeyLength*2+1), rep(0, mpt.MaxKeyLength*2+1), []byte{0x04})},
			{"nesting-over-limit", deep(mpt.MaxKeyLength*2 + 2)},
			{"invalid-type", []byte{0x05}},
		}
	}
	return []*codec{c}
}

// ---- NEF ------------------------------------------------------------------------------------

func methodTokens() []*nef.MethodToken {
	var out []*nef.MethodToken
	names := []string{"", "a", "transfer", string(rep('m', 32))}
	flags := []callflag.CallFlag{callflag.NoneFlag, callflag.ReadStates, callflag.All}
	for i, n := range names {
		for j := 0; j < 3; j++ {
			out = append(out, &nef.MethodToken{Hash: u160s[j], Method: n, ParamCount: u16s[(i+j)%3], HasReturn: (i+j)%2 == 0, CallFlag: flags[(i+j)%3]})
		}
	}
	return out
}

func nefFiles() []*nef.File {
	var out []*nef.File
	toks := methodTokens()
	tokLists := [][]nef.MethodToken{{}, {*toks[1]}, {*toks[2], *toks[len(toks)-1]}}
	i := 0
	for _, comp := range []string{"", "c", string(rep('z', 64))} {
		for _, src := range []string{"", "s", string(rep('u', nef.MaxSourceURLLength))} {
			for _, tl := range tokLists {
				for _, sc := range [][]byte{{0x40}, {0x01, 0xfd}, rep(0x21, 0x100)} {
					if i%4 != 0 && len(src) > 1 {
						i++
						continue
					}
					f := &nef.File{Header: nef.Header{Magic: nef.Magic, Compiler: comp}, Source: src, Tokens: tl, Script: sc}
					f.Checksum = f.CalculateChecksum()
					out = append(out, f)
					i++
				}
			}
		}
	}
	return out
}

func nefCodecs() []*codec {
	mt := ser[nef.MethodToken]("nef.MethodToken", "pkg/smartcontract/nef", func(bool) []*nef.MethodToken { return methodTokens() })
	withJSON[nef.MethodToken](mt).withSizeVar()
	mt.reject = func() []namedBytes {
		return []namedBytes{{"method-33", cat(rep(0, 20), []byte{33}, rep('a', 33), []byte{0, 0, 0, 0})},
			{"underscore", cat(rep(0, 20), []byte{1, '_', 0, 0, 0, 0})}, {"bad-callflag", cat(rep(0, 20), []byte{1, 'a', 0, 0, 0, 0x10})}}
	}
	f := &codec{
		name: "nef.File", pkg: "pkg/smartcontract/nef",
		gen: func(bool) []any { return toAny(nefFiles()) },
		enc: func(v any) ([]byte, error) { return v.(*nef.File).Bytes() },
		dec: func(b []byte) (any, error) {
			x, err := nef.FileFromBytes(b)
			if err != nil {
				return nil, err
			}
			return &x, nil
		},
		size: func(v any) int { return io.GetVarSize(v) },
	}
	withJSON[nef.File](f)
	f.reject = func() []namedBytes {
		good, _ := nefFiles()[0].Bytes()
		return []namedBytes{
			{"bad-checksum", func() []byte { b := append([]byte{}, good...); b[len(b)-1] ^= 1; return b }()},
			{"bad-magic", func() []byte { b := append([]byte{}, good...); b[0] ^= 1; return b }()},
			{"source-257", cat(good[:68], varint(nef.MaxSourceURLLength+1), rep('a', nef.MaxSourceURLLength+1), []byte{0, 0, 0, 0, 1, 0x40, 0, 0, 0, 0})},
		}
	}
	return []*codec{mt, f}
}

// ---- manifest ---------------------------------------------------------------------------------

func manifests() []*manifest.Manifest {
	var out []*manifest.Manifest
	params := [][]manifest.Parameter{{}, {manifest.NewParameter("a", smartcontract.IntegerType)},
		{manifest.NewParameter("from", smartcontract.Hash160Type), manifest.NewParameter("data", smartcontract.AnyType)}}
	rets := []smartcontract.ParamType{smartcontract.VoidType, smartcontract.BoolType, smartcontract.ArrayType}
	var methods []manifest.Method
	for i, p := range params {
		methods = append(methods, manifest.Method{Name: []string{"main", "transfer", "_deploy"}[i], Offset: []int{0, 1, 65535}[i], Parameters: p, ReturnType: rets[i], Safe: i == 1})
	}
	var events []manifest.Event
	for i, p := range params {
		events = append(events, manifest.Event{Name: []string{"E", "Transfer", ""}[i], Parameters: p})
	}
	groups := [][]manifest.Group{{}, {{PublicKey: pubs[0], Signature: rep(1, 64)}}, {{PublicKey: pubs[1], Signature: rep(0, 64)}, {PublicKey: pubs[2], Signature: rep(0xff, 64)}}}
	perm := func(t manifest.PermissionType, arg any, methods []string) manifest.Permission {
		var p *manifest.Permission
		if arg == nil {
			p = manifest.NewPermission(t)
		} else {
			p = manifest.NewPermission(t, arg)
		}
		p.Methods.Value = methods
		return *p
	}
	perms := [][]manifest.Permission{
		{},
		{perm(manifest.PermissionWildcard, nil, nil)},
		{perm(manifest.PermissionHash, u160s[1], []string{}), perm(manifest.PermissionGroup, pubs[0], []string{"a", "b"})},
	}
	trusts := []manifest.WildPermissionDescs{
		{Value: nil, Wildcard: true},
		{Value: []manifest.PermissionDesc{}},
		{Value: []manifest.PermissionDesc{{Type: manifest.PermissionHash, Value: u160s[2]}, {Type: manifest.PermissionGroup, Value: pubs[1]}}},
	}
	stds := [][]string{{}, {"NEP-17"}, {"NEP-11", "NEP-24"}}
	extras := []json.RawMessage{json.RawMessage("null"), json.RawMessage(`{"a":1}`), json.RawMessage(`"x"`)}
	names := []string{"c", "Contract", string(rep('n', 40))}
	for a := 0; a < 3; a++ {
		for b := 0; b < 3; b++ {
			for c := 0; c < 3; c++ {
				m := manifest.NewManifest(names[a])
				m.ABI.Methods = methods[:1+b]
				m.ABI.Events = events[:c]
				m.Groups = groups[(a+b)%3]
				m.Permissions = perms[(b+c)%3]
				m.Trusts = trusts[(a+c)%3]
				m.SupportedStandards = stds[(a+b+c)%3]
				m.Extra = extras[(a+2*b+c)%3]
				out = append(out, m)
			}
		}
	}
	return out
}

func manifestCodecs() []*codec {
	c := conv[manifest.Manifest]("manifest.Manifest", "pkg/smartcontract/manifest", manifests)
	withJSON[manifest.Manifest](c)
	c.maxSeed = 400
	return []*codec{c}
}

var _ = fmt.Sprint

// restorableFromJSON: no Interop, Pointer or nil (unserialisable marker) anywhere in the item.
func restorableFromJSON(it stackitem.Item, depth int) bool {
	if depth > 64 {
		return false
	}
	switch t := it.(type) {
	case nil, *stackitem.Interop, *stackitem.Pointer:
		return false
	case *stackitem.Array:
		for _, e := range t.Value().([]stackitem.Item) {
			if !restorableFromJSON(e, depth+1) {
				return false
			}
		}
	case *stackitem.Struct:
		for _, e := range t.Value().([]stackitem.Item) {
			if !restorableFromJSON(e, depth+1) {
				return false
			}
		}
	case *stackitem.Map:
		for _, e := range t.Value().([]stackitem.MapElement) {
			if !restorableFromJSON(e.Key, depth+1) || !restorableFromJSON(e.Value, depth+1) {
				return false
			}
		}
	}
	return true
}
